(* Property C12 — statements only.  Each theorem is closed by [exact] of a lemma proved in the
   C12/ files; Print Assumptions is evaluated by ./check on every run.

   Reading guide.  [encode]/[decode]/[valid]/[validate_and_encode]/[order_by_index]/[modify]/
   [construct]/[json_decode] are the Gallina models (C12/Model.v) of StructCodec.make_encode /
   make_decode, the jsonschema validation of the modified schema, MetadataSchema.
   validate_and_encode_row, StructCodec.order_by_index / modify_schema, MetadataSchema() and
   JSONCodec.decode.  [norm] is the specification of what must come back (defaults filled,
   binary32 rounding, fixed-width truncation / padding, NUL termination).  round32 / widen32
   (IEEE binary64 <-> binary32 on bit patterns) and Python's json are universally quantified:
   the theorems hold for whatever the platform's conversions are.  [DFuel] is the out-of-fuel
   outcome of the exhaust-buffer loop; theorems either exclude it or (findings) exhibit it. *)
From Coq Require Import List ZArith Permutation Sorting.
From TskVerif Require Import Base.Common Gen.Generated C12.Model C12.BytesProofs C12.Unfold C12.ShapeProofs C12.RoundTripProofs
  C12.LayoutProofs C12.OrderProofs C12.ExhaustProofs C12.ValidProofs C12.JsonProofs C12.NormProofs
  C12.StringProofs C12.TotalProofs C12.NumpyProofs C12.TextProofs C12.RowView C12.RowViewProofs.
From TskVerif Require Import C12.Injective.
Import ListNotations.
Open Scope Z_scope.

(* ---- (d) struct's little-endian integers: every width, signed and unsigned ---- *)
Theorem le_int_roundtrip : forall f z, in_range f z = true ->
  signed_of f (le_val (le_bytes (isize f) (z mod imod f))) = z /\
  length (le_bytes (isize f) (z mod imod f)) = isize f.
Proof. exact int_pack_unpack. Qed.

Theorem le_bytes_inverse : forall l, Forall (fun b => 0 <= b < 256) l ->
  le_bytes (length l) (le_val l) = l.
Proof. exact le_bytes_le_val. Qed.

Theorem be_int_roundtrip : forall n z, 0 <= z < 256 ^ Z.of_nat n ->
  be_val (be_bytes n z) = z /\ length (be_bytes n z) = n.
Proof. intros n z H. split; [exact (be_val_be_bytes n z H) | exact (be_bytes_length n z)]. Qed.

Theorem int_out_of_range_is_rejected : forall round32 f z,
  in_range f z = false -> pack_num round32 (BInt f) (VInt z) = EErr EStruct.
Proof. exact int_out_of_range_rejected. Qed.

(* ---- (a) round trip ---- *)
(* [shape_ok]: the struct-codec schema rules hold at every level (binaryFormat present, every
   property required or defaulted, defaults valid).  [rt_ok]: type and format agree, no '0p', no
   exhaust-buffer array.  For every such schema and every object valid under it that encodes,
   decode gives the normal form back and leaves the following bytes alone (so decode consumes
   exactly |encode| bytes) *)
Theorem struct_roundtrip : forall round32 widen32 s, rt_ok s = true -> shape_ok s = true ->
  forall fuel v bs rest, valid s v = true -> encode round32 s v = EOk bs ->
  decode widen32 fuel s (bs ++ rest) = DOk (norm round32 widen32 s v) rest.
Proof. exact struct_roundtrip_gen. Qed.

(* encode is total on the validated domain: [in_domain] = every leaf inside the documented range
   of its binaryFormat (integer range, no float into an integer format, no binary32 overflow, 'c'
   one byte, array lengths as the mode demands) — so the round trip needs no "that encodes" *)
Theorem encode_total : forall round32 s, shape_ok s = true ->
  forall v, valid s v = true -> in_domain round32 s v = true -> exists bs, encode round32 s v = EOk bs.
Proof. exact TotalProofs.encode_total. Qed.

Theorem struct_roundtrip_total : forall round32 widen32 s,
  rt_ok s = true -> shape_ok s = true ->
  forall v, valid s v = true -> in_domain round32 s v = true ->
  exists bs, encode round32 s v = EOk bs /\
             forall fuel rest, decode widen32 fuel s (bs ++ rest) = DOk (norm round32 widen32 s v) rest.
Proof. exact TotalProofs.struct_roundtrip_total. Qed.

(* validate_and_encode_row then decode_row, top level "object" or ["object","null"] *)
Theorem struct_roundtrip_row : forall round32 widen32 t v bs fuel,
  rt_ok (t_schema t) = true -> shape_ok (t_schema t) = true ->
  validate_and_encode round32 t v = EOk bs ->
  (t_nullable t = true -> v <> VNull -> bs <> []) ->
  decode_top widen32 fuel t bs = DOk (norm_top round32 widen32 t v) [].
Proof. exact struct_roundtrip_top. Qed.

(* validation protects the encoder: a validated row never dies with KeyError / AttributeError
   (so object_encode's `except KeyError` fallback is never taken) — under shape_ok *)
Theorem valid_protects_encoder : forall round32 s, shape_ok s = true ->
  forall v, valid s v = true -> forall e, encode round32 s v = EErr e -> e <> EKey /\ e <> EAttr.
Proof.
  intros round32 s Hs v Hv e He. pose proof (ShapeProofs.valid_protects_encoder round32 s Hs v Hv e He) as H.
  split; intros ->; apply H; [left | right]; reflexivity.
Qed.

(* nullTerminated in multi-byte encodings (the model's [cut nt] scans whole nt-byte code units):
   for a stateless encoding whose characters are whole u-byte units, NUL being the only all-zero
   unit, and with decode (encode s) = s, the unit-wise cut of the stored bytes decodes to exactly
   what decode_string returns: the decoded field cut at its first NUL *character*.  The field is
   the text followed by whole padding units; a field ending inside a unit/character is the
   UnicodeDecodeError of finding F9h and lies outside this statement. *)
Theorem unit_cut_is_character_cut : forall (u' : nat) (uenc : Z -> list (list Z))
    (tenc : list Z -> list Z) (tdec : list Z -> option (list Z)),
  let u := S (S u') in
  (forall s, tenc s = concat (flat_map uenc s)) ->
  (forall c, c <> 0 -> Forall (unit_ok u) (uenc c)) ->
  uenc 0 = [zeros u] ->
  (forall s, tdec (tenc s) = Some s) ->
  forall s k,
  cut u (tenc s ++ zeros (u * k)) = tenc (cut0 s) /\
  tdec (cut u (tenc s ++ zeros (u * k))) = Some (cut0 (s ++ repeat 0 k)) /\
  tdec (tenc s ++ zeros (u * k)) = Some (s ++ repeat 0 k).
Proof. exact TextProofs.unit_cut_is_character_cut. Qed.

(* rows moved between tables: dst[j] = row / dst.append(row) *)
Theorem transfer_roundtrip : forall round32 widen32 src dst bs bs' fuel,
  rt_ok (t_schema dst) = true -> shape_ok (t_schema dst) = true ->
  transfer round32 widen32 src dst bs = EOk bs' ->
  exists obj rest,
    decode_top widen32 (rt_fuel bs) src bs = DOk obj rest /\
    validate_and_encode round32 dst obj = EOk bs' /\
    ((t_nullable dst = true -> obj <> VNull -> bs' <> []) ->
     decode_top widen32 fuel dst bs' = DOk (norm_top round32 widen32 dst obj) []).
Proof. exact RoundTripProofs.transfer_roundtrip. Qed.

Theorem transfer_invalid_rejected : forall round32 widen32 src dst bs obj rest,
  decode_top widen32 (rt_fuel bs) src bs = DOk obj rest -> valid_top dst obj = false ->
  transfer round32 widen32 src dst bs = EErr EValidation.
Proof. exact RoundTripProofs.transfer_invalid_rejected. Qed.

(* noLengthEncodingExhaustBuffer used as documented: last encoded property, items >= 1 byte *)
Theorem exhaust_tail_roundtrip : forall round32 widen32 req ps k m it v bs fuel,
  forallb (fun p : prop => rt_ok (snd p)) ps = true ->
  rt_ok it = true -> (0 < min_width it)%nat ->
  shape_ok (SObj req (ps ++ [(k, m, SArr AExhaust it)])) = true ->
  valid (SObj req (ps ++ [(k, m, SArr AExhaust it)])) v = true ->
  encode round32 (SObj req (ps ++ [(k, m, SArr AExhaust it)])) v = EOk bs ->
  (length bs < fuel)%nat ->
  decode widen32 fuel (SObj req (ps ++ [(k, m, SArr AExhaust it)])) bs =
    DOk (norm round32 widen32 (SObj req (ps ++ [(k, m, SArr AExhaust it)])) v) [].
Proof. exact ExhaustProofs.exhaust_tail_roundtrip. Qed.

(* the normal form is a fixed point: a decoded row encodes and decodes to itself.  Needs that
   binary32 -> binary64 -> binary32 is the identity (hypothesis on the platform conversion) *)
Theorem norm_idempotent : forall round32 widen32,
  (forall w, 0 <= w < 2 ^ 32 -> round32 (widen32 w) = Some w) ->
  forall s, nodup_keys s -> simple_units s -> forall v,
  norm round32 widen32 s (norm round32 widen32 s v) = norm round32 widen32 s v.
Proof. exact NormProofs.norm_idempotent. Qed.

(* ---- schema -> string -> schema ---- *)
(* repr = canonical_json of the modified schema (every property map in name order); parsing it
   and modifying again yields the same ordered schema, hence the same encode/decode/validate *)
Theorem schema_string_roundtrip : forall s, nodup_keys s -> modify (canon (modify s)) = modify s.
Proof. exact StringProofs.schema_string_roundtrip. Qed.

(* observational immutability: everything the codec does is a function of the schema's string form *)
Theorem behaviour_function_of_string : forall round32 widen32 s1 s2,
  nodup_keys s1 -> nodup_keys s2 -> canon (modify s1) = canon (modify s2) ->
  (forall v, valid (modify s1) v = valid (modify s2) v) /\
  (forall v, encode round32 (modify s1) v = encode round32 (modify s2) v) /\
  (forall fuel buf, decode widen32 fuel (modify s1) buf = decode widen32 fuel (modify s2) buf) /\
  np_dtype (modify s1) = np_dtype (modify s2).
Proof. exact same_string_same_codec. Qed.

Theorem order_by_index_order_independent : forall ps ps',
  Permutation ps ps' -> NoDup (map pkey ps) -> sort_props ps = sort_props ps'.
Proof. exact sort_props_perm_invariant. Qed.

(* ---- (b) layout ---- *)
Theorem struct_layout : forall round32 req ps kv bs,
  shape_ok (order_by_index (SObj req ps)) = true ->
  valid (order_by_index (SObj req ps)) (VObj kv) = true ->
  encode round32 (order_by_index (SObj req ps)) (VObj kv) = EOk bs ->
  exists ps' parts,
    order_by_index (SObj req ps) = SObj req ps' /\
    Permutation (map fst ps') (map fst ps) /\
    StronglySorted L ps' /\
    Forall2 (fun (p : prop) part =>
               exists x, field_src kv p = Some x /\ encode round32 (snd p) x = EOk part) ps' parts /\
    bs = concat parts.
Proof. exact ordered_object_layout. Qed.

Theorem order_by_index_sorts : forall ps,
  Permutation (sort_props ps) ps /\ StronglySorted L (sort_props ps).
Proof. exact sort_props_spec. Qed.

Theorem struct_size : forall round32 s n v bs,
  fixed_size s = Some n -> encode round32 s v = EOk bs -> Z.of_nat (length bs) = n.
Proof. exact fixed_size_ok. Qed.

(* the model's formats / sizes / numpy dtypes are the ones metadata.py has *now* *)
Theorem formats_match_source :
  map bchar all_single = c12_single_formats /\
  map bchar [BStr 1; BPas 1; BPad 1] = c12_counted_formats /\
  map ichar [IB; IH; II; IL; IQ] = c12_array_length_formats /\
  ichar IL = c12_array_length_default /\
  map (fun f => (bchar f, bsize f)) (all_single ++ [BStr 1; BPas 1; BPad 1]) = c12_struct_sizes.
Proof. exact LayoutProofs.formats_match_source. Qed.

Theorem numpy_dtype_sizes_agree :
  forallb dtype_ok c12_format_to_dtype = true /\
  map fst c12_format_to_dtype = map bchar (BBool :: map BInt all_ifmt ++ [BFloat; BDouble; BChar]).
Proof. exact format_to_dtype_agrees. Qed.

(* numpy structured view (numpy_dtype on the ordered schema, FORMAT_TO_DTYPE regenerated): for every
   schema it accepts, the leaves of the packed dtype have, in memory order, the sizes of the
   encoded leaves in encoding order, the itemsize is the size of an encoded row, and each leaf
   starts at the running sum of the sizes before it — i.e. exactly where encode put it *)
Theorem numpy_view_agrees : forall s d, np_dtype s = NOk d ->
  flat_sizes s = Some (dt_flat d) /\ fixed_size s = Some (dt_itemsize d) /\ dt_itemsize d = zsum (dt_flat d).
Proof. exact NumpyProofs.numpy_view_agrees. Qed.

Theorem numpy_offsets_are_struct_offsets : forall s d l,
  np_dtype s = NOk d -> flat_sizes s = Some l ->
  offs (dt_layout d 0) = prefix_sums 0 l /\ sizes (dt_layout d 0) = l /\ dt_itemsize d = zsum l.
Proof. exact NumpyProofs.numpy_offsets_are_struct_offsets. Qed.

(* ts.<table>_metadata is the view of THAT table's schema *)
Theorem table_view_own_schema : forall schemas k t d l,
  nth_error schemas k = Some t -> table_view schemas k = NOk d ->
  flat_sizes (modify (t_schema t)) = Some l ->
  t_nullable t = false /\
  offs (dt_layout d 0) = prefix_sums 0 l /\ sizes (dt_layout d 0) = l /\ dt_itemsize d = zsum l.
Proof. exact NumpyProofs.table_view_own_schema. Qed.

(* every access path (ts.<row>(i), the row sequences, site.mutations, edge_diffs in both directions
   with and without the terminal diff, Tree.sites()/mutations(), Variant.site, table indexing /
   iteration / slices / copies) shows a row of table k as its stored bytes decoded under the schema
   of table k: for a row stored through that schema this is the normal form of the stored object *)
Theorem row_view_own_schema : forall round32 widen32 schemas k t v bs,
  nth_error schemas k = Some t ->
  rt_ok (t_schema (modify_top t)) = true -> shape_ok (t_schema (modify_top t)) = true ->
  validate_and_encode round32 (modify_top t) v = EOk bs ->
  (t_nullable t = true -> v <> VNull -> bs <> []) ->
  row_view widen32 schemas k bs = DOk (norm_top round32 widen32 (modify_top t) v) [].
Proof. exact RowViewProofs.row_view_own_schema. Qed.

(* the harness's per-path correspondence term speaks about row_view *)
Theorem check_row_view_sound : forall schemas k buf w,
  check_row_view schemas k buf (OV w) = true ->
  exists t v rest, nth_error schemas k = Some t /\
    row_view widen32_impl schemas k buf = DOk v rest /\ value_eqb v w = true.
Proof. exact RowViewProofs.check_row_view_sound. Qed.

(* ---- (c) termination / consumption ---- *)
Theorem decode_consumes : forall widen32 s fuel buf v rest,
  decode widen32 fuel s buf = DOk v rest -> (length rest + min_width s <= length buf)%nat.
Proof. exact ExhaustProofs.decode_consumes. Qed.

(* for the repaired code: under every schema MetadataSchema() accepts, decode_row terminates *)
Theorem decode_terminates_accepted : forall widen32 t, construct t = CAccept ->
  forall fuel buf, (length buf < fuel)%nat -> decode_top widen32 fuel (modify_top t) buf <> DFuel.
Proof. exact ExhaustProofs.accepted_decode_terminates. Qed.

Theorem decode_terminates : forall widen32 s, zw_free s = true ->
  forall fuel buf, (length buf < fuel)%nat -> decode widen32 fuel s buf <> DFuel.
Proof. exact ExhaustProofs.decode_terminates. Qed.

(* ---- findings ---- *)
(* historical records: what was false at the pinned commit 380c75d (construct_pinned is its
   constructor); the current constructor refuses these schemas *)
Theorem exhaust_zero_width_diverges_pinned_refuted : exists (t0 : top) (v : value),
  let t := modify_top t0 in
  construct_pinned t0 = CAccept /\ construct t0 = CSchemaErr /\
  validate_and_encode round32_impl t v = EOk [] /\
  forall fuel buf, decode_top widen32_impl fuel t buf = DFuel.
Proof. exact ExhaustProofs.exhaust_zero_width_diverges_pinned_refuted. Qed.

Theorem exhaust_nontail_pinned_refuted : exists (t0 : top) (v : value) (bs : list Z),
  let t := modify_top t0 in
  construct_pinned t0 = CAccept /\ construct t0 = CSchemaErr /\
  validate_and_encode round32_impl t v = EOk bs /\
  forall fuel, decode_top widen32_impl fuel t bs <> DOk (norm_top round32_impl widen32_impl t v) [].
Proof. exact ExhaustProofs.exhaust_nontail_pinned_refuted. Qed.

Theorem object_or_null_empty_refuted : exists (t : top) (v : value),
  rt_ok (t_schema t) = true /\ shape_ok (t_schema t) = true /\
  validate_and_encode round32_impl t v = EOk [] /\
  decode_top widen32_impl 5 t [] = DOk VNull [] /\
  norm_top round32_impl widen32_impl t v <> VNull.
Proof. exact objnull_empty_refuted. Qed.

Theorem nested_validators_skipped_refuted :
  (exists (t : top) (v : value),
     construct t = CAccept /\ valid_top (modify_top t) v = true /\
     validate_and_encode round32_impl (modify_top t) v = EErr EKey) /\
  (exists t : top, construct t = CKeyErr) /\
  (exists t : top, construct t = CAccept /\
     exists p q, t_schema t = SObj None [p] /\ snd p = SObj None [q] /\ neg_length (snd q) = true).
Proof. exact ValidProofs.nested_validators_skipped_refuted. Qed.

(* F9k, historical: under the pinned value of the regenerated fact (try/except in object_encode) *)
Theorem nested_keyerror_substitutes_default_pinned_refuted :
  c12_encode_swallows_nested_keyerror = true ->
  let v := VObj [([111], VObj [([98], VInt 1)])] in
  construct subst_schema = CAccept /\
  valid_top (modify_top subst_schema) v = true /\
  validate_and_encode round32_impl (modify_top subst_schema) v = EOk [5; 0; 0; 0; 6; 0; 0; 0] /\
  decode_top widen32_impl 0 (modify_top subst_schema) [5; 0; 0; 0; 6; 0; 0; 0] =
    DOk (VObj [([111], VObj [([97], VInt 5); ([98], VInt 6)])]) [].
Proof. exact ValidProofs.nested_keyerror_substitutes_default_pinned_refuted. Qed.

(* ... and the repaired code propagates the nested KeyError *)
Theorem nested_keyerror_propagates :
  c12_encode_swallows_nested_keyerror = false ->
  validate_and_encode round32_impl (modify_top subst_schema) (VObj [([111], VObj [([98], VInt 1)])]) = EErr EKey.
Proof. exact ValidProofs.nested_keyerror_propagates. Qed.

(* F9e on the current model: property names "properties" (any depth: AttributeError) and "type"
   (top level: refused) — and nothing else about names reaches those two checks *)
Theorem reserved_property_names_refuted :
  let mk name := {| t_nullable := false; t_schema :=
        SObj None [(name, {| p_index := 0; p_default := None |}, SLeaf TInteger (Some (BInt Ii)) 0%nat)] |} in
  construct (mk [97]) = CAccept /\
  construct (mk k_properties) = CAttrErr /\
  construct (mk k_type) = CSchemaErr /\
  construct {| t_nullable := false; t_schema :=
      SObj None [([111], {| p_index := 0; p_default := None |}, t_schema (mk k_properties))] |} = CAttrErr /\
  construct {| t_nullable := false; t_schema :=
      SObj None [([111], {| p_index := 0; p_default := None |}, t_schema (mk k_type))] |} = CAccept.
Proof. exact ValidProofs.reserved_property_names_refuted. Qed.

Theorem reserved_names_boundary : forall t req ps,
  t_schema t = SObj req ps ->
  has_prop_named k_properties (t_schema t) = false ->
  (key_in k_type (map pkey ps) = false \/ key_in k_binaryFormat (map pkey ps) = true) ->
  construct t <> CAttrErr.
Proof. exact ValidProofs.reserved_names_boundary. Qed.

(* ---- (e) rejection ---- *)
Theorem invalid_rejected : forall round32 t v,
  valid_top t v = false -> validate_and_encode round32 t v = EErr EValidation.
Proof. exact ValidProofs.invalid_rejected. Qed.

Theorem missing_required_is_invalid : forall req ps kv k,
  In k req -> lookup k kv = None -> valid (SObj (Some req) ps) (VObj kv) = false.
Proof. exact missing_required_invalid. Qed.

Theorem additional_property_is_invalid : forall req ps kv k x,
  In (k, x) kv -> key_in k (map pkey ps) = false -> valid (SObj req ps) (VObj kv) = false.
Proof. exact additional_property_invalid. Qed.

Theorem invalid_field_is_invalid : forall req ps kv (p : prop) x,
  In p ps -> lookup (pkey p) kv = Some x -> valid (snd p) x = false ->
  valid (SObj req ps) (VObj kv) = false.
Proof. exact field_invalid. Qed.

Theorem invalid_element_is_invalid : forall m it l x,
  In x l -> valid it x = false -> valid (SArr m it) (VArr l) = false.
Proof. exact element_invalid. Qed.

Theorem schema_top_level_rules : forall t req ps,
  construct t = CAccept -> t_schema t = SObj (Some req) ps ->
  forall p, In p ps ->
    leaf_needs_format (snd p) = false /\ null_nonpad (snd p) = false /\ neg_length (snd p) = false /\
    (key_in (pkey p) req = true \/ p_default (snd (fst p)) <> None).
Proof. exact construct_accept_top_rules. Qed.

(* ---- JSON codec ---- *)
Theorem json_roundtrip_defaults : forall (json_dumps : value -> list Z) (json_loads : list Z -> option value),
  (forall v, json_loads (json_dumps v) = Some v) -> (forall v, json_dumps v <> []) ->
  forall defaults v,
  json_decode json_loads defaults (json_dumps v) =
  Some (match v with VObj kv => VObj (json_fill defaults kv) | _ => v end).
Proof. exact JsonProofs.json_roundtrip_defaults. Qed.

Theorem json_defaults_union : forall defaults kv k,
  lookup k (json_fill defaults kv) =
  match lookup k kv with Some x => Some x | None => lookup k defaults end.
Proof. exact json_fill_lookup. Qed.

(* ---- injectivity of the struct codec (corollaries of struct_roundtrip): two valid objects with
   the same encoding have the same normal form; encodings of valid objects are prefix-free
   (decode consumes exactly its own bytes whatever follows) ---- *)
Theorem encode_injective : forall round32 widen32 s v1 v2 bs,
  rt_ok s = true -> shape_ok s = true -> valid s v1 = true -> valid s v2 = true ->
  encode round32 s v1 = EOk bs -> encode round32 s v2 = EOk bs ->
  norm round32 widen32 s v1 = norm round32 widen32 s v2.
Proof. exact encode_injective_proof. Qed.

Theorem encode_prefix_free : forall round32 widen32 s v1 v2 b1 b2 r1 r2,
  rt_ok s = true -> shape_ok s = true -> valid s v1 = true -> valid s v2 = true ->
  encode round32 s v1 = EOk b1 -> encode round32 s v2 = EOk b2 ->
  b1 ++ r1 = b2 ++ r2 ->
  r1 = r2 /\ b1 = b2 /\ norm round32 widen32 s v1 = norm round32 widen32 s v2.
Proof. exact encode_prefix_free_proof. Qed.
