(* Property C12 — statements only (filled in as the proofs land). *)
From Coq Require Import List ZArith.
From TskVerif Require Import C12.Model.
