(* Property C08 — statements only.  Each theorem is closed by [exact] of a lemma proved in
   the C08/ files; Print Assumptions is evaluated by ./check on every run.

   PARTIAL.  The theorems speak about the *specification* of the statistics (C08/Model.v,
   over Q) and about the combination / chunking logic.  The C incremental algorithms are
   tied to the specification by the per-run correspondence (harness/props/c08.py: the
   specification and Gallina ports of the C sweeps are evaluated by vm_compute on the
   same tables and compared with the implementation's output); theorem (d) is the part
   of that tie which is proved.  Real thread interleavings (GIL release in
   _tskitmodule.c) cannot be exhibited by a Gallina model: only schedule independence of
   the combination logic is proved. *)
From Coq Require Import List ZArith QArith.
From TskVerif Require Import C08.Model C08.Incremental C08.Afs C08.Shapes C08.PairSpan C08.Rf C08.RelVec C08.Kc
  C08.WindowProofs C08.ChunkProofs C08.IncrementalProofs C08.AccountProofs
  C08.ForestProofs C08.StateProofs C08.SweepStateProofs C08.FullBranchProofs C08.AfsProofs C08.ShapesProofs
  C08.PairSpanProofs C08.PairSpanFull C08.RfProofs C08.RelVecProofs C08.KcProofs.
Import ListNotations.
Open Scope Q_scope.

(* (a) For any window [a,c) split at b the un-normalised statistic adds: branch, node and
   site mode, any summary function f, any weights, polarised or not.  [full] *)
Theorem window_additivity :
  forall (k : nat) (f : vec -> Q) (W : weights) (time : list Q) (polarised : bool)
         (segs : list seg) (sites : list site) (u : Z) (a b c : Q),
    a <= b -> b <= c ->
    branch_stat k f W time polarised segs a c ==
      branch_stat k f W time polarised segs a b + branch_stat k f W time polarised segs b c
    /\ node_stat k f W polarised segs u a c ==
      node_stat k f W polarised segs u a b + node_stat k f W polarised segs u b c
    /\ site_stat k f W polarised sites a c ==
      site_stat k f W polarised sites a b + site_stat k f W polarised sites b c.
Proof. exact window_additivity_all. Qed.

(* (a') Any refinement of the windows, given as one increasing group of breakpoints per
   coarse window (consecutive groups sharing their end point): the finer windows are the
   groups' windows in order, and their sums are the coarse values.  [full] *)
Theorem window_additivity_refinement :
  forall k f W time polarised segs sites stat (gs : list (list Q)),
    mode_stat k f W time polarised segs sites stat ->
    chained gs -> Forall incr gs ->
    windowed stat (join gs) = concat (map (windowed stat) gs) /\
    Forall2 Qeq (fine_sums stat gs) (windowed stat (coarse gs)).
Proof. exact window_refinement_all. Qed.

(* (a'') span-normalised: each coarse value is the span-weighted mean of the finer
   span-normalised values (strictly increasing breakpoints).  [full] *)
Theorem window_additivity_refinement_normalised :
  forall k f W time polarised segs sites stat (gs : list (list Q)),
    mode_stat k f W time polarised segs sites stat ->
    chained gs -> Forall sincr gs ->
    Forall2 Qeq (fine_means stat gs) (windowed_norm stat (coarse gs)).
Proof. exact window_refinement_normalised_all. Qed.

(* (b) span normalisation divides by the window span; over segments tiling the range a
   constant per-tree value v has normalised statistic v (it is an average).  [full] *)
Theorem span_normalise_spec :
  (forall a b v : Q, a < b -> (b - a) * span_normalise1 a b v == v) /\
  (forall (val : list Z -> Q) (v : Q) segs lo hi a b,
      tiles segs lo hi -> lo <= a -> a < b -> b <= hi ->
      (forall s, In s segs -> val (s_parent s) == v) ->
      span_normalise1 a b (tree_stat val segs a b) == v).
Proof. exact span_normalise_spec_all. Qed.

(* (c) The Python work splitters: results of the chunks combined in chunk order equal the
   un-chunked computation, for any number of chunks >= 1.  [full, for the list models of
   _chunk_windows / _chunk_sequence_by_tree / numpy.array_split] *)
Theorem chunking_sound :
  (forall (A : Type) (stat : Q -> Q -> A) (ws : list Q) (num_chunks : nat),
      (2 <= length ws)%nat -> (1 <= num_chunks)%nat ->
      concat (map (windowed stat) (chunk_windows ws num_chunks)) = windowed stat ws) /\
  (forall (stat : Q -> Q -> Q) (bps : list Q) (num_chunks : nat),
      additive stat -> incr bps -> (2 <= length bps)%nat -> (1 <= num_chunks)%nat ->
      qsum (map (fun iv => stat (fst iv) (snd iv)) (chunk_sequence_by_tree bps num_chunks))
      == stat (hd 0 bps) (last bps 0)) /\
  (forall (A B : Type) (row : A -> B) (focal : list A) (num_threads : nat),
      (1 <= num_threads)%nat ->
      concat (map (map row) (array_split focal num_threads)) = map row focal).
Proof. exact chunking_sound_all. Qed.

(* (c') Any order in which pure workers fill their own result slot gives the in-order list
   of results: the combination does not depend on the schedule.  [full, for the slot model;
   says nothing about data races inside the C library] *)
Theorem schedule_independence :
  forall (A B : Type) (work : A -> B) (chunks : list A) (sched : list nat),
    (forall j, (j < length chunks)%nat -> In j sched) ->
    run_schedule work chunks sched = map (fun c => Some (work c)) chunks.
Proof. exact schedule_independent_all. Qed.

(* (d) PARTIAL.  Along any sequence of edge removals / insertions of the port of
   tsk_treeseq_branch_general_stat (insertions only above a parentless child), the running
   sum is the naive per-tree sum  sum_u branch_length[u] * f(state[u])  over the
   algorithm's arrays.  Missing for the full statement
     branch_incremental ... = Some (windowed (branch_stat ...) ws):
   the arrays equal the specification's state / parent_at (the window accounting is (d')). *)
Theorem branch_incremental_refines_spec_partial :
  forall (k : nat) (F : vec -> Q) (time : list Q) (ops : list op) (n : nat) (W : weights),
    ops_ok F time ops (init_state k F n W) ->
    let s := fold_left (apply_op F time) ops (init_state k F n W) in
    b_rs s == dot (b_bl s) (map F (b_state s)).
Proof. exact running_sum_is_tree_sum. Qed.

(* (d') The window accounting loop of the same port (trees.c 1409-1429), for every window
   list: if the trees the sweep visited form a contiguous sequence of non-empty intervals
   from the first to the last breakpoint (what sorted index arrays give), the port returns,
   for window w, the sum over the visited trees of overlap(tree, w) * running_sum(tree).
   With (d) the running sum of each tree is sum_u branch_length[u] f(state[u]) of the
   algorithm's arrays.  [full for the accounting loop; what is still missing for
   "port = branch_stat" is only: the algorithm's state[] / parent[] arrays and visited
   intervals equal the specification's state / parent_at and tree intervals] *)
Theorem branch_incremental_window_accounting :
  forall (k : nat) (F : vec -> Q) (time : list Q) (W : weights) (E : list edge) (I O : list Z)
         (L x : Q) (ws' : list Q) (trace : list trec) (hi : Q),
    branch_trace k F time W E I O L = Some trace ->
    ttiles trace x hi -> sincr (x :: ws') -> Forall (fun b => b <= hi) ws' ->
    exists rows, branch_incremental k F time W E I O L (x :: ws') = Some rows /\
                 Forall2 Qeq rows (windowed (S trace) (x :: ws')).
Proof. exact incremental_window_accounting. Qed.

(* (d'') CLOSED (round 3): the port of tsk_treeseq_branch_general_stat equals the
   specification [branch_stat] over the trees the sweep visits, for every strictly
   increasing window list, every summary function that is a function of the rational values
   of its argument, every weight table with one in-range row of the right length per sample.
   Along the edge removals / insertions the port's parent[] / state[] / branch_length[]
   arrays are the specification's parent array, subtree weight sums and time differences
   (invariant SweepStateProofs.Tracks: established by the initial state, preserved by
   remove / insert with the ancestor walk, acyclicity from node times).
   Remaining hypotheses, all boolean and evaluated on every run by the correspondence:
   [sweep_ok] (an edge is removed where it is and inserted above a parentless child below an
   older in-range parent — what a valid indexed table gives, properties C01/C02) and
   [ttiles trace] (the visited intervals are contiguous from the first to the last
   breakpoint); that the visited trees are the table's marginal forests (trace_segs_b) is
   property C01's statement and is also evaluated per run. *)
Theorem branch_incremental_equals_branch_stat :
  forall (k : nat) (f : vec -> Q) (W : weights) (time : list Q) (polarised : bool),
    (forall a b : vec, veq a b -> f a == f b) ->
    Wok k W (length time) ->
    forall (E : list edge) (I O : list Z) (L x : Q) (ws' : list Q) (trace : list trec) (hi : Q),
      NoDup (map fst W) ->
      sweep_ok (polar k f W polarised) time (length time) (2 * length E + 2) E I O L 0%Z 0%Z 0
               (init_state k (polar k f W polarised) (length time) W) = true ->
      branch_trace k (polar k f W polarised) time W E I O L = Some trace ->
      ttiles trace x hi -> sincr (x :: ws') -> Forall (fun b => b <= hi) ws' ->
      exists rows, branch_incremental k (polar k f W polarised) time W E I O L (x :: ws') = Some rows /\
                   Forall2 Qeq rows (windowed (branch_stat k f W time polarised (segs_of_trace trace)) (x :: ws')).
Proof. exact branch_incremental_is_branch_stat. Qed.

(* ---- defects C08-F1..F4 were repaired in /repo (af93ddc, 093fdd5, a2ba426, e85e341); the
   models used by the correspondence follow the repaired code.  Positive statements about
   the current models first, the pre-fix ("pinned") variants as a historical record. ---- *)

(* C08-F2.  The documented branch-mode AFS is additive over window refinements, every entry,
   all tree sequences.  [full, for the definition; the repaired C sweep (Afs.afs_branch_port)
   is tied to the definition by correspondence on every run, and by Examples in AfsProofs] *)
Theorem afs_branch_definition_additive :
  forall time S all segs c (gs : list (list Q)), chained gs -> Forall incr gs ->
    Forall2 Qeq (fine_sums (afs_branch_spec time S all segs c) gs)
                (windowed (afs_branch_spec time S all segs c) (coarse gs)).
Proof. exact afs_branch_spec_refinement. Qed.

Theorem afs_branch_pinned_refuted :
  exists time S all E I O L ws segs,
    segs = w_segs /\ E = w_edges /\
    check_afs_port (afs_branch_port_pinned time S all E I O L ws) false ws
                   (afs_branch_spec_table time S all segs ws) = false.
Proof. exact afs_branch_pinned_violates_definition. Qed.

(* C08-F1.  The repaired shaping of genetic_relatedness(proportion=True) never raises and
   gives the documented shape for every windows / mode / indexes combination.  [full] *)
Theorem relatedness_proportion_shape_total :
  forall windows node_mode num_nodes indexes,
    proportion_shape windows node_mode num_nodes indexes =
    Some (documented_shape windows node_mode num_nodes indexes).
Proof. exact proportion_shape_total. Qed.

Theorem relatedness_proportion_shape_pinned_refuted :
  exists windows node_mode num_nodes,
    proportion_shape_pinned windows node_mode num_nodes (Some (true, 1%nat)) = None /\
    documented_shape windows node_mode num_nodes (Some (true, 1%nat)) = [2%nat].
Proof. exact proportion_shape_pinned_raises. Qed.

(* C08-F3.  BOUNDED: for every tiling of [0,4) by trees with integer end points (with or
   without edges) and every window list on the half-integer grid the repaired span
   bookkeeping of pair_coalescence_counts equals the non-missing span.  [bounded, 54 x 128] *)
Theorem pair_coalescence_span_bounded :
  forall trees ws, In trees tilings_scope -> In ws windows_scope ->
    qlist_eqb (pcc_code_spans trees ws) (pcc_spec_spans trees ws) = true.
Proof. exact pcc_spans_bounded. Qed.

(* C08-F3, unbounded.  For every contiguous sequence of trees tiling [lo,hi) (each with or
   without edges) and every strictly increasing window list from lo up to hi, the span the
   repaired pair_coalescence_counts divides by is the non-missing span of each window.
   [full, for the model of the span bookkeeping] *)
Theorem pair_coalescence_span_correct :
  forall trees lo hi x ws',
    ptiles trees lo hi -> x == lo -> sincr (x :: ws') -> Forall (fun b => b <= hi) ws' ->
    Forall2 Qeq (pcc_code_spans trees (x :: ws')) (pcc_spec_spans trees (x :: ws')).
Proof. exact pcc_spans_correct. Qed.

Theorem pair_coalescence_span_pinned_refuted :
  exists trees ws,
    trees = w_ptrees /\
    qlist_eqb (pcc_code_spans_pinned trees ws) (pcc_spec_spans trees ws) = false.
Proof. exact pcc_span_pinned_violates_definition. Qed.

(* C08-F4.  The repaired Tree.rf_distance is the symmetric difference of the sample
   bipartitions, for all pairs of trees.  [full, for the parent-array model] *)
Theorem rf_distance_is_definition :
  forall p1 p2 samples, rf_code p1 p2 samples = rf_spec p1 p2 samples.
Proof. exact rf_code_is_spec. Qed.

(* rf_distance is a function of the two SETS of sample clades: per-node clade lists with the
   same members give the same distance; in particular a node that repeats an existing clade
   (a unary node, or a parent whose other children carry no samples) changes nothing, in
   either argument.  [full; rf_code is rf_of_lists of the per-node clade lists by
   definition, and is compared with Tree.rf_distance on every run, on tree pairs with
   unary chains and dangling sample-free siblings] *)
Theorem rf_distance_counts_sets :
  (forall l1 l1' l2 l2' : list (list Z),
      (forall c, In c l1 <-> In c l1') -> (forall c, In c l2 <-> In c l2') ->
      rf_of_lists l1 l2 = rf_of_lists l1' l2') /\
  (forall (l1 l2 : list (list Z)) (c : list Z), In c l1 ->
      rf_of_lists (l1 ++ [c]) l2 = rf_of_lists l1 l2 /\ rf_of_lists l2 (l1 ++ [c]) = rf_of_lists l2 l1) /\
  (forall p1 p2 samples,
      rf_code p1 p2 samples = rf_of_lists (clade_list p1 samples) (clade_list p2 samples)).
Proof. exact rf_sets_all. Qed.

Theorem rf_distance_pinned_refuted :
  exists p1 p2 samples,
    p1 = [1; 2; -1]%Z /\ p2 = [2; 2; -1]%Z /\ samples = [0; 2]%Z /\
    rf_code_pinned p1 p2 samples = 1%Z /\ rf_spec p1 p2 samples = 0%Z.
Proof. exact rf_pinned_counts_empty_clade. Qed.

(* REFUTED (finding C08-F5): genetic_relatedness_vector accepts span_normalise and ignores
   it. *)
Theorem relatedness_vector_span_normalise_refuted :
  exists time W i segs ws,
    segs = [mkseg 0 3 [2; 2; (-1)]%Z] /\ ws = [0; 3] /\
    qlist_eqb (grv_code true time W i segs ws) [9] = true /\
    qlist_eqb (grv_spec true time W i segs ws) [3] = true.
Proof. exact grv_ignores_span_normalise. Qed.

(* Tree-sequence level KC distance = span-weighted sum of the per-tree-pair distances: the sum
   is additive over any split of a window, hence over any refinement of the breakpoints (in
   particular the common refinement of the two sequences' breakpoints), and cutting a tree
   pair at an extra breakpoint changes nothing.  [full; the per-tree-pair squared distance
   (Kc.kc2, exact) and the span-weighted mean are compared with Tree.kc_distance /
   TreeSequence.kc_distance on every run; finding C08-F6 concerns the implementation's
   incremental update with internal samples] *)
Theorem kc_tree_sequence_additive :
  (forall segs a b c, a <= b -> b <= c -> kc_sum segs a c == kc_sum segs a b + kc_sum segs b c) /\
  (forall segs a t, incr (a :: t) -> qsum (windowed (kc_sum segs) (a :: t)) == kc_sum segs a (last (a :: t) 0)) /\
  (forall l m r d rest a b, l <= m -> m <= r ->
     kc_sum (mkks l r d :: rest) a b == kc_sum (mkks l m d :: mkks m r d :: rest) a b).
Proof. exact kc_all. Qed.
