(* Property C15 — statements only.  Each theorem is closed by [exact] of a lemma proved
   in the C15/ files; Print Assumptions is evaluated by ./check on every run.

   Reading guide: [comb], [unrank], [from_range_rank], [with_replacement_rank/unrank],
   [rule_asc], [tree_unrank], [tree_rank], [all_trees] are the Gallina models of the
   functions of the same name in python/tskit/combinatorics.py (tree_unrank = Tree.unrank,
   tree_rank = Tree.rank).  [combs], [cwr_list], [asc_compositions], [spec_trees],
   [reorderings], [binom], [mchoose] are specifications (C15/Combination.v, TopoSpec.v). *)
From Coq Require Import List ZArith Permutation Sorted.
From TskVerif Require Import Base.Common C15.Combination C15.Partitions C15.RankTree
  C15.TopoSpec C15.CombProofs C15.CombRankProofs C15.WRProofs C15.RankTreeBounded
  C15.PartitionProofs C15.OorProofs C15.ChildOrderProofs C15.LabelOorProofs C15.RuleAscProofs C15.NumShapesTotal C15.ShapeRankProofs C15.ShapeDenseProofs C15.LabelRankProofs C15.LabelTreeProofs C15.LabelDenseProofs C15.CountTopo C15.CountTopoProofs C15.CombBijection.
Import ListNotations.
Open Scope Z_scope.

(* ---- Combination.comb ---- *)
Theorem comb_is_binomial : forall n k : nat, (k <= n)%nat ->
  comb (Z.of_nat n) (Z.of_nat k) = Z.of_nat (binom n k).
Proof. exact comb_binom_nat. Qed.

(* ---- (a) Combination.unrank / from_range_rank: lexicographic bijection ---- *)
(* the specification list has C(n,k) entries and contains exactly the k-element
   sub-sequences; over [lo, lo+cnt) it is strictly increasing lexicographically *)
Theorem combs_count : forall (els : list Z) k, length (combs els k) = binom (length els) k.
Proof. exact (@combs_length Z). Qed.

Theorem combs_are_the_k_subsets : forall (els : list Z) k c,
  In c (combs els k) <-> (subseq c els /\ length c = k).
Proof. exact (@combs_spec Z). Qed.

Theorem combs_lexicographic : forall cnt lo k, chain lex_lt (combs (zrange lo cnt) k).
Proof. exact combs_lex_sorted. Qed.

(* unrank returns the r-th combination for every r >= 0, k >= 1; in particular it is
   None (= ValueError) exactly when r >= C(n,k) *)
Theorem comb_unrank_is_nth : forall (els : list Z) k r,
  (1 <= k)%nat -> 0 <= r -> unrank r els k = nth_error (combs els k) (Z.to_nat r).
Proof. exact (@unrank_spec Z). Qed.

Theorem comb_unrank_out_of_range_rejected : forall (els : list Z) k r,
  (1 <= k)%nat -> Z.of_nat (binom (length els) k) <= r -> unrank r els k = None.
Proof. exact (@unrank_out_of_range Z). Qed.

Theorem comb_unrank_rank : forall n k r c,
  (1 <= k)%nat -> 0 <= r -> unrank r (zrange 0 n) k = Some c ->
  from_range_rank (S n) c (Z.of_nat n) = Some r /\ r < Z.of_nat (binom n k).
Proof. exact comb_unrank_then_rank. Qed.

Theorem comb_rank_unrank : forall n k c,
  In c (combs (zrange 0 n) k) ->
  exists r, from_range_rank (S n) c (Z.of_nat n) = Some r /\
            0 <= r < Z.of_nat (binom n k) /\
            (k = 0%nat \/ unrank r (zrange 0 n) k = Some c).
Proof. exact comb_rank_then_unrank. Qed.

(* ---- (b) with_replacement_rank / with_replacement_unrank ---- *)
Theorem wr_rank_unrank : forall n k,
  length (cwr_list k (zrange 0 n)) = mchoose n k /\
  forall r c, nth_error (cwr_list k (zrange 0 n)) r = Some c ->
    with_replacement_rank c (Z.of_nat n) = Some (Z.of_nat r) /\
    with_replacement_unrank (Z.of_nat r) (Z.of_nat n) k = Some c.
Proof. exact wr_rank_unrank_bijection. Qed.

Theorem wr_count_is_multichoose : forall n k,
  comb_with_replacement (Z.of_nat (S n)) (Z.of_nat k) = Z.of_nat (mchoose (S n) k).
Proof. exact cwr_mchoose. Qed.

Theorem wr_list_members : forall k m lo c,
  In c (cwr_list k (zrange lo m)) ->
  length c = k /\ nondecr_from lo c /\ Forall (fun x => x < lo + Z.of_nat m) c.
Proof. exact cwr_list_members. Qed.

(* the while loop of with_replacement_unrank terminates for every input *)
Theorem wr_unrank_terminates : forall k rank n, exists l, with_replacement_unrank rank n k = Some l.
Proof. exact wr_unrank_total. Qed.

(* ... but the helper accepts out-of-range ranks (not reachable through Tree.unrank) *)
Theorem wr_unrank_oor_refuted : mchoose 1 1 = 1%nat /\ with_replacement_unrank 5 1 1 = Some [5].
Proof. exact wr_unrank_oor_not_rejected. Qed.

(* ---- (c) rule_asc / partitions ----
   the specification list holds exactly the ascending compositions of n, each once; the
   array loop of rule_asc returns exactly that list, without OOB / fuel exhaustion, for
   EVERY n >= 1 (unbounded: rule_asc_complete).  The n <= 30 evaluation is kept as an
   independent check. *)
Theorem rule_asc_complete : forall n, 1 <= n -> rule_asc n = Ok (asc_compositions n).
Proof. exact RuleAscProofs.rule_asc_complete. Qed.

Theorem partitions_complete : forall n, 1 <= n ->
  partitions n = Ok (removelast (asc_compositions n)).
Proof. exact RuleAscProofs.partitions_complete. Qed.

Theorem asc_compositions_are_all : forall n c, 1 <= n ->
  (In c (asc_compositions n) <-> (nondecr_from 1 c /\ zsum' c = n /\ c <> [])).
Proof. exact asc_compositions_spec. Qed.

Theorem asc_compositions_once : forall n, NoDup (asc_compositions n).
Proof. exact asc_compositions_NoDup. Qed.

Theorem rule_asc_complete_bounded : forall n, 1 <= n <= 30 -> rule_asc n = Ok (asc_compositions n).
Proof. exact PartitionProofs.rule_asc_complete_bounded. Qed.

Theorem partitions_bounded : forall n, 1 <= n <= 30 ->
  partitions n = Ok (removelast (asc_compositions n)).
Proof. exact PartitionProofs.partitions_bounded. Qed.

(* ---- (d) RankTree, bounded: the bound on the number of leaves is in the statement ----
   Unbounded statements (not proved; kept for reference):
     unrank_then_rank      : forall n >= 1, s < num_shapes n,
                             l < num_labellings n s: tree_rank (tree_unrank n s l) = (s,l)
     rank_then_unrank      : forall n, is_topology n t -> tree_unrank n (tree_rank t) ~ t
     all_trees_enumerates  : forall n, all_trees n lists {t | is_topology n t} once, in rank order
   (rank_child_order_invariant IS proved unboundedly, below.) *)
Theorem unrank_then_rank_bounded : forall n s l S N,
  1 <= n <= 6 -> num_shapes n = Ok S -> 0 <= s < S ->
  num_labellings n s = Ok N -> 0 <= l < N ->
  exists t, tree_unrank n s l = Ok t /\ tree_rank t = Ok (s, l).
Proof. exact RankTreeBounded.unrank_then_rank_bounded. Qed.

Theorem rank_then_unrank_bounded : forall n t,
  1 <= n <= 6 -> In t (spec_trees n) ->
  exists s l t', tree_rank t = Ok (s, l) /\ tree_unrank n s l = Ok t' /\ pt_canon t' = pt_canon t.
Proof. exact RankTreeBounded.rank_then_unrank_bounded. Qed.

Theorem all_trees_enumerates_bounded : forall n,
  1 <= n <= 6 ->
  exists ts rs,
    all_trees n = Ok ts /\ dense_ranks n = Ok rs /\
    NoDup (map pt_canon ts) /\
    (forall t, In t (map pt_canon ts) <-> In t (map pt_canon (spec_trees n))) /\
    rmap tree_rank ts = Ok rs.
Proof. exact RankTreeBounded.all_trees_enumerates_bounded. Qed.

Theorem rank_child_order_invariant_bounded : forall n t t',
  1 <= n <= 5 -> In t (spec_trees n) -> In t' (reorderings t) ->
  exists r, tree_rank t = Ok r /\ tree_rank t' = Ok r.
Proof. exact RankTreeBounded.rank_child_order_invariant_bounded. Qed.

(* rank invariance under child order, UNBOUNDED: [pt_reorder t t'] = t' is t with the
   children of any nodes listed in another order; leaf labels pairwise distinct.  (Branch
   lengths and internal node ids do not exist in [pt]: Tree.rank reads neither; this
   abstraction is what the rank_invariance family checks on real tskit Trees.) *)
Theorem rank_child_order_invariant : forall t t' r,
  pt_reorder t t' -> NoDup (pt_leaves t) -> tree_rank t = Ok r -> tree_rank t' = Ok r.
Proof. exact ChildOrderProofs.rank_child_order_invariant. Qed.

(* ---- (e) out-of-range ranks ----
   F13 was repaired in /repo by commit 7829e32; the model follows the repaired code.
   Historical record about the PINNED (pre-fix) variant of children_shape_ranks: it accepted
   every shape rank for n = 1, the current model rejects them. *)
Theorem unrank_oor_n1_pinned_refuted :
  exists s, num_shapes 1 = Ok 1 /\ s >= 1 /\
            children_shape_ranks_pinned s 1 = Ok ([], []) /\
            children_shape_ranks s 1 = Err E_RANK /\
            tree_unrank 1 s 0 = Err E_RANK.
Proof. exact unrank_oor_n1_pinned_refuted_w. Qed.

(* for every n >= 1 an out-of-range shape rank is rejected (unbounded in n, s, l) *)
Theorem unrank_oor_shape_rejected : forall n nS s l,
  1 <= n -> num_shapes n = Ok nS -> nS <= s -> 0 <= nS -> 0 <= l ->
  tree_unrank n s l = Err E_RANK.
Proof. exact tree_unrank_shape_oor. Qed.

Theorem unrank_negative_rejected : forall n s l, s < 0 \/ l < 0 -> tree_unrank n s l = Err E_RANK.
Proof. exact tree_unrank_negative. Qed.

(* for every n >= 2 an out-of-range label rank is rejected (unbounded): whenever the shape
   of rank s exists and has N = sh_nlab labellings (= num_labellings n s), every l >= N fails *)
Theorem unrank_oor_label_rejected : forall n s l sh,
  2 <= n -> 0 <= s ->
  shape_unrank (S (Z.to_nat n)) n s = Ok sh -> sh_nlab sh <= l ->
  tree_unrank n s l = Err E_RANK.
Proof. exact tree_unrank_label_oor. Qed.

(* num_shapes is defined for every n, so the rejection of out-of-range shape ranks is
   unconditional for every n >= 1 *)
Theorem num_shapes_defined : forall n, exists v, num_shapes n = Ok v /\ (0 <= n -> 0 <= v).
Proof. exact num_shapes_total. Qed.

Theorem unrank_oor_shape_rejected_all : forall n, 1 <= n ->
  exists nS, num_shapes n = Ok nS /\
    forall s l, nS <= s -> 0 <= l -> tree_unrank n s l = Err E_RANK.
Proof. exact unrank_oor_shape_rejected_total. Qed.

(* ---- (d) shape half of rank o unrank, UNBOUNDED ----
   One level: the mixed-radix decode of children_shape_ranks (partition block, then one
   with_replacement_unrank digit per leaf-count group) is inverted by compute_shape_rank. *)
Theorem shape_level_inverse : forall n r part crs cl,
  2 <= n -> 0 <= r ->
  children_shape_ranks r n = Ok (part, crs) ->
  map c_nl cl = part -> map c_srk cl = crs ->
  compute_shape_rank cl = Ok r /\
  Forall (fun c => exists v, num_shapes (c_nl c) = Ok v /\ 0 <= c_srk c < v) cl /\
  zsum part = n /\ Forall (fun k => 1 <= k) part /\ (2 <= length part)%nat.
Proof. exact level_inverse. Qed.

(* Whole tree: whatever shape_unrank (the first half of Tree.unrank) returns for n >= 1 leaves
   and a shape rank r >= 0 has n leaves, and at EVERY node the shape rank recomputed by
   compute_shape_rank from the children equals the rank that was asked for there
   ([shape_consistent]); i.e. rank(unrank(n,(r,_))).shape = r for every n.
   Still open (kept as _partial in the comment above): the label half and unrank o rank. *)
Theorem shape_unrank_then_rank : forall fuel n r sh,
  1 <= n -> 0 <= r -> shape_unrank fuel n r = Ok sh ->
  shape_consistent sh /\ sh_nl sh = n /\ sh_rk sh = r.
Proof. exact shape_unrank_consistent. Qed.

(* Density, UNBOUNDED: every shape rank of [0, num_shapes n) is accepted (no error, the fuel
   n+1 suffices), and with unrank_oor_shape_rejected the accepted shape ranks are EXACTLY the
   dense range, for every n >= 1. *)
Theorem shape_unrank_dense : forall fuel n nS r,
  1 <= n -> (Z.to_nat n < fuel)%nat -> num_shapes n = Ok nS -> 0 <= r < nS ->
  exists sh, shape_unrank fuel n r = Ok sh.
Proof. exact ShapeDenseProofs.shape_unrank_dense. Qed.

Theorem shape_unrank_accepts_iff : forall n nS r,
  1 <= n -> num_shapes n = Ok nS -> 0 <= r ->
  ((exists sh, shape_unrank (S (Z.to_nat n)) n r = Ok sh) <-> r < nS).
Proof. exact ShapeDenseProofs.shape_unrank_accepts_iff. Qed.

(* ---- (d) label half of rank o unrank, UNBOUNDED, level lemmas ----
   (A) Combination.rank inverts Combination.unrank over ANY strictly increasing label list *)
Theorem comb_rank_unrank_any_labels : forall els k r c,
  zsorted els -> 0 <= r < Z.of_nat (binom (length els) k) ->
  unrank r els k = Some c -> comb_rank c els = Some r.
Proof. exact comb_rank_unrank_sorted. Qed.

(* (B) one group of x same-shape trees (k leaves, y labellings each): the decode of
   group_label_ranks (per tree: which k-1 labels join the smallest free label, then the
   tree's own label rank) is inverted by group_rank, for every rank below
   num_assignments_in_group * y^x; the label sets handed out are sorted and partition the
   group's labels, every tree rank is < y. *)
Theorem label_group_level_inverse : forall g r labels tls trs i len_g k y,
  uniform k y g -> 1 <= k -> 1 <= y -> zsorted labels ->
  Z.of_nat (length labels) = zlength g * k ->
  len_g - i = zlength g ->
  group_label_ranks r g labels = Ok (tls, trs) ->
  0 <= r < naig_loop g (zlength g * k) * y ^ zlength g ->
  group_rank_loop (relabel g tls trs) i len_g k (len_g * k) y labels = Ok r /\
  Forall zsorted tls /\ Permutation (concat tls) labels /\
  length tls = length g /\ length trs = length g /\
  Forall (fun tl => Z.of_nat (length tl) = k) tls /\ Forall (fun tr => 0 <= tr < y) trs.
Proof. exact group_level. Qed.

(* (C) one node: the decode of children_label_ranks (per shape group: label combination,
   then the group rank) is inverted by compute_label_rank's loop, for every label rank below
   num_list_of_group_labellings (= num_labellings of the node); the label sets handed to the
   children are sorted and partition the node's labels.
   Still open (_partial): closing the induction over the whole tree (label_unrank keeps the
   shape view of every child, so that (C) applies at every node), density of label ranks, and
   unrank (rank t) = t / all_trees for every n; the bounded versions (n <= 6) are above. *)
Theorem label_children_level_inverse : forall gs rank labels cls clrs N,
  Forall good_group gs -> zsorted labels ->
  Z.of_nat (length labels) = zsum (map c_nl (concat gs)) ->
  children_label_ranks gs rank labels = Ok (cls, clrs) ->
  num_list_of_group_labellings gs = Ok N -> 0 <= rank < N ->
  clr_loop (relabel_groups gs cls clrs) labels = Ok rank /\
  length cls = length (concat gs) /\ length clrs = length (concat gs) /\
  Forall zsorted cls /\ Permutation (concat cls) labels /\
  Forall2 (fun c tl => Z.of_nat (length tl) = c_nl c) (concat gs) cls /\
  Forall2 (fun c tr => 0 <= tr < c_nlab c) (concat gs) clrs.
Proof. exact children_level. Qed.

(* ---- (d) label half closed over the whole tree, UNBOUNDED ----
   For every nice shape (what shape_unrank produces: shape_unrank_is_nice) and every label rank
   l in [0, num_labellings), whatever label_unrank returns has, at EVERY node, a cached label
   rank equal to compute_label_rank of its children ([label_consistent]); its num_leaves, shape
   rank and num_labellings are the shape's, its label rank is l and its labels are the ones
   handed in. *)
Theorem shape_unrank_is_nice : forall fuel n r sh,
  1 <= n -> 0 <= r -> shape_unrank fuel n r = Ok sh -> shape_nice sh.
Proof. exact shape_unrank_nice. Qed.

Theorem label_unrank_then_rank : forall sh l labels t,
  shape_nice sh -> zsorted labels -> Z.of_nat (length labels) = sh_nl sh ->
  0 <= l < sh_nlab sh -> label_unrank sh l labels = Ok t ->
  label_consistent t /\ summary_l t = mkcs (sh_nl sh) (sh_rk sh) (sh_nlab sh) l labels.
Proof. exact label_unrank_consistent. Qed.

(* RankTree.unrank(n,(s,l)) for EVERY n >= 1: if it returns a tree then (s,l) lies in the dense
   ranges (0 <= s, 0 <= l < num_labellings(n,s)), and at every node of the result both cached
   ranks equal what compute_shape_rank / compute_label_rank recompute from the children; the
   root carries (num_leaves, shape rank, label rank, labels) = (n, s, l, [0..n-1]).
   I.e. rank(unrank(n,(s,l))) = (s,l) on the RankTree objects, for all n.
   Still _partial (see notes): the passage through a tskit Tree (to_tsk_tree / from_tsk_tree
   re-sorts the children: needs "label_unrank returns children in canonical order"), density of
   the label ranks, unrank(rank t) = t and all_trees for every n -- the n <= 6 theorems above
   remain the proved versions of those. *)
Theorem rank_unrank_all_n : forall n s l t,
  1 <= n -> rt_unrank n s l = Ok t ->
  exists sh,
    shape_unrank (S (Z.to_nat n)) n s = Ok sh /\
    shape_consistent sh /\ label_consistent t /\
    summary_l t = mkcs n s (sh_nlab sh) l (default_labels n) /\
    0 <= s /\ 0 <= l < sh_nlab sh.
Proof. exact rt_unrank_consistent. Qed.

(* Density of the label ranks, UNBOUNDED: every label rank below num_labellings is accepted *)
Theorem label_unrank_dense : forall sh l labels,
  shape_nice sh -> zsorted labels -> Z.of_nat (length labels) = sh_nl sh ->
  0 <= l < sh_nlab sh -> exists t, label_unrank sh l labels = Ok t.
Proof. exact LabelDenseProofs.label_unrank_dense. Qed.

(* Step (1) complete at the level of RankTree objects, for EVERY n >= 1: every (s,l) with
   0 <= s < num_shapes n and 0 <= l < num_labellings(n,s) is accepted by RankTree.unrank, and in
   the result every node's cached shape and label rank equal the recomputed ones, the root's
   being (s,l)  [with rank_unrank_all_n: nothing outside the dense ranges is accepted]. *)
Theorem rank_unrank_on_dense_ranges : forall n nS s,
  1 <= n -> num_shapes n = Ok nS -> 0 <= s < nS ->
  exists sh, shape_unrank (S (Z.to_nat n)) n s = Ok sh /\ shape_consistent sh /\
    forall l, 0 <= l < sh_nlab sh ->
      exists t, rt_unrank n s l = Ok t /\ label_consistent t /\
                summary_l t = mkcs n s (sh_nlab sh) l (default_labels n).
Proof. exact LabelDenseProofs.rank_unrank_on_dense_ranges. Qed.

(* _partial: Tree.unrank(n,(s,l)).rank() = (s,l) for every n, RELATIVE TO the explicitly stated
   missing lemma (hypothesis): to_tsk_tree followed by from_tsk_tree gives back the cached ranks
   of the tree RankTree.unrank built (needs: label_unrank returns the children of every node in
   canonical order, so that the re-sort in from_tsk_tree is the identity).  The n <= 6 theorem
   unrank_then_rank_bounded is the unconditional statement. *)
Theorem unrank_then_rank_partial : forall n s l p,
  1 <= n -> tree_unrank n s l = Ok p ->
  (forall t, rt_unrank n s l = Ok t ->
     exists t', from_plain (to_plain t) = Ok t' /\ lt_srk t' = lt_srk t /\ lt_lrk t' = lt_lrk t) ->
  tree_rank p = Ok (s, l).
Proof. exact LabelDenseProofs.unrank_then_rank_partial. Qed.

(* ---- count_topologies: the result is indexed by UNORDERED combinations of sample sets ----
   TopologyCounter.__getitem__ canonicalises its key (_to_key: sorted tuple): the model key is a
   function of the multiset of indexes, so every permutation of a key reads the same counter;
   the canonical form is sorted and has the same members. *)
Theorem count_key_order_invariant : forall tc k k',
  Permutation k k' -> tc_getitem tc k = tc_getitem tc k'.
Proof. exact tc_getitem_perm. Qed.

Theorem count_key_canonical : forall k,
  StronglySorted Z.le (to_key k) /\ Permutation (to_key k) k /\ to_key (to_key k) = to_key k.
Proof. intros k. split; [apply to_key_sorted | split; [apply to_key_members | apply to_key_idem]]. Qed.

(* ---- (a') Combination.unrank is a bijection [0, C(n,k)) -> k-subsets: total on the range,
   injective; rank is injective on the k-subsets (surjectivity: comb_rank_unrank above) ---- *)
Theorem comb_unrank_total : forall (els : list Z) k r,
  (1 <= k)%nat -> 0 <= r < Z.of_nat (binom (length els) k) ->
  exists c, unrank r els k = Some c /\ In c (combs els k) /\ length c = k.
Proof. exact comb_unrank_total_proof. Qed.

Theorem comb_unrank_injective : forall n k r1 r2 c,
  (1 <= k)%nat -> 0 <= r1 -> 0 <= r2 ->
  unrank r1 (zrange 0 n) k = Some c -> unrank r2 (zrange 0 n) k = Some c -> r1 = r2.
Proof. exact comb_unrank_injective_proof. Qed.

Theorem comb_rank_injective : forall n k c1 c2 r,
  (1 <= k)%nat -> In c1 (combs (zrange 0 n) k) -> In c2 (combs (zrange 0 n) k) ->
  from_range_rank (S n) c1 (Z.of_nat n) = Some r -> from_range_rank (S n) c2 (Z.of_nat n) = Some r ->
  c1 = c2.
Proof. exact comb_rank_injective_proof. Qed.
