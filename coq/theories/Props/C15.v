(* Property C15 — statements only.  Each theorem is closed by [exact] of a lemma proved
   in the C15/ files; Print Assumptions is evaluated by ./check on every run. *)
From Coq Require Import List ZArith.
From TskVerif Require Import C15.Combination C15.CombProofs.

Theorem comb_is_binomial : forall n k : nat, (k <= n)%nat ->
  comb (Z.of_nat n) (Z.of_nat k) = Z.of_nat (binom n k).
Proof. exact comb_binom_nat. Qed.
