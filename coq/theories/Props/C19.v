(* Property C19 — statements only.  Each theorem is closed by [exact] of a lemma proved in
   the C19/ files; Print Assumptions is evaluated by ./check on every run. *)
From Coq Require Import List ZArith Bool Permutation.
From TskVerif Require Import Base.Common C19.Model C19.IbdAlg C19.RunsProofs C19.StoreProofs
  C19.SpecProofs C19.AlgProofs C19.SliceProofs C19.RefineProofs C19.TwoPos C19.FullProofs C19.GroupProofs C19.TotalProofs C19.FacadeProofs C19.StoreSpec C19.QueueProofs C19.SoundProofs.
From TskVerif Require Import C19.PairKey.
Import ListNotations.
Open Scope Z_scope.

(* (a) maximal-run grouping: the segments are in order, non-empty, pairwise disjoint, inside
   the range, and expanding them position by position gives back exactly the label list
   (so exactly the labelled positions are covered, each by the segment carrying its label). *)
Theorem runs_partition :
  forall (A : Type) (eqb : A -> A -> bool),
    (forall a b, eqb a b = true -> a = b) ->
    forall (start : Z) (l : list (option A)),
      let rs := runs eqb start l in
      ordered start (start + zlen l) rs /\
      map (fun x => lookup x rs) (zrange start (length l)) = l.
Proof. exact (@runs_partition_lemma). Qed.

(* (b) maximality: two consecutive segments that abut carry different labels. *)
Theorem runs_maximal :
  forall (A : Type) (eqb : A -> A -> bool),
    (forall a b, eqb a b = true -> a = b) ->
    forall (start : Z) (l : list (option A)), no_merge eqb (runs eqb start l).
Proof. exact (@runs_maximal_lemma). Qed.

(* (c) the result container: totals, number of pairs, per-pair summaries and stored lists are
   the aggregates of the recorded segments under every store option. *)
Theorem aggregates_consistent :
  forall (N : Z) (store_pairs store_segments : bool) (rs : list record),
    let st := add_all (store_init N store_pairs store_segments) rs in
    let keep_pairs := store_pairs || store_segments in
    st_n st = zlen rs /\
    st_span st = sumz (map (fun r => seg_span (rec_seg r)) rs) /\
    (keep_pairs = false -> st_map st = []) /\
    (keep_pairs = true ->
       keys_sorted (st_map st) /\
       st_n st = map_sum_n (st_map st) /\
       st_span st = map_sum_span (st_map st) /\
       (forall key, map_find key (st_map st) = pl_of store_segments (recs_of N key rs)) /\
       Forall (fun kp => 1 <= pl_n (snd kp)) (st_map st)) /\
    (store_segments = true ->
       Forall (fun kp => pl_n (snd kp) = zlen (pl_segs (snd kp)) /\
                         pl_span (snd kp) = seg_spans (pl_segs (snd kp))) (st_map st) /\
       st_n st = sumz (map (fun kp => zlen (pl_segs (snd kp))) (st_map st)) /\
       st_span st = sumz (map (fun kp => seg_spans (pl_segs (snd kp))) (st_map st))) /\
    (store_segments = false -> Forall (fun kp => pl_segs (snd kp) = []) (st_map st)).
Proof. exact aggregates_consistent_lemma. Qed.

(* the key of the pair map identifies the unordered pair *)
Theorem pair_key_identifies_pair :
  forall a b a' b' N,
    0 <= a < N -> 0 <= b < N -> 0 <= a' < N -> 0 <= b' < N ->
    pair_to_integer a b N = pair_to_integer a' b' N ->
    (a = a' /\ b = b') \/ (a = b' /\ b = a').
Proof. exact pair_key_injective. Qed.

(* segments_disjoint_and_cover (DESIGN section 4, C19): without filters the segments the
   specification assigns to a pair are non-empty, in order and pairwise disjoint inside [0, L),
   and a position is covered iff the pair has a common ancestor there; the covering segment is
   labelled with the MRCA at that position.  (Fuel exhaustion is excluded: pair_segments = Ok.) *)
Theorem spec_segments_disjoint_and_cover :
  forall (c : case) (a b : Z) (segs : list seg),
    pair_segments c a b = Ok segs ->
    ordered 0 (Z.max 0 (cL c)) segs /\
    forall x, 0 <= x < cL c ->
      exists lab, label_at (spec_fuel c) (cedges c) x a b = Ok lab /\
                  lookup x segs = option_map label_mrca lab.
Proof. exact spec_cover_lemma. Qed.

(* the specification's runs are maximal: abutting runs differ in MRCA or in one of the chains *)
Theorem spec_segments_maximal :
  forall (c : case) (a b : Z) (ls : list (option label)),
    labels c a b = Ok ls -> no_merge label_eqb (runs label_eqb 0 ls).
Proof. exact spec_maximal_lemma. Qed.

(* (e) the label of a position (MRCA + the two edge chains) is symmetric in the pair *)
Theorem mrca_symmetric :
  forall fuel es x a b lab,
    label_at fuel es x a b = Ok lab ->
    label_at fuel es x b a = Ok (option_map swap_label lab).
Proof. exact mrca_symmetric_lemma. Qed.

(* the label's node is the first node of a's walk that lies on b's walk, it is reached by both
   chains, and the chains are the edge ids walked *)
Theorem mrca_is_first_common_ancestor :
  forall fuel es x a b m ca cb ua ub,
    ups fuel es x a = Some ua -> ups fuel es x b = Some ub ->
    label_at fuel es x a b = Ok (Some (m, ca, cb)) ->
    nth (length ca) (ancs a ua) 0 = m /\ nth (length cb) (ancs b ub) 0 = m /\
    ca = map fst (firstn (length ca) ua) /\ cb = map fst (firstn (length cb) ub) /\
    (forall k, (k < length ca)%nat -> ~ In (nth k (ancs a ua) 0) (ancs b ub)).
Proof. exact label_sound_lemma. Qed.

(* (d) on the specification: a kept segment is an unfiltered segment with span > min_span and
   time(mrca) <= max_time, and every such segment is kept (same order). *)
Theorem filter_spec :
  forall (c : case) (a b : Z) (segs : list seg),
    pair_segments c a b = Ok segs ->
    (forall s, In s segs -> 0 <= seg_node s < num_nodes c) ->
    pair_segments_filtered c a b =
      Ok (filter (fun s => span_passes (cminspan2 c) s &&
                           match cmaxtime2 c with
                           | None => true
                           | Some m => match get (ctimes c) (seg_node s) with Ok t => 2 * t <=? m | _ => false end
                           end) segs).
Proof. exact spec_filter_complete_lemma. Qed.

(* (d) on the algorithm model: although tsk_ibd_finder applies min_span to intermediate ancestry
   segments and stops at the first edge whose parent is older than max_time, its records are
   exactly the records of the unfiltered run that pass both thresholds, in the same order.
   Needs only: thresholds non-negative (else the C code rejects), edges sorted by parent time. *)
Theorem alg_filter_commutes :
  forall (c : case) (out0 : list record),
    0 <= cminspan2 c ->
    match cmaxtime2 c with Some m => 0 <= m | None => True end ->
    time_sorted (ctimes c) (cedges c) ->
    ibd_records (unfiltered c) = Ok out0 ->
    ibd_records c = Ok (filter (rec_passes (cminspan2 c) (cmaxtime2 c) (ctimes c)) out0).
Proof. exact alg_filter_commutes_lemma. Qed.

(* Finding C19-max_time-boundary: the documented strict reading of max_time is false — a
   segment whose MRCA time equals max_time is part of the result. *)
Theorem max_time_strict_refuted :
  exists (c : case) (r : result) (pr : (Z * Z) * list seg) (s : seg) (t m : Z),
    ibd_spec c = Ok r /\ In pr r /\ In s (snd pr) /\
    cmaxtime2 c = Some m /\ get (ctimes c) (seg_node s) = Ok t /\ ~ (2 * t < m).
Proof. exact max_time_strict_refuted_lemma. Qed.

(* the maximal runs are the ONLY in-order, disjoint, unmergeable segmentation with the given
   expansion: any algorithm whose per-pair output has these three properties returns the
   specification's segments *)
Theorem runs_unique :
  forall (A : Type) (eqb : A -> A -> bool),
    (forall a b, eqb a b = true -> a = b) -> (forall a, eqb a a = true) ->
    forall (start : Z) (l : list (option A)) (segs : list (Z * Z * A)),
      ordered start (start + zlen l) segs -> no_merge eqb segs ->
      map (fun x => lookup x segs) (zrange start (length l)) = l ->
      segs = runs eqb start l.
Proof. exact (@runs_unique_lemma). Qed.

(* (f) refinement tsk_ibd_finder -> specification, PARTIAL.

   Full statement (not proved; tied per run by c19_check_alg / c19_check_spec on every case):
     forall c st r, valid c ->
       ibd_alg c true true = Ok st -> ibd_spec c = Ok r ->
       map (fun p => (fst p, seg_sort (snd p))) (store_result st) = r.

   Proved part: position-wise correctness of the unfiltered sweep.  For every lattice position
   x, every pair a <> b and the specification's label of (x, a, b): among the records of the
   algorithm model, exactly one covers x and belongs to the pair if the pair is requested
   (both nodes in the sample sets, in different sets for `between`) and has a common ancestor
   at x, and its node is the specification's MRCA; otherwise there is none.  Hence the
   algorithm's segments of a pair are disjoint, cover exactly the positions with a common
   ancestor, and carry the right ancestor.  Together with alg_filter_commutes this extends to
   the filtered run.
   The END POINTS are characterised by the next theorem (alg_same_record_iff_same_label).
   Missing for the full statement: (1) the list plumbing from "the records of a pair partition
   the positions with a common ancestor into the classes of equal label, labelled with the
   MRCA" (proved) to equality of the sorted record list with `runs` (runs_unique is the tool,
   the sorting / permutation argument is not done); (2) the hypotheses valid_at are assumed,
   not derived from tsk_table_collection_check_integrity; (3) `requested` is expressed with the
   algorithm's sample_set_id array, its equality with Model.pair_requested is only checked per
   run; (4) `ibd_records = Ok` (no out-of-bounds access) is a hypothesis. *)
Theorem ibd_alg_refines_spec_partial :
  forall (c : case) (ssid : list Z) (out0 : list record) (x a b : Z) (lab : option label),
    init_ssid c = Ok ssid ->
    valid_at (ctimes c) (cedges c) x ->
    0 <= x < cL c -> a <> b ->
    ibd_records (unfiltered c) = Ok out0 ->
    label_at (spec_fuel c) (cedges c) x a b = Ok lab ->
    map (fun r => seg_node (rec_seg r)) (filter (fun r => covx (cov1 x) (rec_seg r) && pair_is a b r) out0)
    = if requested (is_between c) ssid a b
      then match lab with Some l => [label_mrca l] | None => [] end
      else [].
Proof. exact alg_position_correct_lemma. Qed.

(* the hypotheses of the previous theorem are decidable; the checker is evaluated on every
   generated case by the correspondence (c19_check_valid) *)
Theorem valid_at_checker_sound :
  forall times es x, valid_atb times es x = true -> valid_at times es x.
Proof. exact valid_atb_sound. Qed.

(* (f, end points) two positions x, y lie in one and the same record of a requested pair iff
   the specification labels them identically — same MRCA reached through the same two edge
   chains; at most one record of the pair covers both.  So the algorithm breaks a pair's
   segments exactly where the label changes (it neither merges across a path change with the
   same MRCA nor splits inside a run). *)
Theorem alg_same_record_iff_same_label :
  forall (c : case) (ssid : list Z) (out0 : list record) (x y a b : Z) (lx ly : option label),
    init_ssid c = Ok ssid ->
    valid_at (ctimes c) (cedges c) x -> valid_at (ctimes c) (cedges c) y ->
    0 <= x < cL c -> 0 <= y < cL c -> a <> b ->
    requested (is_between c) ssid a b = true ->
    ibd_records (unfiltered c) = Ok out0 ->
    label_at (spec_fuel c) (cedges c) x a b = Ok lx ->
    label_at (spec_fuel c) (cedges c) y a b = Ok ly ->
    let both := filter (fun r => covx (cov2 x y) (rec_seg r) && pair_is a b r) out0 in
    (length both <= 1)%nat /\ (both <> [] <-> (lx = ly /\ lx <> None)).
Proof. exact alg_same_record_iff_same_label_lemma. Qed.

(* every record of the algorithm model (with or without filters) is a NON-EMPTY interval inside
   [0, L] between two different nodes — so no record is invisible to the two position-wise
   theorems above (a record covers at least its own left end point) *)
Theorem records_wellformed :
  forall (c : case) (out : list record), 0 <= cL c -> ibd_records c = Ok out -> Forall (rec_wf (cL c)) out.
Proof. exact records_wellformed_lemma. Qed.

(* (f) FULL refinement of the algorithm model to the specification.

   For every case accepted by the checkable validity predicate Model.case_valid
   (0 <= L; edges with ids in range, 0 <= left < right <= L, parent strictly older than child,
   sorted by parent time, at most one parent per node and position; well-formed within/between
   lists; non-negative thresholds — evaluated on every generated case by c19_check_valid):
     - the model of tsk_ibd_finder never indexes outside its arrays and returns normally
       (ibd_records c = Ok out: totality is a conclusion);
     - the specification does not run out of fuel (pair_segments_filtered = Ok);
     - for every requested pair (the SPECIFICATION's pair_requested) the recorded segments are,
       as a multiset, exactly the specification's maximal runs of equal (MRCA, chain, chain)
       labels filtered by span > min_span and time(MRCA) <= max_time;
     - for every other pair nothing is recorded.
   Remaining trust: the hand-written model vs. the C code (per-run correspondence C = IbdAlg
   exactly), and that tskit's integrity check implies case_valid (checked per run). *)
Theorem ibd_alg_refines_spec :
  forall c : case, case_valid c = true ->
    exists out : list record,
      ibd_records c = Ok out /\
      forall a b : Z, a <> b ->
        (pair_requested c a b = true ->
           exists segs, pair_segments_filtered c a b = Ok segs /\
                        Permutation (map rec_seg (filter (pair_is a b) out)) segs) /\
        (pair_requested c a b = false -> filter (pair_is a b) out = []).
Proof. exact ibd_alg_refines_spec_lemma. Qed.

(* one pair, unfiltered: the records are exactly the maximal runs *)
Theorem pair_records_are_maximal_runs :
  forall (c : case) (ssid : list Z) (out0 : list record) (a b : Z) (ls : list (option label)),
    init_ssid c = Ok ssid ->
    (forall x, 0 <= x < cL c -> valid_at (ctimes c) (cedges c) x) ->
    a <> b -> requested (is_between c) ssid a b = true ->
    ibd_records (unfiltered c) = Ok out0 -> labels c a b = Ok ls -> 0 <= cL c ->
    Permutation (map rec_seg (RS out0 a b)) (map seg_of_run (rsL ls)).
Proof. exact pair_records_are_runs. Qed.

(* the algorithm's sample_set_id test is the specification's pair_requested *)
Theorem requested_is_spec_requested :
  forall c ssid a b, init_ssid c = Ok ssid -> a <> b ->
    requested (is_between c) ssid a b = pair_requested c a b.
Proof. exact requested_is_pair_requested. Qed.

(* ---- what tskit checks on entry vs. what the refinement theorem assumes ---------------------------- *)

(* case_valid = [integrity0: what tsk_table_collection_check_integrity(self, 0) checks since fix e0eff6d]
              && [sorted_and_tree: edges sorted by parent time, one parent per node and position —
                  NOT checked with options 0; guaranteed for a TreeSequence, only documented for a
                  TableCollection] && [args_ok: the finder's own argument checks] *)
Theorem case_valid_decomposition :
  forall c, case_valid c = integrity0 c && sorted_and_tree c && args_ok c.
Proof. exact case_valid_decomposition_lemma. Qed.

(* the entry check + argument checks alone give memory safety and normal termination of the sweep *)
Theorem integrity_implies_safe :
  forall c, integrity0 c = true -> args_ok c = true -> exists out, ibd_records c = Ok out.
Proof. exact integrity_implies_safe_lemma. Qed.

(* ... but not correctness: finding C19-unsorted-tables (integrity-clean, unsorted edges: silently wrong) *)
Theorem unsorted_integrity_clean_refuted :
  integrity0 unsorted_case = true /\ args_ok unsorted_case = true /\ sorted_and_tree unsorted_case = false /\
  ibd_records unsorted_case = Ok [] /\
  ibd_spec unsorted_case = Ok [((0, 1), [(0, 10, 3)])].
Proof. exact unsorted_integrity_clean_refuted_lemma. Qed.

(* ---- the Python result classes (IdentitySegments / IdentitySegmentList) ------------------------------ *)

Theorem facade_lookup_symmetric : forall st a b, py_getitem st a b = py_getitem st b a.
Proof. exact facade_lookup_symmetric_lemma. Qed.

(* result[(a,b)] for in-range a <> b: the summary / list of exactly the records of that unordered pair,
   in emission order, or KeyError when there is none *)
Theorem facade_getitem :
  forall N sp ss rs a b,
    let st := add_all (store_init N sp ss) rs in
    0 <= a < N -> 0 <= b < N -> a <> b -> sp || ss = true ->
    py_getitem st a b =
    match pl_of ss (recs_of N (pair_to_integer a b N) rs) with Some p => PyOk p | None => PyKeyError end.
Proof. exact facade_getitem_lemma. Qed.

(* every listed pair is (a, b) with 0 <= a < b < N and can be looked up in both orders (non-empty) *)
Theorem facade_pairs :
  forall N sp ss rs,
    let st := add_all (store_init N sp ss) rs in
    sp || ss = true ->
    Forall (fun r => 0 <= rec_a r < N /\ 0 <= rec_b r < N /\ rec_a r <> rec_b r) rs ->
    forall a b, In (a, b) (store_keys st) ->
      0 <= a < b /\ b < N /\ exists p, py_getitem st a b = PyOk p /\ py_getitem st b a = PyOk p /\ 1 <= py_list_len p.
Proof. exact facade_pairs_lemma. Qed.

Theorem facade_len :
  forall st, match py_num_pairs st, py_pairs st with
             | PyOk n, PyOk ks => n = zlen ks
             | PyPairsNotStored, PyPairsNotStored => True
             | _, _ => False
             end.
Proof. exact facade_len_lemma. Qed.

(* ---- store level: the container filled by the algorithm model IS the specification's result ---------- *)

(* For every valid case and every store option: ibd_alg returns a container st, ibd_spec returns r, and
     num_segments = number of segments of r, total_span = total span of r;
   with store_pairs or store_segments additionally
     pairs (get_keys, in key order) = the pairs of r in the same order, num_pairs = length r,
     row by row: the pair's key, 0 <= a < b < N, len = number of its segments, total_span = their span,
     and with store_segments the stored list is a permutation of the specification's segments
     (without: empty).  Combines ibd_alg_refines_spec with aggregates_consistent. *)
Theorem store_refines_spec :
  forall (c : case) (sp ss : bool), case_valid c = true ->
    exists (st : store) (r : result),
      ibd_alg c sp ss = Ok st /\ ibd_spec c = Ok r /\
      st_n st = res_num_segments r /\ st_span st = res_total_span r /\
      (sp || ss = true ->
         store_keys st = map fst r /\ store_num_pairs st = res_num_pairs r /\
         Forall2 (row_ok (num_nodes c) ss) (st_map st) r).
Proof. exact store_refines_spec_lemma. Qed.

(* ---- the growable per-edge segment queue (capacity 64, doubling) ---------------------------------------- *)

(* for ANY initial capacity >= 1 and any number of pushed segments: nothing is lost or reordered across
   growths, the write index stays inside the array, one slot stays free *)
Theorem queue_growth_no_loss :
  forall (cap : nat) (xs : list seg), (1 <= cap)%nat ->
    exists q, cq_fill (mkCQ cap []) xs = Ok q /\ cq_items q = xs /\ (length xs < cq_cap q)%nat.
Proof. exact queue_growth_no_loss_lemma. Qed.

(* hence the list queue of the sweep model is exactly the content of the C array queue *)
Theorem queue_of_is_array_content :
  forall ms2 e cs, exists q, cq_fill (mkCQ 64 []) (queue_of ms2 e cs) = Ok q /\ cq_items q = queue_of ms2 e cs.
Proof. exact queue_of_is_array_content_lemma. Qed.

(* "grow only when full, and the grow branch forgets to append" (seeded change C19-10) loses an element *)
Theorem queue_growth_mutant_refuted :
  exists (cap : nat) (xs : list seg) (q : cqueue),
    (1 <= cap)%nat /\ cq_fill_mutant (mkCQ cap []) xs = Ok q /\ cq_items q <> xs.
Proof. exact queue_growth_mutant_refuted_lemma. Qed.

(* ---- record-level soundness --------------------------------------------------------------------------- *)

(* For every valid case, EVERY segment recorded by the algorithm model (filters included) belongs to a
   requested pair of two different nodes, is one of the specification's (filtered) segments of that pair,
   and is a shared-path interval with the recorded MRCA: at every position of it the specification's
   label of the pair exists and its MRCA is the recorded node. *)
Theorem every_record_is_spec_segment :
  forall (c : case) (out : list record), case_valid c = true -> ibd_records c = Ok out ->
    forall r, In r out ->
      rec_a r <> rec_b r /\ pair_requested c (rec_a r) (rec_b r) = true /\
      exists segs, pair_segments_filtered c (rec_a r) (rec_b r) = Ok segs /\ In (rec_seg r) segs /\
        forall x, seg_left (rec_seg r) <= x < seg_right (rec_seg r) ->
          exists lab, label_at (spec_fuel c) (cedges c) x (rec_a r) (rec_b r) = Ok (Some lab) /\
                      label_mrca lab = seg_node (rec_seg r).
Proof. exact every_record_is_spec_segment_lemma. Qed.

(* ... and conversely every (filtered) specification segment of a requested pair is recorded, with the
   same multiplicity *)
Theorem every_spec_segment_is_recorded :
  forall (c : case) (out : list record) (a b : Z) (segs : list seg),
    case_valid c = true -> ibd_records c = Ok out -> a <> b -> pair_requested c a b = true ->
    pair_segments_filtered c a b = Ok segs ->
    forall s, In s segs ->
      exists r, In r out /\ pair_is a b r = true /\ rec_seg r = s /\
                count_occ_seg s (map rec_seg (filter (pair_is a b) out)) = count_occ_seg s segs.
Proof. exact every_spec_segment_is_recorded_lemma. Qed.

(* The pair key of the result store is symmetric, and integer_to_pair inverts it to (min, max):
   with pair_key_identifies_pair, a bijection between unordered pairs and their keys. *)
Theorem pair_key_symmetric : forall a b N, pair_to_integer a b N = pair_to_integer b a N.
Proof. exact pair_key_symmetric_proof. Qed.

Theorem pair_key_roundtrip : forall a b N, 0 <= a -> a <= b -> b < N ->
  integer_to_pair (pair_to_integer a b N) N = (a, b).
Proof. exact pair_key_roundtrip_proof. Qed.
