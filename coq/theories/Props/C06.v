(* Property C06 — a Tree's state depends only on where it is, not on how it got there.
   Statements only: each theorem is closed by [exact] of a lemma proved in the C06/ files;
   Print Assumptions is evaluated by ./check on every run.

   Vocabulary (C06/Model.v, C06/Theorems.v):
     run m ts ops        the Python-level interpreter: a new Tree (and a second one for
                         copy / swap) of ts, then ops; result = final (cur, other) trees and
                         the list of return values / exception classes
     core                the modelled state is index, interval, cursors, parent array, edge
                         array (tracked counts untouched); full = with tracked counts
     valid_tsb ts        boolean validity of (edges, insertion/removal index, breakpoints):
                         evaluated to true on every correspondence case of every run
     finite_op           every op except seek(NaN) (Python level or low level)
     abs t               (index, left, right, parent array, edge array, num_edges)
     fresh_ops k         [] for k = -1, [seek_index k] otherwise: "a fresh Tree moved there"
   Non-vacuity: Example ex_ts_valid / ex_ops_finite / ex_run in C06/Theorems.v (a 4-tree
   sequence and a 15-op sequence meeting every hypothesis below), ex_iter_run (IterProofs.v). *)
From Coq Require Import List ZArith.
From TskVerif Require Import Base.Common C06.Model C06.Facts C06.BasicProofs C06.ListFacts C06.Valid
  C06.CursorProofs C06.NavProofs C06.Theorems C06.IterProofs.
Import ListNotations.
Open Scope Z_scope.

(* (a) After any finite op sequence the tree_pos cursors of both trees equal the counting
   characterisation of the current tree [a, b): FORWARD in.stop = #{left <= a},
   out.stop = #{right <= a}; REVERSE out.stop = #{left < b} - 1, in.stop = #{right < b} - 1.
   (FULL statement; also: the run never reads out of bounds and never runs out of fuel.) *)
Theorem cursor_invariant : forall ts ops, valid_tsb ts = true -> Forall finite_op ops ->
  exists st outs, run core ts ops = Ok (st, outs) /\ cursor_ok ts (fst st) /\ cursor_ok ts (snd st).
Proof. exact cursor_invariant_proof. Qed.

(* (b1) After any finite op sequence index / interval / parent array / edge array / num_edges
   are those the rows define for the current index (parent_at / edges_at / num_edges_at = the
   SPEC), or those of the null tree. *)
Theorem nav_state_is_spec : forall ts ops, valid_tsb ts = true -> Forall finite_op ops ->
  exists st outs, run core ts ops = Ok (st, outs) /\ spec_state ts (fst st) /\ spec_state ts (snd st).
Proof. exact nav_state_is_spec_proof. Qed.

(* (b2) ... hence identical to a fresh Tree moved directly to the same index.
   This is the builder task's statement (b) in full.  PARTIAL only with respect to DESIGN's
   wider [abs]: here abs = index, interval, parent array, edge array, num_edges.  Full
   statement: the same with abs extended by children sets, sample counts, roots, sample lists
   (tied by correspondence + oracle only; C01 owns those views) and by sites / tracked
   counts — for which it is FALSE: nav_sites_refuted, nav_tracked_refuted. *)
Theorem nav_canonical_partial : forall ts ops, valid_tsb ts = true -> Forall finite_op ops ->
  exists st outs, run core ts ops = Ok (st, outs) /\
  exists fr outs', run core ts (fresh_ops (t_index (fst st))) = Ok (fr, outs') /\
                   abs (fst st) = abs (fst fr).
Proof. exact nav_canonical_proof. Qed.

(* (c1) Tree.next() / Tree.prev() return False exactly when the tree enters the null state
   (any state, any mode; no hypothesis needed). *)
Theorem next_prev_false_iff_null : forall m ts st o st' r,
  o = OpNext \/ o = OpPrev ->
  py_step m ts st o = Ok (st', r) ->
  (r = 0 /\ t_index (fst st') = -1) \/ (r = 1 /\ t_index (fst st') <> -1).
Proof. exact next_prev_ret. Qed.

(* (c2) ... and in every reachable state the call succeeds and moves to index+1 / index-1,
   wrapping through the null state (nxt / prv). *)
Theorem next_prev_index : forall ts ops o, valid_tsb ts = true -> Forall finite_op ops ->
  o = OpNext \/ o = OpPrev ->
  exists st outs st' r, run core ts ops = Ok (st, outs) /\ py_step core ts st o = Ok (st', r) /\
    t_index (fst st') = (match o with OpNext => nxt ts | _ => prv ts end) (t_index (fst st)) /\
    (r = 0 <-> t_index (fst st') = -1) /\ (r = 0 \/ r = 1).
Proof. exact next_prev_index_proof. Qed.

(* (d) In every reachable state seek(x) with 0 <= x < L returns None, leaves the other tree
   alone and lands on the tree whose interval contains x. *)
Theorem seek_lands : forall ts ops v, valid_tsb ts = true -> Forall finite_op ops -> 0 <= v < ts_L ts ->
  exists st outs st', run core ts ops = Ok (st, outs) /\
    py_step core ts st (OpSeek (Fin v)) = Ok (st', RET_NONE) /\
    t_left (fst st') <= v < t_right (fst st') /\ snd st' = snd st.
Proof. exact seek_lands_proof. Qed.

(* (e) tsk_tree_seek terminates: every fuel >= num_trees + 1 (loop tests of
   tsk_tree_seek_linear) gives the same Ok result in every reachable state. *)
Theorem seek_linear_terminates : forall ts ops v, valid_tsb ts = true -> Forall finite_op ops ->
  0 <= v < ts_L ts ->
  exists st outs t', run core ts ops = Ok (st, outs) /\
    forall fuel, Z.of_nat fuel >= num_trees ts + 1 -> tree_seek fuel core ts (fst st) (Fin v) = Ok t'.
Proof. exact seek_linear_terminates_proof. Qed.

(* (f) TreeIterator: `for t in ts.trees()` yields the trees 0, 1, ..., T-1 in this order, each
   in a state satisfying the navigation invariant [inv] (cursor invariant + arrays = SPEC),
   then raises StopIteration for ever with the tree back in the null state; reversed(...)
   yields T-1, ..., 0.  ([expect_fwd ts (-1) n] / [expect_rev T n] are the first n answers.) *)
Theorem iter_forward : forall ts n, valid_tsb ts = true ->
  exists it', iter_n core ts (iter_new ts true) n = Ok (it', expect_fwd ts (-1) n) /\
              inv ts (it_tree it') /\
              (Z.of_nat n >= num_trees ts + 1 -> it_more it' = false /\ t_index (it_tree it') = -1).
Proof. exact iter_forward_proof. Qed.

Theorem iter_reversed : forall ts n, valid_tsb ts = true ->
  exists it', iter_n core ts (iter_new ts false) n = Ok (it', expect_rev (num_trees ts) n) /\
              inv ts (it_tree it') /\
              (Z.of_nat n >= num_trees ts + 1 -> it_more it' = false /\ t_index (it_tree it') = -1).
Proof. exact iter_reverse_proof. Qed.

(* F4 (general form): in every reachable non-null state Tree.seek(NaN) passes both guards and
   tsk_tree_seek_linear exhausts every fuel. *)
Theorem seek_nan_diverges : forall ts ops, valid_tsb ts = true -> Forall finite_op ops ->
  exists st outs, run core ts ops = Ok (st, outs) /\
    (t_index (fst st) <> -1 -> forall fuel, py_step_fuel fuel core ts st (OpSeek NaN) = Fuel).
Proof. exact seek_nan_diverges_proof. Qed.

(* F4 (witness): such a state exists — "seek always lands / returns" is refuted for NaN. *)
Theorem seek_nan_diverges_refuted :
  exists ts ops st outs, valid_tsb ts = true /\ Forall finite_op ops /\
    run core ts ops = Ok (st, outs) /\ t_index (fst st) = 0 /\
    forall fuel, py_step_fuel fuel core ts st (OpSeek NaN) = Fuel.
Proof. exact seek_nan_diverges_refuted_proof. Qed.

(* F4 (second facet): from the null state seek(NaN) is accepted and lands on tree 0. *)
Theorem seek_nan_accepted_refuted :
  exists ts st', valid_tsb ts = true /\
    py_step core ts (init_state ts) (OpSeek NaN) = Ok (st', RET_NONE) /\ t_index (fst st') = 0.
Proof. exact seek_nan_accepted_refuted_proof. Qed.

(* F14: history independence of the site list is refuted (first(); clear() keeps tree 0's sites). *)
Theorem nav_sites_refuted :
  exists ts ops st outs, valid_tsb ts = true /\ Forall finite_op ops /\
    run core ts ops = Ok (st, outs) /\ t_index (fst st) = -1 /\
    t_sites (fst st) <> t_sites (tree_init ts).
Proof. exact nav_sites_refuted_proof. Qed.

(* F15: history independence of tracked-sample counts is refuted (internal sample node). *)
Theorem nav_tracked_refuted :
  exists ts ops st outs fr outs', valid_tsb ts = true /\ Forall finite_op ops /\
    run full ts ops = Ok (st, outs) /\
    run full ts (fresh_ops (t_index (fst st))) = Ok (fr, outs') /\
    t_index (fst st) = t_index (fst fr) /\ t_tracked (fst st) <> t_tracked (fst fr).
Proof. exact nav_tracked_refuted_proof. Qed.
