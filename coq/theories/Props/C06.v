(* Property C06 — statements only.  Each theorem is closed by [exact] of a lemma proved in
   the C06/ files; Print Assumptions is evaluated by ./check on every run. *)
From Coq Require Import List ZArith.
From TskVerif Require Import Base.Common C06.Model C06.BasicProofs.
Open Scope Z_scope.

(* Tree.next() / Tree.prev() return False exactly when the tree enters the null state. *)
Theorem next_prev_false_iff_null : forall m ts st o st' r,
  o = OpNext \/ o = OpPrev ->
  py_step m ts st o = Ok (st', r) ->
  (r = 0 /\ t_index (fst st') = -1) \/ (r = 1 /\ t_index (fst st') <> -1).
Proof. exact next_prev_ret. Qed.
