(* Property C06 — a Tree's state depends only on where it is, not on how it got there.
   Statements only: each theorem is closed by [exact] of a lemma proved in the C06/ files;
   Print Assumptions is evaluated by ./check on every run.

   Vocabulary (C06/Model.v, C06/Theorems.v):
     run m ts ops        the Python-level interpreter: a new Tree (and a second one for
                         copy / swap) of ts, then ops; result = final (cur, other) trees and
                         the list of return values / exception classes
     core                the modelled state is index, interval, cursors, parent array, edge
                         array (tracked counts untouched); full = with tracked counts
     valid_tsb ts        boolean validity of (edges, insertion/removal index, breakpoints):
                         evaluated to true on every correspondence case of every run
     abs t               (index, left, right, parent array, edge array, num_edges, site list)
     fresh_ops k         [] for k = -1, [seek_index k] otherwise: "a fresh Tree moved there"
   The model follows /repo HEAD with the repairs of F4 (eee123e), F14 (9583b70), F15 (fcbdf2e);
   the op lists are UNRESTRICTED (seek(NaN) included).
   Non-vacuity: Example ex_ts_valid / ex_run in C06/Theorems.v (a 4-tree sequence and a 17-op
   sequence), ex_sites_after_clear, ex_tracked_after_clear, ex_seek_nan, ex_iter_run. *)
From Coq Require Import List ZArith.
From TskVerif Require Import Base.Common C06.Model C06.Facts C06.BasicProofs C06.ListFacts C06.Valid
  C06.CursorProofs C06.NavProofs C06.Theorems C06.IterProofs C06.FullProofs C06.CountProofs C06.SampleLists C06.Renumber C06.SeekIndexTotal.
Import ListNotations.
Open Scope Z_scope.

(* (a) After any finite op sequence the tree_pos cursors of both trees equal the counting
   characterisation of the current tree [a, b): FORWARD in.stop = #{left <= a},
   out.stop = #{right <= a}; REVERSE out.stop = #{left < b} - 1, in.stop = #{right < b} - 1.
   (FULL statement; also: the run never reads out of bounds and never runs out of fuel.) *)
Theorem cursor_invariant : forall ts ops, valid_tsb ts = true ->
  exists st outs, run core ts ops = Ok (st, outs) /\ cursor_ok ts (fst st) /\ cursor_ok ts (snd st).
Proof. exact cursor_invariant_proof. Qed.

(* (b1) After any finite op sequence index / interval / parent array / edge array / num_edges /
   site list are those the rows define for the current index (parent_at / edges_at /
   num_edges_at / sites_at = the SPEC), or those of the null tree (no sites). *)
Theorem nav_state_is_spec : forall ts ops, valid_tsb ts = true ->
  exists st outs, run core ts ops = Ok (st, outs) /\ spec_state ts (fst st) /\ spec_state ts (snd st).
Proof. exact nav_state_is_spec_proof. Qed.

(* (b2) ... hence identical to a fresh Tree moved directly to the same index.
   This is the builder task's statement (b) in full, extended to num_edges and the site list.
   PARTIAL only with respect to DESIGN's wider [abs]: children sets, sample counts, roots,
   sample lists (C01 owns those views) and the tracked-sample counts (mode [full]: canonical
   since fix fcbdf2e on every generated case, see ex_tracked_after_clear, but not proved — the
   ancestor walk of insert/remove_edge needs acyclicity, which this model does not carry) are
   tied by correspondence + oracle only. *)
Theorem nav_canonical_partial : forall ts ops, valid_tsb ts = true ->
  exists st outs, run core ts ops = Ok (st, outs) /\
  exists fr outs', run core ts (fresh_ops (t_index (fst st))) = Ok (fr, outs') /\
                   abs (fst st) = abs (fst fr).
Proof. exact nav_canonical_proof. Qed.

(* (c1) Tree.next() / Tree.prev() return False exactly when the tree enters the null state
   (any state, any mode; no hypothesis needed). *)
Theorem next_prev_false_iff_null : forall m ts st o st' r,
  o = OpNext \/ o = OpPrev ->
  py_step m ts st o = Ok (st', r) ->
  (r = 0 /\ t_index (fst st') = -1) \/ (r = 1 /\ t_index (fst st') <> -1).
Proof. exact next_prev_ret. Qed.

(* (c2) ... and in every reachable state the call succeeds and moves to index+1 / index-1,
   wrapping through the null state (nxt / prv). *)
Theorem next_prev_index : forall ts ops o, valid_tsb ts = true ->
  o = OpNext \/ o = OpPrev ->
  exists st outs st' r, run core ts ops = Ok (st, outs) /\ py_step core ts st o = Ok (st', r) /\
    t_index (fst st') = (match o with OpNext => nxt ts | _ => prv ts end) (t_index (fst st)) /\
    (r = 0 <-> t_index (fst st') = -1) /\ (r = 0 \/ r = 1).
Proof. exact next_prev_index_proof. Qed.

(* (d) In every reachable state seek(x) with 0 <= x < L returns None, leaves the other tree
   alone and lands on the tree whose interval contains x. *)
Theorem seek_lands : forall ts ops v, valid_tsb ts = true -> 0 <= v < ts_L ts ->
  exists st outs st', run core ts ops = Ok (st, outs) /\
    py_step core ts st (OpSeek (Fin v)) = Ok (st', RET_NONE) /\
    t_left (fst st') <= v < t_right (fst st') /\ snd st' = snd st.
Proof. exact seek_lands_proof. Qed.

(* (e) tsk_tree_seek terminates: every fuel >= num_trees + 1 (loop tests of
   tsk_tree_seek_linear) gives the same Ok result in every reachable state. *)
Theorem seek_linear_terminates : forall ts ops v, valid_tsb ts = true ->
  0 <= v < ts_L ts ->
  exists st outs t', run core ts ops = Ok (st, outs) /\
    forall fuel, Z.of_nat fuel >= num_trees ts + 1 -> tree_seek fuel core ts (fst st) (Fin v) = Ok t'.
Proof. exact seek_linear_terminates_proof. Qed.

(* (f) TreeIterator: `for t in ts.trees()` yields the trees 0, 1, ..., T-1 in this order, each
   in a state satisfying the navigation invariant [inv] (cursor invariant + arrays = SPEC),
   then raises StopIteration for ever with the tree back in the null state; reversed(...)
   yields T-1, ..., 0.  ([expect_fwd ts (-1) n] / [expect_rev T n] are the first n answers.) *)
Theorem iter_forward : forall ts n, valid_tsb ts = true ->
  exists it', iter_n core ts (iter_new ts true) n = Ok (it', expect_fwd ts (-1) n) /\
              inv ts (it_tree it') /\
              (Z.of_nat n >= num_trees ts + 1 -> it_more it' = false /\ t_index (it_tree it') = -1).
Proof. exact iter_forward_proof. Qed.

Theorem iter_reversed : forall ts n, valid_tsb ts = true ->
  exists it', iter_n core ts (iter_new ts false) n = Ok (it', expect_rev (num_trees ts) n) /\
              inv ts (it_tree it') /\
              (Z.of_nat n >= num_trees ts + 1 -> it_more it' = false /\ t_index (it_tree it') = -1).
Proof. exact iter_reverse_proof. Qed.

(* (h) The machine WITH tracked-sample counts (mode [full]: the ancestor walks of
   tsk_tree_insert_edge / tsk_tree_remove_edge and the partial reset of tsk_tree_clear; this is
   the machine the correspondence evaluates) refines [core]: because node times strictly
   increase along every edge (acyclicity, part of valid_tsb) the walks terminate within their
   fuel, so for EVERY op list the run succeeds, returns the same values and ends with the same
   [abs], which is the SPEC state.  Hence (a)-(g) hold for it too.  (What remains differential:
   the VALUES of the tracked counts, and the views C01 owns.) *)
Theorem full_refines_core : forall ts ops, valid_tsb ts = true ->
  exists sc sf outs, run core ts ops = Ok (sc, outs) /\ run full ts ops = Ok (sf, outs) /\
    abs (fst sf) = abs (fst sc) /\ abs (snd sf) = abs (snd sc) /\
    spec_state ts (fst sf) /\ spec_state ts (snd sf).
Proof. exact full_refines_core_proof. Qed.

(* (i) THE COUNTS ARE CANONICAL.  After any op list the tracked-sample counts of the machine
   [full] (ancestor walks of tsk_tree_insert_edge / tsk_tree_remove_edge, tsk_tree_clear with the
   repair fcbdf2e) satisfy the subtree-sum recurrence
        count[u] = own[u] + sum of count[v] over the children v of u     (0 <= u < N)
   over the canonical parent array (counts_rec; own = the tracked_samples option, virtual-root
   slot untouched), and — the recurrence having exactly one solution on an acyclic forest —
   they are EQUAL to the counts of a fresh Tree moved directly to the same index, together with
   everything in [abs].  The option array is arbitrary (any set of tracked samples); taking
   every sample as tracked makes this the statement for num_samples (same walk, same loop). *)
Theorem counts_canonical : forall ts ops, valid_tsb ts = true ->
  exists sf outs fr outs',
    run full ts ops = Ok (sf, outs) /\
    run full ts (fresh_ops (t_index (fst sf))) = Ok (fr, outs') /\
    abs (fst sf) = abs (fst fr) /\ t_tracked (fst sf) = t_tracked (fst fr) /\
    counts_rec ts (fst sf) /\ counts_rec ts (snd sf).
Proof. exact counts_canonical_proof. Qed.

(* (j) The views the quintuply linked arrays present — children sets, number of children, and the
   roots (children of the virtual root = parentless nodes whose count reaches root_threshold) —
   are functions of (parent array, count array) and therefore canonical too, up to the order of
   children.  (children_of / roots_of are the SPEC of these views; that the C linked lists
   represent exactly these sets is C01's representation invariant — here they are tied to the
   implementation by the correspondence, after every op, with every sample tracked.) *)
Theorem views_canonical : forall ts ops thr, valid_tsb ts = true ->
  exists sf outs fr outs',
    run full ts ops = Ok (sf, outs) /\
    run full ts (fresh_ops (t_index (fst sf))) = Ok (fr, outs') /\
    (forall u, children_of (t_parent (fst sf)) (ts_N ts) u = children_of (t_parent (fst fr)) (ts_N ts) u) /\
    roots_of (t_parent (fst sf)) (t_tracked (fst sf)) (ts_N ts) thr =
    roots_of (t_parent (fst fr)) (t_tracked (fst fr)) (ts_N ts) thr /\
    obs_views ts thr (fst sf) = obs_views ts thr (fst fr).
Proof. exact views_canonical_proof. Qed.

(* (k) NAV_CANONICAL — the property text except the sample lists: after any finite op list the
   state of the machine with counts equals that of a fresh Tree moved directly to the same
   index in index, interval, parent array, edge array, num_edges, site list, counts, and (up to
   the order of children) children sets and roots for any root_threshold.  nav_canonical_partial
   above is its [core] half.  Still differential only: the sample lists (sets), and that the C
   quintuply linked arrays represent children_of / roots_of (C01). *)
Theorem nav_canonical : forall ts ops thr, valid_tsb ts = true ->
  exists sf outs fr outs',
    run full ts ops = Ok (sf, outs) /\
    run full ts (fresh_ops (t_index (fst sf))) = Ok (fr, outs') /\
    abs (fst sf) = abs (fst fr) /\ t_tracked (fst sf) = t_tracked (fst fr) /\
    obs_views ts thr (fst sf) = obs_views ts thr (fst fr).
Proof. exact nav_canonical_full_proof. Qed.

(* (l) tsk_tree_copy / Tree.copy (TSK_NO_INIT path, all fields incl. the tree_pos cursor ranges
   are transferred — [tree_copy]): in any reachable state copy() returns None, the new current
   tree is EQUAL to the original (which is kept as the other tree), and after ANY further op
   sequence the copy is again the fresh tree of its index (abs, counts, children sets, roots).
   (The model has one option set per tree sequence description: Tree.copy always passes the
   source's options; the C-API-only case of differing options is not modelled.) *)
Theorem copy_canonical : forall ts ops1 ops2 thr, valid_tsb ts = true ->
  exists s1 o1 s2 o2 fr o3,
    run full ts ops1 = Ok (s1, o1) /\
    run full ts (ops1 ++ [OpCopy]) = Ok ((fst s1, fst s1), o1 ++ [RET_NONE]) /\
    run full ts (ops1 ++ OpCopy :: ops2) = Ok (s2, o2) /\
    run full ts (fresh_ops (t_index (fst s2))) = Ok (fr, o3) /\
    abs (fst s2) = abs (fst fr) /\ t_tracked (fst s2) = t_tracked (fst fr) /\
    obs_views ts thr (fst s2) = obs_views ts thr (fst fr).
Proof. exact copy_canonical_proof. Qed.

(* (m) SAMPLE LISTS (as sets) — PARTIAL.  tsk_tree_update_sample_lists is modelled at the level
   of sets (slist_walk: along the ancestor path, list[u] := own sample of u U the lists of u's
   children).  Proved: the recurrence  list[u] = own(u) U union over children  (srec) has exactly
   one solution on an acyclic edge-backed parent array, and one insert step (child parentless)
   or remove step (edge present) followed by the walk re-establishes it for the new parent
   array.  MISSING for the full statement "after any op list the sample lists equal those of a
   fresh Tree": the list array is not a field of the navigation state, so the step lemmas are
   not threaded through the loops of next / prev / seek (the plumbing CountProofs does for the
   counts; [transition_good] already establishes the two preconditions used here).  Tie to the
   implementation: check_slists evaluates, on every correspondence case with sample_lists=True
   and after every op, that the implementation's lists satisfy srec over the model's canonical
   parent array — which by the first conjunct determines them. *)
Theorem sample_lists_step_partial : forall ts, valid_tsb ts = true ->
  (forall P S1 S2, backed ts P -> srec ts P S1 -> srec ts P S2 ->
                   forall u, 0 <= u < ts_N ts -> gl S1 u = gl S2 u) /\
  (forall P S c p P' S' fuel, backed ts P -> zlen S = ts_N ts + 1 -> srec ts P S ->
     0 <= c < ts_N ts -> 0 <= p < ts_N ts -> tm ts c < tm ts p -> zn P c = -1 ->
     set P c p = Ok P' -> Z.of_nat fuel > ts_N ts + 1 -> slist_walk ts fuel P' S p = Ok S' ->
     backed ts P' /\ zlen S' = ts_N ts + 1 /\ srec ts P' S') /\
  (forall P S c p P' S' fuel, backed ts P -> zlen S = ts_N ts + 1 -> srec ts P S ->
     0 <= c < ts_N ts -> 0 <= p < ts_N ts -> zn P c = p ->
     set P c (-1) = Ok P' -> Z.of_nat fuel > ts_N ts + 1 -> slist_walk ts fuel P' S p = Ok S' ->
     backed ts P' /\ zlen S' = ts_N ts + 1 /\ srec ts P' S').
Proof. exact sample_lists_step_proof. Qed.

(* (n) RENUMBERING INVARIANCE.  If ts' is ts with its node ids renumbered by an injective map pi
   (same edge rows in the same order with parent / child mapped by [ren pi], same breakpoints),
   then for ANY two op lists the states reached on ts and on ts', whenever they stand on the
   same index, have the same interval and num_edges and corresponding arrays:
   parent'[pi c] = pi (parent[c]) (NULL stays NULL), edge'[pi c] = edge[c].
   Non-vacuity: ex_ts_rev (C06/Renumber.v) = ex_ts with pi c = 4 - c. *)
Theorem renumbering_invariance : forall ts ts' pi ops ops',
  valid_tsb ts = true -> valid_tsb ts' = true -> ts_N ts' = ts_N ts ->
  ts_edges ts' = map (ren pi) (ts_edges ts) -> ts_bps ts' = ts_bps ts ->
  (forall c, 0 <= c < ts_N ts -> 0 <= pi c < ts_N ts) ->
  (forall a b, 0 <= a < ts_N ts -> 0 <= b < ts_N ts -> pi a = pi b -> a = b) ->
  exists st outs st' outs',
    run core ts ops = Ok (st, outs) /\ run core ts' ops' = Ok (st', outs') /\
    (t_index (fst st') = t_index (fst st) ->
     t_left (fst st') = t_left (fst st) /\ t_right (fst st') = t_right (fst st) /\
     t_num_edges (fst st') = t_num_edges (fst st) /\
     forall c, 0 <= c < ts_N ts ->
       zn (t_parent (fst st')) (pi c) = pmap pi (zn (t_parent (fst st)) c) /\
       zn (t_edge (fst st')) (pi c) = zn (t_edge (fst st)) c).
Proof. exact renumbering_invariance_proof. Qed.

(* (g) seek is total on EVERY argument, NaN included (fix eee123e): Tree.seek(x) either lands
   on the tree containing x, or raises ValueError and leaves both trees untouched; the
   low-level call raises LibraryError instead. *)
Theorem seek_total : forall ts ops x, valid_tsb ts = true ->
  exists st outs st' r, run core ts ops = Ok (st, outs) /\
    py_step core ts st (OpSeek x) = Ok (st', r) /\
    ((in_range ts x /\ r = RET_NONE /\ in_interval (fst st') x = true /\ snd st' = snd st) \/
     (~ in_range ts x /\ r = RAISE_VALUE_ERROR /\ st' = st)).
Proof. exact seek_total_proof. Qed.

Theorem ll_seek_total : forall ts ops x, valid_tsb ts = true ->
  exists st outs st' r, run core ts ops = Ok (st, outs) /\
    py_step core ts st (OpLLSeek x) = Ok (st', r) /\
    ((in_range ts x /\ r = RET_NONE /\ in_interval (fst st') x = true /\ snd st' = snd st) \/
     (~ in_range ts x /\ r = RAISE_LIBRARY_ERROR /\ st' = st)).
Proof. exact ll_seek_total_proof. Qed.

(* (o) seek_index is total on EVERY integer: Tree.seek_index(i) (negative indexes wrap once:
   wrap_index) either lands on exactly that index and leaves the other tree alone, or raises
   IndexError and leaves both trees untouched; the low-level call (no wrap) raises
   LibraryError (TSK_ERR_SEEK_OUT_OF_BOUNDS) instead.  Non-vacuity: ex_seek_index_wrap. *)
Theorem seek_index_total : forall ts ops i, valid_tsb ts = true ->
  exists st outs st' r, run core ts ops = Ok (st, outs) /\
    py_step core ts st (OpSeekIndex i) = Ok (st', r) /\
    ((0 <= wrap_index ts i < num_trees ts /\ r = RET_NONE /\
      t_index (fst st') = wrap_index ts i /\ snd st' = snd st) \/
     (~ 0 <= wrap_index ts i < num_trees ts /\ r = RAISE_INDEX_ERROR /\ st' = st)).
Proof. exact seek_index_total_proof. Qed.

Theorem ll_seek_index_total : forall ts ops i, valid_tsb ts = true ->
  exists st outs st' r, run core ts ops = Ok (st, outs) /\
    py_step core ts st (OpLLSeekIndex i) = Ok (st', r) /\
    ((0 <= i < num_trees ts /\ r = RET_NONE /\ t_index (fst st') = i /\ snd st' = snd st) \/
     (~ 0 <= i < num_trees ts /\ r = RAISE_LIBRARY_ERROR /\ st' = st)).
Proof. exact ll_seek_index_total_proof. Qed.

(* (p) The property text literally, for the op seek_index: after ANY history, seek_index(k)
   leaves the tree in the same abstract state (index, interval, parent / edge arrays,
   num_edges, site list) as seek_index(k) on a brand-new Tree. *)
Theorem seek_index_is_fresh : forall ts ops k, valid_tsb ts = true -> 0 <= k < num_trees ts ->
  exists st outs fr outs',
    run core ts (ops ++ [OpSeekIndex k]) = Ok (st, outs) /\
    run core ts [OpSeekIndex k] = Ok (fr, outs') /\
    t_index (fst st) = k /\ abs (fst st) = abs (fst fr).
Proof. exact seek_index_is_fresh_proof. Qed.
