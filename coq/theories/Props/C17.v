(* Property C17 — text table dumps reload to the same tree sequence.
   Statements only: every theorem is closed by [exact] of a lemma proved in C17/*.v;
   ./check evaluates Print Assumptions for each on every run.

   Reading guide.  [bytes] = list Z (utf-8).  The model functions are in C17/Model.v
   (dump_X = text_formats.dump_text for table X with Base64 metadata; parse_X =
   tskit.parse_X in strict tab mode; b64encode/b64decode = CPython's binascii as
   called by them).  Numbers are opaque: F is the float type and print_int/parse_int/
   print_fix ("{:.{precision}f}")/print_repr ("{}")/parse_float are arbitrary
   functions constrained by [codecs_ok] (they invert each other and print no TAB, NL
   or ','), [fix_ok x] = "the precision is sufficient for coordinate x". *)
From Coq Require Import String Ascii.
From Coq Require Import List ZArith Bool.
From TskVerif Require Import Base.Common Gen.Generated C17.Model C17.B64Proofs C17.TsvProofs
  C17.OrderProofs C17.RoundtripProofs C17.DecProofs C17.ExtraProofs C17.WsProofs C17.LoadTextProofs C17.Injective.
From Coq Require Import Permutation Sorting.Sorted.
Import ListNotations.
Open Scope Z_scope.

(* Base64: decoding the encoding of ANY byte string gives it back. *)
Theorem b64_roundtrip : forall bs : bytes, Forall (fun b => 0 <= b < 256) bs ->
  b64decode (b64encode bs) = Ok bs.
Proof. exact b64_roundtrip_bytes. Qed.

(* An encoding contains no TAB, NL, CR, ',' or space: it is one clean field. *)
Theorem b64_no_tab_newline : forall bs : bytes, Forall (fun b => 0 <= b < 256) bs ->
  Forall (fun c => c <> TAB /\ c <> NL /\ c <> 13 /\ c <> COMMA /\ c <> 32) (b64encode bs).
Proof. exact b64_no_separator. Qed.

(* line.split("\t") undoes "\t".join(fields) when no field contains a TAB. *)
Theorem tsv_row_roundtrip : forall sep (fields : list bytes),
  fields <> [] -> Forall (fun f => ~ In sep f) fields ->
  split_on sep (join_with sep fields) = fields.
Proof. exact split_join. Qed.

(* Reading a printed file line by line gives the printed lines back. *)
Theorem file_lines_roundtrip : forall lines : list bytes,
  Forall (fun l => ~ In NL l) lines -> file_lines (unlines lines) = lines.
Proof. exact file_lines_unlines. Qed.

(* The shape all seven parsers share: on a table written with column list [cols] the
   result depends only on WHICH known columns are present — not on their order, not
   on unknown extra columns.  (Equal results includes equal errors.) *)
Theorem parse_column_order_invariant :
  forall (R : Type) (row : acc_t -> acc_t -> res (list R)) (known : list bytes),
  (forall a a' g g' : acc_t,
      (forall n, In n known -> a n = a' n) -> (forall n, In n known -> g n = g' n) ->
      row a g = row a' g') ->
  forall required min_tokens cols cols' (recs : list (bytes -> bytes)),
  incl required known ->
  wf_table min_tokens cols recs -> wf_table min_tokens cols' recs ->
  (forall n, In n known -> (In n cols <-> In n cols')) ->
  parse_generic required min_tokens row (render cols recs) =
  parse_generic required min_tokens row (render cols' recs).
Proof. intros R. exact (@column_order_invariant R). Qed.

(* ... instantiated for each table (known_X = the column names parse_X looks up,
   regenerated from /repo). *)
Theorem parse_nodes_order : forall F parse_int parse_float cols cols' recs,
  wf_table c17_parse_min_tokens_nodes cols recs -> wf_table c17_parse_min_tokens_nodes cols' recs ->
  same_known known_nodes cols cols' ->
  parse_nodes F parse_int parse_float (render cols recs) = parse_nodes F parse_int parse_float (render cols' recs).
Proof. exact nodes_order. Qed.

Theorem parse_edges_order : forall F parse_int parse_float cols cols' recs,
  wf_table c17_parse_min_tokens_edges cols recs -> wf_table c17_parse_min_tokens_edges cols' recs ->
  same_known known_edges cols cols' ->
  parse_edges F parse_int parse_float (render cols recs) = parse_edges F parse_int parse_float (render cols' recs).
Proof. exact edges_order. Qed.

Theorem parse_sites_order : forall F parse_float cols cols' recs,
  wf_table c17_parse_min_tokens_sites cols recs -> wf_table c17_parse_min_tokens_sites cols' recs ->
  same_known known_sites cols cols' ->
  parse_sites F parse_float (render cols recs) = parse_sites F parse_float (render cols' recs).
Proof. exact sites_order. Qed.

Theorem parse_mutations_order : forall F parse_int parse_float cols cols' recs,
  wf_table c17_parse_min_tokens_mutations cols recs -> wf_table c17_parse_min_tokens_mutations cols' recs ->
  same_known known_mutations cols cols' ->
  parse_mutations F parse_int parse_float (render cols recs) = parse_mutations F parse_int parse_float (render cols' recs).
Proof. exact mutations_order. Qed.

Theorem parse_individuals_order : forall F parse_int parse_float cols cols' recs,
  wf_table c17_parse_min_tokens_individuals cols recs -> wf_table c17_parse_min_tokens_individuals cols' recs ->
  same_known known_individuals cols cols' ->
  parse_individuals F parse_int parse_float (render cols recs) = parse_individuals F parse_int parse_float (render cols' recs).
Proof. exact individuals_order. Qed.

Theorem parse_populations_order : forall cols cols' recs,
  wf_table c17_parse_min_tokens_populations cols recs -> wf_table c17_parse_min_tokens_populations cols' recs ->
  same_known known_populations cols cols' ->
  parse_populations (render cols recs) = parse_populations (render cols' recs).
Proof. exact populations_order. Qed.

Theorem parse_migrations_order : forall F parse_int parse_float cols cols' recs,
  wf_table c17_parse_min_tokens_migrations cols recs -> wf_table c17_parse_min_tokens_migrations cols' recs ->
  same_known known_migrations cols cols' ->
  parse_migrations F parse_int parse_float (render cols recs) = parse_migrations F parse_int parse_float (render cols' recs).
Proof. exact migrations_order. Qed.

(* Omitted optional columns: the documented defaults (population = individual =
   parent = NULL, time = UNKNOWN_TIME (None), location = parents = (), metadata = b""). *)
Theorem parse_nodes_defaults : forall F parse_int parse_float ts tt s (t : F),
  parse_int ts = Some s -> parse_float tt = Some t ->
  let v := only [("is_sample", ts); ("time", tt)]%string in
  row_nodes F parse_int parse_float v v = Ok [(negb (s =? 0), t, -1, -1, [])].
Proof. exact nodes_defaults. Qed.

Theorem parse_sites_defaults : forall F parse_float tp a (p : F),
  parse_float tp = Some p ->
  let v := only [("position", tp); ("ancestral_state", a)]%string in
  row_sites F parse_float v v = Ok [(p, a, [])].
Proof. exact sites_defaults. Qed.

Theorem parse_mutations_defaults : forall F parse_int (parse_float : bytes -> option F) ts tn d s n,
  parse_int ts = Some s -> parse_int tn = Some n ->
  let v := only [("site", ts); ("node", tn); ("derived_state", d)]%string in
  row_mutations F parse_int parse_float v v = Ok [(s, n, None, d, -1, [])].
Proof. exact mutations_defaults. Qed.

Theorem parse_individuals_defaults : forall F parse_int (parse_float : bytes -> option F) tf f,
  parse_int tf = Some f ->
  let v := only [("flags", tf)]%string in
  row_individuals F parse_int parse_float v v = Ok [(f, [], [], [])].
Proof. exact individuals_defaults. Qed.

Theorem parse_migrations_defaults :
  forall F parse_int parse_float tl tr tn ts td tt (l r : F) n s d (t : F),
  parse_float tl = Some l -> parse_float tr = Some r -> parse_int tn = Some n ->
  parse_int ts = Some s -> parse_int td = Some d -> parse_float tt = Some t ->
  let v := only [("left", tl); ("right", tr); ("node", tn); ("source", ts); ("dest", td); ("time", tt)]%string in
  row_migrations F parse_int parse_float v v = Ok [(l, r, n, s, d, t, [])].
Proof. exact migrations_defaults. Qed.

(* load_text o dump_text, table by table (before load_text's final sort): every row
   comes back — sample flag, time, population, individual, metadata of nodes; edge
   coordinates and ends (the edge metadata column is written but has no reader);
   sites; mutations incl. unknown times (None), parents, empty / multi-character
   states (any state without TAB / NL); individuals with flags, ragged locations
   and parents; populations; migrations. *)
Theorem load_dump_text :
  forall F print_int parse_int print_fix print_repr parse_float,
  codecs_ok F print_int parse_int print_fix print_repr parse_float ->
    (forall rows, Forall (node_ok F print_fix parse_float) rows ->
       parse_nodes F parse_int parse_float (dump_nodes F print_int print_fix rows) = Ok rows)
    /\ (forall rows, Forall (edge_ok F print_fix parse_float) rows ->
       parse_edges F parse_int parse_float (dump_edges F print_int print_fix rows) = Ok (map fst rows))
    /\ (forall rows, Forall (site_ok F print_fix parse_float) rows ->
       parse_sites F parse_float (dump_sites F print_fix rows) = Ok rows)
    /\ (forall rows, Forall (mutation_ok F) rows ->
       parse_mutations F parse_int parse_float (dump_mutations F print_int print_repr rows) = Ok rows)
    /\ (forall rows, Forall (individual_ok F) rows ->
       parse_individuals F parse_int parse_float (dump_individuals F print_int print_repr rows) = Ok rows)
    /\ (forall rows, Forall (Forall is_byte) rows ->
       parse_populations (dump_populations print_int rows) = Ok rows)
    /\ (forall rows, Forall (migration_ok F) rows ->
       parse_migrations F parse_int parse_float (dump_migrations F print_int print_repr rows) = Ok rows).
Proof. exact load_dump_text_all. Qed.

(* The integer half of [codecs_ok] is not an assumption: the decimal codec used by
   the correspondence is proved to round-trip; and [codecs_ok] is satisfiable. *)
Theorem int_codec_roundtrip : forall z : Z, dec_parse (dec_print z) = Some z.
Proof. exact dec_roundtrip. Qed.

Theorem codecs_ok_inhabited : codecs_ok Z dec_print dec_parse dec_print dec_print dec_parse.
Proof. exact codecs_ok_decimal. Qed.

(* ---- extension round ---- *)

(* strict=False (str.split(None)): whatever whitespace surrounds and separates the words of a
   line — leading, trailing, runs of blanks, TABs, CR, VT, FF, 0x1c-0x1f — the tokens are
   exactly the words. *)
Theorem split_whitespace_layout : forall g0 f0 t trail,
  all_space g0 -> word f0 -> inner_gaps_ok t -> all_space trail ->
  split_ws (layout ((g0, f0) :: t) trail) = f0 :: map snd t.
Proof. exact split_ws_layout. Qed.

(* On tables whose header and cells are words the relaxed parsers compute what the strict
   ones compute, for every row function: the strict-mode theorems transfer. *)
Theorem relaxed_mode_agrees_with_strict :
  forall (R : Type) required min_tokens (row : acc_t -> acc_t -> res (list R)) hdr rows,
  word_row hdr -> Forall word_row rows ->
  parse_generic_with split_ws required min_tokens row (table_text hdr rows) =
  parse_generic required min_tokens row (table_text hdr rows).
Proof. intros R. exact (@ws_agrees_with_strict R). Qed.

Theorem parse_column_order_invariant_relaxed :
  forall (R : Type) (row : acc_t -> acc_t -> res (list R)) (known : list bytes),
  (forall a a' g g' : acc_t,
      (forall n, In n known -> a n = a' n) -> (forall n, In n known -> g n = g' n) ->
      row a g = row a' g') ->
  forall required min_tokens cols cols' (recs : list (bytes -> bytes)),
  incl required known ->
  word_row cols -> word_row cols' ->
  Nat.ltb (length cols) min_tokens = false -> Nat.ltb (length cols') min_tokens = false ->
  (forall rec c, In rec recs -> word (rec c)) ->
  (forall n, In n known -> (In n cols <-> In n cols')) ->
  parse_generic_with split_ws required min_tokens row (render cols recs) =
  parse_generic_with split_ws required min_tokens row (render cols' recs).
Proof. intros R. exact (@column_order_invariant_ws R). Qed.

(* Written but never read (regenerated from /repo): the edge metadata column, and the
   whole provenance table (no parse_provenances, no load_text parameter). *)
Theorem edge_metadata_has_no_reader :
  In "metadata"%string c17_dump_header_edges
  /\ ~ In "metadata"%string (c17_parse_required_edges ++ c17_parse_optional_edges).
Proof. exact edge_metadata_no_reader. Qed.

Theorem provenances_have_no_reader :
  c17_provenances_have_reader = false
  /\ ~ In "provenances"%string c17_load_text_params
  /\ c17_dump_header_provenances = ["id"; "timestamp"; "record"]%string
  /\ c17_dump_rowfmt_provenances = ["id|"; "timestamp|"; "record|"; ""]%string.
Proof. exact provenances_no_reader. Qed.

(* load_text without a population file: every population a node refers to exists
   afterwards, the added rows are empty, none is added if no node refers to one. *)
Theorem load_text_population_backfill : forall pops,
  (forall p, In p pops -> 0 <= p -> p < zlen (backfill_populations pops))
  /\ Forall (fun m => m = []) (backfill_populations pops)
  /\ (Forall (fun p => p = -1) pops -> backfill_populations pops = []).
Proof. exact backfill_spec. Qed.

(* base64_metadata=False: repr(bytes) is printable ASCII — the rows of such a dump keep
   their TABs and newline (the metadata read back is the repr itself: pinned, not a round trip). *)
Theorem repr_metadata_printable : forall l, Forall is_byte l -> Forall printable (bytes_repr l).
Proof. exact bytes_repr_printable. Qed.

(* ---- final extension round ---- *)

(* load_text o dump_text END TO END (C17/Model.v load_text_model: the seven parsers in the
   order of the code, the population file, the final tc.sort()).  The sorter is a parameter
   constrained by what tsk_table_sorter_run guarantees (property C07): nodes / individuals /
   populations untouched, edges and migrations permuted, sites permuted without inversion of
   the site key, an ordered mutation table a fixed point once the sites stay in place.  For
   tables whose sites and mutations satisfy the ordering requirements (every valid tree
   sequence): every table comes back, edges and migrations as the same multiset. *)
Theorem load_dump_text_end_to_end :
  forall F print_int parse_int print_fix print_repr parse_float,
  codecs_ok F print_int parse_int print_fix print_repr parse_float ->
  forall (sort : tables F -> tables F)
         (site_lt : site_row F -> site_row F -> Prop) (mutation_lt : mutation_row F -> mutation_row F -> Prop),
  (forall t, t_nodes (sort t) = t_nodes t /\ t_individuals (sort t) = t_individuals t
             /\ t_populations (sort t) = t_populations t) ->
  (forall t, Permutation (t_edges t) (t_edges (sort t))) ->
  (forall t, Permutation (t_migrations t) (t_migrations (sort t))) ->
  (forall t, Permutation (t_sites t) (t_sites (sort t)) /\ no_inversion site_lt (t_sites (sort t))) ->
  (forall t, t_sites (sort t) = t_sites t -> StronglySorted mutation_lt (t_mutations t) ->
             t_mutations (sort t) = t_mutations t) ->
  forall t edge_md,
  tables_ok F print_fix parse_float t edge_md ->
  StronglySorted site_lt (t_sites t) -> StronglySorted mutation_lt (t_mutations t) ->
  exists t',
    load_text_model F parse_int parse_float sort (dump_all F print_int print_fix print_repr t edge_md) = Ok t'
    /\ t_nodes t' = t_nodes t /\ t_sites t' = t_sites t /\ t_mutations t' = t_mutations t
    /\ t_individuals t' = t_individuals t /\ t_populations t' = t_populations t
    /\ Permutation (t_edges t) (t_edges t') /\ Permutation (t_migrations t) (t_migrations t').
Proof. exact LoadTextProofs.load_dump_text_end_to_end. Qed.

(* why "permuted without inversion" is enough: a comparison sort returns its input when that is
   already strictly ordered, whatever it does with ties elsewhere *)
Theorem sort_identity_on_strictly_sorted : forall (A : Type) (lt : A -> A -> Prop) (l s : list A),
  StronglySorted lt l -> no_inversion lt s -> Permutation l s -> s = l.
Proof. intros A. exact (@sorted_permutation_unique A). Qed.

(* wrapper level (regenerated from the signatures and call sites): TreeSequence.dump_text
   forwards every parameter to text_formats.dump_text under its own name; load_text hands
   strict / encoding / base64_metadata to every parser and lets each fill its own table *)
Theorem dump_text_forwards_every_keyword :
  c17_dump_text_keywords = map (fun p => (p ++ "=" ++ p)%string) c17_dump_text_params
  /\ c17_dump_text_params = c17_text_formats_dump_text_params.
Proof. exact ExtraProofs.dump_text_forwards_every_keyword. Qed.

Theorem load_text_forwards_to_every_parser :
  c17_load_text_parse_calls =
    ["edges:strict=strict";
     "individuals:strict=strict,encoding=encoding,base64_metadata=base64_metadata,table=tc.individuals";
     "migrations:strict=strict,encoding=encoding,base64_metadata=base64_metadata,table=tc.migrations";
     "mutations:strict=strict,encoding=encoding,base64_metadata=base64_metadata,table=tc.mutations";
     "nodes:strict=strict,encoding=encoding,base64_metadata=base64_metadata,table=tc.nodes";
     "populations:strict=strict,encoding=encoding,base64_metadata=base64_metadata,table=tc.populations";
     "sites:strict=strict,encoding=encoding,base64_metadata=base64_metadata,table=tc.sites"]%string.
Proof. exact load_text_forwards. Qed.

(* ---- injectivity: no two different contents share one text dump (corollaries of the
   round trips above) ---- *)
Theorem b64_injective : forall a b : bytes,
  Forall (fun x => 0 <= x < 256) a -> Forall (fun x => 0 <= x < 256) b ->
  b64encode a = b64encode b -> a = b.
Proof. exact b64_injective_proof. Qed.

Theorem tsv_row_injective : forall sep (f1 f2 : list bytes),
  f1 <> [] -> f2 <> [] -> Forall (fun f => ~ In sep f) f1 -> Forall (fun f => ~ In sep f) f2 ->
  join_with sep f1 = join_with sep f2 -> f1 = f2.
Proof. exact tsv_row_injective_proof. Qed.

Theorem file_lines_injective : forall l1 l2 : list bytes,
  Forall (fun l => ~ In NL l) l1 -> Forall (fun l => ~ In NL l) l2 ->
  unlines l1 = unlines l2 -> l1 = l2.
Proof. exact file_lines_injective_proof. Qed.
