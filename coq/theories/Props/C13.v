(* Property C13 — statements only.  Each theorem is closed by [exact] of a lemma proved in
   the C13/ files; Print Assumptions is evaluated by ./check on every run.
   [abs : tbl -> list row] is the list of rows a columnar table stands for, [WF d t] the
   executable invariant (equal column lengths; offsets start at 0, are monotone and end at
   the data length; everything inside its allocation) — both defined in C13/Model.v. *)
From Coq Require Import List ZArith Bool.
From TskVerif Require Import Base.Common C13.Model C13.Rep C13.RefineProofs.
Import ListNotations.
Open Scope Z_scope.

(* the invariant is exactly "the columns encode abs t" *)
Theorem c13_wf_iff_represents : forall d t, WF d t <-> TRep d t (abs t).
Proof. exact Bridge.WF_iff_rep. Qed.

Theorem c13_add_row : forall d t r t',
  WF d t -> row_ok d r = true -> add_row d t r = Ok t' ->
  WF d t' /\ abs t' = abs t ++ [r].
Proof. exact add_row_refines. Qed.

Theorem c13_truncate : forall d t m t',
  WF d t -> truncate t m = Ok t' -> WF d t' /\ abs t' = firstn (Z.to_nat m) (abs t).
Proof. exact truncate_refines. Qed.

Theorem c13_truncate_out_of_range : forall t m,
  m < 0 \/ nrows t < m -> truncate t m = Err TSK_ERR_BAD_TABLE_POSITION.
Proof. exact truncate_out_of_range. Qed.

Theorem c13_clear : forall d t t', WF d t -> clear t = Ok t' -> WF d t' /\ abs t' = [].
Proof. exact clear_refines. Qed.

Theorem c13_get_row : forall d t i,
  WF d t -> 0 <= i < nrows t -> get_row d t i = Ok (nth (Z.to_nat i) (abs t) row0).
Proof. exact get_row_refines. Qed.

Theorem c13_get_row_out_of_range : forall d t i,
  i < 0 \/ nrows t <= i -> get_row d t i = Err (td_oob d).
Proof. exact get_row_out_of_range. Qed.

Theorem c13_extend : forall d t u idx t' st,
  WF d t -> WF d u -> extend d t u idx = (t', st) ->
  WF d t' /\
  exists k, (k <= length idx)%nat /\
    abs t' = abs t ++ rows_at (abs u) (firstn k idx) /\
    Forall (fun i => 0 <= i < nrows u) (firstn k idx) /\
    (st = Ok tt -> k = length idx).
Proof. exact extend_refines. Qed.

Theorem c13_extend_bad_index : forall d t u idx t' st,
  WF d t -> WF d u -> extend d t u idx = (t', st) ->
  Exists (fun i => i < 0 \/ nrows u <= i) idx -> st <> Ok tt.
Proof. exact extend_bad_index. Qed.
