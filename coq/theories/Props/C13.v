From Coq Require Import List ZArith.
From TskVerif Require Import C13.Model.
Theorem c13_placeholder_thm : c13_placeholder = 0%Z.
Proof. reflexivity. Qed.
