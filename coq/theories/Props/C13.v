(* Property C13 — statements only.  Each theorem is closed by [exact] of a lemma proved in
   the C13/ files; Print Assumptions is evaluated by ./check on every run.
   [abs : tbl -> list row] is the list of rows a columnar table stands for, [WF d t] the
   executable invariant (equal column lengths; offsets start at 0, are monotone and end at
   the data length; everything inside its allocation) — both defined in C13/Model.v. *)
From Coq Require Import List ZArith Bool.
From TskVerif Require Import Base.Common C13.Model C13.Rep C13.ColsProofs C13.UpdateProofs
  C13.KeepProofs C13.RefineProofs C13.PackProofs C13.TotalProofs C13.SafeProofs C13.KeepSafeProofs C13.HistoryProofs C13.FacadeProofs
  C13.Accessors C13.Findings.
From TskVerif Require Import Gen.Generated.
Import ListNotations.
Open Scope Z_scope.

(* the invariant is exactly "the columns encode abs t" *)
Theorem c13_wf_iff_represents : forall d t, WF d t <-> TRep d t (abs t).
Proof. exact Bridge.WF_iff_rep. Qed.

Theorem c13_add_row : forall d t r t',
  WF d t -> row_ok d r = true -> add_row d t r = Ok t' ->
  WF d t' /\ abs t' = abs t ++ [r].
Proof. exact add_row_refines. Qed.

(* add_row is total and memory-safe in the model: under the invariant, and below the
   2^31-row / 2^64-cell limits of the C code ([fits]), it returns Ok — never an out-of-bounds
   store (OOB), never a failed tsk_bug_assert *)
Theorem c13_add_row_total : forall d t r,
  WF d t -> row_ok d r = true -> fits t r ->
  exists t', add_row d t r = Ok t' /\ WF d t' /\ abs t' = abs t ++ [r].
Proof. exact add_row_complete. Qed.

Theorem c13_truncate : forall d t m t',
  WF d t -> truncate t m = Ok t' -> WF d t' /\ abs t' = firstn (Z.to_nat m) (abs t).
Proof. exact truncate_refines. Qed.

Theorem c13_truncate_out_of_range : forall t m,
  m < 0 \/ nrows t < m -> truncate t m = Err TSK_ERR_BAD_TABLE_POSITION.
Proof. exact truncate_out_of_range. Qed.

Theorem c13_clear : forall d t t', WF d t -> clear t = Ok t' -> WF d t' /\ abs t' = [].
Proof. exact clear_refines. Qed.

Theorem c13_get_row : forall d t i,
  WF d t -> 0 <= i < nrows t -> get_row d t i = Ok (nth (Z.to_nat i) (abs t) row0).
Proof. exact get_row_refines. Qed.

Theorem c13_get_row_out_of_range : forall d t i,
  i < 0 \/ nrows t <= i -> get_row d t i = Err (td_oob d).
Proof. exact get_row_out_of_range. Qed.

Theorem c13_extend : forall d t u idx t' st,
  WF d t -> WF d u -> extend d t u idx = (t', st) ->
  WF d t' /\
  exists k, (k <= length idx)%nat /\
    abs t' = abs t ++ rows_at (abs u) (firstn k idx) /\
    Forall (fun i => 0 <= i < nrows u) (firstn k idx) /\
    (st = Ok tt -> k = length idx).
Proof. exact extend_refines. Qed.

Theorem c13_extend_bad_index : forall d t u idx t' st,
  WF d t -> WF d u -> extend d t u idx = (t', st) ->
  Exists (fun i => i < 0 \/ nrows u <= i) idx -> st <> Ok tt.
Proof. exact extend_bad_index. Qed.

(* every concrete table descriptor treats each of its ragged columns exactly once *)
Theorem c13_orders_ok : order_ok d_individuals /\ order_ok d_nodes /\ order_ok d_edges /\
  order_ok d_migrations /\ order_ok d_sites /\ order_ok d_mutations /\ order_ok d_populations /\
  order_ok d_provenances.
Proof. exact order_ok_all. Qed.

(* (d) update_row, both code paths (in place / copy-truncate-add-extend) *)
Theorem c13_update_row : forall d t i r t',
  WF d t -> order_ok d -> row_ok d r = true -> update_row d t i r = (t', Ok tt) ->
  0 <= i < nrows t /\ WF d t' /\ abs t' = replace_nth (Z.to_nat i) r (abs t).
Proof. exact update_row_refines. Qed.

Theorem c13_update_row_out_of_range : forall d t i r,
  i < 0 \/ nrows t <= i -> update_row d t i r = (t, Err (td_oob d)).
Proof. exact update_row_out_of_range. Qed.

(* (g) a successful append_columns / set_columns passed the dimension checks and
   check_offsets, and the table stands for old rows ++ rows_of columns / rows_of columns *)
Theorem c13_append_columns : forall d t cs t',
  WF d t -> order_ok d -> append_columns d t cs = (t', Ok tt) ->
  exists m, parse_cols d cs = Ok m /\ WF d t' /\ abs t' = abs t ++ rows_of_cols (Z.to_nat m) cs.
Proof. exact append_columns_refines. Qed.

Theorem c13_set_columns : forall d t cs t',
  WF d t -> order_ok d -> set_columns d t cs = (t', Ok tt) ->
  exists m, parse_cols d cs = Ok m /\ WF d t' /\ abs t' = rows_of_cols (Z.to_nat m) cs.
Proof. exact set_columns_refines. Qed.

Theorem c13_table_copy : forall d t cp,
  WF d t -> order_ok d -> table_copy d t = (cp, Ok tt) -> WF d cp /\ abs cp = abs t.
Proof. exact table_copy_refines. Qed.

(* (h) util.pack_* / unpack_* *)
Theorem c13_pack_unpack : forall data, zlen (concat data) < U32_MOD ->
  pack data = Ok (concat data, psums 0 data) /\ unpack (concat data) (psums 0 data) = data.
Proof. exact pack_unpack. Qed.

Theorem c13_unpack_pack : forall packed offs rest,
  offs = 0 :: rest -> monotoneb offs = true -> last offs 0 = zlen packed -> zlen packed < U32_MOD ->
  pack (unpack packed offs) = Ok (packed, offs).
Proof. exact unpack_pack. Qed.

(* (e) keep_rows: the rows whose mask bit is set, self-references renumbered by the
   returned id map; it succeeds only if no kept row references a dropped / missing row,
   and such a reference always makes it fail (with no change: the model has no new state) *)
Theorem c13_keep_rows : forall d t keep t' idm,
  WF d t -> zlen keep = nrows t -> keep_rows d t keep = Ok (t', idm) ->
  idm = keep_mask_to_id_map keep /\ WF d t' /\
  abs t' = map (remap_row d idm) (filter_mask keep (abs t)) /\
  kept_refs_ok d (nrows t) idm keep (abs t).
Proof. exact keep_rows_refines. Qed.

Theorem c13_keep_rows_dangling_rejected : forall d t keep,
  WF d t -> zlen keep = nrows t ->
  ~ kept_refs_ok d (nrows t) (keep_mask_to_id_map keep) keep (abs t) ->
  exists c, keep_rows d t keep = Err c.
Proof. exact keep_rows_dangling. Qed.

(* in-place compaction is correct although source and destination alias: the loops of
   subset_*_column (fixed) and subset_ragged_*_column / subset_remap_ragged_id_column *)
Theorem c13_subset_loop_in_place : forall (f : Z -> res Z) (g : Z -> Z) n maxr buf cells keep buf' k',
  (forall v v', f v = Ok v' -> v' = g v) ->
  FRep n maxr buf cells -> zlen keep = n ->
  subset_loop f maxr keep 0 0 buf = Ok (buf', k') ->
  FRep (count_true keep) maxr buf' (map g (filter_mask keep cells)).
Proof. exact FRep_subset. Qed.

Theorem c13_subset_ragged_loop_in_place : forall (f : Z -> res Z) (g : Z -> Z) n maxr c cells keep dt off k len,
  (forall v v', f v = Ok v' -> v' = g v) ->
  RRep n maxr c cells -> zlen keep = n ->
  subset_rag_loop f (rmax c) (maxr + 1) keep 0 0 0 (rdata c) (roff c) = Ok (dt, off, k, len) ->
  RRep (count_true keep) maxr (mkRag dt len (rmax c) (rincr c) off) (map (map g) (filter_mask keep cells)).
Proof. exact RRep_subset. Qed.

(* the corollary over histories: any sequence of successful operations *)
Theorem c13_op_sequence : forall d, order_ok d -> forall ops t t',
  WF d t -> crun d t ops = Some t' ->
  WF d t' /\ abs t' = fold_left (lstep d) ops (abs t).
Proof. exact op_sequence_refines. Qed.

Theorem c13_op_sequence_from_empty : forall d incr ops t',
  order_ok d -> 0 <= incr -> crun d (init d incr) ops = Some t' ->
  WF d t' /\ abs t' = fold_left (lstep d) ops [].
Proof. exact op_sequence_from_empty. Qed.

(* table[slice | mask | id array] for every table class (F8 repaired by dd5e92d): a
   successful call returns exactly the named rows, and names only rows that exist.  The
   model used by the correspondence is this function with the regenerated flag
   c13_getitem_schema_guarded (= true on the repaired code). *)
Theorem c13_getitem_indexes : forall d t idx rows,
  WF d t -> py_getitem_idx_gen true d t idx = Ok rows ->
  rows = rows_at (abs t) idx /\ Forall (fun i => 0 <= i < nrows t) idx.
Proof. exact py_getitem_idx_refines. Qed.

Theorem c13_getitem_model_is_repaired_variant : py_getitem_idx = py_getitem_idx_gen true.
Proof. reflexivity. Qed.

(* the binding's dimension checks (F15 repaired by b50fe2e): no descriptor lets
   metadata_offset set num_rows any more, and an accepted column set has num_rows cells in
   every fixed column and num_rows + 1 offsets ending at the data length in every ragged one *)
Theorem c13_no_descriptor_has_mdlen_bug :
  Forall (fun d => td_mdlen_bug d = false)
    [d_individuals; d_nodes; d_edges; d_migrations; d_sites; d_mutations; d_populations; d_provenances].
Proof. repeat constructor. Qed.

Theorem c13_parse_cols_lengths : forall d cs n,
  td_mdlen_bug d = false -> parse_cols d cs = Ok n ->
  Forall (fun c => zlen c = n) (fst cs) /\
  forall data offs, In (Some (data, offs)) (snd cs) -> zlen offs = n + 1 /\ get offs n = Ok (zlen data).
Proof. exact parse_cols_lengths. Qed.

(* ---- totality / memory safety of the logic: Ok or a documented error code, never an
   out-of-bounds access (OOB) and never a failed tsk_bug_assert ---- *)
Theorem c13_add_row_safe : forall d t r,
  WF d t -> row_ok d r = true -> ok_or overflow_codes (add_row d t r).
Proof. exact add_row_safe. Qed.

Theorem c13_truncate_total : forall d t m,
  WF d t -> 0 <= m <= nrows t -> exists t', truncate t m = Ok t'.
Proof. exact truncate_total. Qed.

Theorem c13_extend_safe : forall d t u idx,
  WF d t -> WF d u -> ok_or (extend_codes d) (snd (extend d t u idx)).
Proof. exact extend_safe. Qed.

Theorem c13_table_copy_safe : forall d t,
  WF d t -> order_ok d -> ok_or overflow_codes (snd (table_copy d t)).
Proof. exact table_copy_safe. Qed.

(* update_row, both paths (in place / copy + truncate + add_row + extend) *)
Theorem c13_update_row_safe : forall d t i r,
  WF d t -> order_ok d -> row_ok d r = true -> ok_or (extend_codes d) (snd (update_row d t i r)).
Proof. exact update_row_safe. Qed.

(* keep_rows: the reference check and the in-place compaction loops *)
Theorem c13_keep_rows_safe : forall d t keep,
  WF d t -> zlen keep = nrows t -> ok_or (keep_codes d) (keep_rows d t keep).
Proof. exact keep_rows_safe. Qed.

(* every operation of every history: run any list of operations from any table satisfying
   the invariant (e.g. the empty one), continuing after the operations that are refused, and
   stopping only at a 2^31-row / 2^64-cell overflow: every status is Ok or a documented error
   code — never OOB, never a failed tsk_bug_assert — and the invariant holds at the end *)
Theorem c13_history_safe : forall d, order_ok d -> td_mdlen_bug d = false -> forall ops t,
  WF d t ->
  Forall (ok_or (all_codes d)) (fst (crun_all d t ops)) /\
  (Forall (fun st => is_overflow st = false) (fst (crun_all d t ops)) -> WF d (snd (crun_all d t ops))).
Proof. exact history_safe. Qed.

Theorem c13_step_safe_wf_refines : forall d t o,
  WF d t -> order_ok d -> td_mdlen_bug d = false ->
  ok_or (all_codes d) (snd (cstep d t o)) /\
  (is_overflow (snd (cstep d t o)) = false -> WF d (fst (cstep d t o))) /\
  (forall t', cstep d t o = (t', Ok tt) -> abs t' = lstep d (abs t) o).
Proof.
  intros d t o W O Hb. split; [apply cstep_status; assumption|]. split; [apply cstep_wf; assumption|].
  intros t' S. apply (proj2 (cstep_refines _ _ _ _ W O S)).
Qed.

(* ---- the Python facade: index normalisation = Python list indexing on abs ---- *)
Theorem c13_getitem_int : forall d t i,
  WF d t ->
  (- nrows t <= i < nrows t -> py_getitem d t i = Ok (nth (Z.to_nat (i mod nrows t)) (abs t) row0)) /\
  (i < - nrows t \/ nrows t <= i -> py_getitem d t i = Err PY_INDEX_ERROR).
Proof. exact py_getitem_int. Qed.

Theorem c13_setitem_int : forall d t i r t',
  WF d t -> order_ok d -> py_setitem d t i r = (t', Ok tt) ->
  - nrows t <= i < nrows t /\ WF d t' /\ abs t' = replace_nth (Z.to_nat (i mod nrows t)) r (abs t).
Proof. exact py_setitem_int. Qed.

Theorem c13_getitem_mask : forall d t m rows,
  WF d t -> zlen m = nrows t ->
  py_getitem_idx_gen true d t (flatnonzero 0 m) = Ok rows -> rows = filter_mask m (abs t).
Proof. exact py_getitem_mask. Qed.

Theorem c13_slice_step1 : forall (rows : list row) a b,
  0 <= a <= b -> b <= zlen rows ->
  rows_at rows (slice_indices (zlen rows) (Some a) (Some b) 1)
  = firstn (Z.to_nat (b - a)) (skipn (Z.to_nat a) rows).
Proof. exact slice_step1. Qed.

Theorem c13_slice_whole : forall rows : list row,
  rows_at rows (slice_indices (zlen rows) None None 1) = rows.
Proof. exact slice_whole. Qed.

(* Table.keep_rows as reached from Python, complete outcome: success = one mask entry per row,
   no kept row refers to a dropped / missing row (references in any direction: unsorted tables,
   the ragged parents column of individuals as well as the parent column of mutations), result =
   the list model's rows and the old->new id map; anything else raises and leaves the table as
   it was; a dangling reference is always refused *)
Theorem c13_py_keep_rows_spec : forall d t keep,
  WF d t ->
  match py_keep_rows d t keep with
  | (t', Ok m) =>
      zlen keep = nrows t /\ m = keep_mask_to_id_map keep /\ WF d t' /\
      abs t' = map (remap_row d m) (filter_mask keep (abs t)) /\
      kept_refs_ok d (nrows t) m keep (abs t)
  | (t', _) => t' = t
  end.
Proof. exact py_keep_rows_spec. Qed.

Theorem c13_py_keep_rows_wrong_length : forall d t keep,
  zlen keep <> nrows t -> py_keep_rows d t keep = (t, Err PY_VALUE_ERROR).
Proof. exact py_keep_rows_wrong_length. Qed.

Theorem c13_py_keep_rows_dangling : forall d t keep,
  WF d t -> zlen keep = nrows t ->
  ~ kept_refs_ok d (nrows t) (keep_mask_to_id_map keep) keep (abs t) ->
  exists c, py_keep_rows d t keep = (t, Err c).
Proof. exact py_keep_rows_dangling. Qed.

Theorem c13_py_truncate_spec : forall d t n,
  WF d t ->
  (0 <= n <= nrows t ->
     exists t', py_truncate t n = (t', Ok tt) /\ WF d t' /\ abs t' = firstn (Z.to_nat n) (abs t)) /\
  (n < 0 \/ nrows t < n -> py_truncate t n = (t, Err PY_VALUE_ERROR)).
Proof. exact py_truncate_spec. Qed.

(* bridge to C02: the arrays Python sees have the shape C02/Spec.v's WF assumes *)
Theorem c13_asdict_has_C02_shape : forall d t,
  WF d t ->
  Forall (fun c => zlen c = nrows t) (fst (asdict t)) /\
  Forall (fun x => match x with
                   | Some (data, offs) =>
                       zlen offs = nrows t + 1 /\
                       forall j, 0 <= j < nrows t ->
                         0 <= nth (Z.to_nat j) offs 0 <= nth (Z.to_nat (j + 1)) offs 0 /\
                         nth (Z.to_nat (j + 1)) offs 0 <= zlen data
                   | None => False
                   end) (snd (asdict t)).
Proof. exact asdict_has_C02_shape. Qed.

(* (g) completed: for either variant of the code (pinned / F14-repaired), when the binding's
   dimension checks pass (parse_cols) the call succeeds IFF check_offsets passes for every
   supplied column — up to the two size-limit errors *)
Theorem c13_set_columns_succeeds : forall bchk atomic d t cs n,
  WF d t -> order_ok d -> td_mdlen_bug d = false ->
  parse_cols d cs = Ok n -> precheck_offsets n (snd cs) = Ok tt ->
  ok_or overflow_codes (snd (set_columns_gen bchk atomic d t cs)).
Proof. exact set_columns_gen_safe. Qed.

Theorem c13_append_columns_succeeds : forall bchk atomic d t cs n,
  WF d t -> order_ok d -> td_mdlen_bug d = false ->
  parse_cols d cs = Ok n -> precheck_offsets n (snd cs) = Ok tt ->
  ok_or overflow_codes (snd (append_columns_gen bchk atomic d t cs)).
Proof. exact append_columns_gen_safe. Qed.

Theorem c13_columns_success_implies_check_offsets : forall bchk atomic d t cs t' n,
  order_ok d -> parse_cols d cs = Ok n ->
  (append_columns_gen bchk atomic d t cs = (t', Ok tt) \/ set_columns_gen bchk atomic d t cs = (t', Ok tt)) ->
  precheck_offsets n (snd cs) = Ok tt.
Proof. exact columns_success_checks. Qed.

(* the F14 repair (fixes/C13-F14-atomic-column-setters.diff; variants [_gen true _]): a call
   whose offsets do not pass check_offsets leaves the table exactly as it was *)
Theorem c13_repaired_refusal_unchanged : forall atomic d t cs n e,
  parse_cols d cs = Ok n -> precheck_offsets n (snd cs) = Err e ->
  set_columns_gen true atomic d t cs = (t, Err e) /\ append_columns_gen true atomic d t cs = (t, Err e).
Proof. exact repaired_binding_refusal_unchanged. Qed.

(* second half (immutability; runtime monitor, PARTIAL): the aliasing logic of the accessor
   layer as a checked table regenerated from python/_tskitmodule.c and python/tskit/trees.py
   (finite: the bound is the table): no array-valued getter of TreeSequence / Tree and no cached
   array is a writeable view of the object's memory, so a write through any of them leaves
   the object as it was.  The table is compared with the live objects by family `accessors`. *)
Theorem c13_no_accessor_is_a_writeable_view : forall name h, In (name, h) all_handouts ->
  forall (A : Type) (object written : A), object_after_write h object written = object.
Proof. exact no_accessor_is_a_writeable_view. Qed.

(* ---- historical records about the PINNED (pre-fix) variants of the model ---- *)
Theorem c13_provenance_getitem_slice_pinned_refuted :
  exists t idx, WF d_provenances t /\ Forall (fun i => 0 <= i < nrows t) idx /\
    py_getitem_idx_gen false d_provenances t idx = Err PY_ATTRIBUTE_ERROR.
Proof. exact provenance_getitem_slice_pinned_refuted. Qed.

Theorem c13_site_metadata_offset_length_pinned_refuted :
  snd (set_columns d_sites_pinned site_tbl ([[0; 1; 2]], [Some ([65; 67; 71], [0; 1; 2; 3]); Some ([], [0; 0])])) = Ok tt /\
  nrows (fst (set_columns d_sites_pinned site_tbl ([[0; 1; 2]], [Some ([65; 67; 71], [0; 1; 2; 3]); Some ([], [0; 0])]))) = 1 /\
  snd (set_columns d_sites_pinned site_tbl ([[0]], [Some ([65], [0; 1]); Some ([], [0; 0; 0])])) = OOB.
Proof. exact site_metadata_offset_length_pinned_refuted. Qed.

(* ---- F14 (repaired in /repo by 86175ae): historical records about the PINNED variant
   [append_columns_gen false false] / [set_columns_gen false false]; the current model is the
   variant selected by the regenerated flags (both true) and c13_repaired_refusal_unchanged is
   the positive statement ---- *)
Theorem c13_model_is_f14_repaired_variant :
  append_columns = append_columns_gen true true /\ set_columns = set_columns_gen true true.
Proof. split; reflexivity. Qed.


Theorem c13_append_columns_not_atomic_pinned_refuted :
  exists t cs t', WF d_individuals t /\
    append_columns_gen false false d_individuals t cs = (t', Err TSK_ERR_BAD_OFFSET) /\
    WFb d_individuals t' = false.
Proof. exact append_columns_not_atomic_pinned_refuted. Qed.

Theorem c13_set_columns_failure_clears_pinned_refuted :
  exists t cs t', WF d_nodes t /\ abs t <> [] /\
    set_columns_gen false false d_nodes t cs = (t', Err TSK_ERR_BAD_OFFSET) /\ abs t' = [].
Proof. exact set_columns_failure_clears_pinned_refuted. Qed.

Theorem c13_site_add_row_after_refused_append_aborts_pinned_refuted :
  WF d_sites site_tbl /\
  snd (append_columns_gen false false d_sites site_tbl f14_site_cols) = Err TSK_ERR_BAD_OFFSET /\
  add_row d_sites (fst (append_columns_gen false false d_sites site_tbl f14_site_cols)) ([3], [[84]; []]) = Err BUG_ASSERT.
Proof. exact site_add_row_after_refused_append_aborts_pinned_refuted. Qed.
