(* Property C07 — statements only.  Each theorem is closed by [exact] of a lemma proved in
   the C07/ files; Print Assumptions is evaluated by ./check on every run.

   Vocabulary (C07/Model.v, CmpLemmas.v, SortProofs.v, RaggedProofs.v, TopProofs.v, IdemProofs.v):
   [qsorts_ok Q]    the only assumption on libc qsort: for each comparator of tables.c the
                    function returns a permutation of its input whose adjacent elements
                    satisfy cmp <= 0 (stability is NOT assumed); [Qmerge] is the stdlib merge
                    sort instance used for execution, [Qmerge_rev] a second admissible one.
   [table_sort Q None t]   tsk_table_collection_sort(tables, NULL, 0), i.e. tc.sort().
   [check_refs t]   the reference part of tsk_table_collection_check_integrity(self, 0).
   [edges_wf t mds] the edge metadata / metadata_offset columns are the C layout of the byte
                    rows [mds]; [combine (t_edges t) mds] are the full edge rows
                    ([migs_wf] likewise).
   [sp], [mp]       for every output site / mutation row, the id of the input row it came from.
   [mut_image sp mp m m']  m' is m with site and parent replaced by the new ids of the
                    original site / parent rows.
   [site_le] [mut_le] [edge_le] [mig_le]  the documented key orders (original row id last). *)
From Coq Require Import List ZArith Permutation Sorted.
From TskVerif Require Import Base.Common C07.Model C07.ListLemmas C07.CmpLemmas C07.SortProofs
     C07.RaggedProofs C07.TopProofs C07.IdemProofs C07.PartialProofs C07.MutParentsProofs C07.SweepProofs
     C07.IndexProofs C07.DedupProofs C07.PipelineProofs C07.SquashProofs C07.IndProofs C07.RepairProofs C07.RowOrderProofs C07.Refuted C07.Examples.
Import ListNotations.
Open Scope Z_scope.

(* (a) rows are permuted as full records (metadata bytes included); nodes, individuals,
   populations untouched; a referentially intact input never causes an out-of-bounds access
   or an error *)
Theorem sort_permutes : forall Q, qsorts_ok Q -> forall t mds gds,
  check_refs t = true -> edges_wf t mds -> migs_wf t gds ->
  exists t' mds' gds', table_sort Q None t = Ok t' /\
    edges_wf t' mds' /\ migs_wf t' gds' /\
    Permutation (combine (t_edges t) mds) (combine (t_edges t') mds') /\
    Permutation (combine (t_migs t) gds) (combine (t_migs t') gds') /\
    Permutation (t_sites t) (t_sites t') /\
    Permutation (map mut_content (t_muts t)) (map mut_content (t_muts t')) /\
    same_nodes_inds_pops t t'.
Proof. exact sort_permutes_proof. Qed.

(* (b) documented key orders: edges by (time[parent], parent, child, left); migrations by
   (time, source, dest, left, node); sites by position, equal positions in original order;
   mutations by site, then older known time first, equal / unknown times in original order *)
Theorem sort_sorted : forall Q, qsorts_ok Q -> forall t mds gds,
  check_refs t = true -> edges_wf t mds -> migs_wf t gds ->
  exists t' sp mp, table_sort Q None t = Ok t' /\
    Sorted (edge_le (map n_time (t_nodes t))) (t_edges t') /\
    Sorted mig_le (t_migs t') /\
    sites_witness (t_sites t) (t_sites t') sp /\
    muts_witness (t_muts t) (t_muts t') sp mp.
Proof. exact sort_sorted_proof. Qed.

(* (c) every output site row is an input row, every output mutation is an input mutation
   whose site and parent are the images of the original site / parent rows *)
Theorem sort_remaps : forall Q, qsorts_ok Q -> forall t mds gds,
  check_refs t = true -> edges_wf t mds -> migs_wf t gds ->
  exists t' sp mp, table_sort Q None t = Ok t' /\
    Permutation (zseq 0 (length (t_sites t))) sp /\
    Permutation (zseq 0 (length (t_muts t))) mp /\
    Forall2 (fun i s' => get (t_sites t) i = Ok s') sp (t_sites t') /\
    Forall2 (fun j m' => exists m, get (t_muts t) j = Ok m /\ mut_image sp mp m m') mp (t_muts t').
Proof. exact sort_remaps_proof. Qed.

(* (d) idempotent when the comparators have no ties on the rows present: no two edges equal
   on (time[parent], parent, child, left), no two migrations equal on their five keys, no
   site with both known and unknown mutation times.  (With ties an unstable qsort may
   reorder equal keys: see sort_migration_tie_refuted.) *)
Theorem sort_idempotent : forall Q, qsorts_ok Q -> forall t mds gds,
  check_refs t = true -> edges_wf t mds -> migs_wf t gds -> no_key_ties t ->
  exists t', table_sort Q None t = Ok t' /\ table_sort Q None t' = Ok t'.
Proof. exact sort_idempotent_proof. Qed.

(* a table already in sort order is left byte-identical *)
Theorem sort_fixed_point_sorted : forall Q, qsorts_ok Q -> forall t mds gds,
  check_refs t = true -> edges_wf t mds -> migs_wf t gds -> t_index t = None ->
  in_sort_order t -> no_key_ties t -> table_sort Q None t = Ok t.
Proof. exact sort_fixed_point. Qed.

(* sort() output as a function of the row MULTISET (first half of the open item
   canonicalise_perm_invariant): two referentially intact collections with the same nodes whose
   edge rows and migration rows (full rows incl. metadata bytes) and site rows are permutations of
   each other get IDENTICAL sorted edge / migration tables (fixed columns, metadata and offset
   columns) and site tables, for every admissible qsort, when the sort keys are distinct on the
   rows present (edge key, the five migration keys, site position).  Without mutations the whole
   result is identical.  Not covered: the mutation table (its site / parent ids depend on the
   row order of the inputs; the renaming argument is not done) and canonicalise's subset step. *)
Theorem sort_row_multiset_invariant : forall Q t u mds gds nds hds t' u',
  qsorts_ok Q ->
  check_refs t = true -> edges_wf t mds -> migs_wf t gds ->
  check_refs u = true -> edges_wf u nds -> migs_wf u hds ->
  t_nodes t = t_nodes u ->
  Permutation (combine (t_edges t) mds) (combine (t_edges u) nds) ->
  Permutation (combine (t_migs t) gds) (combine (t_migs u) hds) ->
  Permutation (t_sites t) (t_sites u) ->
  NoDup (map (edge_key (map n_time (t_nodes t))) (t_edges t)) ->
  NoDup (map mig_key (t_migs t)) ->
  NoDup (map s_pos (t_sites t)) ->
  table_sort Q None t = Ok t' -> table_sort Q None u = Ok u' ->
  t_edges t' = t_edges u' /\ t_emd t' = t_emd u' /\ t_eoff t' = t_eoff u' /\
  t_migs t' = t_migs u' /\ t_gmd t' = t_gmd u' /\ t_goff t' = t_goff u' /\
  t_sites t' = t_sites u'.
Proof. exact sort_row_multiset. Qed.

Theorem sort_row_multiset_invariant_no_mutations : forall Q t u mds gds nds hds t' u',
  qsorts_ok Q ->
  check_refs t = true -> edges_wf t mds -> migs_wf t gds ->
  check_refs u = true -> edges_wf u nds -> migs_wf u hds ->
  t_L t = t_L u -> t_nodes t = t_nodes u -> t_inds t = t_inds u -> t_pops t = t_pops u ->
  t_muts t = [] -> t_muts u = [] ->
  Permutation (combine (t_edges t) mds) (combine (t_edges u) nds) ->
  Permutation (combine (t_migs t) gds) (combine (t_migs u) hds) ->
  Permutation (t_sites t) (t_sites u) ->
  NoDup (map (edge_key (map n_time (t_nodes t))) (t_edges t)) ->
  NoDup (map mig_key (t_migs t)) ->
  NoDup (map s_pos (t_sites t)) ->
  table_sort Q None t = Ok t' -> table_sort Q None u = Ok u' -> t' = u'.
Proof. exact sort_row_multiset_no_mutations. Qed.

(* partial sorts.  tsk_table_sorter_sort_edges with start = k (any 0 <= k <= len(edges)), edge
   metadata included: the first k full rows (fixed columns AND metadata bytes) are untouched, the
   rows from k on are a permutation of the old ones as full rows, sorted by the edge key, and the
   ragged columns stay well formed *)
Theorem sort_edge_start_prefix_untouched : forall Q, qsorts_ok Q -> forall t mds start,
  edges_wf t mds -> 0 <= start <= zlen (t_edges t) ->
  (forall e, In e (t_edges t) -> 0 <= e_parent e < zlen (t_nodes t)) ->
  let s := Z.to_nat start in
  exists es' mds',
    sort_edges Q start t
      = Ok (set_edges t (firstn s (t_edges t) ++ es') (concat (firstn s mds ++ mds'))
                      (offsets_of 0 (firstn s mds ++ mds'))) /\
    length mds' = length es' /\
    Permutation (combine (skipn s (t_edges t)) (skipn s mds)) (combine es' mds') /\
    Sorted (edge_le (map n_time (t_nodes t))) es'.
Proof. exact sort_edges_start_spec. Qed.

(* sort(edge_start, site_start = len(sites), mutation_start = len(mutations)) leaves sites,
   mutations, nodes, individuals, populations untouched for every qsort and every edge_start *)
Theorem sort_skip_sites_untouched : forall Q es t t',
  py_sort Q es (zlen (t_sites t)) (zlen (t_muts t)) t = Ok t' ->
  t_sites t' = t_sites t /\ t_muts t' = t_muts t /\ same_nodes_inds_pops t t'.
Proof. exact sort_skip_sites_untouched_proof. Qed.

(* the merge sort used for execution satisfies the qsort assumptions (they are consistent) *)
Theorem qsort_assumptions_satisfiable : qsorts_ok Qmerge /\ qsorts_ok Qmerge_rev.
Proof. exact (conj Qmerge_ok Qmerge_rev_ok). Qed.

(* (e) compute_mutation_parents (tables.c 12348) on a valid, sorted, indexed table.
   [valid_for_parents t insE outsE] is what TSK_CHECK_TREES establishes as far as this function
   needs it: edges inside [0, L) with child/parent in range and the parent strictly older, no two
   overlapping edges for one child, the two indexes list every edge ([insE]/[outsE] = the edge
   rows in insertion / removal order) sorted by left / right, sites sorted by position inside
   [0, L), mutations sorted by site with nodes in range.
   Whenever the function returns Ok (i.e. not TSK_ERR_MUTATION_PARENT_AFTER_CHILD; the model's
   fuel-exhausted outcome is excluded by the same hypothesis) only the parent column changed and,
   for every site s and the k-th mutation of that site in table order, the new parent is
   [nearest_above] in the tree covering the site ([parent_at edges position]): the latest
   earlier row of the site on the same node, else the last row of the first ancestor carrying a
   mutation of the site, else NULL; and it has a smaller row id.
   Not proved (differential only, family [mutparents]): that on such a table the result is Ok
   unless some nearest mutation above has a larger row id (the Err direction and fuel bound). *)
Theorem mutation_parents_nearest : forall t t' insE outsE,
  valid_for_parents t insE outsE ->
  compute_mutation_parents t = Ok t' ->
  length (t_muts t') = length (t_muts t) /\
  (forall j m', nth_error (t_muts t') j = Some m' ->
     exists m, nth_error (t_muts t) j = Some m /\ m' = mut_set_parent m (m_parent m')) /\
  forall s site k, nth_error (t_sites t) s = Some site ->
    (k < length (site_block (t_muts t) (Z.of_nat s)))%nat ->
    let first := site_first (t_muts t) (Z.of_nat s) in
    exists m', nth_error (t_muts t') (Z.to_nat first + k) = Some m' /\
      nearest_above (parent_at (t_edges t) (s_pos site))
                    (map m_node (site_block (t_muts t) (Z.of_nat s))) first k (m_parent m') /\
      m_parent m' <= first + Z.of_nat k.
Proof. exact mutation_parents_nearest_proof'. Qed.

(* build_index (tables.c 11306), whenever it succeeds: only the index changes; both index columns
   are permutations of the edge ids, the insertion order is sorted by left and the removal
   order by right, and they list exactly the edge rows — the index hypotheses of
   [valid_for_parents] above *)
Theorem build_index_lists_every_edge_sorted : forall Q, qsorts_ok Q -> forall t t',
  build_index Q t = Ok t' ->
  exists ins outs insE outsE,
    t' = set_index t (Some (ins, outs)) /\
    Permutation (zseq 0 (length (t_edges t))) ins /\ Permutation (zseq 0 (length (t_edges t))) outs /\
    rows_of (t_edges t) ins insE /\ rows_of (t_edges t) outs outsE /\
    Sorted (fun a b => e_left a <= e_left b) insE /\ Sorted (fun a b => e_right a <= e_right b) outsE /\
    (forall e, In e (t_edges t) <-> In e insE) /\ (forall e, In e (t_edges t) <-> In e outsE).
Proof. exact build_index_spec. Qed.

(* deduplicate_sites (tables.c 12278) on a referentially intact table with non-negative site
   positions, whenever it succeeds (i.e. the sites are sorted): only sites and mutations.site
   change; the new site table is the first row of every run of equal positions, hence strictly
   increasing; every mutation keeps all other columns and now points at a kept row with the
   position of its old site *)
Theorem deduplicate_sites_keeps_first : forall t t',
  (forall s, In s (t_sites t) -> 0 <= s_pos s) -> check_refs t = true ->
  deduplicate_sites t = Ok t' ->
  t' = set_sites_muts t (t_sites t') (t_muts t') /\
  t_sites t' = first_of_runs (-1) (t_sites t) /\
  StronglySorted (fun a b => s_pos a < s_pos b) (t_sites t') /\
  Forall2 (fun m m' => m' = mut_set_site m (m_site m') /\
             exists s s', get (t_sites t) (m_site m) = Ok s /\ get (t_sites t') (m_site m') = Ok s' /\
                          s_pos s' = s_pos s) (t_muts t) (t_muts t').
Proof. exact deduplicate_sites_spec. Qed.

(* tsk_squash_edges (tables.c 13401; EdgeTable.squash), whenever it succeeds on edges with
   left < right: the output covers exactly the same (parent, child, position) triples as the
   input, and no two consecutive output edges could be merged further (same parent and child and
   abutting).  (It fails with TSK_ERR_BAD_EDGES_CONTRADICTORY_CHILDREN on overlapping edges of
   one (parent, child): differential only.) *)
Theorem squash_covers_same_and_is_maximal : forall Q edges out,
  qsorts_ok Q -> (forall e, In e edges -> e_left e < e_right e) ->
  squash_edges Q edges = Ok out ->
  (forall p c x, cov edges p c x <-> cov out p c x) /\
  Sorted (fun a b => ~ mergeable a b) out.
Proof. exact squash_edges_spec. Qed.

(* tsk_table_collection_individual_topological_sort (TableCollection.sort_individuals, tables.c
   7201 / 7279), whenever it returns Ok (i.e. references intact and no parent cycle): there is a
   permutation [ids] (the original id of every output row) such that only the individual table
   and nodes.individual change; output row q is input row ids[q] with every parent renamed to the
   new id of the same individual; nodes.individual of EVERY node is the new id of its old
   individual (or stays NULL); and every parent id is smaller than its child's row id.  Proved
   from the invariant of Kahn's algorithm as coded (incoming_edge_count[p] = number of parent
   slots naming p among the unprocessed individuals). *)
Theorem sort_individuals_permutes_parents_first : forall t t',
  sort_individuals t = Ok t' ->
  exists ids,
    Permutation (zseq 0 (length (t_inds t))) ids /\
    t' = set_inds_nodes t (t_inds t') (t_nodes t') /\
    Forall2 (fun i r' => exists r, get (t_inds t) i = Ok r /\ ind_image ids r r') ids (t_inds t') /\
    Forall2 (fun nd nd' => nd' = node_set_ind nd (n_ind nd') /\ id_image ids (n_ind nd) (n_ind nd'))
            (t_nodes t) (t_nodes t') /\
    (forall q r' p', nth_error (t_inds t') q = Some r' -> In p' (i_parents r') -> p' <> NULL -> p' < Z.of_nat q).
Proof. exact sort_individuals_spec. Qed.

(* the repair pipeline, as far as it is proved: for a referentially intact, logically
   consistent collection ([consistent_input]: edges inside [0,L) with the parent strictly older,
   no two overlapping edges of one child, sites inside [0,L), mutation nodes in range) in ANY row
   order, sort() followed by a successful build_index() gives a table meeting
   [valid_for_parents]; so a successful compute_mutation_parents() then writes the nearest
   mutation above for every mutation.  NOT proved (oracle of family [repair] only): that
   the full tree check succeeds on the sorted table, deduplicate_sites in the chain,
   and that the loaded tree sequence has the original trees and genotypes.  The pipeline does
   fail when a child mutation row precedes its parent (repair_mutation_order_refuted). *)
Theorem sort_then_index_is_valid : forall Q t mds gds t1 t2,
  qsorts_ok Q -> check_refs t = true -> edges_wf t mds -> migs_wf t gds -> consistent_input t ->
  table_sort Q None t = Ok t1 -> build_index Q t1 = Ok t2 ->
  exists insE outsE, valid_for_parents t2 insE outsE.
Proof. exact sort_index_valid. Qed.

(* ... and build_index never fails on the output of sort() when no two edges share the key
   (time[parent], parent, child, left): the sorted table passes TSK_CHECK_EDGE_ORDERING
   (tables.c 10537-10571: parent times non-decreasing, parents contiguous, (child, left) strictly
   increasing within a parent) *)
Theorem sort_output_is_indexable : forall Q t mds gds t1,
  qsorts_ok Q -> check_refs t = true -> edges_wf t mds -> migs_wf t gds ->
  NoDup (map (edge_key (map n_time (t_nodes t))) (t_edges t)) ->
  table_sort Q None t = Ok t1 -> exists t2, build_index Q t1 = Ok t2.
Proof. exact sort_then_build_index_ok. Qed.

Theorem repair_parents_nearest_partial : forall Q t mds gds t1 t2 t3,
  qsorts_ok Q -> check_refs t = true -> edges_wf t mds -> migs_wf t gds -> consistent_input t ->
  table_sort Q None t = Ok t1 -> build_index Q t1 = Ok t2 -> compute_mutation_parents t2 = Ok t3 ->
  forall s site k, nth_error (t_sites t2) s = Some site ->
    (k < length (site_block (t_muts t2) (Z.of_nat s)))%nat ->
    let first := site_first (t_muts t2) (Z.of_nat s) in
    exists m', nth_error (t_muts t3) (Z.to_nat first + k) = Some m' /\
      nearest_above (parent_at (t_edges t2) (s_pos site))
                    (map m_node (site_block (t_muts t2) (Z.of_nat s))) first k (m_parent m').
Proof. exact sort_index_parents_nearest. Qed.

(* THE REPAIR PIPELINE AS ONE STATEMENT.  [consistent_input t]: edges inside [0,L) with child and
   parent in range and the parent strictly older, no two overlapping edges of one child, sites
   inside [0,L), mutation nodes in range — no condition on row order, duplicate site positions
   allowed.  With references intact, well-formed ragged columns and no two edges sharing the key
   (time[parent], parent, child, left):
     sort(); deduplicate_sites(); sort(); build_index()          ([repair_prefix])
   ALWAYS succeeds, and its result t4
     - meets [valid_for_parents] (edge order accepted by TSK_CHECK_EDGE_ORDERING, both index
       columns sorted permutations listing every edge, sites sorted, mutations sorted by site),
     - has exactly the input's trees ([parent_at] equal at every coordinate and node),
     - has one site row per position, strictly increasing,
     - has the same multiset of mutation contents, and untouched nodes/individuals/populations;
   the whole pipeline [repair] then equals compute_mutation_parents on t4, and whenever that
   returns Ok every mutation's parent is the nearest mutation above it in the INPUT's tree at its
   site.  The documented exception (finding 6: a child mutation row listed before its parent with
   equal or unknown time) is exactly the case in which compute_mutation_parents does not return Ok
   (repair_mutation_order_refuted); it is the explicit hypothesis of the last clause.
   Not proved: equality of the decoded genotypes with an order-free definition on the input, and
   the rest of TSK_CHECK_TREES (C02's subject). *)
Theorem repair_pipeline : forall Q t mds gds,
  qsorts_ok Q -> check_refs t = true -> edges_wf t mds -> migs_wf t gds -> consistent_input t ->
  NoDup (map (edge_key (map n_time (t_nodes t))) (t_edges t)) ->
  exists t4 insE outsE,
    repair_prefix Q t = Ok t4 /\ valid_for_parents t4 insE outsE /\
    (forall x c, parent_at (t_edges t4) x c = parent_at (t_edges t) x c) /\
    StronglySorted (fun a b => s_pos a < s_pos b) (t_sites t4) /\
    Permutation (map mut_content (t_muts t)) (map mut_content (t_muts t4)) /\
    same_nodes_inds_pops t t4 /\
    repair Q t = compute_mutation_parents t4 /\
    forall t5, compute_mutation_parents t4 = Ok t5 ->
      forall s site k, nth_error (t_sites t4) s = Some site ->
        (k < length (site_block (t_muts t4) (Z.of_nat s)))%nat ->
        let first := site_first (t_muts t4) (Z.of_nat s) in
        exists m', nth_error (t_muts t5) (Z.to_nat first + k) = Some m' /\
          nearest_above (parent_at (t_edges t) (s_pos site))
                        (map m_node (site_block (t_muts t4) (Z.of_nat s))) first k (m_parent m').
Proof. exact repair_pipeline_proof. Qed.

(* Python's tc.sort() passes a zero bookmark, the C API default is NULL: same result *)
Theorem py_sort_equals_null_bookmark : forall Q t, qsorts_ok Q -> py_sort Q 0 0 0 t = table_sort Q None t.
Proof. exact py_sort_zero_eq. Qed.

(* error directions.  The per-site body of compute_mutation_parents returns Ok, the documented
   TSK_ERR_MUTATION_PARENT_AFTER_CHILD, or (model only) runs out of walk fuel — never another
   error and never an out-of-bounds access; tsk_squash_edges returns Ok or
   TSK_ERR_BAD_EDGES_CONTRADICTORY_CHILDREN, and then two input edges of one (parent, child)
   really overlap *)
Theorem mutation_parents_site_error_is_parent_after_child :
  forall fuel parent par (rank : Z -> Z) M nodes_of first bottom mparent fm c,
  arr_is parent par ->
  (forall v, 0 <= v < zlen parent -> par v = NULL \/ (0 <= par v < zlen parent /\ rank v < rank (par v))) ->
  (forall v, 0 <= v < zlen parent -> rank v <= M) ->
  arr_is bottom (fun _ => NULL) -> zlen parent = zlen bottom ->
  arr_is mparent fm -> (forall i, in_block first (zlen nodes_of) i -> fm i = NULL) ->
  (forall u, In u nodes_of -> 0 <= u < zlen parent) ->
  0 <= first -> first + zlen nodes_of <= zlen mparent ->
  do_site fuel parent nodes_of first bottom mparent = Err c ->
  c = E_MUTATION_PARENT_AFTER_CHILD.
Proof. exact do_site_err. Qed.

Theorem squash_error_means_overlap : forall Q edges r,
  qsorts_ok Q -> squash_edges Q edges = r -> (forall out, r <> Ok out) ->
  r = Err E_BAD_EDGES_CONTRADICTORY_CHILDREN /\
  exists a b, In a edges /\ In b edges /\ e_parent a = e_parent b /\ e_child a = e_child b /\
              e_left a <= e_left b /\ e_left b < e_right a.
Proof. exact squash_edges_err. Qed.

(* the same for ONE tree given as a parent array (any forest), without the edge sweep *)
Theorem mutation_parents_one_tree :
  forall fuel parent par (rank : Z -> Z) M right sites muts bottom mparent sid' muts' mid' bottom' mparent',
  arr_is parent par ->
  (forall v, 0 <= v < zlen parent -> par v = NULL \/ (0 <= par v < zlen parent /\ rank v < rank (par v))) ->
  (forall v, 0 <= v < zlen parent -> rank v <= M) ->
  arr_is bottom (fun _ => NULL) -> zlen parent = zlen bottom ->
  arr_is mparent (fun _ => NULL) -> zlen muts <= zlen mparent ->
  (forall m, In m muts -> 0 <= m_node m < zlen parent /\ 0 <= m_site m) ->
  Sorted (fun a b => m_site a <= m_site b) muts ->
  Forall (fun s => s_pos s < right) sites ->
  sites_loop fuel parent right sites 0 muts 0 bottom mparent
    = Ok (([], sid'), (muts', mid'), (bottom', mparent')) ->
  arr_is bottom' (fun _ => NULL) /\
  exists fm', arr_is mparent' fm' /\ zlen mparent' = zlen mparent /\
    forall s k, 0 <= s < zlen sites -> (k < length (site_block muts s))%nat ->
      let first := site_first muts s in
      nearest_above par (map m_node (site_block muts s)) first k (fm' (first + Z.of_nat k)) /\
      fm' (first + Z.of_nat k) <= first + Z.of_nat k.
Proof. exact mutation_parents_nearest_proof. Qed.

(* the per-site body alone (any block of consecutive rows, any position in the table) *)
Theorem mutation_parents_site_nearest :
  forall fuel parent par (rank : Z -> Z) M nodes_of first bottom mparent fm bottom' mparent',
  arr_is parent par ->
  (forall v, 0 <= v < zlen parent -> par v = NULL \/ (0 <= par v < zlen parent /\ rank v < rank (par v))) ->
  (forall v, 0 <= v < zlen parent -> rank v <= M) ->
  arr_is bottom (fun _ => NULL) -> zlen parent = zlen bottom ->
  arr_is mparent fm -> (forall i, in_block first (zlen nodes_of) i -> fm i = NULL) ->
  (forall u, In u nodes_of -> 0 <= u < zlen parent) ->
  0 <= first -> first + zlen nodes_of <= zlen mparent ->
  do_site fuel parent nodes_of first bottom mparent = Ok (bottom', mparent') ->
  arr_is bottom' (fun _ => NULL) /\ zlen bottom' = zlen bottom /\ zlen mparent' = zlen mparent /\
  exists fm', arr_is mparent' fm' /\
    (forall i, ~ in_block first (zlen nodes_of) i -> fm' i = fm i) /\
    (forall k, (k < length nodes_of)%nat ->
       nearest_above par nodes_of first k (fm' (first + Z.of_nat k)) /\
       fm' (first + Z.of_nat k) <= first + Z.of_nat k).
Proof. exact do_site_correct. Qed.

(* (f) F11: canonicalise is not invariant under the row order of two sites that share a
   position (f11_b is f11_a with the two site rows exchanged and mutation.site following) *)
Theorem canonicalise_ties_refuted :
  Permutation (t_sites f11_a) (t_sites f11_b) /\
  (forall m, In m (t_muts f11_a) ->
     exists m', In m' (t_muts f11_b) /\ mut_content m' = mut_content m /\
                nth_error (t_sites f11_b) (Z.to_nat (m_site m')) = nth_error (t_sites f11_a) (Z.to_nat (m_site m))) /\
  exists oa ob, sorter_run Qmerge true None f11_a = Ok oa /\ sorter_run Qmerge true None f11_b = Ok ob /\
                map s_anc (t_sites oa) = [[65]; [67]] /\ map s_anc (t_sites ob) = [[67]; [65]].
Proof. exact canonicalise_ties_refuted_proof. Qed.

Theorem canonicalise_mutation_tie_refuted :
  Permutation (t_muts mtie_a) (t_muts mtie_b) /\
  exists oa ob, sorter_run Qmerge true None mtie_a = Ok oa /\ sorter_run Qmerge true None mtie_b = Ok ob /\
                t_muts oa <> t_muts ob.
Proof. exact canonicalise_mutation_tie_refuted_proof. Qed.

(* record of the repaired defect (/repo bd01493 "fix: sort with edge_start > 0 keeps the metadata
   of the unsorted prefix"): the PINNED copy-back ([sort_edges_pinned], restart at offset 0)
   made sort(edge_start = 1) drop the untouched first row's metadata and hand the last row bytes
   of other rows; the current function (Model.sort_edges) keeps every row's metadata *)
Theorem sort_edge_start_metadata_pinned_refuted :
  check_refs es_tables = true /\ edges_wf es_tables es_mds /\
  edge_rows es_tables = Ok [(mkE 0 10 2 0, [97; 97; 97; 97]); (mkE 0 10 3 2, [99; 99]); (mkE 0 10 2 1, [98])] /\
  (exists t', sort_edges_pinned Qmerge 1 es_tables = Ok t' /\
     edge_rows t' = Ok [(mkE 0 10 2 0, []); (mkE 0 10 2 1, [98]); (mkE 0 10 3 2, [99; 99; 97; 99; 99; 98])]) /\
  (exists t', py_sort Qmerge 1 0 0 es_tables = Ok t' /\
     edge_rows t' = Ok [(mkE 0 10 2 0, [97; 97; 97; 97]); (mkE 0 10 2 1, [98]); (mkE 0 10 3 2, [99; 99])]).
Proof. exact sort_edge_start_metadata_pinned_refuted_proof. Qed.

(* sort + deduplicate_sites + sort + build_index + compute_mutation_parents fails on a
   logically consistent collection whose rows list a child mutation before its parent
   (unknown times): sort() keeps their relative order *)
Theorem repair_mutation_order_refuted :
  check_refs ro_tables = true /\ repair Qmerge ro_tables = Err E_MUTATION_PARENT_AFTER_CHILD.
Proof. exact repair_mutation_order_refuted_proof. Qed.

(* two admissible qsorts order two migrations with equal keys differently *)
Theorem sort_migration_tie_refuted :
  qsorts_ok Qmerge /\ qsorts_ok Qmerge_rev /\ check_refs gt_tables = true /\
  exists a b, table_sort Qmerge None gt_tables = Ok a /\ table_sort Qmerge_rev None gt_tables = Ok b /\
              t_migs a <> t_migs b.
Proof. exact sort_migration_tie_refuted_proof. Qed.
