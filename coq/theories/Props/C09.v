(* Property C09 — statements only.  PARTIAL: what is proved is the GUARD LOGIC of the
   modelled entry points (C09/Guards.v): when the guard passes, the body — written with
   checked array access — never indexes out of range, for every identifier in Z and every
   array length.  Memory safety of the compiled C is not a theorem; it is monitored under
   ASan/UBSan by harness/props/c09.py.

   Entries whose guard was (or is) defective take the comparison as a boolean parameter of the
   model; the per-run correspondence instantiates it with the constant that
   translator/facts_c09.py re-reads from /repo (C09_* in Gen/Generated.v).  After the fix:
   commits 7206c30 (F3, 3 of 4 sites), eee123e (F4), 665ed14 (N4), b50fe2e (N6) these constants
   are `true`, i.e. THE CURRENT MODEL IS THE [true] VARIANT and the in-bounds theorems below
   (without suffix) are statements about it.  `_pinned_refuted` theorems are a historical
   record about the [false] variant = the code at the pinned commit 380c75d.  Since the
   second batch of fix: commits (6ee6654 N1, c0d33d0 N2, b6b6f56 N3, e0eff6d N5, 91f5d06 N8,
   a3d66b3 N9) the same holds for those entries: the unsuffixed in-bounds theorems are about
   the [true] / checked variants = the code now in /repo (for N1 the constant
   C09_tree_id_parse_checked is re-read on every run; for N2, N3, N5, N8, N9 the findings entry
   is gone, so the monitor reports any recurrence as a VIOLATION).  The ONLY `_refuted` theorem
   about code still in /repo is link_ancestors_ancestors_guard_refuted (4th F3 site,
   ancestor_mapper_init_ancestors, kept because tests/test_lowlevel.py::test_link_ancestors
   relies on it); `_mutant_refuted` theorems are about seeded changes, not about /repo. *)
From Coq Require Import List ZArith Bool.
From TskVerif Require Import Base.Common C09.Guards C09.GuardProofs C09.MapMutations C09.SeekProofs C09.RatesProofs C09.Guards2 C09.Guard2Proofs C09.IndexProofs C09.Guards3 C09.Guard3Proofs C09.Guards4 C09.Guard4Proofs.
Import ListNotations.
Open Scope Z_scope.

(* ---- Tree accessors (arrays of num_nodes + 1 elements, virtual root included) ---- *)
Theorem guard_implies_in_bounds_tree_array : forall arr N x,
  zlen arr = N + 1 -> Tree_array_get arr N x <> OOB.
Proof. exact GuardProofs.guard_implies_in_bounds_tree_array. Qed.

Theorem guard_implies_in_bounds_tsk_tree_array : forall arr N u,
  zlen arr = N + 1 -> tsk_tree_array_get arr N u <> OOB.
Proof. exact GuardProofs.guard_implies_in_bounds_tsk_tree_array. Qed.

Theorem guard_implies_in_bounds_tree_num_samples : forall arr N x,
  zlen arr = N + 1 -> Tree_get_num_samples arr N x <> OOB.
Proof. exact GuardProofs.guard_implies_in_bounds_tree_num_samples. Qed.

Theorem guard_implies_in_bounds_tree_time : forall time N x,
  zlen time = N -> Tree_get_time time N x <> OOB.
Proof. exact GuardProofs.guard_implies_in_bounds_tree_time. Qed.

Theorem guard_implies_in_bounds_next_sample : forall ns S has x,
  zlen ns = S -> Tree_get_next_sample ns S has x <> OOB.
Proof. exact GuardProofs.guard_implies_in_bounds_next_sample. Qed.

Theorem guard_implies_in_bounds_is_descendant : forall fuel parent N x y,
  parents_ok parent N -> Tree_is_descendant fuel parent N x y <> OOB.
Proof. exact GuardProofs.guard_implies_in_bounds_is_descendant. Qed.

Theorem guard_implies_in_bounds_depth : forall fuel parent N x,
  parents_ok parent N -> Tree_depth fuel parent N x <> OOB.
Proof. exact GuardProofs.guard_implies_in_bounds_tree_depth. Qed.

(* finding C09-N1 (fixed 6ee6654): at the pinned commit format "I" accepted a huge id as an alias
   of a small one; with the range-checking format now in /repo only ids in [0, N] are accepted
   (current model: Tree_array_get_checked_parse / with_id_parse true) *)
Theorem tree_array_huge_id_pinned_refuted :
  exists N x v, N < x /\ Tree_array_get (alloc (N + 1) 7) N x = Ok v.
Proof. exact GuardProofs.tree_array_huge_id_refuted. Qed.

Theorem tree_array_checked_parse_accepts_only_range : forall arr N x v,
  Tree_array_get_checked_parse arr N x = Ok v -> 0 <= x <= N.
Proof. exact GuardProofs.tree_array_accepts_only_range. Qed.

Theorem guard_implies_in_bounds_tree_array_checked_parse : forall arr N x,
  zlen arr = N + 1 -> Tree_array_get_checked_parse arr N x <> OOB.
Proof. exact GuardProofs.guard_implies_in_bounds_tree_array_checked_parse. Qed.

(* ---- id-list loops: F3 (fixed at three sites; current model = strict comparison) ---- *)
Theorem ibd_within_guard_pinned_refuted :
  exists N samples, 0 <= N /\ ibd_within_init false N samples = OOB.
Proof. exact GuardProofs.ibd_within_guard_refuted. Qed.

Theorem guard_implies_in_bounds_ibd_within : forall N samples,
  0 <= N -> ibd_within_init true N samples <> OOB.
Proof. exact GuardProofs.guard_implies_in_bounds_ibd_within_repaired. Qed.

Theorem ibd_between_guard_pinned_refuted :
  exists N sets, 0 <= N /\ ibd_between_init false N sets = OOB.
Proof. exact GuardProofs.ibd_between_guard_refuted. Qed.

Theorem guard_implies_in_bounds_ibd_between : forall N sets,
  0 <= N -> ibd_between_init true N sets <> OOB.
Proof. exact GuardProofs.guard_implies_in_bounds_ibd_between_repaired. Qed.

Theorem link_ancestors_samples_guard_pinned_refuted :
  exists N samples ancestors, 0 <= N /\ link_ancestors_init false true N samples ancestors = OOB.
Proof. exact GuardProofs.link_ancestors_samples_guard_refuted. Qed.

Theorem link_ancestors_ancestors_guard_refuted :
  exists N samples ancestors, 0 <= N /\ link_ancestors_init true false N samples ancestors = OOB.
Proof. exact GuardProofs.link_ancestors_ancestors_guard_refuted. Qed.

(* the current model of link_ancestors is [link_ancestors_init true false]: still refuted by
   link_ancestors_ancestors_guard_refuted above; with both guards strict it is in bounds *)
Theorem guard_implies_in_bounds_link_ancestors_repaired : forall N samples ancestors,
  0 <= N -> link_ancestors_init true true N samples ancestors <> OOB.
Proof. exact GuardProofs.guard_implies_in_bounds_link_ancestors_repaired. Qed.

Theorem guard_implies_in_bounds_simplifier_init : forall N samples,
  0 <= N -> simplifier_init_samples N samples <> OOB.
Proof. exact GuardProofs.guard_implies_in_bounds_simplifier_init. Qed.

Theorem guard_implies_in_bounds_simplify_entry : forall md N samples,
  0 <= N -> simplify_entry md N samples <> OOB.
Proof. exact GuardProofs.guard_implies_in_bounds_simplify_entry. Qed.

Theorem guard_implies_in_bounds_link_ancestors_entry_repaired : forall md N samples ancestors,
  0 <= N -> link_ancestors_entry true true md N samples ancestors <> OOB.
Proof. exact GuardProofs.guard_implies_in_bounds_link_ancestors_entry_repaired. Qed.

Theorem guard_implies_in_bounds_variant_init : forall imp N flags samples,
  0 <= N -> zlen flags = N -> variant_init_samples imp N flags samples <> OOB.
Proof. exact GuardProofs.guard_implies_in_bounds_variant_init. Qed.

Theorem guard_implies_in_bounds_tracked_samples : forall fuel N flags parent samples,
  0 <= N -> parents_ok parent N -> zlen flags = N ->
  Tree_init_tracked fuel N flags parent samples <> OOB.
Proof. exact GuardProofs.guard_implies_in_bounds_tracked_samples. Qed.

Theorem guard_implies_in_bounds_check_sample_sets : forall N imap sizes flat,
  zlen imap = N -> sum_sizes sizes <= zlen flat ->
  tsk_treeseq_check_sample_sets N imap sizes flat <> OOB.
Proof. exact GuardProofs.guard_implies_in_bounds_check_sample_sets. Qed.

(* finding C09-N2 (fixed c0d33d0): pinned order of the checks *)
Theorem pair_coalescence_rates_pinned_refuted :
  exists N imap times sizes flat,
    zlen imap = N /\ zlen times = N /\ sum_sizes sizes = zlen flat /\
    pair_coalescence_rates_entry false N imap times 0 sizes flat = OOB.
Proof. exact GuardProofs.pair_coalescence_rates_refuted. Qed.

Theorem guard_implies_in_bounds_pair_coalescence_rates : forall N imap times t0 sizes flat,
  zlen imap = N -> zlen times = N -> sum_sizes sizes = zlen flat ->
  pair_coalescence_rates_entry true N imap times t0 sizes flat <> OOB.
Proof. exact RatesProofs.guard_implies_in_bounds_pair_coalescence_rates_repaired. Qed.

(* ---- table rows ---- *)
Theorem guard_implies_in_bounds_get_row : forall col offset n i,
  zlen col = n -> zlen offset = n + 1 -> table_get_row col offset n i <> OOB.
Proof. exact GuardProofs.guard_implies_in_bounds_get_row. Qed.

Theorem guard_implies_in_bounds_py_getitem : forall col offset n i,
  zlen col = n -> zlen offset = n + 1 -> py_table_getitem col offset n i <> OOB.
Proof. exact GuardProofs.guard_implies_in_bounds_py_getitem. Qed.

Theorem guard_implies_in_bounds_extend : forall col offset n ids,
  zlen col = n -> zlen offset = n + 1 -> table_extend col offset n ids <> OOB.
Proof. exact GuardProofs.guard_implies_in_bounds_extend. Qed.

Theorem guard_implies_in_bounds_keep_rows : forall keep col n,
  zlen col = n -> table_keep_rows true keep col n <> OOB.
Proof. exact GuardProofs.guard_implies_in_bounds_keep_rows. Qed.

Theorem keep_rows_without_length_check_refuted :
  exists keep col n, zlen col = n /\ table_keep_rows false keep col n = OOB.
Proof. exact GuardProofs.keep_rows_without_length_check_refuted. Qed.

Theorem guard_implies_in_bounds_subset : forall N col nodes,
  0 <= N -> zlen col = N -> table_collection_subset N col nodes <> OOB.
Proof. exact GuardProofs.guard_implies_in_bounds_subset. Qed.

Theorem guard_implies_in_bounds_subset_entry : forall mig N col nodes,
  0 <= N -> zlen col = N -> subset_entry mig N col nodes <> OOB.
Proof. exact GuardProofs.guard_implies_in_bounds_subset_entry. Qed.

Theorem guard_implies_in_bounds_union : forall sn on scol mapping,
  zlen scol = sn -> 0 <= on -> table_collection_union true sn on scol mapping <> OOB.
Proof. exact GuardProofs.guard_implies_in_bounds_union. Qed.

Theorem union_without_length_check_refuted :
  exists sn on scol mapping, zlen scol = sn /\ 0 <= on /\ table_collection_union false sn on scol mapping = OOB.
Proof. exact GuardProofs.union_without_length_check_refuted. Qed.

(* finding C09-N6 *)
Theorem site_set_columns_metadata_offset_pinned_refuted :
  exists position so mo sl ml, site_table_set_columns false position so mo sl ml = OOB.
Proof. exact GuardProofs.site_set_columns_metadata_offset_refuted. Qed.

Theorem guard_implies_in_bounds_site_set_columns : forall position so mo sl ml,
  site_table_set_columns true position so mo sl ml <> OOB.
Proof. exact GuardProofs.guard_implies_in_bounds_site_set_columns_repaired. Qed.

(* finding C09-N3 (fixed b6b6f56) *)
Theorem two_branch_rows_empty_pinned_refuted : two_branch_row_span false [] = OOB.
Proof. exact GuardProofs.two_branch_rows_empty_refuted. Qed.

Theorem guard_implies_in_bounds_two_branch_rows : forall rows,
  two_branch_row_span true rows <> OOB.
Proof. exact GuardProofs.guard_implies_in_bounds_two_branch_rows_repaired. Qed.

(* ---- positions: F4 (fixed: current model = [seek_guard_repaired] / [tree_seek true]) ---- *)
Theorem seek_guard_nan_pinned_refuted : forall L, seek_guard NaN L = false.
Proof. exact GuardProofs.seek_guard_nan_refuted_lemma. Qed.

Theorem seek_guard_pinned_passes_only_nan_or_range : forall x L,
  seek_guard x L = false -> x = NaN \/ exists z, x = Fin z /\ 0 <= z < L.
Proof. exact GuardProofs.seek_guard_passes. Qed.

Theorem tree_seek_nan_never_returns_pinned_refuted : forall bps T i fuel,
  zlen bps = T + 1 -> 1 <= T -> 0 <= i < T -> tree_seek false fuel bps T i NaN = Fuel.
Proof. exact GuardProofs.tree_seek_nan_hangs. Qed.

Theorem seek_guard_passes_only_range : forall x L,
  seek_guard_repaired x L = false -> exists z, x = Fin z /\ 0 <= z < L.
Proof. exact GuardProofs.seek_guard_repaired_passes. Qed.

Theorem tree_seek_rejects_nan : forall bps T i fuel,
  zlen bps = T + 1 -> 0 <= T -> exists c, tree_seek true fuel bps T i NaN = Err c.
Proof. exact GuardProofs.tree_seek_repaired_rejects_nan. Qed.

(* totality for finite in-range positions: from any state, in either direction, the linear
   seek reaches the covering tree within num_trees + 1 steps (no fuel exhaustion) *)
Theorem tree_seek_linear_terminates : forall bps T i z fwd,
  bps_sorted bps T -> 1 <= T -> -1 <= i < T ->
  (exists b0 bT, get bps 0 = Ok b0 /\ get bps T = Ok bT /\ b0 <= z < bT) ->
  exists j, seek_loop (Z.to_nat (T + 1)) fwd bps T i (Fin z) = Ok j /\ in_interval bps j (Fin z) = Ok true.
Proof. exact SeekProofs.tree_seek_linear_terminates. Qed.

(* finding C09-N4 *)
Theorem windows_guard_nan_pinned_refuted :
  exists L w, check_windows false L w = true /\ ~ strictly_increasing w.
Proof. exact GuardProofs.windows_guard_nan_refuted_lemma. Qed.

Theorem check_windows_sorted : forall L w,
  check_windows true L w = true -> strictly_increasing w.
Proof. exact GuardProofs.check_windows_repaired_sorted. Qed.

(* ---- map_mutations ---- *)
Theorem guard_implies_in_bounds_map_mutations : forall ns g anc,
  0 <= ns -> map_mutations_entry true ns g anc <> OOB /\
  (forall na, map_mutations_entry true ns g anc = Ok na ->
     1 <= na <= HARTIGAN_MAX_ALLELES /\ forall allele, allele_count_access na allele <> OOB).
Proof. exact GuardProofs.guard_implies_in_bounds_map_mutations. Qed.

Theorem map_mutations_without_length_check_refuted :
  exists ns g, 0 <= ns /\ map_mutations_entry false ns g None = OOB.
Proof. exact GuardProofs.map_mutations_without_length_check_refuted. Qed.

(* the unchecked `transitions[num_transitions]` writes of tsk_tree_map_mutations stay inside
   the buffer of num_samples entries: the Hartigan pass writes at most one transition per
   sample node — for every tree shape, missing data, internal samples, several roots, and
   every fixed ancestral state below num_alleles (model: C09/MapMutations.v) *)
Theorem map_mutations_transitions_bounded : forall K, (1 <= K)%nat ->
  forall fixed roots,
  forallb (wfb K) roots = true ->
  (match fixed with Some a => (a < K)%nat | None => True end) ->
  (transitions_written K fixed roots <= list_sum (map samples roots))%nat.
Proof. exact MapMutations.transitions_le_samples. Qed.

(* ==== extension round: second tier of entry points (C09/Guards2.v) ==== *)

(* two-locus statistics / ld_matrix(sites=...): check_sites + per-site array accesses *)
Theorem guard_implies_in_bounds_two_locus_sites : forall n per_site rows cols,
  zlen per_site = n -> two_locus_sites_entry true n per_site rows cols <> OOB.
Proof. exact Guard2Proofs.guard_implies_in_bounds_two_locus_sites. Qed.

(* the seeded change C09-2 (`>` in the separate check of the last list element) *)
Theorem check_sites_last_gt_mutant_refuted :
  exists n per_site rows cols, zlen per_site = n /\ two_locus_sites_entry false n per_site rows cols = OOB.
Proof. exact Guard2Proofs.check_sites_last_gt_mutant_refuted. Qed.

Theorem guard_implies_in_bounds_mean_descendants : forall N sets,
  0 <= N -> mean_descendants_init N sets <> OOB.
Proof. exact Guard2Proofs.guard_implies_in_bounds_mean_descendants. Qed.

Theorem guard_implies_in_bounds_gnn : forall N per_node sets focal,
  0 <= N -> zlen per_node = N -> gnn_init N per_node sets focal <> OOB.
Proof. exact Guard2Proofs.guard_implies_in_bounds_gnn. Qed.

(* finding C09-N5 (fixed e0eff6d): at the pinned commit no integrity check preceded the use of stored ids *)
Theorem delete_older_no_integrity_check_pinned_refuted :
  exists N node_time ep mn, zlen node_time = N /\ delete_older_entry false N node_time ep mn = OOB.
Proof. exact Guard2Proofs.delete_older_no_integrity_check_refuted. Qed.

Theorem guard_implies_in_bounds_delete_older : forall N node_time ep mn,
  zlen node_time = N -> delete_older_entry true N node_time ep mn <> OOB.
Proof. exact Guard2Proofs.guard_implies_in_bounds_delete_older_repaired. Qed.

Theorem ibd_run_no_integrity_check_pinned_refuted :
  exists N node_time amap ep ec, zlen node_time = N /\ zlen amap = N /\ ibd_run_entry false N node_time amap ep ec = OOB.
Proof. exact Guard2Proofs.ibd_run_no_integrity_check_refuted. Qed.

Theorem guard_implies_in_bounds_ibd_run : forall N node_time amap ep ec,
  zlen node_time = N -> zlen amap = N -> ibd_run_entry true N node_time amap ep ec <> OOB.
Proof. exact Guard2Proofs.guard_implies_in_bounds_ibd_run_repaired. Qed.

(* finding C09-N8 (fixed 91f5d06) *)
Theorem count_topologies_negative_id_pinned_refuted :
  exists N flags u i, zlen flags = N /\ u < 0 /\ count_topologies_sample_check false N flags u = Ok i.
Proof. exact Guard2Proofs.count_topologies_negative_id_refuted. Qed.

Theorem count_topologies_accepts_only_range : forall N flags u i,
  count_topologies_sample_check true N flags u = Ok i -> 0 <= u < N /\ i = u.
Proof. exact Guard2Proofs.count_topologies_repaired_accepts_only_range. Qed.

Theorem guard_implies_in_bounds_count_topologies : forall b N flags u,
  zlen flags = N -> count_topologies_sample_check b N flags u <> OOB.
Proof. exact Guard2Proofs.guard_implies_in_bounds_count_topologies. Qed.

(* finding C09-N9 (fixed a3d66b3): check_positions was NaN-blind like F4 / N4 *)
Theorem check_positions_nan_pinned_refuted : forall L, check_positions false L [NaN] = true.
Proof. exact Guard2Proofs.check_positions_nan_refuted. Qed.

Theorem check_positions_in_range : forall L ps,
  check_positions true L ps = true -> Forall (fun p => exists z, p = Fin z /\ 0 <= z < L) ps.
Proof. exact Guard2Proofs.check_positions_repaired_in_range. Qed.

Theorem with_id_parse_preserves_in_bounds : forall (A : Type) checked xs (r : res A),
  r <> OOB -> with_id_parse checked xs r <> OOB.
Proof. exact @Guard2Proofs.with_id_parse_preserves_in_bounds. Qed.

(* user-supplied table indexes (tables.indexes = TableCollectionIndexes(...), fromdict, files):
   tsk_table_collection_check_index_integrity range-checks BOTH arrays before any edge column is
   read through them; the seeded change C09-3 (removal order untested) is refuted *)
Theorem guard_implies_in_bounds_check_index : forall ne ins rem edge_col,
  zlen edge_col = ne -> check_index_entry true true ne ins rem edge_col <> OOB.
Proof. exact IndexProofs.guard_implies_in_bounds_check_index. Qed.

Theorem check_index_removal_unchecked_mutant_refuted :
  exists ne ins rem edge_col, zlen edge_col = ne /\ check_index_entry true false ne ins rem edge_col = OOB.
Proof. exact IndexProofs.check_index_removal_unchecked_mutant_refuted. Qed.

(* ==== third tier (C09/Guards3.v) ==== *)

(* set_columns / append_columns / fromdict / unpickling of EVERY table: when only the first
   column read adopts its own length as num_rows and every later one is checked against it
   ([spec_well_formed], evaluated per run on the flags re-read from tskit_lwt_interface.h),
   no column is read past its end, whatever lengths the caller passes and whichever optional
   columns are absent *)
Theorem guard_implies_in_bounds_table_columns : forall spec given,
  spec_well_formed spec = true -> table_columns_entry spec given <> OOB.
Proof. exact Guard3Proofs.guard_implies_in_bounds_table_columns. Qed.

(* seeded change C09-5 (the shape of C09-N6): a later column read with check_num_rows = false *)
Theorem table_columns_unchecked_column_mutant_refuted :
  exists spec given, table_columns_entry spec given = OOB.
Proof. exact Guard3Proofs.table_columns_unchecked_column_mutant_refuted. Qed.

(* finding C09-N10 (fixed f14bc99): at the pinned commit genetic_relatedness_weighted never validated its index
   tuples; the current model is [relatedness_weighted_entry true] (fact C09_relatedness_weighted_checks_indexes) *)
Theorem relatedness_weighted_index_tuples_pinned_refuted :
  exists nw idx, 0 < nw /\ relatedness_weighted_entry false nw idx = OOB.
Proof. exact Guard3Proofs.relatedness_weighted_index_tuples_refuted. Qed.

Theorem guard_implies_in_bounds_relatedness_weighted : forall nw idx,
  0 <= nw -> relatedness_weighted_entry true nw idx <> OOB.
Proof. exact Guard3Proofs.guard_implies_in_bounds_relatedness_weighted_repaired. Qed.

(* the sample-set statistics with index tuples (f2/f3/f4, divergence, Y2, Y3, genetic_relatedness, Fst) *)
Theorem guard_implies_in_bounds_set_indexes : forall n idx,
  0 <= n -> set_indexes_entry n idx <> OOB.
Proof. exact Guard3Proofs.guard_implies_in_bounds_set_indexes. Qed.

(* ==== fourth tier (C09/Guards4.v): validation/use pairs and `capacity >= writes` ==== *)

(* IndividualTable.keep_rows: every parent of every kept row is validated before it indexes
   id_map in subset_remap_ragged_id_column — for all parents lists and keep masks *)
Theorem guard_implies_in_bounds_individual_keep_rows : forall id_map rows,
  individual_keep_rows false id_map rows <> OOB.
Proof. exact Guard4Proofs.guard_implies_in_bounds_individual_keep_rows. Qed.

(* seeded change C09-7: `break` instead of `continue` at the first TSK_NULL parent *)
Theorem individual_keep_rows_break_mutant_refuted :
  exists id_map rows, individual_keep_rows true id_map rows = OOB.
Proof. exact Guard4Proofs.individual_keep_rows_break_mutant_refuted. Qed.

(* two-site statistics: the scratch array `sites` (num_sites elements in /repo) has room for the
   union of the row and column site lists that get_site_row_col_indices writes into it, for all
   lists accepted by check_sites; no fuel exhaustion either *)
Theorem two_site_scratch_capacity_table : forall num_sites rows cols,
  0 <= num_sites -> incr 0 rows num_sites -> incr 0 cols num_sites ->
  two_site_scratch num_sites rows cols <> OOB /\ two_site_scratch num_sites rows cols <> Fuel.
Proof. exact Guard4Proofs.two_site_scratch_capacity_table. Qed.

Theorem two_site_entry_capacity : forall num_sites rows cols,
  0 <= num_sites -> check_sites true num_sites rows = Ok tt -> check_sites true num_sites cols = Ok tt ->
  two_site_scratch num_sites rows cols <> OOB.
Proof. exact Guard4Proofs.two_site_entry_capacity. Qed.

(* n_rows + n_cols elements suffice for ANY two lists *)
Theorem two_site_scratch_capacity_sum : forall rows cols,
  two_site_scratch (zlen rows + zlen cols) rows cols <> OOB.
Proof. exact Guard4Proofs.two_site_scratch_capacity_sum. Qed.

(* seeded change C09-8: max(n_rows, n_cols) elements are not enough *)
Theorem two_site_scratch_max_capacity_mutant_refuted :
  exists rows cols, incr 0 rows 2 /\ incr 0 cols 2 /\
    two_site_scratch (Z.max (zlen rows) (zlen cols)) rows cols = OOB.
Proof. exact Guard4Proofs.two_site_scratch_max_capacity_mutant_refuted. Qed.

(* Variant sample lists: the seeded change C09-6 (bound test only inside the !impute_missing
   block) is refuted; the code in /repo is in bounds for both settings; the copy of the sample
   list into alt_samples needs num_samples <= num_samples_alloc *)
Theorem variant_guard_inside_impute_block_mutant_refuted :
  exists N flags samples, 0 <= N /\ zlen flags = N /\
    variant_index_map_v true true N flags 0 (alloc N TSK_NULL) samples = OOB.
Proof. exact Guard4Proofs.variant_guard_inside_impute_block_mutant_refuted. Qed.

Theorem guard_implies_in_bounds_variant_index_map : forall imp N flags samples j map,
  zlen flags = N -> zlen map = N -> variant_index_map_v false imp N flags j map samples <> OOB.
Proof. exact Guard4Proofs.guard_implies_in_bounds_variant_index_map. Qed.

Theorem variant_copy_samples_capacity : forall cap samples,
  zlen samples <= cap -> variant_copy_samples cap samples <> OOB.
Proof. exact Guard4Proofs.variant_copy_samples_capacity. Qed.

Theorem variant_copy_samples_too_small_refuted :
  exists cap samples, cap < zlen samples /\ variant_copy_samples cap samples = OOB.
Proof. exact Guard4Proofs.variant_copy_samples_too_small_refuted. Qed.

(* stale indexes: tsk_table_collection_copy carries the index over only when
   tsk_table_collection_has_index holds (pointers AND indexes.num_edges == edges.num_rows), so
   tsk_table_collection_set_indexes never reads more ids than the arrays hold *)
Theorem guard_implies_in_bounds_copy_indexes : forall index_num_edges edges_num_rows,
  0 <= index_num_edges -> copy_indexes true index_num_edges edges_num_rows <> OOB.
Proof. exact Guard4Proofs.guard_implies_in_bounds_copy_indexes. Qed.

(* seeded change C09-9 (pointer-only guard) *)
Theorem copy_indexes_pointer_only_guard_mutant_refuted :
  exists index_num_edges edges_num_rows, 0 <= index_num_edges < edges_num_rows /\
    copy_indexes false index_num_edges edges_num_rows = OOB.
Proof. exact Guard4Proofs.copy_indexes_pointer_only_guard_mutant_refuted. Qed.

Theorem copy_indexes_shrunk_in_bounds : forall b index_num_edges edges_num_rows,
  0 <= edges_num_rows <= index_num_edges -> copy_indexes b index_num_edges edges_num_rows <> OOB.
Proof. exact Guard4Proofs.copy_indexes_shrunk_in_bounds. Qed.

(* MutationTable.keep_rows: the parent of every kept row — in particular every negative value
   other than TSK_NULL — is refused before subset_remap_id_column indexes id_map with it *)
Theorem guard_implies_in_bounds_mutation_keep_rows : forall id_map rows,
  mutation_keep_rows true id_map rows <> OOB.
Proof. exact Guard4Proofs.guard_implies_in_bounds_mutation_keep_rows. Qed.

(* seeded change C09-11 *)
Theorem mutation_keep_rows_negative_parent_mutant_refuted :
  exists id_map rows, mutation_keep_rows false id_map rows = OOB.
Proof. exact Guard4Proofs.mutation_keep_rows_negative_parent_mutant_refuted. Qed.

(* deduplicate_sites: with zero sites the function returns at once (nothing validated, nothing
   indexed); otherwise every mutations.site is validated (full integrity check) before
   site_id_map is indexed with it *)
Theorem guard_implies_in_bounds_deduplicate_sites : forall dups num_sites msite,
  0 <= num_sites -> deduplicate_sites_entry true dups num_sites msite <> OOB.
Proof. exact Guard4Proofs.guard_implies_in_bounds_deduplicate_sites. Qed.

(* seeded change C09-12 *)
Theorem deduplicate_sites_site_only_check_mutant_refuted :
  exists num_sites msite, 0 <= num_sites /\ deduplicate_sites_entry false true num_sites msite = OOB.
Proof. exact Guard4Proofs.deduplicate_sites_site_only_check_mutant_refuted. Qed.
