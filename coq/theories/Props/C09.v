From Coq Require Import List ZArith.
From TskVerif Require Import Base.Common C09.Guards.

Theorem c09_placeholder : True.
Proof. exact I. Qed.
