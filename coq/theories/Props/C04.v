(* Property C04 -- statements only.  Each theorem is closed by [exact] of a lemma proved in
   the C04/ files; Print Assumptions is evaluated by ./check on every run. *)
From Coq Require Import List ZArith Bool.
From TskVerif Require Import Base.Common C04.Model C04.ReduceProofs.
Import ListNotations.

Theorem reduce_keeps_samples :
  forall par nodes smp unary_ok keep_roots fuel s,
    In s smp -> kept par nodes smp unary_ok keep_roots fuel s = true.
Proof. exact reduce_keeps_samples_lemma. Qed.
