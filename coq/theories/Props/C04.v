(* Property C04 -- statements only.  Each theorem is closed by [exact] of a lemma proved in
   the C04/ files; Print Assumptions is evaluated by ./check on every run.

   The theorems are about the SPECIFICATION of simplify (C04/Model.v).  The C algorithm
   (c/tskit/tables.c, the simplifier functions) is tied to [simplify_spec] by the per-run correspondence
   only (label: partial).  The full refinement statement that is NOT proved:
     simplify_alg_refines_spec_partial :
       forall t smp o, valid t -> simplify_alg t smp o (C04/SimplifyAlg.v, the model of the C
                                  data structures) = simplify_spec t smp o.
   Proved components of the algorithm model (bottom of this file): the segment overlapper
   (partition and list-level exactness), extract_ancestry, edge buffering/flush = the spec's
   squash, ancestry squashing, rewind_node, one whole merge_ancestors step for the default
   options in terms of the queue, and -- merge_step_refines_spec -- that step against the
   SPECIFICATION: given the queue hypotheses Q1/Q2, the new ancestry is the spec's
   mut_target, the appended edges are the spec's reduced forest below the parent, and the
   output id exists iff the parent is kept somewhere.
   Still missing for the full statement (simplify_alg_refines_spec_partial):
     (i)  deriving Q1/Q2 from the invariant over the parents processed in time order
          (extraction over the parent's edge group + counting covering segments against nlin),
          and the induction over group_by_parent;
     (ii) sample parents (internal samples), keep_unary, the input-roots pass,
          reduce_to_site_topology;
     (iii) exact interval lists (squash canonicity) and the output numbering / node rows.
   Table-level idempotence of simplify_spec (default options) is likewise NOT a theorem: it
   needs "the tables read back from the result have, at every position, the reduced forest
   renamed by the node map" plus invariance of [reduce] under that renaming.
   Per position, a forest is a parent map [par]; it is acyclic because a measure [depth]
   decreases strictly towards the root (tskit: time[child] < time[parent]), [fuel] exceeds
   every depth (so no walk of the executable definitions runs out of fuel), and [nodes]
   lists every node that has a parent, once.  Non-vacuity: C04/Examples.v. *)
From Coq Require Import List ZArith Bool.
From TskVerif Require Import Base.Common C04.Model C04.ForestProofs C04.ReduceProofs
  C04.IdemProofs C04.GenoProofs C04.SpecProofs C04.Examples C04.SimplifyAlg C04.OverlapProofs C04.ExtractProofs
  C04.BufferProofs C04.MergeProofs C04.TargetProofs C04.StepProofs.
Import ListNotations.

(* (a) every chosen sample is retained *)
Theorem reduce_keeps_samples :
  forall par nodes smp unary_ok keep_roots fuel s,
    In s smp -> kept par nodes smp unary_ok keep_roots fuel s = true.
Proof. exact reduce_keeps_samples_lemma. Qed.

(* (b) among retained nodes, ancestry in the reduced forest is exactly the original
   ancestry; and only retained nodes take part in the reduced forest *)
Theorem reduce_ancestry_restriction :
  forall par nodes smp unary_ok keep_roots fuel (depth : nat -> nat),
    (forall u v, par u = Some v -> (depth v < depth u)%nat) ->
    (forall u, (depth u < fuel)%nat) ->
    forall a b,
      kept par nodes smp unary_ok keep_roots fuel a = true ->
      kept par nodes smp unary_ok keep_roots fuel b = true ->
      (anc (rpar par nodes smp unary_ok keep_roots fuel) a b <-> anc par a b).
Proof. exact reduce_ancestry_restriction_lemma. Qed.

Theorem reduce_only_kept_nodes :
  forall par nodes smp unary_ok keep_roots fuel a b,
    anc (rpar par nodes smp unary_ok keep_roots fuel) a b ->
    kept par nodes smp unary_ok keep_roots fuel a = true /\
    kept par nodes smp unary_ok keep_roots fuel b = true.
Proof. exact reduce_only_kept. Qed.

(* (c) the MRCA of any two chosen samples is the same node before and after (both
   undefined, or both the same input node; the node map then renames it) *)
Theorem reduce_mrca_preserved :
  forall par nodes smp unary_ok keep_roots fuel (depth : nat -> nat),
    (forall u v, par u = Some v -> (depth v < depth u)%nat) ->
    (forall u, (depth u < fuel)%nat) ->
    (forall u v, par u = Some v -> In u nodes) ->
    NoDup nodes ->
    forall a b, In a smp -> In b smp ->
      mrca (rpar par nodes smp unary_ok keep_roots fuel) fuel a b = mrca par fuel a b.
Proof. exact reduce_mrca_preserved_lemma. Qed.

(* [mrca] is the most recent common ancestor: common, and below every common ancestor;
   [None] exactly when there is no common ancestor *)
Theorem mrca_is_most_recent_common_ancestor :
  forall par fuel (depth : nat -> nat),
    (forall u v, par u = Some v -> (depth v < depth u)%nat) ->
    (forall u, (depth u < fuel)%nat) ->
    forall a b,
      (forall m, mrca par fuel a b = Some m ->
         aos par m a /\ aos par m b /\ forall c, aos par c a -> aos par c b -> aos par c m) /\
      (mrca par fuel a b = None -> forall c, ~ (aos par c a /\ aos par c b)).
Proof. exact mrca_correct. Qed.

(* (d) reducing the reduced forest again (same samples, same options: keep_unary,
   keep_unary_in_individuals, keep_input_roots in any combination) changes nothing *)
Theorem reduce_idempotent :
  forall par nodes smp unary_ok keep_roots fuel (depth : nat -> nat),
    (forall u v, par u = Some v -> (depth v < depth u)%nat) ->
    (forall u, (depth u < fuel)%nat) ->
    (forall u v, par u = Some v -> In u nodes) ->
    NoDup nodes ->
    forall u,
      kept (rpar par nodes smp unary_ok keep_roots fuel) nodes smp unary_ok keep_roots fuel u
      = kept par nodes smp unary_ok keep_roots fuel u /\
      rpar (rpar par nodes smp unary_ok keep_roots fuel) nodes smp unary_ok keep_roots fuel u
      = rpar par nodes smp unary_ok keep_roots fuel u.
Proof. exact reduce_idempotent_lemma. Qed.

(* (e) every chosen sample has the same allele after the mutation remapping (alleles of
   any type A; decoding = last mutation in table order on the path to the root) *)
Theorem reduce_genotypes_preserved :
  forall par nodes smp unary_ok keep_roots fuel (depth : nat -> nat),
    (forall u v, par u = Some v -> (depth v < depth u)%nat) ->
    (forall u, (depth u < fuel)%nat) ->
    (forall u v, par u = Some v -> In u nodes) ->
    NoDup nodes ->
    forall (A : Type) (anc0 : A) (muts : list (nat * A)) s,
      In s smp ->
      allele (rpar par nodes smp unary_ok keep_roots fuel) fuel anc0
             (remap_muts par nodes smp unary_ok keep_roots fuel muts) s
      = allele par fuel anc0 muts s.
Proof. exact reduce_genotypes_preserved_lemma. Qed.

(* a remapped mutation sits on a retained node at or below its original node *)
Theorem mutation_target_below :
  forall par nodes smp unary_ok keep_roots fuel (depth : nat -> nat),
    (forall u v, par u = Some v -> (depth v < depth u)%nat) ->
    (forall u, (depth u < fuel)%nat) ->
    (forall u v, par u = Some v -> In u nodes) ->
    NoDup nodes ->
    forall u v, mut_target par nodes smp unary_ok keep_roots fuel u = Some v ->
      kept par nodes smp unary_ok keep_roots fuel v = true /\ aos par u v.
Proof. exact mut_target_below. Qed.

(* samples[k] becomes node k when nodes are filtered; identity map when they are not *)
Theorem spec_sample_ids :
  forall t smp o k s,
    o_fn o = true -> NoDup smp -> nth_error smp k = Some s -> (s < length (t_nodes t))%nat ->
    nth s (r_node_map (simplify_spec t smp o)) (-1)%Z = Z.of_nat k.
Proof. exact spec_sample_ids_lemma. Qed.

Theorem spec_no_filter_identity :
  forall t smp o u,
    o_fn o = false -> (u < length (t_nodes t))%nat ->
    nth u (r_node_map (simplify_spec t smp o)) (-1)%Z = Z.of_nat u.
Proof. exact spec_no_filter_identity_lemma. Qed.

(* (f) F12: with reduce_to_site_topology and filter_sites both on, simplify is NOT
   idempotent (witness evaluated by vm_compute; replayed on the C code by the harness) *)
Theorem simplify_idempotent_reduce_filter_refuted :
  exists t smp o,
    o_rts o = true /\ o_fs o = true /\ o_kir o = false /\
    r_edges (simplify_spec t smp o) <> [] /\
    r_edges (snd (second_pass t smp o)) = [] /\
    spec_idempotent_on t smp o = false.
Proof. exact simplify_idempotent_reduce_filter_refuted_lemma. Qed.



(* About the model of the C ALGORITHM (C04/SimplifyAlg.v), the one proved component: the
   segment overlapper (segment_overlapper_start/_next).  For well-formed queued segments
   the emitted pieces are non-empty intervals, each carrying exactly the queued segments
   that cover it, increasing and disjoint, and every covered point lies in a piece (hence
   the fuel of the model loop always suffices). *)
Theorem overlapper_partition :
  forall (t : tables) (Q : list seg),
    (forall s, In s Q -> (seg_l s < seg_r s)%Z /\ (seg_r s <= t_L t)%Z) ->
    let P := overlaps t Q in
    (forall l r Y, In (l, r, Y) P ->
       (l < r)%Z /\ Y <> [] /\
       (forall s, In s Y -> In s Q /\ (seg_l s <= l)%Z /\ (r <= seg_r s)%Z) /\
       (forall s, In s Q -> (seg_l s <= l < seg_r s)%Z -> In s Y)) /\
    (exists r0, ordered r0 P) /\
    (forall s x, In s Q -> (seg_l s <= x < seg_r s)%Z ->
       exists l r Y, In (l, r, Y) P /\ (l <= x < r)%Z /\ In s Y).
Proof. exact overlapper_partition_lemma. Qed.

(* simplifier_extract_ancestry (model): the queued segments are exactly the parts of the
   child's ancestry inside [lft, rgt), the segments left behind exactly the parts outside;
   output nodes unchanged, all segments non-empty *)
Theorem extract_ancestry_splits :
  forall (a : list seg) (lft rgt : Z),
    (lft < rgt)%Z -> (forall s, In s a -> (seg_l s < seg_r s)%Z) ->
    let '(q, rem) := extract_ancestry a lft rgt in
    (forall s, In s q -> (seg_l s < seg_r s)%Z /\ (lft <= seg_l s)%Z /\ (seg_r s <= rgt)%Z) /\
    (forall s, In s rem -> (seg_l s < seg_r s)%Z) /\
    (forall x n, carries q x n <-> carries a x n /\ (lft <= x < rgt)%Z) /\
    (forall x n, carries rem x n <-> carries a x n /\ ~ (lft <= x < rgt)%Z).
Proof. exact extract_ancestry_splits_lemma. Qed.

(* filter_sites is exact in the specification: off = the site table is untouched; on = a
   site survives iff one of its mutations is inherited by a chosen sample (its node has a
   mutation target at the site's position) *)
Theorem spec_sites_unfiltered :
  forall t smp o, o_fs o = false ->
    r_sites (simplify_spec t smp o) = seq 0 (length (t_sites t)).
Proof. exact spec_sites_unfiltered_lemma. Qed.

Theorem spec_sites_filtered :
  forall t smp o s, o_fs o = true ->
    (In s (r_sites (simplify_spec t smp o)) <->
     (s < length (t_sites t))%nat /\
     exists m, In m (t_muts t) /\ fst (fst m) = s /\ spec_target t smp o m <> None).
Proof. exact spec_sites_filtered_lemma. Qed.

(* ---- extension round: further components of the algorithm model ----------------------- *)
(* simplifier_record_edge: whatever the interleaving of children, the intervals buffered
   for child c are the specification's [squash] of c's recorded intervals *)
Theorem buffer_is_squash :
  forall (rs : list record) (c : Z), lookup c (buf_of rs) = squash None (intervals_of c rs).
Proof. exact buffer_is_squash_lemma. Qed.

(* simplifier_flush_edges: the appended edge rows are exactly (squashed interval, parent, child) *)
Theorem flush_edges_squash :
  forall (s : st) (parent : Z) (rs : list record) l r p c,
    In (l, r, p, c) (flushed s parent (buf_of rs)) <->
    p = parent /\ In (l, r) (squash None (intervals_of c rs)).
Proof. exact flush_edges_squash_lemma. Qed.

(* simplifier_add_ancestry: squashing with the tail segment loses and invents nothing *)
Theorem add_ancestry_carries :
  forall (a : list seg) (l r out x n : Z),
    (l < r)%Z -> (forall sg, In sg a -> (seg_l sg < seg_r sg)%Z) ->
    (carries (snoc_seg a l r out) x n <-> carries a x n \/ (n = out /\ (l <= x < r)%Z)).
Proof. exact snoc_seg_carries_lemma. Qed.

Theorem add_ancestry_is_snoc :
  forall (t : tables) (s : st) (u : nat) (l r out : Z),
    (u < length (s_anc s))%nat ->
    nth u (s_anc (add_ancestry t s u l r out)) [] = snoc_seg (nth u (s_anc s) []) l r out.
Proof. exact add_ancestry_is_snoc_seg. Qed.

(* simplifier_rewind_node undoes simplifier_record_node *)
Theorem rewind_undoes_record :
  forall (s : st) (u : nat),
    nth u (s_map s) (-1)%Z = (-1)%Z -> (u < length (s_map s))%nat ->
    rewind_node (fst (record_node s u)) u (snd (record_node s u)) = s.
Proof. exact rewind_undoes_record_lemma. Qed.

(* simplifier_merge_ancestors, default options (no unary retention, no
   reduce_to_site_topology), non-sample parent u, queue Q: with P the overlapper's pieces
   (each carrying exactly the covering segments, overlapper_partition) --
   the parent's ancestry becomes [step_anc]: pass-through of the single segment's node on
   pieces with one segment, the parent's output node on the others; and the appended edge
   rows are, per child, the squashed intervals of the pieces with more than one segment. *)
Theorem merge_ancestors_default :
  forall (t : tables) (smp : list nat) (o : opts) (s : st) (u : nat) (Q : list seg),
    o_rts o = false -> o_ku o = false -> o_kui o = false -> is_sample smp u = false ->
    (u < length (s_anc s))%nat ->
    let P := overlaps t Q in
    let oid' := step_oid (nth u (s_map s) (-1)%Z) (Z.of_nat (length (s_nodes s))) P in
    let s' := merge_ancestors t smp o s u Q in
    nth u (s_anc s') [] = step_anc (nth u (s_anc s) []) oid' P /\
    (forall l r p c,
       In (l, r, p, c) (skipn (length (s_edges s)) (s_edges s')) <->
       oid' <> (-1)%Z /\ p = oid' /\ In (l, r) (squash None (intervals_of c (step_records P)))).
Proof. exact merge_ancestors_default_lemma. Qed.

(* ... and what [step_anc] means position by position *)
Theorem step_anc_carries :
  forall oid (P : list pieceT) (a0 : list seg),
    (forall p, In p P -> (p_l p < p_r p)%Z) ->
    (forall sg, In sg a0 -> (seg_l sg < seg_r sg)%Z) ->
    forall x n,
      carries (step_anc a0 oid P) x n <->
      carries a0 x n \/
      exists p, In p P /\ (p_l p <= x < p_r p)%Z /\ n = (if coal p then oid else pass_node p).
Proof. exact step_anc_carries_lemma. Qed.

(* ---- extension round 3: the parent step of the algorithm model against the SPEC ----------- *)
(* the specification's mut_target obeys the recursion that the algorithm computes *)
Theorem mut_target_recursion :
  forall par nodes smp unary_ok keep_roots fuel (depth : nat -> nat),
    (forall u v, par u = Some v -> (depth v < depth u)%nat) ->
    (forall u, (depth u < fuel)%nat) ->
    (forall u v, par u = Some v -> In u nodes) ->
    NoDup nodes ->
    (forall u, kept par nodes smp unary_ok keep_roots fuel u = true ->
       mut_target par nodes smp unary_ok keep_roots fuel u = Some u) /\
    (forall u c, kept par nodes smp unary_ok keep_roots fuel u = false -> par c = Some u ->
       hsb par smp fuel c = true ->
       mut_target par nodes smp unary_ok keep_roots fuel u = mut_target par nodes smp unary_ok keep_roots fuel c) /\
    (forall u, hsb par smp fuel u = false -> mut_target par nodes smp unary_ok keep_roots fuel u = None).
Proof.
  exact (fun par nodes smp unary_ok keep_roots fuel depth Hd Hf Hc Hn =>
    conj (mut_target_kept par nodes smp unary_ok keep_roots fuel depth Hd Hf)
         (conj (mut_target_pass par nodes smp unary_ok keep_roots fuel depth Hd Hf Hc Hn)
               (mut_target_none par nodes smp unary_ok keep_roots fuel))).
Qed.

(* the reduced forest is the target relation seen from a kept parent *)
Theorem rpar_iff_target :
  forall par nodes smp unary_ok keep_roots fuel (depth : nat -> nat),
    (forall u v, par u = Some v -> (depth v < depth u)%nat) ->
    (forall u, (depth u < fuel)%nat) ->
    (forall u v, par u = Some v -> In u nodes) ->
    NoDup nodes ->
    forall p v, kept par nodes smp unary_ok keep_roots fuel p = true ->
      (rpar par nodes smp unary_ok keep_roots fuel v = Some p <->
       exists c, par c = Some p /\ mut_target par nodes smp unary_ok keep_roots fuel c = Some v).
Proof. exact rpar_iff_target_lemma. Qed.

(* list-level exactness of the overlapper: num_overlapping = number of queued segments
   covering the piece *)
Theorem overlapper_exact :
  forall (t : tables) (Q : list seg),
    (forall s, In s Q -> (seg_l s < seg_r s)%Z /\ (seg_r s <= t_L t)%Z) ->
    forall l r Y, In (l, r, Y) (overlaps t Q) ->
      Y = filter (covers_b l) (sort_segs Q) /\ length Y = length (filter (covers_b l) Q).
Proof. exact overlapper_exact_lemma. Qed.

(* ONE PARENT STEP REFINES THE SPEC (default options, non-sample parent p not yet processed).
   Hypotheses Q1/Q2 say what the queue must be (the loop invariant over the parents processed in
   time order, NOT proved: simplify_alg_refines_spec_partial); conclusion: after
   merge_ancestors the ancestry of p is the spec's mut_target of p at every position, the
   appended edges are exactly the spec's reduced forest below p at every position, and p has
   an output id iff it had one or is kept somewhere. *)
Theorem merge_step_refines_spec :
  forall (t : tables) (smp : list nat) (o : opts),
    o_ku o = false -> o_kui o = false ->
    forall p : nat, mem p smp = false ->
    forall (Q : list seg) (m : nat -> Z) (fresh : Z), fresh <> (-1)%Z ->
    forall depth : nat -> nat,
    (forall x u v, Px t x u = Some v -> (depth v < depth u)%nat) ->
    (forall u, (depth u < fuel_of t)%nat) ->
    (forall x u v, Px t x u = Some v -> In u (node_ids t)) ->
    NoDup (node_ids t) ->
    (forall sg, In sg Q -> (seg_l sg < seg_r sg)%Z /\ (seg_r sg <= t_L t)%Z) ->
    (forall x n,
       (exists sg, In sg Q /\ covers_b x sg = true /\ seg_n sg = n) <->
       (exists c v, Px t x c = Some p /\ Ax t smp o x c = Some v /\ n = m v)) ->
    (forall x, (2 <= cntQ Q x)%nat <-> Kx t smp o x p = true) ->
    forall s : st,
    o_rts o = false -> (p < length (s_anc s))%nat -> nth p (s_anc s) [] = [] ->
    m p = nth p (s_map s) (-1)%Z -> fresh = Z.of_nat (length (s_nodes s)) ->
    let s' := merge_ancestors t smp o s p Q in
    (forall x n, carries (nth p (s_anc s') []) x n <->
                 exists v, Ax t smp o x p = Some v /\ n = m' t p Q m fresh v) /\
    (forall x po co,
       (exists l r, In (l, r, po, co) (skipn (length (s_edges s)) (s_edges s')) /\ (l <= x < r)%Z) <->
       po = oid' t p Q m fresh /\ exists v, Rx t smp o x v = Some p /\ co = m v) /\
    (oid' t p Q m fresh <> (-1)%Z <-> m p <> (-1)%Z \/ exists x, Kx t smp o x p = true).
Proof. exact merge_step_refines_spec_lemma. Qed.
