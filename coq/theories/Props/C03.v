(* Property C03 — statements only.  Each theorem is closed by [exact] of a lemma proved in
   the C03/ files; Print Assumptions is evaluated by ./check on every run.

   Vocabulary (C03/Model.v, C03/Spec.v):
     decode fuel t v s        model of tsk_variant_decode (c/tskit/genotypes.c) on the tree arrays
                              t at the site's position, for the variant configuration v and the
                              site s = (ancestral state, mutations in table order)
     par                      the abstract forest at the site (parent of each node)
     tree_rep par fuel t v N  the arrays represent the forest: child chains = children, root chain
                              = parentless requested samples, sample lists = samples below a node,
                              sample_index_map = inverse of the requested nodes  (C01/C06 provide
                              it; the correspondence check evaluates it on the real arrays)
     order_ok par muts        no mutation sits on a proper ancestor of the node of an earlier one
     nearest par muts u r     THE RULE: r is the derived state of the nearest mutation on the path
                              from u towards its root (latest in table order on the same node),
                              None when there is no mutation on the path
   Non-vacuity examples for every theorem: C03/Examples.v. *)
From Coq Require Import List ZArith Bool.
From TskVerif Require Import Base.Common C03.Model C03.Spec C03.AlleleProofs C03.PaintProofs
     C03.DecodeProofs C03.HistoryProofs C03.RuleProofs C03.TotalProofs C03.DfsTotalProofs C03.PyViews C03.ViewsProofs
     C03.MutParents C03.ParentProofs C03.InitProofs C03.SeekProofs C03.SampleListProofs
     C03.HapMatrixProofs C03.NodeInvariantProofs.
Import ListNotations.
Open Scope Z_scope.

(* (a) Every decoded genotype that is not MISSING is the first index, in the returned allele
   list, of the state the rule prescribes for that node (ancestral state when no mutation is
   on the path).  Examples: ex_paint_nearest, ex_decode1..3. *)
Theorem paint_nearest : forall par fuel t v N s,
  tree_rep par fuel t v N -> muts_in_range N s -> order_ok par (s_mutations s) ->
  forall g al hm, decode fuel t v s = Ok (g, al, hm) ->
  forall k u r, get (v_samples v) k = Ok u -> nearest par (s_mutations s) u r ->
  exists gk, get g k = Ok gk /\
    (gk = MISSING \/
     (gk = allele_index al (state_of (s_ancestral s) r) /\
      get al gk = Ok (state_of (s_ancestral s) r))).
Proof. exact paint_nearest_l. Qed.

(* the rule is a total function on forests of bounded height *)
Theorem rule_total : forall par muts h u, depth_le par h u -> exists r, nearest par muts u r.
Proof. exact rule_total_l. Qed.

Theorem rule_functional : forall par muts u r1 r2,
  nearest par muts u r1 -> nearest par muts u r2 -> r1 = r2.
Proof. exact nearest_functional. Qed.

(* (b) A genotype is MISSING exactly when isolated_as_missing is on and the node is isolated
   (no parent, no children) with no mutation on itself; has_missing_data is set exactly when
   some genotype is MISSING.  Examples: ex_missing_exact, ex_decode1 / ex_decode2. *)
Theorem missing_exact : forall par fuel t v N s,
  tree_rep par fuel t v N -> muts_in_range N s -> order_ok par (s_mutations s) ->
  forall g al hm, decode fuel t v s = Ok (g, al, hm) ->
  forall k u r, get (v_samples v) k = Ok u -> nearest par (s_mutations s) u r ->
  (get g k = Ok MISSING <->
   v_impute v = false /\ isolated par u /\ has_mut_on (s_mutations s) u = false).
Proof. exact missing_exact_l. Qed.

Theorem has_missing_data_exact : forall par fuel t v N s,
  tree_rep par fuel t v N -> muts_in_range N s ->
  forall g al hm, decode fuel t v s = Ok (g, al, hm) ->
  length g = length (v_samples v) /\ (hm = true <-> exists k, get g k = Ok MISSING).
Proof. exact has_missing_data_exact_l. Qed.

(* (a)+(b) in one statement: on a forest of bounded height every requested node gets MISSING
   exactly under the missing-data condition and otherwise the first index of the rule's state. *)
Theorem decode_follows_rule : forall par fuel t v N h s,
  tree_rep par fuel t v N -> muts_in_range N s -> order_ok par (s_mutations s) ->
  (forall u, depth_le par h u) ->
  forall g al hm, decode fuel t v s = Ok (g, al, hm) ->
  forall k u, get (v_samples v) k = Ok u ->
  exists r, nearest par (s_mutations s) u r /\
    let missing := v_impute v = false /\ isolated par u /\ has_mut_on (s_mutations s) u = false in
    (missing /\ get g k = Ok MISSING) \/
    (~ missing /\ get g k = Ok (allele_index al (state_of (s_ancestral s) r)) /\
     get al (allele_index al (state_of (s_ancestral s) r)) = Ok (state_of (s_ancestral s) r)).
Proof. exact decode_follows_rule_l. Qed.

(* (c) Without a user allele list the returned alleles are the ancestral state followed by the
   derived states in order of first occurrence: alleles[0] is the ancestral state, no
   duplicates.  No hypothesis about the tree is needed. *)
Theorem alleles_first_is_ancestral : forall fuel t v st s g al hm,
  v_user_alleles v = None ->
  decode_st fuel t v st s = Ok (g, al, hm) ->
  al = alleles_of (s_ancestral s) (map snd (s_mutations s)) /\
  (exists rest, al = s_ancestral s :: rest) /\
  NoDup al /\
  (forall a, In a al <-> a = s_ancestral s \/ In a (map snd (s_mutations s))).
Proof. exact alleles_first_is_ancestral_l. Qed.

(* (c') With a user allele list: an absent ancestral state is TSK_ERR_ALLELE_NOT_FOUND; a
   successful decode returns the list unchanged and every state of the site (also of mutations
   inherited by nobody) is in it; by (a) genotypes are first-occurrence indexes into it.
   Examples: ex_decode3, ex_user_absent, ex_user_absent_derived. *)
Theorem user_alleles_index : forall fuel t v st s ua,
  v_user_alleles v = Some ua ->
  (~ In (s_ancestral s) ua -> decode_st fuel t v st s = Err ERR_ALLELE_NOT_FOUND) /\
  (forall g al hm, decode_st fuel t v st s = Ok (g, al, hm) ->
     al = ua /\ In (s_ancestral s) ua /\ forall d, In d (map snd (s_mutations s)) -> In d ua).
Proof. exact user_alleles_l. Qed.

(* (d)+(e) On a forest of bounded height the decode result is a function of the abstract
   forest, the site, the requested nodes and the options only: any two array representations
   (any child order, any threading of the sample lists — whatever seek history produced them)
   and either update path give the same result.  Example: ex_determined. *)
Theorem decode_determined : forall par N h, (forall u, depth_le par h u) ->
  forall s fuel1 t1 v1 fuel2 t2 v2 r1 r2,
  v_samples v1 = v_samples v2 -> v_impute v1 = v_impute v2 ->
  v_user_alleles v1 = v_user_alleles v2 ->
  tree_rep par fuel1 t1 v1 N -> tree_rep par fuel2 t2 v2 N -> muts_in_range N s ->
  decode fuel1 t1 v1 s = Ok r1 -> decode fuel2 t2 v2 s = Ok r2 -> r1 = r2.
Proof. exact decode_determined_l. Qed.

(* (d) in particular: the sample-list path and the traversal path agree.  Example: ex_two_paths. *)
Theorem traversal_equals_sample_list : forall par N h, (forall u, depth_le par h u) ->
  forall s fuel t v1 v2 r1 r2,
  v_by_traversal v1 = false -> v_by_traversal v2 = true ->
  v_samples v1 = v_samples v2 -> v_impute v1 = v_impute v2 ->
  v_user_alleles v1 = v_user_alleles v2 ->
  tree_rep par fuel t v1 N -> tree_rep par fuel t v2 N -> muts_in_range N s ->
  decode fuel t v1 s = Ok r1 -> decode fuel t v2 s = Ok r2 -> r1 = r2.
Proof. exact traversal_equals_sample_list_l. Qed.

(* (e) decode is history independent: the state left in the variant object by any earlier
   sequence of (successful or failed) decodes does not influence the next one. *)
Theorem decode_history_independent : forall fuel t v st s,
  length (st_genotypes st) = length (v_samples v) ->
  decode_st fuel t v st s = decode fuel t v s.
Proof. exact decode_st_history_independent. Qed.

(* The "decode = Ok" premises above are not vacuous: on a forest of bounded height whose
   arrays satisfy tree_rep the model never indexes outside an array, never overflows the
   N-entry traversal stack and never runs out of fuel (fuel >= N); the only error is
   TSK_ERR_ALLELE_NOT_FOUND, and only with a user allele list.  Example: ex_total. *)
Theorem decode_total : forall par fuel t v N h s,
  tree_rep par fuel t v N -> (forall u, depth_le par h u) ->
  v_num_nodes v = N -> N <= Z.of_nat fuel -> muts_in_range N s ->
  (exists r, decode fuel t v s = Ok r) \/
  (decode fuel t v s = Err ERR_ALLELE_NOT_FOUND /\ exists ua, v_user_alleles v = Some ua).
Proof. exact decode_total_l. Qed.

(* (B) Python assembly (python/tskit/trees.py), list-level model C03/PyViews.v. *)

(* variants(left=, right=) / haplotypes / alignments select exactly the sites with
   left <= position < right (positions sorted, as tskit requires) *)
Theorem sites_in_interval : forall positions left right,
  Sorted.StronglySorted Z.le positions ->
  forall j a, get positions j = Ok a ->
  (In j (PyViews.sites_in positions left right) <-> left <= a < right).
Proof. exact sites_in_interval_l. Qed.

(* the column _haplotypes_array writes for a site: the missing-data character exactly at the
   MISSING genotypes (read through alleles[-1], correct because has_missing_data is exact),
   otherwise the single character of the decoded allele *)
Theorem hap_column_correct : forall mdc g al hm col,
  (hm = true <-> exists k, get g k = Ok MISSING) ->
  PyViews.hap_column mdc (g, al, hm) = Ok col ->
  length col = length g /\
  forall k gk, get g k = Ok gk ->
    (gk = MISSING -> get col k = Ok mdc) /\
    (forall a, gk <> MISSING -> get al gk = Ok a ->
       exists c, a = [c] /\ c <> mdc /\ get col k = Ok c).
Proof. exact hap_column_correct_l. Qed.

(* alignments(): row i is the reference sequence overwritten at the (distinct) site positions
   with haplotype row i, although the output buffer is shared between the rows *)
Theorem alignment_rows : forall left pos, NoDup pos -> forall rows a out,
  PyViews.alignments_loop a left pos rows = Ok out ->
  forall i h, get rows i = Ok h ->
  exists row, get out i = Ok row /\ PyViews.overwrite a left pos h = Ok row.
Proof. exact alignment_rows_l. Qed.

(* Variant.counts() (repaired by /repo commit 8615230): every allele of the returned list,
   duplicated in a user allele list or not, is mapped to the number of requested nodes whose
   genotype reads as that allele.  Unconditional in the genotypes and the allele list. *)
Theorem counts_correct : forall g al hm a,
  In a al ->
  PyViews.dict_get (PyViews.counts_model (g, al, hm)) (Some a)
  = Some (PyViews.carriers (g, al, hm) a).
Proof. exact counts_correct_l. Qed.

(* Historical record about the *pinned* code only (assignment instead of +=, model
   counts_model_pinned, not used by the correspondence any more): with a duplicated user allele
   it reported 0 carriers for an allele one sample carries; the current model reports 1. *)
Theorem counts_duplicate_pinned_refuted :
  exists (r : decode_result) (a : allele),
    PyViews.carriers r a = 1 /\
    PyViews.dict_get (PyViews.counts_model_pinned r) (Some a) = Some 0 /\
    PyViews.dict_get (PyViews.counts_model r) (Some a) = Some 1.
Proof. exact counts_duplicate_pinned_refuted_w. Qed.

(* The order hypothesis in its mutation.parent-column form.  [mut_parent] is the model of the
   per-site part of tsk_table_collection_compute_mutation_parents (previous mutation on the same
   node, else the LAST mutation on the nearest mutated strict ancestor).  If every computed
   parent precedes its child — the condition whose violation is
   TSK_ERR_MUTATION_PARENT_AFTER_CHILD — the mutation list satisfies [order_ok], the hypothesis
   of paint_nearest / missing_exact / decode_follows_rule.  ([parents_ok_b], evaluated on every
   correspondence case against the column the library computes, is sound for the premise:
   ParentProofs.parents_ok_b_sound.)  Examples: ex_parents, ex_parents_violation. *)
Theorem parents_imply_order_ok : forall par fuel (muts : list (Z * allele)),
  parents_precede par fuel (map fst muts) -> order_ok par muts.
Proof. exact parents_imply_order_ok_l. Qed.

(* Variant.states(): the missing-data string exactly at MISSING genotypes, else the decoded
   allele (same alleles[-1] mechanism as the haplotypes) *)
Theorem states_correct : forall mds g al hm st,
  (hm = true <-> exists k, get g k = Ok MISSING) ->
  PyViews.states_model mds (g, al, hm) = Ok st ->
  length st = length g /\
  forall k gk, get g k = Ok gk ->
    (gk = MISSING -> get st k = Ok mds) /\
    (forall a, gk <> MISSING -> get al gk = Ok a -> get st k = Ok a).
Proof. exact states_correct_l. Qed.

(* Variant.num_missing is positive iff some genotype is MISSING; num_alleles counts the alleles
   without the None marker *)
Theorem num_missing_pos : forall g al hm,
  0 < PyViews.num_missing_model (g, al, hm) <-> exists k, get g k = Ok MISSING.
Proof. exact num_missing_pos_l. Qed.

Theorem num_alleles_is_length : forall g al hm, PyViews.num_alleles_model (g, al, hm) = zlen al.
Proof. exact num_alleles_l. Qed.

(* genotype_matrix: row i is the genotypes of the decode of site i (so all the theorems about
   decode apply to every row) *)
Theorem genotype_matrix_rows : forall fuel v sites m,
  PyViews.genotype_matrix_model fuel v sites = Ok m ->
  length m = length sites /\
  forall i t s, get sites i = Ok (t, s) ->
    exists row al hm, get m i = Ok row /\ decode fuel t v s = Ok (row, al, hm).
Proof. exact genotype_matrix_rows_l. Qed.

(* alignments(), complete model (discrete genome, interval and integer checks, reference
   selection, isolated samples, Variant init, haplotype errors, shared-buffer assembly): a
   successful call returns, for every requested node, the selected reference (argument, else
   the embedded slice data[left:right], else missing-data characters) overwritten at the site
   positions with that node's haplotype row; every failed precondition is an error. *)
Theorem alignments_full_spec : forall a out,
  PyViews.alignments_full a = Ok out -> NoDup (PyViews.ai_pos a) ->
  PyViews.ai_discrete a = true /\ PyViews.ai_isolated a = false /\
  (exists iv, PyViews.check_range (PyViews.ai_L2 a) (PyViews.ai_left2 a) (PyViews.ai_right2 a) = Ok iv) /\
  Z.even (PyViews.ai_left2 a) = true /\ Z.even (PyViews.ai_right2 a) = true /\
  zlen (selected_reference a) = PyViews.ai_right2 a / 2 - PyViews.ai_left2 a / 2 /\
  exists rows, PyViews.haplotypes_model (PyViews.ai_mdc a) (PyViews.ai_nsamples a) (PyViews.ai_results a) = Ok rows /\
    forall i h, get rows i = Ok h ->
      exists row, get out i = Ok row /\
                  PyViews.overwrite (selected_reference a) (PyViews.ai_left2 a / 2) (PyViews.ai_pos a) h = Ok row.
Proof. exact alignments_full_spec_l. Qed.

(* tsk_variant_init with an explicit samples list: a successful init yields the traversal
   configuration whose sample_index_map is the inverse of the requested nodes (the
   [index_map_rep] component of tree_rep is established by the code, not assumed), and with
   isolated_as_missing on every requested node is a sample.  Examples: ex_init2, ex_init_err. *)
Theorem variant_init_index_map : forall flags ts_samples ts_map ss alleles impute v,
  variant_init flags ts_samples ts_map (Some ss) alleles impute = Ok v ->
  v_samples v = ss /\ v_by_traversal v = true /\ v_impute v = impute /\ v_num_nodes v = zlen flags /\
  index_map_rep (zlen flags) ss (v_index_map v) /\
  (impute = false -> forall u, In u ss -> exists fl, get flags u = Ok fl /\ Z.odd fl = true).
Proof. exact variant_init_index_map_l. Qed.

(* ---- final round ---------------------------------------------------------------------------- *)

(* The seek inside tsk_variant_decode.  [seek cur x] is tsk_tree_seek from ANY current tree
   state, with C06's contract as hypothesis (the result represents the forest par_at x);
   [run o hist] is the variant object after an arbitrary history of decode calls (successful or
   failed, any order), [on_error] whatever a failed decode leaves in the genotypes array.
   After any history, decode(site at position x) returns the rule evaluated on the tree of THAT
   site: MISSING exactly under the missing-data condition at x, else the first index of the
   state of the nearest mutation in par_at x. *)
Theorem decode_after_history_follows_rule :
  forall (seek : tree -> Z -> tree) (par_at : Z -> Z -> option Z) (on_error : vstate -> vstate)
         fuel v N h,
  (forall cur x, tree_rep (par_at x) fuel (seek cur x) v N) ->
  (forall x u, depth_le (par_at x) h u) ->
  (forall st, length (st_genotypes (on_error st)) = length (st_genotypes st)) ->
  forall hist o0 x s,
  wf_obj v o0 -> Forall (fun p => muts_in_range N (snd p)) hist ->
  muts_in_range N s -> order_ok (par_at x) (s_mutations s) ->
  forall g al hm, snd (decode_obj seek on_error fuel v (run seek on_error fuel v o0 hist) (x, s)) = Ok (g, al, hm) ->
  forall k u, get (v_samples v) k = Ok u ->
  exists r, nearest (par_at x) (s_mutations s) u r /\
    let missing := v_impute v = false /\ isolated (par_at x) u /\ has_mut_on (s_mutations s) u = false in
    (missing /\ get g k = Ok MISSING) \/
    (~ missing /\ get g k = Ok (allele_index al (state_of (s_ancestral s) r)) /\
     get al (allele_index al (state_of (s_ancestral s) r)) = Ok (state_of (s_ancestral s) r)).
Proof. exact decode_after_history_follows_rule_l. Qed.

(* ... and two arbitrary histories (different tree positions, different leftover state) give the
   same result for the same site: decode is independent of the tree position as well as of the
   variant state. *)
Theorem decode_history_and_position_independent :
  forall (seek : tree -> Z -> tree) (par_at : Z -> Z -> option Z) (on_error : vstate -> vstate)
         fuel v N h,
  (forall cur x, tree_rep (par_at x) fuel (seek cur x) v N) ->
  (forall x u, depth_le (par_at x) h u) ->
  (forall st, length (st_genotypes (on_error st)) = length (st_genotypes st)) ->
  forall hist1 o1 hist2 o2 x s r1 r2,
  wf_obj v o1 -> wf_obj v o2 ->
  Forall (fun p => muts_in_range N (snd p)) hist1 -> Forall (fun p => muts_in_range N (snd p)) hist2 ->
  muts_in_range N s ->
  snd (decode_obj seek on_error fuel v (run seek on_error fuel v o1 hist1) (x, s)) = Ok r1 ->
  snd (decode_obj seek on_error fuel v (run seek on_error fuel v o2 hist2) (x, s)) = Ok r2 -> r1 = r2.
Proof. exact decode_history_and_position_independent_l. Qed.

(* The sample-list component of tree_rep from the LOCAL linked-array invariant that
   tsk_tree_update_sample_lists maintains (list of a node = its own sample index + the lists of
   its children), the child chains, the index map and a rank growing towards the roots (node
   time).  [sample_lists_local_b] (sound) is evaluated on the real arrays per case. *)
Theorem sample_lists_from_local : forall par fuel t N samples map (rank : Z -> nat),
  par_dom par N -> kids_rep par fuel t N -> index_map_rep N samples map ->
  (forall c p, par c = Some p -> (rank c < rank p)%nat) ->
  sample_lists_local fuel t N map ->
  sample_lists_rep par fuel t N samples.
Proof. exact sample_lists_from_local_l. Qed.

(* Error classes of haplotypes()/alignments(): the per-site column fails only with TypeError (an
   allele that is not a single character) or ValueError (an allele equal to the missing-data
   character), decided by the first offending entry of var.alleles. *)
Theorem hap_column_error_class : forall mdc g al hm c,
  PyViews.hap_column mdc (g, al, hm) = Err c ->
  exists pre a post codes, PyViews.py_alleles (g, al, hm) = pre ++ a :: post /\
    PyViews.mapM (PyViews.allele_code mdc) pre = Ok codes /\
    ((c = PyViews.PY_TYPE_ERROR /\ exists s, a = Some s /\ length s <> 1%nat) \/
     (c = PyViews.PY_VALUE_ERROR /\ a = Some [mdc])).
Proof. exact hap_column_error_class_l. Qed.

(* Variant.frequencies() over Q: every allele of the list is mapped to carriers / number of
   requested nodes *)
Theorem frequencies_correct : forall g al hm a,
  In a al -> 0 < zlen g ->
  PyViews.fget (PyViews.frequencies_model false (g, al, hm)) (Some a)
  = Some (Some (QArith_base.Qmake (PyViews.carriers (g, al, hm) a) (Z.to_pos (zlen g)))).
Proof. exact frequencies_correct_l. Qed.

(* Variant.copy(): the copy shows what the variant showed, and refuses to decode *)
Theorem copy_spec : forall v g al hm s,
  let c := PyViews.restricted_copy v (g, al, hm) in
  PyViews.c_samples c = v_samples v /\ PyViews.c_genotypes c = g /\ PyViews.c_alleles c = al /\
  PyViews.c_has_missing c = hm /\
  PyViews.decode_copy c s = Err PyViews.ERR_VARIANT_CANT_DECODE_COPY.
Proof. exact copy_spec_l. Qed.

(* ---- proof-only round ------------------------------------------------------------------------ *)

(* haplotypes() is the transpose of the per-site decode columns: for ANY requested node list,
   entry j of the string of requested node k is entry k of the column of the j-th site. *)
Theorem haplotypes_entry : forall mdc n rs rows,
  PyViews.haplotypes_model mdc n rs = Ok rows ->
  length rows = Z.to_nat n /\
  forall k j r, 0 <= k < n -> get rs j = Ok r ->
    exists row col c, get rows k = Ok row /\ PyViews.hap_column mdc r = Ok col /\
                      get row j = Ok c /\ get col k = Ok c /\ length row = length rs.
Proof. exact haplotypes_entry_l. Qed.

(* hence (with has_missing_data exact for every site) the haplotype of requested node k reads, at
   site j, the missing-data character iff genotype_matrix[j][k] is MISSING and otherwise the
   single character of the allele that genotype indexes *)
Theorem haplotypes_follow_genotypes : forall mdc n rs rows,
  PyViews.haplotypes_model mdc n rs = Ok rows ->
  forall k j g al hm gk, 0 <= k < n -> get rs j = Ok (g, al, hm) ->
    (hm = true <-> exists i, get g i = Ok MISSING) ->
    get g k = Ok gk ->
    exists row, get rows k = Ok row /\
      (gk = MISSING -> get row j = Ok mdc) /\
      (forall a, gk <> MISSING -> get al gk = Ok a -> exists c, a = [c] /\ c <> mdc /\ get row j = Ok c).
Proof. exact haplotypes_follow_genotypes_l. Qed.

(* The genotype of a requested node is independent of which other nodes are requested and in
   which order (and of update path / array representation): two variants over the same forest,
   site and options that both request node u decode the same genotype for u and the same
   alleles.  (No order hypothesis on the mutations is needed.) *)
Theorem decode_node_invariant : forall par N h, (forall u, depth_le par h u) ->
  forall s fuel1 t1 v1 fuel2 t2 v2 g1 al1 hm1 g2 al2 hm2,
  v_impute v1 = v_impute v2 -> v_user_alleles v1 = v_user_alleles v2 ->
  tree_rep par fuel1 t1 v1 N -> tree_rep par fuel2 t2 v2 N -> muts_in_range N s ->
  decode fuel1 t1 v1 s = Ok (g1, al1, hm1) -> decode fuel2 t2 v2 s = Ok (g2, al2, hm2) ->
  al1 = al2 /\
  forall k1 k2 u, get (v_samples v1) k1 = Ok u -> get (v_samples v2) k2 = Ok u ->
    get g1 k1 = get g2 k2.
Proof. exact decode_node_invariant_l. Qed.
