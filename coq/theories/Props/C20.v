(* Property C20 — statements only.  Each theorem is closed by [exact] of a lemma proved in
   the C20/ files; Print Assumptions is evaluated by ./check on every run.

   Vocabulary (C20/Model.v, C20/Spec.v):
     tree            rose tree of the marginal tree: node id, observation (NotSample | Missing |
                     Obs g) and children in left_child/right_sib order; [roots] = children of the
                     virtual root
     mm_rose K roots anc   the model of tsk_tree_map_mutations (K = num_alleles, anc = Some a iff
                     TSK_MM_FIXED_ANCESTRAL_STATE): Some (ancestral state, transitions
                     (node, parent index, new state)), None = the C loop does not terminate
     ltree           a labeling: one state per node; [consistent] = same shape and every Obs g
                     node carries g; [changes] = edges with different states;
                     [forest_changes a ls] additionally counts every root whose state is not a
     paint tr t a    nearest-mutation rule
   Non-vacuity examples: C20/Examples.v. *)
From Coq Require Import List ZArith NArith Bool.
From TskVerif Require Import Base.Common Gen.Generated C20.Model C20.Spec C20.HartiganProofs C20.TopProofs
  C20.BoundProofs C20.StackProofs C20.FixProofs C20.ArrayProofs C20.EndToEnd C20.Refuted C20.Examples.
Import ListNotations.

(* (a) Hartigan's invariant for the sets the code computes (polytomies, unary nodes,
   non-sample leaves, missing leaves, internal samples with a known state): every
   consistent labeling of the subtree costs at least m(t), at least m(t)+1 if its root state is
   not in the optimal set, and every state of the optimal set is attained with cost m(t). *)
Theorem hartigan_invariant : forall (K : nat) (t : tree),
  (1 <= K <= 64)%nat -> obs_lt K t = true -> no_internal_missing t = true ->
  (forall l, consistent t l = true ->
     (mcost K t + (if memx K (opt_set K t) (lroot l) then 0 else 1) <= changes l)%nat) /\
  (forall s, (s < N.of_nat K)%N -> N.testbit (opt_set K t) s = true ->
     exists l, consistent t l = true /\ lroot l = s /\ changes l = mcost K t).
Proof. exact hartigan_invariant_lemma. Qed.

(* the model terminates on every valid input *)
Theorem mm_total : forall (K : nat) (roots : list tree) (anc : option N),
  (1 <= K <= 64)%nat -> forallb (obs_lt K) roots = true ->
  exists a tr, mm_rose K roots anc = Some (a, tr).
Proof. exact mm_rose_total. Qed.

(* (b) painting the returned ancestral state and transitions by the nearest-mutation rule
   gives every sample with a non-missing observation its observed state — for EVERY tree
   with distinct node ids, including internal samples with missing data *)
Theorem mm_reproduces : forall (K : nat) (roots : list tree) (anc : option N) (a : N) (tr : list trans),
  nodupb (forest_ids roots) = true ->
  mm_rose K roots anc = Some (a, tr) ->
  consistent_list roots (map (fun r => paint tr r a) roots) = true.
Proof. exact mm_reproduces_lemma. Qed.

(* (c) the number of returned transitions is the minimum of forest_changes over all labelings
   consistent with the data (all ancestral states when none is fixed, the fixed one
   otherwise), PROVIDED no internal sample has a missing genotype (finding F2) *)
Theorem mm_optimal : forall (K : nat) (roots : list tree) (anc : option N) (a : N) (tr : list trans),
  (1 <= K <= 64)%nat -> forallb (obs_lt K) roots = true ->
  forallb no_internal_missing roots = true ->
  match anc with Some x => (x < N.of_nat K)%N | None => True end ->
  mm_rose K roots anc = Some (a, tr) ->
  (forall a' ls, match anc with Some x => a' = x | None => True end ->
      consistent_list roots ls = true -> (length tr <= forest_changes a' ls)%nat) /\
  (exists ls, consistent_list roots ls = true /\ forest_changes a ls = length tr).
Proof. exact mm_optimal_lemma. Qed.

(* (d) F2: without that proviso the faithful model is not optimal ... *)
Theorem mm_optimal_internal_missing_refuted :
  exists (K : nat) (roots : list tree) (a : N) (tr : list trans) (ls : list ltree),
    forallb (obs_lt K) roots = true /\ nodupb (forest_ids roots) = true /\
    mm_rose K roots None = Some (a, tr) /\
    consistent_list roots ls = true /\
    (forest_changes a ls < length tr)%nat.
Proof. exact mm_optimal_internal_missing_refuted_lemma. Qed.

(* ... and does not use the oldest node of a unary chain *)
Theorem mm_oldest_internal_missing_refuted :
  exists (K : nat) (roots : list tree) (a : N) (tr : list trans),
    forallb (obs_lt K) roots = true /\ nodupb (forest_ids roots) = true /\
    mm_rose K roots None = Some (a, tr) /\
    forallb (unary_ok false tr) roots = false.
Proof. exact mm_oldest_internal_missing_refuted_lemma. Qed.

(* (e) order valid for a mutation table: every parent index is -1 or smaller than the
   mutation's own index; it is the index of the transition on the nearest ancestor that
   carries one; at most one transition per node *)
Theorem mm_order_valid : forall (K : nat) (roots : list tree) (anc : option N) (a : N) (tr : list trans),
  nodupb (forest_ids roots) = true ->
  mm_rose K roots anc = Some (a, tr) ->
  parents_before tr 0 = true /\
  forallb (fun r => parents_ok tr r (-1)) roots = true /\
  nodupb (map tr_node tr) = true.
Proof. exact mm_order_valid_lemma. Qed.

(* (f) no transition sits on the only child of a node whose own state is unconstrained:
   strict = true counts non-sample parents only and holds for every tree; strict = false
   also counts samples with missing data and needs the F2 proviso *)
Theorem mm_oldest_on_unary_chain :
  forall (K : nat) (roots : list tree) (anc : option N) (a : N) (tr : list trans) (strict : bool),
  (1 <= K <= 64)%nat -> forallb (obs_lt K) roots = true ->
  match anc with Some x => (x < N.of_nat K)%N | None => True end ->
  nodupb (forest_ids roots) = true ->
  (strict = true \/ forallb no_internal_missing roots = true) ->
  mm_rose K roots anc = Some (a, tr) ->
  forallb (unary_ok strict tr) roots = true.
Proof. exact mm_oldest_lemma. Qed.

(* (g) at most one transition per sample with a non-missing observation, hence at most
   num_samples: the C buffer of trees.c 7238 is never overrun (every tree, F2 included) *)
Theorem transitions_bounded : forall (K : nat) (roots : list tree) (anc : option N) (a : N) (tr : list trans),
  (1 <= K <= 64)%nat -> forallb (obs_lt K) roots = true ->
  match anc with Some x => (x < N.of_nat K)%N | None => True end ->
  mm_rose K roots anc = Some (a, tr) ->
  (length tr <= forest_num_obs roots)%nat.
Proof. exact transitions_bounded_lemma. Qed.

(* the explicit preorder stack of the C code computes what the structural recursion does *)
Theorem mm_stack_eq : forall (K : nat) (roots : list tree) (anc : option N) (r : N * list trans),
  mm_rose K roots anc = Some r -> mm_stack K roots anc = Ok r.
Proof. exact mm_stack_eq_lemma. Qed.

(* the proposed repair of F2 (missing samples go through the Hartigan step like
   non-sample nodes): optimal and oldest-on-unary-chain for EVERY tree *)
Theorem mm_fixed_optimal : forall (K : nat) (roots : list tree) (anc : option N) (a : N) (tr : list trans),
  (1 <= K <= 64)%nat -> forallb (obs_lt K) roots = true ->
  match anc with Some x => (x < N.of_nat K)%N | None => True end ->
  mm_rose_fixed K roots anc = Some (a, tr) ->
  (forall a' ls, match anc with Some x => a' = x | None => True end ->
      consistent_list roots ls = true -> (length tr <= forest_changes a' ls)%nat) /\
  (exists ls, consistent_list roots ls = true /\ forest_changes a ls = length tr).
Proof. exact mm_fixed_optimal_lemma. Qed.

Theorem mm_fixed_oldest_on_unary_chain :
  forall (K : nat) (roots : list tree) (anc : option N) (a : N) (tr : list trans),
  (1 <= K <= 64)%nat -> forallb (obs_lt K) roots = true ->
  match anc with Some x => (x < N.of_nat K)%N | None => True end ->
  nodupb (forest_ids roots) = true ->
  mm_rose_fixed K roots anc = Some (a, tr) ->
  forallb (unary_ok false tr) roots = true.
Proof. exact mm_fixed_oldest_lemma. Qed.

Theorem mm_fixed_reproduces : forall (K : nat) (roots : list tree) (anc : option N) (a : N) (tr : list trans),
  nodupb (forest_ids roots) = true ->
  mm_rose_fixed K roots anc = Some (a, tr) ->
  consistent_list roots (map (fun r => paint tr r a) roots) = true.
Proof. exact mm_fixed_reproduces_lemma. Qed.

(* The same three statements for [mm_model], the variant of the algorithm the code under
   test has: [c20_missing_through_hartigan] is re-extracted from trees.c on every run
   (false on the pinned commit; true once the repair of F2 is applied), so the proviso
   disappears by itself when the code is repaired. *)
Theorem mm_current_optimal : forall (K : nat) (roots : list tree) (anc : option N) (a : N) (tr : list trans),
  (1 <= K <= 64)%nat -> forallb (obs_lt K) roots = true ->
  (c20_missing_through_hartigan = true \/ forallb no_internal_missing roots = true) ->
  match anc with Some x => (x < N.of_nat K)%N | None => True end ->
  mm_model K roots anc = Some (a, tr) ->
  (forall a' ls, match anc with Some x => a' = x | None => True end ->
      consistent_list roots ls = true -> (length tr <= forest_changes a' ls)%nat) /\
  (exists ls, consistent_list roots ls = true /\ forest_changes a ls = length tr).
Proof. exact mm_current_optimal_lemma. Qed.

Theorem mm_current_oldest_on_unary_chain :
  forall (K : nat) (roots : list tree) (anc : option N) (a : N) (tr : list trans),
  (1 <= K <= 64)%nat -> forallb (obs_lt K) roots = true ->
  (c20_missing_through_hartigan = true \/ forallb no_internal_missing roots = true) ->
  match anc with Some x => (x < N.of_nat K)%N | None => True end ->
  nodupb (forest_ids roots) = true ->
  mm_model K roots anc = Some (a, tr) ->
  forallb (unary_ok false tr) roots = true.
Proof. exact mm_current_oldest_lemma. Qed.

Theorem mm_current_reproduces : forall (K : nat) (roots : list tree) (anc : option N) (a : N) (tr : list trans),
  nodupb (forest_ids roots) = true ->
  mm_model K roots anc = Some (a, tr) ->
  consistent_list roots (map (fun r => paint tr r a) roots) = true.
Proof. exact mm_current_reproduces_lemma. Qed.

(* L2 = L0, for both variants of the code (fx = false: the pinned code; fx = true: the repaired
   handling of missing samples).  For arrays [ta] that are consistent with the forest
   [rose_of_arrays] reads off left_child / right_sib / flags ([arrays_okb]: right_child /
   left_sib / parent describe the same forest, roots have parent -1, the sample list has no
   duplicates and only flagged nodes, node ids are distinct and fit the arrays — the
   representation invariant of a tskit tree, property C01's business, evaluated on every
   generated case inside [check_case]), the C function over the arrays
   ([c_map_mutations_gen fx]: entry checks, initialisation loop 7252-7266, explicit-stack
   postorder of tsk_tree_postorder_from with its postorder_parent trick, Hartigan loop,
   ancestral state choice, explicit preorder stack with transition_parent and the transition
   counter) returns exactly what the rose-tree model returns ([mm_rose], resp.
   [mm_rose_fixed]), so every theorem above speaks about the array code.
   ([init_sets ... = Ok] says the genotypes passed the entry checks; [sets_nonzero] follows
   from [mm_total]'s hypotheses.) *)
Theorem c_map_mutations_eq_rose :
  forall (fx : bool) (ta : tree_arrays) (g : list Z) (anc : option Z) (os0 : list N) (na0 nm : Z)
         (roots : list tree),
  init_sets fx (ta_samples ta) g (repeat 0%N (S (length (ta_flags ta)))) 0%Z 0%Z = Ok (os0, na0, nm) ->
  nm <> 0%Z ->
  match anc with Some a => (0 <= a < c20_hartigan_max_alleles)%Z | None => True end ->
  rose_of_arrays ta g = Ok roots ->
  arrays_okb ta roots = true ->
  forallb (sets_nonzero (Z.to_nat (final_num_alleles na0 anc))) (if fx then map demote roots else roots) = true ->
  c_map_mutations_gen fx ta g anc =
  match (if fx then mm_rose_fixed else mm_rose) (Z.to_nat (final_num_alleles na0 anc)) roots (option_map Z.to_N anc) with
  | Some (a, tr) => Ok (Z.of_N a, tr)
  | None => Err ERR_NONTERMINATION
  end.
Proof. exact c_map_mutations_eq_rose_lemma. Qed.

(* END TO END: the whole property for the C function over the arrays.  Hypotheses are about
   the input only: the genotypes pass the entry checks ([init_sets ... = Ok], at least one
   non-missing), a fixed ancestral state is in range, the arrays are those of a tree
   ([arrays_okb]).  Conclusion: the function returns (a, tr) — it terminates, with no
   out-of-bounds access in the model — such that painting reproduces every non-missing
   observation, the order / parent links are valid for a mutation table, no transition sits
   below a unary non-sample node, there are at most as many transitions as non-missing
   samples, and — for the repaired code (fx = true) always, for the pinned code (fx = false)
   when no internal sample has a missing genotype (finding F2) — the number of transitions is
   the minimum over ALL labelings of the forest consistent with the data (the fixed ancestral
   state when one is supplied), the minimum is attained, and no transition sits below a
   unary sample with missing data either. *)
Theorem c_map_mutations_sound :
  forall (fx : bool) (ta : tree_arrays) (g : list Z) (anc : option Z) (os0 : list N) (na0 nm : Z)
         (roots : list tree),
  init_sets fx (ta_samples ta) g (repeat 0%N (S (length (ta_flags ta)))) 0%Z 0%Z = Ok (os0, na0, nm) ->
  nm <> 0%Z ->
  match anc with Some a => (0 <= a < c20_hartigan_max_alleles)%Z | None => True end ->
  rose_of_arrays ta g = Ok roots ->
  arrays_okb ta roots = true ->
  exists a tr,
    c_map_mutations_gen fx ta g anc = Ok (Z.of_N a, tr) /\
    match anc with Some x => Z.of_N a = x | None => True end /\
    consistent_list roots (map (fun r => paint tr r a) roots) = true /\
    parents_before tr 0 = true /\ forallb (fun r => parents_ok tr r (-1)) roots = true /\
    nodupb (map tr_node tr) = true /\
    forallb (unary_ok true tr) roots = true /\
    (length tr <= forest_num_obs roots)%nat /\
    ((fx = true \/ forallb no_internal_missing roots = true) ->
       (forall a' ls, match anc with Some x => a' = Z.to_N x | None => True end ->
           consistent_list roots ls = true -> (length tr <= forest_changes a' ls)%nat) /\
       (exists ls, consistent_list roots ls = true /\ forest_changes a ls = length tr) /\
       forallb (unary_ok false tr) roots = true).
Proof. exact c_map_mutations_sound_lemma. Qed.
