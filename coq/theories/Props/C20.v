(* Property C20 — statements only.  Each theorem is closed by [exact] of a lemma proved in
   the C20/ files; Print Assumptions is evaluated by ./check on every run.

   Vocabulary (C20/Model.v, C20/Spec.v):
     tree            rose tree of the marginal tree: node id, observation (NotSample | Missing |
                     Obs g) and children in left_child/right_sib order; [roots] = children of the
                     virtual root
     mm_model K roots anc   the model of tsk_tree_map_mutations AS THE CODE UNDER TEST HAS IT
                     (K = num_alleles, anc = Some a iff TSK_MM_FIXED_ANCESTRAL_STATE): Some
                     (ancestral state, transitions (node, parent index, new state)), None = the C
                     loop does not terminate.  [mm_model] selects between [mm_rose] (the pinned
                     code: a sample with missing data is "all bits" and skips the Hartigan step,
                     finding F2) and [mm_rose_fixed] = mm_rose on [demote]d trees (the repaired
                     code, fix commit a5ef628) through the fact [c20_missing_through_hartigan],
                     re-extracted from trees.c on every run; C20/CurrentProofs.v proves
                     [current_is_repaired] by computation on that fact, so these theorems stop
                     compiling if the code falls back to the pinned shape.
     c_map_mutations ta g anc   the same over the tree arrays (L2); [c_map_mutations_gen fx] with
                     the variant explicit
     ltree           a labeling: one state per node; [consistent] = same shape and every Obs g
                     node carries g; [changes] = edges with different states;
                     [forest_changes a ls] additionally counts every root whose state is not a
     paint tr t a    nearest-mutation rule
   Non-vacuity examples: C20/Examples.v. *)
From Coq Require Import List ZArith NArith Bool.
From TskVerif Require Import Base.Common Gen.Generated C20.Model C20.Spec C20.HartiganProofs C20.TopProofs
  C20.BoundProofs C20.StackProofs C20.FixProofs C20.ArrayProofs C20.EndToEnd C20.CurrentProofs
  C20.PyProofs C20.ErrProofs C20.TreeInv C20.Final C20.RenameProofs C20.Refuted C20.Examples C20.TotalBounded.
Import ListNotations.

(* (a) Hartigan's invariant for the sets the code computes — every tree (polytomies, unary
   nodes, non-sample leaves, missing leaves AND missing internal samples, internal samples
   with a known state): every consistent labeling of the subtree costs at least m, at least
   m+1 if its root state is not in the optimal set; every state of the set is attained with
   cost m.  ([demote t]: the tree as the repaired code treats it.) *)
Theorem hartigan_invariant : forall (K : nat) (t : tree),
  (1 <= K <= 64)%nat -> obs_lt K t = true ->
  (forall l, consistent t l = true ->
     (mcost K (demote t) + (if memx K (opt_set K (demote t)) (lroot l) then 0 else 1) <= changes l)%nat) /\
  (forall s, (s < N.of_nat K)%N -> N.testbit (opt_set K (demote t)) s = true ->
     exists l, consistent t l = true /\ lroot l = s /\ changes l = mcost K (demote t)).
Proof. exact hartigan_invariant_current. Qed.

(* the model terminates on every valid input *)
Theorem mm_total : forall (K : nat) (roots : list tree) (anc : option N),
  (1 <= K <= 64)%nat -> forallb (obs_lt K) roots = true ->
  exists a tr, mm_model K roots anc = Some (a, tr).
Proof. exact mm_total_current. Qed.

(* (b) painting the returned ancestral state and transitions by the nearest-mutation rule
   gives every sample with a non-missing observation its observed state *)
Theorem mm_reproduces : forall (K : nat) (roots : list tree) (anc : option N) (a : N) (tr : list trans),
  nodupb (forest_ids roots) = true ->
  mm_model K roots anc = Some (a, tr) ->
  consistent_list roots (map (fun r => paint tr r a) roots) = true.
Proof. exact mm_reproduces_current. Qed.

(* (c) the number of returned transitions is the minimum of forest_changes over ALL labelings
   consistent with the data (all ancestral states when none is fixed, the fixed one
   otherwise), and the minimum is attained — every tree, no proviso *)
Theorem mm_optimal : forall (K : nat) (roots : list tree) (anc : option N) (a : N) (tr : list trans),
  (1 <= K <= 64)%nat -> forallb (obs_lt K) roots = true ->
  match anc with Some x => (x < N.of_nat K)%N | None => True end ->
  mm_model K roots anc = Some (a, tr) ->
  (forall a' ls, match anc with Some x => a' = x | None => True end ->
      consistent_list roots ls = true -> (length tr <= forest_changes a' ls)%nat) /\
  (exists ls, consistent_list roots ls = true /\ forest_changes a ls = length tr).
Proof. exact mm_optimal_current. Qed.

(* (e) order valid for a mutation table: every parent index is -1 or smaller than the
   mutation's own index; it is the index of the transition on the nearest ancestor that
   carries one; at most one transition per node *)
Theorem mm_order_valid : forall (K : nat) (roots : list tree) (anc : option N) (a : N) (tr : list trans),
  nodupb (forest_ids roots) = true ->
  mm_model K roots anc = Some (a, tr) ->
  parents_before tr 0 = true /\
  forallb (fun r => parents_ok tr r (-1)) roots = true /\
  nodupb (map tr_node tr) = true.
Proof. exact mm_order_valid_current. Qed.

(* (f) no transition sits on the only child of a node whose own state is unconstrained
   (a non-sample node or a sample with missing data): oldest node of a unary chain *)
Theorem mm_oldest_on_unary_chain :
  forall (K : nat) (roots : list tree) (anc : option N) (a : N) (tr : list trans),
  (1 <= K <= 64)%nat -> forallb (obs_lt K) roots = true ->
  match anc with Some x => (x < N.of_nat K)%N | None => True end ->
  nodupb (forest_ids roots) = true ->
  mm_model K roots anc = Some (a, tr) ->
  forallb (unary_ok false tr) roots = true.
Proof. exact mm_oldest_current. Qed.

(* (g) at most one transition per sample with a non-missing observation, hence at most
   num_samples: the C buffer of trees.c 7238 is never overrun *)
Theorem transitions_bounded : forall (K : nat) (roots : list tree) (anc : option N) (a : N) (tr : list trans),
  (1 <= K <= 64)%nat -> forallb (obs_lt K) roots = true ->
  match anc with Some x => (x < N.of_nat K)%N | None => True end ->
  mm_model K roots anc = Some (a, tr) ->
  (length tr <= forest_num_obs roots)%nat.
Proof. exact transitions_bounded_current. Qed.

(* the explicit preorder stack of the C code computes what the structural recursion does *)
Theorem mm_stack_eq : forall (K : nat) (roots : list tree) (anc : option N) (r : N * list trans),
  mm_model K roots anc = Some r -> mm_stack K (map demote roots) anc = Ok r.
Proof. exact mm_stack_eq_current. Qed.

(* L2 = L0, for both variants of the code (fx = false: the pinned code; fx = true: the repaired
   handling of missing samples).  For arrays [ta] that are consistent with the forest
   [rose_of_arrays] reads off left_child / right_sib / flags ([arrays_okb]: right_child /
   left_sib / parent describe the same forest, roots have parent -1, the sample list has no
   duplicates and only flagged nodes, node ids are distinct and fit the arrays — the
   representation invariant of a tskit tree, property C01's business, evaluated on every
   generated case inside [check_case]), the C function over the arrays
   ([c_map_mutations_gen fx]: entry checks, initialisation loop, explicit-stack postorder of
   tsk_tree_postorder_from with its postorder_parent trick, Hartigan loop, ancestral state
   choice, explicit preorder stack with transition_parent and the transition counter)
   returns exactly what the rose-tree model returns. *)
Theorem c_map_mutations_eq_rose :
  forall (fx : bool) (ta : tree_arrays) (g : list Z) (anc : option Z) (os0 : list N) (na0 nm : Z)
         (roots : list tree),
  init_sets fx (ta_samples ta) g (repeat 0%N (S (length (ta_flags ta)))) 0%Z 0%Z = Ok (os0, na0, nm) ->
  nm <> 0%Z ->
  match anc with Some a => (0 <= a < c20_hartigan_max_alleles)%Z | None => True end ->
  rose_of_arrays ta g = Ok roots ->
  arrays_okb ta roots = true ->
  forallb (sets_nonzero (Z.to_nat (final_num_alleles na0 anc))) (if fx then map demote roots else roots) = true ->
  c_map_mutations_gen fx ta g anc =
  match (if fx then mm_rose_fixed else mm_rose) (Z.to_nat (final_num_alleles na0 anc)) roots (option_map Z.to_N anc) with
  | Some (a, tr) => Ok (Z.of_N a, tr)
  | None => Err ERR_NONTERMINATION
  end.
Proof. exact c_map_mutations_eq_rose_lemma. Qed.

(* END TO END, for [c_map_mutations] — the array function the correspondence evaluates
   against the implementation on every case.  Hypotheses are about the input only: the
   genotypes pass the entry checks ([init_sets ... = Ok], at least one non-missing), a fixed
   ancestral state is in range, the arrays are those of a tree ([arrays_okb]).  Conclusion:
   the function returns (a, tr) — it terminates, with no out-of-bounds access in the model —
   such that painting reproduces every non-missing observation, the order / parent links are
   valid for a mutation table, no transition sits below a unary node whose state is
   unconstrained, there are at most as many transitions as non-missing samples, and the
   number of transitions is the minimum over ALL labelings of the forest consistent with the
   data (with the fixed ancestral state when one is supplied), attained. *)
Theorem c_map_mutations_property :
  forall (ta : tree_arrays) (g : list Z) (anc : option Z) (os0 : list N) (na0 nm : Z) (roots : list tree),
  init_sets c20_missing_through_hartigan (ta_samples ta) g (repeat 0%N (S (length (ta_flags ta)))) 0%Z 0%Z
    = Ok (os0, na0, nm) ->
  nm <> 0%Z ->
  match anc with Some a => (0 <= a < c20_hartigan_max_alleles)%Z | None => True end ->
  rose_of_arrays ta g = Ok roots ->
  arrays_okb ta roots = true ->
  exists a tr,
    c_map_mutations ta g anc = Ok (Z.of_N a, tr) /\
    match anc with Some x => Z.of_N a = x | None => True end /\
    consistent_list roots (map (fun r => paint tr r a) roots) = true /\
    parents_before tr 0 = true /\ forallb (fun r => parents_ok tr r (-1)) roots = true /\
    nodupb (map tr_node tr) = true /\
    forallb (unary_ok false tr) roots = true /\
    (length tr <= forest_num_obs roots)%nat /\
    (forall a' ls, match anc with Some x => a' = Z.to_N x | None => True end ->
        consistent_list roots ls = true -> (length tr <= forest_changes a' ls)%nat) /\
    (exists ls, consistent_list roots ls = true /\ forest_changes a ls = length tr).
Proof. exact c_map_mutations_property_lemma. Qed.

(* The same with the variant explicit (historical record for fx = false, the pinned code:
   optimality and the unary rule below missing samples need "no internal sample is missing"). *)
Theorem c_map_mutations_sound :
  forall (fx : bool) (ta : tree_arrays) (g : list Z) (anc : option Z) (os0 : list N) (na0 nm : Z)
         (roots : list tree),
  init_sets fx (ta_samples ta) g (repeat 0%N (S (length (ta_flags ta)))) 0%Z 0%Z = Ok (os0, na0, nm) ->
  nm <> 0%Z ->
  match anc with Some a => (0 <= a < c20_hartigan_max_alleles)%Z | None => True end ->
  rose_of_arrays ta g = Ok roots ->
  arrays_okb ta roots = true ->
  exists a tr,
    c_map_mutations_gen fx ta g anc = Ok (Z.of_N a, tr) /\
    match anc with Some x => Z.of_N a = x | None => True end /\
    consistent_list roots (map (fun r => paint tr r a) roots) = true /\
    parents_before tr 0 = true /\ forallb (fun r => parents_ok tr r (-1)) roots = true /\
    nodupb (map tr_node tr) = true /\
    forallb (unary_ok true tr) roots = true /\
    (length tr <= forest_num_obs roots)%nat /\
    ((fx = true \/ forallb no_internal_missing roots = true) ->
       (forall a' ls, match anc with Some x => a' = Z.to_N x | None => True end ->
           consistent_list roots ls = true -> (length tr <= forest_changes a' ls)%nat) /\
       (exists ls, consistent_list roots ls = true /\ forest_changes a ls = length tr) /\
       forallb (unary_ok false tr) roots = true).
Proof. exact c_map_mutations_sound_lemma. Qed.

(* ---- the Python layer: Tree.map_mutations (trees.py) around the C function ---- *)
(* ancestral_state: a str is looked up with alleles.index — it resolves to the FIRST position
   holding that string and is never interpreted as a number; an int is taken as it is after the
   range check against len(alleles) *)
Theorem py_resolve_ancestral_state : forall (anc : anc_arg) (alleles : list Z) (a0 : option Z),
  resolve_anc anc alleles = Ok a0 ->
  match anc, a0 with
  | ANone, None => True
  | AInt k, Some i => i = k /\ (0 <= k < zlen alleles)%Z
  | AStr s, Some i => (0 <= i < zlen alleles)%Z /\ nth_error alleles (Z.to_nat i) = Some s /\
                      forall k, (k < Z.to_nat i)%nat -> nth_error alleles k <> Some s
  | _, _ => False
  end.
Proof. exact resolve_anc_spec. Qed.

(* ... and is rejected (ValueError) exactly when the string is no allele / the int is out of range *)
Theorem py_resolve_ancestral_state_rejects : forall (anc : anc_arg) (alleles : list Z) (c : Z),
  resolve_anc anc alleles = Err c ->
  match anc with
  | ANone => False
  | AInt k => (k < 0 \/ zlen alleles <= k)%Z
  | AStr s => ~ In s alleles
  end.
Proof. exact resolve_anc_err. Qed.

(* whatever core is wrapped: a returned result is the core's result on the resolved ancestral
   state, through the allele map — same nodes, parent indices, order and length; states replaced
   by alleles[state]; and the genotypes fitted int8, were non-empty and of length num_samples *)
Theorem py_result_is_core_result :
  forall (core : tree_arrays -> list Z -> option Z -> res (Z * list trans))
         (ta : tree_arrays) (g : list Z) (anc : anc_arg) (alleles : list Z) (sa : Z) (muts : list (Z * Z * Z)),
  py_map_mutations core ta g anc alleles = MOk sa muts ->
  exists a0 a tr,
    resolve_anc anc alleles = Ok a0 /\
    Forall (fun x => (- 2 ^ (c20_py_genotype_bits - 1) <= x <= 2 ^ (c20_py_genotype_bits - 1) - 1)%Z) g /\
    g <> [] /\ zlen g = zlen (ta_samples ta) /\
    core ta g a0 = Ok (a, tr) /\
    get alleles a = Ok sa /\ muts = map (tr_map alleles 0%Z) tr.
Proof. exact py_ok_inv. Qed.

(* on every valid input (genotypes non-empty, of length num_samples, each -1 or an index into
   alleles below 64, not all missing; ancestral_state resolvable and below 64; arrays of a tree)
   the wrapper raises nothing: it returns the translated result of [c_map_mutations] — to which
   [c_map_mutations_property] applies *)
Theorem py_map_mutations_valid :
  forall (ta : tree_arrays) (g : list Z) (anc : anc_arg) (alleles : list Z) (a0 : option Z) (roots : list tree),
  (g <> [] /\ zlen g = zlen (ta_samples ta) /\
   Forall (fun x => (-1 <= x < zlen alleles)%Z /\ (x < c20_py_max_alleles)%Z) g /\
   exists x, In x g /\ x <> (-1)%Z) ->
  resolve_anc anc alleles = Ok a0 ->
  match a0 with Some i => (i < c20_py_max_alleles)%Z | None => True end ->
  rose_of_arrays ta g = Ok roots ->
  arrays_okb ta roots = true ->
  exists a tr,
    c_map_mutations ta g a0 = Ok (Z.of_N a, tr) /\
    py_map_mutations c_map_mutations ta g anc alleles =
      MOk (nth (N.to_nat a) alleles 0%Z) (map (tr_map alleles 0%Z) tr).
Proof. exact py_map_mutations_valid_lemma. Qed.

(* F14 (still open): with root_threshold > 1 a sample may lie under no root; it is then not a
   node of [roots] and the statements above say nothing about it.  The correspondence runs the
   cores through [guarded], the model of the proposed repair (reject such trees), switched by a
   re-extracted fact that is false on the current code: [guarded] is then the identity, and in
   any case it only ever turns a result into a rejection. *)
Theorem guarded_only_rejects :
  forall (core : tree_arrays -> list Z -> option Z -> res (Z * list trans))
         (ta : tree_arrays) (g : list Z) (anc : option Z) (r : Z * list trans),
  (guarded core ta g anc = Ok r -> core ta g anc = Ok r) /\
  (c20_rejects_unvisited_samples = false -> guarded core ta g anc = core ta g anc) /\
  (all_samples_visited ta = Ok true -> guarded core ta g anc = core ta g anc).
Proof. exact guarded_only_rejects_lemma. Qed.

(* ---- the bridge: tskit trees by their representation invariant ---- *)
(* [tree_inv ta K h] (C20/TreeInv.v), in the style of C01's links_consistent: for every node p and
   the virtual root, left_child[p], right_sib, ... walks K p and right_child[p], left_sib, ... walks
   it backwards; K p = the nodes whose parent is p; the virtual root's children are parentless;
   a rank h (the node time) grows from child to parent; samples = the flagged nodes, once each.
   From it: the rose tree exists, [rose_of_arrays] computes it within its fuel, and the
   executable input check [arrays_okb] assumed by the L2 theorems holds. *)
Theorem tree_inv_arrays_ok : forall (ta : tree_arrays) (K : Z -> list Z) (h : Z -> nat) (g : list Z),
  tree_inv ta K h -> length g = length (ta_samples ta) ->
  exists roots, rose_of_arrays ta g = Ok roots /\ arrays_okb ta roots = true /\
                map tid roots = K (zlen (ta_flags ta)).
Proof. exact tree_inv_arrays_ok_lemma. Qed.

(* THE PROPERTY for the array function on every tskit tree (any root_threshold): hypotheses are
   the representation invariant and valid arguments only.  "Reproduces" is stated per sample:
   every sample that is a node of the forest under the virtual root and has a non-missing
   observation is painted with its observed state.  For root_threshold = 1 every sample is such a
   node; for root_threshold > 1 this is exactly what the code guarantees (finding F14): the
   statement is about the samples under some root, and minimality is among labelings of that
   forest. *)
Theorem c_map_mutations_on_trees :
  forall (ta : tree_arrays) (K : Z -> list Z) (h : Z -> nat) (g : list Z) (anc : option Z),
  tree_inv ta K h ->
  length g = length (ta_samples ta) ->
  Forall (fun x => (-1 <= x < c20_hartigan_max_alleles)%Z) g -> (exists x, In x g /\ x <> (-1)%Z) ->
  match anc with Some a => (0 <= a < c20_hartigan_max_alleles)%Z | None => True end ->
  exists roots a tr,
    rose_of_arrays ta g = Ok roots /\ map tid roots = K (zlen (ta_flags ta)) /\
    c_map_mutations ta g anc = Ok (Z.of_N a, tr) /\
    match anc with Some x => Z.of_N a = x | None => True end /\
    (forall j s gj, nth_error (ta_samples ta) j = Some s -> nth_error g j = Some gj -> gj <> (-1)%Z ->
       In s (forest_ids roots) ->
       label_in s roots (map (fun r => paint tr r a) roots) = Some (Z.to_N gj)) /\
    parents_before tr 0 = true /\ forallb (fun r => parents_ok tr r (-1)) roots = true /\
    nodupb (map tr_node tr) = true /\
    forallb (unary_ok false tr) roots = true /\
    (length tr <= forest_num_obs roots)%nat /\
    (forall a' ls, match anc with Some x => a' = Z.to_N x | None => True end ->
        consistent_list roots ls = true -> (length tr <= forest_changes a' ls)%nat) /\
    (exists ls, consistent_list roots ls = true /\ forest_changes a ls = length tr).
Proof. exact c_map_mutations_on_trees_lemma. Qed.

(* ... and the boundary is exact (F14, still open): a tree with root_threshold = 2 (nodes 0,1
   under 3; sample 2 isolated) satisfying the input check, on which the function returns (0, [])
   although sample 2 — not a node of the forest, parentless, no transition on it — is observed in
   state 1: the nearest-mutation rule paints it with the ancestral state 0.
   ([f14_tree_inv] in C20/Final.v: these arrays satisfy [tree_inv].) *)
Theorem c_map_mutations_unvisited_sample_refuted :
  exists roots,
    rose_of_arrays f14_arrays [0; 0; 1]%Z = Ok roots /\ arrays_okb f14_arrays roots = true /\
    c_map_mutations f14_arrays [0; 0; 1]%Z None = Ok (0%Z, []) /\
    nth_error (ta_samples f14_arrays) 2 = Some 2%Z /\ nth_error [0; 0; 1]%Z 2 = Some 1%Z /\
    existsb (Z.eqb 2) (forest_ids roots) = false /\
    get (ta_parent f14_arrays) 2%Z = Ok (-1)%Z.
Proof. exact f14_boundary_witness. Qed.

(* ---- which inputs are rejected, and how ---- *)
(* the wrapper's decision sequence, one clause per exception class and stage *)
Theorem py_exception_classes :
  forall (core : tree_arrays -> list Z -> option Z -> res (Z * list trans))
         (ta : tree_arrays) (g : list Z) (anc : anc_arg) (alleles : list Z),
  let r := py_map_mutations core ta g anc alleles in
  (Exists (fun x => ~ int8_ok x) g -> r = MErr EOverflow) /\
  (Forall int8_ok g ->
     (g = [] -> r = MErr EValue) /\
     forall g0 gs, g = g0 :: gs ->
       (forall c, resolve_anc anc alleles = Err c -> r = MErr EValue) /\
       forall a0, resolve_anc anc alleles = Ok a0 ->
         ((max_with a0 g0 gs >= c20_py_max_alleles)%Z -> r = MErr EValue) /\
         ((max_with a0 g0 gs < c20_py_max_alleles)%Z ->
            (zlen g <> zlen (ta_samples ta) -> r = MErr EValue) /\
            (zlen g = zlen (ta_samples ta) ->
               (forall c, core ta g a0 = Err c -> r = MErr ELibrary) /\
               (forall a tr, core ta g a0 = Ok (a, tr) ->
                  (translate alleles a tr = None -> r = MErr EIndex) /\
                  (forall sa muts, translate alleles a tr = Some (sa, muts) -> r = MOk sa muts))))).
Proof. exact py_exception_classes_lemma. Qed.

(* the entry checks of the C function (LibraryError through the wrapper): a genotype >= 64 or
   < -1; all genotypes missing; a fixed ancestral state outside [0, 64) *)
Theorem c_entry_checks : forall (fx : bool) (ta : tree_arrays) (g : list Z) (anc : option Z),
  length g = length (ta_samples ta) -> samples_in_range ta ->
  (Exists (fun x => (x >= c20_hartigan_max_alleles \/ x < c20_tsk_missing_data)%Z) g ->
     c_map_mutations_gen fx ta g anc = Err ERR_BAD_GENOTYPE) /\
  (Forall (fun x => x = c20_tsk_missing_data) g ->
     c_map_mutations_gen fx ta g anc = Err ERR_GENOTYPES_ALL_MISSING) /\
  (Forall (fun x => (-1 <= x < c20_hartigan_max_alleles)%Z) g -> (exists x, In x g /\ x <> (-1)%Z) ->
     forall a, anc = Some a -> (a < 0 \/ a >= c20_hartigan_max_alleles)%Z ->
     c_map_mutations_gen fx ta g anc = Err ERR_BAD_ANCESTRAL_STATE).
Proof. exact c_entry_checks_lemma. Qed.

(* The result does not depend on how the nodes are numbered: renaming the node ids of the forest
   by ANY function f (a permutation, "ancestors first", ...) renames the nodes of the returned
   transitions by f and changes nothing else — same ancestral state, same number, order, parent
   indices and derived states.  No relation between node ids and the tree order is used. *)
Theorem mm_model_rename : forall (K : nat) (f : Z -> Z) (roots : list tree) (anc : option N),
  mm_model K (map (rename f) roots) anc = option_map (ren_result f) (mm_model K roots anc).
Proof. exact mm_model_rename_lemma. Qed.

(* ---- historical record: the PINNED (pre-fix) variant [mm_rose] on the original tree ---- *)
(* optimal only when no internal sample has a missing genotype ... *)
Theorem mm_pinned_optimal : forall (K : nat) (roots : list tree) (anc : option N) (a : N) (tr : list trans),
  (1 <= K <= 64)%nat -> forallb (obs_lt K) roots = true ->
  forallb no_internal_missing roots = true ->
  match anc with Some x => (x < N.of_nat K)%N | None => True end ->
  mm_rose K roots anc = Some (a, tr) ->
  (forall a' ls, match anc with Some x => a' = x | None => True end ->
      consistent_list roots ls = true -> (length tr <= forest_changes a' ls)%nat) /\
  (exists ls, consistent_list roots ls = true /\ forest_changes a ls = length tr).
Proof. exact mm_optimal_lemma. Qed.

(* ... F2: without that proviso the pinned variant is not optimal ([mm_rose] applied to the
   tree itself, not to [demote]: this is NOT the current model) ... *)
Theorem mm_optimal_internal_missing_pinned_refuted :
  exists (K : nat) (roots : list tree) (a : N) (tr : list trans) (ls : list ltree),
    forallb (obs_lt K) roots = true /\ nodupb (forest_ids roots) = true /\
    mm_rose K roots None = Some (a, tr) /\
    consistent_list roots ls = true /\
    (forest_changes a ls < length tr)%nat.
Proof. exact mm_optimal_internal_missing_refuted_lemma. Qed.

(* ... and does not use the oldest node of a unary chain *)
Theorem mm_oldest_internal_missing_pinned_refuted :
  exists (K : nat) (roots : list tree) (a : N) (tr : list trans),
    forallb (obs_lt K) roots = true /\ nodupb (forest_ids roots) = true /\
    mm_rose K roots None = Some (a, tr) /\
    forallb (unary_ok false tr) roots = false.
Proof. exact mm_oldest_internal_missing_refuted_lemma. Qed.

(* Totality and the size bound in one statement (corollary of mm_total / transitions_bounded): on
   every admissible input a placement is returned, with at most one transition per observed sample. *)
Theorem mm_total_bounded : forall (K : nat) (roots : list tree) (anc : option N),
  (1 <= K <= 64)%nat -> forallb (obs_lt K) roots = true ->
  match anc with Some x => (x < N.of_nat K)%N | None => True end ->
  exists a tr, mm_model K roots anc = Some (a, tr) /\ (length tr <= forest_num_obs roots)%nat.
Proof. exact mm_total_bounded_proof. Qed.
