(* C10 model: corruptions of a byte string and the verdict of the reader model (C05/Kastore.v +
   C05/TskFile.v) on them.  Executable definitions only. *)
From Coq Require Import List ZArith Bool Lia.
From TskVerif Require Import Base.Common Gen.Generated C05.Bytes C05.Kastore C05.TskFile.
Import ListNotations.
Open Scope Z_scope.

(* replace the byte at position p *)
Fixpoint subst_nat (l : list Z) (p : nat) (v : Z) : list Z :=
  match l, p with
  | [], _ => []
  | _ :: t, O => v :: t
  | h :: t, S p' => h :: subst_nat t p' v
  end.
Definition subst_byte (l : list Z) (p v : Z) : list Z := subst_nat l (Z.to_nat p) v.

(* overwrite a run of bytes starting at p (never extends the string) *)
Fixpoint subst_run (l : list Z) (p : nat) (bs : list Z) : list Z :=
  match bs with
  | [] => l
  | b :: r => subst_run (subst_nat l p b) (S p) r
  end.
Definition subst_many (l : list Z) (eds : list (Z * list Z)) : list Z :=
  fold_left (fun acc e => subst_run acc (Z.to_nat (fst e)) (snd e)) eds l.

(* verdict classes: 0 = an object is returned, n = error class n of TskFile.v, 98 = the model
   performs an out-of-bounds read (undefined behaviour in C: crash or anything else) *)
Definition V_LOADED : Z := 0.
Definition V_OOB : Z := 98.
Definition V_FUEL : Z := 97.

Definition load_verdict (skip_tables skip_refseq : bool) (s : list Z) : Z :=
  match tsk_load_bytes skip_tables skip_refseq s with
  | Ok _ => V_LOADED
  | Err e => e
  | OOB => V_OOB
  | Fuel => V_FUEL
  end.

Definition kas_verdict (s : list Z) : Z :=
  match kas_decode s with Ok _ => V_LOADED | Err e => e | OOB => V_OOB | Fuel => V_FUEL end.

(* agreement of a model verdict with an observed one: where the model reads out of bounds the
   implementation may do anything; an observed crash (98) is only explained by a model OOB *)
Definition verdict_agrees (model observed : Z) : bool := (model =? observed) || (model =? V_OOB).

Fixpoint expand_rle (r : list (nat * Z)) : list Z :=
  match r with [] => [] | (k, c) :: t => repeat c k ++ expand_rle t end.

Fixpoint all2 {A B} (f : A -> B -> bool) (a : list A) (b : list B) : bool :=
  match a, b with
  | [], [] => true
  | x :: a', y :: b' => f x y && all2 f a' b'
  | _, _ => false
  end.

Definition verdicts_rle_eqb (model : list Z) (observed : list (nat * Z)) : bool :=
  all2 verdict_agrees model (expand_rle observed).

Definition seq_step (step count : nat) : list nat := map (fun i => (i * step)%nat) (seq 0 count).
