(* C10: every proper prefix of a written container is rejected by the reader model, the empty
   prefix as end-of-stream, every other one as a format error; end-of-stream is reported for
   the empty stream only.  Unbounded: all item lists, all cut points. *)
From Coq Require Import List ZArith Bool Lia.
From TskVerif Require Import Base.Common Gen.Generated C05.Bytes C05.Kastore C05.KastoreProofs C05.TskFile C05.StreamProofs.
Import ListNotations.
Open Scope Z_scope.

Lemma split_cases {A} (a b p q : list A) : a ++ b = p ++ q ->
  (exists l, l <> [] /\ a = p ++ l) \/ (exists l, p = a ++ l /\ b = l ++ q).
Proof.
  intros H. apply app_eq_app in H as [l [[H1 H2]|[H1 H2]]].
  - destruct l as [|x l].
    + right. exists []. rewrite app_nil_r in H1. subst. split; [rewrite app_nil_r; auto | auto].
    + left. exists (x :: l). split; [discriminate | auto].
  - right. exists l. auto.
Qed.

Lemma take_shorter a p l : a = p ++ l -> l <> [] -> take (zlen a) p = None.
Proof.
  intros -> Hl. apply take_short. rewrite zlen_app.
  destruct l; [congruence|]. rewrite zlen_cons. pose proof (zlen_nonneg l). lia.
Qed.

Lemma read_blocks_trunc its : forall fs k0 kbuf koff aoff l q,
  Forall item_ok its -> 0 <= aoff -> fs = layout_end aoff its -> fs < two64 ->
  blocks (align8 aoff) its = l ++ q -> q <> [] ->
  read_blocks fs k0 kbuf (layout koff aoff its) l = Err E_FORMAT.
Proof.
  induction its as [|it r IH]; intros fs k0 kbuf koff aoff l q H Ha Hfs Hlt Hb Hq.
  - simpl in Hb. symmetry in Hb. apply app_eq_nil in Hb as [_ Hb]. congruence.
  - rewrite read_blocks_step by auto.
    rewrite blocks_cons in Hb. apply split_cases in Hb as [(l2 & Hl2 & Hb)|(l2 & Hb1 & Hb2)].
    + rewrite (take_shorter _ l l2 Hb Hl2). reflexivity.
    + subst l. rewrite take_app.
      inversion H as [|? ? Hit Hr]; subst.
      pose proof (align8_spec aoff Ha) as [Hal _]. pose proof (isize_nonneg it Hit).
      rewrite (IH (layout_end aoff (it :: r)) k0 kbuf _ (align8 aoff + isize it) l2 q); auto. lia.
Qed.

(* (f) truncation: the file cut anywhere before its end.  Both read modes share everything up to
   the key buffer; the eager mode then fails on the first array block that is cut, the lazy mode
   returns the item list (arrays are only read on demand). *)
Lemma truncation_cases (b : bool) its p q : items_ok its ->
  kas_write its = p ++ q -> q <> [] -> p <> [] ->
  kas_open b p = Err E_FORMAT
  \/ (b = false /\ its <> [] /\ exists l3, p = kw_header its ++ kw_descs its ++ kw_keys its ++ l3
                                        /\ blocks (align8 (kw_a its)) its = l3 ++ q).
Proof.
  intros Hok Hw Hq Hpne.
  destruct its as [|it r].
  - (* header-only store *)
    left.
    unfold kas_write in Hw. cbn [zlen length layout keys_len layout_end descs_bytes keys_bytes arrays_bytes map concat] in Hw.
    rewrite !app_nil_r in Hw.
    assert (Hs : (exists l, l <> [] /\ header_bytes kas_file_version_major kas_file_version_minor (zlen (@nil item))
                   (koff0 (zlen (@nil item)) + 0) (zeros 40) = p ++ l)).
    { rewrite <- (app_nil_r (header_bytes _ _ _ _ _)) in Hw. apply split_cases in Hw as [?|(l & _ & Hl)]; auto.
      symmetry in Hl. apply app_eq_nil in Hl as [_ Hl]. congruence. }
    destruct Hs as (l & Hl & Hh).
    unfold kas_open. rewrite read_header_nonempty by auto.
    unfold read_header_body. rewrite hs64.
    assert (Hlen : zlen (p ++ l) = 64) by (rewrite <- Hh; unfold zlen; rewrite header_length; [reflexivity | apply zeros_length]).
    rewrite take_short; [reflexivity|].
    rewrite zlen_app in Hlen. destruct l; [congruence|]. rewrite zlen_cons in Hlen. pose proof (zlen_nonneg l). lia.
  - assert (Hne : it :: r <> []) by discriminate.
    rewrite (kas_write_parts _ Hne) in Hw.
    apply split_cases in Hw as [(l & Hl & Hh)|(l & Hp & Hw)].
    + (* cut inside the header *)
      left. unfold kas_open. rewrite read_header_nonempty by auto.
      unfold read_header_body. rewrite hs64.
      rewrite <- (kw_header_length (it :: r)). rewrite (take_shorter _ p l Hh Hl). reflexivity.
    + apply split_cases in Hw as [(l2 & Hl2 & Hd)|(l2 & Hp2 & Hw)].
      * (* cut inside the descriptors *)
        left.
        pose proof (kw_facts _ Hok Hne) as (Hn & Hk & Ha & Hal & Hfs & Hlt & Hkeys).
        rewrite Hp. unfold kas_open, kw_header.
        rewrite read_header_ok by (try apply zeros_length; lia).
        replace (kw_n (it :: r) =? 0) with false by (symmetry; apply Z.eqb_neq; lia).
        unfold read_descriptors. rewrite hs64, ds64.
        replace (kw_fs (it :: r) <? kw_n (it :: r) * 64 + 64) with false by (symmetry; apply Z.ltb_ge; lia).
        change (kw_n (it :: r)) with (zlen (it :: r)).
        rewrite <- (kw_descs_length (it :: r)). rewrite (take_shorter _ l l2 Hd Hl2). reflexivity.
      * rewrite Hp, Hp2.
        rewrite kas_open_prefix_any by auto.
        apply split_cases in Hw as [(l3 & Hl3 & Hk)|(l3 & Hp3 & Hw)].
        -- left. rewrite (take_shorter _ l2 l3 Hk Hl3). reflexivity.
        -- subst l2. rewrite take_app.
           destruct b.
           ++ left.
              pose proof (kw_facts _ Hok Hne) as (Hn & Hk & Ha & Hal & Hfs & Hlt & Hkeys).
              destruct Hok as (Hall & _ & _).
              eapply read_blocks_trunc; eauto; try lia; try reflexivity.
           ++ right. split; auto. split; auto. exists l3. split; auto.
Qed.

Lemma truncation_nonempty its p q : items_ok its ->
  kas_write its = p ++ q -> q <> [] -> p <> [] -> kas_open true p = Err E_FORMAT.
Proof.
  intros Hok Hw Hq Hp. destruct (truncation_cases true its p q Hok Hw Hq Hp) as [H|(H & _)]; [exact H | discriminate].
Qed.

Theorem truncation_rejected_split its p q : items_ok its ->
  kas_write its = p ++ q -> q <> [] ->
  kas_open true p = Err (match p with [] => E_EOF | _ => E_FORMAT end).
Proof.
  intros Hok Hw Hq. destruct p as [|b0 p0]; [reflexivity|].
  eapply truncation_nonempty; eauto. discriminate.
Qed.

Theorem truncation_rejected its n : items_ok its -> (n < length (kas_write its))%nat ->
  kas_open true (firstn n (kas_write its)) = Err (if Nat.eqb n 0 then E_EOF else E_FORMAT).
Proof.
  intros Hok Hn.
  rewrite (truncation_rejected_split its (firstn n (kas_write its)) (skipn n (kas_write its)) Hok).
  - destruct n; [reflexivity|]. revert Hn. destruct (kas_write its); [simpl; lia | reflexivity].
  - symmetry. apply firstn_skipn.
  - intros E. apply (f_equal (@length Z)) in E. rewrite skipn_length in E.
    change (length (@nil Z)) with 0%nat in E. lia.
Qed.

Corollary truncation_rejected_decode its n : items_ok its -> (n < length (kas_write its))%nat ->
  kas_decode (firstn n (kas_write its)) = Err (if Nat.eqb n 0 then E_EOF else E_FORMAT).
Proof. intros. unfold kas_decode. rewrite truncation_rejected by auto. reflexivity. Qed.

(* non-vacuity: a three-item store of 280 bytes, cut at every one of its 280 proper prefixes *)
Example truncation_ex :
  let its := sort_items [mk_item [98] 4 2 [1; 0; 0; 0; 255; 255; 255; 255]; mk_item [97; 47; 120] 1 3 [0; 255; 7];
              mk_item [97] 9 0 []] in
  length (kas_write its) = 280%nat /\
  forallb (fun n => match kas_decode (firstn n (kas_write its)) with
                    | Err e => e =? (if Nat.eqb n 0 then E_EOF else E_FORMAT) | _ => false end) (seq 0 280) = true
  /\ is_ok (kas_decode (kas_write its)) = true.
Proof. vm_compute. repeat split; reflexivity. Qed.

(* ---- end-of-stream is distinct from every other outcome ---- *)
Lemma parse_descs_not_eof fs n : forall buf, parse_descs fs n buf <> Err E_EOF.
Proof.
  induction n; intros buf; cbn [parse_descs]; [discriminate|].
  repeat match goal with |- context [if ?c then _ else _] => destruct c end; try discriminate.
  specialize (IHn (skipn 64 buf)). destruct (parse_descs fs n (skipn 64 buf)); try discriminate. congruence.
Qed.

Lemma read_blocks_not_eof fs k0 kbuf ds : forall s, read_blocks fs k0 kbuf ds s <> Err E_EOF.
Proof.
  induction ds as [|d r IH]; intros s; cbn [read_blocks]; [discriminate|].
  destruct (take _ s) as [[blk s']|]; [|discriminate].
  specialize (IH s'). destruct (read_blocks fs k0 kbuf r s') as [[its s'']| | |]; try discriminate. congruence.
Qed.

Lemma read_descriptors_not_eof n fs s : read_descriptors n fs s <> Err E_EOF.
Proof.
  unfold read_descriptors.
  destruct (fs <? _); [discriminate|].
  destruct (take _ s) as [[buf rest2]|]; [|discriminate].
  pose proof (parse_descs_not_eof fs (Z.to_nat n) buf) as Hp.
  destruct (parse_descs _ _ buf) as [ds| | |]; try discriminate; [|congruence].
  destruct (check_keys _ ds); [|discriminate].
  destruct (check_arrays _ ds); [|discriminate].
  destruct (_ =? fs); discriminate.
Qed.

Theorem eof_iff_empty read_all s : kas_open read_all s = Err E_EOF <-> s = [].
Proof.
  split; [|intros ->; reflexivity].
  intros H. destruct s as [|b s]; [reflexivity|]. exfalso. revert H.
  unfold kas_open. rewrite read_header_nonempty by discriminate. unfold read_header_body.
  destruct (take kas_header_size (b :: s)) as [[h rest]|]; [|discriminate].
  destruct (negb _); [discriminate|].
  destruct (_ <? kas_file_version_major); [discriminate|].
  destruct (kas_file_version_major <? _); [discriminate|].
  destruct (_ <? kas_header_size); [discriminate|].
  destruct (_ =? 0).
  { destruct (_ =? kas_header_size); discriminate. }
  pose proof (read_descriptors_not_eof (le_dec (slice h 12 4)) (le_dec (slice h 16 8)) rest) as Hd.
  destruct (read_descriptors _ _ rest) as [[ds s2]| | |]; try discriminate; [|congruence].
  destruct (_ =? 0); [discriminate|].
  destruct (take _ s2) as [[kbuf s3]|]; [|discriminate].
  destruct read_all; [apply read_blocks_not_eof | discriminate].
Qed.

(* a stream on which complete stores are followed by a proper, non-empty prefix of a further
   store (cut anywhere: inside the magic, the header, the descriptors, the keys, the arrays):
   reading until end-of-stream ends with a FORMAT error, never with the clean end-of-stream signal *)
Theorem stream_truncated_tail (stores : list (list item)) its n :
  Forall enc_ok stores -> items_ok its -> (0 < n < length (kas_write its))%nat ->
  read_all_stores (S (S (length stores))) (concat (map kas_encode stores) ++ firstn n (kas_write its)) = Err E_FORMAT.
Proof.
  intros H Hok Hn. induction H as [|a r (Ha1 & Ha2 & Ha3) Hr IH].
  - cbn [length map concat app]. cbn [read_all_stores].
    rewrite truncation_rejected_decode by (auto; lia).
    destruct n; [lia|]. reflexivity.
  - cbn [length map concat]. rewrite <- app_assoc. remember (S (S (length r))) as k. cbn [read_all_stores].
    rewrite kas_roundtrip by auto. subst k. rewrite IH. reflexivity.
Qed.

Example stream_truncated_tail_ex :
  let a := [mk_item [120] 1 2 [7; 8]] in
  forallb (fun n => match read_all_stores 3 (kas_encode a ++ firstn n (kas_encode a)) with Err e => e =? E_FORMAT | _ => false end)
          (seq 1 137) = true
  /\ length (kas_encode a) = 138%nat /\ read_all_stores 3 (kas_encode a ++ kas_encode a) = Ok [sort_items a; sort_items a].
Proof. vm_compute. repeat split; reflexivity. Qed.
