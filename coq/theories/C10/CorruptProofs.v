(* C10: what the reader model does on files whose structural bytes were altered.
   - [read_header_fields]: the header is decoded field by field; a wrong magic, a different major
     version, a file_size below the header size are rejected at once;
   - [file_size_rejected]: any other file_size is rejected by the final packing check;
   - [ignored_bytes_identity]: minor version, reserved header bytes and reserved descriptor bytes
     never influence the result;
   - refuted statements with concrete witnesses (findings F10, F15, F16). *)
From Coq Require Import List ZArith Bool Lia.
From TskVerif Require Import Base.Common Gen.Generated C05.Bytes C05.Kastore C05.KastoreProofs C05.TskFile
  C10.Corrupt C10.TruncProofs.
Import ListNotations.
Open Scope Z_scope.

Definition header_g (magic : list Z) (major minor n fs : Z) (r : list Z) : list Z :=
  magic ++ le_enc 2 major ++ le_enc 2 minor ++ le_enc 4 n ++ le_enc 8 fs ++ r.

Lemma header_g_std minor n fs r : header_g kas_magic kas_file_version_major minor n fs r
  = header_bytes kas_file_version_major minor n fs r.
Proof. reflexivity. Qed.

Lemma read_header_fields magic major minor n fs r rest :
  length magic = 8%nat -> length r = 40%nat -> 0 <= major < 65536 -> 0 <= n < 4294967296 -> 0 <= fs < two64 ->
  read_header (header_g magic major minor n fs r ++ rest) =
    if negb (zlist_eqb magic kas_magic) then Err E_FORMAT else
    if major <? kas_file_version_major then Err E_TOO_OLD else
    if kas_file_version_major <? major then Err E_TOO_NEW else
    if fs <? kas_header_size then Err E_FORMAT else Ok (n, fs, rest).
Proof.
  intros Hm Hr Hmaj Hn Hfs.
  rewrite read_header_nonempty.
  2:{ unfold header_g. destruct magic; [discriminate Hm | discriminate]. }
  unfold read_header_body.
  set (h := header_g magic major minor n fs r).
  assert (Hh : zlen h = 64).
  { unfold zlen, h, header_g. rewrite !app_length, !le_enc_length, Hm, Hr. reflexivity. }
  rewrite hs64, (take_exact 64 h rest Hh).
  unfold h, header_g.
  rewrite (slice_at0 magic _ 8) by (rewrite Hm; reflexivity).
  destruct (negb (zlist_eqb magic kas_magic)); [reflexivity|].
  rewrite (slice_at magic (le_enc 2 major) (le_enc 2 minor ++ le_enc 4 n ++ le_enc 8 fs ++ r) 8 2)
    by (try apply le_enc_length; rewrite Hm; reflexivity).
  rewrite le16_roundtrip by lia.
  destruct (major <? kas_file_version_major); [reflexivity|].
  destruct (kas_file_version_major <? major); [reflexivity|].
  replace (magic ++ le_enc 2 major ++ le_enc 2 minor ++ le_enc 4 n ++ le_enc 8 fs ++ r)
    with ((magic ++ le_enc 2 major ++ le_enc 2 minor) ++ le_enc 4 n ++ le_enc 8 fs ++ r)
    by (rewrite <- !app_assoc; reflexivity).
  rewrite (slice_at _ (le_enc 4 n) (le_enc 8 fs ++ r) 12 4) by (rewrite ?app_length, ?le_enc_length, ?Hm; reflexivity).
  replace ((magic ++ le_enc 2 major ++ le_enc 2 minor) ++ le_enc 4 n ++ le_enc 8 fs ++ r)
    with ((magic ++ le_enc 2 major ++ le_enc 2 minor ++ le_enc 4 n) ++ le_enc 8 fs ++ r)
    by (rewrite <- !app_assoc; reflexivity).
  rewrite (slice_at _ (le_enc 8 fs) r 16 8) by (rewrite ?app_length, ?le_enc_length, ?Hm; reflexivity).
  rewrite le32_roundtrip, le64_roundtrip by lia. reflexivity.
Qed.

(* (g) magic and major version: any other value is rejected, whatever follows *)
Theorem magic_rejected read_all magic major minor n fs r rest :
  length magic = 8%nat -> length r = 40%nat -> 0 <= major < 65536 -> 0 <= n < 4294967296 -> 0 <= fs < two64 ->
  magic <> kas_magic ->
  kas_open read_all (header_g magic major minor n fs r ++ rest) = Err E_FORMAT.
Proof.
  intros Hm Hr Hmaj Hn Hfs Hne. unfold kas_open. rewrite read_header_fields by auto.
  destruct (zlist_eqb magic kas_magic) eqn:E; [apply zlist_eqb_eq in E; congruence | reflexivity].
Qed.

Theorem major_version_rejected read_all major minor n fs r rest :
  length r = 40%nat -> 0 <= major < 65536 -> 0 <= n < 4294967296 -> 0 <= fs < two64 ->
  major <> kas_file_version_major ->
  kas_open read_all (header_g kas_magic major minor n fs r ++ rest)
  = Err (if major <? kas_file_version_major then E_TOO_OLD else E_TOO_NEW).
Proof.
  intros Hr Hmaj Hn Hfs Hne. unfold kas_open. rewrite read_header_fields by (auto; reflexivity).
  rewrite zlist_eqb_refl. cbn [negb].
  destruct (major <? kas_file_version_major) eqn:E1; [reflexivity|].
  destruct (kas_file_version_major <? major) eqn:E2; [reflexivity|].
  apply Z.ltb_ge in E1, E2. lia.
Qed.

(* ---- file_size ---- *)
Lemma parse_descs_shape fs n : forall buf,
  (exists ds, parse_descs fs n buf = Ok ds) \/ (exists e, parse_descs fs n buf = Err e).
Proof.
  induction n; intros buf; cbn [parse_descs]; [left; eauto|].
  repeat match goal with |- context [if ?c then _ else _] => destruct c end; try (right; eauto; fail).
  destruct (IHn (skipn 64 buf)) as [[ds ->]|[e ->]]; [left | right]; eauto.
Qed.

Lemma parse_descs_indep fs fs' n : forall buf ds ds',
  parse_descs fs n buf = Ok ds -> parse_descs fs' n buf = Ok ds' -> ds = ds'.
Proof.
  induction n; intros buf ds ds'; cbn [parse_descs].
  - intros H1 H2. congruence.
  - repeat match goal with |- context [if ?c then _ else _] => destruct c end; try discriminate.
    destruct (parse_descs fs n (skipn 64 buf)) eqn:E1; try discriminate.
    destruct (parse_descs fs' n (skipn 64 buf)) eqn:E2; try discriminate.
    intros H1 H2. inversion H1; inversion H2; subst. f_equal. eapply IHn; eauto.
Qed.

Theorem file_size_rejected its fs' minor r40 y :
  items_ok its -> its <> [] -> length r40 = 40%nat -> 0 <= fs' < two64 -> fs' <> kw_fs its ->
  exists e, kas_open true (header_bytes kas_file_version_major minor (kw_n its) fs' r40 ++ kw_descs its ++ y) = Err e.
Proof.
  intros Hok Hne Hr Hfs' Hdiff.
  pose proof (kw_facts its Hok Hne) as (Hn & Hk & Ha & Hal & Hfs & Hlt & Hkeys).
  destruct Hok as (Hall & _ & _).
  unfold kas_open. rewrite <- header_g_std, read_header_fields by (auto; try reflexivity; try apply major_range; lia).
  rewrite zlist_eqb_refl, !Z.ltb_irrefl. cbn [negb].
  destruct (fs' <? kas_header_size); [eauto|].
  replace (kw_n its =? 0) with false by (symmetry; apply Z.eqb_neq; lia).
  assert (G3 : kw_k its + keys_len its <= kw_fs its) by (fold (kw_a its); lia).
  assert (G4 : layout_end (kw_a its) its <= kw_fs its) by (fold (kw_fs its); lia).
  destruct (layout_props its (kw_k its) (kw_a its) (kw_fs its) Hall ltac:(lia) ltac:(lia) G3 G4 Hlt) as (Hchk & Hck & Hca).
  unfold read_descriptors. rewrite hs64, ds64.
  destruct (fs' <? kw_n its * 64 + 64); [eauto|].
  rewrite (take_exact (kw_n its * 64) (kw_descs its)) by (apply kw_descs_length).
  assert (Hp : parse_descs (kw_fs its) (Z.to_nat (kw_n its)) (kw_descs its) = Ok (layout (kw_k its) (kw_a its) its)).
  { unfold kw_descs.
    replace (Z.to_nat (kw_n its)) with (length (layout (kw_k its) (kw_a its) its))
      by (rewrite layout_length; unfold kw_n, zlen; rewrite Nat2Z.id; reflexivity).
    rewrite <- (app_nil_r (descs_bytes (layout (kw_k its) (kw_a its) its))).
    apply parse_descs_bytes. exact Hchk. }
  destruct (parse_descs_shape fs' (Z.to_nat (kw_n its)) (kw_descs its)) as [[ds' E]|[e E]]; rewrite E; [|eauto].
  assert (ds' = layout (kw_k its) (kw_a its) its) by (symmetry; eapply parse_descs_indep; eauto). subst ds'.
  change (koff0 (kw_n its)) with (kw_k its).
  rewrite Hck. fold (kw_a its). rewrite Hca. fold (kw_fs its).
  replace (kw_fs its =? fs') with false by (symmetry; apply Z.eqb_neq; lia). eauto.
Qed.

(* ---- reserved bytes ---- *)
Fixpoint descs_bytes_g (ds : list rdesc) (rs : list (list Z * list Z)) : list Z :=
  match ds, rs with
  | d :: ds', (r1, r2) :: rs' => desc_bytes d r1 r2 ++ descs_bytes_g ds' rs'
  | _, _ => []
  end.

Definition reserved_ok (rs : list (list Z * list Z)) (n : nat) : Prop :=
  length rs = n /\ Forall (fun p => length (fst p) = 7%nat /\ length (snd p) = 24%nat) rs.

Lemma descs_bytes_g_length ds : forall rs, reserved_ok rs (length ds) ->
  length (descs_bytes_g ds rs) = (64 * length ds)%nat.
Proof.
  induction ds as [|d ds IH]; intros rs [Hl Hf]; [reflexivity|].
  destruct rs as [|[r1 r2] rs]; [discriminate Hl|]. inversion Hf as [|? ? [H1 H2] Hf']; subst.
  cbn [descs_bytes_g length]. rewrite app_length, desc_length, IH by (auto; split; auto). lia.
Qed.

Lemma parse_descs_bytes_g fs ds : forall rs rest,
  Forall (desc_checks fs) ds -> reserved_ok rs (length ds) ->
  parse_descs fs (length ds) (descs_bytes_g ds rs ++ rest) = Ok ds.
Proof.
  induction ds as [|d ds IH]; intros rs rest Hc [Hl Hf]; [reflexivity|].
  destruct rs as [|[r1 r2] rs]; [discriminate Hl|]. inversion Hf as [|? ? [H1 H2] Hf']; subst.
  inversion Hc as [|? ? (Hok & Ht & Hk & Ha) Hc']; subst. cbn [fst snd] in *.
  cbn [length parse_descs descs_bytes_g]. rewrite <- app_assoc.
  rewrite firstn_app_exact by (apply desc_length; auto).
  rewrite skipn_app_exact by (apply desc_length; auto).
  rewrite <- (app_nil_r (desc_bytes d r1 r2)), parse_desc_bytes by auto.
  replace (kas_num_types <=? d_type d) with false by (symmetry; apply Z.leb_gt; lia).
  replace (fs <? w64 (d_ks d + d_kl d)) with false by (symmetry; apply Z.ltb_ge; lia).
  replace (fs <? w64 (d_as d + d_al d * type_size (d_type d))) with false by (symmetry; apply Z.ltb_ge; lia).
  rewrite IH by (auto; split; auto). reflexivity.
Qed.

(* (i) the reader's result does not depend on the minor version, the 40 reserved header bytes,
   or the 7 + 24 reserved bytes of every descriptor: with any values there the file reads
   exactly as the file the writer produced *)
Theorem ignored_bytes_identity its minor r40 rs y :
  items_ok its -> its <> [] -> length r40 = 40%nat -> reserved_ok rs (length its) ->
  kas_open true (header_bytes kas_file_version_major minor (kw_n its) (kw_fs its) r40
                 ++ descs_bytes_g (layout (kw_k its) (kw_a its) its) rs ++ y)
  = kas_open true (kw_header its ++ kw_descs its ++ y).
Proof.
  intros Hok Hne Hr Hrs. rewrite kas_open_prefix by auto.
  pose proof (kw_facts its Hok Hne) as (Hn & Hk & Ha & Hal & Hfs & Hlt & Hkeys).
  destruct Hok as (Hall & _ & _).
  unfold kas_open.
  rewrite read_header_ok by (auto; lia).
  replace (kw_n its =? 0) with false by (symmetry; apply Z.eqb_neq; lia).
  assert (G3 : kw_k its + keys_len its <= kw_fs its) by (fold (kw_a its); lia).
  assert (G4 : layout_end (kw_a its) its <= kw_fs its) by (fold (kw_fs its); lia).
  destruct (layout_props its (kw_k its) (kw_a its) (kw_fs its) Hall ltac:(lia) ltac:(lia) G3 G4 Hlt) as (Hchk & Hck & Hca).
  unfold read_descriptors. rewrite hs64, ds64.
  replace (kw_fs its <? kw_n its * 64 + 64) with false by (symmetry; apply Z.ltb_ge; lia).
  assert (Hrs' : reserved_ok rs (length (layout (kw_k its) (kw_a its) its))) by (rewrite layout_length; auto).
  rewrite (take_exact (kw_n its * 64) (descs_bytes_g (layout (kw_k its) (kw_a its) its) rs)).
  2:{ unfold zlen. rewrite descs_bytes_g_length by auto. rewrite layout_length. unfold kw_n, zlen. lia. }
  replace (Z.to_nat (kw_n its)) with (length (layout (kw_k its) (kw_a its) its))
    by (rewrite layout_length; unfold kw_n, zlen; rewrite Nat2Z.id; reflexivity).
  rewrite <- (app_nil_r (descs_bytes_g (layout (kw_k its) (kw_a its) its) rs)).
  rewrite parse_descs_bytes_g by auto.
  change (koff0 (kw_n its)) with (kw_k its).
  rewrite Hck. fold (kw_a its). rewrite Hca. fold (kw_fs its). rewrite Z.eqb_refl.
  destruct its as [|it r]; [congruence|].
  cbn [layout hd d_as].
  replace (w64 (align8 (kw_a (it :: r)) - kw_k (it :: r))) with (zlen (kw_keys (it :: r)))
    by (rewrite w64_small; lia).
  replace (zlen (kw_keys (it :: r)) =? 0) with false by (symmetry; apply Z.eqb_neq; lia).
  reflexivity.
Qed.

Example ignored_bytes_ex :
  let its := sort_items [mk_item [98] 4 2 [1; 0; 0; 0; 255; 255; 255; 255]; mk_item [97; 47; 120] 1 3 [0; 255; 7]] in
  let f' := header_bytes kas_file_version_major 77 (kw_n its) (kw_fs its) (repeat 171 40)
            ++ descs_bytes_g (layout (kw_k its) (kw_a its) its) [(repeat 1 7, repeat 2 24); (repeat 3 7, repeat 255 24)]
            ++ kw_keys its ++ blocks (align8 (kw_a its)) its in
  f' <> kas_write its /\ length f' = length (kas_write its) /\ kas_decode f' = Ok (its, []).
Proof. vm_compute. repeat split; try reflexivity. discriminate. Qed.

(* ---- refuted statements: concrete witnesses on the dump of a small table collection ----
   tc0 = TableCollection(sequence_length=1.0), time_units "ticks", all tables empty, no index,
   no reference sequence; its dump is the 5188-byte file tskit writes (checked against the
   implementation by the correspondence runs).  Each witness is replayed on the real code by
   harness/props/c10.py (families subst / multi). *)
Definition tc0 : tcoll :=
  mk_tcoll [0; 0; 0; 0; 0; 0; 240; 63] (repeat 48 36) [116; 105; 99; 107; 115] [] []
           (map empty_table tsk_table_schemas) None None.
Definition f0 : list Z := tsk_dump_bytes tc0.

Example f0_loads :
  zlen f0 = 5188 /\
  match tsk_load_bytes false false f0 with Ok (tc', []) => tcoll_eqb tc' tc0 | _ => false end = true.
Proof. vm_compute. split; reflexivity. Qed.

(* F10: "altering bytes of a key makes load fail" is false for optional keys: one byte of the
   key "time_units" changed ('t' -> 'u'), the file loads, with time_units defaulted *)
Theorem optional_key_drop_refuted :
  exists p v, slice f0 4987 10 = fmt_key 4 /\ 4987 <= p < 4997 /\ byte_ok v /\ nth (Z.to_nat p) f0 0 <> v /\
    match tsk_load_bytes false false (subst_byte f0 p v) with
    | Ok (tc', []) => negb (tcoll_eqb tc' tc0) && zlist_eqb (tc_time_units tc') tsk_time_units_unknown
    | _ => false
    end = true.
Proof.
  exists 4987, 117. split; [vm_compute; reflexivity|]. split; [lia|]. split; [unfold byte_ok; lia|].
  split; [vm_compute; discriminate | vm_compute; reflexivity].
Qed.

(* F15: "altering a descriptor's array_len makes load fail" is false: the top byte of the
   array_len of populations/metadata_offset (item 45, a uint32 array of one entry) set to 0x40
   adds 2^62 entries; 2^62 * 4 wraps to 0 modulo 2^64, every kastore check passes, and the
   table layer then reads 2^62 + 1 offsets out of a 4-byte block: out-of-bounds (C: SIGSEGV) *)
Theorem array_len_wrap_refuted :
  exists p v, p = 64 + 64 * 45 + 39 /\ byte_ok v /\ nth (Z.to_nat p) f0 0 <> v /\
    is_ok (kas_open true (subst_byte f0 p v)) = true /\
    load_verdict false false (subst_byte f0 p v) = V_OOB.
Proof.
  exists (64 + 64 * 45 + 39), 64. split; [reflexivity|]. split; [unfold byte_ok; lia|].
  split; [vm_compute; discriminate|]. split; vm_compute; reflexivity.
Qed.

(* the same at the container level, on a one-item store *)
Theorem array_len_wrap_refuted_kas :
  let f := kas_encode [mk_item [97] 4 1 [1; 2; 3; 4]] in
  exists v, byte_ok v /\ nth (64 + 39) f 0 <> v /\
    is_ok (kas_open true (subst_byte f (64 + 39) v)) = true /\ kas_decode (subst_byte f (64 + 39) v) = OOB.
Proof. cbv zeta. exists 64. split; [unfold byte_ok; lia|]. split; [vm_compute; discriminate|]. split; vm_compute; reflexivity. Qed.

(* F16: array_len of the 5-byte time_units array (item 58) set to 4: the aligned end of the
   array is unchanged, the file loads, with time_units "tick" *)
Theorem array_len_slack_refuted :
  exists p v, p = 64 + 64 * 58 + 32 /\ byte_ok v /\ nth (Z.to_nat p) f0 0 <> v /\
    match tsk_load_bytes false false (subst_byte f0 p v) with
    | Ok (tc', []) => zlist_eqb (tc_time_units tc') [116; 105; 99; 107]
    | _ => false
    end = true.
Proof.
  exists (64 + 64 * 58 + 32), 4. split; [reflexivity|]. split; [unfold byte_ok; lia|].
  split; [vm_compute; discriminate | vm_compute; reflexivity].
Qed.
