(* C10: what the reader model does on files whose structural bytes were altered.
   - [read_header_fields]: the header is decoded field by field; a wrong magic, a different major
     version, a file_size below the header size are rejected at once;
   - [file_size_rejected]: any other file_size is rejected by the final packing check;
   - [ignored_bytes_identity]: minor version, reserved header bytes and reserved descriptor bytes
     never influence the result;
   - refuted statements with concrete witnesses (findings F10, F15, F16). *)
From Coq Require Import List ZArith Bool Lia.
From TskVerif Require Import Base.Common Gen.Generated C05.Bytes C05.Kastore C05.KastoreProofs C05.TskFile
  C10.Corrupt C10.TruncProofs.
Import ListNotations.
Open Scope Z_scope.

Definition header_g (magic : list Z) (major minor n fs : Z) (r : list Z) : list Z :=
  magic ++ le_enc 2 major ++ le_enc 2 minor ++ le_enc 4 n ++ le_enc 8 fs ++ r.

Lemma header_g_std minor n fs r : header_g kas_magic kas_file_version_major minor n fs r
  = header_bytes kas_file_version_major minor n fs r.
Proof. reflexivity. Qed.

Lemma read_header_fields magic major minor n fs r rest :
  length magic = 8%nat -> length r = 40%nat -> 0 <= major < 65536 -> 0 <= n < 4294967296 -> 0 <= fs < two64 ->
  read_header (header_g magic major minor n fs r ++ rest) =
    if negb (zlist_eqb magic kas_magic) then Err E_FORMAT else
    if major <? kas_file_version_major then Err E_TOO_OLD else
    if kas_file_version_major <? major then Err E_TOO_NEW else
    if fs <? kas_header_size then Err E_FORMAT else Ok (n, fs, rest).
Proof.
  intros Hm Hr Hmaj Hn Hfs.
  rewrite read_header_nonempty.
  2:{ unfold header_g. destruct magic; [discriminate Hm | discriminate]. }
  unfold read_header_body.
  set (h := header_g magic major minor n fs r).
  assert (Hh : zlen h = 64).
  { unfold zlen, h, header_g. rewrite !app_length, !le_enc_length, Hm, Hr. reflexivity. }
  rewrite hs64, (take_exact 64 h rest Hh).
  unfold h, header_g.
  rewrite (slice_at0 magic _ 8) by (rewrite Hm; reflexivity).
  destruct (negb (zlist_eqb magic kas_magic)); [reflexivity|].
  rewrite (slice_at magic (le_enc 2 major) (le_enc 2 minor ++ le_enc 4 n ++ le_enc 8 fs ++ r) 8 2)
    by (try apply le_enc_length; rewrite Hm; reflexivity).
  rewrite le16_roundtrip by lia.
  destruct (major <? kas_file_version_major); [reflexivity|].
  destruct (kas_file_version_major <? major); [reflexivity|].
  replace (magic ++ le_enc 2 major ++ le_enc 2 minor ++ le_enc 4 n ++ le_enc 8 fs ++ r)
    with ((magic ++ le_enc 2 major ++ le_enc 2 minor) ++ le_enc 4 n ++ le_enc 8 fs ++ r)
    by (rewrite <- !app_assoc; reflexivity).
  rewrite (slice_at _ (le_enc 4 n) (le_enc 8 fs ++ r) 12 4) by (rewrite ?app_length, ?le_enc_length, ?Hm; reflexivity).
  replace ((magic ++ le_enc 2 major ++ le_enc 2 minor) ++ le_enc 4 n ++ le_enc 8 fs ++ r)
    with ((magic ++ le_enc 2 major ++ le_enc 2 minor ++ le_enc 4 n) ++ le_enc 8 fs ++ r)
    by (rewrite <- !app_assoc; reflexivity).
  rewrite (slice_at _ (le_enc 8 fs) r 16 8) by (rewrite ?app_length, ?le_enc_length, ?Hm; reflexivity).
  rewrite le32_roundtrip, le64_roundtrip by lia. reflexivity.
Qed.

(* (g) magic and major version: any other value is rejected, whatever follows *)
Theorem magic_rejected read_all magic major minor n fs r rest :
  length magic = 8%nat -> length r = 40%nat -> 0 <= major < 65536 -> 0 <= n < 4294967296 -> 0 <= fs < two64 ->
  magic <> kas_magic ->
  kas_open read_all (header_g magic major minor n fs r ++ rest) = Err E_FORMAT.
Proof.
  intros Hm Hr Hmaj Hn Hfs Hne. unfold kas_open. rewrite read_header_fields by auto.
  destruct (zlist_eqb magic kas_magic) eqn:E; [apply zlist_eqb_eq in E; congruence | reflexivity].
Qed.

Theorem major_version_rejected read_all major minor n fs r rest :
  length r = 40%nat -> 0 <= major < 65536 -> 0 <= n < 4294967296 -> 0 <= fs < two64 ->
  major <> kas_file_version_major ->
  kas_open read_all (header_g kas_magic major minor n fs r ++ rest)
  = Err (if major <? kas_file_version_major then E_TOO_OLD else E_TOO_NEW).
Proof.
  intros Hr Hmaj Hn Hfs Hne. unfold kas_open. rewrite read_header_fields by (auto; reflexivity).
  rewrite zlist_eqb_refl. cbn [negb].
  destruct (major <? kas_file_version_major) eqn:E1; [reflexivity|].
  destruct (kas_file_version_major <? major) eqn:E2; [reflexivity|].
  apply Z.ltb_ge in E1, E2. lia.
Qed.

(* ---- file_size ---- *)
Lemma parse_descs_shape fs n : forall buf,
  (exists ds, parse_descs fs n buf = Ok ds) \/ (exists e, parse_descs fs n buf = Err e).
Proof.
  induction n; intros buf; cbn [parse_descs]; [left; eauto|].
  repeat match goal with |- context [if ?c then _ else _] => destruct c end; try (right; eauto; fail).
  destruct (IHn (skipn 64 buf)) as [[ds ->]|[e ->]]; [left | right]; eauto.
Qed.

Lemma parse_descs_indep fs fs' n : forall buf ds ds',
  parse_descs fs n buf = Ok ds -> parse_descs fs' n buf = Ok ds' -> ds = ds'.
Proof.
  induction n; intros buf ds ds'; cbn [parse_descs].
  - intros H1 H2. congruence.
  - repeat match goal with |- context [if ?c then _ else _] => destruct c end; try discriminate.
    destruct (parse_descs fs n (skipn 64 buf)) eqn:E1; try discriminate.
    destruct (parse_descs fs' n (skipn 64 buf)) eqn:E2; try discriminate.
    intros H1 H2. inversion H1; inversion H2; subst. f_equal. eapply IHn; eauto.
Qed.

Theorem file_size_rejected its fs' minor r40 y :
  items_ok its -> its <> [] -> length r40 = 40%nat -> 0 <= fs' < two64 -> fs' <> kw_fs its ->
  exists e, kas_open true (header_bytes kas_file_version_major minor (kw_n its) fs' r40 ++ kw_descs its ++ y) = Err e.
Proof.
  intros Hok Hne Hr Hfs' Hdiff.
  pose proof (kw_facts its Hok Hne) as (Hn & Hk & Ha & Hal & Hfs & Hlt & Hkeys).
  destruct Hok as (Hall & _ & _).
  unfold kas_open. rewrite <- header_g_std, read_header_fields by (auto; try reflexivity; try apply major_range; lia).
  rewrite zlist_eqb_refl, !Z.ltb_irrefl. cbn [negb].
  destruct (fs' <? kas_header_size); [eauto|].
  replace (kw_n its =? 0) with false by (symmetry; apply Z.eqb_neq; lia).
  assert (G3 : kw_k its + keys_len its <= kw_fs its) by (fold (kw_a its); lia).
  assert (G4 : layout_end (kw_a its) its <= kw_fs its) by (fold (kw_fs its); lia).
  destruct (layout_props its (kw_k its) (kw_a its) (kw_fs its) Hall ltac:(lia) ltac:(lia) G3 G4 Hlt) as (Hchk & Hck & Hca).
  unfold read_descriptors. rewrite hs64, ds64.
  destruct (fs' <? kw_n its * 64 + 64); [eauto|].
  rewrite (take_exact (kw_n its * 64) (kw_descs its)) by (apply kw_descs_length).
  assert (Hp : parse_descs (kw_fs its) (Z.to_nat (kw_n its)) (kw_descs its) = Ok (layout (kw_k its) (kw_a its) its)).
  { unfold kw_descs.
    replace (Z.to_nat (kw_n its)) with (length (layout (kw_k its) (kw_a its) its))
      by (rewrite layout_length; unfold kw_n, zlen; rewrite Nat2Z.id; reflexivity).
    rewrite <- (app_nil_r (descs_bytes (layout (kw_k its) (kw_a its) its))).
    apply parse_descs_bytes. exact Hchk. }
  destruct (parse_descs_shape fs' (Z.to_nat (kw_n its)) (kw_descs its)) as [[ds' E]|[e E]]; rewrite E; [|eauto].
  assert (ds' = layout (kw_k its) (kw_a its) its) by (symmetry; eapply parse_descs_indep; eauto). subst ds'.
  change (koff0 (kw_n its)) with (kw_k its).
  rewrite Hck. fold (kw_a its). rewrite Hca. fold (kw_fs its).
  replace (kw_fs its =? fs') with false by (symmetry; apply Z.eqb_neq; lia). eauto.
Qed.

(* ---- reserved bytes ---- *)
Fixpoint descs_bytes_g (ds : list rdesc) (rs : list (list Z * list Z)) : list Z :=
  match ds, rs with
  | d :: ds', (r1, r2) :: rs' => desc_bytes d r1 r2 ++ descs_bytes_g ds' rs'
  | _, _ => []
  end.

Definition reserved_ok (rs : list (list Z * list Z)) (n : nat) : Prop :=
  length rs = n /\ Forall (fun p => length (fst p) = 7%nat /\ length (snd p) = 24%nat) rs.

Lemma descs_bytes_g_length ds : forall rs, reserved_ok rs (length ds) ->
  length (descs_bytes_g ds rs) = (64 * length ds)%nat.
Proof.
  induction ds as [|d ds IH]; intros rs [Hl Hf]; [reflexivity|].
  destruct rs as [|[r1 r2] rs]; [discriminate Hl|]. inversion Hf as [|? ? [H1 H2] Hf']; subst.
  cbn [descs_bytes_g length]. rewrite app_length, desc_length, IH by (auto; split; auto). lia.
Qed.

Lemma parse_descs_bytes_g fs ds : forall rs rest,
  Forall (desc_checks fs) ds -> reserved_ok rs (length ds) ->
  parse_descs fs (length ds) (descs_bytes_g ds rs ++ rest) = Ok ds.
Proof.
  induction ds as [|d ds IH]; intros rs rest Hc [Hl Hf]; [reflexivity|].
  destruct rs as [|[r1 r2] rs]; [discriminate Hl|]. inversion Hf as [|? ? [H1 H2] Hf']; subst.
  inversion Hc as [|? ? (Hok & Ht & (Hk1 & Hk2) & (Ha1 & Ha2)) Hc']; subst. cbn [fst snd] in *.
  cbn [length parse_descs descs_bytes_g]. rewrite <- app_assoc.
  rewrite firstn_app_exact by (apply desc_length; auto).
  rewrite skipn_app_exact by (apply desc_length; auto).
  rewrite <- (app_nil_r (desc_bytes d r1 r2)), parse_desc_bytes by auto.
  replace (kas_num_types <=? d_type d) with false by (symmetry; apply Z.leb_gt; lia).
  rewrite (bound_false _ _ _ _ Hk1 Hk2), (bound_false _ _ _ _ Ha1 Ha2).
  rewrite IH by (auto; split; auto). reflexivity.
Qed.

(* (i) the reader's result does not depend on the minor version, the 40 reserved header bytes,
   or the 7 + 24 reserved bytes of every descriptor: with any values there the file reads
   exactly as the file the writer produced *)
Theorem ignored_bytes_identity its minor r40 rs y :
  items_ok its -> its <> [] -> length r40 = 40%nat -> reserved_ok rs (length its) ->
  kas_open true (header_bytes kas_file_version_major minor (kw_n its) (kw_fs its) r40
                 ++ descs_bytes_g (layout (kw_k its) (kw_a its) its) rs ++ y)
  = kas_open true (kw_header its ++ kw_descs its ++ y).
Proof.
  intros Hok Hne Hr Hrs. rewrite kas_open_prefix by auto.
  pose proof (kw_facts its Hok Hne) as (Hn & Hk & Ha & Hal & Hfs & Hlt & Hkeys).
  destruct Hok as (Hall & _ & _).
  unfold kas_open.
  rewrite read_header_ok by (auto; lia).
  replace (kw_n its =? 0) with false by (symmetry; apply Z.eqb_neq; lia).
  assert (G3 : kw_k its + keys_len its <= kw_fs its) by (fold (kw_a its); lia).
  assert (G4 : layout_end (kw_a its) its <= kw_fs its) by (fold (kw_fs its); lia).
  destruct (layout_props its (kw_k its) (kw_a its) (kw_fs its) Hall ltac:(lia) ltac:(lia) G3 G4 Hlt) as (Hchk & Hck & Hca).
  unfold read_descriptors. rewrite hs64, ds64.
  replace (kw_fs its <? kw_n its * 64 + 64) with false by (symmetry; apply Z.ltb_ge; lia).
  assert (Hrs' : reserved_ok rs (length (layout (kw_k its) (kw_a its) its))) by (rewrite layout_length; auto).
  rewrite (take_exact (kw_n its * 64) (descs_bytes_g (layout (kw_k its) (kw_a its) its) rs)).
  2:{ unfold zlen. rewrite descs_bytes_g_length by auto. rewrite layout_length. unfold kw_n, zlen. lia. }
  replace (Z.to_nat (kw_n its)) with (length (layout (kw_k its) (kw_a its) its))
    by (rewrite layout_length; unfold kw_n, zlen; rewrite Nat2Z.id; reflexivity).
  rewrite <- (app_nil_r (descs_bytes_g (layout (kw_k its) (kw_a its) its) rs)).
  rewrite parse_descs_bytes_g by auto.
  change (koff0 (kw_n its)) with (kw_k its).
  rewrite Hck. fold (kw_a its). rewrite Hca. fold (kw_fs its). rewrite Z.eqb_refl.
  destruct its as [|it r]; [congruence|].
  cbn [layout hd d_as].
  replace (w64 (align8 (kw_a (it :: r)) - kw_k (it :: r))) with (zlen (kw_keys (it :: r)))
    by (rewrite w64_small; lia).
  replace (zlen (kw_keys (it :: r)) =? 0) with false by (symmetry; apply Z.eqb_neq; lia).
  reflexivity.
Qed.

Example ignored_bytes_ex :
  let its := sort_items [mk_item [98] 4 2 [1; 0; 0; 0; 255; 255; 255; 255]; mk_item [97; 47; 120] 1 3 [0; 255; 7]] in
  let f' := header_bytes kas_file_version_major 77 (kw_n its) (kw_fs its) (repeat 171 40)
            ++ descs_bytes_g (layout (kw_k its) (kw_a its) its) [(repeat 1 7, repeat 2 24); (repeat 3 7, repeat 255 24)]
            ++ kw_keys its ++ blocks (align8 (kw_a its)) its in
  f' <> kas_write its /\ length f' = length (kas_write its) /\ kas_decode f' = Ok (its, []).
Proof. vm_compute. repeat split; try reflexivity. discriminate. Qed.

(* ---- refuted statements: concrete witnesses on the dump of a small table collection ----
   tc0 = TableCollection(sequence_length=1.0), time_units "ticks", all tables empty, no index,
   no reference sequence; its dump is the 5188-byte file tskit writes (checked against the
   implementation by the correspondence runs).  Each witness is replayed on the real code by
   harness/props/c10.py (families subst / multi). *)
Definition tc0 : tcoll :=
  mk_tcoll [0; 0; 0; 0; 0; 0; 240; 63] (repeat 48 36) [116; 105; 99; 107; 115] [] []
           (map empty_table tsk_table_schemas) None None.
Definition f0 : list Z := tsk_dump_bytes tc0.

Example f0_loads :
  zlen f0 = 5188 /\
  match tsk_load_bytes false false f0 with Ok (tc', []) => tcoll_eqb tc' tc0 | _ => false end = true.
Proof. vm_compute. split; reflexivity. Qed.

(* F10: "altering bytes of a key makes load fail" is false for optional keys: one byte of the
   key "time_units" changed ('t' -> 'u'), the file loads, with time_units defaulted *)
Theorem optional_key_drop_refuted :
  exists p v, slice f0 4987 10 = fmt_key 4 /\ 4987 <= p < 4997 /\ byte_ok v /\ nth (Z.to_nat p) f0 0 <> v /\
    match tsk_load_bytes false false (subst_byte f0 p v) with
    | Ok (tc', []) => negb (tcoll_eqb tc' tc0) && zlist_eqb (tc_time_units tc') tsk_time_units_unknown
    | _ => false
    end = true.
Proof.
  exists 4987, 117. split; [vm_compute; reflexivity|]. split; [lia|]. split; [unfold byte_ok; lia|].
  split; [vm_compute; discriminate | vm_compute; reflexivity].
Qed.

(* F15 (fixed in fd85063): the top byte of the array_len of populations/metadata_offset (item 45,
   a uint32 array of one entry) set to 0x40 adds 2^62 entries; with the wrapping bound check of
   the pinned code 2^62 * 4 wrapped to 0 and the table layer read out of bounds (SIGSEGV).  The
   repaired, non-wrapping check rejects it; the general statement is [array_len_rejected]. *)
Example array_len_wrap_now_rejected :
  let p := 64 + 64 * 45 + 39 in
  nth (Z.to_nat p) f0 0 = 0 /\ kas_open true (subst_byte f0 p 64) = Err E_FORMAT /\
  load_verdict false false (subst_byte f0 p 64) = T_KAS /\
  (let f := kas_encode [mk_item [97] 4 1 [1; 2; 3; 4]] in kas_decode (subst_byte f (64 + 39) 64) = Err E_FORMAT).
Proof. vm_compute. repeat split; reflexivity. Qed.

(* F16: array_len of the 5-byte time_units array (item 58) set to 4: the aligned end of the
   array is unchanged, the file loads, with time_units "tick" *)
Theorem array_len_slack_refuted :
  exists p v, p = 64 + 64 * 58 + 32 /\ byte_ok v /\ nth (Z.to_nat p) f0 0 <> v /\
    match tsk_load_bytes false false (subst_byte f0 p v) with
    | Ok (tc', []) => zlist_eqb (tc_time_units tc') [116; 105; 99; 107]
    | _ => false
    end = true.
Proof.
  exists (64 + 64 * 58 + 32), 4. split; [reflexivity|]. split; [unfold byte_ok; lia|].
  split; [vm_compute; discriminate | vm_compute; reflexivity].
Qed.

(* ---- (h) descriptor fields under the strict sequential packing check ---- *)
Lemma check_keys_app a : forall off b,
  check_keys off (a ++ b) = match check_keys off a with Some o => check_keys o b | None => None end.
Proof.
  induction a as [|d a IH]; intros off b; [reflexivity|].
  cbn [app check_keys]. destruct (d_ks d =? off); [apply IH | reflexivity].
Qed.

Lemma check_arrays_app a : forall off b,
  check_arrays off (a ++ b) = match check_arrays off a with Some o => check_arrays o b | None => None end.
Proof.
  induction a as [|d a IH]; intros off b; [reflexivity|].
  cbn [app check_arrays]. destruct (d_as d =? w64 (align8 off)); [apply IH | reflexivity].
Qed.

Lemma layout_app pre : forall koff aoff post,
  layout koff aoff (pre ++ post)
  = layout koff aoff pre ++ layout (koff + keys_len pre) (layout_end aoff pre) post.
Proof.
  induction pre as [|it r IH]; intros koff aoff post.
  - cbn. f_equal. lia.
  - cbn [app layout keys_len layout_end]. f_equal. rewrite IH. f_equal. f_equal. lia.
Qed.

Lemma keys_len_app a b : keys_len (a ++ b) = keys_len a + keys_len b.
Proof. induction a; cbn [app keys_len]; lia. Qed.

Lemma layout_end_app a : forall aoff b, layout_end aoff (a ++ b) = layout_end (layout_end aoff a) b.
Proof. induction a; intros; cbn [app layout_end]; auto. Qed.

Lemma parse_descs_values fs ds : forall rest ds',
  Forall rdesc_ok ds -> parse_descs fs (length ds) (descs_bytes ds ++ rest) = Ok ds' -> ds' = ds.
Proof.
  induction ds as [|d r IH]; intros rest ds' Hok H.
  - cbn in H. congruence.
  - inversion Hok as [|? ? Hd Hr]; subst.
    cbn [length parse_descs] in H. rewrite descs_bytes_cons, <- app_assoc in H.
    rewrite firstn_app_exact in H by (apply desc_length; reflexivity).
    rewrite skipn_app_exact in H by (apply desc_length; reflexivity).
    rewrite <- (app_nil_r (desc_bytes d (zeros 7) (zeros 24))), parse_desc_bytes in H by (auto; reflexivity).
    repeat match type of H with context [if ?c then _ else _] => destruct c end; try discriminate.
    destruct (parse_descs fs (length r) (descs_bytes r ++ rest)) eqn:E; try discriminate.
    inversion H; subst. f_equal. eapply IH; eauto.
Qed.

Definition set_ks (d : rdesc) (v : Z) := mk_rdesc (d_type d) v (d_kl d) (d_as d) (d_al d).
Definition set_as (d : rdesc) (v : Z) := mk_rdesc (d_type d) (d_ks d) (d_kl d) v (d_al d).

Lemma desc_checks_ok fs d : desc_checks fs d -> rdesc_ok d.
Proof. intros (H & _). exact H. Qed.

(* the descriptor of item number |pre| with one field replaced; everything else as written *)
Definition altered_descs (its pre : list item) (it : item) (post : list item) (f : rdesc -> rdesc) : list rdesc :=
  layout (kw_k its) (kw_a its) pre
  ++ f (mk_rdesc (itype it) (kw_k its + keys_len pre) (zlen (ikey it)) (align8 (layout_end (kw_a its) pre)) (ilen it))
  :: layout (kw_k its + keys_len pre + zlen (ikey it)) (align8 (layout_end (kw_a its) pre) + isize it) post.

Lemma altered_descs_id its pre it post : its = pre ++ it :: post ->
  altered_descs its pre it post (fun d => d) = layout (kw_k its) (kw_a its) its.
Proof. intros ->. unfold altered_descs. rewrite layout_app. reflexivity. Qed.

Lemma descriptor_field_rejected its pre it post (f : rdesc -> rdesc) y :
  items_ok its -> its = pre ++ it :: post ->
  (forall d, rdesc_ok d -> rdesc_ok (f d)) ->
  (check_keys (kw_k its) (altered_descs its pre it post f) = None \/
   exists o, check_keys (kw_k its) (altered_descs its pre it post f) = Some o
             /\ check_arrays o (altered_descs its pre it post f) = None) ->
  exists e, kas_open true (kw_header its ++ descs_bytes (altered_descs its pre it post f) ++ y) = Err e.
Proof.
  intros Hok Hits Hf Hchk.
  assert (Hne : its <> []) by (rewrite Hits; destruct pre; discriminate).
  pose proof (kw_facts its Hok Hne) as (Hn & Hk & Ha & Hal & Hfs & Hlt & Hkeys).
  destruct Hok as (Hall & _ & _).
  assert (G3 : kw_k its + keys_len its <= kw_fs its) by (fold (kw_a its); lia).
  assert (G4 : layout_end (kw_a its) its <= kw_fs its) by (fold (kw_fs its); lia).
  destruct (layout_props its (kw_k its) (kw_a its) (kw_fs its) Hall ltac:(lia) ltac:(lia) G3 G4 Hlt) as (Hdc & _ & _).
  assert (Hlen : length (altered_descs its pre it post f) = length its).
  { unfold altered_descs. rewrite app_length. cbn [length]. rewrite !layout_length, Hits, app_length. reflexivity. }
  assert (Hrok : Forall rdesc_ok (altered_descs its pre it post f)).
  { rewrite <- (altered_descs_id its pre it post Hits) in Hdc. unfold altered_descs in *.
    apply Forall_app in Hdc as [H1 H2]. inversion H2 as [|? ? H3 H4]; subst.
    apply Forall_app. split; [eapply Forall_impl; [|exact H1]; apply desc_checks_ok|].
    constructor; [apply Hf; eapply desc_checks_ok; eauto | eapply Forall_impl; [|exact H4]; apply desc_checks_ok]. }
  unfold kas_open, kw_header.
  rewrite read_header_ok by (try apply zeros_length; lia).
  replace (kw_n its =? 0) with false by (symmetry; apply Z.eqb_neq; lia).
  unfold read_descriptors. rewrite hs64, ds64.
  replace (kw_fs its <? kw_n its * 64 + 64) with false by (symmetry; apply Z.ltb_ge; lia).
  rewrite (take_exact (kw_n its * 64) (descs_bytes (altered_descs its pre it post f))).
  2:{ unfold zlen. rewrite descs_bytes_length, Hlen. unfold kw_n, zlen. lia. }
  replace (Z.to_nat (kw_n its)) with (length (altered_descs its pre it post f))
    by (rewrite Hlen; unfold kw_n, zlen; rewrite Nat2Z.id; reflexivity).
  destruct (parse_descs_shape (kw_fs its) (length (altered_descs its pre it post f))
              (descs_bytes (altered_descs its pre it post f))) as [[ds' E]|[e E]]; rewrite E; [|eauto].
  rewrite <- (app_nil_r (descs_bytes _)) in E. apply parse_descs_values in E; auto. subst ds'.
  change (koff0 (kw_n its)) with (kw_k its).
  destruct Hchk as [-> | (o & -> & ->)]; eauto.
Qed.

Lemma prefix_checks its pre it post : items_ok its -> its = pre ++ it :: post ->
  check_keys (kw_k its) (layout (kw_k its) (kw_a its) pre) = Some (kw_k its + keys_len pre)
  /\ check_arrays (kw_a its) (layout (kw_k its) (kw_a its) pre) = Some (layout_end (kw_a its) pre)
  /\ 0 <= kw_k its + keys_len pre < two64 /\ 0 <= align8 (layout_end (kw_a its) pre) < two64
  /\ kw_a its <= layout_end (kw_a its) pre.
Proof.
  intros Hok Hits.
  assert (Hne : its <> []) by (rewrite Hits; destruct pre; discriminate).
  pose proof (kw_facts its Hok Hne) as (Hn & Hk & Ha & Hal & Hfs & Hlt & Hkeys).
  destruct Hok as (Hall & _ & _).
  assert (Hpre : Forall item_ok pre) by (rewrite Hits in Hall; apply Forall_app in Hall; tauto).
  assert (Hrest : Forall item_ok (it :: post)) by (rewrite Hits in Hall; apply Forall_app in Hall; tauto).
  pose proof (keys_len_nonneg pre). pose proof (keys_len_nonneg (it :: post)).
  assert (Hkl : keys_len its = keys_len pre + keys_len (it :: post)) by (rewrite Hits; apply keys_len_app).
  pose proof (layout_end_ge pre (kw_a its) Hpre ltac:(lia)) as Hge1.
  assert (Hle : layout_end (kw_a its) its = layout_end (layout_end (kw_a its) pre) (it :: post))
    by (rewrite Hits at 2; apply layout_end_app).
  pose proof (layout_end_ge (it :: post) (layout_end (kw_a its) pre) Hrest ltac:(lia)) as Hge2.
  cbn [layout_end] in Hge2.
  pose proof (align8_spec (layout_end (kw_a its) pre) ltac:(lia)) as [Hal2 _].
  pose proof (Forall_inv Hrest) as Hit. pose proof (Forall_inv_tail Hrest) as Hpost.
  pose proof (isize_nonneg it Hit).
  pose proof (layout_end_ge post (align8 (layout_end (kw_a its) pre) + isize it) Hpost ltac:(lia)) as Hge3.
  assert (Hfs2 : kw_fs its = layout_end (kw_a its) its) by reflexivity.
  cbn [layout_end] in Hle.
  assert (Q1 : kw_k its + keys_len pre <= kw_fs its) by (unfold kw_a in *; lia).
  assert (Q2 : layout_end (kw_a its) pre <= kw_fs its) by lia.
  destruct (layout_props pre (kw_k its) (kw_a its) (kw_fs its) Hpre ltac:(lia) ltac:(lia) Q1 Q2 Hlt) as (_ & Hck & Hca).
  repeat split; auto; try lia.
Qed.

(* key_start: any other value is rejected *)
Theorem key_start_rejected its pre it post v y :
  items_ok its -> its = pre ++ it :: post -> 0 <= v < two64 -> v <> kw_k its + keys_len pre ->
  exists e, kas_open true (kw_header its ++ descs_bytes (altered_descs its pre it post (fun d => set_ks d v)) ++ y) = Err e.
Proof.
  intros Hok Hits Hv Hne.
  destruct (prefix_checks its pre it post Hok Hits) as (Hck & _ & _).
  apply descriptor_field_rejected; auto.
  - intros d (H1 & H2 & H3). unfold rdesc_ok, set_ks. cbn. tauto.
  - left. unfold altered_descs. rewrite check_keys_app, Hck. cbn [check_keys set_ks d_ks].
    replace (v =? kw_k its + keys_len pre) with false by (symmetry; apply Z.eqb_neq; lia). reflexivity.
Qed.

(* array_start: any other value is rejected *)
Theorem array_start_rejected its pre it post v y :
  items_ok its -> its = pre ++ it :: post -> 0 <= v < two64 -> v <> align8 (layout_end (kw_a its) pre) ->
  exists e, kas_open true (kw_header its ++ descs_bytes (altered_descs its pre it post (fun d => set_as d v)) ++ y) = Err e.
Proof.
  intros Hok Hits Hv Hne.
  destruct (prefix_checks its pre it post Hok Hits) as (Hck & Hca & Hk1 & Ha1 & Hge).
  apply descriptor_field_rejected; auto.
  - intros d (H1 & H2 & H3 & H4 & H5). unfold rdesc_ok, set_as. cbn. tauto.
  - destruct (check_keys (kw_k its) (altered_descs its pre it post (fun d => set_as d v))) as [o|] eqn:E; [right | left; auto].
    exists o. split; auto.
    (* the keys pass, so the array check starts at the end of the keys = kw_a its *)
    assert (o = kw_a its).
    { assert (Hne' : its <> []) by (rewrite Hits; destruct pre; discriminate).
      pose proof (kw_facts its Hok Hne') as (Hn & Hk & Ha & Hal & Hfs & Hlt & Hkeys).
      destruct Hok as (Hall & _ & _).
      assert (G3 : kw_k its + keys_len its <= kw_fs its) by (fold (kw_a its); lia).
      assert (G4 : layout_end (kw_a its) its <= kw_fs its) by (fold (kw_fs its); lia).
      destruct (layout_props its (kw_k its) (kw_a its) (kw_fs its) Hall ltac:(lia) ltac:(lia) G3 G4 Hlt) as (_ & Hck2 & _).
      rewrite <- (altered_descs_id its pre it post Hits) in Hck2.
      unfold altered_descs in *. rewrite check_keys_app in E, Hck2. rewrite Hck in E, Hck2.
      cbn [check_keys set_as d_ks d_kl] in E, Hck2. rewrite E in Hck2. inversion Hck2. reflexivity. }
    subst o. unfold altered_descs. rewrite check_arrays_app, Hca. cbn [check_arrays set_as d_as].
    rewrite w64_small by lia.
    replace (v =? align8 (layout_end (kw_a its) pre)) with false by (symmetry; apply Z.eqb_neq; lia). reflexivity.
Qed.

Example key_start_rejected_ex :
  let its := sort_items [mk_item [98] 4 2 [1; 0; 0; 0; 255; 255; 255; 255]; mk_item [97; 47; 120] 1 3 [0; 255; 7]] in
  exists pre it post, its = pre ++ it :: post /\ pre <> [] /\
    forallb (fun v => negb (is_ok (kas_open true (kw_header its ++ descs_bytes (altered_descs its pre it post (fun d => set_ks d v))
                                                   ++ kw_keys its ++ blocks (align8 (kw_a its)) its))))
            [0; 1; 194; 196; 18446744073709551615] = true
    /\ is_ok (kas_open true (kw_header its ++ descs_bytes (altered_descs its pre it post (fun d => set_ks d 195))
                                                   ++ kw_keys its ++ blocks (align8 (kw_a its)) its)) = true.
Proof.
  cbv zeta. eexists [_], _, []. split; [vm_compute; reflexivity|]. split; [discriminate|]. vm_compute. split; reflexivity.
Qed.

(* ---- (g) num_items ---- *)
Lemma layout_cons koff aoff it r :
  layout koff aoff (it :: r) = mk_rdesc (itype it) koff (zlen (ikey it)) (align8 aoff) (ilen it)
                                 :: layout (koff + zlen (ikey it)) (align8 aoff + isize it) r.
Proof. reflexivity. Qed.

Lemma parse_descs_head fs m buf ds : parse_descs fs (S m) buf = Ok ds ->
  exists r, ds = parse_desc (firstn 64 buf) :: r.
Proof.
  cbn [parse_descs].
  repeat match goal with |- context [if ?c then _ else _] => destruct c end; try discriminate.
  destruct (parse_descs fs m (skipn 64 buf)); try discriminate. intros H. inversion H. eauto.
Qed.

Theorem num_items_rejected its n' minor r40 y :
  items_ok its -> its <> [] -> length r40 = 40%nat -> 0 <= n' < 4294967296 -> n' <> kw_n its ->
  exists e, kas_open true (header_bytes kas_file_version_major minor n' (kw_fs its) r40 ++ kw_descs its ++ y) = Err e.
Proof.
  intros Hok Hne Hr Hn' Hdiff.
  pose proof (kw_facts its Hok Hne) as (Hn & Hk & Ha & Hal & Hfs & Hlt & Hkeys).
  destruct Hok as (Hall & _ & _).
  unfold kas_open. rewrite read_header_ok by (auto; lia).
  destruct (n' =? 0) eqn:E0.
  { rewrite hs64. replace (kw_fs its =? 64) with false by (symmetry; apply Z.eqb_neq; lia). eauto. }
  apply Z.eqb_neq in E0.
  unfold read_descriptors. rewrite hs64, ds64.
  destruct (kw_fs its <? n' * 64 + 64); [eauto|].
  destruct (take (n' * 64) (kw_descs its ++ y)) as [[buf rest]|] eqn:Et; [|eauto].
  destruct (parse_descs_shape (kw_fs its) (Z.to_nat n') buf) as [[ds' E]|[e E]]; rewrite E; [|eauto].
  assert (Hs : Z.to_nat n' = S (Z.to_nat (n' - 1))) by lia. rewrite Hs in E.
  apply parse_descs_head in E as [r ->].
  (* the first 64 bytes of the buffer are the first descriptor as written *)
  destruct its as [|it its']; [congruence|].
  assert (Hb : firstn 64 buf = desc_bytes (mk_rdesc (itype it) (kw_k (it :: its')) (zlen (ikey it)) (align8 (kw_a (it :: its'))) (ilen it)) (zeros 7) (zeros 24)).
  { apply take_Some in Et as [Hsplit Hlb].
    assert (Hl64 : (64 <= length buf)%nat) by (unfold zlen in Hlb; lia).
    assert (Hf : firstn 64 (buf ++ rest) = firstn 64 buf).
    { rewrite firstn_app. replace (64 - length buf)%nat with 0%nat by lia. rewrite firstn_O, app_nil_r. reflexivity. }
    rewrite <- Hf, <- Hsplit.
    unfold kw_descs. rewrite layout_cons, descs_bytes_cons, <- app_assoc.
    apply firstn_app_exact. apply desc_length; reflexivity. }
  rewrite Hb.
  assert (G3 : kw_k (it :: its') + keys_len (it :: its') <= kw_fs (it :: its')) by (fold (kw_a (it :: its')); lia).
  assert (G4 : layout_end (kw_a (it :: its')) (it :: its') <= kw_fs (it :: its')) by (fold (kw_fs (it :: its')); lia).
  destruct (layout_props (it :: its') (kw_k (it :: its')) (kw_a (it :: its')) (kw_fs (it :: its')) Hall ltac:(lia) ltac:(lia) G3 G4 Hlt) as (Hdc & _ & _).
  rewrite layout_cons in Hdc. inversion Hdc as [|? ? Hd0 _]; subst.
  rewrite <- (app_nil_r (desc_bytes _ _ _)), parse_desc_bytes by (try reflexivity; eapply desc_checks_ok; eauto).
  cbn [check_keys d_ks].
  replace (kw_k (it :: its') =? koff0 n') with false; [eauto|].
  symmetry. apply Z.eqb_neq. unfold koff0. rewrite hs64, ds64. lia.
Qed.

(* F19 (fixed in cfb2bb6): the data bytes of sequence_length (item 51, array at 5120..5127) altered
   to a NaN (7FF8 0000 0000 0000).  The pinned test `L[0] <= 0.0` was false for a NaN
   ([double_le_zero_pinned], historical record); the repaired `!(L[0] > 0.0)` rejects it. *)
Theorem nan_sequence_length_pinned_refuted :
  double_le_zero_pinned [0; 0; 0; 0; 0; 0; 248; 127] = false.
Proof. vm_compute. reflexivity. Qed.

Theorem nan_sequence_length_rejected :
  slice f0 5120 8 = [0; 0; 0; 0; 0; 0; 240; 63] /\
  double_not_positive [0; 0; 0; 0; 0; 0; 248; 127] = true /\
  load_verdict false false (subst_many f0 [(5126, [248; 127])]) = T_BAD_SEQUENCE_LENGTH /\
  load_verdict false false f0 = V_LOADED.
Proof. vm_compute. repeat split; reflexivity. Qed.

(* ---- (h) key_len and array_len under the repaired (non-wrapping) bound checks ---- *)
Definition bounds (fs : Z) (d : rdesc) : Prop :=
  d_kl d <= fs /\ d_ks d <= fs - d_kl d /\ d_as d <= fs /\ d_al d <= (fs - d_as d) / type_size (d_type d).

Lemma parse_descs_ok_bounds fs n : forall buf ds, parse_descs fs n buf = Ok ds -> Forall (bounds fs) ds.
Proof.
  induction n; intros buf ds; cbn [parse_descs].
  - intros H. inversion H. constructor.
  - set (d := parse_desc (firstn 64 buf)).
    destruct (kas_num_types <=? d_type d); [discriminate|].
    destruct ((fs <? d_kl d) || (fs - d_kl d <? d_ks d)) eqn:E1; [discriminate|].
    destruct ((fs <? d_as d) || ((fs - d_as d) / type_size (d_type d) <? d_al d)) eqn:E2; [discriminate|].
    destruct (parse_descs fs n (skipn 64 buf)) eqn:E3; try discriminate.
    intros H. inversion H; subst. constructor; [|eapply IHn; eauto].
    apply orb_false_iff in E1 as [A1 A2]. apply orb_false_iff in E2 as [B1 B2].
    apply Z.ltb_ge in A1, A2, B1, B2. unfold bounds. tauto.
Qed.

Lemma parse_descs_ok_types fs n : forall buf ds, parse_descs fs n buf = Ok ds -> Forall (fun d => d_type d < kas_num_types) ds.
Proof.
  induction n; intros buf ds; cbn [parse_descs].
  - intros H. inversion H. constructor.
  - set (d := parse_desc (firstn 64 buf)).
    destruct (kas_num_types <=? d_type d) eqn:E0; [discriminate|].
    destruct ((fs <? d_kl d) || (fs - d_kl d <? d_ks d)); [discriminate|].
    destruct ((fs <? d_as d) || ((fs - d_as d) / type_size (d_type d) <? d_al d)); [discriminate|].
    destruct (parse_descs fs n (skipn 64 buf)) eqn:E3; try discriminate.
    intros H. inversion H; subst. constructor; [apply Z.leb_gt in E0; exact E0 | eapply IHn; eauto].
Qed.

Definition bounds_t (fs : Z) (d : rdesc) : Prop := bounds fs d /\ d_type d < kas_num_types.

Definition set_kl (d : rdesc) (v : Z) := mk_rdesc (d_type d) (d_ks d) v (d_as d) (d_al d).
Definition set_al (d : rdesc) (v : Z) := mk_rdesc (d_type d) (d_ks d) (d_kl d) (d_as d) v.

(* like descriptor_field_rejected, but the packing argument may use the per-descriptor bounds
   (they hold whenever the first loop of kastore_read_descriptors did not already reject) *)
Lemma descriptor_field_rejected_b its pre it post (f : rdesc -> rdesc) y :
  items_ok its -> its = pre ++ it :: post ->
  (forall d, rdesc_ok d -> rdesc_ok (f d)) ->
  (Forall (bounds_t (kw_fs its)) (altered_descs its pre it post f) ->
   check_keys (kw_k its) (altered_descs its pre it post f) = None \/
   exists o, check_keys (kw_k its) (altered_descs its pre it post f) = Some o
             /\ (check_arrays o (altered_descs its pre it post f) = None \/
                 exists o2, check_arrays o (altered_descs its pre it post f) = Some o2 /\ o2 <> kw_fs its)) ->
  exists e, kas_open true (kw_header its ++ descs_bytes (altered_descs its pre it post f) ++ y) = Err e.
Proof.
  intros Hok Hits Hf Hchk.
  assert (Hne : its <> []) by (rewrite Hits; destruct pre; discriminate).
  pose proof (kw_facts its Hok Hne) as (Hn & Hk & Ha & Hal & Hfs & Hlt & Hkeys).
  destruct Hok as (Hall & _ & _).
  assert (G3 : kw_k its + keys_len its <= kw_fs its) by (fold (kw_a its); lia).
  assert (G4 : layout_end (kw_a its) its <= kw_fs its) by (fold (kw_fs its); lia).
  destruct (layout_props its (kw_k its) (kw_a its) (kw_fs its) Hall ltac:(lia) ltac:(lia) G3 G4 Hlt) as (Hdc & _ & _).
  assert (Hlen : length (altered_descs its pre it post f) = length its).
  { unfold altered_descs. rewrite app_length. cbn [length]. rewrite !layout_length, Hits, app_length. reflexivity. }
  assert (Hrok : Forall rdesc_ok (altered_descs its pre it post f)).
  { rewrite <- (altered_descs_id its pre it post Hits) in Hdc. unfold altered_descs in *.
    apply Forall_app in Hdc as [H1 H2]. inversion H2 as [|? ? H3 H4]; subst.
    apply Forall_app. split; [eapply Forall_impl; [|exact H1]; apply desc_checks_ok|].
    constructor; [apply Hf; eapply desc_checks_ok; eauto | eapply Forall_impl; [|exact H4]; apply desc_checks_ok]. }
  unfold kas_open, kw_header.
  rewrite read_header_ok by (try apply zeros_length; lia).
  replace (kw_n its =? 0) with false by (symmetry; apply Z.eqb_neq; lia).
  unfold read_descriptors. rewrite hs64, ds64.
  replace (kw_fs its <? kw_n its * 64 + 64) with false by (symmetry; apply Z.ltb_ge; lia).
  rewrite (take_exact (kw_n its * 64) (descs_bytes (altered_descs its pre it post f))).
  2:{ unfold zlen. rewrite descs_bytes_length, Hlen. unfold kw_n, zlen. lia. }
  replace (Z.to_nat (kw_n its)) with (length (altered_descs its pre it post f))
    by (rewrite Hlen; unfold kw_n, zlen; rewrite Nat2Z.id; reflexivity).
  destruct (parse_descs_shape (kw_fs its) (length (altered_descs its pre it post f))
              (descs_bytes (altered_descs its pre it post f))) as [[ds' E]|[e E]]; rewrite E; [|eauto].
  assert (Hb : Forall (bounds_t (kw_fs its)) ds').
  { pose proof (parse_descs_ok_bounds _ _ _ _ E) as Hb1. pose proof (parse_descs_ok_types _ _ _ _ E) as Hb2.
    clear -Hb1 Hb2. induction Hb1; inversion Hb2; subst; constructor; [split; auto | auto]. }
  rewrite <- (app_nil_r (descs_bytes _)) in E. apply parse_descs_values in E; auto. subst ds'.
  change (koff0 (kw_n its)) with (kw_k its).
  destruct (Hchk Hb) as [-> | (o & -> & [-> | (o2 & -> & Ho2)])]; eauto.
  replace (o2 =? kw_fs its) with false by (symmetry; apply Z.eqb_neq; auto). eauto.
Qed.

Lemma altered_keys_pass its pre it post f : items_ok its -> its = pre ++ it :: post ->
  (forall d, d_ks (f d) = d_ks d /\ d_kl (f d) = d_kl d) ->
  check_keys (kw_k its) (altered_descs its pre it post f) = Some (kw_a its).
Proof.
  intros Hok Hits Hf.
  assert (Hne : its <> []) by (rewrite Hits; destruct pre; discriminate).
  pose proof (kw_facts its Hok Hne) as (Hn & Hk & Ha & Hal & Hfs & Hlt & Hkeys).
  destruct (prefix_checks its pre it post Hok Hits) as (Hck & _).
  destruct Hok as (Hall & _ & _).
  assert (G3 : kw_k its + keys_len its <= kw_fs its) by (fold (kw_a its); lia).
  assert (G4 : layout_end (kw_a its) its <= kw_fs its) by (fold (kw_fs its); lia).
  destruct (layout_props its (kw_k its) (kw_a its) (kw_fs its) Hall ltac:(lia) ltac:(lia) G3 G4 Hlt) as (_ & Hck2 & _).
  rewrite <- (altered_descs_id its pre it post Hits) in Hck2.
  unfold altered_descs in *. rewrite check_keys_app in Hck2 |- *. rewrite Hck in Hck2 |- *.
  cbn [check_keys] in Hck2 |- *. destruct (Hf (mk_rdesc (itype it) (kw_k its + keys_len pre) (zlen (ikey it))
                                               (align8 (layout_end (kw_a its) pre)) (ilen it))) as [E1 E2].
  rewrite E1, E2. exact Hck2.
Qed.

Lemma kw_fs_split its pre it post : its = pre ++ it :: post ->
  kw_fs its = layout_end (align8 (layout_end (kw_a its) pre) + isize it) post.
Proof. intros Hits. unfold kw_fs. rewrite Hits at 2. rewrite layout_end_app. reflexivity. Qed.

(* array_len: every other value is rejected, except inside the alignment slack (finding F16):
   the end of the array, aligned up, must differ (for the last array: the end itself) *)
Theorem array_len_rejected its pre it post v y :
  items_ok its -> its = pre ++ it :: post -> kw_fs its + 8 <= two64 -> 0 <= v < two64 ->
  (let a := align8 (layout_end (kw_a its) pre) in
   match post with
   | [] => a + v * type_size (itype it) <> a + isize it
   | _ => align8 (a + v * type_size (itype it)) <> align8 (a + isize it)
   end) ->
  exists e, kas_open true (kw_header its ++ descs_bytes (altered_descs its pre it post (fun d => set_al d v)) ++ y) = Err e.
Proof.
  intros Hok Hits Hbig Hv Hdiff. cbv zeta in Hdiff.
  destruct (prefix_checks its pre it post Hok Hits) as (_ & Hca & Hk1 & Ha1 & Hge).
  apply descriptor_field_rejected_b; auto.
  - intros d (H1 & H2 & H3 & H4 & H5). unfold rdesc_ok, set_al. cbn. tauto.
  - intros Hb. right. exists (kw_a its). split.
    + apply altered_keys_pass; auto; try (intros d; split; reflexivity).
    + unfold altered_descs in *. apply Forall_app in Hb as [_ Hb]. apply Forall_inv in Hb as Hbd.
      destruct Hbd as [(_ & _ & Hb3 & Hb4) _]. cbn [set_al d_as d_al d_type] in Hb3, Hb4.
      set (a := align8 (layout_end (kw_a its) pre)) in *.
      assert (Hts : 1 <= type_size (itype it) <= 8).
      { destruct Hok as (Hall & _). rewrite Hits in Hall. apply Forall_app in Hall as [_ Hall].
        apply Forall_inv in Hall. destruct Hall as (Ht & _). apply type_size_pos; auto. }
      assert (Hend : a + v * type_size (itype it) <= kw_fs its).
      { pose proof (Z.mul_div_le (kw_fs its - a) (type_size (itype it)) ltac:(lia)). nia. }
      rewrite check_arrays_app, Hca. cbn [check_arrays set_al d_as d_al d_type]. fold a.
      rewrite (w64_small a) by lia. rewrite Z.eqb_refl.
      rewrite (w64_small (a + v * type_size (itype it))) by lia.
      destruct post as [|it2 r2].
      * right. cbn [layout check_arrays]. eexists. split; [reflexivity|].
        rewrite (kw_fs_split its pre it [] Hits). cbn [layout_end]. fold a. exact Hdiff.
      * left. cbn [layout check_arrays d_as].
        pose proof (align8_spec (a + v * type_size (itype it)) ltac:(lia)) as [Hx _].
        rewrite w64_small by lia.
        replace (align8 (a + isize it) =? align8 (a + v * type_size (itype it))) with false; [reflexivity|].
        symmetry. apply Z.eqb_neq. intros E. apply Hdiff. symmetry. exact E.
Qed.

(* key_len: every other value is rejected; for the LAST key only outside the padding before the
   first array *)
Theorem key_len_rejected its pre it post v y :
  items_ok its -> its = pre ++ it :: post -> kw_fs its + 8 <= two64 -> 0 <= v < two64 ->
  v <> zlen (ikey it) ->
  (post = [] -> align8 (kw_k its + keys_len pre + v) <> align8 (kw_a its)) ->
  exists e, kas_open true (kw_header its ++ descs_bytes (altered_descs its pre it post (fun d => set_kl d v)) ++ y) = Err e.
Proof.
  intros Hok Hits Hbig Hv Hne Hlast.
  destruct (prefix_checks its pre it post Hok Hits) as (Hck & _ & Hk1 & Ha1 & Hge).
  assert (Hne' : its <> []) by (rewrite Hits; destruct pre; discriminate).
  pose proof (kw_facts its Hok Hne') as (Hn & Hk & Ha & Hal & Hfs & Hlt & Hkeys).
  apply descriptor_field_rejected_b; auto.
  - intros d (H1 & H2 & H3 & H4 & H5). unfold rdesc_ok, set_kl. cbn. tauto.
  - intros Hb. unfold altered_descs in *.
    apply Forall_app in Hb as [_ Hb]. apply Forall_inv in Hb as Hbd.
    destruct Hbd as [(Hb1 & Hb2 & _) _]. cbn [set_kl d_ks d_kl] in Hb1, Hb2.
    rewrite check_keys_app, Hck. cbn [check_keys set_kl d_ks d_kl]. rewrite Z.eqb_refl.
    rewrite (w64_small (kw_k its + keys_len pre + v)) by lia.
    destruct post as [|it2 r2].
    + right. cbn [layout check_keys]. eexists. split; [reflexivity|]. left.
      specialize (Hlast eq_refl).
      pose proof (align8_spec (kw_k its + keys_len pre + v) ltac:(lia)) as [Hx _].
      (* the first descriptor of the list carries the first array start = align8 (kw_a its) *)
      destruct pre as [|p0 pre'].
      * cbn [layout app check_arrays set_kl d_as layout_end].
        rewrite w64_small by lia.
        replace (align8 (kw_a its) =? align8 (kw_k its + keys_len [] + v)) with false; [reflexivity|].
        symmetry. apply Z.eqb_neq. intros E. apply Hlast. symmetry. exact E.
      * cbn [layout app check_arrays d_as].
        rewrite w64_small by lia.
        replace (align8 (kw_a its) =? align8 (kw_k its + keys_len (p0 :: pre') + v)) with false; [reflexivity|].
        symmetry. apply Z.eqb_neq. intros E. apply Hlast. symmetry. exact E.
    + left. cbn [layout check_keys d_ks].
      replace (kw_k its + keys_len pre + zlen (ikey it) =? kw_k its + keys_len pre + v) with false; [reflexivity|].
      symmetry. apply Z.eqb_neq. lia.
Qed.

Example array_len_rejected_ex :
  let its := sort_items [mk_item [98] 4 2 [1; 0; 0; 0; 255; 255; 255; 255]; mk_item [97; 47; 120] 1 3 [0; 255; 7]] in
  exists pre it post, its = pre ++ it :: post /\ post <> [] /\ kw_fs its + 8 <= two64 /\
    (* 3 bytes at an aligned start: lengths 1..8 share the aligned end (slack), 0 and 9.. do not *)
    forallb (fun v => negb (is_ok (kas_open true (kw_header its ++ descs_bytes (altered_descs its pre it post (fun d => set_al d v))
                                                   ++ kw_keys its ++ blocks (align8 (kw_a its)) its))))
            [0; 9; 16; 4611686018427387907; 18446744073709551615] = true
    /\ forallb (fun v => is_ok (kas_open true (kw_header its ++ descs_bytes (altered_descs its pre it post (fun d => set_al d v))
                                                   ++ kw_keys its ++ blocks (align8 (kw_a its)) its)))
            [1; 2; 3; 8] = true.
Proof.
  cbv zeta. eexists [], _, [_]. split; [vm_compute; reflexivity|]. split; [discriminate|]. vm_compute.
  split; [discriminate|]. split; reflexivity.
Qed.

(* ---- lazy mode (skip_tables / skip_reference_sequence) and truncation ---- *)
Lemma blocks_length its : forall aoff, Forall item_ok its -> 0 <= aoff -> its <> [] ->
  zlen (blocks (align8 aoff) its) = layout_end aoff its - align8 aoff.
Proof.
  induction its as [|it r IH]; intros aoff H Ha Hne; [congruence|].
  pose proof (Forall_inv H) as Hit. pose proof (Forall_inv_tail H) as Hr.
  pose proof (align8_spec aoff Ha) as [Hal _]. pose proof (isize_nonneg it Hit) as Hsz.
  assert (Hd : zlen (idata it) = isize it) by (destruct Hit as (_ & _ & Hd & _); exact Hd).
  cbn [blocks layout_end]. destruct r as [|it2 r2].
  - cbn [blocks layout_end]. rewrite !app_nil_r. lia.
  - rewrite !zlen_app, Hd. pose proof (align8_spec (align8 aoff + isize it) ltac:(lia)) as [Hal2 _].
    rewrite zlen_zeros by lia. rewrite IH by (auto; try lia; discriminate). lia.
Qed.

Lemma last_map {A B} (f : A -> B) l da : l <> [] -> last (map f l) (f da) = f (last l da).
Proof. induction l as [|x l IH]; [congruence|]. intros _. destruct l; [reflexivity|]. apply IH. discriminate. Qed.

(* In lazy mode a truncated file is either rejected when it is opened, or it is opened and the
   LAST array (non-empty; in a tskit file the required 36-byte uuid) cannot be read any more:
   kastore_get on it reports a format error.  So a truncated tskit file never loads on the
   skip_tables / skip_reference_sequence paths either. *)
Theorem lazy_truncation its pre it p q :
  items_ok its -> its = pre ++ [it] -> 0 < isize it -> kas_write its = p ++ q -> q <> [] ->
  kas_open false p = Err (match p with [] => E_EOF | _ => E_FORMAT end)
  \/ exists rs r, kas_open false p = Ok (rs ++ [r], []) /\ length rs = length pre
                  /\ rtype r = itype it /\ rlen r = ilen it /\ rblock r = Err E_FORMAT.
Proof.
  intros Hok Hits Hsz Hw Hq.
  destruct p as [|b0 p0]; [left; reflexivity|]. set (p := b0 :: p0) in *.
  assert (Hpne : p <> []) by (unfold p; discriminate).
  destruct (truncation_cases false its p q Hok Hw Hq Hpne) as [H|(_ & Hne & l3 & Hp & Hb)]; [left; exact H|].
  right.
  pose proof (kw_facts its Hok Hne) as (Hn & Hk & Ha & Hal & Hfs & Hlt & Hkeys).
  assert (Hall : Forall item_ok its) by (destruct Hok; auto).
  assert (Hopen : kas_open false p = Ok (lazy_items (kw_k its) (kw_keys its) p (layout (kw_k its) (kw_a its) its), [])).
  { rewrite Hp at 1. rewrite (kas_open_prefix_any false) by auto. rewrite take_app. rewrite <- Hp. reflexivity. }
  (* the length of what is there is below the end of the last array *)
  assert (Hlen : zlen p < kw_fs its).
  { pose proof (blocks_length its (kw_a its) Hall ltac:(lia) Hne) as Hbl. rewrite Hb, zlen_app in Hbl.
    rewrite Hp, !zlen_app, kw_header_length, kw_descs_length, Hkeys. fold (kw_fs its) in Hbl.
    assert (1 <= zlen q) by (destruct q; [congruence | rewrite zlen_cons; pose proof (zlen_nonneg q); lia]).
    unfold kw_n in *. lia. }
  rewrite <- (altered_descs_id its pre it [] Hits) in Hopen. unfold altered_descs in Hopen. cbn [layout] in Hopen.
  unfold lazy_items in Hopen. rewrite map_app in Hopen. cbn [map d_al d_type d_as d_ks d_kl] in Hopen.
  eexists _, _. split; [exact Hopen|]. split; [rewrite map_length, layout_length; reflexivity|].
  split; [reflexivity|]. split; [reflexivity|]. cbn [rblock].
  fold (isize it).
  assert (Hfs2 : kw_fs its = align8 (layout_end (kw_a its) pre) + isize it).
  { rewrite (kw_fs_split its pre it [] Hits). reflexivity. }
  destruct (prefix_checks its pre it [] Hok Hits) as (_ & _ & _ & Ha1 & _).
  rewrite w64_small by lia.
  replace (isize it =? 0) with false by (symmetry; apply Z.eqb_neq; lia).
  replace (zlen p <? align8 (layout_end (kw_a its) pre) + isize it) with true by (symmetry; apply Z.ltb_lt; lia).
  reflexivity.
Qed.

Example lazy_truncation_ex :
  (* on the 5188-byte file f0 the last item is the 36-byte uuid: cut anywhere inside it, the lazy
     reader opens the store, the table layer then fails on the uuid *)
  forallb (fun n => is_ok (kas_open false (firstn n f0)) && (load_verdict true false (firstn n f0) =? T_KAS)
                    && (load_verdict false true (firstn n f0) =? T_KAS))
          (map (fun i => Z.to_nat (5153 + Z.of_nat i)) (seq 0 35)) = true
  /\ load_verdict true false f0 = V_LOADED.
Proof. vm_compute. split; reflexivity. Qed.

(* type byte: any other type whose element size moves the (aligned) end of the array is rejected
   by the container (unknown types by the type-range check); same-size types pass the container
   and are rejected by the table layer's column type check (differential), up to the one-entry
   offset-column slack (finding F17) *)
Definition set_type (d : rdesc) (t : Z) := mk_rdesc t (d_ks d) (d_kl d) (d_as d) (d_al d).

Theorem type_rejected its pre it post t y :
  items_ok its -> its = pre ++ it :: post -> kw_fs its + 8 <= two64 -> 0 <= t < 256 ->
  (t < kas_num_types ->
   let a := align8 (layout_end (kw_a its) pre) in
   match post with
   | [] => a + ilen it * type_size t <> a + isize it
   | _ => align8 (a + ilen it * type_size t) <> align8 (a + isize it)
   end) ->
  exists e, kas_open true (kw_header its ++ descs_bytes (altered_descs its pre it post (fun d => set_type d t)) ++ y) = Err e.
Proof.
  intros Hok Hits Hbig Ht Hdiff. cbv zeta in Hdiff.
  destruct (prefix_checks its pre it post Hok Hits) as (_ & Hca & Hk1 & Ha1 & Hge).
  apply descriptor_field_rejected_b; auto.
  - intros d (H1 & H2 & H3 & H4 & H5). unfold rdesc_ok, set_type. cbn. tauto.
  - intros Hb. right. exists (kw_a its). split.
    + apply altered_keys_pass; auto; try (intros d; split; reflexivity).
    + unfold altered_descs in *. apply Forall_app in Hb as [_ Hb]. apply Forall_inv in Hb as Hbd.
      destruct Hbd as [(_ & _ & Hb3 & Hb4) Hlt]. cbn [set_type d_as d_al d_type] in Hb3, Hb4, Hlt.
      specialize (Hdiff Hlt).
      set (a := align8 (layout_end (kw_a its) pre)) in *.
      assert (Hts : 1 <= type_size t <= 8) by (apply type_size_pos; lia).
      assert (Hil : 0 <= ilen it).
      { destruct Hok as (Hall & _). rewrite Hits in Hall. apply Forall_app in Hall as [_ Hall].
        apply Forall_inv in Hall. destruct Hall as (_ & Hl & _). exact Hl. }
      assert (Hend : a + ilen it * type_size t <= kw_fs its).
      { pose proof (Z.mul_div_le (kw_fs its - a) (type_size t) ltac:(lia)). nia. }
      rewrite check_arrays_app, Hca. cbn [check_arrays set_type d_as d_al d_type]. fold a.
      rewrite (w64_small a) by lia. rewrite Z.eqb_refl.
      rewrite (w64_small (a + ilen it * type_size t)) by nia.
      destruct post as [|it2 r2].
      * right. cbn [layout check_arrays]. eexists. split; [reflexivity|].
        rewrite (kw_fs_split its pre it [] Hits). cbn [layout_end]. fold a. exact Hdiff.
      * left. cbn [layout check_arrays d_as].
        pose proof (align8_spec (a + ilen it * type_size t) ltac:(nia)) as [Hx _].
        rewrite w64_small by lia.
        replace (align8 (a + isize it) =? align8 (a + ilen it * type_size t)) with false; [reflexivity|].
        symmetry. apply Z.eqb_neq. intros E. apply Hdiff. symmetry. exact E.
Qed.

(* ---- lazy reads at a store offset: object j of a concatenation reads as it does alone ---- *)
Lemma kas_write_length its : items_ok its -> its <> [] -> zlen (kas_write its) = kw_fs its.
Proof.
  intros Hok Hne. pose proof (kw_facts its Hok Hne) as (Hn & Hk & Ha & Hal & Hfs & Hlt & Hkeys).
  destruct Hok as (Hall & _ & _).
  rewrite (kas_write_parts its Hne), !zlen_app, kw_header_length, kw_descs_length, Hkeys.
  rewrite (blocks_length its (kw_a its) Hall ltac:(lia) Hne). fold (kw_fs its). unfold kw_n in *. lia.
Qed.

Lemma slice_app_left (f rest : list Z) a n : 0 <= a -> 0 <= n -> a + n <= zlen f -> slice (f ++ rest) a n = slice f a n.
Proof.
  intros Ha Hn Hb. unfold slice. rewrite skipn_app.
  replace (Z.to_nat a - length f)%nat with 0%nat by (unfold zlen in Hb; lia). cbn [skipn].
  rewrite firstn_app. rewrite skipn_length.
  replace (Z.to_nat n - (length f - Z.to_nat a))%nat with 0%nat by (unfold zlen in Hb; lia).
  rewrite firstn_O, app_nil_r. reflexivity.
Qed.

(* kastore_read_item seeks to file_offset + array_start: whatever follows the store on the stream
   (further objects) does not influence what a lazy open returns *)
Theorem lazy_open_ignores_rest its rest : items_ok its -> its <> [] ->
  kas_open false (kas_write its ++ rest) = kas_open false (kas_write its).
Proof.
  intros Hok Hne. pose proof (kas_write_length its Hok Hne) as Hlen.
  pose proof (kw_facts its Hok Hne) as (Hn & Hk & Ha & Hal & Hfs & Hlt & Hkeys).
  assert (Hall : Forall item_ok its) by (destruct Hok; auto).
  assert (G3 : kw_k its + keys_len its <= kw_fs its) by (fold (kw_a its); lia).
  assert (G4 : layout_end (kw_a its) its <= kw_fs its) by (fold (kw_fs its); lia).
  destruct (layout_props its (kw_k its) (kw_a its) (kw_fs its) Hall ltac:(lia) ltac:(lia) G3 G4 Hlt) as (Hdc & _ & _).
  rewrite Forall_forall in Hdc.
  rewrite (kas_write_parts its Hne) in *.
  replace ((kw_header its ++ kw_descs its ++ kw_keys its ++ blocks (align8 (kw_a its)) its) ++ rest)
    with (kw_header its ++ kw_descs its ++ (kw_keys its ++ blocks (align8 (kw_a its)) its ++ rest))
    by (rewrite <- !app_assoc; reflexivity).
  rewrite !(kas_open_prefix_any false) by auto. rewrite !take_app.
  f_equal. f_equal. unfold lazy_items. apply map_ext_in. intros d Hd.
  destruct (Hdc d Hd) as ((Ht0 & _ & _ & Has0 & Hal0) & Htl & _ & (Has & Hdiv)).
  assert (Hts : 1 <= type_size (d_type d) <= 8) by (apply type_size_pos; lia).
  assert (Hend : d_as d + d_al d * type_size (d_type d) <= kw_fs its).
  { pose proof (Z.mul_div_le (kw_fs its - d_as d) (type_size (d_type d)) ltac:(lia)). nia. }
  assert (Hsz : 0 <= d_al d * type_size (d_type d)) by nia.
  assert (Has1 : 0 <= d_as d) by lia.
  assert (Hsm : 0 <= d_al d * type_size (d_type d) < two64) by (split; [exact Hsz | lia]).
  rewrite (w64_small _ Hsm).
  f_equal. destruct (d_al d * type_size (d_type d) =? 0); [reflexivity|].
  set (f := kw_header its ++ kw_descs its ++ kw_keys its ++ blocks (align8 (kw_a its)) its) in *.
  replace (kw_header its ++ kw_descs its ++ kw_keys its ++ blocks (align8 (kw_a its)) its ++ rest) with (f ++ rest)
    by (unfold f; rewrite <- !app_assoc; reflexivity).
  rewrite zlen_app, Hlen. pose proof (zlen_nonneg rest).
  replace (kw_fs its + zlen rest <? d_as d + d_al d * type_size (d_type d)) with false by (symmetry; apply Z.ltb_ge; lia).
  replace (kw_fs its <? d_as d + d_al d * type_size (d_type d)) with false by (symmetry; apply Z.ltb_ge; lia).
  rewrite slice_app_left by lia. reflexivity.
Qed.

(* hence, on the skip_tables / skip_reference_sequence paths, object j of a multi-object stream is
   loaded exactly as it is loaded from a file of its own *)
Theorem lazy_load_ignores_rest its rest sk sr : items_ok its -> its <> [] -> sk || sr = true ->
  tsk_load_bytes sk sr (kas_write its ++ rest) = tsk_load_bytes sk sr (kas_write its).
Proof.
  intros Hok Hne Hs. unfold tsk_load_bytes. rewrite Hs. cbn [negb].
  rewrite (lazy_open_ignores_rest its rest Hok Hne). reflexivity.
Qed.
