(* C04 -- executable SPECIFICATION of simplify (not a model of the C algorithm's data
   structures).  DESIGN.md section 4 / C04: the theorems of C04/*Proofs.v are about the
   definitions in this file; the C code (c/tskit/tables.c: simplifier_run and callees,
   lines 9243-10347; tsk_table_collection_simplify 12060-12118) is tied to [simplify_spec]
   by the per-run correspondence of harness/props/c04.py (C output == spec output on every
   generated small case).

   Part 1 (Section Reduce): one marginal forest, given as a parent map.
     kept u   = u is a chosen sample, or >= 2 child lineages of u carry chosen samples
                (simplifier_merge_ancestors: num_overlapping >= 2), or exactly the unary
                case when keep_unary / keep_unary_in_individuals applies to u
                (merge_ancestors 9756-9761, 9790-9798), or -- keep_input_roots -- u is a
                root of the input forest with a chosen sample below it
                (simplifier_insert_input_roots 10249-10293).
     rpar u   = nearest kept strict ancestor of a kept node.
     mut_target u = the kept node that receives a mutation sitting above input node u
                (simplifier_map_mutations via simplifier_add_ancestry: the output node
                that carries u's ancestry at that position).
   Part 2: whole tables: per elementary interval reduced forests, squashed edges,
     node numbering, filters, reduce_to_site_topology coordinate mapping.

   Node ids are [nat] (they index lists; every evaluated case has < 16 nodes);
   coordinates and times are [Z] and are only compared. *)
From Coq Require Import List ZArith Bool Lia Arith.
From TskVerif Require Import Base.Common.
Import ListNotations.

Definition is_none {A} (o : option A) : bool := match o with None => true | Some _ => false end.
Definition mem (u : nat) (l : list nat) : bool := existsb (Nat.eqb u) l.

(* ------------------------------------------------------------------------------ *)
(* Part 1: one forest                                                              *)
(* ------------------------------------------------------------------------------ *)
Section Reduce.
  Variable par : nat -> option nat.       (* the marginal forest at one position *)
  Variable nodes : list nat.              (* all node ids *)
  Variable smp : list nat.                (* the chosen samples *)
  Variable unary_ok : nat -> bool.        (* keep_unary || (keep_unary_in_individuals && individual u <> NULL) *)
  Variable keep_roots : bool.             (* keep_input_roots *)
  Variable fuel : nat.                    (* bound on path lengths; theorems assume it suffices *)

  (* u, parent u, grandparent u, ... *)
  Fixpoint up_path (f : nat) (u : nat) : list nat :=
    match f with
    | O => []
    | S f' => u :: match par u with Some v => up_path f' v | None => [] end
    end.

  Definition anc_or_self (a b : nat) : bool := mem a (up_path fuel b).
  (* "has a chosen sample at or below" == the node carries ancestry in the simplifier *)
  Definition hsb (u : nat) : bool := existsb (anc_or_self u) smp.
  Definition is_child_of (u c : nat) : bool :=
    match par c with Some p => Nat.eqb p u | None => false end.
  Definition children (u : nat) : list nat := filter (is_child_of u) nodes.
  (* number of child lineages carrying chosen samples == num_overlapping *)
  Definition nlin (u : nat) : nat := length (filter hsb (children u)).

  Definition kept1 (u : nat) : bool :=
    mem u smp || (2 <=? nlin u)%nat || (unary_ok u && (1 <=? nlin u)%nat).
  Definition root_rule (u : nat) : bool := keep_roots && is_none (par u) && hsb u.
  Definition kept (u : nat) : bool := kept1 u || root_rule u.

  Fixpoint first_kept (f : nat) (u : nat) : option nat :=
    match f with
    | O => None
    | S f' => if kept u then Some u
              else match par u with Some v => first_kept f' v | None => None end
    end.

  Definition rpar (u : nat) : option nat :=
    if kept u then match par u with Some v => first_kept fuel v | None => None end
    else None.

  (* walking from [cur] up to [u], remember the last kept node seen *)
  Fixpoint last_kept_upto (f : nat) (cur u : nat) (best : option nat) : option nat :=
    match f with
    | O => None
    | S f' =>
        let best' := if kept cur then Some cur else best in
        if Nat.eqb cur u then best'
        else match par cur with Some v => last_kept_upto f' v u best' | None => None end
    end.

  Definition mut_target (u : nat) : option nat :=
    match find (anc_or_self u) smp with
    | Some s => last_kept_upto fuel s u None
    | None => None
    end.
End Reduce.

(* most recent common ancestor by definition: the first node on the path from a to its
   root that is also on the path from b to its root *)
Definition mrca (par : nat -> option nat) (fuel a b : nat) : option nat :=
  find (fun x => mem x (up_path par fuel b)) (up_path par fuel a).

(* allele of node s at one site: tskit applies the site's mutations in table order to
   every node below the mutation's node, so the last listed mutation on the path wins *)
Definition allele {A} (par : nat -> option nat) (fuel : nat) (anc : A)
           (muts : list (nat * A)) (s : nat) : A :=
  fold_left (fun a m => if anc_or_self par fuel (fst m) s then snd m else a) muts anc.

(* the remapping of one site's mutations: dropped when no chosen sample inherits from the
   node, otherwise moved to [mut_target] *)
Definition remap_muts {A} (par : nat -> option nat) (nodes smp : list nat) (unary_ok : nat -> bool)
           (keep_roots : bool) (fuel : nat) (muts : list (nat * A)) : list (nat * A) :=
  flat_map (fun m => match mut_target par nodes smp unary_ok keep_roots fuel (fst m) with
                     | Some v => [(v, snd m)]
                     | None => []
                     end) muts.

(* ------------------------------------------------------------------------------ *)
(* Part 2: tables                                                                  *)
(* ------------------------------------------------------------------------------ *)
Record opts := mkOpts {
  o_ku : bool;   (* keep_unary *)
  o_kui : bool;  (* keep_unary_in_individuals *)
  o_kir : bool;  (* keep_input_roots *)
  o_rts : bool;  (* reduce_to_site_topology *)
  o_fn : bool;   (* filter_nodes *)
  o_fs : bool;   (* filter_sites *)
  o_fi : bool;   (* filter_individuals *)
  o_fp : bool;   (* filter_populations *)
  o_usf : bool   (* update_sample_flags *)
}.

Definition edge := (Z * Z * nat * nat)%type.     (* left, right, parent, child *)
Record tables := mkTables {
  t_L : Z;
  t_nodes : list (Z * Z * Z * Z);      (* flags, time, population, individual *)
  t_edges : list edge;                 (* in table order (sorted as simplify requires) *)
  t_sites : list Z;                    (* positions, increasing *)
  t_muts : list (nat * nat * Z);       (* site, node, parent mutation (-1) *)
  t_inds : list (list Z);              (* parents of every individual *)
  t_npops : nat
}.

Definition e_parent (e : edge) : nat := let '(_, _, p, _) := e in p.

Definition par_at (edges : list edge) (x : Z) (u : nat) : option nat :=
  match find (fun e : edge => let '(l, r, _, c) := e in (l <=? x)%Z && (x <? r)%Z && Nat.eqb c u) edges with
  | Some e => Some (e_parent e)
  | None => None
  end.

Fixpoint zinsert (x : Z) (l : list Z) : list Z :=
  match l with
  | [] => [x]
  | y :: t => if (x <? y)%Z then x :: l else if (x =? y)%Z then l else y :: zinsert x t
  end.
Definition zsort_dedup (l : list Z) : list Z := fold_right zinsert [] l.
Fixpoint pairs (l : list Z) : list (Z * Z) :=
  match l with
  | a :: t => match t with b :: _ => (a, b) :: pairs t | [] => [] end
  | [] => []
  end.
(* elementary intervals: between consecutive distinct edge end points, 0 and L *)
Definition intervals (t : tables) : list (Z * Z) :=
  pairs (zsort_dedup (0%Z :: t_L t :: flat_map (fun e : edge => let '(l, r, _, _) := e in [l; r]) (t_edges t))).

Definition node_ids (t : tables) : list nat := seq 0 (length (t_nodes t)).
Definition node_ind (t : tables) (u : nat) : Z :=
  let '(_, _, _, i) := nth u (t_nodes t) (0, 0, -1, -1)%Z in i.
Definition unary_of (o : opts) (t : tables) (u : nat) : bool :=
  o_ku o || (o_kui o && negb (node_ind t u =? -1)%Z).
Definition fuel_of (t : tables) : nat := S (length (t_nodes t)).

(* the reduced forest on one elementary interval, tabulated *)
Record ivl := mkIvl {
  i_l : Z; i_r : Z;
  i_rpar : list (option nat);   (* new parent of every input node *)
  i_k1 : list bool;             (* kept for a reason other than the root rule *)
  i_rootanc : list bool         (* input root carrying ancestry (leftover segment) *)
}.

Definition mk_ivl (o : opts) (t : tables) (smp : list nat) (lr : Z * Z) : ivl :=
  let p := par_at (t_edges t) (fst lr) in
  let ns := node_ids t in
  let f := fuel_of t in
  mkIvl (fst lr) (snd lr)
        (map (rpar p ns smp (unary_of o t) (o_kir o) f) ns)
        (map (kept1 p ns smp (unary_of o t) f) ns)
        (map (fun u => is_none (p u) && hsb p smp f u) ns).

(* simplifier_map_reduced_coordinates (9332-9353) with tsk_search_sorted (core.c 847-869)
   in closed form for a sorted array: lower = last index with X[lower] <= v. *)
Definition search_sorted (X : list Z) (v : Z) : nat :=
  let lower := pred (length (filter (fun x => (x <=? v)%Z) X)) in
  if (nth lower X 0 <? v)%Z then S lower else lower.
Definition map_coords (X : list Z) (lr : Z * Z) : option (Z * Z) :=
  let li := search_sorted X (fst lr) in
  let ri := search_sorted X (snd lr) in
  if Nat.eqb li ri || (Nat.eqb li 0 && Nat.eqb ri 1) then None
  else Some (nth (if Nat.eqb li 1 then 0%nat else li) X 0%Z, nth ri X 0%Z).
Definition position_lookup (t : tables) : list Z := 0%Z :: t_sites t ++ [t_L t].

(* simplifier_record_edge (9356-9399): extend the tail interval when it abuts *)
Fixpoint squash (acc : option (Z * Z)) (l : list (Z * Z)) : list (Z * Z) :=
  match l with
  | [] => match acc with Some a => [a] | None => [] end
  | (a, b) :: t =>
      match acc with
      | None => squash (Some (a, b)) t
      | Some (a0, b0) => if (b0 =? a)%Z then squash (Some (a0, b)) t
                         else (a0, b0) :: squash (Some (a, b)) t
      end
  end.

Definition onat_eqb (a b : option nat) : bool := opt_eqb Nat.eqb a b.

(* the intervals on which input node c hangs below input node p, recorded while p is
   processed as a parent (phase1 = true, simplifier_merge_ancestors) or in
   simplifier_insert_input_roots (phase1 = false) *)
Definition pc_intervals (o : opts) (X : list Z) (ivs : list ivl) (phase1 : bool) (p c : nat)
  : list (Z * Z) :=
  let raw := flat_map (fun iv =>
      if onat_eqb (nth c (i_rpar iv) None) (Some p) && Bool.eqb (nth p (i_k1 iv) false) phase1
      then [(i_l iv, i_r iv)] else []) ivs in
  let mapped := if o_rts o
                then flat_map (fun lr => match map_coords X lr with Some q => [q] | None => [] end) raw
                else raw in
  squash None mapped.

Fixpoint iv_insert (x : Z * Z) (l : list (Z * Z)) : list (Z * Z) :=
  match l with
  | [] => [x]
  | y :: t => if (fst x <=? fst y)%Z then x :: l else y :: iv_insert x t
  end.

Fixpoint dedup (l : list nat) (seen : list nat) : list nat :=
  match l with
  | [] => []
  | x :: t => if mem x seen then dedup t seen else x :: dedup t (x :: seen)
  end.

Fixpoint index_of (u : nat) (l : list nat) (k : Z) : Z :=
  match l with
  | [] => (-1)%Z
  | x :: t => if Nat.eqb x u then k else index_of u t (k + 1)%Z
  end.

(* new ids for a table filtered by "referenced": position among the referenced rows *)
Fixpoint refmap (n : nat) (j : nat) (refd : nat -> bool) (next : Z) : list Z :=
  match n with
  | O => []
  | S n' => if refd j then next :: refmap n' (S j) refd (next + 1)%Z
            else (-1)%Z :: refmap n' (S j) refd next
  end.
Definition idmap (n : nat) : list Z := map Z.of_nat (seq 0 n).
Definition zmap (m : list Z) (x : Z) : Z :=
  if (x <? 0)%Z then (-1)%Z else nth (Z.to_nat x) m (-1)%Z.

Record result := mkResult {
  r_node_map : list Z;
  r_nodes : list (nat * Z * Z * Z);        (* input id, flags, population, individual *)
  r_edges : list (Z * Z * Z * Z);          (* left, right, parent, child (output ids), by parent, child, left *)
  r_sites : list nat;                      (* input site ids *)
  r_muts : list (nat * Z * Z * Z);         (* input mutation id, site, node, parent (output ids) *)
  r_inds : list (nat * list Z);            (* input individual id, parents (output ids) *)
  r_pops : list nat                        (* input population ids *)
}.

Definition simplify_spec (t : tables) (smp : list nat) (o : opts) : result :=
  let ns := node_ids t in
  let X := position_lookup t in
  let ivs := map (mk_ivl o t smp) (intervals t) in
  let emitted1 := fun u => existsb (fun c => negb (is_none (hd_error (pc_intervals o X ivs true u c)))) ns in
  let root_cand := fun u => existsb (fun iv => nth u (i_rootanc iv) false) ivs in
  let emitted2 := fun u => existsb (fun c => negb (is_none (hd_error (pc_intervals o X ivs false u c)))) ns in
  let is_s := fun u => mem u smp in
  (* simplifier_init_nodes / simplifier_record_node / simplifier_rewind_node *)
  let order :=
    if o_fn o then
      smp
      ++ filter (fun u => negb (is_s u) && emitted1 u) (dedup (map e_parent (t_edges t)) [])
      ++ (if o_kir o then filter (fun u => negb (is_s u) && negb (emitted1 u) && root_cand u && emitted2 u) ns else [])
    else ns in
  let nmap := map (fun u => index_of u order 0%Z) ns in
  let nm := fun u => nth u nmap (-1)%Z in
  (* population / individual references of the output nodes *)
  let row := fun u => nth u (t_nodes t) (0, 0, -1, -1)%Z in
  let pop_ref := fun j => existsb (fun u => let '(_, _, p, _) := row u in (p =? Z.of_nat j)%Z) order in
  let ind_ref := fun j => existsb (fun u => let '(_, _, _, i) := row u in (i =? Z.of_nat j)%Z) order in
  let pmap := if o_fp o then refmap (t_npops t) 0 pop_ref 0%Z else idmap (t_npops t) in
  let imap := if o_fi o then refmap (length (t_inds t)) 0 ind_ref 0%Z else idmap (length (t_inds t)) in
  let out_nodes := map (fun u =>
      let '(fl, _, p, i) := row u in
      let fl' := if o_usf o then (2 * (fl / 2) + (if is_s u then 1 else 0))%Z else fl in
      (u, fl', zmap pmap p, zmap imap i)) order in
  (* edges: simplifier_flush_edges per parent, children by output id, intervals by left *)
  let out_edges := flat_map (fun p => flat_map (fun c =>
      map (fun lr => (fst lr, snd lr, nm p, nm c))
          (fold_right iv_insert [] (pc_intervals o X ivs true p c ++ pc_intervals o X ivs false p c)))
      order) order in
  (* mutations: simplifier_map_mutations + simplifier_output_sites *)
  let tgt := fun m : nat * nat * Z =>
      let '(s, u, _) := m in
      mut_target (par_at (t_edges t) (nth s (t_sites t) 0%Z)) ns smp (unary_of o t) (o_kir o) (fuel_of t) u in
  let keptm := flat_map (fun jm => match tgt (snd jm) with Some v => [(fst jm, snd jm, v)] | None => [] end)
                        (combine (seq 0 (length (t_muts t))) (t_muts t)) in
  let site_ref := fun s => existsb (fun x => let '(_, (s', _, _), _) := x in Nat.eqb s' s) keptm in
  let smap := if o_fs o then refmap (length (t_sites t)) 0 site_ref 0%Z else idmap (length (t_sites t)) in
  let mmap := fun j => index_of j (map (fun x => let '(j', _, _) := x in j') keptm) 0%Z in
  let out_muts := map (fun x =>
      let '(j, (s, _, mp), v) := x in
      (j, zmap smap (Z.of_nat s), nm v, if (mp <? 0)%Z then (-1)%Z else mmap (Z.to_nat mp))) keptm in
  mkResult nmap out_nodes out_edges
           (filter (fun s => negb (nth s smap (-1) =? -1)%Z) (seq 0 (length (t_sites t))))
           out_muts
           (flat_map (fun j => if (nth j imap (-1) =? -1)%Z then []
                               else [(j, map (zmap imap) (nth j (t_inds t) []))])
                     (seq 0 (length (t_inds t))))
           (filter (fun j => negb (nth j pmap (-1) =? -1)%Z) (seq 0 (t_npops t))).

(* observation tree compared with the canonicalised C output *)
Definition result_J (r : result) : J :=
  JL [ jz_list (r_node_map r);
       JL (map (fun x => let '(u, fl, p, i) := x in jz_list [Z.of_nat u; fl; p; i]) (r_nodes r));
       JL (map (fun x => let '(l, rr, p, c) := x in jz_list [l; rr; p; c]) (r_edges r));
       jz_list (map Z.of_nat (r_sites r));
       JL (map (fun x => let '(j, s, u, mp) := x in jz_list [Z.of_nat j; s; u; mp]) (r_muts r));
       JL (map (fun x => JL [JZ (Z.of_nat (fst x)); jz_list (snd x)]) (r_inds r));
       jz_list (map Z.of_nat (r_pops r)) ].

(* what the idempotence claim compares: the output read back as input tables, and the
   images of the chosen samples *)
Definition result_tables (t : tables) (r : result) : tables :=
  mkTables (t_L t)
           (map (fun x => let '(u, fl, p, i) := x in
                          let '(_, tm, _, _) := nth u (t_nodes t) (0, 0, -1, -1)%Z in (fl, tm, p, i)) (r_nodes r))
           (map (fun x => let '(l, rr, p, c) := x in (l, rr, Z.to_nat p, Z.to_nat c)) (r_edges r))
           (map (fun s => nth s (t_sites t) 0%Z) (r_sites r))
           (map (fun x => let '(_, s, u, mp) := x in (Z.to_nat s, Z.to_nat u, mp)) (r_muts r))
           (map snd (r_inds r))
           (length (r_pops r)).
Definition result_samples (r : result) (smp : list nat) : list nat :=
  map (fun s => Z.to_nat (nth s (r_node_map r) (-1)%Z)) smp.

(* the shape of a result with the identities of input rows forgotten (what "tables are
   identical" can see besides the row payloads, which both passes copy verbatim) *)
Definition result_shape (t : tables) (r : result) : J :=
  let t' := result_tables t r in
  JL [ JL (map (fun x => let '(fl, tm, p, i) := x in jz_list [fl; tm; p; i]) (t_nodes t'));
       JL (map (fun e : edge => let '(l, rr, p, c) := e in jz_list [l; rr; Z.of_nat p; Z.of_nat c]) (t_edges t'));
       jz_list (t_sites t');
       JL (map (fun x => let '(s, u, mp) := x in jz_list [Z.of_nat s; Z.of_nat u; mp]) (t_muts t'));
       JL (map jz_list (t_inds t'));
       JZ (Z.of_nat (t_npops t')) ].

(* simplify the result again w.r.t. the images of the chosen samples, same options *)
Definition second_pass (t : tables) (smp : list nat) (o : opts) : tables * result :=
  let r1 := simplify_spec t smp o in
  let t1 := result_tables t r1 in
  (t1, simplify_spec t1 (result_samples r1 smp) o).

Definition spec_idempotent_on (t : tables) (smp : list nat) (o : opts) : bool :=
  let r1 := simplify_spec t smp o in
  let '(t1, r2) := second_pass t smp o in
  J_eqb (result_shape t r1) (result_shape t1 r2).

(* an output node that is neither a chosen sample nor referenced by an output edge *)
Definition unreferenced_nodes (r : result) (smp : list nat) : list nat :=
  flat_map (fun x => let '(u, _, _, _) := x in
     let v := nth u (r_node_map r) (-1)%Z in
     if mem u smp || existsb (fun e => let '(_, _, p, c) := e in (p =? v)%Z || (c =? v)%Z) (r_edges r)
     then [] else [u]) (r_nodes r).
