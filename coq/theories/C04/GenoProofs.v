(* C04 -- the mutation remapping preserves the allele of every chosen sample.
   [allele] = tskit's decoding rule (mutations of a site applied in table order to all
   nodes below the mutation's node; the last one on the path from the sample to its root
   wins).  [remap_muts] drops a mutation when no chosen sample inherits from its node and
   otherwise moves it to [mut_target] (the kept node that carries the node's ancestry). *)
From Coq Require Import List ZArith Bool Lia Arith.
From TskVerif Require Import Base.Common C04.Model C04.ForestProofs C04.ReduceProofs.
Import ListNotations.
Local Open Scope nat_scope.

Section Geno.
  Variable par : nat -> option nat.
  Variable nodes smp : list nat.
  Variable unary_ok : nat -> bool.
  Variable keep_roots : bool.
  Variable fuel : nat.
  Variable depth : nat -> nat.
  Hypothesis depth_dec : forall u v, par u = Some v -> depth v < depth u.
  Hypothesis depth_fuel : forall u, depth u < fuel.
  Hypothesis nodes_complete : forall u v, par u = Some v -> In u nodes.
  Hypothesis nodes_nodup : NoDup nodes.

  Notation keptP := (kept par nodes smp unary_ok keep_roots fuel).
  Notation rparP := (rpar par nodes smp unary_ok keep_roots fuel).
  Notation hsbP := (hsb par smp fuel).
  Notation targetP := (mut_target par nodes smp unary_ok keep_roots fuel).

  (* v is a correct target for mutations above x: kept, at or below x, and every chosen
     sample below x is below v *)
  Definition good (x v : nat) : Prop :=
    keptP v = true /\ aos par x v /\ forall s, In s smp -> aos par x s -> aos par v s.

  Lemma good_self x : keptP x = true -> good x x.
  Proof. intros H. split; [exact H|]. split; [left; reflexivity | auto]. Qed.

  Lemma good_step x c v : keptP x = false -> par c = Some x -> good c v -> good x v.
  Proof.
    intros Hx Hp [Hk [Hcv Hs]]. split; [exact Hk|]. split.
    - right. eapply anc_aos_trans; [apply anc_par; exact Hp | exact Hcv].
    - intros s Hin Hxs. apply Hs; [exact Hin|].
      apply (unkept_single_lineage par nodes smp unary_ok keep_roots fuel depth depth_dec
               depth_fuel nodes_complete nodes_nodup x c s); auto.
      apply (hsb_up par smp fuel depth depth_dec depth_fuel c v Hcv).
      apply (kept_hsb par nodes smp unary_ok keep_roots fuel depth depth_dec depth_fuel v Hk).
  Qed.

  Lemma last_kept_upto_spec f cur u best :
    depth cur < f -> aos par u cur ->
    (keptP cur = true \/ exists b c, best = Some b /\ par c = Some cur /\ good c b) ->
    exists v, last_kept_upto par nodes smp unary_ok keep_roots fuel f cur u best = Some v
              /\ good u v.
  Proof.
    revert cur best. induction f as [|f IH]; intros cur best Hd Hu Hpre; [lia|].
    simpl.
    assert (Hb : exists v, (if keptP cur then Some cur else best) = Some v /\ good cur v).
    { destruct (keptP cur) eqn:Ek.
      - exists cur. split; [reflexivity | apply good_self; exact Ek].
      - destruct Hpre as [H | [b [c [-> [Hp Hg]]]]]; [discriminate|].
        exists b. split; [reflexivity|]. eapply good_step; eauto. }
    destruct Hb as [v [Ev Hg]].
    destruct (Nat.eqb cur u) eqn:Eq.
    - apply Nat.eqb_eq in Eq. subst. exists v. split; assumption.
    - apply Nat.eqb_neq in Eq. destruct Hu as [-> | Hu]; [congruence|].
      apply anc_inv in Hu as [w [Hw Huw]]. rewrite Hw.
      apply IH.
      + apply depth_dec in Hw. lia.
      + exact Huw.
      + right. exists v, cur. split; [exact Ev|]. split; assumption.
  Qed.

  Lemma aosbP_iff a b : anc_or_self par fuel a b = true <-> aos par a b.
  Proof. apply (aosb_iff par fuel depth); auto. Qed.

  Lemma mut_target_good u v : targetP u = Some v -> good u v.
  Proof.
    unfold mut_target. destruct (find (anc_or_self par fuel u) smp) as [s0|] eqn:E; [|discriminate].
    apply find_some in E as [Hs0 Hu]. apply aosbP_iff in Hu. intros H.
    destruct (last_kept_upto_spec fuel s0 u None (depth_fuel s0) Hu) as [v' [Ev Hg]].
    - left. apply reduce_keeps_samples_lemma; exact Hs0.
    - rewrite H in Ev. inversion Ev; subst. exact Hg.
  Qed.

  Lemma mut_target_some u s : In s smp -> aos par u s -> exists v, targetP u = Some v.
  Proof.
    intros Hs Hus. unfold mut_target.
    destruct (find (anc_or_self par fuel u) smp) as [s0|] eqn:E.
    - apply find_some in E as [Hs0 Hu]. apply aosbP_iff in Hu.
      destruct (last_kept_upto_spec fuel s0 u None (depth_fuel s0) Hu) as [v' [Ev Hg]].
      + left. apply reduce_keeps_samples_lemma; exact Hs0.
      + exists v'. exact Ev.
    - exfalso. pose proof (find_none _ _ E s Hs) as Hf. simpl in Hf.
      apply aosbP_iff in Hus. congruence.
  Qed.

  (* a chosen sample inherits from u in the original forest iff it inherits from the
     target of u in the reduced forest *)
  Lemma mut_target_inherit u s : In s smp ->
    anc_or_self par fuel u s
    = match targetP u with Some v => anc_or_self rparP fuel v s | None => false end.
  Proof.
    intros Hs.
    assert (Hks : keptP s = true) by (apply reduce_keeps_samples_lemma; exact Hs).
    destruct (targetP u) as [v|] eqn:Et.
    - destruct (mut_target_good u v Et) as [Hk [Huv Hall]].
      rewrite (aosb_reduced par nodes smp unary_ok keep_roots fuel depth depth_dec depth_fuel v s Hks).
      rewrite Hk. simpl.
      destruct (anc_or_self par fuel v s) eqn:Ev.
      + apply aosbP_iff. apply aosbP_iff in Ev. eapply aos_trans; eauto.
      + destruct (anc_or_self par fuel u s) eqn:Eu; [|reflexivity].
        apply aosbP_iff in Eu. apply (Hall s Hs) in Eu. apply aosbP_iff in Eu. congruence.
    - destruct (anc_or_self par fuel u s) eqn:Eu; [|reflexivity].
      apply aosbP_iff in Eu. destruct (mut_target_some u s Hs Eu) as [v Hv]. congruence.
  Qed.

  (* (e) *)
  Lemma reduce_genotypes_preserved_lemma {A} (anc0 : A) (muts : list (nat * A)) s :
    In s smp ->
    allele rparP fuel anc0 (remap_muts par nodes smp unary_ok keep_roots fuel muts) s
    = allele par fuel anc0 muts s.
  Proof.
    intros Hs. unfold allele, remap_muts. revert anc0.
    induction muts as [|m muts IH]; intros anc0; simpl; [reflexivity|].
    rewrite fold_left_app. rewrite (mut_target_inherit (fst m) s Hs).
    destruct (targetP (fst m)) as [v|]; simpl; apply IH.
  Qed.

  (* the target never moves a mutation above its node, and keeps it on a kept node *)
  Lemma mut_target_below u v : targetP u = Some v -> keptP v = true /\ aos par u v.
  Proof. intros H. apply mut_target_good in H as [H1 [H2 _]]. auto. Qed.
End Geno.
