(* C04 -- the segment overlapper of the algorithm model (C04/SimplifyAlg.v: [overlaps],
   mirroring segment_overlapper_start / segment_overlapper_next, tables.c 7675-7770):
   for any queue of well-formed segments the emitted pieces (l, r, X) are non-empty
   intervals, increasing and pairwise disjoint; X is exactly the set of queued segments
   covering [l, r); and every point covered by a queued segment lies in a piece
   (so the fuel of the model loop always suffices). *)
From Coq Require Import List ZArith Bool Lia Arith.
From TskVerif Require Import Base.Common C04.Model C04.SimplifyAlg.
Import ListNotations.
Open Scope Z_scope.

Definition valid (s : seg) : Prop := seg_l s < seg_r s.
Definition piece := (Z * Z * list seg)%type.

(* ---- fold_left Z.min ---------------------------------------------------------------- *)
Lemma fold_min_le_init l a : fold_left Z.min l a <= a.
Proof.
  revert a. induction l as [|x l IH]; intros a; simpl; [lia|].
  specialize (IH (Z.min a x)). lia.
Qed.

Lemma fold_min_le_in l a x : In x l -> fold_left Z.min l a <= x.
Proof.
  revert a. induction l as [|y l IH]; intros a H; simpl; [contradiction|].
  destruct H as [-> | H].
  - pose proof (fold_min_le_init l (Z.min a x)). lia.
  - apply IH. exact H.
Qed.

Lemma fold_min_in l a : fold_left Z.min l a = a \/ In (fold_left Z.min l a) l.
Proof.
  revert a. induction l as [|y l IH]; intros a; simpl; [left; reflexivity|].
  destruct (IH (Z.min a y)) as [E | H].
  - rewrite E. destruct (Z.min_spec a y) as [[_ ->] | [_ ->]]; auto.
  - right. right. exact H.
Qed.

Lemma fold_min_gt l a b : b < a -> (forall x, In x l -> b < x) -> b < fold_left Z.min l a.
Proof.
  intros Ha Hl. destruct (fold_min_in l a) as [-> | H]; [exact Ha | apply Hl; exact H].
Qed.

(* ---- sortedness by left end ----------------------------------------------------------- *)
Inductive sorted_l : list seg -> Prop :=
| sl_nil : sorted_l []
| sl_cons : forall s t, (forall y, In y t -> seg_l s <= seg_l y) -> sorted_l t -> sorted_l (s :: t).

Lemma seg_insert_in x l y : In y (seg_insert x l) <-> y = x \/ In y l.
Proof.
  induction l as [|z l IH]; simpl.
  - split; [intros [H | []]; auto | intros [H | []]; auto].
  - destruct ((seg_l x <? seg_l z) || ((seg_l x =? seg_l z) && (seg_n x <=? seg_n z))); simpl.
    + split; [intros [H | H]; auto | intros [H | H]; auto].
    + rewrite IH. tauto.
Qed.

Lemma seg_insert_sorted x l : sorted_l l -> sorted_l (seg_insert x l).
Proof.
  induction 1 as [|z t Hz Ht IH]; simpl.
  - constructor; [intros y []| constructor].
  - destruct ((seg_l x <? seg_l z) || ((seg_l x =? seg_l z) && (seg_n x <=? seg_n z))) eqn:E.
    + constructor; [|constructor; assumption].
      assert (Hxz : seg_l x <= seg_l z).
      { apply orb_true_iff in E as [E | E]; [apply Z.ltb_lt in E; lia|].
        apply andb_true_iff in E as [E _]. apply Z.eqb_eq in E. lia. }
      intros y [<- | Hy]; [exact Hxz | specialize (Hz y Hy); lia].
    + constructor; [|exact IH].
      assert (Hzx : seg_l z <= seg_l x).
      { apply orb_false_iff in E as [E1 E2]. apply Z.ltb_ge in E1. exact E1. }
      intros y Hy. apply seg_insert_in in Hy as [-> | Hy]; [exact Hzx | apply Hz; exact Hy].
Qed.

Lemma sort_segs_in q y : In y (sort_segs q) <-> In y q.
Proof.
  unfold sort_segs. induction q as [|x q IH]; simpl; [tauto|].
  rewrite seg_insert_in, IH. split; intros [H | H]; auto.
Qed.

Lemma sort_segs_sorted q : sorted_l (sort_segs q).
Proof.
  unfold sort_segs. induction q as [|x q IH]; simpl; [constructor | apply seg_insert_sorted; exact IH].
Qed.

Lemma sort_segs_length q : length (sort_segs q) = length q.
Proof.
  unfold sort_segs. induction q as [|x q IH]; simpl; [reflexivity|].
  rewrite <- IH. generalize (fold_right seg_insert [] q). intros l.
  induction l as [|z l IHl]; simpl; [reflexivity|].
  destruct ((seg_l x <? seg_l z) || ((seg_l x =? seg_l z) && (seg_n x <=? seg_n z))); simpl; [reflexivity|].
  rewrite IHl. reflexivity.
Qed.

Lemma take_left_spec lft S new S' :
  sorted_l S -> (forall s, In s S -> lft <= seg_l s) -> take_left lft S = (new, S') ->
  S = new ++ S' /\ (forall s, In s new -> seg_l s = lft) /\
  (forall s, In s S' -> lft < seg_l s) /\ sorted_l S'.
Proof.
  intros HS. revert new S'. induction HS as [|s0 t Hs0 Ht IH]; intros new S' Hge H; simpl in H.
  - inversion H; subst. repeat split; simpl; try tauto. constructor.
  - destruct (seg_l s0 =? lft) eqn:E.
    + destruct (take_left lft t) as [a b] eqn:ET. inversion H; subst.
      apply Z.eqb_eq in E.
      destruct (IH a S') as [E1 [E2 [E3 E4]]]; auto.
      { intros s Hs. apply Hge. right; exact Hs. }
      repeat split; auto.
      * simpl. rewrite <- E1. reflexivity.
      * intros s [<- | Hs]; auto.
    + inversion H; subst. apply Z.eqb_neq in E.
      assert (Hlt : lft < seg_l s0) by (specialize (Hge s0 (or_introl eq_refl)); lia).
      repeat split; simpl; try tauto.
      * intros s [<- | Hs]; [exact Hlt | specialize (Hs0 s Hs); lia].
      * constructor; assumption.
Qed.

(* ---- one step of the loop ------------------------------------------------------------- *)
Definition st_X1 (X : list seg) (rgt : Z) : list seg := filter (fun x => seg_r x >? rgt) X.
Definition st_left (s0 : seg) (X1 : list seg) (rgt : Z) : Z := if is_nil X1 then seg_l s0 else rgt.
Definition st_r0 (S' : list seg) (inf : Z) : Z := match S' with s1 :: _ => seg_l s1 | [] => inf end.

Lemma loop_cons f s0 rest X rgt inf :
  overlap_loop (Datatypes.S f) (s0 :: rest) X rgt inf =
  let X1 := st_X1 X rgt in
  let lft := st_left s0 X1 rgt in
  let '(new, S') := take_left lft (s0 :: rest) in
  let X2 := X1 ++ new in
  let rgt' := fold_left Z.min (map seg_r X2) (st_r0 S' inf) in
  (lft, rgt', X2) :: overlap_loop f S' X2 rgt' inf.
Proof. reflexivity. Qed.

Lemma loop_nil f X rgt inf :
  overlap_loop (Datatypes.S f) [] X rgt inf =
  let X1 := st_X1 X rgt in
  if is_nil X1 then []
  else let rgt' := fold_left Z.min (map seg_r X1) inf in
       (rgt, rgt', X1) :: overlap_loop f [] X1 rgt' inf.
Proof. reflexivity. Qed.

Definition Inv (S X : list seg) (rgt inf : Z) : Prop :=
  sorted_l S /\
  (forall s, In s S -> valid s /\ rgt <= seg_l s /\ seg_r s < inf) /\
  (forall x, In x X -> valid x /\ seg_l x <= rgt /\ seg_r x < inf).

Lemma st_X1_in X rgt x : In x (st_X1 X rgt) <-> In x X /\ rgt < seg_r x.
Proof. unfold st_X1. rewrite filter_In. rewrite Z.gtb_lt. tauto. Qed.

Lemma is_nil_true {A} (l : list A) : is_nil l = true <-> l = [].
Proof. destruct l; simpl; split; intros H; congruence. Qed.

(* everything one needs to know about an iteration with a non-empty S *)
Lemma step_cons s0 rest X rgt inf new S' :
  Inv (s0 :: rest) X rgt inf ->
  take_left (st_left s0 (st_X1 X rgt) rgt) (s0 :: rest) = (new, S') ->
  let X1 := st_X1 X rgt in
  let lft := st_left s0 X1 rgt in
  let X2 := X1 ++ new in
  let rgt' := fold_left Z.min (map seg_r X2) (st_r0 S' inf) in
  s0 :: rest = new ++ S' /\
  rgt <= lft /\ lft < rgt' /\ X2 <> [] /\
  (forall x, In x X2 -> (In x X \/ In x (s0 :: rest)) /\ valid x /\ seg_l x <= lft /\ rgt' <= seg_r x) /\
  (forall s, In s new -> seg_l s = lft) /\
  (forall s, In s S' -> rgt' <= seg_l s) /\
  (rgt' = st_r0 S' inf \/ exists x, In x X2 /\ seg_r x = rgt') /\
  Inv S' X2 rgt' inf.
Proof.
  intros [HS [HinS HinX]] ET. cbv zeta.
  set (X1 := st_X1 X rgt) in *. set (lft := st_left s0 X1 rgt) in *.
  assert (F1 : rgt <= lft).
  { unfold lft, st_left. destruct (is_nil X1); [|lia]. apply (HinS s0). left; reflexivity. }
  assert (F2 : forall s, In s (s0 :: rest) -> lft <= seg_l s).
  { intros s Hs. unfold lft, st_left. destruct (is_nil X1).
    - inversion HS as [|? ? Hle _]; subst. destruct Hs as [<- | Hs]; [lia | apply Hle; exact Hs].
    - apply (HinS s Hs). }
  destruct (take_left_spec lft (s0 :: rest) new S' HS F2 ET) as [E1 [E2 [E3 E4]]].
  assert (FX1 : forall x, In x X1 -> In x X /\ valid x /\ seg_l x <= lft /\ lft < seg_r x /\ seg_r x < inf).
  { intros x Hx. pose proof Hx as Hx'. apply st_X1_in in Hx as [Hx Hr].
    destruct (HinX x Hx) as [V [L I]]. repeat split; auto; try lia.
    unfold lft, st_left. destruct (is_nil X1) eqn:En; [|exact Hr].
    apply is_nil_true in En. rewrite En in Hx'. contradiction. }
  assert (Fnew : forall x, In x new -> In x (s0 :: rest) /\ valid x /\ seg_l x = lft /\ seg_r x < inf).
  { intros x Hx. assert (Hin : In x (s0 :: rest)) by (rewrite E1; apply in_or_app; left; exact Hx).
    destruct (HinS x Hin) as [V [_ I]]. repeat split; auto. }
  assert (FX2 : forall x, In x (X1 ++ new) -> (In x X \/ In x (s0 :: rest)) /\ valid x /\ seg_l x <= lft /\ lft < seg_r x /\ seg_r x < inf).
  { intros x Hx. apply in_app_or in Hx as [Hx | Hx].
    - destruct (FX1 x Hx) as [A [B [C [D E]]]]. repeat split; auto.
    - destruct (Fnew x Hx) as [A [B [C D]]]. unfold valid in B. repeat split; auto; lia. }
  assert (Hlinf : lft < inf).
  { pose proof (F2 s0 (or_introl eq_refl)). destruct (HinS s0 (or_introl eq_refl)) as [V [_ I]].
    unfold valid in V. lia. }
  assert (Hr0 : lft < st_r0 S' inf).
  { unfold st_r0. destruct S' as [|s1 S'']; [exact Hlinf | apply E3; left; reflexivity]. }
  assert (F5 : lft < fold_left Z.min (map seg_r (X1 ++ new)) (st_r0 S' inf)).
  { apply fold_min_gt; [exact Hr0|]. intros r Hr. apply in_map_iff in Hr as [x [<- Hx]].
    apply (FX2 x Hx). }
  assert (F7 : X1 ++ new <> []).
  { intros Hnil. apply app_eq_nil in Hnil as [HX1 Hnew]. subst new. simpl in E1.
    assert (Hs0 : In s0 S') by (rewrite <- E1; left; reflexivity).
    apply E3 in Hs0. unfold lft, st_left in Hs0. rewrite HX1 in Hs0. simpl in Hs0. lia. }
  assert (F8 : forall s, In s S' -> fold_left Z.min (map seg_r (X1 ++ new)) (st_r0 S' inf) <= seg_l s).
  { intros s Hs. pose proof (fold_min_le_init (map seg_r (X1 ++ new)) (st_r0 S' inf)) as Hle.
    destruct S' as [|s1 S'']; [contradiction|]. unfold st_r0 in *.
    inversion E4 as [|? ? Hmin _]; subst. destruct Hs as [<- | Hs]; [lia | specialize (Hmin s Hs); lia]. }
  split; [exact E1|]. split; [exact F1|]. split; [exact F5|]. split; [exact F7|].
  split.
  { intros x Hx. destruct (FX2 x Hx) as [A [B [C [D E]]]]. repeat split; auto.
    apply fold_min_le_in. apply in_map. exact Hx. }
  split; [intros s Hs; apply (Fnew s Hs)|].
  split; [exact F8|].
  split.
  { destruct (fold_min_in (map seg_r (X1 ++ new)) (st_r0 S' inf)) as [E | H]; [left; exact E|].
    right. apply in_map_iff in H as [x [Ex Hx]]. exists x. split; auto. }
  split; [exact E4|]. split.
  - intros s Hs. assert (Hin : In s (s0 :: rest)) by (rewrite E1; apply in_or_app; right; exact Hs).
    destruct (HinS s Hin) as [V [_ I]]. repeat split; auto.
  - intros x Hx. destruct (FX2 x Hx) as [A [B [C [D E]]]]. repeat split; auto. lia.
Qed.

Lemma step_nil X rgt inf :
  Inv [] X rgt inf -> st_X1 X rgt <> [] ->
  let X1 := st_X1 X rgt in
  let rgt' := fold_left Z.min (map seg_r X1) inf in
  rgt < rgt' /\
  (forall x, In x X1 -> In x X /\ valid x /\ seg_l x <= rgt /\ rgt' <= seg_r x) /\
  (exists x, In x X1 /\ seg_r x = rgt') /\
  Inv [] X1 rgt' inf.
Proof.
  intros [_ [_ HinX]] Hne. cbv zeta. set (X1 := st_X1 X rgt) in *.
  assert (FX1 : forall x, In x X1 -> In x X /\ valid x /\ seg_l x <= rgt /\ rgt < seg_r x /\ seg_r x < inf).
  { intros x Hx. apply st_X1_in in Hx as [Hx Hr]. destruct (HinX x Hx) as [V [L I]]. auto. }
  assert (Hinf : rgt < inf).
  { destruct X1 as [|x X1'] eqn:E; [congruence|]. destruct (FX1 x (or_introl eq_refl)) as [_ [_ [_ [A B]]]]. lia. }
  assert (F5 : rgt < fold_left Z.min (map seg_r X1) inf).
  { apply fold_min_gt; [exact Hinf|]. intros r Hr. apply in_map_iff in Hr as [x [<- Hx]]. apply (FX1 x Hx). }
  split; [exact F5|]. split.
  { intros x Hx. destruct (FX1 x Hx) as [A [B [C [D E]]]]. repeat split; auto.
    apply fold_min_le_in. apply in_map. exact Hx. }
  split.
  { destruct (fold_min_in (map seg_r X1) inf) as [E | H].
    - exfalso. destruct X1 as [|x X1'] eqn:EX; [congruence|].
      pose proof (fold_min_le_in (map seg_r (x :: X1')) inf (seg_r x) (or_introl eq_refl)) as Hle.
      destruct (FX1 x (or_introl eq_refl)) as [_ [_ [_ [_ B]]]]. lia.
    - apply in_map_iff in H as [x [Ex Hx]]. exists x. auto. }
  split; [constructor|]. split; [intros s []|].
  intros x Hx. destruct (FX1 x Hx) as [A [B [C [D E]]]]. repeat split; auto. lia.
Qed.

(* ---- soundness and order of the pieces ------------------------------------------------- *)
Definition piece_ok (Q : list seg) (p : piece) : Prop :=
  let '(l, r, X) := p in
  l < r /\ X <> [] /\ forall x, In x X -> In x Q /\ seg_l x <= l /\ r <= seg_r x.

Inductive ordered : Z -> list piece -> Prop :=
| ord_nil : forall r0, ordered r0 []
| ord_cons : forall r0 l r X rest, r0 <= l -> l < r -> ordered r rest -> ordered r0 ((l, r, X) :: rest).

Lemma loop_sound Q inf f : forall S X rgt,
  Inv S X rgt inf -> (forall s, In s S \/ In s X -> In s Q) ->
  Forall (piece_ok Q) (overlap_loop f S X rgt inf) /\ ordered rgt (overlap_loop f S X rgt inf).
Proof.
  induction f as [|f IH]; intros S X rgt HI HQ; [split; constructor|].
  destruct S as [|s0 rest].
  - rewrite loop_nil. cbv zeta. destruct (is_nil (st_X1 X rgt)) eqn:En; [split; constructor|].
    assert (Hne : st_X1 X rgt <> []) by (intros E; rewrite E in En; discriminate).
    destruct (step_nil X rgt inf HI Hne) as [A [B [_ D]]].
    destruct (IH [] (st_X1 X rgt) _ D) as [IH1 IH2].
    { intros s [[] | Hs]. apply HQ. right. apply (B s Hs). }
    split.
    + constructor; [|exact IH1]. simpl. split; [exact A|]. split; [exact Hne|].
      intros x Hx. destruct (B x Hx) as [B1 [B2 [B3 B4]]]. auto.
    + constructor; [lia | exact A | exact IH2].
  - rewrite loop_cons. cbv zeta.
    destruct (take_left (st_left s0 (st_X1 X rgt) rgt) (s0 :: rest)) as [new S'] eqn:ET.
    destruct (step_cons s0 rest X rgt inf new S' HI ET) as [E1 [A [B [C [D [_ [_ [_ G]]]]]]]].
    destruct (IH S' (st_X1 X rgt ++ new) _ G) as [IH1 IH2].
    { intros s [Hs | Hs].
      - apply HQ. left. rewrite E1. apply in_or_app. right. exact Hs.
      - destruct (D s Hs) as [[H | H] _]; apply HQ; auto. }
    split.
    + constructor; [|exact IH1]. simpl. split; [exact B|]. split; [exact C|].
      intros x Hx. destruct (D x Hx) as [[H | H] [D2 [D3 D4]]]; auto.
    + constructor; [exact A | exact B | exact IH2].
Qed.

(* ---- completeness (and sufficiency of the fuel) ---------------------------------------- *)
Definition measure (S X : list seg) (rgt : Z) : nat :=
  (length (filter (fun s => seg_l s >? rgt) S) + 2 * length S + length (st_X1 X rgt))%nat.

Lemma filter_length_le {A} (P Q : A -> bool) l :
  (forall x, In x l -> P x = true -> Q x = true) ->
  (length (filter P l) <= length (filter Q l))%nat.
Proof.
  induction l as [|x l IH]; intros H; simpl; [lia|].
  assert (IH' := IH (fun y Hy => H y (or_intror Hy))).
  destruct (P x) eqn:EP.
  - rewrite (H x (or_introl eq_refl) EP). simpl. lia.
  - destruct (Q x); simpl; lia.
Qed.

Lemma filter_length_lt {A} (P Q : A -> bool) l x :
  (forall y, In y l -> P y = true -> Q y = true) -> In x l -> P x = false -> Q x = true ->
  (length (filter P l) < length (filter Q l))%nat.
Proof.
  induction l as [|y l IH]; intros H Hx HP HQ; [contradiction|]. simpl.
  assert (Hl := filter_length_le P Q l (fun z Hz => H z (or_intror Hz))).
  destruct Hx as [-> | Hx].
  - rewrite HP, HQ. simpl. lia.
  - assert (IH' := IH (fun z Hz => H z (or_intror Hz)) Hx HP HQ).
    destruct (P y) eqn:EP.
    + rewrite (H y (or_introl eq_refl) EP). simpl. lia.
    + destruct (Q y); simpl; lia.
Qed.

Lemma filter_true {A} (l : list A) : filter (fun _ => true) l = l.
Proof. induction l as [|x l IH]; simpl; [reflexivity | rewrite IH; reflexivity]. Qed.

Lemma filter_app_length {A} (P : A -> bool) a b :
  length (filter P (a ++ b)) = (length (filter P a) + length (filter P b))%nat.
Proof. rewrite filter_app, app_length. reflexivity. Qed.

Lemma measure_step_cons s0 rest X rgt inf new S' :
  Inv (s0 :: rest) X rgt inf ->
  take_left (st_left s0 (st_X1 X rgt) rgt) (s0 :: rest) = (new, S') ->
  let X2 := st_X1 X rgt ++ new in
  let rgt' := fold_left Z.min (map seg_r X2) (st_r0 S' inf) in
  (measure S' X2 rgt' < measure (s0 :: rest) X rgt)%nat.
Proof.
  intros HI ET. cbv zeta.
  destruct (step_cons s0 rest X rgt inf new S' HI ET) as [E1 [A [B [C [D [Dn [F [G _]]]]]]]].
  set (X1 := st_X1 X rgt) in *. set (lft := st_left s0 X1 rgt) in *.
  remember (fold_left Z.min (map seg_r (X1 ++ new)) (st_r0 S' inf)) as rgt' eqn:Er'.
  unfold measure. rewrite E1. rewrite filter_app_length, app_length.
  unfold st_X1 at 1. rewrite filter_app_length. fold (st_X1 X1 rgt') (st_X1 new rgt').
  change (st_X1 X rgt) with X1.
  (* term-wise bounds *)
  assert (T1 : (length (filter (fun s => seg_l s >? rgt') S') <= length (filter (fun s => seg_l s >? rgt) S'))%nat).
  { apply filter_length_le. intros x _ H. apply Z.gtb_lt in H. apply Z.gtb_lt. lia. }
  assert (T2 : (length (st_X1 X1 rgt') <= length X1)%nat).
  { unfold st_X1 at 1. clear. induction X1 as [|x l IH]; simpl; [lia|]. destruct (seg_r x >? rgt'); simpl; lia. }
  assert (T3 : (length (st_X1 new rgt') <= length new)%nat).
  { unfold st_X1. clear. induction new as [|x l IH]; simpl; [lia|]. destruct (seg_r x >? rgt'); simpl; lia. }
  destruct new as [|n0 new'].
  - (* nothing taken: either a member of X1 ends at rgt', or rgt' is the next left end *)
    simpl in *. rewrite app_nil_r in *.
    destruct G as [G | [x [Hx Hr]]].
    + (* rgt' = hd S'.l: that element no longer counts as "to the right" *)
      destruct S' as [|s1 S'']; [simpl in E1; discriminate|].
      assert (T1' : (length (filter (fun s => seg_l s >? rgt') (s1 :: S'')) < length (filter (fun s => seg_l s >? rgt) (s1 :: S'')))%nat).
      { apply (filter_length_lt _ _ _ s1).
        - intros y _ H. apply Z.gtb_lt in H. apply Z.gtb_lt. lia.
        - left; reflexivity.
        - unfold st_r0 in G. rewrite Z.gtb_ltb. apply Z.ltb_ge. lia.
        - apply Z.gtb_lt. unfold st_r0 in G. lia. }
      lia.
    + assert (T2' : (length (st_X1 X1 rgt') < length X1)%nat).
      { unfold st_X1 at 1.
        assert (H := filter_length_lt (fun x => seg_r x >? rgt') (fun _ => true) X1 x (fun _ _ _ => eq_refl) Hx).
        rewrite filter_true in H.
        apply H; [rewrite Z.gtb_ltb; apply Z.ltb_ge; lia | reflexivity]. }
      lia.
  - simpl length in *. lia.
Qed.

Lemma measure_step_nil X rgt inf :
  Inv [] X rgt inf -> st_X1 X rgt <> [] ->
  (measure [] (st_X1 X rgt) (fold_left Z.min (map seg_r (st_X1 X rgt)) inf) < measure [] X rgt)%nat.
Proof.
  intros HI Hne. destruct (step_nil X rgt inf HI Hne) as [A [B [[x [Hx Hr]] _]]].
  unfold measure. simpl.
  set (X1 := st_X1 X rgt) in *.
  remember (fold_left Z.min (map seg_r X1) inf) as rgt' eqn:Er'.
  unfold st_X1 at 1.
  assert (H := filter_length_lt (fun x => seg_r x >? rgt') (fun _ => true) X1 x (fun _ _ _ => eq_refl) Hx).
  rewrite filter_true in H.
  assert (H' : (length (filter (fun x0 : seg => seg_r x0 >? rgt') X1) < length X1)%nat).
  { apply H; [rewrite Z.gtb_ltb; apply Z.ltb_ge; lia | reflexivity]. }
  lia.
Qed.

Lemma st_left_nonempty s0 X1 rgt : X1 <> [] -> st_left s0 X1 rgt = rgt.
Proof. unfold st_left. destruct X1; [congruence | reflexivity]. Qed.

Lemma loop_complete inf f : forall S X rgt,
  Inv S X rgt inf -> (measure S X rgt < f)%nat ->
  forall s x, In s S \/ In s X -> seg_l s <= x < seg_r s -> rgt <= x ->
  exists l r Y, In (l, r, Y) (overlap_loop f S X rgt inf) /\ l <= x < r /\ In s Y.
Proof.
  induction f as [|f IH]; intros S X rgt HI Hm s x Hs Hc Hx; [lia|].
  destruct S as [|s0 rest].
  - destruct Hs as [[] | Hs].
    assert (Hs1 : In s (st_X1 X rgt)) by (apply st_X1_in; split; [exact Hs | lia]).
    assert (Hne : st_X1 X rgt <> []) by (intros E; rewrite E in Hs1; contradiction).
    rewrite loop_nil. cbv zeta.
    destruct (is_nil (st_X1 X rgt)) eqn:En; [apply is_nil_true in En; congruence|].
    destruct (step_nil X rgt inf HI Hne) as [A [B [_ D]]].
    pose proof (measure_step_nil X rgt inf HI Hne) as Hm'.
    destruct (Z_lt_le_dec x (fold_left Z.min (map seg_r (st_X1 X rgt)) inf)) as [Hlt | Hge].
    + exists rgt, (fold_left Z.min (map seg_r (st_X1 X rgt)) inf), (st_X1 X rgt).
      split; [left; reflexivity|]. split; [lia | exact Hs1].
    + destruct (IH [] (st_X1 X rgt) _ D) with (s := s) (x := x) as [l [r [Y [H1 [H2 H3]]]]]; auto; [lia|].
      exists l, r, Y. split; [right; exact H1 | auto].
  - rewrite loop_cons. cbv zeta.
    destruct (take_left (st_left s0 (st_X1 X rgt) rgt) (s0 :: rest)) as [new S'] eqn:ET.
    destruct (step_cons s0 rest X rgt inf new S' HI ET) as [E1 [A [B [C [D [Dn [F [_ G]]]]]]]].
    pose proof (measure_step_cons s0 rest X rgt inf new S' HI ET) as Hm'. cbv zeta in Hm'.
    set (X2 := st_X1 X rgt ++ new) in *.
    set (lft := st_left s0 (st_X1 X rgt) rgt) in *.
    remember (fold_left Z.min (map seg_r X2) (st_r0 S' inf)) as rgt' eqn:Er'.
    (* where is s after this step? *)
    assert (Hwhere : (In s X2 /\ lft <= x) \/ In s S').
    { destruct Hs as [Hs | Hs].
      - rewrite E1 in Hs. apply in_app_or in Hs as [Hs | Hs]; [|right; exact Hs].
        left. split; [apply in_or_app; right; exact Hs|]. rewrite <- (Dn s Hs). lia.
      - left. assert (Hs1 : In s (st_X1 X rgt)) by (apply st_X1_in; split; [exact Hs | lia]).
        split; [apply in_or_app; left; exact Hs1|].
        unfold lft. rewrite st_left_nonempty; [exact Hx|]. intros E; rewrite E in Hs1; contradiction. }
    destruct Hwhere as [[Hs2 Hl] | Hs'].
    + destruct (Z_lt_le_dec x rgt') as [Hlt | Hge].
      * exists lft, rgt', X2. split; [left; reflexivity|]. split; [lia | exact Hs2].
      * destruct (IH S' X2 rgt' G) with (s := s) (x := x) as [l [r [Y [H1 [H2 H3]]]]]; auto; [lia|].
        exists l, r, Y. split; [right; exact H1 | auto].
    + assert (Hge : rgt' <= x) by (specialize (F s Hs'); lia).
      destruct (IH S' X2 rgt' G) with (s := s) (x := x) as [l [r [Y [H1 [H2 H3]]]]]; auto; [lia|].
      exists l, r, Y. split; [right; exact H1 | auto].
Qed.

(* the start value of [rgt] is irrelevant while nothing is active (C: DBL_MAX) *)
Lemma loop_X_nil f S r1 r2 inf : overlap_loop f S [] r1 inf = overlap_loop f S [] r2 inf.
Proof. destruct f; [reflexivity|]. destruct S; reflexivity. Qed.

Lemma ordered_lower r0 P l r Y : ordered r0 P -> In (l, r, Y) P -> r0 <= l.
Proof.
  induction 1 as [|r0 l' r' X' rest H1 H2 H3 IH]; intros Hin; [contradiction|].
  destruct Hin as [E | Hin]; [inversion E; subst; exact H1|]. specialize (IH Hin). lia.
Qed.

Lemma ordered_disjoint r0 P : ordered r0 P ->
  forall l1 r1 Y1 l2 r2 Y2 x, In (l1, r1, Y1) P -> In (l2, r2, Y2) P ->
    l1 <= x < r1 -> l2 <= x < r2 -> (l1, r1, Y1) = (l2, r2, Y2).
Proof.
  induction 1 as [|r0 l' r' X' rest H1 H2 H3 IH]; intros l1 r1 Y1 l2 r2 Y2 x Hi1 Hi2 Hx1 Hx2;
    [contradiction|].
  destruct Hi1 as [E1 | Hi1]; destruct Hi2 as [E2 | Hi2].
  - congruence.
  - inversion E1; subst. pose proof (ordered_lower _ _ _ _ _ H3 Hi2). lia.
  - inversion E2; subst. pose proof (ordered_lower _ _ _ _ _ H3 Hi1). lia.
  - eapply IH; eauto.
Qed.

(* ---- the theorem about [overlaps] ------------------------------------------------------ *)
Lemma overlapper_partition_lemma (t : tables) (Q : list seg) :
  (forall s, In s Q -> seg_l s < seg_r s /\ seg_r s <= t_L t) ->
  let P := overlaps t Q in
  (* every piece is a non-empty interval carrying exactly the queued segments that cover it *)
  (forall l r Y, In (l, r, Y) P ->
     l < r /\ Y <> [] /\
     (forall s, In s Y -> In s Q /\ seg_l s <= l /\ r <= seg_r s) /\
     (forall s, In s Q -> seg_l s <= l < seg_r s -> In s Y)) /\
  (* pieces are increasing and disjoint *)
  (exists r0, ordered r0 P) /\
  (* every covered point lies in a piece (in particular the loop's fuel suffices) *)
  (forall s x, In s Q -> seg_l s <= x < seg_r s ->
     exists l r Y, In (l, r, Y) P /\ l <= x < r /\ In s Y).
Proof.
  intros HQ. cbv zeta. unfold overlaps.
  set (inf := t_L t + 1).
  set (r0 := fold_left Z.min (map seg_l Q) 0).
  rewrite (loop_X_nil _ _ inf r0 inf).
  assert (HI : Inv (sort_segs Q) [] r0 inf).
  { split; [apply sort_segs_sorted|]. split; [|intros x []].
    intros s Hs. apply (proj1 (sort_segs_in Q s)) in Hs. destruct (HQ s Hs) as [V R].
    split; [exact V|]. split; [apply fold_min_le_in; apply in_map; exact Hs | unfold inf; lia]. }
  assert (HQ' : forall s, In s (sort_segs Q) \/ In s [] -> In s Q).
  { intros s [Hs | []]. apply (proj1 (sort_segs_in Q s)). exact Hs. }
  assert (Hm : (measure (sort_segs Q) [] r0 < S (3 * length Q))%nat).
  { unfold measure. simpl. rewrite sort_segs_length.
    pose proof (filter_length_le (fun s => seg_l s >? r0) (fun _ => true) (sort_segs Q) (fun _ _ _ => eq_refl)) as H.
    rewrite filter_true, sort_segs_length in H. lia. }
  destruct (loop_sound Q inf (S (3 * length Q)) (sort_segs Q) [] r0 HI HQ') as [Hs Ho].
  assert (Hc : forall s x, In s Q -> seg_l s <= x < seg_r s ->
     exists l r Y, In (l, r, Y) (overlap_loop (S (3 * length Q)) (sort_segs Q) [] r0 inf) /\ l <= x < r /\ In s Y).
  { intros s x Hs' Hx. apply (loop_complete inf _ _ _ _ HI Hm s x); auto.
    - left. apply (proj2 (sort_segs_in Q s)). exact Hs'.
    - pose proof (fold_min_le_in (map seg_l Q) 0 (seg_l s) (in_map seg_l Q s Hs')). unfold r0. lia. }
  split; [|split; [exists r0; exact Ho | exact Hc]].
  intros l r Y Hin. rewrite Forall_forall in Hs. specialize (Hs _ Hin). simpl in Hs.
  destruct Hs as [A [B C]]. repeat split; auto; try (apply (C s H)).
  intros s Hs' Hl.
  destruct (Hc s l Hs' Hl) as [l' [r' [Y' [Hin' [Hx' HsY']]]]].
  assert (E : (l', r', Y') = (l, r, Y)).
  { apply (ordered_disjoint r0 _ Ho l' r' Y' l r Y l); auto. lia. }
  inversion E; subst. exact HsY'.
Qed.

(* non-vacuity: three queued segments, two of them overlapping *)
Example overlaps_example :
  overlaps (mkTables 10 [] [] [] [] [] 0) [(4, 9, 2); (0, 6, 1); (0, 3, 5)]
  = [(0, 3, [(0, 6, 1); (0, 3, 5)]); (3, 4, [(0, 6, 1)]); (4, 6, [(0, 6, 1); (4, 9, 2)]); (6, 9, [(4, 9, 2)])].
Proof. vm_compute. reflexivity. Qed.

(* ---- list-level exactness: X is the filter of the sorted queue --------------------------- *)
Definition covers_b (x : Z) (s : seg) : bool := (seg_l s <=? x) && (x <? seg_r s).

Lemma filter_filter_impl {A} (P Q : A -> bool) l :
  (forall x, In x l -> Q x = true -> P x = true) -> filter Q (filter P l) = filter Q l.
Proof.
  induction l as [|x l IH]; intros H; simpl; [reflexivity|].
  assert (IH' := IH (fun y Hy => H y (or_intror Hy))).
  destruct (P x) eqn:EP; simpl.
  - rewrite IH'. reflexivity.
  - destruct (Q x) eqn:EQ; [rewrite (H x (or_introl eq_refl) EQ) in EP; discriminate | exact IH'].
Qed.

Lemma filter_ext_in' {A} (P Q : A -> bool) l : (forall x, In x l -> P x = Q x) -> filter P l = filter Q l.
Proof.
  induction l as [|x l IH]; intros H; simpl; [reflexivity|].
  rewrite (H x (or_introl eq_refl)), IH; [reflexivity|]. intros y Hy. apply H. right; exact Hy.
Qed.

Lemma filter_none {A} (P : A -> bool) l : (forall x, In x l -> P x = false) -> filter P l = [].
Proof.
  induction l as [|x l IH]; intros H; simpl; [reflexivity|].
  rewrite (H x (or_introl eq_refl)). apply IH. intros y Hy. apply H. right; exact Hy.
Qed.

Lemma filter_all' {A} (P : A -> bool) l : (forall x, In x l -> P x = true) -> filter P l = l.
Proof.
  induction l as [|x l IH]; intros H; simpl; [reflexivity|].
  rewrite (H x (or_introl eq_refl)). f_equal. apply IH. intros y Hy. apply H. right; exact Hy.
Qed.

Lemma st_X1_mono pre a b : a <= b -> st_X1 (st_X1 pre a) b = st_X1 pre b.
Proof.
  intros H. unfold st_X1. apply filter_filter_impl. intros x _ Hx.
  apply Z.gtb_lt in Hx. apply Z.gtb_lt. lia.
Qed.

Lemma loop_exact inf f : forall pre S X rgt,
  Inv S X rgt inf ->
  st_X1 X rgt = st_X1 pre rgt -> (forall s, In s pre -> seg_l s <= rgt) ->
  forall l r Y, In (l, r, Y) (overlap_loop f S X rgt inf) -> Y = filter (covers_b l) (pre ++ S).
Proof.
  induction f as [|f IH]; intros pre S X rgt HI HX Hpre l r Y Hin; [contradiction|].
  destruct S as [|s0 rest].
  - rewrite loop_nil in Hin. cbv zeta in Hin.
    destruct (is_nil (st_X1 X rgt)) eqn:En; [contradiction|].
    assert (Hne : st_X1 X rgt <> []) by (intros E; rewrite E in En; discriminate).
    destruct (step_nil X rgt inf HI Hne) as [A [_ [_ D]]].
    remember (fold_left Z.min (map seg_r (st_X1 X rgt)) inf) as rgt1 eqn:Er1.
    destruct Hin as [E | Hin].
    + inversion E; subst l r Y. rewrite app_nil_r, HX. unfold st_X1. apply filter_ext_in'.
      intros x Hx. unfold covers_b. specialize (Hpre x Hx).
      rewrite Z.gtb_ltb. destruct (seg_l x <=? rgt) eqn:E1; [reflexivity | apply Z.leb_gt in E1; lia].
    + apply (IH pre [] (st_X1 X rgt) _ D) in Hin; auto.
      * rewrite HX. apply st_X1_mono. lia.
      * intros s Hs. specialize (Hpre s Hs). lia.
  - rewrite loop_cons in Hin. cbv zeta in Hin.
    destruct (take_left (st_left s0 (st_X1 X rgt) rgt) (s0 :: rest)) as [new S'] eqn:ET.
    destruct (step_cons s0 rest X rgt inf new S' HI ET) as [E1 [A [B [C [D [Dn [F [_ G]]]]]]]].
    set (X1 := st_X1 X rgt) in *. set (lft := st_left s0 X1 rgt) in *.
    remember (fold_left Z.min (map seg_r (X1 ++ new)) (st_r0 S' inf)) as rgt' eqn:Er'.
    destruct Hin as [E | Hin].
    + inversion E; subst l r Y. rewrite E1, !filter_app.
      assert (Hpre_f : filter (covers_b lft) pre = X1).
      { assert (HX' : X1 = st_X1 pre rgt) by exact HX.
        assert (Hl : X1 <> [] -> lft = rgt) by (intros Hne; unfold lft; apply st_left_nonempty; exact Hne).
        clearbody lft. clearbody X1.
        destruct X1 as [|x1 X1'].
        - (* nothing alive: nothing in pre reaches beyond rgt <= lft *)
          apply filter_none. intros x Hx. unfold covers_b.
          assert (Hdead : (seg_r x >? rgt) = false).
          { destruct (seg_r x >? rgt) eqn:Ea; [|reflexivity]. exfalso.
            assert (H : In x (st_X1 pre rgt)) by (apply st_X1_in; split; [exact Hx | apply Z.gtb_lt; exact Ea]).
            rewrite <- HX' in H. contradiction. }
          rewrite Z.gtb_ltb in Hdead. apply Z.ltb_ge in Hdead.
          destruct (lft <? seg_r x) eqn:E2; [apply Z.ltb_lt in E2; lia | apply andb_false_r].
        - assert (El : lft = rgt) by (apply Hl; discriminate).
          rewrite HX'. unfold st_X1. apply filter_ext_in'.
          intros x Hx. unfold covers_b. specialize (Hpre x Hx). rewrite El, Z.gtb_ltb.
          destruct (seg_l x <=? rgt) eqn:Ele; [reflexivity | apply Z.leb_gt in Ele; lia]. }
      assert (Hnew_f : filter (covers_b lft) new = new).
      { apply filter_all'. intros x Hx. unfold covers_b.
        assert (Hx2 : In x (X1 ++ new)) by (apply in_or_app; right; exact Hx).
        destruct (D x Hx2) as [_ [V [Lx Rx]]]. unfold valid in V. rewrite (Dn x Hx) in *.
        apply andb_true_iff. split; [apply Z.leb_le; lia | apply Z.ltb_lt; lia]. }
      assert (HS'_f : filter (covers_b lft) S' = []).
      { apply filter_none. intros x Hx. unfold covers_b. specialize (F x Hx).
        destruct (seg_l x <=? lft) eqn:Ele; [apply Z.leb_le in Ele; lia | reflexivity]. }
      rewrite Hpre_f, Hnew_f, HS'_f, app_nil_r. reflexivity.
    + replace (pre ++ s0 :: rest) with ((pre ++ new) ++ S') by (rewrite E1, app_assoc; reflexivity).
      apply (IH (pre ++ new) S' (X1 ++ new) rgt' G) with (r := r); [ | | exact Hin].
      * unfold st_X1. rewrite !filter_app. fold (st_X1 X1 rgt') (st_X1 pre rgt') (st_X1 new rgt').
        f_equal. assert (HX' : X1 = st_X1 pre rgt) by exact HX. rewrite HX'. apply st_X1_mono. lia.
      * intros s Hs. apply in_app_or in Hs as [Hs | Hs]; [specialize (Hpre s Hs); lia|].
        rewrite (Dn s Hs). lia.
Qed.

Lemma filter_sort_length (P : seg -> bool) q :
  length (filter P (sort_segs q)) = length (filter P q).
Proof.
  unfold sort_segs. induction q as [|x q IH]; simpl; [reflexivity|].
  assert (H : forall l, length (filter P (seg_insert x l)) = length (filter P (x :: l))).
  { induction l as [|z l IHl]; simpl; [reflexivity|].
    destruct ((seg_l x <? seg_l z) || ((seg_l x =? seg_l z) && (seg_n x <=? seg_n z))); simpl; [reflexivity|].
    simpl in IHl. destruct (P z); simpl; rewrite IHl; destruct (P x); simpl; lia. }
  rewrite H. simpl. destruct (P x); simpl; rewrite IH; reflexivity.
Qed.

(* the pieces carry, as LISTS, exactly the sorted queue's segments covering their left end:
   num_overlapping is the number of queued segments covering the piece *)
Lemma overlapper_exact_lemma (t : tables) (Q : list seg) :
  (forall s, In s Q -> seg_l s < seg_r s /\ seg_r s <= t_L t) ->
  forall l r Y, In (l, r, Y) (overlaps t Q) ->
    Y = filter (covers_b l) (sort_segs Q) /\
    length Y = length (filter (covers_b l) Q).
Proof.
  intros HQ l r Y Hin. unfold overlaps in Hin.
  set (inf := t_L t + 1) in *.
  set (r0 := fold_left Z.min (map seg_l Q) 0).
  rewrite (loop_X_nil _ _ inf r0 inf) in Hin.
  assert (HI : Inv (sort_segs Q) [] r0 inf).
  { split; [apply sort_segs_sorted|]. split; [|intros x []].
    intros s Hs. apply (proj1 (sort_segs_in Q s)) in Hs. destruct (HQ s Hs) as [V R].
    split; [exact V|]. split; [apply fold_min_le_in; apply in_map; exact Hs | unfold inf; lia]. }
  assert (E : Y = filter (covers_b l) ([] ++ sort_segs Q)).
  { apply (loop_exact inf _ [] (sort_segs Q) [] r0 HI eq_refl (fun s (H : In s []) => match H with end) l r Y Hin). }
  simpl in E. split; [exact E|]. rewrite E. apply filter_sort_length.
Qed.
