(* C04 -- reducing a reduced forest again (same samples, same options) changes nothing:
   [kept] and [rpar] computed in the forest [rpar] equal [kept] and [rpar] computed in
   the original forest.  Every option combination of the per-position specification
   (keep_unary / keep_unary_in_individuals through [unary_ok], keep_input_roots). *)
From Coq Require Import List ZArith Bool Lia Arith.
From TskVerif Require Import Base.Common C04.Model C04.ForestProofs C04.ReduceProofs.
Import ListNotations.
Local Open Scope nat_scope.

Lemma filter_nil_all {A} (P : A -> bool) l : (forall x, In x l -> P x = false) -> filter P l = [].
Proof.
  induction l as [|x l IH]; intros H; simpl; [reflexivity|].
  rewrite (H x (or_introl eq_refl)). apply IH. intros y Hy. apply H. right; exact Hy.
Qed.

Section Idem.
  Variable par : nat -> option nat.
  Variable nodes smp : list nat.
  Variable unary_ok : nat -> bool.
  Variable keep_roots : bool.
  Variable fuel : nat.
  Variable depth : nat -> nat.
  Hypothesis depth_dec : forall u v, par u = Some v -> depth v < depth u.
  Hypothesis depth_fuel : forall u, depth u < fuel.
  Hypothesis nodes_complete : forall u v, par u = Some v -> In u nodes.
  Hypothesis nodes_nodup : NoDup nodes.

  Notation keptP := (kept par nodes smp unary_ok keep_roots fuel).
  Notation rparP := (rpar par nodes smp unary_ok keep_roots fuel).
  Notation hsbP := (hsb par smp fuel).
  Notation nlinP := (nlin par nodes smp fuel).
  (* the same notions evaluated in the reduced forest *)
  Notation kept2 := (kept rparP nodes smp unary_ok keep_roots fuel).
  Notation rpar2 := (rpar rparP nodes smp unary_ok keep_roots fuel).
  Notation hsb2 := (hsb rparP smp fuel).
  Notation nlin2 := (nlin rparP nodes smp fuel).

  Let rdepth : forall u v, rparP u = Some v -> depth v < depth u :=
    rpar_depth par nodes smp unary_ok keep_roots fuel depth depth_dec.

  Lemma rnodes_complete u v : rparP u = Some v -> In u nodes.
  Proof.
    unfold rpar. destruct (keptP u); [|discriminate].
    destruct (par u) as [w|] eqn:E; [|discriminate]. intros _. eapply nodes_complete; eauto.
  Qed.

  Lemma hsb2_eq u : hsb2 u = keptP u && hsbP u.
  Proof.
    unfold hsb.
    rewrite (existsb_ext_in _ (fun s => keptP u && anc_or_self par fuel u s)).
    - apply existsb_andb_const.
    - intros s Hs. apply (aosb_reduced par nodes smp unary_ok keep_roots fuel depth); auto.
      apply reduce_keeps_samples_lemma; exact Hs.
  Qed.

  Lemma nlin2_unkept u : keptP u = false -> nlin2 u = 0.
  Proof.
    intros Hk. unfold nlin, children.
    rewrite (filter_nil_all (is_child_of rparP u)); [reflexivity|].
    intros c _. unfold is_child_of. destruct (rparP c) as [q|] eqn:E; [|reflexivity].
    destruct (Nat.eqb q u) eqn:Eq; [|reflexivity]. apply Nat.eqb_eq in Eq. subst.
    apply rpar_spec in E as [_ [E _]]. congruence.
  Qed.

  (* below a kept node u, on the lineage through its child c towards the sample s, there
     is a child d of u in the reduced forest *)
  Lemma descend u c s : keptP u = true -> par c = Some u -> In s smp -> aos par c s ->
    exists d, rparP d = Some u /\ aos par c d /\ aos par d s /\ keptP d = true.
  Proof.
    intros Hu Hp Hs Hcs.
    assert (Hks : keptP s = true) by (apply reduce_keeps_samples_lemma; exact Hs).
    assert (Hus : anc par u s).
    { eapply anc_aos_trans; [apply anc_par; exact Hp | exact Hcs]. }
    apply (reduce_ancestry_restriction_lemma par nodes smp unary_ok keep_roots fuel depth
             depth_dec depth_fuel u s Hu Hks) in Hus.
    destruct (anc_child rparP u s Hus) as [d [Hd Hds]].
    pose proof (rpar_spec _ _ _ _ _ _ _ _ Hd) as [Hkd [_ Hud]].
    apply (aos_restriction par nodes smp unary_ok keep_roots fuel depth depth_dec depth_fuel
             d s Hkd Hks) in Hds.
    exists d. repeat split; auto.
    destruct (anc_linear par c d s Hcs Hds) as [H | [-> | H]]; auto.
    - left; reflexivity.
    - exfalso. apply anc_inv in H as [q [Hq Hdq]]. rewrite Hp in Hq. inversion Hq; subst.
      apply (anc_irrefl par depth depth_dec d). eapply aos_anc_trans; eauto.
  Qed.

  Lemma subtree_disjoint u c1 c2 d :
    par c1 = Some u -> par c2 = Some u -> aos par c1 d -> aos par c2 d -> c1 = c2.
  Proof.
    intros P1 P2 H1 H2.
    destruct (anc_linear par c1 c2 d H1 H2) as [[E | H] | [E | H]]; try congruence; exfalso.
    - apply anc_inv in H as [q [Hq Hcq]]. rewrite P2 in Hq. inversion Hq; subst.
      apply (anc_irrefl par depth depth_dec c1). eapply aos_anc_trans; [exact Hcq|].
      apply anc_par; exact P1.
    - apply anc_inv in H as [q [Hq Hcq]]. rewrite P1 in Hq. inversion Hq; subst.
      apply (anc_irrefl par depth depth_dec c2). eapply aos_anc_trans; [exact Hcq|].
      apply anc_par; exact P2.
  Qed.

  Lemma hsbP_iff u : hsbP u = true <-> exists s, In s smp /\ aos par u s.
  Proof. apply (hsb_iff par smp fuel depth); auto. Qed.

  Lemma hsb2_of d s : keptP d = true -> In s smp -> aos par d s -> hsb2 d = true.
  Proof.
    intros Hk Hs Hds. rewrite hsb2_eq, Hk. simpl. apply hsbP_iff. exists s. auto.
  Qed.

  Lemma nlin2_two u : keptP u = true -> 2 <= nlinP u -> 2 <= nlin2 u.
  Proof.
    intros Hu H.
    destruct (nlin_two_children par nodes smp fuel nodes_nodup u H)
      as [c1 [c2 [Hne [P1 [P2 [H1 H2]]]]]].
    apply hsbP_iff in H1 as [s1 [Hs1 Hc1]]. apply hsbP_iff in H2 as [s2 [Hs2 Hc2]].
    destruct (descend u c1 s1 Hu P1 Hs1 Hc1) as [d1 [R1 [A1 [B1 K1]]]].
    destruct (descend u c2 s2 Hu P2 Hs2 Hc2) as [d2 [R2 [A2 [B2 K2]]]].
    apply (nlin_two rparP nodes smp fuel rnodes_complete nodes_nodup u d1 d2); auto.
    - intros E. subst d2. apply Hne. apply (subtree_disjoint u c1 c2 d1); assumption.
    - apply (hsb2_of d1 s1); assumption.
    - apply (hsb2_of d2 s2); assumption.
  Qed.

  Lemma nlin2_one u : keptP u = true -> 1 <= nlinP u -> 1 <= nlin2 u.
  Proof.
    intros Hu H.
    destruct (nlin_pos_child par nodes smp fuel u H) as [c [P1 H1]].
    apply hsbP_iff in H1 as [s [Hs Hc]].
    destruct (descend u c s Hu P1 Hs Hc) as [d [R [A [B K]]]].
    apply (nlin_one rparP nodes smp fuel rnodes_complete u d); auto.
    apply (hsb2_of d s); assumption.
  Qed.

  (* (d) *)
  Lemma kept2_eq u : kept2 u = keptP u.
  Proof.
    destruct (keptP u) eqn:Ek.
    - pose proof Ek as Ek'. unfold kept, kept1, root_rule in Ek'.
      unfold kept, kept1, root_rule.
      apply orb_true_iff in Ek' as [H | H].
      + apply orb_true_iff in H as [H | H].
        * apply orb_true_iff in H as [H | H].
          -- rewrite H. reflexivity.
          -- apply Nat.leb_le in H. pose proof (nlin2_two u Ek H) as H2.
             apply Nat.leb_le in H2. rewrite H2. rewrite orb_true_r. reflexivity.
        * apply andb_true_iff in H as [Hu H]. apply Nat.leb_le in H.
          pose proof (nlin2_one u Ek H) as H2. apply Nat.leb_le in H2.
          rewrite Hu, H2. simpl. rewrite orb_true_r. reflexivity.
      + apply andb_true_iff in H as [H Hh]. apply andb_true_iff in H as [Hr Hn].
        assert (Hn2 : is_none (rparP u) = true).
        { unfold rpar. rewrite Ek. destruct (par u); [discriminate | reflexivity]. }
        apply orb_true_iff. right. apply andb_true_iff. split.
        * apply andb_true_iff. split; assumption.
        * rewrite hsb2_eq, Ek, Hh. reflexivity.
    - unfold kept, kept1, root_rule. rewrite (nlin2_unkept u Ek). rewrite hsb2_eq, Ek.
      simpl. rewrite !andb_false_r. rewrite !orb_false_r.
      destruct (mem u smp) eqn:Em; [|reflexivity].
      apply mem_In in Em. rewrite (reduce_keeps_samples_lemma par nodes smp unary_ok keep_roots fuel u Em) in Ek.
      discriminate.
  Qed.

  Lemma rpar2_eq u : rpar2 u = rparP u.
  Proof.
    unfold rpar at 1. rewrite kept2_eq.
    destruct (keptP u) eqn:Ek.
    - destruct (rparP u) as [v|] eqn:Er; [|reflexivity].
      apply first_kept_kept.
      + apply (fuel_pos fuel depth depth_fuel).
      + rewrite kept2_eq. apply rpar_spec in Er. tauto.
    - symmetry. apply rpar_unkept. exact Ek.
  Qed.

  Lemma reduce_idempotent_lemma u : kept2 u = keptP u /\ rpar2 u = rparP u.
  Proof. split; [apply kept2_eq | apply rpar2_eq]. Qed.
End Idem.
