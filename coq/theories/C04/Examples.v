(* C04 -- non-vacuity: a concrete forest that meets the hypotheses of every theorem of
   Props/C04.v, with non-trivial content (a unary node that is removed, ancestry above the
   MRCA that is removed, a mutation that moves, a mutation that is dropped).

          6            nodes 0,1,2 leaves; 4 = parent of 0 and 1; 5 = parent of 4 and 2;
          |            6 = unary root above 5; 3 isolated.
          5
         / \
        4   2
       / \
      0   1      3                                                                  *)
From Coq Require Import List ZArith Bool Lia Arith.
From TskVerif Require Import Base.Common C04.Model C04.ForestProofs C04.ReduceProofs
  C04.IdemProofs C04.GenoProofs.
Import ListNotations.
Local Open Scope nat_scope.

Definition ex_par (u : nat) : option nat :=
  match u with 0 => Some 4 | 1 => Some 4 | 2 => Some 5 | 4 => Some 5 | 5 => Some 6 | _ => None end.
Definition ex_depth (u : nat) : nat :=
  match u with 0 => 3 | 1 => 3 | 2 => 2 | 4 => 2 | 5 => 1 | _ => 0 end.
Definition ex_nodes : list nat := [0; 1; 2; 3; 4; 5; 6].
Definition ex_fuel : nat := 7.
Definition no_unary (_ : nat) : bool := false.

Example ex_depth_dec : forall u v, ex_par u = Some v -> ex_depth v < ex_depth u.
Proof.
  intros u v. do 7 (destruct u as [|u]; [simpl; intros H; inversion H; subst; simpl; lia|]).
  simpl. discriminate.
Qed.
Example ex_depth_fuel : forall u, ex_depth u < ex_fuel.
Proof. intros u. do 7 (destruct u as [|u]; [simpl; unfold ex_fuel; lia|]). simpl. unfold ex_fuel. lia. Qed.
Example ex_nodes_complete : forall u v, ex_par u = Some v -> In u ex_nodes.
Proof.
  intros u v. do 7 (destruct u as [|u]; [intros _; simpl; tauto|]). simpl. discriminate.
Qed.
Example ex_nodes_nodup : NoDup ex_nodes.
Proof. unfold ex_nodes. repeat constructor; simpl; intuition lia. Qed.

(* chosen samples 0 and 2: node 4 is unary (removed), node 6 is above the MRCA (removed),
   node 1 has no chosen sample below (removed) *)
Example ex_kept :
  map (kept ex_par ex_nodes [0; 2] no_unary false ex_fuel) ex_nodes
  = [true; false; true; false; false; true; false].
Proof. vm_compute. reflexivity. Qed.

(* reduce_keeps_samples / reduce_ancestry_restriction: 5 is an ancestor of 0 in both, the
   new parent of 0 skips the unary node 4 *)
Example ex_rpar :
  map (rpar ex_par ex_nodes [0; 2] no_unary false ex_fuel) ex_nodes
  = [Some 5; None; Some 5; None; None; None; None].
Proof. vm_compute. reflexivity. Qed.
Example ex_restriction :
  anc (rpar ex_par ex_nodes [0; 2] no_unary false ex_fuel) 5 0 /\ anc ex_par 5 0.
Proof.
  split.
  - apply anc_par. vm_compute. reflexivity.
  - eapply anc_up; [reflexivity|]. apply anc_par. reflexivity.
Qed.

(* keep_unary keeps 4 and 6; keep_input_roots keeps the root 6 only *)
Example ex_kept_unary :
  map (kept ex_par ex_nodes [0; 2] (fun _ => true) false ex_fuel) ex_nodes
  = [true; false; true; false; true; true; true].
Proof. vm_compute. reflexivity. Qed.
Example ex_kept_roots :
  map (rpar ex_par ex_nodes [0; 2] no_unary true ex_fuel) ex_nodes
  = [Some 5; None; Some 5; None; None; Some 6; None].
Proof. vm_compute. reflexivity. Qed.

(* reduce_mrca_preserved *)
Example ex_mrca :
  mrca ex_par ex_fuel 0 2 = Some 5 /\
  mrca (rpar ex_par ex_nodes [0; 2] no_unary false ex_fuel) ex_fuel 0 2 = Some 5 /\
  mrca ex_par ex_fuel 0 3 = None.
Proof. repeat split; vm_compute; reflexivity. Qed.

(* reduce_idempotent: reducing the reduced forest again *)
Example ex_idem :
  let r := rpar ex_par ex_nodes [0; 2] no_unary false ex_fuel in
  map (rpar r ex_nodes [0; 2] no_unary false ex_fuel) ex_nodes = map r ex_nodes /\
  map (kept r ex_nodes [0; 2] no_unary false ex_fuel) ex_nodes
  = map (kept ex_par ex_nodes [0; 2] no_unary false ex_fuel) ex_nodes.
Proof. split; vm_compute; reflexivity. Qed.

(* reduce_genotypes_preserved: one site, ancestral state 0; mutations above 6 (state 7),
   above 4 (state 8) and above 1 (state 9), in table order.  The one above the root moves
   to the MRCA 5, the one above the unary node 4 moves to 0, the one above 1 is dropped. *)
Example ex_remap :
  remap_muts ex_par ex_nodes [0; 2] no_unary false ex_fuel [(6, 7%Z); (4, 8%Z); (1, 9%Z)]
  = [(5, 7%Z); (0, 8%Z)].
Proof. vm_compute. reflexivity. Qed.
Example ex_alleles :
  map (allele ex_par ex_fuel 0%Z [(6, 7%Z); (4, 8%Z); (1, 9%Z)]) [0; 2] = [8%Z; 7%Z] /\
  map (allele (rpar ex_par ex_nodes [0; 2] no_unary false ex_fuel) ex_fuel 0%Z [(5, 7%Z); (0, 8%Z)]) [0; 2]
  = [8%Z; 7%Z].
Proof. split; vm_compute; reflexivity. Qed.

(* the generic theorems instantiated on the example (hypotheses are satisfiable) *)
Example ex_instance_mrca :
  mrca (rpar ex_par ex_nodes [0; 2] no_unary false ex_fuel) ex_fuel 0 2 = mrca ex_par ex_fuel 0 2.
Proof.
  apply (reduce_mrca_preserved_lemma ex_par ex_nodes [0; 2] no_unary false ex_fuel ex_depth
           ex_depth_dec ex_depth_fuel ex_nodes_complete ex_nodes_nodup); simpl; auto.
Qed.
Example ex_instance_geno :
  allele (rpar ex_par ex_nodes [0; 2] no_unary false ex_fuel) ex_fuel 0%Z
         (remap_muts ex_par ex_nodes [0; 2] no_unary false ex_fuel [(6, 7%Z); (4, 8%Z); (1, 9%Z)]) 0
  = allele ex_par ex_fuel 0%Z [(6, 7%Z); (4, 8%Z); (1, 9%Z)] 0.
Proof.
  apply (reduce_genotypes_preserved_lemma ex_par ex_nodes [0; 2] no_unary false ex_fuel ex_depth
           ex_depth_dec ex_depth_fuel ex_nodes_complete ex_nodes_nodup); simpl; auto.
Qed.
