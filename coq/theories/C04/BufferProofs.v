(* C04 -- algorithm model, edge buffering (simplifier_record_edge / simplifier_flush_edges,
   C04/SimplifyAlg.v: [buf_add], [flush_edges]) against the specification's [squash]
   (C04/Model.v): whatever order the edges of one parent are recorded in, the intervals
   buffered for a child are exactly [squash None] of that child's recorded intervals (in
   recording order), every child has one buffer entry, and flushing emits exactly those
   intervals as edges (parent, child).  Also: ancestry squashing ([add_ancestry]) loses and
   invents nothing; [rewind_node] undoes [record_node]. *)
From Coq Require Import List ZArith Bool Lia Arith.
From TskVerif Require Import Base.Common C04.Model C04.SimplifyAlg C04.ExtractProofs.
Import ListNotations.
Open Scope Z_scope.

(* what record_edge does to the interval list of one child *)
Definition snoc_ext (ivs : list (Z * Z)) (x : Z * Z) : list (Z * Z) :=
  match rev ivs with
  | (tl, tr) :: more => if tr =? fst x then rev ((tl, snd x) :: more) else ivs ++ [x]
  | [] => [x]
  end.

Lemma snoc_ext_cons h t x : t <> [] -> snoc_ext (h :: t) x = h :: snoc_ext t x.
Proof.
  intros Hne. unfold snoc_ext. simpl rev.
  destruct (rev t) as [|[tl tr] more] eqn:E.
  - exfalso. apply Hne. rewrite <- (rev_involutive t), E. reflexivity.
  - simpl. destruct (tr =? fst x); [|reflexivity].
    simpl. rewrite rev_app_distr. simpl. reflexivity.
Qed.

Lemma squash_some_nonempty a l : squash (Some a) l <> [].
Proof.
  revert a. induction l as [|[a1 b1] l IH]; intros [a0 b0]; simpl; [discriminate|].
  destruct (b0 =? a1); [apply IH | discriminate].
Qed.

Lemma squash_some_snoc a l x : squash (Some a) (l ++ [x]) = snoc_ext (squash (Some a) l) x.
Proof.
  revert a. induction l as [|[a1 b1] l IH]; intros [a0 b0]; destruct x as [xa xb].
  - simpl. unfold snoc_ext. simpl. destruct (b0 =? xa); reflexivity.
  - simpl. destruct (b0 =? a1).
    + apply IH.
    + rewrite IH. symmetry. apply snoc_ext_cons. apply squash_some_nonempty.
Qed.

Lemma squash_snoc l x : squash None (l ++ [x]) = snoc_ext (squash None l) x.
Proof.
  destruct l as [|y l]; [destruct x; reflexivity|].
  destruct y as [a b]. simpl. apply squash_some_snoc.
Qed.

(* ---- the buffer ------------------------------------------------------------------------ *)
Definition lookup (c : Z) (b : buffer) : list (Z * Z) :=
  match find (fun e : Z * list (Z * Z) => fst e =? c) b with Some e => snd e | None => [] end.

Lemma buf_add_lookup b c' l r c :
  lookup c (buf_add b c' l r) = if c =? c' then snoc_ext (lookup c b) (l, r) else lookup c b.
Proof.
  unfold lookup. destruct (c =? c') eqn:Ecc.
  - apply Z.eqb_eq in Ecc. subst c'.
    induction b as [|[c0 ivs] b IH]; simpl.
    + rewrite Z.eqb_refl. reflexivity.
    + destruct (c0 =? c) eqn:E0; simpl.
      * rewrite E0. simpl. unfold snoc_ext. simpl.
        destruct (rev ivs) as [|[tl tr] more]; reflexivity.
      * rewrite E0. exact IH.
  - induction b as [|[c0 ivs] b IH]; simpl.
    + rewrite Z.eqb_sym, Ecc. reflexivity.
    + destruct (c0 =? c') eqn:E0; simpl.
      * apply Z.eqb_eq in E0. subst c0. rewrite Z.eqb_sym, Ecc. reflexivity.
      * destruct (c0 =? c); [reflexivity | exact IH].
Qed.

Lemma buf_add_children b c' l r :
  map fst (buf_add b c' l r) = if existsb (fun e : Z * list (Z * Z) => fst e =? c') b then map fst b
                               else map fst b ++ [c'].
Proof.
  induction b as [|[c0 ivs] b IH]; simpl; [reflexivity|].
  destruct (c0 =? c') eqn:E; simpl; [reflexivity|]. rewrite IH.
  destruct (existsb _ b); reflexivity.
Qed.

Lemma nodup_snoc {A} (l : list A) x : NoDup l -> ~ In x l -> NoDup (l ++ [x]).
Proof.
  induction 1 as [|y l Hy ND IH]; intros Hx; simpl.
  - constructor; [intros [] | constructor].
  - constructor.
    + intros Hin. apply in_app_or in Hin as [Hin | [<- | []]]; [contradiction|]. apply Hx. left; reflexivity.
    + apply IH. intros Hin. apply Hx. right; exact Hin.
Qed.

Lemma buf_add_nodup b c' l r : NoDup (map fst b) -> NoDup (map fst (buf_add b c' l r)).
Proof.
  intros H. rewrite buf_add_children.
  destruct (existsb _ b) eqn:E; [exact H|].
  apply nodup_snoc; [exact H|]. intros Hin. apply in_map_iff in Hin as [e [He Hin]].
  assert (existsb (fun e : Z * list (Z * Z) => fst e =? c') b = true).
  { apply existsb_exists. exists e. split; [exact Hin | apply Z.eqb_eq; exact He]. }
  congruence.
Qed.

(* a record = (child, left, right) in the order of the calls to record_edge *)
Definition record := (Z * Z * Z)%type.
Definition buf_of (rs : list record) : buffer :=
  fold_left (fun b (x : record) => let '(c, l, r) := x in buf_add b c l r) rs [].
Definition intervals_of (c : Z) (rs : list record) : list (Z * Z) :=
  map (fun x : record => let '(_, l, r) := x in (l, r))
      (filter (fun x : record => let '(c', _, _) := x in c' =? c) rs).

Lemma buffer_is_squash_lemma rs c : lookup c (buf_of rs) = squash None (intervals_of c rs).
Proof.
  induction rs as [|[[c' l] r] rs IH] using rev_ind; [reflexivity|].
  unfold buf_of. rewrite fold_left_app. simpl. fold (buf_of rs).
  rewrite buf_add_lookup. unfold intervals_of. rewrite filter_app, map_app. simpl.
  fold (intervals_of c rs). rewrite (Z.eqb_sym c' c).
  destruct (c =? c') eqn:E; simpl.
  - rewrite squash_snoc, IH. reflexivity.
  - rewrite app_nil_r. exact IH.
Qed.

Lemma buf_of_nodup rs : NoDup (map fst (buf_of rs)).
Proof.
  induction rs as [|[[c' l] r] rs IH] using rev_ind; [constructor|].
  unfold buf_of. rewrite fold_left_app. simpl. apply buf_add_nodup. exact IH.
Qed.

Lemma nodup_lookup b c ivs : NoDup (map fst b) -> In (c, ivs) b -> lookup c b = ivs.
Proof.
  unfold lookup. induction b as [|[c0 i0] b IH]; intros ND Hin; [contradiction|].
  simpl in *. inversion ND as [|? ? Hn ND']; subst.
  destruct Hin as [E | Hin].
  - inversion E; subst. rewrite Z.eqb_refl. reflexivity.
  - destruct (c0 =? c) eqn:E.
    + apply Z.eqb_eq in E. subst. exfalso. apply Hn. apply in_map_iff. exists (c, ivs). auto.
    + apply IH; assumption.
Qed.

Lemma buf_insert_in x b y : In y (buf_insert x b) <-> y = x \/ In y b.
Proof.
  induction b as [|z b IH]; simpl.
  - split; [intros [H | []]; auto | intros [H | []]; auto].
  - destruct (fst x <=? fst z); simpl.
    + split; [intros [H | H]; auto | intros [H | H]; auto].
    + rewrite IH. tauto.
Qed.

Lemma buf_sort_in b y : In y (fold_right buf_insert [] b) <-> In y b.
Proof.
  induction b as [|x b IH]; simpl; [tauto|]. rewrite buf_insert_in, IH.
  split; intros [H | H]; auto.
Qed.

(* the edges appended by flush_edges *)
Definition flushed (s : st) (parent : Z) (b : buffer) : list (Z * Z * Z * Z) :=
  skipn (length (s_edges s)) (s_edges (fst (flush_edges s parent b))).

Lemma flush_edges_squash_lemma (s : st) (parent : Z) (rs : list record) :
  forall l r p c,
    In (l, r, p, c) (flushed s parent (buf_of rs)) <->
    p = parent /\ In (l, r) (squash None (intervals_of c rs)).
Proof.
  intros l r p c. unfold flushed, flush_edges. cbn [fst s_edges].
  rewrite skipn_app, skipn_all, Nat.sub_diag. simpl skipn. rewrite app_nil_l.
  rewrite in_flat_map. split.
  - intros [[c0 ivs] [Hin He]]. apply (proj1 (buf_sort_in _ _)) in Hin. simpl in He.
    apply in_map_iff in He as [[l0 r0] [E Hlr]]. simpl in E. inversion E; subst.
    split; [reflexivity|]. rewrite <- buffer_is_squash_lemma.
    rewrite (nodup_lookup _ _ _ (buf_of_nodup rs) Hin). exact Hlr.
  - intros [-> Hin]. rewrite <- buffer_is_squash_lemma in Hin.
    unfold lookup in Hin.
    destruct (find (fun e : Z * list (Z * Z) => fst e =? c) (buf_of rs)) as [[c0 ivs]|] eqn:Ef; [|contradiction].
    apply find_some in Ef as [Hb Hc]. simpl in Hc. apply Z.eqb_eq in Hc. subst c0. simpl in Hin.
    exists (c, ivs). split; [apply (proj2 (buf_sort_in _ _)); exact Hb|].
    simpl. apply in_map_iff. exists (l, r). split; [reflexivity | exact Hin].
Qed.

(* children come out in increasing id order (qsort by cmp_node_id) *)
Inductive sorted_fst : buffer -> Prop :=
| sf_nil : sorted_fst []
| sf_cons : forall x b, (forall y, In y b -> fst x <= fst y) -> sorted_fst b -> sorted_fst (x :: b).

Lemma buf_sort_sorted b : sorted_fst (fold_right buf_insert [] b).
Proof.
  induction b as [|x b IH]; simpl; [constructor|].
  induction IH as [|z t Hz Ht IHt]; simpl.
  - constructor; [intros y []|constructor].
  - destruct (fst x <=? fst z) eqn:E.
    + apply Z.leb_le in E. constructor; [|constructor; assumption].
      intros y [<- | Hy]; [exact E | specialize (Hz y Hy); lia].
    + apply Z.leb_gt in E. constructor; [|exact IHt].
      intros y Hy. apply buf_insert_in in Hy as [-> | Hy]; [lia | apply Hz; exact Hy].
Qed.

(* ---- ancestry squashing and node rewinding --------------------------------------------- *)
(* the list operation inside add_ancestry (simplifier_add_ancestry 9461-9494) *)
Definition snoc_seg (a : list seg) (l r out : Z) : list seg :=
  match rev a with
  | (tl, tr, tn) :: rest => if (tr =? l) && (tn =? out) then rev ((tl, r, tn) :: rest) else a ++ [(l, r, out)]
  | [] => [(l, r, out)]
  end.

(* position x is mapped to node n afterwards iff it was before, or x lies in the added
   interval and n is the added node: squashing with the tail loses and invents nothing *)
Lemma snoc_seg_carries_lemma (a : list seg) (l r out : Z) x n :
  l < r -> (forall sg, In sg a -> seg_l sg < seg_r sg) ->
  (carries (snoc_seg a l r out) x n <-> carries a x n \/ (n = out /\ l <= x < r)).
Proof.
  intros Hlr Hv. unfold snoc_seg.
  destruct (rev a) as [|[[tl tr] tn] rest] eqn:E.
  - assert (Ha : a = []) by (rewrite <- (rev_involutive a), E; reflexivity). rewrite Ha.
    rewrite carries_cons. simpl. split.
    + intros [[Hn Hx] | Hc]; [right; auto | exfalso; eapply carries_nil; eauto].
    + intros [Hc | [Hn Hx]]; [exfalso; eapply carries_nil; eauto | left; auto].
  - assert (Ha : a = rev rest ++ [(tl, tr, tn)]).
    { rewrite <- (rev_involutive a), E. reflexivity. }
    assert (Ht : tl < tr).
    { apply (Hv (tl, tr, tn)). rewrite Ha. apply in_or_app. right. left. reflexivity. }
    destruct ((tr =? l) && (tn =? out)) eqn:Ec.
    + apply andb_true_iff in Ec as [E1 E2]. apply Z.eqb_eq in E1. apply Z.eqb_eq in E2. subst tr tn.
      simpl rev. rewrite Ha, !carries_app, !carries_cons. simpl. split.
      * intros [Hc | [[Hn Hx] | Hc]]; [left; left; exact Hc | | exfalso; eapply carries_nil; eauto].
        destruct (Z_lt_le_dec x l); [left; right; left; split; [exact Hn | lia] | right; split; [auto | lia]].
      * intros [[Hc | [[Hn Hx] | Hc]] | [Hn Hx]].
        -- left; exact Hc.
        -- right; left. split; [exact Hn | lia].
        -- exfalso; eapply carries_nil; eauto.
        -- right; left. split; [auto | lia].
    + rewrite carries_app, carries_cons. simpl. split.
      * intros [Hc | [[Hn Hx] | Hc]]; [left; exact Hc | right; auto | exfalso; eapply carries_nil; eauto].
      * intros [Hc | [Hn Hx]]; [left; exact Hc | right; left; auto].
Qed.

Lemma upd_nth {A} (ls : list A) i a d : (i < length ls)%nat -> nth i (upd ls i a) d = a.
Proof.
  revert i. induction ls as [|h tl IH]; intros i Hi; [simpl in Hi; lia|].
  destruct i; simpl; [reflexivity | apply IH; simpl in Hi; lia].
Qed.

Lemma upd_upd_restore {A} (ls : list A) i a d : nth i ls d = d -> (i < length ls)%nat ->
  upd (upd ls i a) i d = ls.
Proof.
  revert i. induction ls as [|h tl IH]; intros i Hn Hi; [reflexivity|].
  destruct i; simpl in *; [congruence | f_equal; apply IH; [exact Hn | lia]].
Qed.

(* add_ancestry really is snoc_seg on the node's list *)
Lemma add_ancestry_is_snoc_seg (t : tables) (s : st) (u : nat) (l r out : Z) :
  (u < length (s_anc s))%nat ->
  nth u (s_anc (add_ancestry t s u l r out)) [] = snoc_seg (nth u (s_anc s) []) l r out.
Proof.
  intros Hu. unfold add_ancestry, map_mutations. cbn [s_anc]. rewrite upd_nth by exact Hu.
  unfold snoc_seg. destruct (rev (nth u (s_anc s) [])) as [|[[tl tr] tn] rest]; reflexivity.
Qed.

(* simplifier_rewind_node undoes simplifier_record_node for a node that had no output id *)
Lemma rewind_undoes_record_lemma (s : st) (u : nat) :
  nth u (s_map s) (-1) = -1 -> (u < length (s_map s))%nat ->
  rewind_node (fst (record_node s u)) u (snd (record_node s u)) = s.
Proof.
  intros Hm Hu. destruct s as [anc mp nodes edges mut]. unfold record_node, rewind_node. simpl in *.
  rewrite upd_upd_restore by assumption.
  rewrite Nat2Z.id, firstn_app, Nat.sub_diag, firstn_all. simpl. rewrite app_nil_r. reflexivity.
Qed.

Example buffer_example :
  buf_of [(5, 0, 2); (3, 0, 2); (5, 2, 4); (5, 6, 8); (3, 4, 6)]
  = [(5, [(0, 4); (6, 8)]); (3, [(0, 2); (4, 6)])].
Proof. vm_compute. reflexivity. Qed.
