(* C04 -- ONE PARENT STEP of the algorithm model against the SPECIFICATION, default options
   (no keep_unary, no keep_unary_in_individuals, no keep_input_roots, no
   reduce_to_site_topology), non-sample parent p.

   Hypothesis about the queue (what the invariant over the parents processed in time order
   has to deliver; NOT proved here, see Props/C04.v):
     Q1  a queued segment with node n covers x  <->  some child c of p at x has
         mut_target c = Some v and n = m v            (m = the current node_id_map)
     Q2  at least two queued segments cover x   <->  p is kept at x.
   Conclusion (together with merge_ancestors_default, which says that the state after the
   step has ancestry [step_anc] and, per child, the edges [squash (intervals_of ...)]):
     * the new ancestry of p maps x to n  <->  mut_target p = Some v at x and n = m' v;
     * a new edge (p, n) covers x         <->  rpar v = Some p at x and n = m v;
     * p has an output id afterwards      <->  it had one, or p is kept at some position;
   where m' = m with p mapped to its (possibly fresh) output id. *)
From Coq Require Import List ZArith Bool Lia Arith.
From TskVerif Require Import Base.Common C04.Model C04.ForestProofs C04.ReduceProofs
  C04.IdemProofs C04.GenoProofs C04.TargetProofs C04.SimplifyAlg C04.ExtractProofs
  C04.OverlapProofs C04.BufferProofs C04.MergeProofs.
Import ListNotations.
Open Scope Z_scope.

(* squashing does not change which positions are covered *)
Lemma squash_some_covers a l x :
  (fst a < snd a) -> (forall iv, In iv l -> fst iv < snd iv) ->
  ((exists iv, In iv (squash (Some a) l) /\ fst iv <= x < snd iv) <->
   (fst a <= x < snd a) \/ exists iv, In iv l /\ fst iv <= x < snd iv).
Proof.
  revert a. induction l as [|[a1 b1] l IH]; intros [a0 b0] Ha Hl; simpl in *.
  - split.
    + intros [iv [[<- | []] H]]. left; exact H.
    + intros [H | [iv [[] _]]]. exists (a0, b0). split; [left; reflexivity | exact H].
  - assert (H1 : a1 < b1) by (apply (Hl (a1, b1)); left; reflexivity).
    assert (Hl' : forall iv, In iv l -> fst iv < snd iv) by (intros iv Hiv; apply Hl; right; exact Hiv).
    destruct (b0 =? a1) eqn:E.
    + apply Z.eqb_eq in E. subst a1. rewrite (IH (a0, b1)); [|simpl; lia | exact Hl']. simpl. split.
      * intros [H | [iv [Hiv H]]].
        -- destruct (Z_lt_le_dec x b0); [left; lia | right; exists (b0, b1); split; [left; reflexivity | simpl; lia]].
        -- right. exists iv. split; [right; exact Hiv | exact H].
      * intros [H | [iv [[<- | Hiv] H]]]; [left; lia | left; simpl in H; lia | right; exists iv; auto].
    + split.
      * intros [iv [[<- | Hiv] H]]; [left; exact H|].
        assert (Hex : exists iv, In iv (squash (Some (a1, b1)) l) /\ fst iv <= x < snd iv) by (exists iv; auto).
        apply (IH (a1, b1) H1 Hl') in Hex as [H' | [iv' [Hiv' H']]].
        -- right. exists (a1, b1). split; [left; reflexivity | exact H'].
        -- right. exists iv'. split; [right; exact Hiv' | exact H'].
      * intros [H | [iv [[<- | Hiv] H]]].
        -- exists (a0, b0). split; [left; reflexivity | exact H].
        -- assert (Hex : exists iv, In iv (squash (Some (a1, b1)) l) /\ fst iv <= x < snd iv).
           { apply (IH (a1, b1) H1 Hl'). left. exact H. }
           destruct Hex as [iv' [Hiv' H']]. exists iv'. split; [right; exact Hiv' | exact H'].
        -- assert (Hex : exists iv', In iv' (squash (Some (a1, b1)) l) /\ fst iv' <= x < snd iv').
           { apply (IH (a1, b1) H1 Hl'). right. exists iv. auto. }
           destruct Hex as [iv' [Hiv' H']]. exists iv'. split; [right; exact Hiv' | exact H'].
Qed.

Lemma squash_covers l x :
  (forall iv, In iv l -> fst iv < snd iv) ->
  ((exists iv, In iv (squash None l) /\ fst iv <= x < snd iv) <->
   exists iv, In iv l /\ fst iv <= x < snd iv).
Proof.
  destruct l as [|[a b] l]; intros Hl; simpl.
  - split; intros [iv [[] _]].
  - rewrite (squash_some_covers (a, b) l x); [|apply (Hl (a, b)); left; reflexivity|intros iv Hiv; apply Hl; right; exact Hiv].
    simpl. split.
    + intros [H | [iv [Hiv H]]]; [exists (a, b); split; [left; reflexivity | exact H] | exists iv; split; [right; exact Hiv | exact H]].
    + intros [iv [[<- | Hiv] H]]; [left; exact H | right; exists iv; auto].
Qed.

Lemma single_length (X : list seg) : single X = true <-> length X = 1%nat.
Proof. destruct X as [|a [|b X]]; simpl; split; intros H; congruence || reflexivity || lia. Qed.

Section Step.
  Variable t : tables.
  Variable smp : list nat.
  Variable o : opts.
  Hypothesis no_ku : o_ku o = false.
  Hypothesis no_kui : o_kui o = false.
  Hypothesis no_kir : o_kir o = false.
  Variable p : nat.
  Hypothesis p_not_sample : mem p smp = false.
  Variable Q : list seg.
  Variable m : nat -> Z.              (* node_id_map before the step *)
  Variable fresh : Z.                 (* number of output nodes before the step *)
  Hypothesis fresh_ok : fresh <> -1.

  Definition Px (x : Z) : nat -> option nat := par_at (t_edges t) x.
  Notation nodesT := (node_ids t).
  Notation fuelT := (fuel_of t).
  Definition Kx (x : Z) (u : nat) : bool := kept (Px x) nodesT smp (unary_of o t) (o_kir o) fuelT u.
  Definition Ax (x : Z) (u : nat) : option nat := mut_target (Px x) nodesT smp (unary_of o t) (o_kir o) fuelT u.
  Definition Rx (x : Z) (u : nat) : option nat := rpar (Px x) nodesT smp (unary_of o t) (o_kir o) fuelT u.
  Definition Hx (x : Z) (u : nat) : bool := hsb (Px x) smp fuelT u.

  (* every marginal forest is acyclic (child time < parent time), fuel suffices *)
  Variable depth : nat -> nat.
  Hypothesis depth_dec : forall x u v, Px x u = Some v -> (depth v < depth u)%nat.
  Hypothesis depth_fuel : forall u, (depth u < fuelT)%nat.
  Hypothesis nodes_complete : forall x u v, Px x u = Some v -> In u nodesT.
  Hypothesis nodes_nodup : NoDup nodesT.

  Hypothesis Q_valid : forall sg, In sg Q -> seg_l sg < seg_r sg /\ seg_r sg <= t_L t.
  Definition cntQ (x : Z) : nat := length (filter (covers_b x) Q).
  Hypothesis Q1 : forall x n,
    (exists sg, In sg Q /\ covers_b x sg = true /\ seg_n sg = n) <->
    (exists c v, Px x c = Some p /\ Ax x c = Some v /\ n = m v).
  Hypothesis Q2 : forall x, (2 <= cntQ x)%nat <-> Kx x p = true.

  Definition PCS : list pieceT := overlaps t Q.
  Definition oid' : Z := step_oid (m p) fresh PCS.
  Definition m' (u : nat) : Z := if Nat.eqb u p then oid' else m u.

  (* ---- pieces and points ---------------------------------------------------------------- *)
  Lemma piece_facts l r Y x : In (l, r, Y) PCS -> l <= x < r ->
    l < r /\ length Y = cntQ x /\ (forall sg, In sg Y <-> In sg Q /\ covers_b x sg = true).
  Proof.
    intros Hin Hx.
    destruct (overlapper_partition_lemma t Q Q_valid) as [HA [[r0 HO] HC]]. fold PCS in HA, HO, HC.
    destruct (HA l r Y Hin) as [Hlr [_ [HY1 HY2]]].
    assert (Hcov : forall sg, In sg Q -> covers_b x sg = covers_b l sg).
    { intros sg Hsg. unfold covers_b.
      destruct ((seg_l sg <=? l) && (l <? seg_r sg)) eqn:El.
      - apply andb_true_iff in El as [E1 E2]. apply Z.leb_le in E1. apply Z.ltb_lt in E2.
        destruct (HY1 sg (HY2 sg Hsg (conj E1 E2))) as [_ [A B]].
        apply andb_true_iff. split; [apply Z.leb_le; lia | apply Z.ltb_lt; lia].
      - destruct ((seg_l sg <=? x) && (x <? seg_r sg)) eqn:Ex; [|reflexivity]. exfalso.
        apply andb_true_iff in Ex as [E1 E2]. apply Z.leb_le in E1. apply Z.ltb_lt in E2.
        destruct (HC sg x Hsg (conj E1 E2)) as [l2 [r2 [Y2 [Hin2 [Hx2 Hs2]]]]].
        assert (E : (l2, r2, Y2) = (l, r, Y)) by (apply (ordered_disjoint r0 _ HO l2 r2 Y2 l r Y x); auto).
        inversion E; subst. destruct (HY1 sg Hs2) as [_ [A B]].
        assert ((seg_l sg <=? l) && (l <? seg_r sg) = true)
          by (apply andb_true_iff; split; [apply Z.leb_le; lia | apply Z.ltb_lt; lia]).
        congruence. }
    split; [exact Hlr|]. split.
    - destruct (overlapper_exact_lemma t Q Q_valid l r Y Hin) as [_ HL]. rewrite HL. unfold cntQ.
      f_equal. apply filter_ext_in'. intros sg Hsg. symmetry. apply Hcov. exact Hsg.
    - intros sg. split.
      + intros HsY. destruct (HY1 sg HsY) as [HsQ [A B]]. split; [exact HsQ|].
        rewrite (Hcov sg HsQ). unfold covers_b. apply andb_true_iff. split; [apply Z.leb_le; lia | apply Z.ltb_lt; lia].
      + intros [HsQ Hc]. rewrite (Hcov sg HsQ) in Hc. unfold covers_b in Hc.
        apply andb_true_iff in Hc as [E1 E2]. apply Z.leb_le in E1. apply Z.ltb_lt in E2.
        apply (HY2 sg HsQ (conj E1 E2)).
  Qed.

  Lemma point_in_piece x : (1 <= cntQ x)%nat -> exists l r Y, In (l, r, Y) PCS /\ l <= x < r.
  Proof.
    intros H. unfold cntQ in H.
    destruct (filter (covers_b x) Q) as [|sg rest] eqn:E; [simpl in H; lia|].
    assert (Hin : In sg (filter (covers_b x) Q)) by (rewrite E; left; reflexivity).
    apply filter_In in Hin as [HsQ Hc]. unfold covers_b in Hc.
    apply andb_true_iff in Hc as [E1 E2]. apply Z.leb_le in E1. apply Z.ltb_lt in E2.
    destruct (overlapper_partition_lemma t Q Q_valid) as [_ [_ HC]].
    destruct (HC sg x HsQ (conj E1 E2)) as [l [r [Y [Hin [Hx _]]]]]. exists l, r, Y. auto.
  Qed.

  Lemma pieces_valid : forall pc, In pc PCS -> p_l pc < p_r pc.
  Proof.
    intros [[l r] Y] Hin. simpl.
    destruct (overlapper_partition_lemma t Q Q_valid) as [HA _]. apply (HA l r Y Hin).
  Qed.

  (* ---- spec facts at one position --------------------------------------------------------- *)
  Lemma hsb_child x u : Hx x u = true -> mem u smp = false ->
    exists c, Px x c = Some u /\ Hx x c = true.
  Proof.
    intros Hh Hm. unfold Hx in *.
    apply (hsb_iff (Px x) smp fuelT depth (depth_dec x) depth_fuel) in Hh as [s [Hs Ha]].
    destruct Ha as [-> | Ha]; [apply mem_In in Hs; congruence|].
    destruct (anc_child (Px x) u s Ha) as [c [Hc Hcs]]. exists c. split; [exact Hc|].
    apply (hsb_iff (Px x) smp fuelT depth (depth_dec x) depth_fuel). exists s. auto.
  Qed.

  Lemma target_below_p x c v : Px x c = Some p -> Ax x c = Some v -> v <> p.
  Proof.
    intros Hc Ht ->. unfold Ax in Ht.
    destruct (mut_target_below (Px x) nodesT smp (unary_of o t) (o_kir o) fuelT depth (depth_dec x) depth_fuel
                (nodes_complete x) nodes_nodup c p Ht) as [_ Ha].
    apply (aos_depth (Px x) depth (depth_dec x)) in Ha. apply depth_dec in Hc. lia.
  Qed.

  Lemma cnt_ge1_iff x : (1 <= cntQ x)%nat <-> exists sg, In sg Q /\ covers_b x sg = true.
  Proof.
    unfold cntQ. split.
    - intros H. destruct (filter (covers_b x) Q) as [|sg rest] eqn:E; [simpl in H; lia|].
      assert (Hin : In sg (filter (covers_b x) Q)) by (rewrite E; left; reflexivity).
      apply filter_In in Hin. exists sg. exact Hin.
    - intros [sg [H1 H2]]. assert (Hin : In sg (filter (covers_b x) Q)) by (apply filter_In; auto).
      destruct (filter (covers_b x) Q); [contradiction | simpl; lia].
  Qed.

  (* ---- the step ------------------------------------------------------------------------- *)
  Lemma step_ancestry_lemma x n :
    carries (step_anc [] oid' PCS) x n <-> exists v, Ax x p = Some v /\ n = m' v.
  Proof.
    rewrite (step_anc_carries_lemma oid' PCS [] pieces_valid (fun sg (H : In sg []) => match H with end)).
    split.
    - intros [H | [[[l r] Y] [Hin [Hx' Hn]]]]; [exfalso; eapply carries_nil; eauto|].
      simpl in Hx'. destruct (piece_facts l r Y x Hin Hx') as [Hlr [HL HY]].
      unfold coal, p_X, pass_node in Hn. simpl in Hn.
      destruct (single Y) eqn:Es; simpl in Hn.
      + (* exactly one queued segment: pass-through *)
        apply single_length in Es. destruct Y as [|sg [|? ?]]; simpl in Es; try lia.
        assert (HsQ : In sg Q /\ covers_b x sg = true) by (apply HY; left; reflexivity).
        assert (Hex : exists sg0, In sg0 Q /\ covers_b x sg0 = true /\ seg_n sg0 = n)
          by (exists sg; destruct HsQ; repeat split; auto).
        destruct (proj1 (Q1 x n) Hex) as [c [v [Hc [Hv Hnv]]]].
        assert (Hk : Kx x p = false).
        { destruct (Kx x p) eqn:Ek; [|reflexivity]. apply Q2 in Ek. rewrite <- HL in Ek. simpl in Ek. lia. }
        exists v. split.
        * unfold Ax. rewrite (mut_target_pass (Px x) nodesT smp (unary_of o t) (o_kir o) fuelT depth (depth_dec x)
                                depth_fuel (nodes_complete x) nodes_nodup p c Hk Hc).
          -- exact Hv.
          -- apply (target_hsb (Px x) nodesT smp (unary_of o t) (o_kir o) fuelT depth (depth_dec x)
                      depth_fuel (nodes_complete x) nodes_nodup c v Hv).
        * unfold m'. destruct (Nat.eqb v p) eqn:E; [apply Nat.eqb_eq in E; exfalso; eapply target_below_p; eauto | exact Hnv].
      + (* two or more: p itself *)
        assert (Hk : Kx x p = true).
        { apply Q2. rewrite <- HL.
          destruct (overlapper_partition_lemma t Q Q_valid) as [HA _]. destruct (HA l r Y Hin) as [_ [Hne _]].
          destruct Y as [|a [|b Y']]; simpl in *; try congruence; lia. }
        exists p. split.
        * apply (mut_target_kept (Px x) nodesT smp (unary_of o t) (o_kir o) fuelT depth (depth_dec x) depth_fuel p Hk).
        * unfold m'. rewrite Nat.eqb_refl. exact Hn.
    - intros [v [Hv Hn]]. right.
      destruct (Kx x p) eqn:Hk.
      + assert (Hv' := mut_target_kept (Px x) nodesT smp (unary_of o t) (o_kir o) fuelT depth (depth_dec x) depth_fuel p Hk).
        unfold Ax in Hv. rewrite Hv' in Hv. inversion Hv; subst v.
        pose proof (proj2 (Q2 x) Hk) as Hc2.
        destruct (point_in_piece x ltac:(lia)) as [l [r [Y [Hin Hx']]]].
        destruct (piece_facts l r Y x Hin Hx') as [_ [HL _]].
        exists (l, r, Y). split; [exact Hin|]. split; [exact Hx'|].
        unfold coal, p_X. simpl.
        assert (Es : single Y = false).
        { destruct (single Y) eqn:Es; [|reflexivity]. apply single_length in Es. lia. }
        rewrite Es. simpl. rewrite Hn. unfold m'. rewrite Nat.eqb_refl. reflexivity.
      + assert (Hh : Hx x p = true).
        { apply (target_hsb (Px x) nodesT smp (unary_of o t) (o_kir o) fuelT depth (depth_dec x)
                   depth_fuel (nodes_complete x) nodes_nodup p v Hv). }
        destruct (hsb_child x p Hh p_not_sample) as [c [Hc Hhc]].
        assert (Hvc : Ax x c = Some v).
        { unfold Ax in *. rewrite <- (mut_target_pass (Px x) nodesT smp (unary_of o t) (o_kir o) fuelT depth (depth_dec x)
                                depth_fuel (nodes_complete x) nodes_nodup p c Hk Hc Hhc). exact Hv. }
        assert (Hex : exists c0 v0, Px x c0 = Some p /\ Ax x c0 = Some v0 /\ m v = m v0) by (exists c, v; auto).
        destruct (proj2 (Q1 x (m v)) Hex) as [sg [HsQ [Hcov Hsn]]].
        assert (Hc1 : (1 <= cntQ x)%nat) by (apply cnt_ge1_iff; exists sg; auto).
        destruct (point_in_piece x Hc1) as [l [r [Y [Hin Hx']]]].
        destruct (piece_facts l r Y x Hin Hx') as [_ [HL HY]].
        assert (Hlt : (cntQ x < 2)%nat).
        { destruct (le_lt_dec 2 (cntQ x)) as [H2 | H2]; [apply Q2 in H2; congruence | exact H2]. }
        assert (HsY : In sg Y) by (apply HY; auto).
        destruct Y as [|a [|b Y']]; simpl in HL; try lia.
        destruct HsY as [-> | []].
        exists (l, r, [sg]). split; [exact Hin|]. split; [exact Hx'|].
        unfold coal, p_X, pass_node. simpl. rewrite Hsn, Hn. unfold m'.
        destruct (Nat.eqb v p) eqn:E; [apply Nat.eqb_eq in E; exfalso; eapply target_below_p; eauto | reflexivity].
  Qed.

  Lemma step_edges_lemma x n :
    (exists iv, In iv (squash None (intervals_of n (step_records PCS))) /\ fst iv <= x < snd iv) <->
    (exists v, Rx x v = Some p /\ n = m v).
  Proof.
    assert (Hrec : forall iv, In iv (intervals_of n (step_records PCS)) <->
                     exists Y, In (fst iv, snd iv, Y) PCS /\ single Y = false /\ exists sg, In sg Y /\ seg_n sg = n).
    { intros [a b]. unfold intervals_of, step_records. rewrite in_map_iff. split.
      - intros [[[c l] r] [E Hin]]. inversion E; subst l r. apply filter_In in Hin as [Hin Hc].
        apply Z.eqb_eq in Hc. subst c. apply in_flat_map in Hin as [[[l r] Y] [HinP Hin]].
        unfold coal, p_X, p_l, p_r in Hin. simpl in Hin.
        destruct (single Y) eqn:Es; simpl in Hin; [contradiction|].
        apply in_map_iff in Hin as [sg [E2 HsY]]. inversion E2; subst.
        exists Y. simpl. repeat split; auto. exists sg. auto.
      - intros [Y [HinP [Es [sg [HsY Hn]]]]]. simpl in HinP.
        exists (n, a, b). split; [reflexivity|]. apply filter_In. split; [|apply Z.eqb_refl].
        apply in_flat_map. exists (a, b, Y). split; [exact HinP|].
        unfold coal, p_X, p_l, p_r. simpl. rewrite Es. simpl. apply in_map_iff. exists sg. rewrite Hn. auto. }
    rewrite squash_covers.
    2:{ intros iv Hiv. apply Hrec in Hiv as [Y [HinP _]]. apply (pieces_valid _ HinP). }
    split.
    - intros [[a b] [Hiv Hx']]. apply Hrec in Hiv as [Y [HinP [Es [sg [HsY Hn]]]]]. simpl in *.
      destruct (piece_facts a b Y x HinP Hx') as [_ [HL HY]].
      assert (Hk : Kx x p = true).
      { apply Q2. rewrite <- HL. destruct Y as [|s1 [|s2 Y']]; simpl in *; try congruence; try contradiction; lia. }
      destruct (proj1 (HY sg) HsY) as [HsQ Hcov].
      assert (Hex : exists sg0, In sg0 Q /\ covers_b x sg0 = true /\ seg_n sg0 = n) by (exists sg; auto).
      destruct (proj1 (Q1 x n) Hex) as [c [v [Hc [Hv Hnv]]]].
      exists v. split; [|exact Hnv].
      apply (rpar_iff_target_lemma (Px x) nodesT smp (unary_of o t) (o_kir o) fuelT depth (depth_dec x)
               depth_fuel (nodes_complete x) nodes_nodup p v Hk). exists c. auto.
    - intros [v [Hr Hn]].
      assert (Hk : Kx x p = true).
      { apply (rpar_spec (Px x) nodesT smp (unary_of o t) (o_kir o) fuelT v p) in Hr. tauto. }
      apply (rpar_iff_target_lemma (Px x) nodesT smp (unary_of o t) (o_kir o) fuelT depth (depth_dec x)
               depth_fuel (nodes_complete x) nodes_nodup p v Hk) in Hr as [c [Hc Hv]].
      assert (Hex : exists c0 v0, Px x c0 = Some p /\ Ax x c0 = Some v0 /\ n = m v0) by (exists c, v; auto).
      destruct (proj2 (Q1 x n) Hex) as [sg [HsQ [Hcov Hsn]]].
      pose proof (proj2 (Q2 x) Hk) as Hc2.
      destruct (point_in_piece x ltac:(lia)) as [l [r [Y [Hin Hx']]]].
      destruct (piece_facts l r Y x Hin Hx') as [_ [HL HY]].
      exists (l, r). split; [|exact Hx']. apply Hrec. exists Y. simpl. split; [exact Hin|]. split.
      + destruct (single Y) eqn:Es; [|reflexivity]. apply single_length in Es. lia.
      + exists sg. split; [apply HY; auto | exact Hsn].
  Qed.

  Lemma step_oid_lemma : oid' <> -1 <-> (m p <> -1 \/ exists x, Kx x p = true).
  Proof.
    unfold oid', step_oid. destruct (m p =? -1) eqn:E.
    - apply Z.eqb_eq in E. destruct (existsb coal PCS) eqn:Ec.
      + split; [|intros _; exact fresh_ok]. intros _. right.
        apply existsb_exists in Ec as [[[l r] Y] [Hin Hc]].
        pose proof (pieces_valid _ Hin) as Hlr. simpl in Hlr.
        destruct (piece_facts l r Y l Hin ltac:(lia)) as [_ [HL _]].
        exists l. apply Q2. rewrite <- HL. unfold coal, p_X in Hc. simpl in Hc.
        destruct (overlapper_partition_lemma t Q Q_valid) as [HA _]. destruct (HA l r Y Hin) as [_ [Hne _]].
        destruct Y as [|a [|b Y']]; simpl in *; try congruence; lia.
      + split; [congruence|]. intros [H | [x Hk]]; [congruence|]. exfalso.
        pose proof (proj2 (Q2 x) Hk) as Hc2.
        destruct (point_in_piece x ltac:(lia)) as [l [r [Y [Hin Hx']]]].
        destruct (piece_facts l r Y x Hin Hx') as [_ [HL _]].
        assert (Hc : coal (l, r, Y) = true).
        { unfold coal, p_X. simpl. destruct (single Y) eqn:Es; [|reflexivity]. apply single_length in Es. lia. }
        assert (existsb coal PCS = true) by (apply existsb_exists; exists (l, r, Y); auto). congruence.
    - apply Z.eqb_neq in E. split; [intros _; left; exact E | intros _; exact E].
  Qed.
  (* ---- the step on the actual state ---------------------------------------------------------- *)
  Variable s : st.
  Hypothesis no_rts : o_rts o = false.
  Hypothesis p_in_range : (p < length (s_anc s))%nat.
  Hypothesis p_fresh_ancestry : nth p (s_anc s) [] = [].       (* a non-sample node not yet processed *)
  Hypothesis m_is_map : m p = nth p (s_map s) (-1).
  Hypothesis fresh_is_len : fresh = Z.of_nat (length (s_nodes s)).

  Lemma merge_step_refines_spec_lemma :
    let s' := merge_ancestors t smp o s p Q in
    (forall x n, carries (nth p (s_anc s') []) x n <-> exists v, Ax x p = Some v /\ n = m' v) /\
    (forall x po co,
       (exists l r, In (l, r, po, co) (skipn (length (s_edges s)) (s_edges s')) /\ l <= x < r) <->
       (po = oid' /\ exists v, Rx x v = Some p /\ co = m v)) /\
    (oid' <> -1 <-> (m p <> -1 \/ exists x, Kx x p = true)).
  Proof.
    cbv zeta.
    destruct (merge_ancestors_default_lemma t smp o s p Q no_rts no_ku no_kui p_not_sample p_in_range) as [HA HE].
    cbv zeta in HA, HE. rewrite <- m_is_map, <- fresh_is_len in HA, HE. fold PCS in HA, HE. fold oid' in HA, HE.
    split; [|split; [|exact step_oid_lemma]].
    - intros x n. rewrite HA, p_fresh_ancestry. apply step_ancestry_lemma.
    - intros x po co. split.
      + intros [l [r [Hin Hx']]]. apply HE in Hin as [Ho [Hp Hiv]]. split; [exact Hp|].
        apply step_edges_lemma. exists (l, r). auto.
      + intros [Hp [v [Hr Hc]]].
        assert (Hex : exists v0, Rx x v0 = Some p /\ co = m v0) by (exists v; auto).
        apply step_edges_lemma in Hex as [[l r] [Hiv Hx']]. exists l, r. split; [|exact Hx'].
        apply HE. split; [|split; [exact Hp | exact Hiv]].
        apply step_oid_lemma. right. exists x.
        apply (rpar_spec (Px x) nodesT smp (unary_of o t) (o_kir o) fuelT v p) in Hr. tauto.
  Qed.
End Step.

(* illustration on a concrete step (two leaves 0, 1 under node 2 on [0,4); on [4,8) only
   leaf 0 is below 2): the queue, the state after the step, and the spec's values at the
   positions 1 (coalescence: 2 is kept) and 5 (pass-through: target of 2 is 0) *)
Definition step_t : tables :=
  mkTables 8 [(1, 0, -1, -1); (1, 0, -1, -1); (0, 1, -1, -1)]%Z
           [(0%Z, 8%Z, 2%nat, 0%nat); (0%Z, 4%Z, 2%nat, 1%nat)] [] [] [] 0.
Definition step_o : opts := mkOpts false false false false true true true true true.
Example step_example :
  let s0 := init_state step_t [0; 1]%nat step_o in
  let Q := [(0, 8, 0); (0, 4, 1)] in
  let s1 := merge_ancestors step_t [0; 1]%nat step_o s0 2%nat Q in
  nth 2 (s_anc s1) [] = [(0, 4, 2); (4, 8, 0)] /\
  s_edges s1 = [(0, 4, 2, 0); (0, 4, 2, 1)] /\
  oid' step_t 2%nat Q (fun u => nth u (s_map s0) (-1)) 2 = 2 /\
  Ax step_t [0; 1]%nat step_o 1 2%nat = Some 2%nat /\ Ax step_t [0; 1]%nat step_o 5 2%nat = Some 0%nat /\
  Rx step_t [0; 1]%nat step_o 1 0%nat = Some 2%nat /\ Rx step_t [0; 1]%nat step_o 5 0%nat = None /\
  Kx step_t [0; 1]%nat step_o 1 2%nat = true /\ Kx step_t [0; 1]%nat step_o 5 2%nat = false /\
  cntQ Q 1 = 2%nat /\ cntQ Q 5 = 1%nat.
Proof. cbv zeta. repeat split; vm_compute; reflexivity. Qed.
