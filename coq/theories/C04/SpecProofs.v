(* C04 -- table-level facts about [simplify_spec]: two refutations (witnesses evaluated by
   vm_compute and replayed on the C code by harness/props/c04.py, see notes/C04.md) and the
   numbering of the chosen samples. *)
From Coq Require Import List ZArith Bool Lia Arith.
From TskVerif Require Import Base.Common C04.Model.
Import ListNotations.

Definition default_opts : opts := mkOpts false false false false true true true true true.

(* F12.  One edge over [0,12), one site at 8 without mutations, both nodes chosen.
   reduce_to_site_topology + filter_sites: pass 1 keeps the edge (the interval contains a
   site, coordinates map to [0,12)) and drops the site; pass 2 sees no sites and drops the
   edge. *)
Definition f12_tables : tables :=
  mkTables 12 [(1, 0, -1, -1); (1, 1, -1, -1)]%Z [(0%Z, 12%Z, 1%nat, 0%nat)] [8%Z] [] [] 0.
Definition f12_opts : opts := mkOpts false false false true true true true true true.

Lemma simplify_idempotent_reduce_filter_refuted_lemma :
  exists t smp o,
    o_rts o = true /\ o_fs o = true /\ o_kir o = false /\
    r_edges (simplify_spec t smp o) <> [] /\
    r_edges (snd (second_pass t smp o)) = [] /\
    spec_idempotent_on t smp o = false.
Proof.
  exists f12_tables, [0; 1]%nat, f12_opts.
  repeat split; try reflexivity. vm_compute. discriminate.
Qed.

(* the same input is a fixed point when either option is switched off *)
Example f12_needs_both :
  spec_idempotent_on f12_tables [0; 1]%nat (mkOpts false false false true true false true true true) = true /\
  spec_idempotent_on f12_tables [0; 1]%nat (mkOpts false false false false true true true true true) = true.
Proof. split; vm_compute; reflexivity. Qed.

(* keep_input_roots + reduce_to_site_topology + filter_nodes: node 1 is an input root above
   the chosen sample 0, there is no site, so the edge is skipped -- but node 1 stays in the
   node table, unreferenced; a second pass removes it. *)
Definition iso_tables : tables :=
  mkTables 8 [(1, 0, -1, -1); (0, 1, -1, -1)]%Z [(0%Z, 8%Z, 1%nat, 0%nat)] [] [] [] 0.
Definition iso_opts : opts := mkOpts false false true true true false true true true.

Lemma simplify_isolated_root_refuted_lemma :
  exists t smp o,
    o_kir o = true /\ o_rts o = true /\ o_fn o = true /\ o_fs o = false /\
    unreferenced_nodes (simplify_spec t smp o) smp <> [] /\
    spec_idempotent_on t smp o = false.
Proof.
  exists iso_tables, [0]%nat, iso_opts.
  repeat split; try reflexivity; vm_compute; discriminate.
Qed.

(* ---- samples[k] becomes node k when nodes are filtered ----------------------------- *)
Lemma index_of_app_l u l1 l2 k : In u l1 -> index_of u (l1 ++ l2) k = index_of u l1 k.
Proof.
  revert k. induction l1 as [|x l1 IH]; intros k H; [contradiction|]. simpl.
  destruct (Nat.eqb x u) eqn:E; [reflexivity|].
  destruct H as [-> | H]; [rewrite Nat.eqb_refl in E; discriminate|]. apply IH. exact H.
Qed.

Lemma index_of_nth l : NoDup l -> forall k s j, nth_error l k = Some s ->
  index_of s l j = (j + Z.of_nat k)%Z.
Proof.
  induction 1 as [|x l Hn ND IH]; intros k s j H.
  - destruct k; discriminate.
  - destruct k as [|k]; simpl in H.
    + inversion H; subst. simpl. rewrite Nat.eqb_refl. lia.
    + simpl. destruct (Nat.eqb x s) eqn:E.
      * apply Nat.eqb_eq in E. subst. exfalso. apply Hn. eapply nth_error_In; eauto.
      * rewrite (IH k s (j + 1)%Z H). lia.
Qed.

Lemma spec_sample_ids_lemma t smp o k s :
  o_fn o = true -> NoDup smp -> nth_error smp k = Some s -> (s < length (t_nodes t))%nat ->
  nth s (r_node_map (simplify_spec t smp o)) (-1)%Z = Z.of_nat k.
Proof.
  intros Hfn ND Hk Hs. unfold simplify_spec. cbn [r_node_map]. rewrite Hfn.
  set (order := smp ++ _).
  rewrite (nth_indep _ (-1)%Z (index_of 0 order 0%Z)).
  2:{ rewrite map_length. unfold node_ids. rewrite seq_length. exact Hs. }
  rewrite (map_nth (fun u => index_of u order 0%Z)).
  unfold node_ids. rewrite seq_nth by exact Hs. simpl.
  unfold order. rewrite index_of_app_l by (eapply nth_error_In; eauto).
  rewrite (index_of_nth smp ND k s 0%Z Hk). lia.
Qed.

(* ... and the node map is the identity when they are not *)
Lemma spec_no_filter_identity_lemma t smp o u :
  o_fn o = false -> (u < length (t_nodes t))%nat ->
  nth u (r_node_map (simplify_spec t smp o)) (-1)%Z = Z.of_nat u.
Proof.
  intros Hfn Hu. unfold simplify_spec. cbn [r_node_map]. rewrite Hfn.
  rewrite (nth_indep _ (-1)%Z (index_of 0 (node_ids t) 0%Z)).
  2:{ rewrite map_length. unfold node_ids. rewrite seq_length. exact Hu. }
  rewrite (map_nth (fun u => index_of u (node_ids t) 0%Z)).
  unfold node_ids. rewrite seq_nth by exact Hu. simpl.
  assert (G : forall n a j, (a <= u < a + n)%nat -> index_of u (seq a n) j = (j + Z.of_nat (u - a))%Z).
  { induction n as [|n IH]; intros a j H; [lia|]. simpl.
    destruct (Nat.eqb a u) eqn:E.
    - apply Nat.eqb_eq in E. subst. replace (u - u)%nat with 0%nat by lia. lia.
    - apply Nat.eqb_neq in E. rewrite IH by lia. replace (u - a)%nat with (S (u - S a)) by lia. lia. }
  rewrite G by lia. replace (u - 0)%nat with u by lia. lia.
Qed.
