(* C04 -- table-level facts about [simplify_spec]: two refutations (witnesses evaluated by
   vm_compute and replayed on the C code by harness/props/c04.py, see notes/C04.md) and the
   numbering of the chosen samples. *)
From Coq Require Import List ZArith Bool Lia Arith.
From TskVerif Require Import Base.Common C04.Model.
Import ListNotations.

Definition default_opts : opts := mkOpts false false false false true true true true true.

(* F12.  One edge over [0,12), one site at 8 without mutations, both nodes chosen.
   reduce_to_site_topology + filter_sites: pass 1 keeps the edge (the interval contains a
   site, coordinates map to [0,12)) and drops the site; pass 2 sees no sites and drops the
   edge. *)
Definition f12_tables : tables :=
  mkTables 12 [(1, 0, -1, -1); (1, 1, -1, -1)]%Z [(0%Z, 12%Z, 1%nat, 0%nat)] [8%Z] [] [] 0.
Definition f12_opts : opts := mkOpts false false false true true true true true true.

Lemma simplify_idempotent_reduce_filter_refuted_lemma :
  exists t smp o,
    o_rts o = true /\ o_fs o = true /\ o_kir o = false /\
    r_edges (simplify_spec t smp o) <> [] /\
    r_edges (snd (second_pass t smp o)) = [] /\
    spec_idempotent_on t smp o = false.
Proof.
  exists f12_tables, [0; 1]%nat, f12_opts.
  repeat split; try reflexivity. vm_compute. discriminate.
Qed.

(* the same input is a fixed point when either option is switched off *)
Example f12_needs_both :
  spec_idempotent_on f12_tables [0; 1]%nat (mkOpts false false false true true false true true true) = true /\
  spec_idempotent_on f12_tables [0; 1]%nat (mkOpts false false false false true true true true true) = true.
Proof. split; vm_compute; reflexivity. Qed.

(* keep_input_roots + reduce_to_site_topology + filter_nodes: node 1 is an input root above
   the chosen sample 0, there is no site, so the edge is skipped -- but node 1 stays in the
   node table, unreferenced; a second pass removes it. *)
Definition iso_tables : tables :=
  mkTables 8 [(1, 0, -1, -1); (0, 1, -1, -1)]%Z [(0%Z, 8%Z, 1%nat, 0%nat)] [] [] [] 0.
Definition iso_opts : opts := mkOpts false false true true true false true true true.

(* after the repair of simplifier_insert_input_roots (fix: C04-isolated-root) the root is
   rewound: no unreferenced node, and the case is a fixed point *)
Example isolated_root_repaired :
  unreferenced_nodes (simplify_spec iso_tables [0]%nat iso_opts) [0]%nat = [] /\
  spec_idempotent_on iso_tables [0]%nat iso_opts = true.
Proof. split; vm_compute; reflexivity. Qed.

(* ---- samples[k] becomes node k when nodes are filtered ----------------------------- *)
Lemma index_of_app_l u l1 l2 k : In u l1 -> index_of u (l1 ++ l2) k = index_of u l1 k.
Proof.
  revert k. induction l1 as [|x l1 IH]; intros k H; [contradiction|]. simpl.
  destruct (Nat.eqb x u) eqn:E; [reflexivity|].
  destruct H as [-> | H]; [rewrite Nat.eqb_refl in E; discriminate|]. apply IH. exact H.
Qed.

Lemma index_of_nth l : NoDup l -> forall k s j, nth_error l k = Some s ->
  index_of s l j = (j + Z.of_nat k)%Z.
Proof.
  induction 1 as [|x l Hn ND IH]; intros k s j H.
  - destruct k; discriminate.
  - destruct k as [|k]; simpl in H.
    + inversion H; subst. simpl. rewrite Nat.eqb_refl. lia.
    + simpl. destruct (Nat.eqb x s) eqn:E.
      * apply Nat.eqb_eq in E. subst. exfalso. apply Hn. eapply nth_error_In; eauto.
      * rewrite (IH k s (j + 1)%Z H). lia.
Qed.

Lemma spec_sample_ids_lemma t smp o k s :
  o_fn o = true -> NoDup smp -> nth_error smp k = Some s -> (s < length (t_nodes t))%nat ->
  nth s (r_node_map (simplify_spec t smp o)) (-1)%Z = Z.of_nat k.
Proof.
  intros Hfn ND Hk Hs. unfold simplify_spec. cbn [r_node_map]. rewrite Hfn.
  set (order := smp ++ _).
  rewrite (nth_indep _ (-1)%Z (index_of 0 order 0%Z)).
  2:{ rewrite map_length. unfold node_ids. rewrite seq_length. exact Hs. }
  rewrite (map_nth (fun u => index_of u order 0%Z)).
  unfold node_ids. rewrite seq_nth by exact Hs. simpl.
  unfold order. rewrite index_of_app_l by (eapply nth_error_In; eauto).
  rewrite (index_of_nth smp ND k s 0%Z Hk). lia.
Qed.

(* ... and the node map is the identity when they are not *)
Lemma spec_no_filter_identity_lemma t smp o u :
  o_fn o = false -> (u < length (t_nodes t))%nat ->
  nth u (r_node_map (simplify_spec t smp o)) (-1)%Z = Z.of_nat u.
Proof.
  intros Hfn Hu. unfold simplify_spec. cbn [r_node_map]. rewrite Hfn.
  rewrite (nth_indep _ (-1)%Z (index_of 0 (node_ids t) 0%Z)).
  2:{ rewrite map_length. unfold node_ids. rewrite seq_length. exact Hu. }
  rewrite (map_nth (fun u => index_of u (node_ids t) 0%Z)).
  unfold node_ids. rewrite seq_nth by exact Hu. simpl.
  assert (G : forall n a j, (a <= u < a + n)%nat -> index_of u (seq a n) j = (j + Z.of_nat (u - a))%Z).
  { induction n as [|n IH]; intros a j H; [lia|]. simpl.
    destruct (Nat.eqb a u) eqn:E.
    - apply Nat.eqb_eq in E. subst. replace (u - u)%nat with 0%nat by lia. lia.
    - apply Nat.eqb_neq in E. rewrite IH by lia. replace (u - a)%nat with (S (u - S a)) by lia. lia. }
  rewrite G by lia. replace (u - 0)%nat with u by lia. lia.
Qed.

(* non-vacuity of the numbering theorems: samples given as [1; 0] swap the two nodes;
   with filter_nodes off the map is the identity *)
Example sample_ids_example :
  r_node_map (simplify_spec f12_tables [1; 0]%nat default_opts) = [1; 0]%Z /\
  r_node_map (simplify_spec f12_tables [1]%nat (mkOpts false false false false false true true true true)) = [0; 1]%Z /\
  r_edges (simplify_spec f12_tables [1; 0]%nat default_opts) = [(0, 12, 0, 1)]%Z.
Proof. repeat split; vm_compute; reflexivity. Qed.

(* ---- filter_sites is exact in the specification ------------------------------------------ *)
Lemma filter_all {A} (P : A -> bool) l : (forall x, In x l -> P x = true) -> filter P l = l.
Proof.
  induction l as [|x l IH]; intros H; simpl; [reflexivity|].
  rewrite (H x (or_introl eq_refl)). f_equal. apply IH. intros y Hy. apply H. right; exact Hy.
Qed.

Lemma idmap_nth n s : (s < n)%nat -> nth s (idmap n) (-1)%Z = Z.of_nat s.
Proof.
  intros H. unfold idmap. rewrite (nth_indep _ (-1)%Z (Z.of_nat 0)) by (rewrite map_length, seq_length; exact H).
  rewrite map_nth. rewrite seq_nth by exact H. reflexivity.
Qed.

Lemma refmap_nth refd : forall n j0 next k, (0 <= next)%Z -> (k < n)%nat ->
  (nth k (refmap n j0 refd next) (-1)%Z = (-1)%Z <-> refd (j0 + k)%nat = false).
Proof.
  induction n as [|n IH]; intros j0 next k Hn Hk; [lia|]. simpl.
  destruct k as [|k].
  - rewrite Nat.add_0_r. destruct (refd j0) eqn:E; simpl; split; intros H; try congruence; lia.
  - replace (j0 + S k)%nat with (S j0 + k)%nat by lia.
    destruct (refd j0); simpl; apply IH; lia.
Qed.

Lemma in_combine_seq {A} (l : list A) (m : A) : In m l -> forall a, exists j, In (j, m) (combine (seq a (length l)) l).
Proof.
  induction l as [|x l IH]; intros H a; [contradiction|]. simpl.
  destruct H as [-> | H].
  - exists a. left; reflexivity.
  - destruct (IH H (S a)) as [j Hj]. exists j. right; exact Hj.
Qed.

(* where the mutation row m = (site, node, parent) goes *)
Definition spec_target (t : tables) (smp : list nat) (o : opts) (m : nat * nat * Z) : option nat :=
  let '(s, u, _) := m in
  mut_target (par_at (t_edges t) (nth s (t_sites t) 0%Z)) (node_ids t) smp (unary_of o t) (o_kir o) (fuel_of t) u.

Lemma spec_sites_unfiltered_lemma t smp o :
  o_fs o = false -> r_sites (simplify_spec t smp o) = seq 0 (length (t_sites t)).
Proof.
  intros H. unfold simplify_spec. cbn [r_sites]. rewrite H.
  apply filter_all. intros s Hs. apply in_seq in Hs. rewrite idmap_nth by lia.
  apply negb_true_iff. apply Z.eqb_neq. lia.
Qed.

Lemma spec_sites_filtered_lemma t smp o s :
  o_fs o = true ->
  (In s (r_sites (simplify_spec t smp o)) <->
   (s < length (t_sites t))%nat /\
   exists m, In m (t_muts t) /\ fst (fst m) = s /\ spec_target t smp o m <> None).
Proof.
  intros H. unfold simplify_spec. cbn [r_sites]. rewrite H.
  rewrite filter_In, in_seq.
  set (keptm := flat_map _ (combine (seq 0 (length (t_muts t))) (t_muts t))).
  set (site_ref := fun s0 : nat => existsb _ keptm).
  assert (Href : site_ref s = true <->
                 exists m, In m (t_muts t) /\ fst (fst m) = s /\ spec_target t smp o m <> None).
  { unfold site_ref. rewrite existsb_exists. split.
    - intros [[[j [[s' u] mp]] v] [Hin Hs]]. apply Nat.eqb_eq in Hs. subst s'.
      unfold keptm in Hin. apply in_flat_map in Hin as [[j' [[a b] c]] [Hc Hin]].
      cbn [fst snd] in Hin.
      change (mut_target (par_at (t_edges t) (nth a (t_sites t) 0%Z)) (node_ids t) smp (unary_of o t) (o_kir o) (fuel_of t) b)
        with (spec_target t smp o (a, b, c)) in Hin.
      destruct (spec_target t smp o (a, b, c)) as [v'|] eqn:Et; [|contradiction].
      destruct Hin as [E | []]. inversion E; subst.
      exists (s, u, mp). split; [eapply in_combine_r; eauto|]. split; [reflexivity|]. congruence.
    - intros [[[s' u] mp] [Hin [Hs Ht]]]. simpl in Hs. subst s'.
      destruct (in_combine_seq (t_muts t) (s, u, mp) Hin 0%nat) as [j Hj].
      destruct (spec_target t smp o (s, u, mp)) as [v|] eqn:Et; [|congruence].
      exists (j, (s, u, mp), v). split; [|apply Nat.eqb_refl].
      unfold keptm. apply in_flat_map. exists (j, (s, u, mp)). split; [exact Hj|].
      cbn [fst snd].
      change (mut_target (par_at (t_edges t) (nth s (t_sites t) 0%Z)) (node_ids t) smp (unary_of o t) (o_kir o) (fuel_of t) u)
        with (spec_target t smp o (s, u, mp)).
      rewrite Et. left; reflexivity. }
  split.
  - intros [Hs Hn]. split; [lia|]. apply Href.
    apply negb_true_iff in Hn. apply Z.eqb_neq in Hn.
    destruct (site_ref s) eqn:E; [reflexivity|]. exfalso. apply Hn.
    apply (refmap_nth site_ref (length (t_sites t)) 0 0%Z s); [lia | lia | exact E].
  - intros [Hs Hm]. split; [lia|]. apply Href in Hm.
    apply negb_true_iff. apply Z.eqb_neq. intros E.
    apply (refmap_nth site_ref (length (t_sites t)) 0 0%Z s) in E; [|lia|lia]. simpl in E. congruence.
Qed.

(* non-vacuity: two sites; the mutation at site 0 sits above the chosen sample 0, the one at
   site 1 above the unchosen leaf 1.  filter_sites keeps site 0 only. *)
Definition sites_tables : tables :=
  mkTables 8 [(1, 0, -1, -1); (1, 0, -1, -1); (0, 1, -1, -1)]%Z
           [(0%Z, 8%Z, 2%nat, 0%nat); (0%Z, 8%Z, 2%nat, 1%nat)] [2; 6]%Z
           [(0%nat, 0%nat, (-1)%Z); (1%nat, 1%nat, (-1)%Z)] [] 0.
Example sites_filter_example :
  r_sites (simplify_spec sites_tables [0]%nat default_opts) = [0]%nat /\
  r_muts (simplify_spec sites_tables [0]%nat default_opts) = [(0%nat, 0, 0, -1)]%Z /\
  r_sites (simplify_spec sites_tables [0]%nat (mkOpts false false false false true false true true true)) = [0; 1]%nat /\
  spec_target sites_tables [0]%nat default_opts (1%nat, 1%nat, (-1)%Z) = None.
Proof. repeat split; vm_compute; reflexivity. Qed.

(* individuals in a non parents-first row order (simplify accepts any order): individual 0
   has its parent at the HIGHER row 1, individual 2 is unreferenced.  Both retained
   individuals keep the link (two-pass remap in simplifier_finalise_individual_references);
   a dropped parent becomes -1. *)
Definition ped_tables : tables :=
  mkTables 4 [(1, 0, -1, 0); (1, 0, -1, 1); (0, 1, -1, -1)]%Z
           [(0%Z, 4%Z, 2%nat, 0%nat); (0%Z, 4%Z, 2%nat, 1%nat)] [] [] [[1; 2]; []; []]%Z 0.
Example individual_parents_example :
  r_inds (simplify_spec ped_tables [0; 1]%nat default_opts) = [(0%nat, [1; -1]%Z); (1%nat, [])] /\
  r_inds (simplify_spec ped_tables [0; 1]%nat (mkOpts false false false false true true false true true))
  = [(0%nat, [1; 2]%Z); (1%nat, []); (2%nat, [])].
Proof. split; vm_compute; reflexivity. Qed.
