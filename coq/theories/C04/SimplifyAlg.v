(* C04 -- model of the simplify ALGORITHM as written in c/tskit/tables.c (line numbers of
   the pinned commit), function by function.  Executable definitions only.  The harness
   evaluates C == [simplify_alg] == [simplify_spec] on every small case (three-way
   correspondence); no refinement theorem is proved (Props/C04.v says so).

   State of simplifier_t that matters for the output:
     ancestor_map_head/tail[input node]  -> [s_anc]  (list of segments (lft,rgt,node))
     node_id_map                         -> [s_map]
     tables->nodes (rows by input id)    -> [s_nodes] (input ids in output order)
     tables->edges                       -> [s_edges] (table order)
     mutation_node_map                   -> [s_mut]
   child_edge_map_head/tail + buffered_children -> the local [buf] of one parent. *)
From Coq Require Import List ZArith Bool Lia Arith.
From TskVerif Require Import Base.Common C04.Model.
Import ListNotations.
Open Scope Z_scope.

Definition seg := (Z * Z * Z)%type.           (* lft, rgt, output node id *)
Definition seg_l (s : seg) : Z := let '(l, _, _) := s in l.
Definition seg_r (s : seg) : Z := let '(_, r, _) := s in r.
Definition seg_n (s : seg) : Z := let '(_, _, n) := s in n.

Fixpoint upd {A} (l : list A) (i : nat) (a : A) : list A :=
  match l, i with
  | [], _ => []
  | _ :: t, O => a :: t
  | h :: t, S i' => h :: upd t i' a
  end.
Definition is_nil {A} (l : list A) : bool := match l with [] => true | _ => false end.

Record st := mkSt {
  s_anc : list (list seg);
  s_map : list Z;
  s_nodes : list nat;
  s_edges : list (Z * Z * Z * Z);
  s_mut : list Z
}.

Section Alg.
  Variable t : tables.
  Variable smp : list nat.
  Variable o : opts.

  Definition is_sample (u : nat) : bool := mem u smp.
  Definition node_time (u : nat) : Z := let '(_, tm, _, _) := nth u (t_nodes t) (0, 0, -1, -1) in tm.

  (* simplifier_map_mutations 9442-9459 *)
  Definition map_mutations (s : st) (input_id : nat) (l r out : Z) : st :=
    mkSt (s_anc s) (s_map s) (s_nodes s) (s_edges s)
         (map (fun mc : (nat * nat * Z) * Z =>
                 let '((site, node, _), cur) := mc in
                 let pos := nth site (t_sites t) 0 in
                 if Nat.eqb node input_id && (l <=? pos) && (pos <? r) then out else cur)
              (combine (t_muts t) (s_mut s))).

  (* simplifier_add_ancestry 9461-9494 *)
  Definition add_ancestry (s : st) (input_id : nat) (l r out : Z) : st :=
    let a := nth input_id (s_anc s) [] in
    let a' := match rev a with
              | (tl, tr, tn) :: rest =>
                  if (tr =? l) && (tn =? out) then rev ((tl, r, tn) :: rest) else a ++ [(l, r, out)]
              | [] => [(l, r, out)]
              end in
    map_mutations (mkSt (upd (s_anc s) input_id a') (s_map s) (s_nodes s) (s_edges s) (s_mut s))
                  input_id l r out.

  (* simplifier_record_node 9245-9262: the row is identified by its input id; returns the
     new output id *)
  Definition record_node (s : st) (input_id : nat) : st * Z :=
    let id := Z.of_nat (length (s_nodes s)) in
    (mkSt (s_anc s) (upd (s_map s) input_id id) (s_nodes s ++ [input_id]) (s_edges s) (s_mut s), id).

  (* simplifier_rewind_node 9265-9270 *)
  Definition rewind_node (s : st) (input_id : nat) (output_id : Z) : st :=
    mkSt (s_anc s) (upd (s_map s) input_id (-1)) (firstn (Z.to_nat output_id) (s_nodes s))
         (s_edges s) (s_mut s).

  (* tsk_search_sorted, core.c 847-869, the loop itself *)
  Fixpoint bsearch (fuel : nat) (X : list Z) (v lower upper : Z) : Z :=
    match fuel with
    | O => lower
    | S f => if upper - lower >? 1
             then let mid := (upper + lower) / 2 in
                  if v >=? nth (Z.to_nat mid) X 0 then bsearch f X v mid upper
                  else bsearch f X v lower mid
             else lower
    end.
  Definition search_sorted_c (X : list Z) (v : Z) : Z :=
    if is_nil X then 0 else
    let lower := bsearch (S (length X)) X v 0 (Z.of_nat (length X)) in
    lower + (if nth (Z.to_nat lower) X 0 <? v then 1 else 0).

  (* simplifier_map_reduced_coordinates 9332-9353 *)
  Definition map_reduced (lr : Z * Z) : option (Z * Z) :=
    let X := position_lookup t in
    let li := search_sorted_c X (fst lr) in
    let ri := search_sorted_c X (snd lr) in
    if (li =? ri) || ((li =? 0) && (ri =? 1)) then None
    else Some (nth (Z.to_nat (if li =? 1 then 0 else li)) X 0, nth (Z.to_nat ri) X 0).

  (* simplifier_record_edge 9356-9399; buf = (child, intervals) in order of first use *)
  Definition buffer := list (Z * list (Z * Z)).
  Fixpoint buf_add (b : buffer) (child l r : Z) : buffer :=
    match b with
    | [] => [(child, [(l, r)])]
    | (c, ivs) :: rest =>
        if c =? child then
          (c, match rev ivs with
              | (tl, tr) :: more => if tr =? l then rev ((tl, r) :: more) else ivs ++ [(l, r)]
              | [] => [(l, r)]
              end) :: rest
        else (c, ivs) :: buf_add rest child l r
    end.
  Definition record_edge (b : buffer) (l r child : Z) : buffer :=
    if o_rts o then match map_reduced (l, r) with Some (l', r') => buf_add b child l' r' | None => b end
    else buf_add b child l r.

  (* simplifier_flush_edges 9272-9303: children sorted by id *)
  Fixpoint buf_insert (x : Z * list (Z * Z)) (b : buffer) : buffer :=
    match b with
    | [] => [x]
    | y :: rest => if fst x <=? fst y then x :: b else y :: buf_insert x rest
    end.
  Definition flush_edges (s : st) (parent : Z) (b : buffer) : st * nat :=
    let es := flat_map (fun ci : Z * list (Z * Z) => map (fun lr : Z * Z => (fst lr, snd lr, parent, fst ci)) (snd ci))
                       (fold_right buf_insert [] b) in
    (mkSt (s_anc s) (s_map s) (s_nodes s) (s_edges s ++ es) (s_mut s), length es).

  (* simplifier_extract_ancestry 9859-9920: returns (queued, remaining) *)
  Fixpoint extract_ancestry (a : list seg) (lft rgt : Z) : list seg * list seg :=
    match a with
    | [] => ([], [])
    | (xl, xr, xn) :: rest =>
        let '(q, rem) := extract_ancestry rest lft rgt in
        if (xr >? lft) && (rgt >? xl) then
          let yl := Z.max xl lft in
          let yr := Z.min xr rgt in
          ((yl, yr, xn) :: q,
           (if xl =? yl then [] else [(xl, yl, xn)]) ++ (if xr =? yr then [] else [(yr, xr, xn)]) ++ rem)
        else (q, (xl, xr, xn) :: rem)
    end.

  (* segment_overlapper_start 7675-7709: qsort by (lft, node) *)
  Fixpoint seg_insert (x : seg) (l : list seg) : list seg :=
    match l with
    | [] => [x]
    | y :: rest =>
        if (seg_l x <? seg_l y) || ((seg_l x =? seg_l y) && (seg_n x <=? seg_n y)) then x :: l
        else y :: seg_insert x rest
    end.
  Definition sort_segs (l : list seg) : list seg := fold_right seg_insert [] l.

  Fixpoint take_left (lft : Z) (S : list seg) : list seg * list seg :=
    match S with
    | s0 :: rest => if seg_l s0 =? lft then let '(a, b) := take_left lft rest in (s0 :: a, b)
                    else ([], S)
    | [] => ([], [])
    end.

  (* segment_overlapper_next 7711-7770, iterated *)
  Fixpoint overlap_loop (fuel : nat) (S X : list seg) (rgt inf : Z) : list (Z * Z * list seg) :=
    match fuel with
    | O => []
    | Datatypes.S f =>
        let X1 := filter (fun x => seg_r x >? rgt) X in
        match S with
        | s0 :: _ =>
            let lft := if is_nil X1 then seg_l s0 else rgt in
            let '(new, S') := take_left lft S in
            let X2 := X1 ++ new in
            let r0 := match S' with s1 :: _ => seg_l s1 | [] => inf end in
            let rgt' := fold_left Z.min (map seg_r X2) r0 in
            (lft, rgt', X2) :: overlap_loop f S' X2 rgt' inf
        | [] =>
            if is_nil X1 then []
            else let rgt' := fold_left Z.min (map seg_r X1) inf in
                 (rgt, rgt', X1) :: overlap_loop f [] X1 rgt' inf
        end
    end.
  Definition overlaps (queue : list seg) : list (Z * Z * list seg) :=
    overlap_loop (S (3 * length queue)) (sort_segs queue) [] (t_L t + 1) (t_L t + 1).

  (* simplifier_merge_ancestors 9745-9854 *)
  Definition merge_step (input_id : nat) (is_s keep_unary : bool)
             (acc : st * buffer * Z * Z) (piece : Z * Z * list seg) : st * buffer * Z * Z :=
    let '(s, b, output_id, prev_right) := acc in
    let '(lft, rgt, X) := piece in
    let '(s1, b1, output_id1, ancestry_node) :=
      match X with
      | [x] =>
          if is_s then (s, record_edge b lft rgt (seg_n x), output_id, output_id)
          else if keep_unary then
            let '(s', oid) := if output_id =? -1 then record_node s input_id else (s, output_id) in
            (s', record_edge b lft rgt (seg_n x), oid, seg_n x)
          else (s, b, output_id, seg_n x)
      | _ =>
          let '(s', oid) := if output_id =? -1 then record_node s input_id else (s, output_id) in
          (s', fold_left (fun bb x => record_edge bb lft rgt (seg_n x)) X b, oid, oid)
      end in
    let s2 := if is_s && negb (lft =? prev_right)
              then add_ancestry s1 input_id prev_right lft output_id1 else s1 in
    let ancestry_node' := if keep_unary then output_id1 else ancestry_node in
    (add_ancestry s2 input_id lft rgt ancestry_node', b1, output_id1, rgt).

  Definition merge_ancestors (s : st) (input_id : nat) (queue : list seg) : st :=
    let output_id := nth input_id (s_map s) (-1) in
    let is_s := is_sample input_id in
    let keep_unary := o_ku o || (o_kui o && negb (node_ind t input_id =? -1)) in
    let s0 := if is_s then mkSt (upd (s_anc s) input_id []) (s_map s) (s_nodes s) (s_edges s) (s_mut s) else s in
    let '(s1, b, oid, prev_right) :=
      fold_left (merge_step input_id is_s keep_unary) (overlaps queue) (s0, [], output_id, 0) in
    let s2 := if is_s && negb (prev_right =? t_L t)
              then add_ancestry s1 input_id prev_right (t_L t) oid else s1 in
    if oid =? -1 then s2
    else let '(s3, n) := flush_edges s2 oid b in
         if o_fn o && Nat.eqb n 0 && negb is_s then rewind_node s3 input_id oid else s3.

  (* simplifier_process_parent_edges 9922-9951 *)
  Definition process_parent (s : st) (parent : nat) (es : list edge) : st :=
    let '(s', queue) :=
      fold_left (fun (acc : st * list seg) (e : edge) =>
                   let '(sa, q) := acc in
                   let '(l, r, _, c) := e in
                   let '(qs, rem) := extract_ancestry (nth c (s_anc sa) []) l r in
                   (mkSt (upd (s_anc sa) c rem) (s_map sa) (s_nodes sa) (s_edges sa) (s_mut sa), q ++ qs))
                es (s, []) in
    merge_ancestors s' parent queue.

  (* the main loop of simplifier_run 10295-10322: runs of equal parent *)
  Fixpoint group_by_parent (es : list edge) (cur : option (nat * list edge)) : list (nat * list edge) :=
    match es with
    | [] => match cur with Some (p, g) => [(p, rev g)] | None => [] end
    | e :: rest =>
        match cur with
        | Some (p, g) => if Nat.eqb (e_parent e) p then group_by_parent rest (Some (p, e :: g))
                         else (p, rev g) :: group_by_parent rest (Some (e_parent e, [e]))
        | None => group_by_parent rest (Some (e_parent e, [e]))
        end
    end.

  (* simplifier_init_nodes 9543-9592 *)
  Definition init_state : st :=
    let n := length (t_nodes t) in
    let s0 := mkSt (repeat [] n) (repeat (-1) n) [] [] (repeat (-1) (length (t_muts t))) in
    let s1 := if o_fn o then fold_left (fun s u => fst (record_node s u)) smp s0
              else mkSt (s_anc s0) (map Z.of_nat (seq 0 n)) (seq 0 n) [] (s_mut s0) in
    fold_left (fun s u => add_ancestry s u 0 (t_L t) (nth u (s_map s) (-1))) smp s1.

  (* simplifier_insert_input_roots 10248-10293 (+ set_edge_sort_offset, sort_edges) *)
  Fixpoint edge_insert (key : Z * Z * Z * Z -> Z * Z * Z * Z) (x : Z * Z * Z * Z)
           (l : list (Z * Z * Z * Z)) : list (Z * Z * Z * Z) :=
    match l with
    | [] => [x]
    | y :: rest =>
        let '(a1, a2, a3, a4) := key x in
        let '(b1, b2, b3, b4) := key y in
        if (a1 <? b1) || ((a1 =? b1) && ((a2 <? b2) || ((a2 =? b2) && ((a3 <? b3) || ((a3 =? b3) && (a4 <=? b4))))))
        then x :: l else y :: edge_insert key x rest
    end.

  Definition insert_input_roots (s : st) : st :=
    let out_time := fun (sx : st) (v : Z) => node_time (nth (Z.to_nat v) (s_nodes sx) 0%nat) in
    let '(s', youngest) :=
      fold_left (fun (acc : st * option Z) (input_id : nat) =>
         let '(sa, y) := acc in
         let x := nth input_id (s_anc sa) [] in
         if is_nil x then acc else
         let '(sb, oid) := if nth input_id (s_map sa) (-1) =? -1 then record_node sa input_id
                           else (sa, nth input_id (s_map sa) (-1)) in
         let '(sc, b) := fold_left (fun (ab : st * buffer) (sg : seg) =>
                            let '(sx, bb) := ab in
                            if seg_n sg =? oid then ab
                            else (map_mutations sx input_id (seg_l sg) (seg_r sg) oid,
                                  record_edge bb (seg_l sg) (seg_r sg) (seg_n sg))) x (sb, []) in
         let '(sd, n) := flush_edges sc oid b in
         if o_fn o && (nth input_id (s_map sa) (-1) =? -1) && Nat.eqb n 0 then (rewind_node sd input_id oid, y)
         else (sd, match y with Some yy => Some (Z.min yy (out_time sd oid)) | None => Some (out_time sd oid) end))
        (seq 0 (length (t_nodes t))) (s, None) in
    match youngest with
    | None => s'
    | Some y =>
        let ptime := fun e : Z * Z * Z * Z => let '(_, _, p, _) := e in out_time s' p in
        (* simplifier_set_edge_sort_offset: first edge whose parent is not younger *)
        let fix split (es : list (Z * Z * Z * Z)) : list (Z * Z * Z * Z) * list (Z * Z * Z * Z) :=
            match es with
            | [] => ([], [])
            | e :: rest => if ptime e >=? y then ([], es)
                           else let '(a, b) := split rest in (e :: a, b)
            end in
        let '(head, tail) := split (s_edges s') in
        let key := fun e : Z * Z * Z * Z => let '(l, _, p, c) := e in (ptime e, p, c, l) in
        mkSt (s_anc s') (s_map s') (s_nodes s') (head ++ fold_right (edge_insert key) [] tail) (s_mut s')
    end.

  (* simplifier_run 10295-10347 + simplifier_flush_output / output_sites /
     finalise_*_references 9953-10217 *)
  Definition simplify_alg : result :=
    let s0 := init_state in
    let s1 := fold_left (fun s pg => process_parent s (fst pg) (snd pg))
                        (group_by_parent (t_edges t) None) s0 in
    let s2 := if o_kir o then insert_input_roots s1 else s1 in
    let row := fun u => nth u (t_nodes t) (0, 0, -1, -1) in
    let order := s_nodes s2 in
    (* simplifier_output_sites *)
    let nsites := length (t_sites t) in
    let jm := combine (seq 0 (length (t_muts t))) (combine (t_muts t) (s_mut s2)) in
    let keptm := filter (fun x : nat * ((nat * nat * Z) * Z) => negb (snd (snd x) =? -1)) jm in
    let site_ref := fun sid => existsb (fun x : nat * ((nat * nat * Z) * Z) =>
                                          let '(_, ((s', _, _), _)) := x in Nat.eqb s' sid) keptm in
    let smap := if o_fs o then refmap nsites 0 site_ref 0 else idmap nsites in
    let out_muts :=
      (fix go (l : list (nat * ((nat * nat * Z) * Z))) (mid : list (nat * Z)) (next : Z) :=
         match l with
         | [] => []
         | (j, ((sid, _, mp), v)) :: rest =>
             let mp' := if mp <? 0 then -1
                        else match find (fun q : nat * Z => Nat.eqb (fst q) (Z.to_nat mp)) mid with
                             | Some q => snd q | None => -1 end in
             (j, zmap smap (Z.of_nat sid), v, mp') :: go rest ((j, next) :: mid) (next + 1)
         end) keptm [] 0 in
    (* finalise_population_references / finalise_individual_references *)
    let pop_ref := fun j => existsb (fun u => let '(_, _, p, _) := row u in p =? Z.of_nat j) order in
    let ind_ref := fun j => existsb (fun u => let '(_, _, _, i) := row u in i =? Z.of_nat j) order in
    let pmap := if o_fp o then refmap (t_npops t) 0 pop_ref 0 else idmap (t_npops t) in
    let imap := if o_fi o then refmap (length (t_inds t)) 0 ind_ref 0 else idmap (length (t_inds t)) in
    (* simplifier_finalise_individual_references 10047-10116 is TWO passes: pass 1 copies
       every referenced individual with its ORIGINAL parents and fills individual_id_map
       (here [imap], complete only after the loop); pass 2 ("Remap parent IDs", over the whole
       output parents column) maps the parents through the finished map.  Remapping inline in
       pass 1 would give -1 for a retained parent that sits later in the table -- simplify
       accepts individuals in any row order. *)
    let inds_copied := flat_map (fun j => if nth j imap (-1) =? -1 then [] else [(j, nth j (t_inds t) [])])
                                (seq 0 (length (t_inds t))) in
    let inds_remapped := map (fun jp : nat * list Z => (fst jp, map (zmap imap) (snd jp))) inds_copied in
    let out_nodes := map (fun u =>
        let '(fl, _, p, i) := row u in
        let fl' := if o_usf o then 2 * (fl / 2) + (if is_sample u then 1 else 0) else fl in
        (u, fl', zmap pmap p, zmap imap i)) order in
    mkResult (s_map s2) out_nodes (s_edges s2)
             (filter (fun sid => negb (nth sid smap (-1) =? -1)) (seq 0 nsites))
             out_muts
             inds_remapped
             (filter (fun j => negb (nth j pmap (-1) =? -1)) (seq 0 (t_npops t))).
End Alg.
