(* C04 -- algorithm model, one parent (simplifier_merge_ancestors 9745-9854 as
   [merge_step] folded over the overlapper's pieces), for a NON-SAMPLE parent without unary
   retention and without reduce_to_site_topology (the default options): the loop is
   characterised piece by piece --
     * the parent gets an output id iff it had one or some piece carries more than one
       segment (num_overlapping >= 2);
     * its ancestry over a piece with exactly one segment passes that segment's node
       through, over any other piece it is the parent's own output node;
     * the recorded edges are, for every piece with more than one segment, one record
       (child = segment node, piece interval) per segment, in order.
   Together with [overlapper_partition] (pieces = exactly the covering segments),
   [snoc_seg_carries] and [buffer_is_squash] this states what one parent step computes in
   terms of the queue alone.  The link "queue segment of child c at x <-> c carries a chosen
   sample at x" (the invariant over the parents in time order) is NOT proved:
   simplify_alg_refines_spec stays partial. *)
From Coq Require Import List ZArith Bool Lia Arith.
From TskVerif Require Import Base.Common C04.Model C04.SimplifyAlg C04.ExtractProofs
  C04.BufferProofs.
Import ListNotations.
Open Scope Z_scope.

Definition pieceT := (Z * Z * list seg)%type.
Definition single (X : list seg) : bool := match X with [_] => true | _ => false end.
Definition p_l (p : pieceT) : Z := let '(l, _, _) := p in l.
Definition p_r (p : pieceT) : Z := let '(_, r, _) := p in r.
Definition p_X (p : pieceT) : list seg := let '(_, _, X) := p in X.
Definition coal (p : pieceT) : bool := negb (single (p_X p)).
Definition pass_node (p : pieceT) : Z := match p_X p with x :: _ => seg_n x | [] => -1 end.

(* the three results of the loop, as functions of the pieces *)
Definition step_oid (oid0 fresh : Z) (P : list pieceT) : Z :=
  if oid0 =? -1 then (if existsb coal P then fresh else -1) else oid0.
Definition step_anc (a0 : list seg) (oid : Z) (P : list pieceT) : list seg :=
  fold_left (fun a p => snoc_seg a (p_l p) (p_r p) (if coal p then oid else pass_node p)) P a0.
Definition step_records (P : list pieceT) : list record :=
  flat_map (fun p => if coal p then map (fun x => (seg_n x, p_l p, p_r p)) (p_X p) else []) P.
Definition add_records (b : buffer) (rs : list record) : buffer :=
  fold_left (fun b (x : record) => let '(c, l, r) := x in buf_add b c l r) rs b.

Lemma upd_length {A} (ls : list A) i a : length (upd ls i a) = length ls.
Proof.
  revert i. induction ls as [|h tl IH]; intros i; [reflexivity|].
  destruct i; simpl; [reflexivity | rewrite IH; reflexivity].
Qed.

Section Merge.
  Variable t : tables.
  Variable o : opts.
  Hypothesis no_rts : o_rts o = false.
  Variable u : nat.                       (* the parent being processed *)

  Lemma record_edge_plain b l r c : record_edge t o b l r c = buf_add b c l r.
  Proof. unfold record_edge. rewrite no_rts. reflexivity. Qed.

  Lemma add_ancestry_anc_len s l r out : length (s_anc (add_ancestry t s u l r out)) = length (s_anc s).
  Proof. unfold add_ancestry, map_mutations. cbn [s_anc]. apply upd_length. Qed.

  Lemma add_ancestry_nodes s l r out :
    s_nodes (add_ancestry t s u l r out) = s_nodes s /\ s_map (add_ancestry t s u l r out) = s_map s /\
    s_edges (add_ancestry t s u l r out) = s_edges s.
  Proof. unfold add_ancestry, map_mutations. cbn. auto. Qed.

  Lemma fold_records_edges X l r b :
    fold_left (fun bb x => record_edge t o bb l r (seg_n x)) X b
    = add_records b (map (fun x => (seg_n x, l, r)) X).
  Proof.
    revert b. induction X as [|x X IH]; intros b; [reflexivity|].
    simpl. rewrite record_edge_plain. apply IH.
  Qed.

  (* one piece *)
  Lemma merge_step_default s b oid prev p :
    (u < length (s_anc s))%nat ->
    let fresh := Z.of_nat (length (s_nodes s)) in
    let oid1 := if coal p && (oid =? -1) then fresh else oid in
    let '(s', b', oid', prev') := merge_step t o u false false (s, b, oid, prev) p in
    oid' = oid1 /\ prev' = p_r p /\
    b' = add_records b (if coal p then map (fun x => (seg_n x, p_l p, p_r p)) (p_X p) else []) /\
    nth u (s_anc s') [] = snoc_seg (nth u (s_anc s) []) (p_l p) (p_r p) (if coal p then oid1 else pass_node p) /\
    length (s_anc s') = length (s_anc s) /\
    s_nodes s' = (if coal p && (oid =? -1) then s_nodes s ++ [u] else s_nodes s) /\
    s_edges s' = s_edges s.
  Proof.
    intros Hu. destruct p as [[l r] X]. cbv zeta. unfold merge_step, coal, p_X, p_l, p_r, pass_node.
    Local Ltac fin Hu :=
      repeat split; try reflexivity;
      [ try (rewrite upd_nth by exact Hu); unfold snoc_seg;
        match goal with |- context [rev ?a] => destruct (rev a) as [|[[? ?] ?] ?] end; reflexivity
      | apply upd_length ].
    destruct X as [|x [|x2 X]].
    - (* no segment: never produced by the overlapper; the code takes the general branch *)
      simpl single. simpl negb. simpl andb.
      destruct (oid =? -1) eqn:E; simpl; fin Hu.
    - simpl. fin Hu.
    - simpl single. simpl negb. simpl andb.
      destruct (oid =? -1) eqn:E.
      + unfold record_node. cbv iota beta. cbn [fst snd].
        rewrite fold_records_edges. simpl. fin Hu.
      + rewrite fold_records_edges. simpl. fin Hu.
  Qed.

  Lemma add_records_app b r1 r2 : add_records b (r1 ++ r2) = add_records (add_records b r1) r2.
  Proof. unfold add_records. apply fold_left_app. Qed.

  (* the whole loop *)
  Lemma merge_loop_default_lemma P : forall s b oid prev,
    (u < length (s_anc s))%nat ->
    let fresh := Z.of_nat (length (s_nodes s)) in
    let '(s', b', oid', _) := fold_left (merge_step t o u false false) P (s, b, oid, prev) in
    oid' = step_oid oid fresh P /\
    b' = add_records b (step_records P) /\
    nth u (s_anc s') [] = step_anc (nth u (s_anc s) []) oid' P /\
    s_nodes s' = (if (oid =? -1) && existsb coal P then s_nodes s ++ [u] else s_nodes s) /\
    s_edges s' = s_edges s.
  Proof.
    induction P as [|p P IH]; intros s b oid prev Hu; cbv zeta.
    - simpl. unfold step_oid. simpl. rewrite andb_false_r.
      repeat split; try reflexivity.
      destruct (oid =? -1) eqn:E; [apply Z.eqb_eq in E; exact E | reflexivity].
    - replace (fold_left (merge_step t o u false false) (p :: P) (s, b, oid, prev))
        with (fold_left (merge_step t o u false false) P (merge_step t o u false false (s, b, oid, prev) p))
        by reflexivity.
      pose proof (merge_step_default s b oid prev p Hu) as H1. cbv zeta in H1.
      destruct (merge_step t o u false false (s, b, oid, prev) p) as [[[s1 b1] oid1] prev1].
      destruct H1 as [E1 [_ [E3 [E4 [E5 [E6 E7]]]]]].
      assert (Hu1 : (u < length (s_anc s1))%nat) by (rewrite E5; exact Hu).
      specialize (IH s1 b1 oid1 prev1 Hu1). cbv zeta in IH.
      destruct (fold_left (merge_step t o u false false) P (s1, b1, oid1, prev1)) as [[[s' b'] oid'] prev'].
      destruct IH as [I1 [I2 [I3 [I4 I5]]]].
      assert (Hfresh : Z.of_nat (length (s_nodes s)) <> -1) by lia.
      (* the final output id *)
      assert (Eo : oid' = step_oid oid (Z.of_nat (length (s_nodes s))) (p :: P)).
      { rewrite I1, E1. unfold step_oid. simpl existsb.
        destruct (oid =? -1) eqn:Eq.
        - destruct (coal p) eqn:Ec; simpl.
          + destruct (Z.of_nat (length (s_nodes s)) =? -1) eqn:Ef; [apply Z.eqb_eq in Ef; lia | reflexivity].
          + rewrite Eq. simpl in E6. rewrite E6. reflexivity.
        - rewrite andb_false_r. rewrite Eq. reflexivity. }
      cbv beta iota zeta.
      split; [exact Eo|]. split; [|split; [|split]].
      + rewrite I2, E3. simpl step_records. rewrite add_records_app. reflexivity.
      + rewrite I3, E4. unfold step_anc. simpl fold_left. f_equal. f_equal.
        destruct (coal p) eqn:Ec; [|reflexivity].
        (* a coalescent piece uses the id that stays until the end *)
        rewrite Eo. unfold step_oid. simpl existsb. rewrite Ec. simpl.
        destruct (oid =? -1); reflexivity.
      + rewrite I4, E6. rewrite E1. simpl existsb.
        destruct (oid =? -1) eqn:Eq; destruct (coal p) eqn:Ec; simpl; try reflexivity.
        * destruct (Z.of_nat (length (s_nodes s)) =? -1) eqn:Ef; [apply Z.eqb_eq in Ef; lia | reflexivity].
        * rewrite Eq. reflexivity.
        * rewrite Eq. reflexivity.
        * rewrite Eq. reflexivity.
      + rewrite I5, E7. reflexivity.
  Qed.
End Merge.

(* what the ancestry function says position by position *)
Lemma snoc_seg_valid a l r out :
  l < r -> (forall sg, In sg a -> seg_l sg < seg_r sg) ->
  forall sg, In sg (snoc_seg a l r out) -> seg_l sg < seg_r sg.
Proof.
  intros Hlr Hv sg. unfold snoc_seg.
  destruct (rev a) as [|[[tl tr] tn] rest] eqn:E.
  - intros [<- | []]. simpl. exact Hlr.
  - assert (Ha : a = rev rest ++ [(tl, tr, tn)]) by (rewrite <- (rev_involutive a), E; reflexivity).
    assert (Ht : tl < tr) by (apply (Hv (tl, tr, tn)); rewrite Ha; apply in_or_app; right; left; reflexivity).
    destruct ((tr =? l) && (tn =? out)) eqn:Ec.
    + apply andb_true_iff in Ec as [E1 _]. apply Z.eqb_eq in E1. subst tr.
      simpl rev. intros Hin. apply in_app_or in Hin as [Hin | [<- | []]].
      * apply Hv. rewrite Ha. apply in_or_app. left. exact Hin.
      * simpl. lia.
    + intros Hin. apply in_app_or in Hin as [Hin | [<- | []]]; [apply Hv; exact Hin | simpl; exact Hlr].
Qed.

Lemma step_anc_carries_lemma oid P : forall a0,
  (forall p, In p P -> p_l p < p_r p) ->
  (forall sg, In sg a0 -> seg_l sg < seg_r sg) ->
  forall x n,
    carries (step_anc a0 oid P) x n <->
    carries a0 x n \/
    exists p, In p P /\ p_l p <= x < p_r p /\ n = (if coal p then oid else pass_node p).
Proof.
  induction P as [|p P IH]; intros a0 HP Hv x n.
  - simpl. split; [auto | intros [H | [p [[] _]]]; exact H].
  - unfold step_anc. simpl fold_left. fold (step_anc (snoc_seg a0 (p_l p) (p_r p) (if coal p then oid else pass_node p)) oid P).
    assert (Hp : p_l p < p_r p) by (apply HP; left; reflexivity).
    rewrite IH.
    + rewrite snoc_seg_carries_lemma by assumption. split.
      * intros [[H | [Hn Hx]] | [q [Hq H]]]; auto.
        -- right. exists p. split; [left; reflexivity | auto].
        -- right. exists q. split; [right; exact Hq | exact H].
      * intros [H | [q [[<- | Hq] [Hx Hn]]]]; auto.
        right. exists q. auto.
    + intros q Hq. apply HP. right; exact Hq.
    + apply snoc_seg_valid; assumption.
Qed.

Example merge_example :
  let P := [(0, 3, [(0, 6, 1); (0, 3, 5)]); (3, 4, [(0, 6, 1)]); (4, 6, [(0, 6, 1); (4, 9, 2)]); (6, 9, [(4, 9, 2)])] in
  step_oid (-1) 7 P = 7 /\
  step_anc [] 7 P = [(0, 3, 7); (3, 4, 1); (4, 6, 7); (6, 9, 2)] /\
  buf_of (step_records P) = [(1, [(0, 3); (4, 6)]); (5, [(0, 3)]); (2, [(4, 6)])].
Proof. repeat split; vm_compute; reflexivity. Qed.

(* ---- simplifier_merge_ancestors as a whole, default options, non-sample parent ---------- *)
Lemma step_records_nil P : existsb coal P = false -> step_records P = [].
Proof.
  induction P as [|p P IH]; simpl; [reflexivity|]. intros H.
  apply orb_false_iff in H as [H1 H2]. rewrite H1. simpl. apply IH. exact H2.
Qed.

Lemma merge_ancestors_default_lemma (t : tables) (smp : list nat) (o : opts) (s : st) (u : nat) (Q : list seg) :
  o_rts o = false -> o_ku o = false -> o_kui o = false -> is_sample smp u = false ->
  (u < length (s_anc s))%nat ->
  let P := overlaps t Q in
  let oid' := step_oid (nth u (s_map s) (-1)) (Z.of_nat (length (s_nodes s))) P in
  let s' := merge_ancestors t smp o s u Q in
  nth u (s_anc s') [] = step_anc (nth u (s_anc s) []) oid' P /\
  (forall l r p c,
     In (l, r, p, c) (skipn (length (s_edges s)) (s_edges s')) <->
     oid' <> -1 /\ p = oid' /\ In (l, r) (squash None (intervals_of c (step_records P)))).
Proof.
  intros Hrts Hku Hkui Hs Hu. cbv zeta. unfold merge_ancestors.
  rewrite Hs, Hku, Hkui. simpl orb. cbv iota. simpl andb. cbv iota.
  pose proof (merge_loop_default_lemma t o Hrts u (overlaps t Q) s [] (nth u (s_map s) (-1)) 0 Hu) as H.
  cbv zeta in H.
  match type of H with context [fold_left ?f (overlaps t Q) ?a] => set (res := fold_left f (overlaps t Q) a) in H end.
  repeat match goal with
  | |- context [fold_left ?f (overlaps t Q) ?a] => progress change (fold_left f (overlaps t Q) a) with res
  end.
  clearbody res. destruct res as [[[s1 b1] oid1] prev1].
  destruct H as [E1 [E2 [E3 [E4 E5]]]].
  set (P := overlaps t Q) in *.
  destruct (oid1 =? -1) eqn:Eo.
  - apply Z.eqb_eq in Eo. split; [rewrite E3, E1; reflexivity|].
    intros l r p c. rewrite E5, skipn_all. rewrite <- E1, Eo. split; [intros [] | intros [H _]; congruence].
  - apply Z.eqb_neq in Eo.
    pose proof (flush_edges_squash_lemma s1 oid1 (step_records P)) as HF.
    unfold flushed in HF. change (buf_of (step_records P)) with (add_records [] (step_records P)) in HF.
    rewrite <- E2 in HF. rewrite E5 in HF.
    destruct (flush_edges s1 oid1 b1) as [s3 n] eqn:Efl.
    assert (Hanc : s_anc s3 = s_anc s1) by (unfold flush_edges in Efl; inversion Efl; reflexivity).
    assert (Hrew : forall sx, s_anc (rewind_node sx u oid1) = s_anc sx /\ s_edges (rewind_node sx u oid1) = s_edges sx)
      by (intros sx; unfold rewind_node; simpl; auto).
    cbn [fst] in HF.
    destruct (o_fn o && Nat.eqb n 0 && true) eqn:Erw.
    + destruct (Hrew s3) as [R1 R2]. rewrite R1, R2, Hanc. split; [rewrite E3, E1; reflexivity|].
      intros l r p c. rewrite HF. rewrite <- E1. split; [intros [A B]; auto | intros [_ [A B]]; auto].
    + rewrite Hanc. split; [rewrite E3, E1; reflexivity|].
      intros l r p c. rewrite HF. rewrite <- E1. split; [intros [A B]; auto | intros [_ [A B]]; auto].
Qed.
