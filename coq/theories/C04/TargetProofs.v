(* C04 -- the specification's [mut_target] (the retained node that carries a node's
   ancestry at one position) satisfies the recursion the ALGORITHM computes while it walks
   the parents in time order:
     kept u                      -> target u = u                    (num_overlapping >= 2 / sample)
     not kept, one lineage via c -> target u = target c             (pass-through)
     no chosen sample below      -> target u = None                 (no ancestry)
   and the reduced forest is the target relation seen from the parents:
     kept p -> (rpar v = Some p  <->  some child c of p has target c = v).
   These are the facts that connect [merge_ancestors_default] (C04/MergeProofs.v) to the
   specification. *)
From Coq Require Import List ZArith Bool Lia Arith.
From TskVerif Require Import Base.Common C04.Model C04.ForestProofs C04.ReduceProofs
  C04.IdemProofs C04.GenoProofs.
Import ListNotations.
Local Open Scope nat_scope.

Lemma find_none_existsb {A} (P : A -> bool) l : existsb P l = false -> find P l = None.
Proof.
  induction l as [|x l IH]; simpl; [reflexivity|]. intros H.
  apply orb_false_iff in H as [H1 H2]. rewrite H1. apply IH. exact H2.
Qed.

Section Target.
  Variable par : nat -> option nat.
  Variable nodes smp : list nat.
  Variable unary_ok : nat -> bool.
  Variable keep_roots : bool.
  Variable fuel : nat.
  Variable depth : nat -> nat.
  Hypothesis depth_dec : forall u v, par u = Some v -> depth v < depth u.
  Hypothesis depth_fuel : forall u, depth u < fuel.
  Hypothesis nodes_complete : forall u v, par u = Some v -> In u nodes.
  Hypothesis nodes_nodup : NoDup nodes.

  Notation keptP := (kept par nodes smp unary_ok keep_roots fuel).
  Notation rparP := (rpar par nodes smp unary_ok keep_roots fuel).
  Notation hsbP := (hsb par smp fuel).
  Notation targetP := (mut_target par nodes smp unary_ok keep_roots fuel).
  Notation lkuP := (last_kept_upto par nodes smp unary_ok keep_roots fuel).

  Let aosb_iffP a b : anc_or_self par fuel a b = true <-> aos par a b :=
    aosb_iff par fuel depth depth_dec depth_fuel a b.
  Let kept_hsbP u : keptP u = true -> hsbP u = true :=
    kept_hsb par nodes smp unary_ok keep_roots fuel depth depth_dec depth_fuel u.
  Let hsb_upP a b : aos par a b -> hsbP b = true -> hsbP a = true :=
    hsb_up par smp fuel depth depth_dec depth_fuel a b.
  Let singleP u c s : keptP u = false -> par c = Some u -> hsbP c = true -> In s smp -> aos par u s -> aos par c s :=
    unkept_single_lineage par nodes smp unary_ok keep_roots fuel depth depth_dec depth_fuel
      nodes_complete nodes_nodup u c s.

  Lemma target_hsb u v : targetP u = Some v -> hsbP u = true.
  Proof.
    intros H.
    destruct (mut_target_below par nodes smp unary_ok keep_roots fuel depth depth_dec depth_fuel
                nodes_complete nodes_nodup u v H) as [Hk Ha].
    eapply hsb_upP; [exact Ha | apply kept_hsbP; exact Hk].
  Qed.

  (* walking up to a kept node returns that node *)
  Lemma lku_reach_kept u : keptP u = true -> forall f cur best,
    aos par u cur -> depth cur < f -> lkuP f cur u best = Some u.
  Proof.
    intros Hk. induction f as [|f IH]; intros cur best Ha Hd; [lia|]. simpl.
    destruct (Nat.eqb cur u) eqn:E.
    - apply Nat.eqb_eq in E. subst. rewrite Hk. reflexivity.
    - apply Nat.eqb_neq in E. destruct Ha as [-> | Ha]; [congruence|].
      apply anc_inv in Ha as [w [Hw Huw]]. rewrite Hw. apply IH; [exact Huw|].
      apply depth_dec in Hw. lia.
  Qed.

  Lemma mut_target_kept u : keptP u = true -> targetP u = Some u.
  Proof.
    intros Hk. unfold mut_target.
    destruct (find (anc_or_self par fuel u) smp) as [s0|] eqn:E.
    - apply find_some in E as [_ Ha]. apply aosb_iffP in Ha.
      apply lku_reach_kept; auto.
    - exfalso. pose proof (kept_hsbP u Hk) as Hh. unfold hsb in Hh.
      apply existsb_exists in Hh as [s [Hs Ha]]. pose proof (find_none _ _ E s Hs). congruence.
  Qed.

  Lemma mut_target_none u : hsbP u = false -> targetP u = None.
  Proof. intros H. unfold mut_target. rewrite (find_none_existsb _ _ H). reflexivity. Qed.

  (* a non-kept node adds nothing to the walk *)
  Lemma lku_step_up u c : par c = Some u -> keptP u = false -> forall f cur best,
    aos par c cur -> depth cur < f -> lkuP f cur u best = lkuP f cur c best.
  Proof.
    intros Hp Hk. induction f as [|f IH]; intros cur best Ha Hd; [lia|]. simpl.
    assert (Hcu : c <> u).
    { intros ->. apply depth_dec in Hp. lia. }
    destruct (Nat.eqb cur c) eqn:Ec.
    - apply Nat.eqb_eq in Ec. subst cur.
      destruct (Nat.eqb c u) eqn:E; [apply Nat.eqb_eq in E; congruence|].
      rewrite Hp. destruct f as [|f']; [apply depth_dec in Hp; lia|].
      simpl. rewrite Nat.eqb_refl, Hk. reflexivity.
    - apply Nat.eqb_neq in Ec. destruct Ha as [-> | Ha]; [congruence|].
      assert (Hne : cur <> u).
      { intros ->. apply (anc_irrefl par depth depth_dec c).
        eapply anc_trans; [exact Ha | apply anc_par; exact Hp]. }
      destruct (Nat.eqb cur u) eqn:E; [apply Nat.eqb_eq in E; congruence|].
      apply anc_inv in Ha as [w [Hw Hcw]]. rewrite Hw. apply IH; [exact Hcw|].
      apply depth_dec in Hw. lia.
  Qed.

  Lemma mut_target_pass u c :
    keptP u = false -> par c = Some u -> hsbP c = true -> targetP u = targetP c.
  Proof.
    intros Hk Hp Hh. unfold mut_target.
    rewrite (find_ext_in (anc_or_self par fuel u) (anc_or_self par fuel c)).
    - destruct (find (anc_or_self par fuel c) smp) as [s0|] eqn:E; [|reflexivity].
      apply find_some in E as [_ Ha]. apply aosb_iffP in Ha.
      apply lku_step_up; auto.
    - intros s Hs.
      destruct (anc_or_self par fuel c s) eqn:Ec.
      + apply aosb_iffP. apply aosb_iffP in Ec. right.
        eapply anc_aos_trans; [apply anc_par; exact Hp | exact Ec].
      + destruct (anc_or_self par fuel u s) eqn:Eu; [|reflexivity].
        apply aosb_iffP in Eu. apply (singleP u c s Hk Hp Hh Hs) in Eu.
        apply aosb_iffP in Eu. congruence.
  Qed.

  (* the unique sample-carrying child of a non-kept node *)
  Lemma unkept_child_unique u c1 c2 :
    keptP u = false -> par c1 = Some u -> par c2 = Some u -> hsbP c1 = true -> hsbP c2 = true -> c1 = c2.
  Proof.
    intros Hk P1 P2 H1 H2. destruct (Nat.eq_dec c1 c2) as [E | Hne]; [exact E|]. exfalso.
    pose proof (nlin_two par nodes smp fuel nodes_complete nodes_nodup u c1 c2 P1 P2 Hne H1 H2) as H.
    unfold kept, kept1 in Hk. apply Nat.leb_le in H. rewrite H in Hk.
    rewrite orb_true_r in Hk. simpl in Hk. discriminate.
  Qed.

  (* no kept node strictly between a node and its target *)
  Lemma target_nearest v : forall n c, depth v <= depth c + n -> targetP c = Some v ->
    forall w, aos par c w -> anc par w v -> keptP w = false.
  Proof.
    induction n as [|n IH]; intros c Hn Ht w Hcw Hwv.
    - (* depth v <= depth c: then v = c is the only possibility *)
      destruct (mut_target_below par nodes smp unary_ok keep_roots fuel depth depth_dec depth_fuel
                  nodes_complete nodes_nodup c v Ht) as [_ Hcv].
      exfalso. assert (H : anc par c v) by (apply (aos_anc_trans par c w v Hcw Hwv)).
      apply (anc_depth par depth depth_dec) in H. lia.
    - destruct (keptP c) eqn:Ekc.
      + rewrite (mut_target_kept c Ekc) in Ht. inversion Ht; subst v.
        exfalso. apply (anc_irrefl par depth depth_dec c). apply (aos_anc_trans par c w c Hcw Hwv).
      + destruct (mut_target_below par nodes smp unary_ok keep_roots fuel depth depth_dec depth_fuel
                    nodes_complete nodes_nodup c v Ht) as [Hkv Hcv].
        destruct Hcv as [-> | Hcv]; [congruence|].
        destruct (anc_child par c v Hcv) as [d [Hd Hdv]].
        assert (Hhd : hsbP d = true) by (eapply hsb_upP; [exact Hdv | apply kept_hsbP; exact Hkv]).
        rewrite (mut_target_pass c d Ekc Hd Hhd) in Ht.
        destruct (keptP w) eqn:Ekw; [|reflexivity]. exfalso.
        destruct Hcw as [-> | Hcw]; [congruence|].
        destruct (anc_child par c w Hcw) as [d' [Hd' Hd'w]].
        assert (Hhd' : hsbP d' = true) by (eapply hsb_upP; [exact Hd'w | apply kept_hsbP; exact Ekw]).
        assert (d' = d) by (eapply unkept_child_unique; eauto). subst d'.
        assert (Hdd : depth v <= depth d + n) by (apply depth_dec in Hd; lia).
        pose proof (IH d Hdd Ht w Hd'w Hwv). congruence.
  Qed.

  (* from a node's parent chain to the next kept node: the target is handed up *)
  Lemma first_kept_target p v : forall f w d,
    first_kept par nodes smp unary_ok keep_roots fuel f w = Some p ->
    par d = Some w -> targetP d = Some v ->
    exists c, par c = Some p /\ targetP c = Some v.
  Proof.
    induction f as [|f IH]; intros w d Hf Hd Ht; simpl in Hf; [discriminate|].
    destruct (keptP w) eqn:Ek.
    - inversion Hf; subst. exists d. auto.
    - destruct (par w) as [w'|] eqn:Ew; [|discriminate].
      apply (IH w' w Hf Ew).
      rewrite (mut_target_pass w d Ek Hd (target_hsb d v Ht)). exact Ht.
  Qed.

  Lemma rpar_iff_target_lemma p v : keptP p = true ->
    (rparP v = Some p <-> exists c, par c = Some p /\ targetP c = Some v).
  Proof.
    intros Hkp. split.
    - intros H. unfold rpar in H. destruct (keptP v) eqn:Ekv; [|discriminate].
      destruct (par v) as [w0|] eqn:Ew; [|discriminate].
      apply (first_kept_target p v fuel w0 v H Ew). apply mut_target_kept. exact Ekv.
    - intros [c [Hc Ht]].
      destruct (mut_target_below par nodes smp unary_ok keep_roots fuel depth depth_dec depth_fuel
                  nodes_complete nodes_nodup c v Ht) as [Hkv Hcv].
      assert (Hpv : anc par p v) by (eapply anc_aos_trans; [apply anc_par; exact Hc | exact Hcv]).
      destruct (anc_inv par p v Hpv) as [w0 [Hw0 Hpw0]].
      destruct (first_kept_complete par nodes smp unary_ok keep_roots fuel depth depth_dec fuel w0 p
                  (depth_fuel w0) Hpw0 Hkp) as [q [Hq Hpq]].
      assert (Er : rparP v = Some q) by (unfold rpar; rewrite Hkv, Hw0; exact Hq).
      rewrite Er. f_equal.
      destruct (first_kept_spec par nodes smp unary_ok keep_roots fuel fuel w0 q Hq) as [Hkq Hqw0].
      assert (Hqv : anc par q v) by (eapply aos_anc_trans; [exact Hqw0 | apply anc_par; exact Hw0]).
      destruct Hpq as [E | Hpq]; [symmetry; exact E|]. exfalso.
      (* q is a kept node strictly between p and v: it is at or below c *)
      assert (Hcq : aos par c q).
      { destruct (anc_linear par c q v Hcv (or_intror Hqv)) as [H | [E | H]]; auto.
        - left; symmetry; exact E.
        - exfalso. apply anc_inv in H as [x [Hx Hqx]]. rewrite Hc in Hx. inversion Hx; subst x.
          apply (anc_irrefl par depth depth_dec q). eapply aos_anc_trans; eauto. }
      pose proof (target_nearest v (depth v) c ltac:(lia) Ht q Hcq Hqv). congruence.
  Qed.
End Target.
