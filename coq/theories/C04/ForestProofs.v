(* C04 -- generic facts about a forest given as a parent map [p : nat -> option nat] that
   is acyclic because some measure [depth] strictly decreases towards the root
   (tskit: node time strictly increases from child to parent, checked by
   tsk_table_collection_check_integrity: TSK_ERR_BAD_NODE_TIME_ORDERING). *)
From Coq Require Import List ZArith Bool Lia Arith.
From TskVerif Require Import Base.Common C04.Model.
Import ListNotations.
Local Open Scope nat_scope.

Lemma mem_In u l : mem u l = true <-> In u l.
Proof.
  unfold mem. rewrite existsb_exists. split.
  - intros [x [H E]]. apply Nat.eqb_eq in E. subst. exact H.
  - intros H. exists u. split; [exact H | apply Nat.eqb_refl].
Qed.

Lemma mem_false_In u l : mem u l = false <-> ~ In u l.
Proof.
  split; intros H.
  - intros HI. apply mem_In in HI. congruence.
  - destruct (mem u l) eqn:E; [|reflexivity]. apply mem_In in E. contradiction.
Qed.

Lemma mem_filter u K l : mem u (filter K l) = K u && mem u l.
Proof.
  destruct (K u) eqn:EK; simpl.
  - destruct (mem u l) eqn:E.
    + apply mem_In. apply filter_In. split; [apply mem_In; exact E | exact EK].
    + apply mem_false_In. intros HI. apply filter_In in HI as [HI _].
      apply mem_In in HI. congruence.
  - apply mem_false_In. intros HI. apply filter_In in HI as [_ HK]. congruence.
Qed.

(* strict ancestor: [anc p a b] = a is reached from b by one or more parent steps *)
Inductive anc (p : nat -> option nat) : nat -> nat -> Prop :=
| anc_par : forall a b, p b = Some a -> anc p a b
| anc_up : forall a b c, p b = Some c -> anc p a c -> anc p a b.

Definition aos (p : nat -> option nat) (a b : nat) : Prop := a = b \/ anc p a b.

Section Forest.
  Variable p : nat -> option nat.
  Variable depth : nat -> nat.
  Hypothesis depth_dec : forall u v, p u = Some v -> depth v < depth u.

  Lemma anc_depth a b : anc p a b -> depth a < depth b.
  Proof.
    induction 1 as [a b H | a b c H _ IH].
    - apply depth_dec; exact H.
    - apply depth_dec in H. lia.
  Qed.

  Lemma aos_depth a b : aos p a b -> depth a <= depth b.
  Proof. intros [-> | H]; [lia | apply anc_depth in H; lia]. Qed.

  Lemma anc_irrefl a : ~ anc p a a.
  Proof. intros H. apply anc_depth in H. lia. Qed.

  Lemma anc_trans a b c : anc p a b -> anc p b c -> anc p a c.
  Proof.
    intros Hab Hbc. induction Hbc as [b c H | b c d H _ IH].
    - eapply anc_up; eauto.
    - eapply anc_up; eauto.
  Qed.

  Lemma aos_refl a : aos p a a.
  Proof. left; reflexivity. Qed.

  Lemma aos_trans a b c : aos p a b -> aos p b c -> aos p a c.
  Proof.
    intros [-> | H1] [-> | H2]; try (left; reflexivity); try (right; assumption).
    right. eapply anc_trans; eauto.
  Qed.

  Lemma anc_aos_trans a b c : anc p a b -> aos p b c -> anc p a c.
  Proof. intros H [-> | H2]; [exact H | eapply anc_trans; eauto]. Qed.

  Lemma aos_anc_trans a b c : aos p a b -> anc p b c -> anc p a c.
  Proof. intros [-> | H] H2; [exact H2 | eapply anc_trans; eauto]. Qed.

  Lemma aos_antisym a b : aos p a b -> aos p b a -> a = b.
  Proof.
    intros [-> | H1] [E | H2]; auto.
    exfalso. apply anc_depth in H1. apply anc_depth in H2. lia.
  Qed.

  (* first step of an ancestry chain *)
  Lemma anc_inv a b : anc p a b -> exists c, p b = Some c /\ aos p a c.
  Proof.
    intros H. inversion H; subst.
    - exists a. split; [assumption | left; reflexivity].
    - exists c. split; [assumption | right; assumption].
  Qed.

  (* last step of an ancestry chain: the child of [a] on the way down to [b] *)
  Lemma anc_child a b : anc p a b -> exists c, p c = Some a /\ aos p c b.
  Proof.
    induction 1 as [a b H | a b c H _ IH].
    - exists b. split; [exact H | left; reflexivity].
    - destruct IH as [d [Hd Hdc]]. exists d. split; [exact Hd|].
      eapply aos_trans; [exact Hdc|]. right. apply anc_par. exact H.
  Qed.

  (* two ancestors of one node are comparable *)
  Lemma anc_linear a b c : aos p a c -> aos p b c -> aos p a b \/ aos p b a.
  Proof.
    intros [-> | Ha].
    - intros Hb. right. exact Hb.
    - revert b. induction Ha as [a c H | a c c' H Ha' IH]; intros b [-> | Hb].
      + left. right. apply anc_par. exact H.
      + apply anc_inv in Hb as [d [Hd Hbd]]. rewrite H in Hd. inversion Hd; subst.
        right. exact Hbd.
      + left. right. eapply anc_up; eauto.
      + apply anc_inv in Hb as [d [Hd Hbd]]. rewrite H in Hd. inversion Hd; subst.
        apply IH. exact Hbd.
  Qed.

  (* ---- up_path ---------------------------------------------------------------- *)
  Lemma up_path_sound f a b : In a (up_path p f b) -> aos p a b.
  Proof.
    revert b. induction f as [|f IH]; intros b H; simpl in H; [contradiction|].
    destruct H as [-> | H]; [left; reflexivity|].
    destruct (p b) as [v|] eqn:E; [|contradiction].
    apply IH in H. right. destruct H as [-> | H].
    - apply anc_par; exact E.
    - eapply anc_up; eauto.
  Qed.

  Lemma up_path_complete f a b : aos p a b -> depth b < f -> In a (up_path p f b).
  Proof.
    revert b. induction f as [|f IH]; intros b H Hd; [lia|].
    simpl. destruct H as [-> | H]; [left; reflexivity|]. right.
    apply anc_inv in H as [c [Hc Hac]]. rewrite Hc. apply IH; [exact Hac|].
    apply depth_dec in Hc. lia.
  Qed.

  Lemma up_path_fuel f1 f2 b : depth b < f1 -> depth b < f2 -> up_path p f1 b = up_path p f2 b.
  Proof.
    revert f2 b. induction f1 as [|f1 IH]; intros f2 b H1 H2; [lia|].
    destruct f2 as [|f2]; [lia|]. simpl. f_equal.
    destruct (p b) as [v|] eqn:E; [|reflexivity].
    apply depth_dec in E. apply IH; lia.
  Qed.

  Lemma up_path_head f b : 0 < f -> exists t, up_path p f b = b :: t.
  Proof. destruct f; [lia|]. intros _. simpl. eexists; reflexivity. Qed.

  (* the tail of the path is exactly the strict ancestors *)
  Lemma up_path_tail f a b : depth b < f ->
    (In a (tl (up_path p f b)) <-> anc p a b).
  Proof.
    intros Hd. destruct f as [|f]; [lia|]. simpl. split.
    - destruct (p b) as [v|] eqn:E; [|intros []]. intros H. apply up_path_sound in H.
      destruct H as [-> | H]; [apply anc_par; exact E | eapply anc_up; eauto].
    - intros H. apply anc_inv in H as [c [Hc Hac]]. rewrite Hc.
      apply up_path_complete; [exact Hac|]. apply depth_dec in Hc. lia.
  Qed.

  (* a node of the path other than its start has its child on the path too *)
  Lemma up_path_pred f x b : In x (up_path p f b) -> x <> b ->
    exists c, In c (up_path p f b) /\ p c = Some x.
  Proof.
    revert b. induction f as [|f IH]; intros b H Hne; simpl in H; [contradiction|].
    destruct H as [E | H]; [congruence|].
    destruct (p b) as [v|] eqn:E; [|contradiction].
    destruct (Nat.eq_dec x v) as [-> | Hxv].
    - exists b. split; [simpl; left; reflexivity | exact E].
    - destruct (IH v H Hxv) as [c [Hc Hp]]. exists c. split; [|exact Hp].
      simpl. right. rewrite E. exact Hc.
  Qed.

  (* the first node of the path satisfying P is the start, or its child on the path
     fails P *)
  Lemma find_up_path_pred (P : nat -> bool) f b m :
    find P (up_path p f b) = Some m ->
    m = b \/ exists c, In c (up_path p f b) /\ p c = Some m /\ P c = false.
  Proof.
    revert b. induction f as [|f IH]; intros b H; simpl in H; [discriminate|].
    destruct (P b) eqn:EP.
    - inversion H; subst. left; reflexivity.
    - destruct (p b) as [v|] eqn:E; [|discriminate].
      destruct (IH v H) as [-> | [c [Hc [Hp HP]]]].
      + right. exists b. split; [simpl; left; reflexivity|]. split; assumption.
      + right. exists c. split; [simpl; right; rewrite E; exact Hc|]. split; assumption.
  Qed.

  (* ... and every node of the path satisfying P is at or above it *)
  Lemma find_up_path_lowest (P : nat -> bool) f b m c :
    find P (up_path p f b) = Some m -> In c (up_path p f b) -> P c = true -> aos p c m.
  Proof.
    revert b. induction f as [|f IH]; intros b H Hc HP; simpl in H; [discriminate|].
    destruct (P b) eqn:EP.
    - inversion H; subst. eapply up_path_sound; eauto.
    - simpl in Hc. destruct Hc as [<- | Hc]; [congruence|].
      destruct (p b) as [v|] eqn:E; [|discriminate]. eapply IH; eauto.
  Qed.

  Lemma anc_or_self_iff f a b : depth b < f -> (anc_or_self p f a b = true <-> aos p a b).
  Proof.
    intros Hd. unfold anc_or_self. rewrite mem_In. split.
    - apply up_path_sound.
    - intros H. apply up_path_complete; assumption.
  Qed.
End Forest.

(* generic list facts *)
Lemma find_filter {A} (K P : A -> bool) l :
  find P (filter K l) = find (fun x => K x && P x) l.
Proof.
  induction l as [|x l IH]; simpl; [reflexivity|].
  destruct (K x) eqn:EK; simpl; [|exact IH].
  destruct (P x); [reflexivity | exact IH].
Qed.

Lemma find_strengthen {A} (K P : A -> bool) l m :
  find P l = Some m -> K m = true -> find (fun x => K x && P x) l = Some m.
Proof.
  induction l as [|x l IH]; simpl; [discriminate|]. intros H HK.
  destruct (P x) eqn:EP.
  - inversion H; subst. rewrite HK. reflexivity.
  - rewrite andb_false_r. apply IH; assumption.
Qed.

Lemma find_none_strengthen {A} (K P : A -> bool) l :
  find P l = None -> find (fun x => K x && P x) l = None.
Proof.
  induction l as [|x l IH]; simpl; [reflexivity|].
  destruct (P x) eqn:EP; [discriminate|]. rewrite andb_false_r. exact IH.
Qed.

Lemma find_ext_in {A} (P Q : A -> bool) l :
  (forall x, In x l -> P x = Q x) -> find P l = find Q l.
Proof.
  induction l as [|x l IH]; simpl; intros H; [reflexivity|].
  rewrite (H x (or_introl eq_refl)). destruct (Q x); [reflexivity|].
  apply IH. intros y Hy. apply H. right; exact Hy.
Qed.

Lemma existsb_ext_in {A} (P Q : A -> bool) l :
  (forall x, In x l -> P x = Q x) -> existsb P l = existsb Q l.
Proof.
  induction l as [|x l IH]; simpl; intros H; [reflexivity|].
  rewrite (H x (or_introl eq_refl)). f_equal. apply IH. intros y Hy. apply H. right; exact Hy.
Qed.

Lemma existsb_andb_const {A} (b : bool) (P : A -> bool) l :
  existsb (fun x => b && P x) l = b && existsb P l.
Proof.
  induction l as [|x l IH]; simpl; [rewrite andb_false_r; reflexivity|].
  rewrite IH. destruct b; reflexivity.
Qed.

Lemma two_distinct_length (l : list nat) x y :
  NoDup l -> In x l -> In y l -> x <> y -> 2 <= length l.
Proof.
  intros ND Hx Hy Hne.
  assert (H : length [x; y] <= length l).
  { apply NoDup_incl_length.
    - constructor; [simpl; intros [E | []]; congruence|]. constructor; [intros []|constructor].
    - intros z [<- | [<- | []]]; assumption. }
  simpl in H. exact H.
Qed.

Lemma one_length {A} (l : list A) x : In x l -> 1 <= length l.
Proof. destruct l; [intros [] | simpl; lia]. Qed.
