(* C04 -- theorems about the per-position specification (C04/Model.v, Part 1):
   samples kept, ancestry among kept nodes is the restriction of the original ancestry,
   MRCAs of chosen samples preserved.  All statements are for an arbitrary parent map that
   is acyclic (a measure [depth] decreases strictly towards the root) with [fuel] larger
   than every depth, so no walk runs out of fuel. *)
From Coq Require Import List ZArith Bool Lia Arith.
From TskVerif Require Import Base.Common C04.Model C04.ForestProofs.
Import ListNotations.
Local Open Scope nat_scope.

Section ReduceProofs.
  Variable par : nat -> option nat.
  Variable nodes smp : list nat.
  Variable unary_ok : nat -> bool.
  Variable keep_roots : bool.
  Variable fuel : nat.
  Variable depth : nat -> nat.
  Hypothesis depth_dec : forall u v, par u = Some v -> depth v < depth u.
  Hypothesis depth_fuel : forall u, depth u < fuel.
  (* every node that has a parent is listed, once *)
  Hypothesis nodes_complete : forall u v, par u = Some v -> In u nodes.
  Hypothesis nodes_nodup : NoDup nodes.

  Notation keptP := (kept par nodes smp unary_ok keep_roots fuel).
  Notation kept1P := (kept1 par nodes smp unary_ok fuel).
  Notation rparP := (rpar par nodes smp unary_ok keep_roots fuel).
  Notation hsbP := (hsb par smp fuel).
  Notation nlinP := (nlin par nodes smp fuel).
  Notation first_keptP := (first_kept par nodes smp unary_ok keep_roots fuel).

  Lemma fuel_pos : 0 < fuel.
  Proof. pose proof (depth_fuel 0). lia. Qed.

  Lemma aosb_iff a b : anc_or_self par fuel a b = true <-> aos par a b.
  Proof. apply anc_or_self_iff with (depth := depth); auto. Qed.

  (* (a) *)
  Lemma reduce_keeps_samples_lemma s : In s smp -> keptP s = true.
  Proof.
    intros H. unfold kept, kept1. apply mem_In in H. rewrite H. reflexivity.
  Qed.

  (* ---- hsb ---------------------------------------------------------------------- *)
  Lemma hsb_iff u : hsbP u = true <-> exists s, In s smp /\ aos par u s.
  Proof.
    unfold hsb. rewrite existsb_exists. split; intros [s [H1 H2]]; exists s; split; auto;
      apply aosb_iff; exact H2.
  Qed.

  Lemma hsb_up a b : aos par a b -> hsbP b = true -> hsbP a = true.
  Proof.
    intros Hab Hb. apply hsb_iff in Hb as [s [Hs Hbs]]. apply hsb_iff. exists s. split; auto.
    eapply aos_trans; eauto.
  Qed.

  Lemma hsb_sample s : In s smp -> hsbP s = true.
  Proof. intros H. apply hsb_iff. exists s. split; [exact H | left; reflexivity]. Qed.

  (* ---- counting child lineages --------------------------------------------------- *)
  Lemma lineage_in u c : par c = Some u -> hsbP c = true ->
    In c (filter hsbP (children par nodes u)).
  Proof.
    intros Hp Hh. apply filter_In. split; [|exact Hh]. unfold children. apply filter_In.
    split; [eapply nodes_complete; eauto|]. unfold is_child_of. rewrite Hp. apply Nat.eqb_refl.
  Qed.

  Lemma lineage_nodup u : NoDup (filter hsbP (children par nodes u)).
  Proof. apply NoDup_filter. unfold children. apply NoDup_filter. exact nodes_nodup. Qed.

  Lemma nlin_two u c1 c2 :
    par c1 = Some u -> par c2 = Some u -> c1 <> c2 -> hsbP c1 = true -> hsbP c2 = true ->
    2 <= nlinP u.
  Proof.
    intros P1 P2 Hne H1 H2. unfold nlin.
    apply (two_distinct_length _ c1 c2); [apply lineage_nodup | apply lineage_in; auto
                                         | apply lineage_in; auto | exact Hne].
  Qed.

  Lemma nlin_one u c : par c = Some u -> hsbP c = true -> 1 <= nlinP u.
  Proof. intros P1 H1. unfold nlin. eapply one_length. apply lineage_in; eauto. Qed.

  Lemma nlin_pos_child u : 1 <= nlinP u -> exists c, par c = Some u /\ hsbP c = true.
  Proof.
    unfold nlin. intros H.
    destruct (filter hsbP (children par nodes u)) as [|c l] eqn:E; [simpl in H; lia|].
    assert (Hin : In c (filter hsbP (children par nodes u))) by (rewrite E; left; reflexivity).
    apply filter_In in Hin as [Hc Hh]. unfold children in Hc. apply filter_In in Hc as [_ Hc].
    unfold is_child_of in Hc. destruct (par c) as [q|] eqn:Eq; [|discriminate].
    apply Nat.eqb_eq in Hc. subst. exists c. split; auto.
  Qed.

  Lemma nlin_two_children u : 2 <= nlinP u ->
    exists c1 c2, c1 <> c2 /\ par c1 = Some u /\ par c2 = Some u /\ hsbP c1 = true /\ hsbP c2 = true.
  Proof.
    unfold nlin. intros H. pose proof (lineage_nodup u) as ND.
    destruct (filter hsbP (children par nodes u)) as [|c1 [|c2 l]] eqn:E; simpl in H; try lia.
    assert (forall c, In c [c1; c2] -> par c = Some u /\ hsbP c = true) as Hc.
    { intros c Hc. assert (Hin : In c (filter hsbP (children par nodes u))).
      { rewrite E. destruct Hc as [<- | [<- | []]]; simpl; auto. }
      apply filter_In in Hin as [Hc' Hh]. unfold children in Hc'. apply filter_In in Hc' as [_ Hc'].
      unfold is_child_of in Hc'. destruct (par c) as [q|] eqn:Eq; [|discriminate].
      apply Nat.eqb_eq in Hc'. subst. auto. }
    exists c1, c2. inversion ND as [|? ? Hn _]; subst.
    destruct (Hc c1) as [A1 B1]; [simpl; auto|]. destruct (Hc c2) as [A2 B2]; [simpl; auto|].
    repeat split; auto. intros ->. apply Hn. left; reflexivity.
  Qed.

  Lemma kept_hsb u : keptP u = true -> hsbP u = true.
  Proof.
    unfold kept, kept1, root_rule. intros H.
    apply orb_true_iff in H as [H | H].
    - apply orb_true_iff in H as [H | H].
      + apply orb_true_iff in H as [H | H].
        * apply mem_In in H. apply hsb_sample; exact H.
        * apply Nat.leb_le in H. destruct (nlin_pos_child u) as [c [Hp Hh]]; [lia|].
          eapply hsb_up; [|exact Hh]. right. apply anc_par. exact Hp.
      + apply andb_true_iff in H as [_ H]. apply Nat.leb_le in H.
        destruct (nlin_pos_child u H) as [c [Hp Hh]].
        eapply hsb_up; [|exact Hh]. right. apply anc_par. exact Hp.
    - apply andb_true_iff in H as [_ H]. exact H.
  Qed.

  (* a non-kept node with a chosen sample below has exactly one lineage: all its chosen
     samples sit below the same child *)
  Lemma unkept_single_lineage u c s :
    keptP u = false -> par c = Some u -> hsbP c = true ->
    In s smp -> aos par u s -> aos par c s.
  Proof.
    intros Hk Hp Hh Hs [-> | Hus].
    - rewrite (reduce_keeps_samples_lemma s Hs) in Hk. discriminate.
    - destruct (anc_child par u s Hus) as [c' [Hp' Hc's]].
      destruct (Nat.eq_dec c c') as [-> | Hne]; [exact Hc's|]. exfalso.
      assert (H2 : 2 <= nlinP u).
      { apply (nlin_two u c c'); auto. apply hsb_iff. exists s. split; auto. }
      unfold kept, kept1 in Hk. apply Nat.leb_le in H2. rewrite H2 in Hk.
      rewrite orb_true_r in Hk. simpl in Hk. discriminate.
  Qed.

  (* ---- first_kept / rpar ----------------------------------------------------------- *)
  Lemma first_kept_spec f w v :
    first_kept par nodes smp unary_ok keep_roots fuel f w = Some v ->
    keptP v = true /\ aos par v w.
  Proof.
    revert w. induction f as [|f IH]; intros w H; simpl in H; [discriminate|].
    destruct (keptP w) eqn:Ek.
    - inversion H; subst. split; [exact Ek | left; reflexivity].
    - destruct (par w) as [w'|] eqn:Ep; [|discriminate].
      destruct (IH w' H) as [Hk Ha]. split; [exact Hk|].
      right. eapply aos_anc_trans; [exact Ha | apply anc_par; exact Ep].
  Qed.

  Lemma first_kept_fuel f1 f2 w : depth w < f1 -> depth w < f2 ->
    first_kept par nodes smp unary_ok keep_roots fuel f1 w
    = first_kept par nodes smp unary_ok keep_roots fuel f2 w.
  Proof.
    revert f2 w. induction f1 as [|f1 IH]; intros f2 w H1 H2; [lia|].
    destruct f2 as [|f2]; [lia|]. simpl.
    destruct (keptP w); [reflexivity|].
    destruct (par w) as [w'|] eqn:Ep; [|reflexivity].
    apply depth_dec in Ep. apply IH; lia.
  Qed.

  Lemma first_kept_kept f w : 0 < f -> keptP w = true ->
    first_kept par nodes smp unary_ok keep_roots fuel f w = Some w.
  Proof. destruct f; [lia|]. intros _ H. simpl. rewrite H. reflexivity. Qed.

  (* the nearest kept ancestor-or-self, when some kept ancestor-or-self exists *)
  Lemma first_kept_complete f w a : depth w < f -> aos par a w -> keptP a = true ->
    exists v, first_kept par nodes smp unary_ok keep_roots fuel f w = Some v /\ aos par a v.
  Proof.
    revert w. induction f as [|f IH]; intros w Hd Ha Hk; [lia|]. simpl.
    destruct (keptP w) eqn:Ek.
    - exists w. split; [reflexivity | exact Ha].
    - destruct Ha as [-> | Ha]; [congruence|].
      apply anc_inv in Ha as [c [Hc Hac]]. rewrite Hc.
      apply IH; auto. apply depth_dec in Hc. lia.
  Qed.

  Lemma rpar_spec u v : rparP u = Some v -> keptP u = true /\ keptP v = true /\ anc par v u.
  Proof.
    unfold rpar. destruct (keptP u) eqn:Ek; [|discriminate].
    destruct (par u) as [w|] eqn:Ep; [|discriminate]. intros H.
    apply first_kept_spec in H as [Hk Ha]. repeat split; auto.
    eapply aos_anc_trans; [exact Ha | apply anc_par; exact Ep].
  Qed.

  Lemma rpar_depth u v : rparP u = Some v -> depth v < depth u.
  Proof. intros H. apply rpar_spec in H as [_ [_ H]]. eapply anc_depth; eauto. Qed.

  Lemma rpar_unkept u : keptP u = false -> rparP u = None.
  Proof. intros H. unfold rpar. rewrite H. reflexivity. Qed.

  (* ---- the reduced path is the original path filtered by [kept] -------------------- *)
  Lemma path_filter_aux f w : depth w < f ->
    match first_keptP fuel w with Some v => up_path rparP f v | None => [] end
    = filter keptP (up_path par f w).
  Proof.
    revert w. induction f as [|f IH]; intros w Hd; [lia|].
    destruct (keptP w) eqn:Ek.
    - rewrite (first_kept_kept fuel w fuel_pos Ek). simpl. rewrite Ek. f_equal.
      unfold rpar at 1. rewrite Ek. destruct (par w) as [w'|] eqn:Ep; [|reflexivity].
      apply IH. apply depth_dec in Ep. lia.
    - simpl up_path at 2. simpl filter. rewrite Ek.
      rewrite (first_kept_fuel fuel (S (depth w)) w) by (pose proof (depth_fuel w); lia).
      simpl first_kept. rewrite Ek. destruct (par w) as [w'|] eqn:Ep; [|reflexivity].
      pose proof (depth_dec _ _ Ep) as Hdw. pose proof (depth_fuel w') as Hfw.
      rewrite (first_kept_fuel (depth w) fuel w') by lia.
      rewrite <- (IH w') by lia.
      destruct (first_keptP fuel w') as [v|] eqn:Efk; [|reflexivity].
      apply first_kept_spec in Efk as [_ Hav]. apply (aos_depth par depth depth_dec) in Hav.
      apply (up_path_fuel rparP depth rpar_depth); lia.
  Qed.

  Lemma path_filter f u : keptP u = true -> depth u < f ->
    up_path rparP f u = filter keptP (up_path par f u).
  Proof.
    intros Hk Hd. rewrite <- path_filter_aux by exact Hd.
    rewrite (first_kept_kept fuel u fuel_pos Hk). reflexivity.
  Qed.

  (* (b) ancestry among kept nodes is the restriction of the original ancestry *)
  Lemma reduce_ancestry_restriction_lemma a b :
    keptP a = true -> keptP b = true -> (anc rparP a b <-> anc par a b).
  Proof.
    intros Ha Hb.
    rewrite <- (up_path_tail rparP depth rpar_depth fuel a b (depth_fuel b)).
    rewrite <- (up_path_tail par depth depth_dec fuel a b (depth_fuel b)).
    rewrite (path_filter fuel b Hb (depth_fuel b)).
    destruct (up_path_head par fuel b fuel_pos) as [t Et]. rewrite Et. simpl. rewrite Hb. simpl.
    rewrite filter_In. tauto.
  Qed.

  Lemma aos_restriction a b :
    keptP a = true -> keptP b = true -> (aos rparP a b <-> aos par a b).
  Proof.
    intros Ha Hb. unfold aos. rewrite reduce_ancestry_restriction_lemma by assumption. tauto.
  Qed.

  (* nothing that was not kept takes part in the reduced forest *)
  Lemma reduce_only_kept a b : anc rparP a b -> keptP a = true /\ keptP b = true.
  Proof.
    induction 1 as [a b H | a b c H _ IH].
    - apply rpar_spec in H. tauto.
    - apply rpar_spec in H. tauto.
  Qed.

  (* anc_or_self in the reduced forest, for a kept lower node *)
  Lemma aosb_reduced a b : keptP b = true ->
    anc_or_self rparP fuel a b = keptP a && anc_or_self par fuel a b.
  Proof.
    intros Hb. unfold anc_or_self. rewrite (path_filter fuel b Hb (depth_fuel b)).
    apply mem_filter.
  Qed.

  (* (c) the MRCA of two chosen samples *)
  Lemma mrca_kept a b m : In a smp -> In b smp -> mrca par fuel a b = Some m -> keptP m = true.
  Proof.
    intros Ha Hb H. unfold mrca in H.
    destruct (find_up_path_pred par _ fuel a m H) as [-> | [c1 [Hc1 [Hp1 Hn1]]]].
    - apply reduce_keeps_samples_lemma; exact Ha.
    - apply find_some in H as [_ Hmb]. apply mem_In in Hmb.
      destruct (Nat.eq_dec m b) as [-> | Hne].
      + apply reduce_keeps_samples_lemma; exact Hb.
      + destruct (up_path_pred par fuel m b Hmb Hne) as [c2 [Hc2 Hp2]].
        assert (Hne12 : c1 <> c2).
        { intros ->. apply mem_In in Hc2. congruence. }
        assert (H2 : 2 <= nlinP m).
        { apply (nlin_two m c1 c2); auto.
          - apply hsb_iff. exists a. split; auto. eapply up_path_sound; eauto.
          - apply hsb_iff. exists b. split; auto. eapply up_path_sound; eauto. }
        unfold kept, kept1. apply Nat.leb_le in H2. rewrite H2.
        rewrite orb_true_r. reflexivity.
  Qed.

  Lemma reduce_mrca_preserved_lemma a b : In a smp -> In b smp ->
    mrca rparP fuel a b = mrca par fuel a b.
  Proof.
    intros Ha Hb. unfold mrca.
    rewrite (path_filter fuel a (reduce_keeps_samples_lemma a Ha) (depth_fuel a)).
    rewrite (path_filter fuel b (reduce_keeps_samples_lemma b Hb) (depth_fuel b)).
    rewrite find_filter.
    rewrite (find_ext_in _ (fun x => keptP x && mem x (up_path par fuel b))).
    2:{ intros x _. rewrite mem_filter. destruct (keptP x); reflexivity. }
    destruct (find (fun x => mem x (up_path par fuel b)) (up_path par fuel a)) as [m|] eqn:E.
    - apply find_strengthen; [exact E|]. apply (mrca_kept a b m Ha Hb). unfold mrca. exact E.
    - apply find_none_strengthen; exact E.
  Qed.

  (* [mrca] really is the most recent common ancestor *)
  Lemma mrca_is_common a b m : mrca par fuel a b = Some m -> aos par m a /\ aos par m b.
  Proof.
    unfold mrca. intros H. apply find_some in H as [H1 H2]. apply mem_In in H2.
    split; eapply up_path_sound; eauto.
  Qed.

  Lemma mrca_none a b : mrca par fuel a b = None -> forall c, ~ (aos par c a /\ aos par c b).
  Proof.
    unfold mrca. intros H c [H1 H2].
    assert (Hf : mem c (up_path par fuel b) = false).
    { apply (find_none _ _ H c). apply (up_path_complete par depth depth_dec); auto. }
    apply mem_false_In in Hf. apply Hf. apply (up_path_complete par depth depth_dec); auto.
  Qed.
  Lemma mrca_lowest a b m c : mrca par fuel a b = Some m ->
    aos par c a -> aos par c b -> aos par c m.
  Proof.
    unfold mrca. intros H H1 H2.
    apply (find_up_path_lowest par _ fuel a m c H).
    - apply (up_path_complete par depth depth_dec); auto.
    - apply mem_In. apply (up_path_complete par depth depth_dec); auto.
  Qed.
  Lemma mrca_correct a b :
    (forall m, mrca par fuel a b = Some m ->
       aos par m a /\ aos par m b /\ forall c, aos par c a -> aos par c b -> aos par c m) /\
    (mrca par fuel a b = None -> forall c, ~ (aos par c a /\ aos par c b)).
  Proof.
    split.
    - intros m H. destruct (mrca_is_common a b m H) as [H1 H2]. repeat split; auto.
      intros c. apply mrca_lowest. exact H.
    - apply mrca_none.
  Qed.
End ReduceProofs.
