(* C04 -- simplifier_extract_ancestry as modelled in C04/SimplifyAlg.v: the queued segments
   are exactly the parts of the node's ancestry inside [lft, rgt), the remaining segments
   exactly the parts outside, with the output node unchanged; nothing is lost or invented. *)
From Coq Require Import List ZArith Bool Lia Arith.
From TskVerif Require Import Base.Common C04.Model C04.SimplifyAlg.
Import ListNotations.
Open Scope Z_scope.

(* some segment of the list maps position x to output node n *)
Definition carries (a : list seg) (x n : Z) : Prop :=
  exists s, In s a /\ seg_n s = n /\ seg_l s <= x < seg_r s.

Lemma carries_nil x n : ~ carries [] x n.
Proof. intros [s [[] _]]. Qed.

Lemma carries_cons s a x n :
  carries (s :: a) x n <-> (seg_n s = n /\ seg_l s <= x < seg_r s) \/ carries a x n.
Proof.
  split.
  - intros [s' [[<- | H] Hs]]; [left; exact Hs | right; exists s'; auto].
  - intros [H | [s' [H Hs]]]; [exists s; split; [left; reflexivity | exact H] | exists s'; split; [right; exact H | exact Hs]].
Qed.

Lemma carries_app a b x n : carries (a ++ b) x n <-> carries a x n \/ carries b x n.
Proof.
  split.
  - intros [s [H Hs]]. apply in_app_or in H as [H | H]; [left | right]; exists s; auto.
  - intros [[s [H Hs]] | [s [H Hs]]]; exists s; split; auto; apply in_or_app; auto.
Qed.

Lemma extract_ancestry_splits_lemma (a : list seg) (lft rgt : Z) :
  lft < rgt -> (forall s, In s a -> seg_l s < seg_r s) ->
  let '(q, rem) := extract_ancestry a lft rgt in
  (forall s, In s q -> seg_l s < seg_r s /\ lft <= seg_l s /\ seg_r s <= rgt) /\
  (forall s, In s rem -> seg_l s < seg_r s) /\
  (forall x n, carries q x n <-> carries a x n /\ lft <= x < rgt) /\
  (forall x n, carries rem x n <-> carries a x n /\ ~ (lft <= x < rgt)).
Proof.
  intros Hlr. induction a as [|[[xl xr] xn] a IH]; intros Hv.
  - simpl. split; [intros s []|]. split; [intros s []|]. split; intros x n; split.
    + intros Hc; exfalso; eapply carries_nil; eauto.
    + intros [Hc _]; exfalso; eapply carries_nil; eauto.
    + intros Hc; exfalso; eapply carries_nil; eauto.
    + intros [Hc _]; exfalso; eapply carries_nil; eauto.
  - simpl. specialize (IH (fun s Hs => Hv s (or_intror Hs))).
    destruct (extract_ancestry a lft rgt) as [q rem].
    destruct IH as [I1 [I2 [I3 I4]]].
    assert (Hx : xl < xr) by (apply (Hv (xl, xr, xn)); left; reflexivity).
    destruct ((xr >? lft) && (rgt >? xl)) eqn:E.
    + apply andb_true_iff in E as [E1 E2]. apply Z.gtb_lt in E1. apply Z.gtb_lt in E2.
      split; [|split; [|split]].
      * intros s [<- | Hs]; [simpl; lia | apply I1; exact Hs].
      * intros s Hs. apply in_app_or in Hs as [Hs | Hs].
        { destruct (xl =? Z.max xl lft) eqn:E3; [contradiction|]. apply Z.eqb_neq in E3.
          destruct Hs as [<- | []]. simpl. lia. }
        apply in_app_or in Hs as [Hs | Hs]; [|apply I2; exact Hs].
        destruct (xr =? Z.min xr rgt) eqn:E4; [contradiction|]. apply Z.eqb_neq in E4.
        destruct Hs as [<- | []]. simpl. lia.
      * intros x n. rewrite !carries_cons, I3. simpl. split.
        { intros [[Hn Hr] | [Hc Hr]]; [split; [left; split; [exact Hn | lia] | lia] | tauto]. }
        { intros [[[Hn Hr] | Hc] Hr2]; [left; split; [exact Hn | lia] | right; tauto]. }
      * intros x n. rewrite !carries_app, I4, carries_cons. simpl. split.
        { intros [Hc | [Hc | [Hc Hr]]].
          - destruct (xl =? Z.max xl lft) eqn:E3; [exfalso; eapply carries_nil; eauto|].
            destruct Hc as [s [[<- | []] [Hn Hr]]]. simpl in *. split; [left; split; [exact Hn | lia] | lia].
          - destruct (xr =? Z.min xr rgt) eqn:E4; [exfalso; eapply carries_nil; eauto|].
            destruct Hc as [s [[<- | []] [Hn Hr]]]. simpl in *. split; [left; split; [exact Hn | lia] | lia].
          - tauto. }
        { intros [[[Hn Hr] | Hc] Hr2]; [|right; right; tauto].
          destruct (Z_lt_le_dec x lft) as [Hl | Hl].
          - left. destruct (xl =? Z.max xl lft) eqn:E3; [apply Z.eqb_eq in E3; lia|].
            exists (xl, Z.max xl lft, xn). split; [left; reflexivity|]. simpl. split; [exact Hn | lia].
          - right; left. destruct (xr =? Z.min xr rgt) eqn:E4; [apply Z.eqb_eq in E4; lia|].
            exists (Z.min xr rgt, xr, xn). split; [left; reflexivity|]. simpl. split; [exact Hn | lia]. }
    + assert (Hout : xr <= lft \/ rgt <= xl).
      { apply andb_false_iff in E as [E | E]; [left | right]; rewrite Z.gtb_ltb in E; apply Z.ltb_ge in E; exact E. }
      split; [exact I1|]. split; [|split].
      * intros s [<- | Hs]; [simpl; exact Hx | apply I2; exact Hs].
      * intros x n. rewrite I3, carries_cons. simpl. split; [tauto|].
        intros [[[Hn Hr] | Hc] Hr2]; [lia | tauto].
      * intros x n. rewrite !carries_cons, I4. simpl. split.
        { intros [[Hn Hr] | [Hc Hr]]; [split; [left; auto | lia] | tauto]. }
        { intros [[[Hn Hr] | Hc] Hr2]; [left; auto | right; tauto]. }
Qed.

Example extract_example :
  extract_ancestry [(0, 4, 7); (4, 10, 8)] 2 6 = ([(2, 4, 7); (4, 6, 8)], [(0, 2, 7); (6, 10, 8)]).
Proof. vm_compute. reflexivity. Qed.
