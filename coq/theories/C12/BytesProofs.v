(* C12 — little-endian integers, take, padding: the struct.pack/unpack layer. *)
From Coq Require Import List ZArith Bool Lia.
From TskVerif Require Import Base.Common C12.Model.
Import ListNotations.
Open Scope Z_scope.

Lemma le_bytes_length n z : length (le_bytes n z) = n.
Proof. revert z; induction n; intros; simpl; auto. Qed.

Lemma le_bytes_bytes n z : Forall (fun b => 0 <= b < 256) (le_bytes n z).
Proof.
  revert z; induction n; intros; simpl; constructor; auto.
  apply Z.mod_pos_bound; lia.
Qed.

Lemma pow256_S n : 256 ^ Z.of_nat (S n) = 256 * 256 ^ Z.of_nat n.
Proof. rewrite Nat2Z.inj_succ, Z.pow_succ_r; lia. Qed.

Lemma le_val_le_bytes n z : 0 <= z < 256 ^ Z.of_nat n -> le_val (le_bytes n z) = z.
Proof.
  revert z; induction n; intros z H.
  - simpl in *. lia.
  - cbn [le_bytes le_val]. rewrite pow256_S in H.
    rewrite IHn.
    + pose proof (Z.div_mod z 256). lia.
    + split; [apply Z.div_pos; lia | apply Z.div_lt_upper_bound; lia].
Qed.

Lemma le_val_bound l : Forall (fun b => 0 <= b < 256) l -> 0 <= le_val l < 256 ^ Z.of_nat (length l).
Proof.
  induction 1.
  - simpl. lia.
  - cbn [le_val length]. rewrite pow256_S. lia.
Qed.

Lemma le_bytes_le_val l : Forall (fun b => 0 <= b < 256) l -> le_bytes (length l) (le_val l) = l.
Proof.
  induction 1; cbn [le_val length le_bytes]; auto.
  assert (Hm : (x + 256 * le_val l) mod 256 = x).
  { replace (x + 256 * le_val l) with (x + le_val l * 256) by lia.
    rewrite Z_mod_plus_full. apply Z.mod_small; lia. }
  assert (Hd : (x + 256 * le_val l) / 256 = le_val l).
  { replace (x + 256 * le_val l) with (x + le_val l * 256) by lia.
    rewrite Z_div_plus_full by lia. rewrite Z.div_small by lia. lia. }
  rewrite Hm, Hd. f_equal. auto.
Qed.

(* big-endian twins *)
Lemma be_val_be_bytes n z : 0 <= z < 256 ^ Z.of_nat n -> be_val (be_bytes n z) = z.
Proof. intros; unfold be_val, be_bytes. rewrite rev_involutive. apply le_val_le_bytes; auto. Qed.

Lemma be_bytes_length n z : length (be_bytes n z) = n.
Proof. unfold be_bytes. rewrite rev_length. apply le_bytes_length. Qed.

(* ---- take ---- *)

Lemma take_app n (a rest : list Z) : Z.of_nat (length a) = n -> take n (a ++ rest) = Some (a, rest).
Proof.
  intros H. unfold take. subst n. rewrite Nat2Z.id.
  rewrite app_length.
  destruct (Nat.ltb_spec (length a + length rest) (length a)); [lia|].
  rewrite firstn_app, skipn_app, Nat.sub_diag, firstn_all, skipn_all. simpl.
  rewrite !app_nil_r. reflexivity.
Qed.

Lemma take_some n buf a rest : take n buf = Some (a, rest) -> buf = a ++ rest /\ length a = Z.to_nat n.
Proof.
  unfold take. destruct (Nat.ltb_spec (length buf) (Z.to_nat n)); [discriminate|].
  intros E; inversion E; subst. split.
  - symmetry; apply firstn_skipn.
  - apply firstn_length_le; auto.
Qed.

Lemma take_none n buf : take n buf = None -> (length buf < Z.to_nat n)%nat.
Proof. unfold take. destruct (Nat.ltb_spec (length buf) (Z.to_nat n)); [auto|discriminate]. Qed.

(* ---- padding ---- *)

Lemma zeros_length n : length (zeros n) = n.
Proof. apply repeat_length. Qed.

Lemma pad_to_length n s : 0 <= n -> Z.of_nat (length (pad_to n s)) = n.
Proof.
  intros. unfold pad_to. rewrite app_length, zeros_length.
  pose proof (firstn_le_length (Z.to_nat n) s). lia.
Qed.

(* ---- integer formats ---- *)

Lemma imod_pos f : 0 < imod f.
Proof. unfold imod. apply Z.pow_pos_nonneg; lia. Qed.

Lemma imod_even f : imod f = 2 * (imod f / 2).
Proof. destruct f; reflexivity. Qed.

Lemma signed_of_mod f z : in_range f z = true -> signed_of f (z mod imod f) = z.
Proof.
  unfold in_range, imin, imax, signed_of. intros H.
  apply andb_true_iff in H as [H1 H2]. apply Z.leb_le in H1, H2.
  pose proof (imod_pos f) as P. pose proof (imod_even f) as Ev.
  destruct (isigned f); simpl.
  - destruct (Z_lt_le_dec z 0).
    + assert (z mod imod f = z + imod f).
      { symmetry. apply Z.mod_unique_pos with (q := -1); lia. }
      rewrite H. destruct (Z.leb_spec (imod f / 2) (z + imod f)); lia.
    + rewrite Z.mod_small by lia.
      destruct (Z.leb_spec (imod f / 2) z); lia.
  - apply Z.mod_small; lia.
Qed.

(* (d) LE integer encode/decode, every width, with its range side condition *)
Lemma int_pack_unpack f z :
  in_range f z = true ->
  signed_of f (le_val (le_bytes (isize f) (z mod imod f))) = z /\
  length (le_bytes (isize f) (z mod imod f)) = isize f.
Proof.
  intros H. split; [|apply le_bytes_length].
  rewrite le_val_le_bytes.
  - apply signed_of_mod; auto.
  - unfold imod. apply Z.mod_pos_bound. apply Z.pow_pos_nonneg; lia.
Qed.

(* out of range is a struct.error, never a silent wrap-around *)
Lemma int_out_of_range_rejected round32 f z :
  in_range f z = false -> pack_num round32 (BInt f) (VInt z) = EErr EStruct.
Proof. intros H; simpl; rewrite H; reflexivity. Qed.

Example int_pack_unpack_ex :
  le_bytes (isize Ih) ((-2) mod imod Ih) = [254; 255] /\ signed_of Ih (le_val [254; 255]) = -2 /\
  in_range Ih (-32768) = true /\ in_range Ih 32768 = false /\
  be_bytes 4 258 = [0; 0; 1; 2].
Proof. vm_compute. auto. Qed.
