(* C12 — executable model of tskit's metadata codecs (python/tskit/metadata.py).

   Modelled line by line:
     StructCodec.order_by_index            (361-380)   -> order_by_index / sort_props
     StructCodec.modify_schema             (623-655)   -> modify
     StructCodec.make_*_encode             (508-621)   -> encode / encode_leaf / pack_*
     StructCodec.make_*_decode             (382-506)   -> decode / decode_leaf / unpack_*
     MetadataSchema.validate_and_encode_row (849-860)  -> validate_and_encode (valid = the
                                                          jsonschema validation of the modified schema)
     struct.pack / struct.unpack with the "<" prefix   -> le_bytes / le_val / pack_* / unpack_*
     (CPython Modules/_struct.c: 's', 'p', '?', integer range checks, PyFloat_Pack4 overflow)
     JSONCodec.decode default filling       (168-178)  -> json_fill (proofs are in JsonProofs.v)

   Bytes are [list Z] (each 0..255).  Strings are byte lists *after* str.encode(stringEncoding)
   (Python's text codecs are trusted base; the NUL search of nullTerminated is on bytes, which is
   the same position for utf-8 / ascii / latin-1).  Floats are IEEE binary64 bit patterns (Z);
   the binary32 conversion is a pair of parameters round32 / widen32 of the codec (Section
   variables in the proofs; [round32_impl]/[widen32_impl] below are the executable instances
   the correspondence check uses).  Only definitions live here, so the model still runs when
   a proof breaks. *)
From Coq Require Import List ZArith Bool Lia.
From TskVerif Require Import Base.Common Gen.Generated.
Import ListNotations.
Open Scope Z_scope.

(* ------------------------------------------------------------------ bytes *)

Fixpoint le_bytes (n : nat) (z : Z) : list Z :=
  match n with O => [] | S k => (z mod 256) :: le_bytes k (z / 256) end.

Fixpoint le_val (l : list Z) : Z :=
  match l with [] => 0 | b :: t => b + 256 * le_val t end.

(* big-endian twins (not reachable from tskit: every format is prefixed by "<") *)
Definition be_bytes (n : nat) (z : Z) : list Z := rev (le_bytes n z).
Definition be_val (l : list Z) : Z := le_val (rev l).

Definition zeros (n : nat) : list Z := repeat 0 n.

(* ------------------------------------------------------------------ formats *)

Inductive ifmt := Ib | IB | Ih | IH | Ii | II | Il | IL | Iq | IQ.

Definition isize (f : ifmt) : nat :=
  match f with Ib | IB => 1 | Ih | IH => 2 | Ii | II | Il | IL => 4 | Iq | IQ => 8 end%nat.
Definition isigned (f : ifmt) : bool :=
  match f with Ib | Ih | Ii | Il | Iq => true | _ => false end.
Definition imod (f : ifmt) : Z := 256 ^ Z.of_nat (isize f).
Definition imin (f : ifmt) : Z := if isigned f then - (imod f / 2) else 0.
Definition imax (f : ifmt) : Z := if isigned f then imod f / 2 - 1 else imod f - 1.
Definition in_range (f : ifmt) (z : Z) : bool := (imin f <=? z) && (z <=? imax f).

(* binaryFormat after the regex ^([cbB?hHiIlLqQfd]|\d*[spx])$ ; an empty count is 1 *)
Inductive bfmt :=
| BInt (f : ifmt) | BBool | BFloat | BDouble | BChar
| BStr (n : Z) | BPas (n : Z) | BPad (n : Z).

Definition bsize (f : bfmt) : Z :=
  match f with
  | BInt i => Z.of_nat (isize i) | BBool => 1 | BFloat => 4 | BDouble => 8 | BChar => 1
  | BStr n | BPas n | BPad n => n
  end.

(* the format character (ASCII) — tied to the regenerated facts in LayoutProofs.v *)
Definition ichar (f : ifmt) : Z :=
  match f with Ib => 98 | IB => 66 | Ih => 104 | IH => 72 | Ii => 105 | II => 73
             | Il => 108 | IL => 76 | Iq => 113 | IQ => 81 end.
Definition bchar (f : bfmt) : Z :=
  match f with BInt i => ichar i | BBool => 63 | BFloat => 102 | BDouble => 100 | BChar => 99
             | BStr _ => 115 | BPas _ => 112 | BPad _ => 120 end.

(* ------------------------------------------------------------------ values, schemas *)

Definition key := list Z.

Inductive value :=
| VNull | VBool (b : bool) | VInt (z : Z) | VFloat (bits : Z) | VStr (s : list Z)
| VArr (l : list value) | VObj (kv : list (key * value)).

Inductive jty := TNumber | TInteger | TBoolean | TString | TNull.

(* arrays: "length" wins over noLengthEncodingExhaustBuffer wins over arrayLengthFormat
   (make_array_encode 554-559, make_array_decode 429-434) *)
Inductive amode := AFixed (n : Z) | AExhaust | ALen (f : ifmt).

Record pmeta := { p_index : Z; p_default : option value }.

Inductive schema :=
| SLeaf (t : jty) (f : option bfmt) (nt : nat)
    (* nt = 0: not nullTerminated; nt = u > 0: nullTerminated, u = width in bytes of one code
       unit of stringEncoding: 1 for utf-8 / ascii / latin-1, 2 for the utf-16 family, 4 for utf-32 *)
| SArr (m : amode) (it : schema)
| SObj (req : option (list key)) (ps : list (key * pmeta * schema)).

(* top level: "type": "object" or ["object","null"] *)
Record top := { t_nullable : bool; t_schema : schema }.

Inductive err :=
| EValidation      (* MetadataValidationError *)
| EStruct          (* struct.error *)
| EValue           (* ValueError *)
| EKey             (* KeyError *)
| EOverflow        (* OverflowError *)
| EAttr            (* AttributeError *)
| ESystem          (* SystemError *)
| EOther.          (* an exception outside the modelled classes (TypeError on ill-typed defaults …) *)

Inductive eres (A : Type) := EOk (a : A) | EErr (e : err).
Arguments EOk {A} a.
Arguments EErr {A} e.

(* ------------------------------------------------------------------ key order *)

Fixpoint key_ltb (a b : key) : bool :=
  match a, b with
  | [], [] => false
  | [], _ :: _ => true
  | _ :: _, [] => false
  | x :: a', y :: b' => if x <? y then true else if y <? x then false else key_ltb a' b'
  end.
Definition key_leb (a b : key) : bool := negb (key_ltb b a).
Definition key_eqb (a b : key) : bool := list_eqb Z.eqb a b.

Fixpoint lookup (k : key) (kv : list (key * value)) : option value :=
  match kv with
  | [] => None
  | (k', v) :: r => if key_eqb k k' then Some v else lookup k r
  end.

(* ------------------------------------------------------------------ order_by_index *)
(* items = sorted(items, key=name); items = sorted(items, key=index or 0) — two *stable* sorts *)

Definition prop := (key * pmeta * schema)%type.
Definition pkey (p : prop) : key := fst (fst p).
Definition pidx (p : prop) : Z := p_index (snd (fst p)).

Fixpoint insert_by (leb : prop -> prop -> bool) (p : prop) (l : list prop) : list prop :=
  match l with
  | [] => [p]
  | q :: r => if leb p q then p :: q :: r else q :: insert_by leb p r
  end.
(* stable insertion sort: elements are inserted from the right, and an element goes in front
   of the first element it is <= to, so equal elements keep their order *)
Definition sort_by (leb : prop -> prop -> bool) (l : list prop) : list prop :=
  fold_right (insert_by leb) [] l.

Definition sort_props (l : list prop) : list prop :=
  sort_by (fun p q => pidx p <=? pidx q) (sort_by (fun p q => key_leb (pkey p) (pkey q)) l).

Fixpoint order_by_index (s : schema) : schema :=
  match s with
  | SLeaf _ _ _ => s
  | SArr m it => SArr m (order_by_index it)
  | SObj req ps =>
      SObj req (sort_props (map (fun p : prop => (fst p, order_by_index (snd p))) ps))
  end.

(* enforce_fixed_properties: "required" defaults to the properties without a default;
   additionalProperties := false (implicit in [valid]) *)
Fixpoint enforce_fixed (s : schema) : schema :=
  match s with
  | SLeaf _ _ _ => s
  | SArr m it => SArr m (enforce_fixed it)
  | SObj req ps =>
      let ps' := map (fun p : prop => (fst p, enforce_fixed (snd p))) ps in
      let r := match req with
               | Some r => r
               | None => map pkey (filter (fun p : prop =>
                           match p_default (snd (fst p)) with None => true | Some _ => false end) ps)
               end in
      SObj (Some r) ps'
  end.

Definition modify (s : schema) : schema := order_by_index (enforce_fixed s).
Definition modify_top (t : top) : top := {| t_nullable := t_nullable t; t_schema := modify (t_schema t) |}.

(* ------------------------------------------------------------------ IEEE helpers *)

Definition bits_sign (b : Z) : Z := Z.shiftr b 63.
Definition bits_exp (b : Z) : Z := Z.land (Z.shiftr b 52) 2047.
Definition bits_man (b : Z) : Z := Z.land b (2 ^ 52 - 1).

(* float truthiness: every pattern except +0.0 / -0.0 *)
Definition float_truthy (b : Z) : bool := negb (Z.land b (2 ^ 63 - 1) =? 0).

(* float.is_integer(): finite and integral (jsonschema's draft-7 "integer" accepts those) *)
Definition float_is_integer (b : Z) : bool :=
  let e := bits_exp b in let m := bits_man b in
  if e =? 2047 then false
  else if e =? 0 then m =? 0                      (* zero; subnormals are not integers *)
  else let sh := 1075 - e in                      (* value = (2^52+m) * 2^-sh *)
       if sh <=? 0 then true
       else if 53 <=? sh then false
       else (2 ^ 52 + m) mod 2 ^ sh =? 0.

(* float(z) for |z| <= 2^53 (exact); None outside (not modelled) *)
Definition int_to_double (z : Z) : option Z :=
  if z =? 0 then Some 0
  else let a := Z.abs z in
       if 2 ^ 53 <? a then None
       else let p := Z.log2 a in
            let m := if p <=? 52 then Z.shiftl a (52 - p) else Z.shiftr a (p - 52) in
            Some ((if z <? 0 then 2 ^ 63 else 0) + Z.shiftl (p + 1023) 52 + (m - 2 ^ 52)).

(* round-half-even of m / 2^k (k may be <= 0) *)
Definition rshift_rne (m k : Z) : Z :=
  if k <=? 0 then Z.shiftl m (- k)
  else let q := Z.shiftr m k in
       let r := Z.land m (2 ^ k - 1) in
       let h := 2 ^ (k - 1) in
       if r <? h then q else if h <? r then q + 1 else if Z.even q then q else q + 1.

(* (float)x with CPython's overflow check (PyFloat_Pack4): None = OverflowError *)
Definition round32_impl (b : Z) : option Z :=
  let s := Z.shiftl (bits_sign b) 31 in
  let e := bits_exp b in let m := bits_man b in
  if e =? 2047 then
    if m =? 0 then Some (s + 2139095040)
    else Some (s + 2139095040 + Z.lor 4194304 (Z.shiftr m 29))
  else
    let M := if e =? 0 then m else m + 2 ^ 52 in
    let E := if e =? 0 then -1074 else e - 1075 in
    if M =? 0 then Some s
    else
      let p := Z.log2 M in
      let ue := p + E in
      if -126 <=? ue then
        let q := rshift_rne M (p - 23) in
        let '(q, ue) := if q =? 2 ^ 24 then (2 ^ 23, ue + 1) else (q, ue) in
        if 127 <? ue then None
        else Some (s + Z.shiftl (ue + 127) 23 + (q - 2 ^ 23))
      else
        Some (s + rshift_rne M (- (E + 149))).

Definition widen32_impl (w : Z) : Z :=
  let s := Z.shiftl (Z.shiftr w 31) 63 in
  let e := Z.land (Z.shiftr w 23) 255 in
  let m := Z.land w (2 ^ 23 - 1) in
  if e =? 255 then
    if m =? 0 then s + Z.shiftl 2047 52
    else s + Z.shiftl 2047 52 + Z.lor (2 ^ 51) (Z.shiftl m 29)
  else if e =? 0 then
    if m =? 0 then s
    else let p := Z.log2 m in
         s + Z.shiftl (p - 149 + 1023) 52 + (Z.shiftl m (52 - p) - 2 ^ 52)
  else s + Z.shiftl (e - 127 + 1023) 52 + Z.shiftl m 29.

(* ------------------------------------------------------------------ the codec *)

Definition ebind {A B} (r : eres A) (f : A -> eres B) : eres B :=
  match r with EOk a => f a | EErr e => EErr e end.

(* Python truthiness, used by '?' : struct packs bool(v) *)
Definition truthy (v : value) : bool :=
  match v with
  | VNull => false | VBool b => b | VInt z => negb (z =? 0) | VFloat b => float_truthy b
  | VStr s => negb (Nat.eqb (length s) 0) | VArr l => negb (Nat.eqb (length l) 0)
  | VObj kv => negb (Nat.eqb (length kv) 0)
  end.

Definition pad_to (n : Z) (s : list Z) : list Z :=
  let t := firstn (Z.to_nat n) s in t ++ zeros (Z.to_nat n - length t).

(* decode result: a short read ("unpack requires a buffer of N bytes") is kept apart from the
   other errors because array_decode_exhaust (414-424) catches exactly that one *)
Inductive dres :=
| DOk (v : value) (rest : list Z)
| DShort
| DErr (e : err)
| DFuel.

(* bytes(islice(buffer, size)) followed by struct.unpack: fewer than size bytes -> struct.error *)
Definition take (n : Z) (buf : list Z) : option (list Z * list Z) :=
  let k := Z.to_nat n in
  if (length buf <? k)%nat then None else Some (firstn k buf, skipn k buf).

Fixpoint find_nul (s : list Z) : list Z :=
  match s with [] => [] | c :: r => if c =? 0 then [] else c :: find_nul r end.

(* decode_string: s = bytes.decode(encoding); i = s.find("\x00"); s[:i].  The search is for the NUL
   *character*.  In a fixed-width encoding a character is a sequence of whole u-byte code units and
   only NUL is the all-zero unit, so on bytes this is: scan unit by unit, stop at the first
   all-zero unit (a trailing partial unit is kept: Python's decoder refuses it). *)
Fixpoint find_nul_units (fuel : nat) (u : nat) (bs : list Z) : list Z :=
  match fuel with
  | O => bs
  | S k =>
      let c := firstn u bs in
      if (length c <? u)%nat then bs
      else if forallb (Z.eqb 0) c then []
      else c ++ find_nul_units k u (skipn u bs)
  end.

Definition cut (nt : nat) (bs : list Z) : list Z :=
  match nt with
  | O => bs
  | S O => find_nul bs
  | _ => find_nul_units (length bs) nt bs
  end.

Section Codec.
Variable round32 : Z -> option Z.     (* (float)x as a binary32 pattern; None = overflow *)
Variable widen32 : Z -> Z.            (* binary32 pattern -> binary64 pattern, exact *)

(* the double a numeric value is converted to by the 'f'/'d' packers *)
Definition to_double (v : value) : eres Z :=
  match v with
  | VFloat b => EOk b
  | VInt z => match int_to_double z with Some b => EOk b | None => EErr EOther end
  | VBool b => EOk (if b then 4607182418800017408 else 0)
  | _ => EErr EStruct
  end.

(* struct.Struct("<" + fmt).pack(v) as used by make_numeric_encode (619-621) *)
Definition pack_num (f : bfmt) (v : value) : eres (list Z) :=
  match f with
  | BInt i =>
      match v with
      | VInt z => if in_range i z then EOk (le_bytes (isize i) (z mod imod i)) else EErr EStruct
      | VBool b => EOk (le_bytes (isize i) (if b then 1 else 0))
      | _ => EErr EStruct
      end
  | BBool => EOk [if truthy v then 1 else 0]
  | BFloat => ebind (to_double v) (fun b =>
                match round32 b with Some w => EOk (le_bytes 4 w) | None => EErr EOverflow end)
  | BDouble => ebind (to_double v) (fun b => EOk (le_bytes 8 b))
  | BChar | BStr _ | BPas _ | BPad _ => EErr EStruct
  end.

(* struct.pack("<" + fmt, string.encode(enc)) as used by make_string_encode (608-613) *)
Definition pack_str (f : bfmt) (s : list Z) : eres (list Z) :=
  match f with
  | BChar => match s with [c] => EOk [c] | _ => EErr EStruct end
  | BStr n => EOk (pad_to n s)
  | BPas n =>
      if n <=? 0 then EOk []
      else let k := Nat.min (length s) (Z.to_nat (n - 1)) in
           EOk (Z.of_nat (Nat.min k 255) :: pad_to (n - 1) s)
  | BBool => EOk [if negb (Nat.eqb (length s) 0) then 1 else 0]
  | BInt _ | BFloat | BDouble | BPad _ => EErr EStruct
  end.

(* make_encode dispatches on "type" (516-524) *)
Definition encode_leaf (t : jty) (f : option bfmt) (v : value) : eres (list Z) :=
  match t with
  | TNull =>   (* lambda _: struct.pack(sub_schema.get("binaryFormat", "0x")) *)
      match f with
      | None => EOk []
      | Some (BPad n) => EOk (zeros (Z.to_nat n))
      | Some _ => EErr EStruct
      end
  | TString =>
      match f with
      | None => EErr EKey
      | Some f => match v with VStr s => pack_str f s | _ => EErr EAttr end
      end
  | TNumber | TInteger | TBoolean =>
      match f with
      | None => EErr EKey
      | Some f => pack_num f v
      end
  end.

Fixpoint encode (s : schema) (v : value) : eres (list Z) :=
  match s with
  | SLeaf t f _ => encode_leaf t f v
  | SArr m it =>
      match v with
      | VArr l =>
          let body := (fix go (l : list value) : eres (list Z) :=
                         match l with
                         | [] => EOk []
                         | x :: r => ebind (encode it x) (fun bs => ebind (go r) (fun rs => EOk (bs ++ rs)))
                         end) l in
          match m with
          | AFixed n => if Z.of_nat (length l) =? n then body else EErr EValue
          | AExhaust => body
          | ALen f =>
              if Z.of_nat (length l) <? imod f
              then ebind body (fun bs => EOk (le_bytes (isize f) (Z.of_nat (length l)) ++ bs))
              else EErr EValue
          end
      | _ => EErr EOther
      end
  | SObj _ ps =>
      match v with
      | VObj kv =>
          (fix go (ps : list prop) : eres (list Z) :=
             match ps with
             | [] => EOk []
             | (k, m, sub) :: r =>
                 (* try: sub_encoder(obj[key])  except KeyError: sub_encoder(defaults[key]) —
                    the except clause also catches a KeyError raised *inside* sub_encoder(obj[key])
                    (a nested object with a missing key), and then encodes the default instead *)
                 let dflt := match p_default m with Some d => encode sub d | None => EErr EKey end in
                 ebind (match lookup k kv with
                        | Some x => match encode sub x with
                                    | EErr EKey =>
                                        (* regenerated fact: true while object_encode uses try/except *)
                                        if c12_encode_swallows_nested_keyerror then dflt else EErr EKey
                                    | r => r
                                    end
                        | None => dflt
                        end)
                   (fun bs => ebind (go r) (fun rs => EOk (bs ++ rs)))
             end) ps
      | _ => EErr EOther
      end
  end.

(* make_object_or_null_encode (584-606) *)
Definition encode_top (t : top) (v : value) : eres (list Z) :=
  if t_nullable t then match v with VNull => EOk [] | _ => encode (t_schema t) v end
  else encode (t_schema t) v.

(* ---------------------------------------------------------------- decoding *)

Definition signed_of (f : ifmt) (u : Z) : Z :=
  if isigned f && (imod f / 2 <=? u) then u - imod f else u.

Definition decode_leaf (t : jty) (f : option bfmt) (nt : nat) (buf : list Z) : dres :=
  match t with
  | TNull =>
      match f with
      | None => DOk VNull buf
      | Some (BPad n) => match take n buf with Some (_, rest) => DOk VNull rest | None => DShort end
      | Some _ => DErr EOther
      end
  | TString =>
      match f with
      | None => DErr EKey
      | Some f =>
          match take (bsize f) buf with
          | None => DShort
          | Some (bs, rest) =>
              match f with
              | BChar => DOk (VStr (cut nt bs)) rest
              | BStr _ => DOk (VStr (cut nt bs)) rest
              | BPas n =>
                  if n <=? 0 then DErr ESystem
                  else let k := Z.min (hd 0 bs) (n - 1) in
                       let s := firstn (Z.to_nat k) (tl bs) in
                       DOk (VStr (cut nt s)) rest
              | _ => DErr EAttr
              end
          end
      end
  | TNumber | TInteger | TBoolean =>
      match f with
      | None => DErr EKey
      | Some f =>
          match take (bsize f) buf with
          | None => DShort
          | Some (bs, rest) =>
              match f with
              | BInt i => DOk (VInt (signed_of i (le_val bs))) rest
              | BBool => DOk (VBool (negb (le_val bs =? 0))) rest
              | BFloat => DOk (VFloat (widen32 (le_val bs))) rest
              | BDouble => DOk (VFloat (le_val bs)) rest
              | _ => DErr EOther
              end
          end
      end
  end.

(* [element_decoder(buffer) for _ in range(n)] *)
Fixpoint decode_n (d : list Z -> dres) (n : nat) (buf : list Z) (acc : list value) : dres :=
  match n with
  | O => DOk (VArr (rev acc)) buf
  | S k => match d buf with
           | DOk v rest => decode_n d k rest (v :: acc)
           | DShort => DShort | DErr e => DErr e | DFuel => DFuel
           end
  end.

(* The same loop driven by the binary count, stopping at the first failure: evaluating it costs
   O(log n + elements actually decoded), like Python's lazy range(n), even when a corrupt length
   prefix announces 2^64 elements.  [decode_count d n buf = decode_n d (Z.to_nat n) buf []] is
   proved in RoundTripProofs.v (decode_count_spec). *)
Inductive lstate := LGo (buf : list Z) (acc : list value) | LStop (r : dres).

Definition lstep (d : list Z -> dres) (st : lstate) : lstate :=
  match st with
  | LStop _ => st
  | LGo buf acc =>
      match d buf with
      | DOk v rest => LGo rest (v :: acc)
      | DShort => LStop DShort | DErr e => LStop (DErr e) | DFuel => LStop DFuel
      end
  end.

Fixpoint lloop (d : list Z -> dres) (p : positive) (st : lstate) : lstate :=
  match st with
  | LStop _ => st
  | LGo _ _ =>
      match p with
      | xH => lstep d st
      | xO q => lloop d q (lloop d q st)
      | xI q => lloop d q (lloop d q (lstep d st))
      end
  end.

Definition lfinish (st : lstate) : dres :=
  match st with LGo buf acc => DOk (VArr (rev acc)) buf | LStop r => r end.

Definition decode_count (d : list Z -> dres) (n : Z) (buf : list Z) : dres :=
  match n with
  | Zpos p => lfinish (lloop d p (LGo buf []))
  | _ => DOk (VArr []) buf
  end.

(* array_decode_exhaust: loop until the element decoder raises the short-read struct.error;
   the iterator has then been drained, so nothing is left for later fields.  [k] is fuel. *)
Fixpoint decode_exhaust (d : list Z -> dres) (k : nat) (buf : list Z) (acc : list value) : dres :=
  match k with
  | O => DFuel
  | S k' => match d buf with
            | DOk v rest => decode_exhaust d k' rest (v :: acc)
            | DShort => DOk (VArr (rev acc)) []
            | DErr e => DErr e
            | DFuel => DFuel
            end
  end.

Fixpoint decode (fuel : nat) (s : schema) (buf : list Z) : dres :=
  match s with
  | SLeaf t f nt => decode_leaf t f nt buf
  | SArr m it =>
      match m with
      | AFixed n => decode_count (decode fuel it) n buf
      | AExhaust => decode_exhaust (decode fuel it) fuel buf []
      | ALen f =>
          match take (Z.of_nat (isize f)) buf with
          | None => DShort
          | Some (bs, rest) => decode_count (decode fuel it) (le_val bs) rest
          end
      end
  | SObj _ ps =>
      (fix go (ps : list prop) (buf : list Z) (acc : list (key * value)) : dres :=
         match ps with
         | [] => DOk (VObj (rev acc)) buf
         | (k, _, sub) :: r =>
             match decode fuel sub buf with
             | DOk v rest => go r rest ((k, v) :: acc)
             | DShort => DShort | DErr e => DErr e | DFuel => DFuel
             end
         end) ps buf []
  end.

(* make_object_or_null_decode (446-466); codec.decode = decoder(iter(buffer)) *)
Definition decode_top (fuel : nat) (t : top) (buf : list Z) : dres :=
  if t_nullable t then match buf with [] => DOk VNull [] | _ => decode fuel (t_schema t) buf end
  else decode fuel (t_schema t) buf.

(* ---------------------------------------------------------------- validation *)
(* TSKITMetadataSchemaValidator(self._schema).validate on the *modified* schema: type,
   properties, required, additionalProperties = false, items.  Python bool is not a JSON
   number; a float with integral value is a JSON integer. *)

Definition valid_leaf (t : jty) (v : value) : bool :=
  match t, v with
  | TNull, VNull => true
  | TBoolean, VBool _ => true
  | TString, VStr _ => true
  | TNumber, VInt _ => true
  | TNumber, VFloat _ => true
  | TInteger, VInt _ => true
  | TInteger, VFloat b => float_is_integer b
  | _, _ => false
  end.

Definition key_in (k : key) (l : list key) : bool := existsb (key_eqb k) l.

Fixpoint valid (s : schema) (v : value) : bool :=
  match s with
  | SLeaf t _ _ => valid_leaf t v
  | SArr _ it => match v with VArr l => forallb (valid it) l | _ => false end
  | SObj req ps =>
      match v with
      | VObj kv =>
          forallb (fun k => match lookup k kv with Some _ => true | None => false end)
                  (match req with Some r => r | None => [] end)
          && forallb (fun e : key * value => key_in (fst e) (map pkey ps)) kv
          && (fix go (ps : list prop) : bool :=
                match ps with
                | [] => true
                | (k, _, sub) :: r =>
                    match lookup k kv with Some x => valid sub x | None => true end && go r
                end) ps
      | _ => false
      end
  end.

Definition valid_top (t : top) (v : value) : bool :=
  match v with VNull => t_nullable t || valid (t_schema t) v | _ => valid (t_schema t) v end.

(* MetadataSchema.validate_and_encode_row; t is the modified schema *)
Definition validate_and_encode (t : top) (v : value) : eres (list Z) :=
  if valid_top t v then encode_top t v else EErr EValidation.

(* ---------------------------------------------------------------- what comes back *)

(* [mod 2^32] / [mod 2^64]: what 4 / 8 stored bytes can hold; the identity on genuine bit
   patterns (norm_float_wf in RoundTripProofs.v) *)
Definition norm_leaf (t : jty) (f : option bfmt) (nt : nat) (v : value) : value :=
  match t with
  | TNull => VNull
  | TString =>
      match f, v with
      | Some BChar, VStr s => VStr (cut nt s)
      | Some (BStr n), VStr s => VStr (cut nt (pad_to n s))
      | Some (BPas n), VStr s =>
          let k := Nat.min (Nat.min (length s) (Z.to_nat (n - 1))) 255 in
          VStr (cut nt (firstn k s))
      | _, _ => v
      end
  | _ =>
      match f with
      | Some (BInt _) => match v with VBool b => VInt (if b then 1 else 0) | _ => v end
      | Some BBool => VBool (truthy v)
      | Some BFloat =>
          match to_double v with
          | EOk b => match round32 b with Some w => VFloat (widen32 (w mod 2 ^ 32)) | None => v end
          | _ => v
          end
      | Some BDouble => match to_double v with EOk b => VFloat (b mod 2 ^ 64) | _ => v end
      | _ => v
      end
  end.

Fixpoint norm (s : schema) (v : value) : value :=
  match s with
  | SLeaf t f nt => norm_leaf t f nt v
  | SArr _ it => match v with VArr l => VArr (map (norm it) l) | _ => v end
  | SObj _ ps =>
      match v with
      | VObj kv =>
          VObj ((fix go (ps : list prop) : list (key * value) :=
                   match ps with
                   | [] => []
                   | (k, m, sub) :: r =>
                       match (match lookup k kv with Some x => Some x | None => p_default m end) with
                       | Some x => (k, norm sub x) :: go r
                       | None => go r
                       end
                   end) ps)
      | _ => v
      end
  end.

End Codec.

(* ------------------------------------------------------------------ correspondence helpers *)

Fixpoint value_eqb (a b : value) {struct a} : bool :=
  match a, b with
  | VNull, VNull => true
  | VBool x, VBool y => Bool.eqb x y
  | VInt x, VInt y => x =? y
  | VFloat x, VFloat y => x =? y
  | VStr x, VStr y => zlist_eqb x y
  | VArr xs, VArr ys =>
      (fix go (xs ys : list value) {struct xs} : bool :=
         match xs, ys with
         | [], [] => true
         | x :: xs', y :: ys' => value_eqb x y && go xs' ys'
         | _, _ => false
         end) xs ys
  | VObj xs, VObj ys =>
      (fix go (xs ys : list (key * value)) {struct xs} : bool :=
         match xs, ys with
         | [], [] => true
         | (k, x) :: xs', (k', y) :: ys' => key_eqb k k' && value_eqb x y && go xs' ys'
         | _, _ => false
         end) xs ys
  | _, _ => false
  end.

Definition err_eqb (a b : err) : bool :=
  match a, b with
  | EValidation, EValidation | EStruct, EStruct | EValue, EValue | EKey, EKey
  | EOverflow, EOverflow | EAttr, EAttr | ESystem, ESystem | EOther, EOther => true
  | _, _ => false
  end.

(* what the implementation showed for one row *)
Inductive oenc := OB (l : list Z) | OE (e : err).
Inductive odec := OV (v : value) | ODE (e : err) | OHang | OSkip.

Definition rt_fuel (bs : list Z) : nat := S (S (length bs)).

(* [t] is the schema as the user wrote it; the implementation works on modify_schema(t) *)
Definition check_row (t : top) (v : value) (oe : oenc) (od : odec) : bool :=
  let mt := modify_top t in
  match validate_and_encode round32_impl mt v, oe with
  | EOk bs, OB l =>
      zlist_eqb bs l &&
      match decode_top widen32_impl (rt_fuel bs) mt bs, od with
      | _, OSkip => true
      | DOk v' _, OV w => value_eqb v' w
      | DShort, ODE EStruct => true
      | DErr EOther, ODE _ => true
      | DErr e, ODE e' => err_eqb e e'
      | DFuel, OHang => true
      | _, _ => false
      end
  | EErr EOther, OE _ => true
  | EErr e, OE e' => err_eqb e e'
  | _, _ => false
  end.

(* BaseTable.__setitem__ / append with a row object taken from another table or a tree sequence:
   row.metadata is the object decoded under the SOURCE schema; the destination table validates
   and encodes that object with ITS schema (tables.py 557-571, 584-600) *)
Definition transfer (round32 : Z -> option Z) (widen32 : Z -> Z) (src dst : top) (bs : list Z) : eres (list Z) :=
  match decode_top widen32 (rt_fuel bs) src bs with
  | DOk obj _ => validate_and_encode round32 dst obj
  | _ => EErr EOther
  end.

(* v is stored in the source table (schema src), the row object is assigned to / appended to a
   table with schema dst; (oe, od) = what the destination row then holds and shows *)
Definition check_transfer (src dst : top) (v : value) (oe : oenc) (od : odec) : bool :=
  let ms := modify_top src in
  match validate_and_encode round32_impl ms v with
  | EOk bs => match decode_top widen32_impl (rt_fuel bs) ms bs with
              | DOk obj _ => check_row dst obj oe od
              | _ => false
              end
  | EErr _ => false
  end.

(* decode of arbitrary bytes (no encode step) *)
Definition check_decode (t : top) (buf : list Z) (od : odec) : bool :=
  match decode_top widen32_impl (rt_fuel buf) (modify_top t) buf, od with
  | _, OSkip => true
  | DOk v' _, OV w => value_eqb v' w
  | DShort, ODE EStruct => true
  | DErr EOther, ODE _ => true
  | DErr e, ODE e' => err_eqb e e'
  | DFuel, OHang => true
  | _, _ => false
  end.

(* ------------------------------------------------------------------ MetadataSchema() *)
(* What the constructor does with a struct schema of the representable grammar
   (MetadataSchema.__init__ 779-818, StructCodec.__init__ 657-665, the three extra validators
   195-290).  The extra validators are reached only for the top-level object and its direct
   properties: the copy of the meta-schema under definitions/root (line 71) is taken before
   "$schema" is renamed (line 78), so jsonschema evaluates every nested node with the plain
   Draft7Validator, which has no such hooks.
     CSchemaErr = MetadataSchemaValidationError, CKeyErr = KeyError from make_encode/make_decode
     (sub_schema["binaryFormat"] at closure-construction time). *)
Inductive cres := CAccept | CSchemaErr | CKeyErr | CAttrErr.   (* CAttrErr = AttributeError *)

Definition cres_eqb (a b : cres) : bool :=
  match a, b with CAccept, CAccept | CSchemaErr, CSchemaErr | CKeyErr, CKeyErr | CAttrErr, CAttrErr => true | _, _ => false end.

Definition leaf_needs_format (s : schema) : bool :=
  match s with SLeaf TNull _ _ => false | SLeaf _ None _ => true | _ => false end.

Definition neg_length (s : schema) : bool :=
  match s with SArr (AFixed n) _ => n <? 0 | _ => false end.

(* some node (anywhere) is a non-null leaf without binaryFormat *)
Fixpoint missing_format (s : schema) : bool :=
  match s with
  | SLeaf _ _ _ => leaf_needs_format s
  | SArr _ it => missing_format it
  | SObj _ ps => existsb (fun p : prop => missing_format (snd p)) ps
  end.

(* a Pascal string with count 0 somewhere ("0p": pack writes nothing, unpack raises) *)
Fixpoint has_pas0 (s : schema) : bool :=
  match s with
  | SLeaf _ (Some (BPas n)) _ => n <=? 0
  | SLeaf _ _ _ => false
  | SArr _ it => has_pas0 it
  | SObj _ ps => existsb (fun p : prop => has_pas0 (snd p)) ps
  end.

(* null type with a binaryFormat that is not padding (binary_format_validator, every direct
   property since fix 92f0f20) *)
Definition null_nonpad (s : schema) : bool :=
  match s with
  | SLeaf TNull (Some (BPad _)) _ => false
  | SLeaf TNull (Some _) _ => true
  | _ => false
  end.

(* StructCodec.has_exhaust_array (fix 7f77db5) *)
Fixpoint has_exhaust (s : schema) : bool :=
  match s with
  | SLeaf _ _ _ => false
  | SArr AExhaust _ => true
  | SArr _ it => has_exhaust it
  | SObj _ ps => existsb (fun p : prop => has_exhaust (snd p)) ps
  end.

(* StructCodec.can_decode_empty (fix fd16390); struct.calcsize is never negative *)
Fixpoint can_decode_empty (s : schema) : bool :=
  match s with
  | SLeaf TNull None _ => true
  | SLeaf _ None _ => false
  | SLeaf _ (Some f) _ => bsize f <=? 0
  | SArr (AFixed n) it => (n <=? 0) || can_decode_empty it
  | SArr AExhaust _ => true
  | SArr (ALen _) _ => false
  | SObj _ ps => forallb (fun p : prop => can_decode_empty (snd p)) ps
  end.

Definition cthen (a : cres) (b : cres) : cres := match a with CAccept => b | e => e end.

(* make_encode at construction: struct.Struct("<" + sub_schema["binaryFormat"]) is built eagerly
   for numeric leaves only (the string encoder reads the key lazily) *)
Fixpoint mk_encode (s : schema) : cres :=
  match s with
  | SLeaf (TNumber | TInteger | TBoolean) None _ => CKeyErr
  | SLeaf _ _ _ => CAccept
  | SArr _ it => mk_encode it
  | SObj _ ps => fold_right (fun (p : prop) acc => cthen (mk_encode (snd p)) acc) CAccept ps
  end.

(* does a property other than the last one contain an exhaust-buffer array?
   (check_exhaust_array_is_last) *)
Fixpoint exhaust_before_last (ps : list prop) : bool :=
  match ps with
  | [] => false
  | [_] => false
  | p :: r => has_exhaust (snd p) || exhaust_before_last r
  end.

(* make_decode at construction, first error in traversal order:
   make_array_decode: nested-exhaust check, then the element decoder, then (exhaust mode only)
   the zero-width check; make_object_decode: last-property check, then the sub-decoders in
   property order; leaves read sub_schema["binaryFormat"] eagerly *)
Fixpoint mk_decode (s : schema) : cres :=
  match s with
  | SLeaf TNull _ _ => CAccept
  | SLeaf _ None _ => CKeyErr
  | SLeaf _ _ _ => CAccept
  | SArr m it =>
      if has_exhaust it then CSchemaErr
      else cthen (mk_decode it)
             (match m with
              | AExhaust => if can_decode_empty it then CSchemaErr else CAccept
              | _ => CAccept
              end)
  | SObj _ ps =>
      if exhaust_before_last ps then CSchemaErr
      else fold_right (fun (p : prop) acc => cthen (mk_decode (snd p)) acc) CAccept ps
  end.

(* the validators' verdict on the top-level object (unchanged by ordering) *)
Definition top_rules (req : option (list key)) (ps : list prop) : bool :=
  let req' := match req with
              | Some r => r
              | None => map pkey (filter (fun p : prop =>
                          match p_default (snd (fst p)) with None => true | Some _ => false end) ps)
              end in
  existsb (fun p : prop => leaf_needs_format (snd p)) ps          (* binary_format_validator *)
  || existsb (fun p : prop => null_nonpad (snd p)) ps             (* ... null must be padding *)
  || existsb (fun p : prop => neg_length (snd p)) ps              (* array_length_validator *)
  || existsb (fun p : prop => negb (key_in (pkey p) req') &&
                match p_default (snd (fst p)) with None => true | Some _ => false end) ps.  (* required_validator *)

(* Finding F9e, property names that collide with schema keywords.
   order_by_index recurses with do_sort = (key == "properties"): the sub-schema of a *property
   called "properties"* (at any depth) is therefore sorted as if it were a property map, and
   k_v[1].get("index", 0) hits its "type" string: AttributeError, before any validation.
   binary_format_validator looks at instance.values() of the root: the property map itself is one
   of them, and map.get("type") is then the sub-schema of a *property called "type"* — "not a
   composite type and no binaryFormat" unless a property called "binaryFormat" exists too. *)
Definition k_properties : key := [112; 114; 111; 112; 101; 114; 116; 105; 101; 115].
Definition k_type : key := [116; 121; 112; 101].
Definition k_binaryFormat : key := [98; 105; 110; 97; 114; 121; 70; 111; 114; 109; 97; 116].

Fixpoint has_prop_named (k : key) (s : schema) : bool :=
  match s with
  | SLeaf _ _ _ => false
  | SArr _ it => has_prop_named k it
  | SObj _ ps => existsb (fun p : prop => key_eqb (pkey p) k || has_prop_named k (snd p)) ps
  end.

(* MetadataSchema(): modify_schema, meta-schema + validators, then the codec is built from the
   *modified* (ordered) schema: make_encode, then make_decode *)
Definition construct (t : top) : cres :=
  match t_schema t with
  | SObj req ps =>
      if has_prop_named k_properties (t_schema t) then CAttrErr else
      if key_in k_type (map pkey ps) && negb (key_in k_binaryFormat (map pkey ps)) then CSchemaErr else
      (* the binaryFormat regex is plain JSON-schema, so it is applied at every depth;
         c12_pascal_zero_allowed is regenerated from the regex *)
      if negb c12_pascal_zero_allowed && has_pas0 (t_schema t) then CSchemaErr
      else if top_rules req ps then CSchemaErr
      else let s' := modify (t_schema t) in cthen (mk_encode s') (mk_decode s')
  | _ => CSchemaErr          (* top-level "type" must be object / [object, null] *)
  end.

(* the constructor as it was at the pinned commit 380c75d (before the fix: commits): no check on
   exhaust-buffer arrays, null formats checked only for a property called "null", "0p" accepted.
   Kept as a historical record for the *_pinned_refuted theorems. *)
Definition construct_pinned (t : top) : cres :=
  match t_schema t with
  | SObj req ps =>
      let req' := match req with
                  | Some r => r
                  | None => map pkey (filter (fun p : prop =>
                              match p_default (snd (fst p)) with None => true | Some _ => false end) ps)
                  end in
      if existsb (fun p : prop => leaf_needs_format (snd p)) ps then CSchemaErr
      else if existsb (fun p : prop => neg_length (snd p)) ps then CSchemaErr
      else if existsb (fun p : prop => negb (key_in (pkey p) req') &&
                         match p_default (snd (fst p)) with None => true | Some _ => false end) ps
           then CSchemaErr
      else if missing_format (t_schema t) then CKeyErr
      else CAccept
  | _ => CSchemaErr
  end.

(* ------------------------------------------------------------------ JSON codec *)
(* JSONCodec.decode (168-178): result = {} for empty bytes else json.loads(bytes); a dict gets
   dict(self.defaults, **result): the defaults' keys first (schema order), overridden by the
   row's values, then the row's remaining keys in their order.  json.loads is a parameter. *)

Definition json_fill (defaults kv : list (key * value)) : list (key * value) :=
  map (fun e : key * value =>
         (fst e, match lookup (fst e) kv with Some x => x | None => snd e end)) defaults
  ++ filter (fun e : key * value =>
               match lookup (fst e) defaults with Some _ => false | None => true end) kv.

Definition json_decode (json_loads : list Z -> option value) (defaults : list (key * value))
           (bytes : list Z) : option value :=
  match bytes with
  | [] => Some (VObj (json_fill defaults []))
  | _ => match json_loads bytes with
         | Some (VObj kv) => Some (VObj (json_fill defaults kv))
         | Some v => Some v
         | None => None
         end
  end.

(* ------------------------------------------------------------------ numpy_dtype *)
(* StructCodec.numpy_dtype (_process_schema_node / _convert_binary_format): the dtype *spec*
   handed to np.dtype, for the modified (ordered) schema.  FORMAT_TO_DTYPE is the regenerated
   table c12_format_to_dtype (format char -> kind char, itemsize).  numpy's own rule for a packed
   structured dtype (offset of a field = sum of the itemsizes before it; a sub-array is n
   consecutive items) is [dt_layout]; it is compared with the real dtype on every run. *)
Inductive dtype :=
| DLeaf (kind : Z) (size : Z)            (* 'i' 'u' 'f' '?' 'S' 'V' as ASCII codes *)
| DSub (n : Z) (d : dtype)
| DStruct (fs : list (key * dtype)).

Inductive nres := NOk (d : dtype) | NValueErr | NKeyErr.

Fixpoint lookup_fmt (c : Z) (tbl : list (Z * (Z * Z))) : option (Z * Z) :=
  match tbl with
  | [] => None
  | (c', e) :: r => if c =? c' then Some e else lookup_fmt c r
  end.

Definition np_leaf (t : jty) (f : option bfmt) : nres :=
  match (match t, f with TNull, None => Some (BPad 0) | _, _ => f end) with
  | None => NKeyErr                                   (* node["binaryFormat"] *)
  | Some (BPad n) => if n <? 0 then NValueErr else NOk (DLeaf 86 n)
  | Some (BStr n) => if n <? 0 then NValueErr else NOk (DLeaf 83 n)
  | Some (BPas _) => NValueErr                        (* Pascal strings are not supported *)
  | Some f => match lookup_fmt (bchar f) c12_format_to_dtype with
              | Some (kind, sz) => NOk (DLeaf kind sz)
              | None => NValueErr
              end
  end.

Inductive fres := FOk (fs : list (key * dtype)) | FErr (e : nres).

Fixpoint np_dtype (s : schema) : nres :=
  match s with
  | SLeaf t f _ => np_leaf t f
  | SArr (AFixed n) it =>
      match np_dtype it with
      | NOk d => if n <? 0 then NValueErr else NOk (DSub n d)
      | e => e
      end
  | SArr _ _ => NValueErr                             (* only fixed-length arrays *)
  | SObj _ ps =>
      match (fix go (ps : list prop) : fres :=
               match ps with
               | [] => FOk []
               | (k, _, sub) :: r =>
                   match np_dtype sub with
                   | NOk d => match go r with FOk fs => FOk ((k, d) :: fs) | FErr e => FErr e end
                   | e => FErr e
                   end
               end) ps with
      | FOk fs => NOk (DStruct fs)
      | FErr e => e
      end
  end.

Definition np_dtype_top (t : top) : nres :=
  if t_nullable t then NValueErr else np_dtype (t_schema t).

Fixpoint dt_itemsize (d : dtype) : Z :=
  match d with
  | DLeaf _ sz => sz
  | DSub n d => n * dt_itemsize d
  | DStruct fs => fold_right (fun (e : key * dtype) acc => dt_itemsize (snd e) + acc) 0 fs
  end.

(* leaves of the packed dtype in memory order: (offset, itemsize, kind) *)
Fixpoint dt_layout (d : dtype) (base : Z) : list (Z * Z * Z) :=
  match d with
  | DLeaf k sz => [(base, sz, k)]
  | DSub n d =>
      flat_map (fun i => dt_layout d (base + Z.of_nat i * dt_itemsize d)) (seq 0 (Z.to_nat n))
  | DStruct fs =>
      (fix go (fs : list (key * dtype)) (base : Z) : list (Z * Z * Z) :=
         match fs with
         | [] => []
         | (_, d) :: r => dt_layout d base ++ go r (base + dt_itemsize d)
         end) fs base
  end.

Definition layout_eqb (a b : list (Z * Z * Z)) : bool :=
  list_eqb (fun x y => (fst (fst x) =? fst (fst y)) && (snd (fst x) =? snd (fst y)) && (snd x =? snd y)) a b.

(* TreeSequence.<table>_metadata (trees.py: individuals_, nodes_, edges_, sites_, mutations_,
   migrations_, populations_metadata): the structured view of table k is built from the schema of
   table k — table_metadata_schemas.<k>.structured_array_from_buffer(column k) *)
Definition table_view (schemas : list top) (k : nat) : nres :=
  match nth_error schemas k with
  | Some t => np_dtype_top (modify_top t)
  | None => NValueErr
  end.
