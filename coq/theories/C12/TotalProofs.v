(* C12 — encode is total on the validated domain: under a schema obeying the struct rules, a
   valid object whose leaves are inside the documented range of their binaryFormat always
   encodes.  Together with struct_roundtrip this removes the "that encodes" hypothesis. *)
From Coq Require Import List ZArith Bool Lia.
From TskVerif Require Import Base.Common Gen.Generated C12.Model C12.BytesProofs C12.Unfold C12.ValidProofs
  C12.ShapeProofs C12.RoundTripProofs.
Import ListNotations.
Open Scope Z_scope.

Section Dom.
Variable round32 : Z -> option Z.
Variable widen32 : Z -> Z.
Notation encode := (encode round32).

(* the documented domain of a binaryFormat (docs/metadata.md): integers inside the C range,
   no floats into integer formats, binary32 without overflow, 'c' exactly one byte; the type must
   fit the format family *)
Definition leaf_domain (t : jty) (f : option bfmt) (v : value) : bool :=
  match t with
  | TNull => match f with None | Some (BPad _) => true | Some _ => false end
  | TString =>
      match f, v with
      | Some BChar, VStr s => Nat.eqb (length s) 1
      | Some (BStr _), VStr _ | Some (BPas _), VStr _ => true
      | _, _ => false
      end
  | TNumber | TInteger | TBoolean =>
      match f with
      | Some (BInt i) => match v with VInt z => in_range i z | VBool _ => true | _ => false end
      | Some BBool => true
      | Some BFloat => match to_double v with
                       | EOk b => match round32 b with Some _ => true | None => false end
                       | EErr _ => false
                       end
      | Some BDouble => match to_double v with EOk _ => true | EErr _ => false end
      | _ => false
      end
  end.

Definition domain_fields (D : schema -> value -> bool) (kv : list (key * value)) : list prop -> bool :=
  fix go (ps : list prop) : bool :=
    match ps with
    | [] => true
    | (k, m, sub) :: r =>
        match (match lookup k kv with Some x => Some x | None => p_default m end) with
        | Some x => D sub x
        | None => true
        end && go r
    end.

Fixpoint in_domain (s : schema) (v : value) : bool :=
  match s with
  | SLeaf t f _ => leaf_domain t f v
  | SArr m it =>
      match v with
      | VArr l =>
          forallb (in_domain it) l &&
          match m with
          | AFixed n => Z.of_nat (length l) =? n
          | AExhaust => true
          | ALen f => Z.of_nat (length l) <? imod f
          end
      | _ => false
      end
  | SObj _ ps =>
      match v with
      | VObj kv =>
          (fix go (ps : list prop) : bool :=
             match ps with
             | [] => true
             | (k, m, sub) :: r =>
                 match (match lookup k kv with Some x => Some x | None => p_default m end) with
                 | Some x => in_domain sub x
                 | None => true
                 end && go r
             end) ps
      | _ => false
      end
  end.

Lemma in_domain_obj_eq req ps kv : in_domain (SObj req ps) (VObj kv) = domain_fields in_domain kv ps.
Proof. reflexivity. Qed.

Lemma leaf_total t f nt v :
  valid (SLeaf t f nt) v = true -> leaf_domain t f v = true -> exists bs, encode_leaf round32 t f v = EOk bs.
Proof.
  cbn [valid]. intros Hv Hd.
  destruct t; cbn [leaf_domain encode_leaf] in *.
  1-3: destruct f as [[i| | | | |n|n|n]|]; try discriminate Hd; cbn [pack_num];
    [ destruct v; try discriminate Hd; [eauto | rewrite Hd; eauto]
    | eauto
    | unfold ebind; destruct (to_double v); [|discriminate Hd]; destruct (round32 a); [eauto|discriminate Hd]
    | unfold ebind; destruct (to_double v); [eauto|discriminate Hd] ].
  - destruct f as [[i| | | | |n|n|n]|]; try discriminate Hd; destruct v; try discriminate Hd; cbn [pack_str].
    + destruct s as [|c [|]]; try discriminate Hd. eauto.
    + eauto.
    + destruct (n <=? 0); eauto.
  - destruct f as [[i| | | | |n|n|n]|]; try discriminate Hd; eauto.
Qed.

Lemma list_total (enc : value -> eres (list Z)) l :
  Forall (fun x => exists bs, enc x = EOk bs) l -> exists bs, encode_list enc l = EOk bs.
Proof.
  induction 1 as [|x r [bx Hx] _ [br Hr]]; [eexists; reflexivity|].
  cbn [encode_list]. fold (encode_list enc). unfold ebind. rewrite Hx, Hr. eauto.
Qed.

(* encode totality on the validated domain *)
Theorem encode_total s : shape_ok s = true ->
  forall v, valid s v = true -> in_domain s v = true -> exists bs, encode s v = EOk bs.
Proof.
  induction s as [t f nt | m it IH | req ps IH] using schema_ind'; intros Hs v Hv Hd.
  - eapply leaf_total; eauto.
  - destruct v as [| | | | |l|]; try discriminate Hv.
    cbn [shape_ok] in Hs. cbn [valid] in Hv. cbn [in_domain] in Hd.
    apply andb_true_iff in Hd as [Hdl Hm]. rewrite forallb_forall in Hv, Hdl.
    rewrite encode_arr_eq.
    destruct (list_total (encode it) l) as [body Hb].
    { apply Forall_forall. intros x Hx. apply IH; auto. }
    destruct m as [n| |f]; rewrite ?Hm; unfold ebind; rewrite Hb; eauto.
  - destruct v as [| | | | | |kv]; try discriminate Hv.
    rewrite valid_obj_eq in Hv. apply andb_true_iff in Hv as [Hv Hvf]. apply andb_true_iff in Hv as [Hr _].
    rewrite forallb_forall in Hr.
    pose proof (shape_ok_props _ _ Hs) as Hps.
    cbn [shape_ok] in Hs. rewrite forallb_forall in Hs.
    rewrite in_domain_obj_eq in Hd. rewrite encode_obj_eq.
    assert (G : forall qs, (forall p, In p qs -> In p ps) -> valid_fields valid kv qs = true ->
                           domain_fields in_domain kv qs = true ->
                           exists bs, encode_fields encode kv qs = EOk bs).
    { induction qs as [|[[k m] sub] r IHq]; intros Hsub Hvq Hdq; [eexists; reflexivity|].
      cbn [valid_fields] in Hvq. fold (valid_fields valid kv) in Hvq. apply andb_true_iff in Hvq as [Hvx Hvr].
      cbn [domain_fields] in Hdq. fold (domain_fields in_domain kv) in Hdq. apply andb_true_iff in Hdq as [Hdx Hdr].
      assert (Hin : In (k, m, sub) ps) by (apply Hsub; left; reflexivity).
      destruct (IHq (fun p Hp => Hsub p (or_intror Hp)) Hvr Hdr) as [br Hbr].
      rewrite Forall_forall in IH, Hps. specialize (IH _ Hin). destruct (Hps _ Hin) as [Hsh Hdv].
      cbn [fst snd] in *. specialize (IH Hsh).
      cbn [encode_fields]. fold (encode_fields encode kv). unfold ebind.
      destruct (lookup k kv) as [x|] eqn:Lk.
      - destruct (IH x Hvx Hdx) as [bx Hbx]. rewrite Hbx, Hbr. eauto.
      - destruct (p_default m) as [d|] eqn:Dm.
        + destruct (IH d (Hdv d eq_refl) Hdx) as [bx Hbx]. rewrite Hbx, Hbr. eauto.
        + (* absent, no default: it is required, and validation saw it missing *)
          exfalso. specialize (Hs _ Hin). cbn [fst snd] in Hs. unfold pkey in Hs; cbn [fst] in Hs.
          apply andb_true_iff in Hs as [Hs _]. apply andb_true_iff in Hs as [_ Hreq].
          rewrite Dm, orb_false_r in Hreq. apply key_in_spec in Hreq.
          unfold req_of in Hreq. destruct req as [rq|]; [|destruct Hreq].
          specialize (Hr k Hreq). rewrite Lk in Hr. discriminate. }
    apply G; auto.
Qed.

(* round trip without the "that encodes" hypothesis *)
Theorem struct_roundtrip_total s :
  rt_ok s = true -> shape_ok s = true ->
  forall v, valid s v = true -> in_domain s v = true ->
  exists bs, encode s v = EOk bs /\
             forall fuel rest, decode widen32 fuel s (bs ++ rest) = DOk (norm round32 widen32 s v) rest.
Proof.
  intros Hok Hsh v Hv Hd. destruct (encode_total s Hsh v Hv Hd) as [bs Hb].
  exists bs. split; auto. intros fuel rest. apply struct_roundtrip_gen; auto.
Qed.

End Dom.

Example encode_total_ex :
  in_domain round32_impl (modify ex_schema) ex_value = true /\
  (* out of the 'h' range: outside the domain *)
  in_domain round32_impl (SLeaf TInteger (Some (BInt Ih)) 0%nat) (VInt 40000) = false /\
  (* 3.0 validates as a JSON integer but is not packable by an integer format *)
  valid (SLeaf TInteger (Some (BInt Ih)) 0%nat) (VFloat 4613937818241073152) = true /\
  in_domain round32_impl (SLeaf TInteger (Some (BInt Ih)) 0%nat) (VFloat 4613937818241073152) = false.
Proof. vm_compute. auto. Qed.
