(* C12 — noLengthEncodingExhaustBuffer arrays: termination of decode, and the two ways the
   code that exists violates the property (finding F9). *)
From Coq Require Import List ZArith Bool Lia.
From TskVerif Require Import Base.Common Gen.Generated C12.Model C12.BytesProofs C12.Unfold C12.ValidProofs C12.ShapeProofs
  C12.RoundTripProofs.
Import ListNotations.
Open Scope Z_scope.

(* ------------------------------------------------------------ F9a: divergence *)

(* array_decode_exhaust leaves its loop only through an exception of the element decoder.
   An element decoder that never fails never lets it stop: every amount of fuel runs out. *)
Lemma decode_exhaust_never_stops (d : list Z -> dres) :
  (forall buf, exists v rest, d buf = DOk v rest) ->
  forall k buf acc, decode_exhaust d k buf acc = DFuel.
Proof.
  intros H k; induction k; intros buf acc; [reflexivity|].
  cbn [decode_exhaust]. destruct (H buf) as (v & rest & ->). apply IHk.
Qed.

(* {"codec":"struct","type":"object","properties":
     {"z":{"type":"array","items":{"type":"null"},"noLengthEncodingExhaustBuffer":true}}} *)
Definition zw_schema : schema :=
  SObj None [([122], {| p_index := 0; p_default := None |}, SArr AExhaust (SLeaf TNull None 0%nat))].
Definition zw_top : top := modify_top {| t_nullable := false; t_schema := zw_schema |}.

(* Historical record (finding F9a, fixed by fd16390).  For the constructor of the pinned commit
   the statement "decode terminates" was false: there is a schema, and
   a valid object that encodes (to b""), such that decode_row runs out of every fuel on every
   buffer — in Python: `while True: ret.append(element_decoder(buffer))` never raises. *)
Theorem exhaust_zero_width_diverges_pinned_refuted :
  exists (t0 : top) (v : value),
    let t := modify_top t0 in
    construct_pinned t0 = CAccept /\          (* the pinned MetadataSchema() took the schema *)
    construct t0 = CSchemaErr /\              (* since fd16390 it is refused *)
    validate_and_encode round32_impl t v = EOk [] /\
    forall fuel buf, decode_top widen32_impl fuel t buf = DFuel.
Proof.
  exists {| t_nullable := false; t_schema := zw_schema |}, (VObj [([122], VArr [])]).
  split; [reflexivity|]. split; [reflexivity|]. split; [reflexivity|].
  change (modify_top {| t_nullable := false; t_schema := zw_schema |}) with zw_top.
  intros fuel buf. unfold decode_top, zw_top, modify_top. cbn [t_nullable t_schema].
  change (modify zw_schema) with
    (SObj (Some [[122]]) [([122], {| p_index := 0; p_default := None |}, SArr AExhaust (SLeaf TNull None 0%nat))]).
  rewrite decode_obj_eq. cbn [decode_fields]. rewrite decode_arr_eq.
  rewrite decode_exhaust_never_stops; [reflexivity|].
  intros b. exists VNull, b. reflexivity.
Qed.

(* the same for the other zero-width items of the finding: '0s', '0x', an empty object,
   a length-0 array, a nested exhaust array *)
Lemma leaf_zero_width_never_fails widen32 t f nt :
  (t = TNull /\ (f = None \/ f = Some (BPad 0))) \/ (t = TString /\ f = Some (BStr 0)) ->
  forall buf, exists v rest, decode_leaf widen32 t f nt buf = DOk v rest.
Proof.
  intros [[-> [-> | ->]] | [-> ->]] buf; cbn [decode_leaf bsize].
  - eauto.
  - unfold take. simpl. eauto.
  - unfold take. simpl. destruct nt; eauto.
Qed.

Lemma decode_exhaust_not_short (d : list Z -> dres) k buf acc : decode_exhaust d k buf acc <> DShort.
Proof.
  revert buf acc; induction k; intros buf acc; [discriminate|].
  cbn [decode_exhaust]. destruct (d buf); try discriminate. apply IHk.
Qed.

(* an exhaust array never raises the short-read error itself, so an exhaust array of exhaust
   arrays diverges as well unless an inner element fails otherwise *)
Lemma exhaust_never_short widen32 fuel it buf :
  decode widen32 fuel (SArr AExhaust it) buf <> DShort.
Proof. rewrite decode_arr_eq. apply decode_exhaust_not_short. Qed.

(* ------------------------------------------------------------ F9b: not in tail position *)

(* {"a": exhaust array of "B", "z": "i"} with {"a":[1,2],"z":7}: the array swallows z's bytes *)
Definition nontail_schema : schema :=
  SObj None [([97], {| p_index := 0; p_default := None |}, SArr AExhaust (SLeaf TInteger (Some (BInt IB)) 0%nat));
             ([122], {| p_index := 0; p_default := None |}, SLeaf TInteger (Some (BInt Ii)) 0%nat)].
Definition nontail_top : top := modify_top {| t_nullable := false; t_schema := nontail_schema |}.
Definition nontail_value : value := VObj [([97], VArr [VInt 1; VInt 2]); ([122], VInt 7)].

(* Historical record (finding F9b, fixed by 7f77db5) *)
Theorem exhaust_nontail_pinned_refuted :
  exists (t0 : top) (v : value) (bs : list Z),
    let t := modify_top t0 in
    construct_pinned t0 = CAccept /\ construct t0 = CSchemaErr /\
    validate_and_encode round32_impl t v = EOk bs /\
    forall fuel, decode_top widen32_impl fuel t bs <> DOk (norm_top round32_impl widen32_impl t v) [].
Proof.
  exists {| t_nullable := false; t_schema := nontail_schema |}, nontail_value, [1; 2; 7; 0; 0; 0].
  split; [reflexivity|]. split; [reflexivity|]. split; [reflexivity|].
  change (modify_top {| t_nullable := false; t_schema := nontail_schema |}) with nontail_top.
  intros fuel.
  do 8 (destruct fuel as [|fuel]; [vm_compute; discriminate|]).
  vm_compute. discriminate.
Qed.

(* what actually happens there: struct.error from the field after the array *)
Example exhaust_nontail_short :
  decode_top widen32_impl 9 nontail_top [1; 2; 7; 0; 0; 0] = DShort.
Proof. reflexivity. Qed.

(* ------------------------------------------------------------ (c) termination *)

Definition leaf_min (f : option bfmt) : nat :=
  match f with None => 0%nat | Some f => Z.to_nat (bsize f) end.

Definition fields_min (W : schema -> nat) : list prop -> nat :=
  fix go (ps : list prop) : nat :=
    match ps with [] => 0%nat | p :: r => (W (snd p) + go r)%nat end.

(* a lower bound on the bytes one successful decode of s consumes *)
Fixpoint min_width (s : schema) : nat :=
  match s with
  | SLeaf _ f _ => leaf_min f
  | SArr (AFixed n) it => (Z.to_nat n * min_width it)%nat
  | SArr AExhaust _ => 0%nat
  | SArr (ALen f) _ => isize f
  | SObj _ ps => (fix go (ps : list prop) : nat :=
                    match ps with [] => 0%nat | p :: r => (min_width (snd p) + go r)%nat end) ps
  end.

Lemma min_width_obj req ps : min_width (SObj req ps) = fields_min min_width ps.
Proof. reflexivity. Qed.

(* the exhaust loop is safe when every element is at least one byte wide *)
Fixpoint zw_free (s : schema) : bool :=
  match s with
  | SLeaf _ _ _ => true
  | SArr AExhaust it => (0 <? min_width it)%nat && zw_free it
  | SArr _ it => zw_free it
  | SObj _ ps => forallb (fun p : prop => zw_free (snd p)) ps
  end.

Section Term.
Variable widen32 : Z -> Z.
Notation decode := (decode widen32).

Lemma decode_leaf_consumes t f nt buf v rest :
  decode_leaf widen32 t f nt buf = DOk v rest -> (length rest + leaf_min f <= length buf)%nat.
Proof.
  unfold decode_leaf, leaf_min. intros H.
  destruct t; destruct f as [f|]; try discriminate H.
  1-4: destruct (take (bsize f) buf) as [[a r]|] eqn:T; [|discriminate H];
    apply take_some in T as [-> Hl];
    assert (rest = r) by (destruct f; try discriminate H; try (injection H; auto; fail);
                          destruct (n <=? 0); try discriminate H; injection H; auto);
    subst; rewrite app_length; lia.
  - destruct f; try discriminate H.
    destruct (take n buf) as [[a r]|] eqn:T; [|discriminate H].
    apply take_some in T as [-> Hl]. injection H as _ <-. rewrite app_length. cbn [bsize]. lia.
  - injection H as _ <-. lia.
Qed.

Lemma decode_leaf_no_fuel t f nt buf : decode_leaf widen32 t f nt buf <> DFuel.
Proof.
  unfold decode_leaf.
  destruct t; destruct f as [f|]; try discriminate;
    try (destruct (take (bsize f) buf) as [[a r]|]; [|discriminate];
         destruct f; try discriminate; destruct (n <=? 0); discriminate).
  destruct f; try discriminate. destruct (take n buf) as [[a r]|]; discriminate.
Qed.

Lemma decode_n_consumes (d : list Z -> dres) w :
  (forall b v r, d b = DOk v r -> (length r + w <= length b)%nat) ->
  forall n buf acc v rest, decode_n d n buf acc = DOk v rest -> (length rest + n * w <= length buf)%nat.
Proof.
  intros Hd n; induction n; intros buf acc v rest H.
  - injection H as _ <-. lia.
  - cbn [decode_n] in H. destruct (d buf) as [x r| | |] eqn:E; try discriminate H.
    apply Hd in E. apply IHn in H. lia.
Qed.

Lemma decode_exhaust_rest (d : list Z -> dres) k buf acc v rest :
  decode_exhaust d k buf acc = DOk v rest -> rest = [].
Proof.
  revert buf acc; induction k; intros buf acc H; [discriminate|].
  cbn [decode_exhaust] in H. destruct (d buf); try discriminate H; eauto.
  injection H; auto.
Qed.

Lemma decode_fields_consumes (D : schema -> list Z -> dres) (W : schema -> nat) ps :
  Forall (fun p : prop => forall b v r, D (snd p) b = DOk v r -> (length r + W (snd p) <= length b)%nat) ps ->
  forall buf acc v rest, decode_fields D ps buf acc = DOk v rest ->
  (length rest + fields_min W ps <= length buf)%nat.
Proof.
  induction 1 as [|[[k m] sub] r Hp _ IH]; intros buf acc v rest H.
  - injection H as _ <-. simpl. lia.
  - cbn [decode_fields] in H. fold (decode_fields D) in H. cbn [snd] in Hp.
    destruct (D sub buf) as [x b'| | |] eqn:E; try discriminate H.
    apply Hp in E. apply IH in H. cbn [fields_min snd]. fold (fields_min W). lia.
Qed.

(* decode consumes at least min_width bytes and never invents any *)
Theorem decode_consumes s : forall fuel buf v rest,
  decode fuel s buf = DOk v rest -> (length rest + min_width s <= length buf)%nat.
Proof.
  induction s as [t f nt | m it IH | req ps IH] using schema_ind'; intros fuel buf v rest H.
  - eapply decode_leaf_consumes; eauto.
  - rewrite decode_arr_eq in H. destruct m as [n| |f].
    + rewrite decode_count_spec in H. eapply decode_n_consumes in H; eauto.
    + apply decode_exhaust_rest in H. subst. simpl. lia.
    + destruct (take (Z.of_nat (isize f)) buf) as [[a r]|] eqn:T; [|discriminate H].
      apply take_some in T as [-> Hl]. rewrite decode_count_spec in H.
      eapply decode_n_consumes with (w := 0%nat) in H.
      * rewrite app_length. cbn [min_width]. lia.
      * intros b x r' E. apply IH in E. lia.
  - rewrite decode_obj_eq in H. rewrite min_width_obj.
    eapply decode_fields_consumes; eauto.
    eapply Forall_impl; [|exact IH]. intros p Hp b x r E. eapply Hp; eauto.
Qed.

Lemma decode_n_no_fuel (d : list Z -> dres) B :
  (forall b, (length b <= B)%nat -> d b <> DFuel) ->
  (forall b v r, d b = DOk v r -> (length r <= length b)%nat) ->
  forall n buf acc, (length buf <= B)%nat -> decode_n d n buf acc <> DFuel.
Proof.
  intros Hf Hc n; induction n; intros buf acc HB; [discriminate|].
  cbn [decode_n]. destruct (d buf) as [x r| | |] eqn:E; try discriminate.
  - apply IHn. apply Hc in E. lia.
  - exfalso. eapply Hf; eauto.
Qed.

Lemma decode_exhaust_no_fuel (d : list Z -> dres) B :
  (forall b, (length b <= B)%nat -> d b <> DFuel) ->
  (forall b v r, d b = DOk v r -> (length r < length b)%nat) ->
  forall k buf acc, (length buf <= B)%nat -> (length buf < k)%nat -> decode_exhaust d k buf acc <> DFuel.
Proof.
  intros Hf Hc k; induction k; intros buf acc HB Hk; [lia|].
  cbn [decode_exhaust]. destruct (d buf) as [x r| | |] eqn:E; try discriminate.
  - apply Hc in E. apply IHk; lia.
  - exfalso. eapply Hf; eauto.
Qed.

Lemma decode_fields_no_fuel (D : schema -> list Z -> dres) B ps :
  Forall (fun p : prop => (forall b, (length b <= B)%nat -> D (snd p) b <> DFuel) /\
                          (forall b v r, D (snd p) b = DOk v r -> (length r <= length b)%nat)) ps ->
  forall buf acc, (length buf <= B)%nat -> decode_fields D ps buf acc <> DFuel.
Proof.
  induction 1 as [|[[k m] sub] r [Hf Hc] _ IH]; intros buf acc HB; [discriminate|].
  cbn [decode_fields]. fold (decode_fields D). cbn [snd] in *.
  destruct (D sub buf) as [x b'| | |] eqn:E; try discriminate.
  - apply IH. apply Hc in E. lia.
  - exfalso. eapply Hf; eauto.
Qed.

(* (c) decode_terminates: when no exhaust array has items that can be zero bytes wide, fuel
   just above the buffer length is enough — the fuel outcome never shows *)
Theorem decode_terminates s : zw_free s = true ->
  forall fuel buf, (length buf < fuel)%nat -> decode fuel s buf <> DFuel.
Proof.
  induction s as [t f nt | m it IH | req ps IH] using schema_ind'; intros Hz fuel buf Hl.
  - apply decode_leaf_no_fuel.
  - rewrite decode_arr_eq.
    assert (Hc : forall b v r, decode fuel it b = DOk v r -> (length r <= length b)%nat).
    { intros b v r E. apply decode_consumes in E. lia. }
    destruct m as [n| |f]; cbn [zw_free] in Hz.
    + rewrite decode_count_spec. apply decode_n_no_fuel with (B := length buf); auto.
      intros b Hb. apply IH; auto. lia.
    + apply andb_true_iff in Hz as [Hw Hz]. apply Nat.ltb_lt in Hw.
      apply decode_exhaust_no_fuel with (B := length buf); auto.
      * intros b Hb. apply IH; auto. lia.
      * intros b v r E. apply decode_consumes in E. lia.
    + destruct (take (Z.of_nat (isize f)) buf) as [[a r]|] eqn:T; [|discriminate].
      apply take_some in T as [-> _]. rewrite app_length in Hl.
      rewrite decode_count_spec. apply decode_n_no_fuel with (B := length r); auto.
      intros b Hb. apply IH; auto. lia.
  - rewrite decode_obj_eq. cbn [zw_free] in Hz. rewrite forallb_forall in Hz.
    apply decode_fields_no_fuel with (B := length buf); auto.
    rewrite Forall_forall in *. intros p Hp. split.
    + intros b Hb. apply IH; auto. lia.
    + intros b v r E. apply decode_consumes in E. lia.
Qed.

(* ---- the repaired constructor only accepts schemas on which decode terminates ---- *)

Lemma cthen_accept a b : cthen a b = CAccept -> a = CAccept /\ b = CAccept.
Proof. destruct a; simpl; intros H; try discriminate; auto. Qed.

Lemma fold_accept (F : schema -> cres) ps :
  fold_right (fun (p : prop) acc => cthen (F (snd p)) acc) CAccept ps = CAccept ->
  Forall (fun p : prop => F (snd p) = CAccept) ps.
Proof.
  induction ps as [|p r IH]; simpl; intros H; constructor.
  - apply cthen_accept in H. tauto.
  - apply IH. apply cthen_accept in H. tauto.
Qed.

Lemma mk_decode_obj req ps : mk_decode (SObj req ps) = CAccept ->
  Forall (fun p : prop => mk_decode (snd p) = CAccept) ps.
Proof.
  cbn [mk_decode]. destruct (exhaust_before_last ps); [discriminate|]. apply fold_accept.
Qed.

Lemma mk_decode_arr m it : mk_decode (SArr m it) = CAccept ->
  mk_decode it = CAccept /\ (m = AExhaust -> can_decode_empty it = false).
Proof.
  cbn [mk_decode]. destruct (has_exhaust it); [discriminate|]. intros H.
  apply cthen_accept in H as [H1 H2]. split; auto. intros ->.
  destruct (can_decode_empty it); [discriminate|reflexivity].
Qed.

(* an accepted schema that cannot be decoded from an empty buffer is at least one byte wide *)
Lemma accepted_nonempty_width s :
  mk_decode s = CAccept -> can_decode_empty s = false -> (0 < min_width s)%nat.
Proof.
  induction s as [t f nt | m it IH | req ps IH] using schema_ind'; intros Ha Hc.
  - cbn [min_width leaf_min]. destruct t; destruct f as [f|]; cbn [can_decode_empty mk_decode] in *;
      try discriminate; apply Z.leb_gt in Hc; unfold leaf_min; lia.
  - apply mk_decode_arr in Ha as [Ha _]. cbn [can_decode_empty min_width] in *.
    destruct m as [n| |f]; try discriminate.
    + apply orb_false_iff in Hc as [Hn Hc]. apply Z.leb_gt in Hn. specialize (IH Ha Hc). nia.
    + destruct f; simpl; lia.
  - apply mk_decode_obj in Ha. cbn [can_decode_empty] in Hc. rewrite min_width_obj.
    induction IH as [|p r Hp _ IHr]; [discriminate Hc|].
    inversion Ha as [|? ? Hap Har]; subst. cbn [forallb] in Hc. cbn [fields_min]. fold (fields_min min_width).
    destruct (can_decode_empty (snd p)) eqn:E.
    + specialize (IHr Har Hc). lia.
    + specialize (Hp Hap eq_refl). lia.
Qed.

Lemma accepted_zw_free s : mk_decode s = CAccept -> zw_free s = true.
Proof.
  induction s as [t f nt | m it IH | req ps IH] using schema_ind'; intros Ha; auto.
  - apply mk_decode_arr in Ha as [Ha Hm]. specialize (IH Ha).
    destruct m as [n| |f]; cbn [zw_free]; auto.
    rewrite IH, andb_true_r. apply Nat.ltb_lt. apply accepted_nonempty_width; auto.
  - apply mk_decode_obj in Ha. cbn [zw_free]. apply forallb_forall. intros p Hp.
    rewrite Forall_forall in IH, Ha. auto.
Qed.

(* (c) for the repaired code: decode_row terminates under EVERY schema MetadataSchema() accepts —
   no caveat about zero-width items is left (it is discharged by the constructor) *)
Theorem accepted_decode_terminates t :
  construct t = CAccept ->
  forall fuel buf, (length buf < fuel)%nat -> decode_top widen32 fuel (modify_top t) buf <> DFuel.
Proof.
  unfold construct. intros Hc fuel buf Hl.
  destruct (t_schema t) as [| |req ps] eqn:Es; try discriminate.
  destruct (has_prop_named k_properties (SObj req ps)); [discriminate|].
  destruct (key_in k_type (map pkey ps) && negb (key_in k_binaryFormat (map pkey ps))); [discriminate|].
  destruct (negb c12_pascal_zero_allowed && has_pas0 (SObj req ps)); [discriminate|].
  destruct (top_rules req ps); [discriminate|].
  apply cthen_accept in Hc as [_ Hd]. apply accepted_zw_free in Hd.
  unfold decode_top, modify_top. cbn [t_nullable t_schema]. rewrite Es.
  destruct (t_nullable t); [destruct buf; [discriminate|]|]; apply decode_terminates; auto.
Qed.

End Term.

(* non-vacuity: a tail exhaust array of 1-byte items satisfies zw_free and decodes *)
Example decode_terminates_ex :
  let s := SObj None [([97], {| p_index := 0; p_default := None |}, SLeaf TInteger (Some (BInt Ih)) 0%nat);
                      ([122], {| p_index := 0; p_default := None |}, SArr AExhaust (SLeaf TInteger (Some (BInt IB)) 0%nat))] in
  zw_free s = true /\
  decode widen32_impl 6 s [255; 255; 1; 2; 3] =
    DOk (VObj [([97], VInt (-1)); ([122], VArr [VInt 1; VInt 2; VInt 3])]) [] /\
  zw_free zw_schema = false.
Proof. vm_compute. auto. Qed.

(* ------------------------------------------------------------ exhaust arrays used as documented *)
(* "an array with this option must be the last type in the encoded struct", items at least one
   byte wide: then the round trip holds. *)

Section Tail.
Variable round32 : Z -> option Z.
Variable widen32 : Z -> Z.
Notation encode := (encode round32).
Notation decode := (decode widen32).
Notation norm := (norm round32 widen32).

Lemma take_nil n : 0 < n -> take n [] = None.
Proof. intros. unfold take. destruct (Nat.ltb_spec (@length Z []) (Z.to_nat n)); auto. simpl in *. lia. Qed.

Lemma take_nil0 : take 0 [] = Some ([], []).
Proof. reflexivity. Qed.

Lemma decode_n_nil (d : list Z -> dres) n acc :
  d [] = DShort \/ (exists v, d [] = DOk v []) ->
  (d [] = DShort /\ (0 < n)%nat /\ decode_n d n [] acc = DShort) \/
  (exists v, decode_n d n [] acc = DOk v [] /\ (n = 0%nat \/ exists x, d [] = DOk x [])).
Proof.
  intros [Hs | [x Hx]].
  - destruct n; [right; eexists; split; [reflexivity|auto] | left]. cbn [decode_n]. rewrite Hs. repeat split; auto; lia.
  - right. revert acc; induction n; intros acc.
    + eexists; split; [reflexivity|auto].
    + cbn [decode_n]. rewrite Hx. destruct (IHn (x :: acc)) as (v & Hv & _). eauto.
Qed.

(* on the empty buffer a round-trippable schema either fails with the short-read error or is
   zero bytes wide *)
Lemma decode_empty s : rt_ok s = true -> forall fuel,
  decode fuel s [] = DShort \/ (exists v, decode fuel s [] = DOk v [] /\ min_width s = 0%nat).
Proof.
  induction s as [t f nt | m it IH | req ps IH] using schema_ind'; intros Hok fuel.
  - cbn [rt_ok] in Hok. cbn [decode min_width].
    destruct t; destruct f as [f|]; try discriminate Hok; cbn [leaf_ok] in Hok;
      try (destruct f as [i| | | | |n|n|n]; try discriminate Hok).
    all: cbn [decode_leaf bsize leaf_min].
    all: try (left; rewrite take_nil by (try destruct i; simpl; lia); reflexivity).
    + (* BStr n *) apply Z.leb_le in Hok. destruct (Z.eq_dec n 0) as [->|].
      * right. rewrite take_nil0. destruct nt; eauto.
      * left. rewrite take_nil by lia. reflexivity.
    + (* BPad n *) apply Z.leb_le in Hok. destruct (Z.eq_dec n 0) as [->|].
      * right. rewrite take_nil0. eauto.
      * left. rewrite take_nil by lia. reflexivity.
    + right. eauto.
  - destruct m as [n| |f]; [| discriminate Hok |]; cbn [rt_ok] in Hok; rewrite decode_arr_eq.
    + rewrite decode_count_spec. cbn [min_width].
      destruct (IH Hok fuel) as [Hs | (x & Hx & Hw)].
      * destruct (decode_n_nil (decode fuel it) (Z.to_nat n) [] (or_introl Hs)) as [(_ & _ & H)|(v & H & [Hn|[y Hy]])].
        -- left; auto.
        -- right. exists v. split; auto. rewrite Hn. reflexivity.
        -- congruence.
      * destruct (decode_n_nil (decode fuel it) (Z.to_nat n) [] (or_intror (ex_intro _ x Hx))) as [(H & _)|(v & H & _)].
        -- congruence.
        -- right. exists v. split; auto. rewrite Hw. lia.
    + left. rewrite take_nil by (destruct f; simpl; lia). reflexivity.
  - cbn [rt_ok] in Hok. rewrite decode_obj_eq, min_width_obj.
    generalize (@nil (key * value)).
    induction IH as [|[[k m] sub] r Hp _ IHr]; intros acc.
    + right. eexists. split; reflexivity.
    + cbn [forallb snd] in Hok. apply andb_true_iff in Hok as [H1 H2].
      cbn [decode_fields fields_min snd]. fold (decode_fields (decode fuel)). fold (fields_min min_width).
      cbn [snd] in Hp. destruct (Hp H1 fuel) as [-> | (x & -> & ->)]; [left; reflexivity|].
      apply IHr; auto.
Qed.

Lemma encode_min_width s : rt_ok s = true -> shape_ok s = true -> forall v bs,
  valid s v = true -> encode s v = EOk bs -> (min_width s <= length bs)%nat.
Proof.
  intros Hok Hsh v bs Hv He.
  pose proof (struct_roundtrip_gen round32 widen32 s Hok Hsh 0%nat v bs [] Hv He) as H.
  rewrite app_nil_r in H. apply decode_consumes in H. simpl in H. lia.
Qed.

Lemma exhaust_loop_roundtrip it fuel : rt_ok it = true -> shape_ok it = true -> (0 < min_width it)%nat ->
  forall l bs k acc,
    forallb (valid it) l = true ->
    encode_list (encode it) l = EOk bs -> (length l < k)%nat ->
    decode_exhaust (decode fuel it) k bs acc = DOk (VArr (rev acc ++ map (norm it) l)) [].
Proof.
  intros Hok Hsh Hw l; induction l as [|x r IH]; intros bs k acc Hv He Hk.
  - injection He as <-. destruct k; [lia|]. cbn [decode_exhaust].
    destruct (decode_empty it Hok fuel) as [-> | (v & _ & H0)]; [|lia].
    simpl. rewrite app_nil_r. reflexivity.
  - cbn [forallb] in Hv. apply andb_true_iff in Hv as [Hvx Hvr].
    cbn [encode_list] in He. fold (encode_list (encode it)) in He. unfold ebind in He.
    destruct (encode it x) as [bx|] eqn:Ex; [|discriminate He].
    destruct (encode_list (encode it) r) as [br|] eqn:Er; [|discriminate He].
    injection He as <-. destruct k; [simpl in Hk; lia|]. cbn [decode_exhaust].
    rewrite (struct_roundtrip_gen round32 widen32 it Hok Hsh fuel x bx br Hvx Ex).
    rewrite (IH br k (norm it x :: acc) Hvr eq_refl) by (simpl in Hk; lia).
    cbn [rev map]. rewrite <- app_assoc. reflexivity.
Qed.

Lemma encode_list_length it l bs : rt_ok it = true -> shape_ok it = true -> (0 < min_width it)%nat ->
  forallb (valid it) l = true ->
  encode_list (encode it) l = EOk bs -> (length l <= length bs)%nat.
Proof.
  intros Hok Hsh Hw; revert bs; induction l as [|x r IH]; intros bs Hv He; [simpl; lia|].
  cbn [forallb] in Hv. apply andb_true_iff in Hv as [Hvx Hvr].
  cbn [encode_list] in He. fold (encode_list (encode it)) in He. unfold ebind in He.
  destruct (encode it x) as [bx|] eqn:Ex; [|discriminate He].
  destruct (encode_list (encode it) r) as [br|] eqn:Er; [|discriminate He].
  injection He as <-. pose proof (encode_min_width it Hok Hsh x bx Hvx Ex). specialize (IH br Hvr eq_refl).
  rewrite app_length. simpl. lia.
Qed.

Lemma decode_fields_app (D : schema -> list Z -> dres) ps qs : forall buf acc,
  decode_fields D (ps ++ qs) buf acc =
  match decode_fields D ps buf acc with
  | DOk (VObj kv) rest => decode_fields D qs rest (rev kv)
  | r => r
  end.
Proof.
  induction ps as [|[[k m] sub] r IH]; intros buf acc.
  - simpl. rewrite rev_involutive. reflexivity.
  - cbn [app decode_fields]. fold (decode_fields D).
    destruct (D sub buf); auto.
Qed.

Lemma encode_fields_app (E : schema -> value -> eres (list Z)) kv ps qs :
  encode_fields E kv (ps ++ qs) =
  ebind (encode_fields E kv ps) (fun a => ebind (encode_fields E kv qs) (fun b => EOk (a ++ b))).
Proof.
  induction ps as [|[[k m] sub] r IH].
  - simpl. destruct (encode_fields E kv qs); reflexivity.
  - cbn [app encode_fields]. fold (encode_fields E kv). rewrite IH. unfold ebind.
    match goal with |- context [lookup k kv] => idtac end.
    set (X := match lookup k kv with Some x => _ | None => _ end). destruct X; auto.
    destruct (encode_fields E kv r); auto.
    destruct (encode_fields E kv qs); auto. rewrite app_assoc. reflexivity.
Qed.

Lemma norm_fields_app (N : schema -> value -> value) kv ps qs :
  norm_fields N kv (ps ++ qs) = norm_fields N kv ps ++ norm_fields N kv qs.
Proof.
  induction ps as [|[[k m] sub] r IH]; auto.
  cbn [app norm_fields]. fold (norm_fields N kv). rewrite IH.
  destruct (match lookup k kv with Some x => Some x | None => p_default m end); reflexivity.
Qed.

Lemma valid_fields_app (V : schema -> value -> bool) kv ps qs :
  valid_fields V kv (ps ++ qs) = valid_fields V kv ps && valid_fields V kv qs.
Proof.
  induction ps as [|[[k m] sub] r IH]; auto.
  cbn [app valid_fields]. fold (valid_fields V kv). rewrite IH, andb_assoc. reflexivity.
Qed.

(* (a) for the documented use of noLengthEncodingExhaustBuffer: an object whose last encoded
   property is an exhaust array of items that are at least one byte wide *)
Theorem exhaust_tail_roundtrip req ps k m it v bs fuel :
  forallb (fun p : prop => rt_ok (snd p)) ps = true ->
  rt_ok it = true -> (0 < min_width it)%nat ->
  shape_ok (SObj req (ps ++ [(k, m, SArr AExhaust it)])) = true ->
  valid (SObj req (ps ++ [(k, m, SArr AExhaust it)])) v = true ->
  encode (SObj req (ps ++ [(k, m, SArr AExhaust it)])) v = EOk bs ->
  (length bs < fuel)%nat ->
  decode fuel (SObj req (ps ++ [(k, m, SArr AExhaust it)])) bs =
    DOk (norm (SObj req (ps ++ [(k, m, SArr AExhaust it)])) v) [].
Proof.
  intros Hps Hit Hw Hsh Hv He Hf.
  destruct v as [| | | | | |kv]; try discriminate He.
  apply shape_ok_props in Hsh. apply Forall_app in Hsh as [Hsh1 Hsh2].
  inversion Hsh2 as [|? ? [Hshl Hdl] _]; subst. cbn [fst snd] in Hshl, Hdl. cbn [shape_ok] in Hshl.
  rewrite valid_obj_eq in Hv. apply andb_true_iff in Hv as [_ Hvf].
  rewrite valid_fields_app in Hvf. apply andb_true_iff in Hvf as [Hvf1 Hvf2].
  rewrite encode_obj_eq, encode_fields_app in He. unfold ebind in He.
  destruct (encode_fields encode kv ps) as [a|] eqn:Ea; [|discriminate He].
  destruct (encode_fields encode kv [(k, m, SArr AExhaust it)]) as [b|] eqn:Eb; [|discriminate He].
  injection He as <-.
  rewrite decode_obj_eq, norm_obj_eq, decode_fields_app, norm_fields_app.
  assert (HF : Forall (fun p : prop => rt_ok (snd p) = true -> shape_ok (snd p) = true ->
                         forall fuel v bs rest, valid (snd p) v = true -> encode (snd p) v = EOk bs ->
                         decode fuel (snd p) (bs ++ rest) = DOk (norm (snd p) v) rest) ps).
  { apply Forall_forall. intros p _ H H' f' v' b' r'. apply struct_roundtrip_gen; auto. }
  rewrite (fields_roundtrip round32 widen32 fuel kv ps HF Hps Hsh1 Hvf1 a b [] Ea).
  cbn [rev app].
  (* the last field: which array is encoded *)
  cbn [valid_fields] in Hvf2. rewrite andb_true_r in Hvf2.
  cbn [encode_fields] in Eb. unfold ebind in Eb.
  cbn [norm_fields decode_fields].
  assert (Hlast : forall x, valid (SArr AExhaust it) x = true -> encode (SArr AExhaust it) x = EOk b ->
            match decode fuel (SArr AExhaust it) b with
            | DOk v rest => DOk (VObj (rev ((k, v) :: rev (norm_fields norm kv ps)))) rest
            | DShort => DShort | DErr e => DErr e | DFuel => DFuel
            end = DOk (VObj (norm_fields norm kv ps ++ [(k, norm (SArr AExhaust it) x)])) []).
  { intros x Hvx Ex. destruct x as [| | | | |l|]; try discriminate Ex.
    cbn [valid] in Hvx. rewrite encode_arr_eq in Ex. rewrite decode_arr_eq.
    rewrite (exhaust_loop_roundtrip it fuel Hit Hshl Hw l b fuel [] Hvx Ex).
    - cbn [rev app]. rewrite rev_involutive. reflexivity.
    - pose proof (encode_list_length it l b Hit Hshl Hw Hvx Ex). rewrite app_length in Hf. lia. }
  destruct (lookup k kv) as [x|] eqn:Lk.
  - rewrite (normal_path round32 (SArr AExhaust it) x _ Hshl Hvf2) in Eb.
    destruct (encode (SArr AExhaust it) x) as [bx|] eqn:Ex; [|discriminate Eb].
    injection Eb as <-. rewrite app_nil_r in *. apply Hlast; auto.
  - destruct (p_default m) as [x|] eqn:Dm; [|discriminate Eb].
    destruct (encode (SArr AExhaust it) x) as [bx|] eqn:Ex; [|discriminate Eb].
    injection Eb as <-. rewrite app_nil_r in *. apply Hlast; auto.
Qed.

End Tail.

Example exhaust_tail_roundtrip_ex :
  let s := SObj None [([97], {| p_index := 0; p_default := None |}, SLeaf TInteger (Some (BInt Ih)) 0%nat);
                      ([122], {| p_index := 0; p_default := None |}, SArr AExhaust (SLeaf TInteger (Some (BInt IB)) 0%nat))] in
  let v := VObj [([122], VArr [VInt 1; VInt 2; VInt 3]); ([97], VInt (-1))] in
  encode round32_impl s v = EOk [255; 255; 1; 2; 3] /\
  decode widen32_impl 6 s [255; 255; 1; 2; 3] = DOk (norm round32_impl widen32_impl s v) [].
Proof. vm_compute. auto. Qed.
