(* C12 — validation: what is rejected on row insertion, what MetadataSchema() refuses. *)
From Coq Require Import List ZArith Bool Lia.
From TskVerif Require Import Base.Common Gen.Generated C12.Model C12.BytesProofs C12.Unfold.
Import ListNotations.
Open Scope Z_scope.

Definition valid_fields (V : schema -> value -> bool) (kv : list (key * value)) : list prop -> bool :=
  fix go (ps : list prop) : bool :=
    match ps with
    | [] => true
    | (k, _, sub) :: r => match lookup k kv with Some x => V sub x | None => true end && go r
    end.

Lemma valid_obj_eq req ps kv :
  valid (SObj req ps) (VObj kv) =
  forallb (fun k => match lookup k kv with Some _ => true | None => false end)
          (match req with Some r => r | None => [] end)
  && forallb (fun e : key * value => key_in (fst e) (map pkey ps)) kv
  && valid_fields valid kv ps.
Proof. reflexivity. Qed.

(* (e) a row that does not validate is never encoded: MetadataValidationError *)
Theorem invalid_rejected_gen round32 t v :
  valid_top t v = false -> validate_and_encode round32 t v = EErr EValidation.
Proof. unfold validate_and_encode. intros ->. reflexivity. Qed.

(* ... and these are the ways a row fails to validate (each one makes [valid] false) *)
Lemma key_eqb_refl k : key_eqb k k = true.
Proof. unfold key_eqb. apply list_eqb_eq; auto. intros; apply Z.eqb_eq. Qed.

Lemma key_eqb_eq a b : key_eqb a b = true <-> a = b.
Proof. unfold key_eqb. apply list_eqb_eq. intros; apply Z.eqb_eq. Qed.

Lemma missing_required_invalid req ps kv k :
  In k req -> lookup k kv = None -> valid (SObj (Some req) ps) (VObj kv) = false.
Proof.
  intros Hin Hl. rewrite valid_obj_eq.
  assert (forallb (fun k => match lookup k kv with Some _ => true | None => false end) req = false) as ->; auto.
  destruct (forallb _ req) eqn:E; auto.
  rewrite forallb_forall in E. specialize (E k Hin). rewrite Hl in E. discriminate.
Qed.

Lemma additional_property_invalid req ps kv k x :
  In (k, x) kv -> key_in k (map pkey ps) = false -> valid (SObj req ps) (VObj kv) = false.
Proof.
  intros Hin Hk. rewrite valid_obj_eq.
  assert (forallb (fun e : key * value => key_in (fst e) (map pkey ps)) kv = false) as ->.
  { destruct (forallb _ kv) eqn:E; auto. rewrite forallb_forall in E. specialize (E _ Hin). simpl in E. congruence. }
  rewrite andb_false_r. reflexivity.
Qed.

Lemma field_invalid req ps kv (p : prop) x :
  In p ps -> lookup (pkey p) kv = Some x -> valid (snd p) x = false ->
  valid (SObj req ps) (VObj kv) = false.
Proof.
  intros Hin Hl Hv. rewrite valid_obj_eq.
  assert (valid_fields valid kv ps = false) as ->; [|apply andb_false_r].
  induction ps as [|[[k m] sub] r IH]; [destruct Hin|].
  cbn [valid_fields]. fold (valid_fields valid kv).
  destruct Hin as [<-|Hin].
  - unfold pkey in Hl; cbn [fst snd] in *. rewrite Hl, Hv. reflexivity.
  - rewrite IH by auto. apply andb_false_r.
Qed.

Lemma element_invalid m it l x :
  In x l -> valid it x = false -> valid (SArr m it) (VArr l) = false.
Proof.
  intros Hin Hv. cbn [valid]. destruct (forallb (valid it) l) eqn:E; auto.
  rewrite forallb_forall in E. rewrite (E _ Hin) in Hv. discriminate.
Qed.

Lemma wrong_kind_invalid :
  (forall req ps v, (forall kv, v <> VObj kv) -> valid (SObj req ps) v = false) /\
  (forall m it v, (forall l, v <> VArr l) -> valid (SArr m it) v = false) /\
  (forall f nt b, valid (SLeaf TNumber f nt) (VBool b) = false /\ valid (SLeaf TInteger f nt) (VBool b) = false) /\
  (forall f nt s, valid (SLeaf TNumber f nt) (VStr s) = false /\ valid (SLeaf TInteger f nt) (VStr s) = false /\
                  valid (SLeaf TBoolean f nt) (VStr s) = false /\ valid (SLeaf TNull f nt) (VStr s) = false) /\
  (forall f nt z, valid (SLeaf TString f nt) (VInt z) = false /\ valid (SLeaf TBoolean f nt) (VInt z) = false /\
                  valid (SLeaf TNull f nt) (VInt z) = false) /\
  (forall t f nt, t <> TNull -> valid (SLeaf t f nt) VNull = false).
Proof.
  repeat split; intros.
  - destruct v; auto. exfalso; eapply H; eauto.
  - destruct v; auto. exfalso; eapply H; eauto.
  - destruct t; auto. congruence.
Qed.

(* the summary statement used in Props *)
Theorem invalid_rejected round32 t v :
  valid_top t v = false -> validate_and_encode round32 t v = EErr EValidation.
Proof. apply invalid_rejected_gen. Qed.

Example invalid_rejected_ex :
  let t := modify_top {| t_nullable := false; t_schema := ex_schema |} in
  (* missing "id" *)
  validate_and_encode round32_impl t (VObj [([110;97;109;101], VStr [97]); ([120;115], VArr []);
                                            ([102;105;120], VArr [VBool true; VBool false])]) = EErr EValidation /\
  (* "id" is a bool *)
  validate_and_encode round32_impl t (VObj [([105;100], VBool true); ([110;97;109;101], VStr [97]); ([120;115], VArr []);
                                            ([102;105;120], VArr [VBool true; VBool false])]) = EErr EValidation /\
  (* in range type-wise, out of the 'h' range: struct.error, not a silent wrap *)
  validate_and_encode round32_impl t (VObj [([105;100], VInt 40000); ([110;97;109;101], VStr [97]); ([120;115], VArr []);
                                            ([102;105;120], VArr [VBool true; VBool false])]) = EErr EStruct /\
  (* wrong fixed length: ValueError *)
  validate_and_encode round32_impl t (VObj [([105;100], VInt 4); ([110;97;109;101], VStr [97]); ([120;115], VArr []);
                                            ([102;105;120], VArr [VBool true])]) = EErr EValue.
Proof. vm_compute. auto. Qed.

(* ------------------------------------------------------------ MetadataSchema() *)

(* what acceptance guarantees about the top-level properties (the extra validators) *)
Theorem construct_accept_top_rules t req ps :
  construct t = CAccept -> t_schema t = SObj (Some req) ps ->
  forall p, In p ps ->
    leaf_needs_format (snd p) = false /\ null_nonpad (snd p) = false /\ neg_length (snd p) = false /\
    (key_in (pkey p) req = true \/ p_default (snd (fst p)) <> None).
Proof.
  unfold construct. intros Hc Hs p Hin. rewrite Hs in Hc.
  destruct (has_prop_named k_properties (SObj (Some req) ps)); [discriminate|].
  destruct (key_in k_type (map pkey ps) && negb (key_in k_binaryFormat (map pkey ps))); [discriminate|].
  destruct (negb c12_pascal_zero_allowed && has_pas0 (SObj (Some req) ps)); [discriminate|].
  destruct (top_rules (Some req) ps) eqn:E; [discriminate|]. clear Hc.
  unfold top_rules in E.
  apply orb_false_iff in E as [E E4]. apply orb_false_iff in E as [E E3]. apply orb_false_iff in E as [E1 E2].
  assert (forall (f : prop -> bool), existsb f ps = false -> f p = false) as HF.
  { intros f Hf. destruct (f p) eqn:Efp; auto.
    assert (existsb f ps = true) by (apply existsb_exists; eauto). congruence. }
  repeat split; [apply (HF _ E1) | apply (HF _ E2) | apply (HF _ E3) |].
  apply HF in E4. apply andb_false_iff in E4 as [E4|E4].
  - left. apply negb_false_iff in E4. auto.
  - right. destruct (p_default (snd (fst p))); [discriminate|discriminate].
Qed.

(* F9c: the same rules are not enforced below the top level — an accepted schema under which a
   valid object cannot be encoded (KeyError from object_encode), and one whose construction
   dies with KeyError instead of MetadataSchemaValidationError *)
Theorem nested_validators_skipped_refuted :
  (exists (t : top) (v : value),
     construct t = CAccept /\ valid_top (modify_top t) v = true /\
     validate_and_encode round32_impl (modify_top t) v = EErr EKey) /\
  (exists t : top, construct t = CKeyErr) /\
  (exists t : top, construct t = CAccept /\
     exists p q, t_schema t = SObj None [p] /\ snd p = SObj None [q] /\ neg_length (snd q) = true).
Proof.
  split; [|split].
  - exists {| t_nullable := false; t_schema :=
              SObj None [([111], {| p_index := 0; p_default := None |},
                          SObj (Some []) [([97], {| p_index := 0; p_default := None |},
                                           SLeaf TInteger (Some (BInt Ii)) 0%nat)])] |},
           (VObj [([111], VObj [])]).
    repeat split; reflexivity.
  - exists {| t_nullable := false; t_schema :=
              SObj None [([111], {| p_index := 0; p_default := None |},
                          SObj None [([97], {| p_index := 0; p_default := None |}, SLeaf TInteger None 0%nat)])] |}.
    reflexivity.
  - eexists {| t_nullable := false; t_schema :=
              SObj None [([111], {| p_index := 0; p_default := None |},
                          SObj None [([97], {| p_index := 0; p_default := None |},
                                      SArr (AFixed (-2)) (SLeaf TInteger (Some (BInt Ii)) 0%nat))])] |}.
    split; [reflexivity|]. do 2 eexists. repeat split; reflexivity.
Qed.

(* F9k (fixed by 83f7d7c; historical, under the pinned value of the regenerated fact):
   object_encode's `except KeyError` also catches the KeyError raised *inside* the
   encoder of a nested object, and then encodes the enclosing property's default instead — the
   value the caller supplied ("b": 1) is silently replaced ("b": 6):
   {"o": {"type":"object","properties":{"a":i,"b":i},"required":["b"],"default":{"a":5,"b":6}}}
   with {"o":{"b":1}} *)
Definition subst_schema : top :=
  {| t_nullable := false; t_schema :=
     SObj None [([111], {| p_index := 0; p_default := Some (VObj [([97], VInt 5); ([98], VInt 6)]) |},
                 SObj (Some [[98]])
                   [([97], {| p_index := 0; p_default := None |}, SLeaf TInteger (Some (BInt Ii)) 0%nat);
                    ([98], {| p_index := 0; p_default := None |}, SLeaf TInteger (Some (BInt Ii)) 0%nat)])] |}.

Theorem nested_keyerror_substitutes_default_pinned_refuted :
  c12_encode_swallows_nested_keyerror = true ->      (* as long as metadata.py has the try/except *)
  let v := VObj [([111], VObj [([98], VInt 1)])] in
  construct subst_schema = CAccept /\
  valid_top (modify_top subst_schema) v = true /\
  validate_and_encode round32_impl (modify_top subst_schema) v = EOk [5; 0; 0; 0; 6; 0; 0; 0] /\
  decode_top widen32_impl 0 (modify_top subst_schema) [5; 0; 0; 0; 6; 0; 0; 0] =
    DOk (VObj [([111], VObj [([97], VInt 5); ([98], VInt 6)])]) [].
Proof. intros H. vm_compute in H. first [discriminate H | vm_compute; auto]. Qed.

(* ... and the repaired code: the KeyError of the nested encoder is no longer swallowed *)
Theorem nested_keyerror_propagates :
  c12_encode_swallows_nested_keyerror = false ->
  validate_and_encode round32_impl (modify_top subst_schema) (VObj [([111], VObj [([98], VInt 1)])]) = EErr EKey.
Proof. intros H. vm_compute in H. first [discriminate H | vm_compute; auto]. Qed.

(* F9e on the current model: two property names change what MetadataSchema() does with an
   otherwise identical, perfectly good schema *)
Theorem reserved_property_names_refuted :
  let mk name := {| t_nullable := false; t_schema :=
        SObj None [(name, {| p_index := 0; p_default := None |}, SLeaf TInteger (Some (BInt Ii)) 0%nat)] |} in
  construct (mk [97]) = CAccept /\
  construct (mk k_properties) = CAttrErr /\                  (* AttributeError from order_by_index *)
  construct (mk k_type) = CSchemaErr /\                      (* "integer type must have binaryFormat set" *)
  (* ... at any depth for "properties", only at the top level for "type" *)
  construct {| t_nullable := false; t_schema :=
      SObj None [([111], {| p_index := 0; p_default := None |}, t_schema (mk k_properties))] |} = CAttrErr /\
  construct {| t_nullable := false; t_schema :=
      SObj None [([111], {| p_index := 0; p_default := None |}, t_schema (mk k_type))] |} = CAccept.
Proof. vm_compute. auto. Qed.

(* the exact boundary: nothing else about names matters to the constructor's first two checks *)
Theorem reserved_names_boundary t req ps :
  t_schema t = SObj req ps ->
  has_prop_named k_properties (t_schema t) = false ->
  (key_in k_type (map pkey ps) = false \/ key_in k_binaryFormat (map pkey ps) = true) ->
  construct t <> CAttrErr.
Proof.
  intros Hs Hp Ht. unfold construct. rewrite Hs in *. rewrite Hp.
  assert (key_in k_type (map pkey ps) && negb (key_in k_binaryFormat (map pkey ps)) = false) as ->
    by (destruct Ht as [-> | ->]; [reflexivity | apply andb_false_r]).
  destruct (negb c12_pascal_zero_allowed && has_pas0 (SObj req ps)); [discriminate|].
  destruct (top_rules req ps); [discriminate|].
  destruct (mk_encode (modify (SObj req ps))) eqn:E1; cbn [cthen]; try discriminate.
  - destruct (mk_decode (modify (SObj req ps))) eqn:E2; try discriminate.
    exfalso. clear -E2. revert E2. generalize (modify (SObj req ps)).
    intros s. induction s as [t0 f nt | m it IH | rq qs IH] using schema_ind'; cbn [mk_decode].
    + destruct t0; destruct f; discriminate.
    + destruct (has_exhaust it); [discriminate|]. destruct (mk_decode it) eqn:E; cbn [cthen]; try discriminate; auto.
      destruct m; try discriminate. destruct (can_decode_empty it); discriminate.
    + destruct (exhaust_before_last qs); [discriminate|].
      induction IH as [|p r Hp' _ IHr]; cbn [fold_right]; [discriminate|].
      destruct (mk_decode (snd p)) eqn:E; cbn [cthen]; try discriminate; auto.
  - exfalso. clear -E1. revert E1. generalize (modify (SObj req ps)).
    intros s. induction s as [t0 f nt | m it IH | rq qs IH] using schema_ind'; cbn [mk_encode]; auto.
    + destruct t0; destruct f; discriminate.
    + induction IH as [|p r Hp' _ IHr]; cbn [fold_right]; [discriminate|].
      destruct (mk_encode (snd p)) eqn:E; cbn [cthen]; try discriminate; auto.
Qed.
