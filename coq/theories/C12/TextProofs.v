(* C12 — nullTerminated strings in multi-byte encodings.  The model works on the bytes produced
   by str.encode(stringEncoding); the NUL search of decode_string is on *characters*.  For a
   stateless encoding whose characters are sequences of whole u-byte code units, only NUL being
   the all-zero unit (utf-16-le/be: u = 2, utf-32-le/be: u = 4, and u = 1 for utf-8 / latin-1),
   the model's unit-wise cut of the bytes is exactly the character-level cut of the decoded text. *)
From Coq Require Import List ZArith Bool Lia.
From TskVerif Require Import Base.Common C12.Model C12.BytesProofs.
Import ListNotations.
Open Scope Z_scope.

Definition unit_ok (u : nat) (c : list Z) : Prop := length c = u /\ forallb (Z.eqb 0) c = false.

Lemma zeros_all_zero n : forallb (Z.eqb 0) (zeros n) = true.
Proof. induction n; simpl; auto. Qed.

Lemma firstn_app_exact {A} u (a b : list A) : length a = u -> firstn u (a ++ b) = a.
Proof. intros <-. rewrite firstn_app, Nat.sub_diag, firstn_all. simpl. apply app_nil_r. Qed.

Lemma skipn_app_exact {A} u (a b : list A) : length a = u -> skipn u (a ++ b) = b.
Proof. intros <-. rewrite skipn_app, Nat.sub_diag, skipn_all. reflexivity. Qed.

(* whole non-zero units are passed through; the first all-zero unit stops the scan *)
Lemma fnu_units u us rest : (1 <= u)%nat -> Forall (unit_ok u) us ->
  forall fuel, (length us < fuel)%nat ->
  find_nul_units fuel u (concat us ++ zeros u ++ rest) = concat us.
Proof.
  intros Hu HF; induction HF as [|c r [Hl Hz] _ IH]; intros fuel Hf.
  - destruct fuel; [simpl in Hf; lia|]. cbn [concat app find_nul_units].
    rewrite (firstn_app_exact u) by apply zeros_length. rewrite zeros_length.
    destruct (Nat.ltb_spec u u); [lia|]. rewrite zeros_all_zero. reflexivity.
  - destruct fuel; [simpl in Hf; lia|]. cbn [concat find_nul_units]. rewrite <- app_assoc.
    rewrite (firstn_app_exact u), (skipn_app_exact u), Hl by auto.
    destruct (Nat.ltb_spec u u); [lia|]. rewrite Hz. f_equal. apply IH. simpl in Hf. lia.
Qed.

(* no terminator at all: everything is kept *)
Lemma fnu_no_nul u us : (1 <= u)%nat -> Forall (unit_ok u) us ->
  forall fuel, find_nul_units fuel u (concat us) = concat us.
Proof.
  intros Hu HF; induction HF as [|c r [Hl Hz] _ IH]; intros fuel.
  - destruct fuel; [reflexivity|]. cbn [concat find_nul_units]. destruct u; [lia|]. reflexivity.
  - destruct fuel; [reflexivity|]. cbn [concat find_nul_units].
    rewrite (firstn_app_exact u), (skipn_app_exact u), Hl by auto.
    destruct (Nat.ltb_spec u u); [lia|]. rewrite Hz. f_equal. apply IH.
Qed.

Lemma concat_units_length u us : Forall (unit_ok u) us -> length (concat us) = (u * length us)%nat.
Proof. induction 1 as [|c r [Hl _] _ IH]; simpl; [lia|]. rewrite app_length, IH, Hl. lia. Qed.

(* characters up to the first NUL: s[:s.find("\x00")] *)
Fixpoint cut0 (s : list Z) : list Z :=
  match s with [] => [] | c :: r => if c =? 0 then [] else c :: cut0 r end.

Lemma cut0_app_nuls s k : cut0 (s ++ repeat 0 k) = cut0 s.
Proof.
  induction s as [|c r IH]; simpl.
  - destruct k; reflexivity.
  - destruct (c =? 0); auto. rewrite IH. reflexivity.
Qed.

Section Text.
Variable u' : nat.
Let u := S (S u').                               (* code units of at least two bytes *)
Variable uenc : Z -> list (list Z).              (* the code units of one character *)
Variable tenc : list Z -> list Z.                (* str.encode(stringEncoding) *)
Variable tdec : list Z -> option (list Z).       (* bytes.decode(stringEncoding); None = UnicodeDecodeError *)
Hypothesis tenc_units : forall s, tenc s = concat (flat_map uenc s).
Hypothesis units_nonzero : forall c, c <> 0 -> Forall (unit_ok u) (uenc c).
Hypothesis nul_unit : uenc 0 = [zeros u].       (* the NUL character encodes to the terminator unit *)
Hypothesis tdec_tenc : forall s, tdec (tenc s) = Some s.

Lemma tenc_app a b : tenc (a ++ b) = tenc a ++ tenc b.
Proof. rewrite !tenc_units, flat_map_app, concat_app. reflexivity. Qed.

Lemma tenc_nuls k : tenc (repeat 0 k) = zeros (u * k).
Proof.
  induction k; [rewrite tenc_units, Nat.mul_0_r; reflexivity|].
  change (repeat 0 (S k)) with ([0] ++ repeat 0 k). rewrite tenc_app, IHk.
  rewrite tenc_units. cbn [flat_map]. rewrite nul_unit. cbn [concat app]. rewrite app_nil_r.
  unfold zeros. rewrite <- repeat_app. f_equal. lia.
Qed.

Lemma units_of_nonzero s : Forall (fun c => c <> 0) s -> Forall (unit_ok u) (flat_map uenc s).
Proof.
  induction 1 as [|c r Hc _ IH]; simpl; [constructor|]. apply Forall_app. split; auto.
Qed.

Lemma cut0_split s : (cut0 s = s /\ Forall (fun c => c <> 0) s) \/
                     (exists b, s = cut0 s ++ 0 :: b /\ Forall (fun c => c <> 0) (cut0 s)).
Proof.
  induction s as [|c r IH]; [left; split; [reflexivity|constructor]|].
  simpl. destruct (Z.eqb_spec c 0) as [->|Hc].
  - right. exists r. split; [reflexivity|constructor].
  - destruct IH as [[E F]|(b & E & F)].
    + left. rewrite E. split; auto.
    + right. exists b. split; [simpl; f_equal; exact E | constructor; auto].
Qed.

(* the field holds the text s followed by k padding units: what the model's decoder returns,
   decoded, is what Python returns — the decoded field cut at its first NUL *character* *)
Theorem unit_cut_is_character_cut s k :
  cut u (tenc s ++ zeros (u * k)) = tenc (cut0 s) /\
  tdec (cut u (tenc s ++ zeros (u * k))) = Some (cut0 (s ++ repeat 0 k)) /\
  tdec (tenc s ++ zeros (u * k)) = Some (s ++ repeat 0 k).
Proof.
  assert (Hcut : cut u (tenc s ++ zeros (u * k)) = tenc (cut0 s)).
  { change (cut u (tenc s ++ zeros (u * k))) with
      (find_nul_units (length (tenc s ++ zeros (u * k))) u (tenc s ++ zeros (u * k))).
    destruct (cut0_split s) as [[E F]|(b & E & F)].
    - (* no NUL in s *)
      rewrite E. rewrite tenc_units. pose proof (units_of_nonzero s F) as HU.
      destruct k.
      + rewrite Nat.mul_0_r. cbn [zeros repeat]. rewrite app_nil_r. apply fnu_no_nul; auto. unfold u; lia.
      + replace (zeros (u * S k)) with (zeros u ++ zeros (u * k))
          by (unfold zeros; rewrite <- repeat_app; f_equal; lia).
        apply fnu_units; auto; [unfold u; lia|].
        rewrite !app_length, (concat_units_length u _ HU), zeros_length. unfold u. nia.
    - (* a NUL inside s: the text after it is ignored *)
      rewrite E at 1 2. rewrite tenc_app.
      change (0 :: b) with ([0] ++ b). rewrite tenc_app.
      assert (tenc [0] = zeros u) as -> by (rewrite tenc_units; cbn [flat_map]; rewrite nul_unit; cbn [app concat]; apply app_nil_r).
      rewrite (tenc_units (cut0 s)). pose proof (units_of_nonzero _ F) as HU.
      rewrite <- !app_assoc. apply fnu_units; auto; [unfold u; lia|].
      rewrite !app_length, (concat_units_length u _ HU), zeros_length. unfold u. nia. }
  split; [exact Hcut|]. split.
  - rewrite Hcut, tdec_tenc, cut0_app_nuls. reflexivity.
  - rewrite <- tenc_nuls, <- tenc_app. apply tdec_tenc.
Qed.

End Text.

(* non-vacuity: utf-16-le "a", NUL, "b" in an 8-byte field; cutting at the first zero *byte*
   (what the seeded change C12-4 did) would give 1 byte, which is not even decodable *)
Example unit_cut_ex :
  cut 2 [97; 0; 0; 0; 98; 0; 0; 0] = [97; 0] /\ find_nul [97; 0; 0; 0; 98; 0; 0; 0] = [97] /\
  cut 4 [97; 0; 0; 0; 0; 1; 0; 0; 0; 0; 0; 0] = [97; 0; 0; 0; 0; 1; 0; 0].
Proof. repeat split; reflexivity. Qed.
