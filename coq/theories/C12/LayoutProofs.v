(* C12 — byte layout: an object is the concatenation of its fields in list order, sizes are
   those of the binaryFormats, and the tables regenerated from metadata.py agree with the model. *)
From Coq Require Import List ZArith Bool Lia.
From TskVerif Require Import Base.Common Gen.Generated C12.Model C12.BytesProofs C12.Unfold C12.ValidProofs
  C12.ShapeProofs C12.RoundTripProofs.
Import ListNotations.
Open Scope Z_scope.

Section Layout.
Variable round32 : Z -> option Z.
Notation encode := (encode round32).

(* ------------------------------------------------------------ concatenation *)

(* the value a field is encoded from: obj[key], else the schema default *)
Definition field_src (kv : list (key * value)) (p : prop) : option value :=
  match lookup (pkey p) kv with Some x => Some x | None => p_default (snd (fst p)) end.

Lemma encode_fields_concat kv ps bs :
  Forall prop_shape ps -> valid_fields valid kv ps = true ->
  encode_fields encode kv ps = EOk bs ->
  exists parts,
    Forall2 (fun (p : prop) part => exists x, field_src kv p = Some x /\ encode (snd p) x = EOk part) ps parts /\
    bs = concat parts.
Proof.
  intros Hsh; revert bs; induction Hsh as [|[[k m] sub] r [Hsub Hdv] _ IH]; intros bs Hvf He.
  - injection He as <-. exists []. split; constructor.
  - cbn [fst snd] in *. cbn [valid_fields] in Hvf. fold (valid_fields valid kv) in Hvf.
    apply andb_true_iff in Hvf as [Hvx Hvr].
    cbn [encode_fields] in He. fold (encode_fields encode kv) in He. unfold ebind in He.
    assert (exists x, field_src kv (k, m, sub) = Some x /\
                      exists bx br, encode sub x = EOk bx /\ encode_fields encode kv r = EOk br /\ bs = bx ++ br)
      as (x & Hx & bx & br & Ex & Er & ->).
    { unfold field_src, pkey; cbn [fst snd].
      destruct (lookup k kv) as [x|].
      - exists x. split; auto. rewrite (normal_path round32 sub x _ Hsub Hvx) in He.
        destruct (encode sub x) as [bx|]; [|discriminate He].
        destruct (encode_fields encode kv r) as [br|]; [|discriminate He].
        injection He as <-. eauto.
      - destruct (p_default m) as [x|]; [|discriminate He].
        exists x. split; auto.
        destruct (encode sub x) as [bx|]; [|discriminate He].
        destruct (encode_fields encode kv r) as [br|]; [|discriminate He].
        injection He as <-. eauto. }
    destruct (IH _ Hvr Er) as (parts & HF & ->).
    exists (bx :: parts). split; [constructor; eauto | reflexivity].
Qed.

(* (b) part 1: for a schema obeying the struct rules and a valid object, the encoding is the
   concatenation, in the order of the (ordered) property list, of the encodings of obj[key] or
   else the default *)
Theorem object_layout req ps kv bs :
  shape_ok (SObj req ps) = true -> valid (SObj req ps) (VObj kv) = true ->
  encode (SObj req ps) (VObj kv) = EOk bs ->
  exists parts,
    Forall2 (fun (p : prop) part => exists x, field_src kv p = Some x /\ encode (snd p) x = EOk part) ps parts /\
    bs = concat parts.
Proof.
  intros Hs Hv. rewrite encode_obj_eq. rewrite valid_obj_eq in Hv. apply andb_true_iff in Hv as [_ Hvf].
  apply encode_fields_concat; auto. apply (shape_ok_props req); auto.
Qed.

(* ------------------------------------------------------------ sizes *)

Definition leaf_size (t : jty) (f : option bfmt) : option Z :=
  match f with
  | None => match t with TNull => Some 0 | _ => None end
  | Some f => if bsize f <? 0 then None else Some (bsize f)
  end.

Fixpoint fixed_size (s : schema) : option Z :=
  match s with
  | SLeaf t f _ => leaf_size t f
  | SArr (AFixed n) it =>
      match fixed_size it with Some w => if n <? 0 then None else Some (n * w) | None => None end
  | SArr _ _ => None
  | SObj _ ps =>
      (fix go (ps : list prop) : option Z :=
         match ps with
         | [] => Some 0
         | p :: r => match fixed_size (snd p), go r with
                     | Some a, Some b => Some (a + b) | _, _ => None end
         end) ps
  end.

Definition fields_size : list prop -> option Z :=
  fix go (ps : list prop) : option Z :=
    match ps with
    | [] => Some 0
    | p :: r => match fixed_size (snd p), go r with
                | Some a, Some b => Some (a + b) | _, _ => None end
    end.

Lemma fixed_size_obj req ps : fixed_size (SObj req ps) = fields_size ps.
Proof. reflexivity. Qed.

Lemma zlen_app (a b : list Z) : Z.of_nat (length (a ++ b)) = Z.of_nat (length a) + Z.of_nat (length b).
Proof. rewrite app_length. lia. Qed.

Lemma leaf_size_ok t f v bs n :
  leaf_size t f = Some n -> encode_leaf round32 t f v = EOk bs -> Z.of_nat (length bs) = n.
Proof.
  unfold leaf_size. intros Hs He.
  destruct f as [f|].
  - destruct (Z.ltb_spec (bsize f) 0) as [|Hn]; [discriminate|]. injection Hs as <-.
    destruct t; cbn [encode_leaf] in He.
    1-3: destruct f as [i| | | | |k|k|k]; cbn [pack_num] in He; try discriminate He;
      [ destruct v; try discriminate He;
        [ injection He as <-; rewrite le_bytes_length; reflexivity
        | destruct (in_range i z); [|discriminate He]; injection He as <-;
          rewrite le_bytes_length; reflexivity ]
      | injection He as <-; reflexivity
      | unfold ebind in He; destruct (to_double v); [|discriminate He];
        destruct (round32 a); [|discriminate He]; injection He as <-; reflexivity
      | unfold ebind in He; destruct (to_double v); [|discriminate He];
        injection He as <-; reflexivity ].
    + destruct v; try discriminate He.
      destruct f as [i| | | | |k|k|k]; cbn [pack_str bsize] in *; try discriminate He.
      * injection He as <-; reflexivity.
      * destruct s as [|c [|]]; try discriminate He. injection He as <-; reflexivity.
      * injection He as <-. apply pad_to_length; auto.
      * destruct (Z.leb_spec k 0).
        -- injection He as <-. simpl. lia.
        -- injection He as <-. cbn [length]. rewrite Nat2Z.inj_succ, pad_to_length by lia. lia.
    + destruct f as [i| | | | |k|k|k]; try discriminate He. cbn [bsize] in *.
      injection He as <-. rewrite zeros_length. lia.
  - destruct t; try discriminate Hs. injection Hs as <-. cbn [encode_leaf] in He.
    injection He as <-. reflexivity.
Qed.

Lemma encode_list_size (enc : value -> eres (list Z)) w l bs :
  Forall (fun x => forall b, enc x = EOk b -> Z.of_nat (length b) = w) l ->
  encode_list enc l = EOk bs -> Z.of_nat (length bs) = Z.of_nat (length l) * w.
Proof.
  intros HF; revert bs; induction HF as [|x r Hx _ IH]; intros bs He.
  - injection He as <-. simpl. lia.
  - cbn [encode_list] in He. fold (encode_list enc) in He. unfold ebind in He.
    destruct (enc x) as [bx|] eqn:Ex; [|discriminate He].
    destruct (encode_list enc r) as [br|] eqn:Er; [|discriminate He].
    injection He as <-. rewrite zlen_app, (Hx _ eq_refl), (IH _ eq_refl).
    cbn [length]. lia.
Qed.

(* (b) part 2: |encode| is the size implied by the binaryFormats, for every fixed-size schema
   (the ones numpy_dtype accepts are among them) *)
Theorem fixed_size_ok s : forall n v bs,
  fixed_size s = Some n -> encode s v = EOk bs -> Z.of_nat (length bs) = n.
Proof.
  induction s as [t f nt | m it IH | req ps IH] using schema_ind'; intros n v bs Hs He.
  - eapply leaf_size_ok; eauto.
  - destruct m as [k| |f]; try discriminate Hs. cbn [fixed_size] in Hs.
    destruct (fixed_size it) as [w|] eqn:Hw; [|discriminate Hs].
    destruct (Z.ltb_spec k 0); [discriminate|]. injection Hs as <-.
    destruct v as [| | | | |l|]; try discriminate He.
    rewrite encode_arr_eq in He.
    destruct (Z.eqb_spec (Z.of_nat (length l)) k) as [<-|]; [|discriminate He].
    eapply encode_list_size; eauto.
    apply Forall_forall. intros x _ b Hb. eapply IH; eauto.
  - destruct v as [| | | | | |kv]; try discriminate He.
    rewrite encode_obj_eq in He. rewrite fixed_size_obj in Hs.
    revert n bs Hs He. induction IH as [|[[k m] sub] r Hp _ IHr]; intros n bs Hs He.
    + injection Hs as <-. injection He as <-. reflexivity.
    + cbn [fields_size snd] in Hs. fold fields_size in Hs.
      destruct (fixed_size sub) as [a|] eqn:Ha; [|discriminate Hs].
      destruct (fields_size r) as [b|] eqn:Hb; [|discriminate Hs]. injection Hs as <-.
      cbn [encode_fields] in He. fold (encode_fields encode kv) in He. unfold ebind in He.
      cbn [snd] in Hp.
      assert (exists x bx br, encode sub x = EOk bx /\ encode_fields encode kv r = EOk br /\ bs = bx ++ br)
        as (x & bx & br & Ex & Er & ->).
      { assert (Hd : forall bsd, match p_default m with Some d => encode sub d | None => EErr EKey end = EOk bsd ->
                                 exists d, encode sub d = EOk bsd).
        { intros bsd H. destruct (p_default m) as [d|]; [eauto|discriminate H]. }
        destruct (lookup k kv) as [x|].
        - destruct (encode sub x) as [bx|e] eqn:Ex.
          + destruct (encode_fields encode kv r) as [br|]; [|discriminate He]. injection He as <-. eauto 8.
          + destruct e; try discriminate He;
              destruct c12_encode_swallows_nested_keyerror; try discriminate He;
              destruct (match p_default m with Some d => encode sub d | None => EErr EKey end) as [bd|] eqn:Ed;
              try discriminate He;
              destruct (Hd _ eq_refl) as [d Hdd];
              destruct (encode_fields encode kv r) as [br|]; try discriminate He;
              injection He as <-; eauto 8.
        - destruct (match p_default m with Some d => encode sub d | None => EErr EKey end) as [bd|] eqn:Ed;
            [|discriminate He].
          destruct (Hd _ eq_refl) as [d Hdd].
          destruct (encode_fields encode kv r) as [br|]; [|discriminate He]. injection He as <-. eauto 8. }
      rewrite zlen_app. rewrite (Hp _ _ _ Ha Ex), (IHr _ _ eq_refl Er).
      reflexivity.
Qed.

End Layout.

Example fixed_size_ex :
  fixed_size (t_schema (modify_top {| t_nullable := false; t_schema :=
     SObj None [([97], {| p_index := 0; p_default := None |}, SArr (AFixed 3) (SLeaf TInteger (Some (BInt Ih)) 0%nat));
                ([98], {| p_index := 0; p_default := None |}, SLeaf TString (Some (BStr 5)) 1%nat)] |})) = Some 11.
Proof. reflexivity. Qed.

(* ------------------------------------------------------------ regenerated facts *)
(* Gen/Generated.v is rebuilt from /repo/python/tskit/metadata.py on every run; if the regexes,
   the FORMAT_TO_DTYPE table or a struct size change, these stop compiling. *)

Definition all_ifmt : list ifmt := [Ib; IB; Ih; IH; Ii; II; Il; IL; Iq; IQ].
Definition all_single : list bfmt := BChar :: map BInt [Ib; IB] ++ [BBool] ++ map BInt [Ih; IH; Ii; II; Il; IL; Iq; IQ] ++ [BFloat; BDouble].

Theorem formats_match_source :
  map bchar all_single = c12_single_formats /\
  map bchar [BStr 1; BPas 1; BPad 1] = c12_counted_formats /\
  map ichar [IB; IH; II; IL; IQ] = c12_array_length_formats /\
  ichar IL = c12_array_length_default /\
  map (fun f => (bchar f, bsize f)) (all_single ++ [BStr 1; BPas 1; BPad 1]) = c12_struct_sizes.
Proof. repeat split; reflexivity. Qed.

(* numpy_dtype: every FORMAT_TO_DTYPE entry has the itemsize struct gives the format, signed
   formats map to 'i', unsigned to 'u', so the packed structured dtype of a fixed-size schema
   has the struct layout *)
Definition dtype_ok (e : Z * (Z * Z)) : bool :=
  let '(c, (kind, sz)) := e in
  existsb (fun f => (bchar f =? c) && (bsize f =? sz) &&
                    match f with
                    | BInt i => kind =? (if isigned i then 105 else 117)
                    | BBool => kind =? 63 | BFloat | BDouble => kind =? 102 | BChar => kind =? 83
                    | _ => false
                    end) all_single.

Theorem format_to_dtype_agrees :
  forallb dtype_ok c12_format_to_dtype = true /\
  map fst c12_format_to_dtype = map bchar (BBool :: map BInt all_ifmt ++ [BFloat; BDouble; BChar]).
Proof. split; reflexivity. Qed.
