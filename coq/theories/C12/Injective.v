(* C12 — the struct codec is INJECTIVE up to normal form: two valid objects with the same
   encoding have the same normal form (so they decode to the same object), and the
   encoding is prefix-free on valid objects of one schema: decode consumes exactly its own
   bytes whatever follows.  Corollaries of struct_roundtrip. *)
From Coq Require Import List ZArith.
From TskVerif Require Import Base.Common C12.Model C12.ShapeProofs C12.RoundTripProofs.
Import ListNotations.
Open Scope Z_scope.

Lemma encode_injective_proof round32 widen32 s v1 v2 bs :
  rt_ok s = true -> shape_ok s = true -> valid s v1 = true -> valid s v2 = true ->
  encode round32 s v1 = EOk bs -> encode round32 s v2 = EOk bs ->
  norm round32 widen32 s v1 = norm round32 widen32 s v2.
Proof.
  intros Hok Hsh V1 V2 E1 E2.
  pose proof (struct_roundtrip_gen round32 widen32 s Hok Hsh 0%nat v1 bs [] V1 E1) as R1.
  pose proof (struct_roundtrip_gen round32 widen32 s Hok Hsh 0%nat v2 bs [] V2 E2) as R2.
  rewrite R1 in R2. congruence.
Qed.

(* prefix-freeness: if the encodings of two valid objects are prefixes of one buffer, they
   are the same bytes *)
Lemma encode_prefix_free_proof round32 widen32 s v1 v2 b1 b2 r1 r2 :
  rt_ok s = true -> shape_ok s = true -> valid s v1 = true -> valid s v2 = true ->
  encode round32 s v1 = EOk b1 -> encode round32 s v2 = EOk b2 ->
  b1 ++ r1 = b2 ++ r2 ->
  r1 = r2 /\ b1 = b2 /\ norm round32 widen32 s v1 = norm round32 widen32 s v2.
Proof.
  intros Hok Hsh V1 V2 E1 E2 E.
  pose proof (struct_roundtrip_gen round32 widen32 s Hok Hsh 0%nat v1 b1 r1 V1 E1) as R1.
  pose proof (struct_roundtrip_gen round32 widen32 s Hok Hsh 0%nat v2 b2 r2 V2 E2) as R2.
  rewrite E in R1. rewrite R1 in R2. injection R2 as N R. subst r2.
  split; [reflexivity|]. split; [exact (app_inv_tail _ _ _ E)|exact N].
Qed.
