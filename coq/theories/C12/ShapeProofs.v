(* C12 — what validation buys the encoder: under a schema that obeys the struct-codec rules at
   *every* level, a row that validates never makes the encoder die with KeyError or
   AttributeError (only the documented struct.error / ValueError / OverflowError for values
   outside a format's range).  Finding F9c is precisely that the rules are enforced at the top
   level only. *)
From Coq Require Import List ZArith Bool Lia.
From TskVerif Require Import Base.Common C12.Model C12.BytesProofs C12.Unfold C12.ValidProofs.
Import ListNotations.
Open Scope Z_scope.

Definition req_of (req : option (list key)) : list key := match req with Some r => r | None => [] end.

(* the three extra validators' rules, at every node: non-null leaves have a binaryFormat, a
   property is required or has a default, and defaults are themselves valid *)
Fixpoint shape_ok (s : schema) : bool :=
  match s with
  | SLeaf TNull _ _ => true
  | SLeaf _ f _ => match f with Some _ => true | None => false end
  | SArr _ it => shape_ok it
  | SObj req ps =>
      forallb (fun p : prop =>
                 shape_ok (snd p)
                 && (key_in (pkey p) (req_of req)
                     || match p_default (snd (fst p)) with Some _ => true | None => false end)
                 && match p_default (snd (fst p)) with Some d => valid (snd p) d | None => true end) ps
  end.

Definition crash (e : err) : Prop := e = EKey \/ e = EAttr.
Definition no_crash (r : eres (list Z)) : Prop := forall e, r = EErr e -> ~ crash e.

Lemma no_crash_ok bs : no_crash (EOk bs).
Proof. intros e H; discriminate. Qed.

Lemma no_crash_err e : ~ crash e -> no_crash (EErr e).
Proof. intros H e' E. injection E as <-. auto. Qed.

Ltac nc := first [apply no_crash_ok | apply no_crash_err; intros [C|C]; discriminate C].

Section Shape.
Variable round32 : Z -> option Z.
Notation encode := (encode round32).

Lemma pack_num_no_crash f v : no_crash (pack_num round32 f v).
Proof.
  destruct f as [i| | | | |n|n|n]; cbn [pack_num]; try nc.
  - destruct v; try nc. destruct (in_range i z); nc.
  - unfold ebind. destruct (to_double v) as [b|e] eqn:E.
    + destruct (round32 b); nc.
    + destruct v; cbn [to_double] in E; try discriminate E; try (injection E as <-; nc).
      destruct (int_to_double z); [discriminate E|injection E as <-; nc].
  - unfold ebind. destruct (to_double v) as [b|e] eqn:E; [nc|].
    destruct v; cbn [to_double] in E; try discriminate E; try (injection E as <-; nc).
    destruct (int_to_double z); [discriminate E|injection E as <-; nc].
Qed.

Lemma pack_str_no_crash f s : no_crash (pack_str f s).
Proof.
  destruct f as [i| | | | |n|n|n]; cbn [pack_str]; try nc.
  - destruct s as [|c [|]]; nc.
  - destruct (n <=? 0); nc.
Qed.

Lemma leaf_no_crash t f nt v :
  shape_ok (SLeaf t f nt) = true -> valid (SLeaf t f nt) v = true -> no_crash (encode_leaf round32 t f v).
Proof.
  cbn [shape_ok valid]. intros Hs Hv.
  destruct t; cbn [encode_leaf].
  1-3: destruct f as [f|]; [apply pack_num_no_crash | discriminate Hs].
  - destruct f as [f|]; [|discriminate Hs]. destruct v; try discriminate Hv. apply pack_str_no_crash.
  - destruct f as [[i| | | | |n|n|n]|]; nc.
Qed.

Lemma encode_list_no_crash (enc : value -> eres (list Z)) l :
  Forall (fun x => no_crash (enc x)) l -> no_crash (encode_list enc l).
Proof.
  induction 1 as [|x r Hx _ IH]; [nc|].
  cbn [encode_list]. fold (encode_list enc). unfold ebind.
  destruct (enc x) as [bx|e] eqn:E; [|exact Hx].
  destruct (encode_list enc r) as [br|e] eqn:Er; [nc|exact IH].
Qed.

Lemma key_in_spec k l : key_in k l = true <-> In k l.
Proof.
  unfold key_in. rewrite existsb_exists. split.
  - intros (x & Hx & E). apply key_eqb_eq in E. subst; auto.
  - intros H. exists k. split; auto. apply key_eqb_refl.
Qed.

(* validation protects the encoder *)
Theorem valid_protects_encoder s : shape_ok s = true ->
  forall v, valid s v = true -> no_crash (encode s v).
Proof.
  induction s as [t f nt | m it IH | req ps IH] using schema_ind'; intros Hs v Hv.
  - apply (leaf_no_crash t f nt); auto.
  - destruct v as [| | | | |l|]; try discriminate Hv.
    cbn [shape_ok] in Hs. cbn [valid] in Hv. rewrite forallb_forall in Hv.
    rewrite encode_arr_eq.
    assert (HL : no_crash (encode_list (encode it) l)).
    { apply encode_list_no_crash. apply Forall_forall. intros x Hx. apply IH; auto. }
    destruct m as [n| |f]; auto.
    + destruct (Z.of_nat (length l) =? n); [auto|nc].
    + destruct (Z.of_nat (length l) <? imod f); [|nc].
      unfold ebind. destruct (encode_list (encode it) l) eqn:E; [nc|exact HL].
  - destruct v as [| | | | | |kv]; try discriminate Hv.
    rewrite valid_obj_eq in Hv. apply andb_true_iff in Hv as [Hv Hf]. apply andb_true_iff in Hv as [Hr _].
    rewrite forallb_forall in Hr. cbn [shape_ok] in Hs. rewrite forallb_forall in Hs.
    rewrite encode_obj_eq.
    assert (G : forall qs, (forall p, In p qs -> In p ps) -> valid_fields valid kv qs = true ->
                           no_crash (encode_fields encode kv qs)).
    { induction qs as [|[[k m] sub] r IHq]; intros Hsub Hvf; [nc|].
      cbn [valid_fields] in Hvf. fold (valid_fields valid kv) in Hvf.
      apply andb_true_iff in Hvf as [Hx Hvr].
      assert (Hin : In (k, m, sub) ps) by (apply Hsub; left; reflexivity).
      specialize (Hs _ Hin). cbn [fst snd] in Hs. unfold pkey in Hs; cbn [fst] in Hs.
      apply andb_true_iff in Hs as [Hs Hd]. apply andb_true_iff in Hs as [Hsh Hreq].
      rewrite Forall_forall in IH. specialize (IH _ Hin Hsh). cbn [snd] in IH.
      cbn [encode_fields]. fold (encode_fields encode kv). unfold ebind.
      assert (Hrest : no_crash (encode_fields encode kv r))
        by (apply IHq; auto; intros p Hp; apply Hsub; right; auto).
      assert (Hdflt : forall d, p_default m = Some d ->
                no_crash (match encode sub d with
                          | EOk bs => match encode_fields encode kv r with EOk rs => EOk (bs ++ rs) | EErr e => EErr e end
                          | EErr e => EErr e end)).
      { intros d Dm. rewrite Dm in Hd. specialize (IH d Hd). destruct (encode sub d) eqn:E; [|exact IH].
        destruct (encode_fields encode kv r) eqn:Er; [nc|exact Hrest]. }
      destruct (lookup k kv) as [x|] eqn:Lk.
      - specialize (IH x Hx). destruct (encode sub x) as [bx|e] eqn:E.
        + destruct (encode_fields encode kv r) eqn:Er; [nc|exact Hrest].
        + destruct e; try exact IH; exfalso; apply (IH EKey eq_refl); left; reflexivity.
      - destruct (p_default m) as [d|] eqn:Dm.
        + apply Hdflt; auto.
        + (* absent, no default: then it is required, and validation saw it missing *)
          exfalso. rewrite orb_false_r in Hreq. apply key_in_spec in Hreq.
          unfold req_of in Hreq. specialize (Hr k). destruct req as [rq|]; [|destruct Hreq].
          specialize (Hr Hreq). rewrite Lk in Hr. discriminate. }
    apply G; auto.
Qed.

(* hence, for a validated value, the except-KeyError branch of object_encode is never taken *)
Lemma normal_path s v (dflt : eres (list Z)) :
  shape_ok s = true -> valid s v = true ->
  match encode s v with EErr EKey => dflt | r => r end = encode s v.
Proof.
  intros Hs Hv. pose proof (valid_protects_encoder s Hs v Hv) as H.
  destruct (encode s v) as [bs|e]; auto. destruct e; auto.
  exfalso. apply (H EKey eq_refl). left; reflexivity.
Qed.

End Shape.

(* non-vacuity: the example schema obeys the rules everywhere, its value validates and encodes;
   and the F9c witness is exactly a schema that is accepted although shape_ok is false *)
Example valid_protects_encoder_ex :
  shape_ok (modify ex_schema) = true /\ valid (modify ex_schema) ex_value = true /\
  (let t := {| t_nullable := false; t_schema :=
                SObj None [([111], {| p_index := 0; p_default := None |},
                            SObj (Some []) [([97], {| p_index := 0; p_default := None |},
                                             SLeaf TInteger (Some (BInt Ii)) 0%nat)])] |} in
   construct t = CAccept /\ shape_ok (modify (t_schema t)) = false).
Proof. vm_compute. auto. Qed.
