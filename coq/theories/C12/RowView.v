(* C12 — rows handed out by the access paths of a tree sequence / table collection.
   Executable definitions only (the lemmas are in RowViewProofs.v).

   Every public entry point that hands out a row object of table k builds it with
   metadata_decoder = <schema of table k>.decode_row and the row's stored bytes
   (python/tskit/metadata.py 1012-1068 lazy_decode / _CachedMetadata: row.metadata is
   decoder(stored bytes), computed on first access):
     trees.py  TreeSequence.individual / node / edge / migration / mutation / site / population
               (6110-6311: metadata_decoder=self.table_metadata_schemas.<k>.decode_row),
               SimpleContainerSequence (4028-4047: ts.edges(), nodes(), sites(), migrations(),
               individuals(), populations() call those getters), TreeSequence.mutations
               (4971-4990: site.mutations of ts.sites()), Tree.sites / Tree.mutations
               (2170-2200: tree_sequence.site(id)), Variant.site (genotypes.py 136-141),
               TreeSequence._edge_diffs_forward / _edge_diffs_reverse (4808-4912: six Edge(...)
               construction sites, two of them in the include_terminal epilogues);
     tables.py MetadataTable._make_row (714-715: row_class( *args,
               metadata_decoder=self.metadata_schema.decode_row)) used by BaseTable.__getitem__
               (495-534) and therefore by iteration, slices and copies of a table.
   [schemas] lists the schemas of the tables (as the user wrote them; the implementation works on
   modify_schema of each), [k] is the table a row belongs to, [buf] its stored metadata bytes.
   What a row of table k shows does not depend on the path that produced the row object. *)
From Coq Require Import List ZArith Bool.
From TskVerif Require Import Base.Common Gen.Generated C12.Model.
Import ListNotations.
Open Scope Z_scope.

Definition row_view (widen32 : Z -> Z) (schemas : list top) (k : nat) (buf : list Z) : dres :=
  match nth_error schemas k with
  | Some t => decode_top widen32 (rt_fuel buf) (modify_top t) buf
  | None => DErr EOther
  end.

(* the correspondence check: [od] is what some access path showed as row.metadata for a row of
   table k whose stored bytes are [buf] *)
Definition check_row_view (schemas : list top) (k : nat) (buf : list Z) (od : odec) : bool :=
  match nth_error schemas k with
  | Some t => check_decode t buf od
  | None => false
  end.
