(* C12 — StructCodec.order_by_index: two stable sorts (by name, then by index) give the
   properties in (index, name) lexicographic order; it is a permutation. *)
From Coq Require Import List ZArith Bool Lia Permutation Sorting.
From TskVerif Require Import Base.Common C12.Model C12.BytesProofs C12.Unfold C12.ValidProofs C12.ShapeProofs
  C12.RoundTripProofs C12.LayoutProofs.
Import ListNotations.
Open Scope Z_scope.

(* ------------------------------------------------------------ the order on names *)

Ltac zcmp :=
  repeat match goal with
         | |- context [?x <? ?y] => destruct (Z.ltb_spec x y)
         | H : context [?x <? ?y] |- _ => destruct (Z.ltb_spec x y)
         end.

Lemma key_ltb_asym a : forall b, key_ltb a b = true -> key_ltb b a = false.
Proof.
  induction a as [|x a IH]; intros [|y b]; simpl; intros H; try discriminate; auto.
  zcmp; try lia; try discriminate; auto.
Qed.

(* negative transitivity: not (b < a), not (c < b) -> not (c < a) *)
Lemma key_ltb_negtrans a : forall b c,
  key_ltb b a = false -> key_ltb c b = false -> key_ltb c a = false.
Proof.
  induction a as [|x a IH]; intros [|y b] [|z c]; simpl; intros H1 H2; try discriminate; auto.
  zcmp; try lia; try discriminate; auto.
  eapply IH; eauto.
Qed.

Lemma key_leb_total a b : key_leb a b = false -> key_leb b a = true.
Proof.
  unfold key_leb. intros H. apply negb_false_iff in H. apply negb_true_iff. apply key_ltb_asym; auto.
Qed.

Lemma key_leb_trans a b c : key_leb a b = true -> key_leb b c = true -> key_leb a c = true.
Proof.
  unfold key_leb. rewrite !negb_true_iff. intros H1 H2. eapply key_ltb_negtrans; eauto.
Qed.

(* ------------------------------------------------------------ insertion sort *)

Section Sort.
Variable leb : prop -> prop -> bool.

Lemma insert_perm p l : Permutation (insert_by leb p l) (p :: l).
Proof.
  induction l as [|q r IH]; simpl; auto.
  destruct (leb p q); auto.
  rewrite IH. apply perm_swap.
Qed.

Lemma sort_perm l : Permutation (sort_by leb l) l.
Proof.
  induction l as [|p r IH]; simpl; auto.
  unfold sort_by in *. simpl. rewrite insert_perm. auto.
Qed.

Lemma Forall_insert (P : prop -> Prop) p l : P p -> Forall P l -> Forall P (insert_by leb p l).
Proof.
  intros Hp Hl. eapply Permutation_Forall; [symmetry; apply insert_perm|]. constructor; auto.
Qed.

Hypothesis leb_total : forall p q, leb p q = false -> leb q p = true.
Hypothesis leb_trans : forall p q r, leb p q = true -> leb q r = true -> leb p r = true.

Lemma insert_sorted p l :
  StronglySorted (fun a b => leb a b = true) l ->
  StronglySorted (fun a b => leb a b = true) (insert_by leb p l).
Proof.
  induction 1 as [|q r Hr IH Hq]; simpl.
  - repeat constructor.
  - destruct (leb p q) eqn:E.
    + constructor; [constructor; auto|]. constructor; auto.
      eapply Forall_impl; [|exact Hq]. intros a Ha. eapply leb_trans; eauto.
    + constructor; auto. apply Forall_insert; auto.
Qed.

Lemma sort_sorted l : StronglySorted (fun a b => leb a b = true) (sort_by leb l).
Proof.
  induction l as [|p r IH]; [constructor|]. unfold sort_by in *. simpl. apply insert_sorted; auto.
Qed.
End Sort.

(* ------------------------------------------------------------ (index, name) order *)

Definition K (p q : prop) : Prop := key_leb (pkey p) (pkey q) = true.
Definition L (p q : prop) : Prop := pidx p < pidx q \/ (pidx p = pidx q /\ K p q).
Definition idx_leb (p q : prop) : bool := pidx p <=? pidx q.
Definition name_leb (p q : prop) : bool := key_leb (pkey p) (pkey q).

Lemma L_idx p q : L p q -> pidx p <= pidx q.
Proof. unfold L; lia. Qed.

(* inserting by index an element that is name-<= everything already there keeps (index,name)
   order: this is exactly where the stability of Python's sort is used *)
Lemma insert_lex p l :
  Forall (K p) l -> StronglySorted L l -> StronglySorted L (insert_by idx_leb p l).
Proof.
  intros HK HS; revert HK; induction HS as [|q r Hr IH Hq]; intros HK; simpl.
  - repeat constructor.
  - inversion HK as [|? ? Kq Kr]; subst.
    unfold idx_leb at 1. destruct (Z.leb_spec (pidx p) (pidx q)) as [Hle|Hgt].
    + constructor; [constructor; auto|].
      constructor.
      * unfold L. destruct (Z.eq_dec (pidx p) (pidx q)); [right; auto | left; lia].
      * rewrite Forall_forall in *. intros x Hx.
        pose proof (L_idx _ _ (Hq x Hx)). unfold L.
        destruct (Z.eq_dec (pidx p) (pidx x)); [right; split; auto | left; lia].
    + constructor; auto.
      apply Forall_insert; auto. unfold L. left; lia.
Qed.

Lemma sort_lex l : StronglySorted K l -> StronglySorted L (sort_by idx_leb l).
Proof.
  induction 1 as [|p r Hr IH Hp]; [constructor|].
  unfold sort_by in *. simpl. apply insert_lex; auto.
  eapply Permutation_Forall; [symmetry; apply sort_perm|]. exact Hp.
Qed.

Theorem sort_props_spec ps :
  Permutation (sort_props ps) ps /\ StronglySorted L (sort_props ps).
Proof.
  unfold sort_props. split.
  - rewrite sort_perm. apply sort_perm.
  - apply sort_lex.
    apply (sort_sorted name_leb).
    + intros p q. apply key_leb_total.
    + intros p q r. apply key_leb_trans.
Qed.

(* (b) part 3: the implementation's object encoding = concatenation of the fields in
   (index, name) order — ties on index broken by name — of the ordered schema *)
Theorem ordered_object_layout round32 req ps kv bs :
  shape_ok (order_by_index (SObj req ps)) = true ->
  valid (order_by_index (SObj req ps)) (VObj kv) = true ->
  encode round32 (order_by_index (SObj req ps)) (VObj kv) = EOk bs ->
  exists ps' parts,
    order_by_index (SObj req ps) = SObj req ps' /\
    Permutation (map fst ps') (map fst ps) /\
    StronglySorted L ps' /\
    Forall2 (fun (p : prop) part =>
               exists x, field_src kv p = Some x /\ encode round32 (snd p) x = EOk part) ps' parts /\
    bs = concat parts.
Proof.
  intros Hs Hv He. cbn [order_by_index] in *.
  set (ps' := sort_props (map (fun p : prop => (fst p, order_by_index (snd p))) ps)) in *.
  destruct (object_layout _ _ _ _ _ Hs Hv He) as (parts & HF & ->).
  exists ps', parts. repeat split; auto.
  - subst ps'. destruct (sort_props_spec (map (fun p : prop => (fst p, order_by_index (snd p))) ps)) as [HP _].
    rewrite (Permutation_map fst HP). rewrite map_map. simpl. apply Permutation_refl.
  - apply sort_props_spec.
Qed.

(* index ties: z(0) a(1) m(0) B(-) q(-2) r(1)  ->  q, B, m, z, a, r   (B < m < z by name) *)
Example sort_props_ex :
  let mk k i := ((k, {| p_index := i; p_default := None |}, SLeaf TNull None 0%nat) : prop) in
  map pkey (sort_props [mk [122] 0; mk [97] 4; mk [109] 0; mk [66] 0; mk [113] (-2); mk [114] 4])
  = [[113]; [66]; [109]; [122]; [97]; [114]].
Proof. reflexivity. Qed.
