(* C12 — the numpy structured view has the struct layout: for every schema numpy_dtype accepts,
   the leaves of the packed dtype, in memory order, have the sizes of the binaryFormats in
   encoding order, their offsets are the running sums of those sizes, and the itemsize is the
   size of the encoded row. *)
From Coq Require Import List ZArith Bool Lia.
From TskVerif Require Import Base.Common Gen.Generated C12.Model C12.BytesProofs C12.Unfold C12.ValidProofs
  C12.ShapeProofs C12.RoundTripProofs C12.LayoutProofs.
Import ListNotations.
Open Scope Z_scope.

(* sizes of the dtype's leaves in memory order *)
Fixpoint dt_flat (d : dtype) : list Z :=
  match d with
  | DLeaf _ sz => [sz]
  | DSub n d => concat (repeat (dt_flat d) (Z.to_nat n))
  | DStruct fs => flat_map (fun e : key * dtype => dt_flat (snd e)) fs
  end.

(* sizes of the encoded leaves of a fixed-size schema, in encoding order *)
Definition osequence (l : list (option (list Z))) : option (list Z) :=
  fold_right (fun o acc => match o, acc with Some a, Some b => Some (a ++ b) | _, _ => None end) (Some []) l.

Fixpoint flat_sizes (s : schema) : option (list Z) :=
  match s with
  | SLeaf t f _ => option_map (fun z => [z]) (leaf_size t f)
  | SArr (AFixed n) it =>
      match flat_sizes it with
      | Some l => if n <? 0 then None else Some (concat (repeat l (Z.to_nat n)))
      | None => None
      end
  | SArr _ _ => None
  | SObj _ ps => osequence (map (fun p : prop => flat_sizes (snd p)) ps)
  end.

Definition zsum (l : list Z) : Z := fold_right Z.add 0 l.

Fixpoint prefix_sums (base : Z) (l : list Z) : list Z :=
  match l with [] => [] | x :: r => base :: prefix_sums (base + x) r end.

Lemma zsum_app a b : zsum (a ++ b) = zsum a + zsum b.
Proof. induction a; simpl; lia. Qed.

Lemma zsum_concat_repeat l n : zsum (concat (repeat l n)) = Z.of_nat n * zsum l.
Proof. induction n; [reflexivity|]. cbn [repeat concat]. rewrite zsum_app, IHn. lia. Qed.

Lemma prefix_sums_app b a c : prefix_sums b (a ++ c) = prefix_sums b a ++ prefix_sums (b + zsum a) c.
Proof.
  revert b; induction a as [|x a IH]; intros b; simpl.
  - f_equal. lia.
  - f_equal. rewrite IH. f_equal. f_equal. lia.
Qed.

(* FORMAT_TO_DTYPE: the itemsize of every entry is the struct size of its format *)
Lemma lookup_fmt_size f kind sz :
  lookup_fmt (bchar f) c12_format_to_dtype = Some (kind, sz) ->
  match f with BStr _ | BPas _ | BPad _ => True | _ => sz = bsize f end.
Proof.
  destruct f as [i| | | | |n|n|n]; auto; try destruct i; vm_compute; intros H; inversion H; reflexivity.
Qed.

Lemma np_leaf_sizes t f d :
  np_leaf t f = NOk d -> exists k sz, d = DLeaf k sz /\ leaf_size t f = Some sz.
Proof.
  unfold np_leaf, leaf_size. intros H.
  destruct t; destruct f as [f|]; try discriminate H.
  1-4: destruct f as [i| | | | |n|n|n]; cbn [bsize];
    try (destruct (Z.ltb_spec n 0); [discriminate H|]; injection H as <-; eauto; fail);
    try discriminate H;
    (match type of H with
     | match lookup_fmt (bchar ?F) _ with _ => _ end = _ =>
         destruct (lookup_fmt (bchar F) c12_format_to_dtype) as [[k sz]|] eqn:E; [|discriminate H];
         injection H as <-; apply lookup_fmt_size in E; cbn in E; subst sz;
         do 2 eexists; split; [reflexivity|]; cbn [bsize];
         match goal with |- (if ?c then _ else _) = _ => destruct c eqn:C; [|reflexivity] end;
         exfalso; try destruct i; cbn in C; discriminate C
     end).
  - (* TNull with a format *)
    destruct f as [i| | | | |n|n|n]; cbn [bsize];
      try (destruct (Z.ltb_spec n 0); [discriminate H|]; injection H as <-; eauto; fail);
      try discriminate H;
      (match type of H with
       | match lookup_fmt (bchar ?F) _ with _ => _ end = _ =>
           destruct (lookup_fmt (bchar F) c12_format_to_dtype) as [[k sz]|] eqn:E; [|discriminate H];
           injection H as <-; apply lookup_fmt_size in E; cbn in E; subst sz;
           do 2 eexists; split; [reflexivity|]; cbn [bsize];
           match goal with |- (if ?c then _ else _) = _ => destruct c eqn:C; [|reflexivity] end;
           exfalso; try destruct i; cbn in C; discriminate C
       end).
  - (* TNull without format: V0 *)
    cbn in H. injection H as <-. eauto.
Qed.

Definition np_fields : list prop -> fres :=
  fix go (ps : list prop) : fres :=
    match ps with
    | [] => FOk []
    | (k, _, sub) :: r =>
        match np_dtype sub with
        | NOk d => match go r with FOk fs => FOk ((k, d) :: fs) | FErr e => FErr e end
        | e => FErr e
        end
    end.

Lemma np_dtype_obj req ps :
  np_dtype (SObj req ps) = match np_fields ps with FOk fs => NOk (DStruct fs) | FErr e => e end.
Proof. reflexivity. Qed.

Lemma np_fields_err ps e d : np_fields ps = FErr e -> e <> NOk d.
Proof.
  revert e; induction ps as [|[[k m] sub] r IH]; intros e H; [discriminate H|].
  cbn [np_fields] in H. fold np_fields in H.
  destruct (np_dtype sub) eqn:Ed.
  - destruct (np_fields r) eqn:Er; [discriminate H|]. injection H as <-. eapply IH; eauto.
  - injection H as <-. discriminate.
  - injection H as <-. discriminate.
Qed.

(* numpy_view_agrees *)
Theorem numpy_view_agrees s : forall d,
  np_dtype s = NOk d ->
  flat_sizes s = Some (dt_flat d) /\ fixed_size s = Some (dt_itemsize d) /\ dt_itemsize d = zsum (dt_flat d).
Proof.
  induction s as [t f nt | m it IH | req ps IH] using schema_ind'; intros d H.
  - cbn [np_dtype] in H. apply np_leaf_sizes in H as (k & sz & -> & Hs).
    cbn [flat_sizes fixed_size dt_flat dt_itemsize zsum fold_right]. rewrite Hs. repeat split; simpl; try reflexivity; lia.
  - cbn [np_dtype] in H. destruct m as [n| |f]; try discriminate H.
    destruct (np_dtype it) as [di| |] eqn:E; try discriminate H.
    destruct (Z.ltb_spec n 0); [discriminate H|]. injection H as <-.
    destruct (IH di eq_refl) as (Hf & Hz & Hi).
    cbn [flat_sizes fixed_size dt_flat dt_itemsize]. rewrite Hf, Hz.
    destruct (Z.ltb_spec n 0); [lia|]. repeat split.
    rewrite zsum_concat_repeat, <- Hi, Z2Nat.id by lia. reflexivity.
  - rewrite np_dtype_obj in H. destruct (np_fields ps) as [fs|e] eqn:E; [|exfalso; eapply np_fields_err; eauto].
    injection H as <-. rewrite fixed_size_obj. cbn [flat_sizes dt_flat dt_itemsize].
    revert fs E. induction IH as [|[[k m] sub] r Hp _ IHr]; intros fs E.
    + injection E as <-. repeat split.
    + cbn [np_fields] in E. fold np_fields in E. cbn [snd] in Hp.
      destruct (np_dtype sub) as [dd| |] eqn:Ed; try discriminate E.
      destruct (np_fields r) as [fr|] eqn:Er; [|discriminate E]. injection E as <-.
      destruct (Hp dd eq_refl) as (Hf & Hz & Hi). destruct (IHr fr eq_refl) as (Hfr & Hzr & Hir).
      cbn [map osequence fold_right fields_size snd flat_map]. fold fields_size.
      fold (osequence (map (fun p : prop => flat_sizes (snd p)) r)).
      rewrite Hf, Hz. cbn [flat_sizes] in Hfr. rewrite Hfr, Hzr.
      repeat split. rewrite zsum_app, <- Hi. cbn [dt_itemsize] in Hir. rewrite <- Hir. reflexivity.
Qed.

(* ------------------------------------------------------------ numpy's packing rule *)

Section DtypeInd.
  Variable P : dtype -> Prop.
  Hypothesis Hleaf : forall k sz, P (DLeaf k sz).
  Hypothesis Hsub : forall n d, P d -> P (DSub n d).
  Hypothesis Hstruct : forall fs, Forall (fun e : key * dtype => P (snd e)) fs -> P (DStruct fs).
  Fixpoint dtype_ind' (d : dtype) : P d :=
    match d with
    | DLeaf k sz => Hleaf k sz
    | DSub n d => Hsub n d (dtype_ind' d)
    | DStruct fs =>
        Hstruct fs ((fix go (fs : list (key * dtype)) : Forall (fun e : key * dtype => P (snd e)) fs :=
                       match fs with
                       | [] => Forall_nil _
                       | e :: r => Forall_cons e (dtype_ind' (snd e)) (go r)
                       end) fs)
    end.
End DtypeInd.

Fixpoint dt_nonneg (d : dtype) : Prop :=
  match d with
  | DLeaf _ _ => True
  | DSub n d => 0 <= n /\ dt_nonneg d
  | DStruct fs => (fix go (fs : list (key * dtype)) : Prop :=
                     match fs with [] => True | e :: r => dt_nonneg (snd e) /\ go r end) fs
  end.

Definition struct_layout_of : list (key * dtype) -> Z -> list (Z * Z * Z) :=
  fix go (fs : list (key * dtype)) (base : Z) : list (Z * Z * Z) :=
    match fs with
    | [] => []
    | (_, d) :: r => dt_layout d base ++ go r (base + dt_itemsize d)
    end.

Lemma dt_layout_struct fs base : dt_layout (DStruct fs) base = struct_layout_of fs base.
Proof. reflexivity. Qed.

Definition offs (l : list (Z * Z * Z)) : list Z := map (fun x => fst (fst x)) l.
Definition sizes (l : list (Z * Z * Z)) : list Z := map (fun x => snd (fst x)) l.

Lemma layout_sub d base :
  (forall b, offs (dt_layout d b) = prefix_sums b (dt_flat d) /\ sizes (dt_layout d b) = dt_flat d) ->
  dt_itemsize d = zsum (dt_flat d) ->
  forall k b0,
  offs (flat_map (fun i => dt_layout d (base + Z.of_nat i * dt_itemsize d)) (seq b0 k))
  = prefix_sums (base + Z.of_nat b0 * dt_itemsize d) (concat (repeat (dt_flat d) k)) /\
  sizes (flat_map (fun i => dt_layout d (base + Z.of_nat i * dt_itemsize d)) (seq b0 k))
  = concat (repeat (dt_flat d) k).
Proof.
  intros Hd Hi k; induction k; intros b0; [split; reflexivity|].
  cbn [seq flat_map repeat concat]. unfold offs, sizes in *. rewrite !map_app.
  destruct (Hd (base + Z.of_nat b0 * dt_itemsize d)) as [Ho Hs]. destruct (IHk (S b0)) as [IHo IHs].
  rewrite Ho, Hs, IHo, IHs, prefix_sums_app. split; [|reflexivity].
  f_equal. f_equal. rewrite <- Hi. lia.
Qed.

(* for every dtype with non-negative sub-array lengths: itemsize = sum of the leaf sizes, and
   the leaves sit at the running sums of the sizes before them *)
Theorem packed_layout d : dt_nonneg d ->
  dt_itemsize d = zsum (dt_flat d) /\
  forall base, offs (dt_layout d base) = prefix_sums base (dt_flat d) /\ sizes (dt_layout d base) = dt_flat d.
Proof.
  induction d as [k sz | n d IH | fs IH] using dtype_ind'; intros Hn.
  - split; [simpl; lia|]. intros base. split; reflexivity.
  - destruct Hn as [Hn Hd]. destruct (IH Hd) as [Hi Hl].
    split.
    + cbn [dt_itemsize dt_flat]. rewrite zsum_concat_repeat, <- Hi, Z2Nat.id by lia. reflexivity.
    + intros base. cbn [dt_layout dt_flat].
      destruct (layout_sub d base Hl Hi (Z.to_nat n) 0%nat) as [Ho Hs].
      rewrite Ho, Hs. split; [|reflexivity]. f_equal. lia.
  - cbn [dt_itemsize dt_flat]. setoid_rewrite dt_layout_struct.
    induction IH as [|[k d] r Hp _ IHr]; [split; [reflexivity|intros; split; reflexivity]|].
    destruct Hn as [Hd Hr]. cbn [snd] in *. destruct (Hp Hd) as [Hi Hl]. destruct (IHr Hr) as [Hir Hlr].
    split.
    + cbn [fold_right flat_map snd]. rewrite zsum_app, <- Hi, <- Hir. reflexivity.
    + intros base. cbn [struct_layout_of flat_map snd]. unfold offs, sizes in *. rewrite !map_app.
      destruct (Hl base) as [Ho Hs]. destruct (Hlr (base + dt_itemsize d)) as [Hor Hsr].
      rewrite Ho, Hs, Hor, Hsr, prefix_sums_app, <- Hi. split; reflexivity.
Qed.

Lemma np_dtype_nonneg s : forall d, np_dtype s = NOk d -> dt_nonneg d.
Proof.
  induction s as [t f nt | m it IH | req ps IH] using schema_ind'; intros d H.
  - cbn [np_dtype] in H. apply np_leaf_sizes in H as (k & sz & -> & _). exact I.
  - cbn [np_dtype] in H. destruct m as [n| |f]; try discriminate H.
    destruct (np_dtype it) as [di| |] eqn:E; try discriminate H.
    destruct (Z.ltb_spec n 0); [discriminate H|]. injection H as <-. split; [lia|]. apply IH; auto.
  - rewrite np_dtype_obj in H. destruct (np_fields ps) as [fs|e] eqn:E; [|exfalso; eapply np_fields_err; eauto].
    injection H as <-. revert fs E. induction IH as [|[[k m] sub] r Hp _ IHr]; intros fs E.
    + injection E as <-. exact I.
    + cbn [np_fields] in E. fold np_fields in E. cbn [snd] in Hp.
      destruct (np_dtype sub) as [dd| |] eqn:Ed; try discriminate E.
      destruct (np_fields r) as [fr|] eqn:Er; [|discriminate E]. injection E as <-.
      split; [apply Hp; auto | apply (IHr fr eq_refl)].
Qed.

(* numpy_view_agrees, offsets: the k-th leaf of the structured view starts where the k-th
   encoded leaf of the row starts, and is as wide *)
Theorem numpy_offsets_are_struct_offsets s d l :
  np_dtype s = NOk d -> flat_sizes s = Some l ->
  offs (dt_layout d 0) = prefix_sums 0 l /\ sizes (dt_layout d 0) = l /\ dt_itemsize d = zsum l.
Proof.
  intros Hd Hl. destruct (numpy_view_agrees s d Hd) as (Hf & _ & _).
  rewrite Hf in Hl. injection Hl as <-.
  destruct (packed_layout d (np_dtype_nonneg s d Hd)) as [Hi Hb]. destruct (Hb 0) as [Ho Hs]. auto.
Qed.

Example numpy_view_ex :
  let s := modify (SObj None
     [([97], {| p_index := 0; p_default := None |}, SArr (AFixed 2) (SLeaf TInteger (Some (BInt IH)) 0%nat));
      ([98], {| p_index := 0; p_default := None |}, SLeaf TString (Some (BStr 3)) 0%nat);
      ([99], {| p_index := 0; p_default := None |}, SObj None
          [([120], {| p_index := 0; p_default := None |}, SLeaf TNumber (Some BDouble) 0%nat);
           ([121], {| p_index := 0; p_default := None |}, SLeaf TNull (Some (BPad 2)) 0%nat)])]) in
  exists d, np_dtype s = NOk d /\ dt_itemsize d = 17 /\
            dt_layout d 0 = [(0, 2, 117); (2, 2, 117); (4, 3, 83); (7, 8, 102); (15, 2, 86)] /\
            flat_sizes s = Some [2; 2; 3; 8; 2].
Proof. eexists. vm_compute. repeat split. Qed.

(* ts.<table>_metadata: the view of table k has the struct layout of table k's own schema *)
Theorem table_view_own_schema schemas k t d l :
  nth_error schemas k = Some t -> table_view schemas k = NOk d ->
  flat_sizes (modify (t_schema t)) = Some l ->
  t_nullable t = false /\
  offs (dt_layout d 0) = prefix_sums 0 l /\ sizes (dt_layout d 0) = l /\ dt_itemsize d = zsum l.
Proof.
  intros Hk Hv Hl. unfold table_view in Hv. rewrite Hk in Hv. unfold np_dtype_top, modify_top in Hv.
  cbn [t_nullable t_schema] in Hv. destruct (t_nullable t); [discriminate|]. split; auto.
  eapply numpy_offsets_are_struct_offsets; eauto.
Qed.
