(* C12 — a schema survives its string form.  MetadataSchema.__repr__ is canonical_json of the
   modified schema (keys sorted alphabetically at every level, lists untouched);
   parse_metadata_schema loads it and runs modify_schema again.  In the model: sorting every
   property list by name ([canon]) and modifying again gives the same codec schema. *)
From Coq Require Import List ZArith Bool Lia Permutation Sorting.
From TskVerif Require Import Base.Common C12.Model C12.BytesProofs C12.Unfold C12.RoundTripProofs C12.LayoutProofs
  C12.OrderProofs C12.ValidProofs C12.NormProofs.
Import ListNotations.
Open Scope Z_scope.

(* ------------------------------------------------------------ uniqueness of the sorted order *)

Lemma key_ltb_total a : forall b, key_ltb a b = false -> key_ltb b a = false -> a = b.
Proof.
  induction a as [|x a IH]; intros [|y b]; simpl; intros H1 H2; try discriminate; auto.
  destruct (Z.ltb_spec x y); [discriminate|].
  destruct (Z.ltb_spec y x); [discriminate|].
  assert (x = y) by lia. subst. f_equal. apply IH; auto.
Qed.

Lemma key_leb_antisym a b : key_leb a b = true -> key_leb b a = true -> a = b.
Proof.
  unfold key_leb. rewrite !negb_true_iff. intros H1 H2. apply key_ltb_total; auto.
Qed.

Lemma L_antisym p q : L p q -> L q p -> pkey p = pkey q.
Proof.
  unfold L, K. intros [H1|[E1 K1]] [H2|[E2 K2]]; try lia. apply key_leb_antisym; auto.
Qed.

Lemma nodup_key_inj (l : list prop) p q :
  NoDup (map pkey l) -> In p l -> In q l -> pkey p = pkey q -> p = q.
Proof.
  induction l as [|a r IH]; intros Hnd Hp Hq E; [destruct Hp|].
  cbn [map] in Hnd. inversion Hnd as [|? ? Hnot Hnd']; subst.
  destruct Hp as [<-|Hp], Hq as [<-|Hq]; auto.
  - exfalso. apply Hnot. rewrite E. apply in_map; auto.
  - exfalso. apply Hnot. rewrite <- E. apply in_map; auto.
Qed.

Lemma sorted_perm_unique (l1 : list prop) : forall l2,
  StronglySorted L l1 -> StronglySorted L l2 -> Permutation l1 l2 -> NoDup (map pkey l1) -> l1 = l2.
Proof.
  induction l1 as [|a r1 IH]; intros l2 S1 S2 HP Hnd.
  - apply Permutation_nil in HP. auto.
  - destruct l2 as [|b r2]; [apply Permutation_sym, Permutation_nil in HP; discriminate|].
    inversion S1 as [|? ? S1' F1]; subst. inversion S2 as [|? ? S2' F2]; subst.
    assert (a = b) as ->.
    { assert (Ha : In a (b :: r2)) by (eapply Permutation_in; [exact HP|left; auto]).
      assert (Hb : In b (a :: r1)) by (eapply Permutation_in; [symmetry; exact HP|left; auto]).
      destruct Ha as [<-|Ha]; auto. destruct Hb as [->|Hb]; auto.
      rewrite Forall_forall in F1, F2.
      apply (nodup_key_inj (a :: r1)); auto; [left; auto | right; auto |].
      apply L_antisym; auto. }
    f_equal. apply IH; auto.
    + eapply Permutation_cons_inv; eauto.
    + cbn [map] in Hnd. inversion Hnd; auto.
Qed.

(* order_by_index depends only on the set of properties, not on the order they are given in *)
Theorem sort_props_perm_invariant ps ps' :
  Permutation ps ps' -> NoDup (map pkey ps) -> sort_props ps = sort_props ps'.
Proof.
  intros HP Hnd.
  destruct (sort_props_spec ps) as [P1 S1]. destruct (sort_props_spec ps') as [P2 S2].
  apply sorted_perm_unique; auto.
  - rewrite P1, P2. auto.
  - eapply Permutation_NoDup; [|exact Hnd]. apply Permutation_map. symmetry; auto.
Qed.

Corollary sort_props_idem ps : NoDup (map pkey ps) -> sort_props (sort_props ps) = sort_props ps.
Proof.
  intros Hnd. symmetry. apply sort_props_perm_invariant; auto.
  symmetry. apply sort_props_spec.
Qed.

(* ------------------------------------------------------------ the string form *)

(* canonical_json: every dict — hence every "properties" map — comes back in name order *)
Fixpoint canon (s : schema) : schema :=
  match s with
  | SLeaf _ _ _ => s
  | SArr m it => SArr m (canon it)
  | SObj req ps => SObj req (sort_by name_leb (map (fun p : prop => (fst p, canon (snd p))) ps))
  end.

Definition onsnd (f : schema -> schema) (p : prop) : prop := (fst p, f (snd p)).

Lemma map_pkey_onsnd f ps : map pkey (map (onsnd f) ps) = map pkey ps.
Proof. rewrite map_map. apply map_ext. intros [[k m] s]; reflexivity. Qed.

Lemma order_by_index_obj req ps :
  order_by_index (SObj req ps) = SObj req (sort_props (map (onsnd order_by_index) ps)).
Proof. reflexivity. Qed.

Lemma canon_obj req ps : canon (SObj req ps) = SObj req (sort_by name_leb (map (onsnd canon) ps)).
Proof. reflexivity. Qed.

Definition subs_nodup : list prop -> Prop :=
  fix go (ps : list prop) : Prop := match ps with [] => True | p :: r => nodup_keys (snd p) /\ go r end.

Lemma nodup_keys_obj req ps : nodup_keys (SObj req ps) = (NoDup (map pkey ps) /\ subs_nodup ps).
Proof. reflexivity. Qed.

Lemma subs_nodup_forall ps : subs_nodup ps <-> Forall (fun p : prop => nodup_keys (snd p)) ps.
Proof.
  induction ps as [|p r IH]; simpl; split; intros H; auto.
  - destruct H; constructor; auto. apply IH; auto.
  - inversion H; subst. split; auto. apply IH; auto.
Qed.

(* re-ordering by index after the name sort of the string form changes nothing *)
Theorem order_by_index_canon s : nodup_keys s -> order_by_index (canon s) = order_by_index s.
Proof.
  induction s as [t f nt | m it IH | req ps IH] using schema_ind'; intros Hnd.
  - reflexivity.
  - cbn [canon order_by_index]. f_equal. apply IH. exact Hnd.
  - rewrite nodup_keys_obj in Hnd. destruct Hnd as [Hnd Hsub]. apply subs_nodup_forall in Hsub.
    rewrite canon_obj, !order_by_index_obj. f_equal.
    set (l := map (onsnd canon) ps).
    assert (E : map (onsnd order_by_index) l = map (onsnd order_by_index) ps).
    { subst l. rewrite map_map. apply map_ext_in. intros [[k m] sub] Hin. unfold onsnd. cbn [fst snd].
      f_equal. rewrite Forall_forall in IH, Hsub. apply (IH _ Hin). apply (Hsub _ Hin). }
    rewrite <- E. symmetry. apply sort_props_perm_invariant.
    + apply Permutation_map. symmetry. apply sort_perm.
    + rewrite map_pkey_onsnd. subst l. rewrite map_pkey_onsnd. auto.
Qed.

Lemma nodup_keys_order s : nodup_keys s -> nodup_keys (order_by_index s).
Proof.
  induction s as [t f nt | m it IH | req ps IH] using schema_ind'; intros Hnd; [cbn; auto | |].
  - cbn [order_by_index nodup_keys]. apply IH; auto.
  - rewrite nodup_keys_obj in Hnd. destruct Hnd as [Hnd Hsub]. apply subs_nodup_forall in Hsub.
    rewrite order_by_index_obj, nodup_keys_obj.
    destruct (sort_props_spec (map (onsnd order_by_index) ps)) as [HP _].
    split.
    + eapply Permutation_NoDup; [apply Permutation_map; symmetry; exact HP|].
      rewrite map_pkey_onsnd. auto.
    + apply subs_nodup_forall. eapply Permutation_Forall; [symmetry; exact HP|].
      rewrite Forall_forall in *. intros p Hp. apply in_map_iff in Hp as (q & <- & Hq).
      unfold onsnd; cbn [snd]. apply (IH _ Hq). apply (Hsub _ Hq).
Qed.

Theorem order_by_index_idem s : nodup_keys s -> order_by_index (order_by_index s) = order_by_index s.
Proof.
  induction s as [t f nt | m it IH | req ps IH] using schema_ind'; intros Hnd; [cbn; auto | |].
  - cbn [order_by_index]. f_equal. apply IH; auto.
  - rewrite nodup_keys_obj in Hnd. destruct Hnd as [Hnd Hsub]. apply subs_nodup_forall in Hsub.
    rewrite !order_by_index_obj. f_equal.
    set (l := map (onsnd order_by_index) ps).
    assert (E : map (onsnd order_by_index) l = l).
    { subst l. rewrite map_map. apply map_ext_in. intros [[k m] sub] Hin. unfold onsnd. cbn [fst snd].
      f_equal. rewrite Forall_forall in IH, Hsub. apply (IH _ Hin). apply (Hsub _ Hin). }
    assert (Hl : NoDup (map pkey l)) by (subst l; rewrite map_pkey_onsnd; auto).
    transitivity (sort_props (map (onsnd order_by_index) l)).
    + apply sort_props_perm_invariant.
      * apply Permutation_map. apply sort_props_spec.
      * rewrite map_pkey_onsnd.
        eapply Permutation_NoDup; [apply Permutation_map; symmetry; apply sort_props_spec|]. auto.
    + rewrite E. reflexivity.
Qed.

(* enforce_fixed is the identity once every object carries its "required" list *)
Fixpoint all_req (s : schema) : Prop :=
  match s with
  | SLeaf _ _ _ => True
  | SArr _ it => all_req it
  | SObj req ps => req <> None /\
                   (fix go (ps : list prop) : Prop :=
                      match ps with [] => True | p :: r => all_req (snd p) /\ go r end) ps
  end.

Definition subs_req : list prop -> Prop :=
  fix go (ps : list prop) : Prop := match ps with [] => True | p :: r => all_req (snd p) /\ go r end.

Lemma subs_req_forall ps : subs_req ps <-> Forall (fun p : prop => all_req (snd p)) ps.
Proof.
  induction ps as [|p r IH]; simpl; split; intros H; auto.
  - destruct H; constructor; auto. apply IH; auto.
  - inversion H; subst. split; auto. apply IH; auto.
Qed.

Lemma enforce_fixed_all_req s : all_req (enforce_fixed s).
Proof.
  induction s as [t f nt | m it IH | req ps IH] using schema_ind'; cbn [enforce_fixed all_req]; auto.
  split; [discriminate|]. change (subs_req (map (fun p : prop => (fst p, enforce_fixed (snd p))) ps)).
  apply subs_req_forall. rewrite Forall_forall in *. intros p Hp.
  apply in_map_iff in Hp as (q & <- & Hq). cbn [snd]. apply IH; auto.
Qed.

Lemma enforce_fixed_id s : all_req s -> enforce_fixed s = s.
Proof.
  induction s as [t f nt | m it IH | req ps IH] using schema_ind'; intros H; [cbn; auto | |].
  - cbn [enforce_fixed]. f_equal. apply IH; auto.
  - destruct H as [Hr Hs]. change (subs_req ps) in Hs. apply subs_req_forall in Hs.
    cbn [enforce_fixed]. destruct req as [r|]; [|congruence]. f_equal.
    rewrite <- (map_id ps) at 2. apply map_ext_in. intros [[k m] sub] Hin. cbn [fst snd]. f_equal.
    rewrite Forall_forall in IH, Hs. apply (IH _ Hin). apply (Hs _ Hin).
Qed.

Lemma all_req_perm_map (f : schema -> schema) req ps l :
  req <> None -> Permutation l (map (onsnd f) ps) ->
  Forall (fun p : prop => all_req (f (snd p))) ps -> all_req (SObj req l).
Proof.
  intros Hr HP HF. split; auto. change (subs_req l). apply subs_req_forall.
  eapply Permutation_Forall; [symmetry; exact HP|].
  rewrite Forall_forall in *. intros p Hp. apply in_map_iff in Hp as (q & <- & Hq). cbn [onsnd snd]. auto.
Qed.

Lemma all_req_order s : all_req s -> all_req (order_by_index s).
Proof.
  induction s as [t f nt | m it IH | req ps IH] using schema_ind'; intros H; [cbn; auto | |].
  - cbn [order_by_index all_req]. apply IH; auto.
  - destruct H as [Hr Hs]. change (subs_req ps) in Hs. apply subs_req_forall in Hs.
    rewrite order_by_index_obj.
    eapply all_req_perm_map with (f := order_by_index) (ps := ps); auto.
    + apply sort_props_spec.
    + rewrite Forall_forall in *. intros p Hp. apply (IH _ Hp). apply (Hs _ Hp).
Qed.

Lemma all_req_canon s : all_req s -> all_req (canon s).
Proof.
  induction s as [t f nt | m it IH | req ps IH] using schema_ind'; intros H; [cbn; auto | |].
  - cbn [canon all_req]. apply IH; auto.
  - destruct H as [Hr Hs]. change (subs_req ps) in Hs. apply subs_req_forall in Hs.
    rewrite canon_obj.
    eapply all_req_perm_map with (f := canon) (ps := ps); auto.
    + apply sort_perm.
    + rewrite Forall_forall in *. intros p Hp. apply (IH _ Hp). apply (Hs _ Hp).
Qed.

Lemma nodup_keys_enforce s : nodup_keys s -> nodup_keys (enforce_fixed s).
Proof.
  induction s as [t f nt | m it IH | req ps IH] using schema_ind'; intros Hnd; [cbn; auto | |].
  - cbn [enforce_fixed nodup_keys]. apply IH; auto.
  - rewrite nodup_keys_obj in Hnd. destruct Hnd as [Hnd Hsub]. apply subs_nodup_forall in Hsub.
    cbn [enforce_fixed]. rewrite nodup_keys_obj. split.
    + change (map (fun p : prop => (fst p, enforce_fixed (snd p))) ps) with (map (onsnd enforce_fixed) ps).
      rewrite map_pkey_onsnd. auto.
    + apply subs_nodup_forall. rewrite Forall_forall in *. intros p Hp.
      apply in_map_iff in Hp as (q & <- & Hq). cbn [snd]. apply (IH _ Hq). apply (Hsub _ Hq).
Qed.

(* schema -> str -> parse_metadata_schema: the codec is built from the same ordered schema, so
   encode, decode and validation behave identically *)
Theorem schema_string_roundtrip s : nodup_keys s -> modify (canon (modify s)) = modify s.
Proof.
  intros Hnd. unfold modify.
  set (e := enforce_fixed s).
  assert (He : all_req e) by apply enforce_fixed_all_req.
  assert (Hn : nodup_keys e) by (apply nodup_keys_enforce; auto).
  rewrite enforce_fixed_id by (apply all_req_canon, all_req_order; auto).
  rewrite order_by_index_canon by (apply nodup_keys_order; auto).
  apply order_by_index_idem; auto.
Qed.

Example schema_string_roundtrip_ex :
  modify (canon (modify ex_schema)) = modify ex_schema /\ canon (modify ex_schema) <> ex_schema.
Proof. split; [reflexivity | discriminate]. Qed.

(* Observational immutability (seeded/C12-10's class): in the model a schema is a value, and what a
   table stores is its string form.  The codec schema — hence validate, encode, decode, the numpy
   dtype, everything the correspondence compares — is a function of that string form: two schemas
   with the same canonical form have the same working schema.  The history family schema_aliasing
   checks that the implementation still behaves like this function after objects read out of the
   schema have been mutated. *)
Theorem behaviour_function_of_string s1 s2 :
  nodup_keys s1 -> nodup_keys s2 ->
  canon (modify s1) = canon (modify s2) -> modify s1 = modify s2.
Proof.
  intros H1 H2 E.
  rewrite <- (schema_string_roundtrip s1 H1), <- (schema_string_roundtrip s2 H2), E. reflexivity.
Qed.

Corollary same_string_same_codec round32 widen32 s1 s2 :
  nodup_keys s1 -> nodup_keys s2 -> canon (modify s1) = canon (modify s2) ->
  (forall v, valid (modify s1) v = valid (modify s2) v) /\
  (forall v, encode round32 (modify s1) v = encode round32 (modify s2) v) /\
  (forall fuel buf, decode widen32 fuel (modify s1) buf = decode widen32 fuel (modify s2) buf) /\
  np_dtype (modify s1) = np_dtype (modify s2).
Proof. intros H1 H2 E. rewrite (behaviour_function_of_string s1 s2 H1 H2 E). repeat split. Qed.
