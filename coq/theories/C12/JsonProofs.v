(* C12 — JSON codec: decode (encode v) = defaults ∪ v, Python's json being a Section variable. *)
From Coq Require Import List ZArith Bool Lia.
From TskVerif Require Import Base.Common C12.Model C12.BytesProofs C12.Unfold C12.RoundTripProofs C12.ValidProofs.
Import ListNotations.
Open Scope Z_scope.

Lemma key_eqb_sym a b : key_eqb a b = key_eqb b a.
Proof.
  destruct (key_eqb a b) eqn:E.
  - apply key_eqb_eq in E. subst. symmetry. apply key_eqb_refl.
  - destruct (key_eqb b a) eqn:E'; auto. apply key_eqb_eq in E'. subst. rewrite key_eqb_refl in E. discriminate.
Qed.

Lemma lookup_app k a b :
  lookup k (a ++ b) = match lookup k a with Some x => Some x | None => lookup k b end.
Proof.
  induction a as [|[k' v] r IH]; simpl; auto. destruct (key_eqb k k'); auto.
Qed.

Lemma lookup_map_fill k defaults kv :
  lookup k (map (fun e : key * value =>
                   (fst e, match lookup (fst e) kv with Some x => x | None => snd e end)) defaults) =
  match lookup k defaults with
  | Some d => Some (match lookup k kv with Some x => x | None => d end)
  | None => None
  end.
Proof.
  induction defaults as [|[k' d] r IH]; simpl; auto.
  destruct (key_eqb k k') eqn:E; auto.
  apply key_eqb_eq in E. subst. reflexivity.
Qed.

Lemma lookup_filter_fill k defaults kv :
  lookup k defaults = None ->
  lookup k (filter (fun e : key * value =>
                      match lookup (fst e) defaults with Some _ => false | None => true end) kv) = lookup k kv.
Proof.
  intros Hd. induction kv as [|[k' v] r IH]; simpl; auto.
  destruct (lookup k' defaults) eqn:Ek; simpl.
  - destruct (key_eqb k k') eqn:E; auto. apply key_eqb_eq in E. subst. congruence.
  - destruct (key_eqb k k'); auto.
Qed.

(* "defaults ∪ v": every key of the row keeps the row's value, every other default key gets its
   default, nothing else appears *)
Theorem json_fill_lookup defaults kv k :
  lookup k (json_fill defaults kv) =
  match lookup k kv with Some x => Some x | None => lookup k defaults end.
Proof.
  unfold json_fill. rewrite lookup_app, lookup_map_fill.
  destruct (lookup k defaults) as [d|] eqn:Ed.
  - destruct (lookup k kv); reflexivity.
  - rewrite lookup_filter_fill by auto. destruct (lookup k kv); reflexivity.
Qed.

Section Json.
Variable json_dumps : value -> list Z.             (* tskit.canonical_json(obj).encode() *)
Variable json_loads : list Z -> option value.      (* json.loads(bytes.decode()) *)
Hypothesis loads_dumps : forall v, json_loads (json_dumps v) = Some v.
Hypothesis dumps_nonempty : forall v, json_dumps v <> [].

(* JSONCodec.encode = canonical_json; JSONCodec.decode = json_decode *)
Theorem json_roundtrip_defaults defaults v :
  json_decode json_loads defaults (json_dumps v) =
  Some (match v with VObj kv => VObj (json_fill defaults kv) | _ => v end).
Proof.
  unfold json_decode. pose proof (dumps_nonempty v).
  destruct (json_dumps v) eqn:E; [congruence|].
  rewrite <- E, loads_dumps. destruct v; reflexivity.
Qed.

(* an empty metadata column entry decodes to the defaults alone *)
Theorem json_empty_bytes defaults :
  json_decode json_loads defaults [] = Some (VObj (json_fill defaults [])) /\
  forall k, lookup k (json_fill defaults []) = lookup k defaults.
Proof. split; [reflexivity|]. intros k. rewrite json_fill_lookup. reflexivity. Qed.

End Json.

Example json_fill_ex :
  json_fill [([97], VInt 1); ([98], VInt 2)] [([99], VInt 9); ([98], VInt 7)]
  = [([97], VInt 1); ([98], VInt 7); ([99], VInt 9)].
Proof. reflexivity. Qed.
