(* C12 — every access path shows the row's bytes decoded under the schema of the row's OWN table
   (class of seeded/C12-11: an Edge built without metadata_decoder shows the raw bytes). *)
From Coq Require Import List ZArith Bool Lia.
From TskVerif Require Import Base.Common Gen.Generated C12.Model C12.RowView C12.BytesProofs C12.Unfold
  C12.ValidProofs C12.ShapeProofs C12.RoundTripProofs.
Import ListNotations.
Open Scope Z_scope.

(* A row of table k that was stored through the schema of table k (add_row / packset_metadata
   after validate_and_encode_row) is shown, by every access path, as the normal form of the
   object that was stored — the round trip under the schema of table k, not of any other table,
   and never the undecoded bytes.  Hypotheses as in struct_roundtrip_row. *)
Theorem row_view_own_schema round32 widen32 schemas k t v bs :
  nth_error schemas k = Some t ->
  rt_ok (t_schema (modify_top t)) = true -> shape_ok (t_schema (modify_top t)) = true ->
  validate_and_encode round32 (modify_top t) v = EOk bs ->
  (t_nullable t = true -> v <> VNull -> bs <> []) ->
  row_view widen32 schemas k bs = DOk (norm_top round32 widen32 (modify_top t) v) [].
Proof.
  intros Hk Hok Hsh He Hne. unfold row_view. rewrite Hk.
  apply struct_roundtrip_top; auto.
Qed.

(* what the correspondence term of the harness (check_row_view ... (OV w) = true, evaluated by
   vm_compute on the bytes and the object each path showed) establishes about row_view *)
Theorem check_row_view_sound schemas k buf w :
  check_row_view schemas k buf (OV w) = true ->
  exists t v rest, nth_error schemas k = Some t /\
    row_view widen32_impl schemas k buf = DOk v rest /\ value_eqb v w = true.
Proof.
  unfold check_row_view, row_view. destruct (nth_error schemas k) as [t|]; [|discriminate].
  unfold check_decode. intros H.
  destruct (decode_top widen32_impl (rt_fuel buf) (modify_top t) buf) as [v rest| | e|] eqn:Ed;
    try discriminate H.
  - exists t, v, rest. auto.
  - destruct e; discriminate H.
Qed.

(* a path that hands out the undecoded bytes (or anything that is not the decoded object) is a
   disagreement: for a table with a schema the model never yields "no value" together with OV *)
Theorem check_row_view_no_table schemas k buf od :
  nth_error schemas k = None -> check_row_view schemas k buf od = false.
Proof. intros H. unfold check_row_view. rewrite H. reflexivity. Qed.

(* ------------------------------------------------------------ non-vacuity *)
(* two tables with different schemas; the same stored bytes [1; 2] read as a row of table 0
   ({"a": "H"}) and as a row of table 1 ({"a": "B", "b": "B"}) are different objects, and the
   row stored through table 1's schema comes back as itself only through table 1's schema *)
Example row_view_ex :
  let H := SLeaf TInteger (Some (BInt IH)) 0%nat in
  let B := SLeaf TInteger (Some (BInt IB)) 0%nat in
  let m := {| p_index := 0; p_default := None |} in
  let t0 := {| t_nullable := false; t_schema := SObj None [([97], m, H)] |} in
  let t1 := {| t_nullable := false; t_schema := SObj None [([97], m, B); ([98], m, B)] |} in
  let v := VObj [([97], VInt 1); ([98], VInt 2)] in
  rt_ok (t_schema (modify_top t1)) = true /\ shape_ok (t_schema (modify_top t1)) = true /\
  validate_and_encode round32_impl (modify_top t1) v = EOk [1; 2] /\
  row_view widen32_impl [t0; t1] 1 [1; 2] = DOk v [] /\
  row_view widen32_impl [t0; t1] 0 [1; 2] = DOk (VObj [([97], VInt 513)]) [] /\
  check_row_view [t0; t1] 1 [1; 2] (OV v) = true /\
  check_row_view [t0; t1] 0 [1; 2] (OV v) = false.
Proof. vm_compute. repeat split; reflexivity. Qed.
