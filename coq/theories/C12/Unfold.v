(* C12 — induction principle over schemas, the counted decode loop, and list-level forms of the
   nested fixpoints of Model.v (convertible with them: every *_eq lemma is by reflexivity). *)
From Coq Require Import List ZArith Bool Lia.
From TskVerif Require Import Base.Common Gen.Generated C12.Model C12.BytesProofs.
Import ListNotations.
Open Scope Z_scope.

(* ------------------------------------------------------------ induction principle *)

Section SchemaInd.
  Variable P : schema -> Prop.
  Hypothesis Hleaf : forall t f nt, P (SLeaf t f nt).
  Hypothesis Harr : forall m it, P it -> P (SArr m it).
  Hypothesis Hobj : forall req ps, Forall (fun p : prop => P (snd p)) ps -> P (SObj req ps).

  Fixpoint schema_ind' (s : schema) : P s :=
    match s with
    | SLeaf t f nt => Hleaf t f nt
    | SArr m it => Harr m it (schema_ind' it)
    | SObj req ps =>
        Hobj req ps
          ((fix go (ps : list prop) : Forall (fun p : prop => P (snd p)) ps :=
              match ps with
              | [] => Forall_nil _
              | p :: r => Forall_cons p (schema_ind' (snd p)) (go r)
              end) ps)
    end.
End SchemaInd.

(* ------------------------------------------------------------ the counted loop *)

Lemma lstep_stop d r : lstep d (LStop r) = LStop r.
Proof. reflexivity. Qed.

Lemma iter_stop d n r : Nat.iter n (lstep d) (LStop r) = LStop r.
Proof. induction n; simpl; auto. rewrite IHn. reflexivity. Qed.

Lemma iter_add {A} (f : A -> A) n m x : Nat.iter (n + m) f x = Nat.iter n f (Nat.iter m f x).
Proof. induction n; simpl; auto. rewrite IHn; auto. Qed.

Lemma iter_succ_r {A} (f : A -> A) n x : Nat.iter (S n) f x = Nat.iter n f (f x).
Proof. induction n; simpl; auto. simpl in IHn. rewrite IHn. auto. Qed.

Lemma lloop_iter d p st : lloop d p st = Nat.iter (Pos.to_nat p) (lstep d) st.
Proof.
  revert st; induction p; intros st; destruct st as [buf acc | r];
    try (cbn [lloop]; rewrite iter_stop; reflexivity).
  - cbn [lloop]. rewrite !IHp.
    rewrite Pos2Nat.inj_xI. replace (S (2 * Pos.to_nat p))%nat with (Pos.to_nat p + (Pos.to_nat p + 1))%nat by lia.
    rewrite !iter_add. simpl. reflexivity.
  - cbn [lloop]. rewrite !IHp.
    rewrite Pos2Nat.inj_xO. replace (2 * Pos.to_nat p)%nat with (Pos.to_nat p + Pos.to_nat p)%nat by lia.
    rewrite iter_add. reflexivity.
  - reflexivity.
Qed.

Lemma decode_n_iter d n buf acc :
  lfinish (Nat.iter n (lstep d) (LGo buf acc)) = decode_n d n buf acc.
Proof.
  revert buf acc; induction n; intros; [reflexivity|].
  rewrite iter_succ_r. cbn [decode_n lstep].
  destruct (d buf); try (rewrite iter_stop; reflexivity).
  apply IHn.
Qed.

Lemma decode_count_spec d n buf : decode_count d n buf = decode_n d (Z.to_nat n) buf [].
Proof.
  destruct n; try reflexivity.
  unfold decode_count. rewrite lloop_iter. rewrite Z2Nat.inj_pos. apply decode_n_iter.
Qed.

(* ------------------------------------------------------------ list-level unfoldings *)

Definition encode_list (enc : value -> eres (list Z)) : list value -> eres (list Z) :=
  fix go (l : list value) : eres (list Z) :=
    match l with
    | [] => EOk []
    | x :: r => ebind (enc x) (fun bs => ebind (go r) (fun rs => EOk (bs ++ rs)))
    end.

Definition encode_fields (E : schema -> value -> eres (list Z)) (kv : list (key * value))
  : list prop -> eres (list Z) :=
  fix go (ps : list prop) : eres (list Z) :=
    match ps with
    | [] => EOk []
    | (k, m, sub) :: r =>
        let dflt := match p_default m with Some d => E sub d | None => EErr EKey end in
        ebind (match lookup k kv with
               | Some x => match E sub x with
                           | EErr EKey => if c12_encode_swallows_nested_keyerror then dflt else EErr EKey
                           | r => r
                           end
               | None => dflt
               end)
          (fun bs => ebind (go r) (fun rs => EOk (bs ++ rs)))
    end.

Definition decode_fields (D : schema -> list Z -> dres)
  : list prop -> list Z -> list (key * value) -> dres :=
  fix go (ps : list prop) (buf : list Z) (acc : list (key * value)) : dres :=
    match ps with
    | [] => DOk (VObj (rev acc)) buf
    | (k, _, sub) :: r =>
        match D sub buf with
        | DOk v rest => go r rest ((k, v) :: acc)
        | DShort => DShort | DErr e => DErr e | DFuel => DFuel
        end
    end.

Definition norm_fields (N : schema -> value -> value) (kv : list (key * value))
  : list prop -> list (key * value) :=
  fix go (ps : list prop) : list (key * value) :=
    match ps with
    | [] => []
    | (k, m, sub) :: r =>
        match (match lookup k kv with Some x => Some x | None => p_default m end) with
        | Some x => (k, N sub x) :: go r
        | None => go r
        end
    end.

Section Unfold.
Variable round32 : Z -> option Z.
Variable widen32 : Z -> Z.

Notation encode := (encode round32).
Notation decode := (decode widen32).
Notation norm := (norm round32 widen32).

Lemma encode_arr_eq m it l :
  encode (SArr m it) (VArr l) =
  match m with
  | AFixed n => if Z.of_nat (length l) =? n then encode_list (encode it) l else EErr EValue
  | AExhaust => encode_list (encode it) l
  | ALen f => if Z.of_nat (length l) <? imod f
              then ebind (encode_list (encode it) l)
                         (fun bs => EOk (le_bytes (isize f) (Z.of_nat (length l)) ++ bs))
              else EErr EValue
  end.
Proof. reflexivity. Qed.

Lemma encode_obj_eq req ps kv : encode (SObj req ps) (VObj kv) = encode_fields encode kv ps.
Proof. reflexivity. Qed.

Lemma decode_obj_eq fuel req ps buf : decode fuel (SObj req ps) buf = decode_fields (decode fuel) ps buf [].
Proof. reflexivity. Qed.

Lemma norm_obj_eq req ps kv : norm (SObj req ps) (VObj kv) = VObj (norm_fields norm kv ps).
Proof. reflexivity. Qed.

Lemma decode_arr_eq fuel m it buf :
  decode fuel (SArr m it) buf =
  match m with
  | AFixed n => decode_count (decode fuel it) n buf
  | AExhaust => decode_exhaust (decode fuel it) fuel buf []
  | ALen f => match take (Z.of_nat (isize f)) buf with
              | None => DShort
              | Some (bs, rest) => decode_count (decode fuel it) (le_val bs) rest
              end
  end.
Proof. reflexivity. Qed.

End Unfold.

(* {"codec":"struct","type":"object","properties":{
     "id":   {"type":"integer","binaryFormat":"h"},
     "name": {"type":"string","binaryFormat":"4s","nullTerminated":true},
     "w":    {"type":"number","binaryFormat":"f","default":1.5},
     "xs":   {"type":"array","arrayLengthFormat":"B","items":
                {"type":"object","properties":{"p":{"type":"string","binaryFormat":"3p"},
                                               "pad":{"type":"null","binaryFormat":"2x"}}}},
     "fix":  {"type":"array","length":2,"items":{"type":"boolean","binaryFormat":"?"}}}} *)
Definition ex_schema : schema :=
  SObj None
    [ ([105;100], {| p_index := 0; p_default := None |}, SLeaf TInteger (Some (BInt Ih)) 0%nat);
      ([110;97;109;101], {| p_index := 0; p_default := None |}, SLeaf TString (Some (BStr 4)) 1%nat);
      ([119], {| p_index := 0; p_default := Some (VFloat 4609434218613702656) |}, SLeaf TNumber (Some BFloat) 0%nat);
      ([120;115], {| p_index := 0; p_default := None |},
         SArr (ALen IB) (SObj None [ ([112], {| p_index := 0; p_default := None |}, SLeaf TString (Some (BPas 3)) 0%nat);
                                     ([112;97;100], {| p_index := 0; p_default := None |}, SLeaf TNull (Some (BPad 2)) 0%nat) ]));
      ([102;105;120], {| p_index := 0; p_default := None |}, SArr (AFixed 2) (SLeaf TBoolean (Some BBool) 0%nat)) ].

Definition ex_value : value :=
  VObj [ ([105;100], VInt (-2)); ([110;97;109;101], VStr [97;98;0;99;100;101]);
         ([120;115], VArr [VObj [([112], VStr [120;121;122]); ([112;97;100], VNull)]]);
         ([102;105;120], VArr [VBool true; VBool false]) ].

