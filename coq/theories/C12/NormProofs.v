(* C12 — the normal form is stable: a decoded row, validated and encoded again, decodes to
   itself.  This is where round32 (widen32 w) = w (binary32 -> binary64 -> binary32 is exact)
   is needed. *)
From Coq Require Import List ZArith Bool Lia.
From TskVerif Require Import Base.Common C12.Model C12.BytesProofs C12.Unfold C12.RoundTripProofs C12.ValidProofs.
Import ListNotations.
Open Scope Z_scope.

(* ------------------------------------------------------------ strings *)

Lemma find_nul_length s : (length (find_nul s) <= length s)%nat.
Proof. induction s; simpl; auto. destruct (a =? 0); simpl; lia. Qed.

Lemma find_nul_idem s : find_nul (find_nul s) = find_nul s.
Proof.
  induction s as [|c r IH]; simpl; auto.
  destruct (c =? 0) eqn:E; simpl; auto. rewrite E, IH. reflexivity.
Qed.

Lemma find_nul_app_zeros s k : find_nul (find_nul s ++ zeros k) = find_nul s.
Proof.
  induction s as [|c r IH]; simpl.
  - destruct k; reflexivity.
  - destruct (c =? 0) eqn:E; simpl.
    + destruct k; reflexivity.
    + rewrite E, IH. reflexivity.
Qed.

Lemma pad_to_length_nat n s : length (pad_to n s) = Z.to_nat n.
Proof.
  unfold pad_to. rewrite app_length, zeros_length.
  pose proof (firstn_le_length (Z.to_nat n) s). lia.
Qed.

Lemma pad_to_short n s : (length s <= Z.to_nat n)%nat -> pad_to n s = s ++ zeros (Z.to_nat n - length s).
Proof. intros H. unfold pad_to. rewrite firstn_all2 by lia. reflexivity. Qed.

Lemma pad_to_idem n s : pad_to n (pad_to n s) = pad_to n s.
Proof.
  rewrite (pad_to_short n (pad_to n s)) by (rewrite pad_to_length_nat; lia).
  rewrite pad_to_length_nat, Nat.sub_diag. apply app_nil_r.
Qed.

Section Norm.
Variable round32 : Z -> option Z.
Variable widen32 : Z -> Z.
(* binary32 -> binary64 is exact, so converting back gives the same binary32 *)
Hypothesis round_widen : forall w, 0 <= w < 2 ^ 32 -> round32 (widen32 w) = Some w.

Notation norm := (norm round32 widen32).
Notation norm_leaf := (norm_leaf round32 widen32).

Lemma norm_float_stable b w :
  round32 b = Some w ->
  norm_leaf TNumber (Some BFloat) 0%nat (VFloat (widen32 (w mod 2 ^ 32))) = VFloat (widen32 (w mod 2 ^ 32)).
Proof.
  intros _. cbn [Model.norm_leaf to_double].
  assert (R : 0 <= w mod 2 ^ 32 < 2 ^ 32) by (apply Z.mod_pos_bound; lia).
  rewrite (round_widen _ R). rewrite Z.mod_mod by lia. reflexivity.
Qed.

(* nt <= 1: single-byte code units (utf-8 / ascii / latin-1); for wider units the padding must be
   a whole number of units, see TextProofs.v *)
Lemma norm_leaf_idem t f nt v : (nt <= 1)%nat -> norm_leaf t f nt (norm_leaf t f nt v) = norm_leaf t f nt v.
Proof.
  intros Hnt.
  assert (Hnum : forall t, t = TNumber \/ t = TInteger \/ t = TBoolean ->
                 norm_leaf t f nt (norm_leaf t f nt v) = norm_leaf t f nt v).
  { intros t' Ht.
    assert (E : forall x, norm_leaf t' f nt x =
              match f with
              | Some (BInt _) => match x with VBool b => VInt (if b then 1 else 0) | _ => x end
              | Some BBool => VBool (truthy x)
              | Some BFloat =>
                  match to_double x with
                  | EOk b => match round32 b with Some w => VFloat (widen32 (w mod 2 ^ 32)) | None => x end
                  | _ => x
                  end
              | Some BDouble => match to_double x with EOk b => VFloat (b mod 2 ^ 64) | _ => x end
              | _ => x
              end) by (intros x; destruct Ht as [->|[->| ->]]; reflexivity).
    rewrite !E. destruct f as [[i| | | | |n|n|n]|]; auto.
    - destruct v; reflexivity.
    - destruct (to_double v) as [b|] eqn:Hd.
      + destruct (round32 b) as [w|] eqn:Hr.
        * cbn [to_double].
          assert (R : 0 <= w mod 2 ^ 32 < 2 ^ 32) by (apply Z.mod_pos_bound; lia).
          rewrite (round_widen _ R), Z.mod_mod by lia. reflexivity.
        * rewrite Hd, Hr. reflexivity.
      + rewrite Hd. reflexivity.
    - destruct (to_double v) as [b|] eqn:Hd.
      + cbn [to_double]. rewrite Z.mod_mod by lia. reflexivity.
      + rewrite Hd. reflexivity. }
  destruct t; auto.
  (* TString *)
  cbn [Model.norm_leaf].
  destruct f as [[i| | | | |n|n|n]|]; auto; destruct v; auto.
  - destruct nt as [|[|n']]; [reflexivity | cbn [cut]; rewrite find_nul_idem; reflexivity | lia].
  - destruct nt as [|[|n']]; [| |lia]; cbn [cut].
    + rewrite pad_to_idem. reflexivity.
    + rewrite (pad_to_short n (find_nul (pad_to n s))).
      * rewrite find_nul_app_zeros. reflexivity.
      * pose proof (find_nul_length (pad_to n s)). rewrite pad_to_length_nat in H. lia.
  - set (k := Nat.min (Nat.min (length s) (Z.to_nat (n - 1))) 255).
    destruct nt as [|[|n']]; [| |lia]; cbn [cut].
    + assert (Hk' : length (firstn k s) = k) by (rewrite firstn_length; subst k; lia).
      rewrite Hk'.
      replace (Nat.min (Nat.min k (Z.to_nat (n - 1))) 255) with k by (subst k; lia).
      rewrite <- Hk' at 1. rewrite firstn_all. reflexivity.
    + pose proof (find_nul_length (firstn k s)) as Hl.
      pose proof (firstn_le_length k s) as Hk.
      assert (Hk' : (length (firstn k s) <= k)%nat) by (rewrite firstn_length; lia).
      set (u := find_nul (firstn k s)) in *.
      replace (Nat.min (Nat.min (length u) (Z.to_nat (n - 1))) 255) with (length u) by (subst k; lia).
      rewrite firstn_all. subst u. rewrite find_nul_idem. reflexivity.
Qed.

(* every string leaf uses single-byte code units *)
Fixpoint simple_units (s : schema) : Prop :=
  match s with
  | SLeaf _ _ nt => (nt <= 1)%nat
  | SArr _ it => simple_units it
  | SObj _ ps => (fix go (ps : list prop) : Prop :=
                    match ps with [] => True | p :: r => simple_units (snd p) /\ go r end) ps
  end.

(* ------------------------------------------------------------ objects *)

Fixpoint nodup_keys (s : schema) : Prop :=
  match s with
  | SLeaf _ _ _ => True
  | SArr _ it => nodup_keys it
  | SObj _ ps => NoDup (map pkey ps) /\
                 (fix go (ps : list prop) : Prop :=
                    match ps with [] => True | p :: r => nodup_keys (snd p) /\ go r end) ps
  end.

Lemma lookup_none_notin k kv : (forall x, ~ In (k, x) kv) -> lookup k kv = None.
Proof.
  induction kv as [|[k' v] r IH]; intros H; simpl; auto.
  destruct (key_eqb k k') eqn:E.
  - apply key_eqb_eq in E. subst. exfalso. eapply H. left; reflexivity.
  - apply IH. intros x Hx. eapply H. right; eauto.
Qed.

Lemma norm_fields_keys (N : schema -> value -> value) kv ps k x :
  In (k, x) (norm_fields N kv ps) -> In k (map pkey ps).
Proof.
  induction ps as [|[[k0 m0] s0] r IH]; simpl; [tauto|].
  fold (norm_fields N kv).
  destruct (match lookup k0 kv with Some y => Some y | None => p_default m0 end).
  - intros [E|H]; [left; unfold pkey; cbn [fst]; congruence | right; auto].
  - intros H; right; auto.
Qed.

Lemma lookup_norm_fields (N : schema -> value -> value) kv ps :
  NoDup (map pkey ps) ->
  forall k m sub, In (k, m, sub) ps ->
  lookup k (norm_fields N kv ps) =
  match (match lookup k kv with Some x => Some x | None => p_default m end) with
  | Some x => Some (N sub x) | None => None end.
Proof.
  induction ps as [|[[k0 m0] s0] r IH]; intros Hnd k m sub Hin; [destruct Hin|].
  cbn [map] in Hnd. unfold pkey at 1 in Hnd. cbn [fst] in Hnd. inversion Hnd as [|? ? Hnot Hnd']; subst.
  cbn [norm_fields]. fold (norm_fields N kv).
  destruct Hin as [E|Hin].
  - injection E as -> -> ->.
    destruct (match lookup k kv with Some x => Some x | None => p_default m end) as [x|].
    + simpl. rewrite key_eqb_refl. reflexivity.
    + apply lookup_none_notin. intros x Hx. apply norm_fields_keys in Hx. contradiction.
  - assert (Hne : key_eqb k k0 = false).
    { destruct (key_eqb k k0) eqn:E; auto. apply key_eqb_eq in E. subst.
      exfalso. apply Hnot. change k0 with (pkey (k0, m, sub)). apply in_map. auto. }
    destruct (match lookup k0 kv with Some x => Some x | None => p_default m0 end).
    + simpl. rewrite Hne. apply IH; auto.
    + apply IH; auto.
Qed.

Lemma norm_fields_idem (N : schema -> value -> value) kv ps :
  NoDup (map pkey ps) ->
  Forall (fun p : prop => forall x, N (snd p) (N (snd p) x) = N (snd p) x) ps ->
  norm_fields N (norm_fields N kv ps) ps = norm_fields N kv ps.
Proof.
  intros Hnd HF.
  assert (G : forall qs, (forall p, In p qs -> In p ps) ->
              norm_fields N (norm_fields N kv ps) qs = norm_fields N kv qs).
  { induction qs as [|[[k m] sub] r IH]; intros Hsub; auto.
    cbn [norm_fields]. fold (norm_fields N (norm_fields N kv ps)). fold (norm_fields N kv).
    assert (Hin : In (k, m, sub) ps) by (apply Hsub; left; reflexivity).
    rewrite (lookup_norm_fields N kv ps Hnd k m sub Hin).
    rewrite IH by (intros p Hp; apply Hsub; right; auto).
    destruct (match lookup k kv with Some x => Some x | None => p_default m end) as [x|] eqn:E.
    - rewrite Forall_forall in HF. specialize (HF _ Hin x). cbn [snd] in HF. rewrite HF. reflexivity.
    - (* absent and no default: absent again; the default is still None *)
      destruct (lookup k kv); [discriminate|]. rewrite E. reflexivity. }
  apply G. auto.
Qed.

(* norm is idempotent: decode(encode(decode(encode v))) = decode(encode v) at the level of the
   specification; with struct_roundtrip this gives the "second generation" stability *)
Theorem norm_idempotent s : nodup_keys s -> simple_units s -> forall v, norm s (norm s v) = norm s v.
Proof.
  induction s as [t f nt | m it IH | req ps IH] using schema_ind'; intros Hnd Hu v.
  - apply norm_leaf_idem. exact Hu.
  - destruct v; auto. cbn [Model.norm]. rewrite map_map. f_equal.
    apply map_ext. intros x. apply IH; [exact Hnd | exact Hu].
  - destruct v; auto. rewrite !norm_obj_eq. f_equal.
    destruct Hnd as [Hnd Hsub].
    apply norm_fields_idem; auto.
    clear Hnd. induction IH as [|p r Hp _ IHr]; constructor.
    + intros x. apply Hp; [apply Hsub | apply Hu].
    + apply IHr; [apply Hsub | apply Hu].
Qed.

End Norm.

Example norm_idempotent_ex :
  nodup_keys (modify ex_schema) /\ simple_units (modify ex_schema) /\
  norm round32_impl widen32_impl (modify ex_schema) (norm round32_impl widen32_impl (modify ex_schema) ex_value)
  = norm round32_impl widen32_impl (modify ex_schema) ex_value /\
  (* the Section hypothesis holds for the executable conversions on samples, subnormals included *)
  forallb (fun w => match round32_impl (widen32_impl w) with Some w' => w' =? w | None => false end)
          [0; 1; 8388607; 8388608; 1065353216; 2139095039; 2139095040; 2147483648; 2147483649; 3212836864; 4286578688] = true.
Proof. vm_compute. repeat split; auto; repeat constructor; simpl; intuition discriminate. Qed.
