(* C12 — decode (encode v ++ rest) = (norm v, rest): structural induction over schemas. *)
From Coq Require Import List ZArith Bool Lia.
From TskVerif Require Import Base.Common C12.Model C12.BytesProofs C12.Unfold C12.ValidProofs C12.ShapeProofs.
Import ListNotations.
Open Scope Z_scope.

Section RT.
Variable round32 : Z -> option Z.
Variable widen32 : Z -> Z.

Notation encode := (encode round32).
Notation decode := (decode widen32).
Notation norm := (norm round32 widen32).

(* ------------------------------------------------------------ which schemas round-trip *)

(* leaf: type and format agree, counts as the regex produces them (>= 0), no '0p' *)
Definition leaf_ok (t : jty) (f : option bfmt) : bool :=
  match t, f with
  | TNull, None => true
  | TNull, Some (BPad n) => 0 <=? n
  | TString, Some BChar => true
  | TString, Some (BStr n) => 0 <=? n
  | TString, Some (BPas n) => 1 <=? n
  | (TNumber | TInteger | TBoolean), Some (BInt _ | BBool | BFloat | BDouble) => true
  | _, _ => false
  end.

(* no exhaust-buffer arrays (those are treated in ExhaustProofs.v) *)
Fixpoint rt_ok (s : schema) : bool :=
  match s with
  | SLeaf t f _ => leaf_ok t f
  | SArr AExhaust _ => false
  | SArr _ it => rt_ok it
  | SObj _ ps => forallb (fun p : prop => rt_ok (snd p)) ps
  end.

(* ------------------------------------------------------------ leaves *)

Lemma le_val_le_bytes_mod n z : le_val (le_bytes n z) = z mod 256 ^ Z.of_nat n.
Proof.
  revert z; induction n; intros z.
  - simpl. rewrite Z.mod_1_r. reflexivity.
  - cbn [le_bytes le_val]. rewrite IHn, pow256_S.
    rewrite Z.rem_mul_r by (try lia; apply Z.pow_pos_nonneg; lia). reflexivity.
Qed.

Lemma firstn_pad_to n k s :
  (k <= Nat.min (length s) (Z.to_nat n))%nat -> firstn k (pad_to n s) = firstn k s.
Proof.
  intros H. unfold pad_to.
  rewrite firstn_app.
  rewrite firstn_firstn.
  replace (Nat.min k (Z.to_nat n)) with k by lia.
  rewrite firstn_length.
  replace (k - Nat.min (Z.to_nat n) (length s))%nat with 0%nat by lia.
  simpl. apply app_nil_r.
Qed.

Lemma small_le_val (b : bool) n : (1 <= n)%nat -> le_val (le_bytes n (if b then 1 else 0)) = if b then 1 else 0.
Proof.
  intros. apply le_val_le_bytes. split; [destruct b; lia|].
  assert (256 ^ 1 <= 256 ^ Z.of_nat n) by (apply Z.pow_le_mono_r; lia).
  destruct b; lia.
Qed.

Lemma signed_small (b : bool) i : signed_of i (if b then 1 else 0) = if b then 1 else 0.
Proof. destruct b, i; reflexivity. Qed.

Lemma num_roundtrip t f nt v bs rest :
  (t = TNumber \/ t = TInteger \/ t = TBoolean) ->
  leaf_ok t (Some f) = true ->
  pack_num round32 f v = EOk bs ->
  decode_leaf widen32 t (Some f) nt (bs ++ rest) = DOk (norm_leaf round32 widen32 t (Some f) nt v) rest.
Proof.
  intros Ht Hok He.
  assert (Hd : decode_leaf widen32 t (Some f) nt (bs ++ rest) =
               match take (bsize f) (bs ++ rest) with
               | None => DShort
               | Some (bs, rest) =>
                   match f with
                   | BInt i => DOk (VInt (signed_of i (le_val bs))) rest
                   | BBool => DOk (VBool (negb (le_val bs =? 0))) rest
                   | BFloat => DOk (VFloat (widen32 (le_val bs))) rest
                   | BDouble => DOk (VFloat (le_val bs)) rest
                   | _ => DErr EOther
                   end
               end) by (destruct Ht as [->|[->| ->]]; reflexivity).
  assert (Hn : norm_leaf round32 widen32 t (Some f) nt v =
               match f with
               | BInt _ => match v with VBool b => VInt (if b then 1 else 0) | _ => v end
               | BBool => VBool (truthy v)
               | BFloat =>
                   match to_double v with
                   | EOk b => match round32 b with Some w => VFloat (widen32 (w mod 2 ^ 32)) | None => v end
                   | _ => v
                   end
               | BDouble => match to_double v with EOk b => VFloat (b mod 2 ^ 64) | _ => v end
               | _ => v
               end) by (destruct Ht as [->|[->| ->]]; reflexivity).
  rewrite Hd, Hn. clear Hd Hn.
  destruct f as [i| | | | |n|n|n]; try (destruct Ht as [->|[->| ->]]; discriminate Hok);
    cbn [pack_num] in He.
  - (* BInt *)
    destruct v as [|b|z|x|x|x|x]; try discriminate He.
    + inversion He; subst. cbn [bsize].
      rewrite take_app by (rewrite ?le_bytes_length; reflexivity).
      rewrite small_le_val by (destruct i; simpl; lia). rewrite signed_small. reflexivity.
    + destruct (in_range i z) eqn:R; [|discriminate He].
      inversion He; subst. cbn [bsize].
      rewrite take_app by (rewrite ?le_bytes_length; reflexivity).
      destruct (int_pack_unpack i z R) as [-> _]. reflexivity.
  - (* BBool *)
    inversion He; subst. cbn [bsize].
    rewrite take_app by reflexivity.
    cbn [le_val]. destruct (truthy v); reflexivity.
  - (* BFloat *)
    unfold ebind in He. destruct (to_double v) as [b|] eqn:Hd; [|discriminate He].
    destruct (round32 b) as [w|] eqn:Hr; [|discriminate He].
    injection He as <-. cbn [bsize].
    rewrite take_app by (rewrite ?le_bytes_length; reflexivity).
    change (2 ^ 32) with (256 ^ Z.of_nat 4). rewrite <- le_val_le_bytes_mod. reflexivity.
  - (* BDouble *)
    unfold ebind in He. destruct (to_double v) as [b|] eqn:Hd; [|discriminate He].
    injection He as <-. cbn [bsize].
    rewrite take_app by (rewrite ?le_bytes_length; reflexivity).
    change (2 ^ 64) with (256 ^ Z.of_nat 8). rewrite <- le_val_le_bytes_mod. reflexivity.
Qed.

Lemma leaf_roundtrip t f nt v bs rest :
  leaf_ok t f = true ->
  encode_leaf round32 t f v = EOk bs ->
  decode_leaf widen32 t f nt (bs ++ rest) = DOk (norm_leaf round32 widen32 t f nt v) rest.
Proof.
  intros Hok He.
  destruct t; destruct f as [f|]; try discriminate Hok.
  1-3: apply num_roundtrip; auto.
  - (* TString *)
    cbn [leaf_ok] in Hok.
    destruct f as [i| | | | |n|n|n]; try discriminate Hok; cbn [encode_leaf] in He;
      destruct v as [|b|z|x|s|x|x]; try discriminate He; cbn [pack_str] in He.
    + (* BChar *)
      destruct s as [|c [|]]; try discriminate He. inversion He; subst.
      cbn [decode_leaf bsize]. rewrite take_app by reflexivity. reflexivity.
    + (* BStr *)
      apply Z.leb_le in Hok. inversion He; subst.
      cbn [decode_leaf bsize]. rewrite take_app by (apply pad_to_length; auto).
      reflexivity.
    + (* BPas *)
      apply Z.leb_le in Hok.
      destruct (Z.leb_spec n 0); [lia|]. inversion He; subst; clear He.
      cbn [decode_leaf bsize].
      rewrite take_app.
      2:{ cbn [length]. rewrite Nat2Z.inj_succ. rewrite pad_to_length by lia. lia. }
      destruct (Z.leb_spec n 0); [lia|].
      cbn [hd tl norm_leaf].
      set (k := Nat.min (Nat.min (length s) (Z.to_nat (n - 1))) 255).
      assert (Hk : Z.to_nat (Z.min (Z.of_nat k) (n - 1)) = k).
      { rewrite Z.min_l; [apply Nat2Z.id|]. subst k. lia. }
      rewrite Hk. rewrite firstn_pad_to by (subst k; lia). reflexivity.
  - (* TNull, pad *)
    cbn [leaf_ok] in Hok.
    destruct f as [i| | | | |n|n|n]; try discriminate Hok. apply Z.leb_le in Hok.
    cbn [encode_leaf] in He. inversion He; subst.
    cbn [decode_leaf]. rewrite take_app by (rewrite zeros_length; lia). reflexivity.
  - (* TNull, no format *)
    cbn [encode_leaf] in He. inversion He; subst. reflexivity.
Qed.

Lemma list_roundtrip (enc : value -> eres (list Z)) (dec : list Z -> dres) (nrm : value -> value) l :
  Forall (fun x => forall bs rest, enc x = EOk bs -> dec (bs ++ rest) = DOk (nrm x) rest) l ->
  forall bs rest acc, encode_list enc l = EOk bs ->
  decode_n dec (length l) (bs ++ rest) acc = DOk (VArr (rev acc ++ map nrm l)) rest.
Proof.
  induction 1 as [|x r Hx Hr IH]; intros bs rest acc He.
  - simpl in He. injection He as <-. simpl. rewrite app_nil_r. reflexivity.
  - cbn [encode_list] in He. unfold ebind in He.
    destruct (enc x) as [bx|] eqn:Ex; [|discriminate He].
    fold (encode_list enc) in He.
    destruct (encode_list enc r) as [br|] eqn:Er; [|discriminate He].
    injection He as <-.
    cbn [length decode_n]. rewrite <- app_assoc. rewrite (Hx _ _ eq_refl).
    rewrite (IH _ _ _ eq_refl). cbn [rev map]. rewrite <- app_assoc. reflexivity.
Qed.

(* what shape_ok of an object says about each property *)
Definition prop_shape (p : prop) : Prop :=
  shape_ok (snd p) = true /\ forall d, p_default (snd (fst p)) = Some d -> valid (snd p) d = true.

Lemma shape_ok_props req ps : shape_ok (SObj req ps) = true -> Forall prop_shape ps.
Proof.
  cbn [shape_ok]. rewrite forallb_forall. intros H. apply Forall_forall. intros p Hp.
  specialize (H p Hp). apply andb_true_iff in H as [H Hd]. apply andb_true_iff in H as [Hs _].
  split; auto. intros d E. rewrite E in Hd. auto.
Qed.

Lemma fields_roundtrip fuel kv ps :
  Forall (fun p : prop => rt_ok (snd p) = true -> shape_ok (snd p) = true ->
            forall fuel v bs rest, valid (snd p) v = true ->
            encode (snd p) v = EOk bs -> decode fuel (snd p) (bs ++ rest) = DOk (norm (snd p) v) rest) ps ->
  forallb (fun p : prop => rt_ok (snd p)) ps = true ->
  Forall prop_shape ps ->
  valid_fields valid kv ps = true ->
  forall bs rest acc, encode_fields encode kv ps = EOk bs ->
  decode_fields (decode fuel) ps (bs ++ rest) acc = DOk (VObj (rev acc ++ norm_fields norm kv ps)) rest.
Proof.
  induction 1 as [|[[k m] sub] r Hp Hr IH]; intros Hok Hsh Hvf bs rest acc He.
  - simpl in He. injection He as <-. simpl. rewrite app_nil_r. reflexivity.
  - cbn [forallb snd] in Hok. apply andb_true_iff in Hok as [Hs Hok].
    inversion Hsh as [|? ? [Hsub Hdv] Hsh']; subst. cbn [fst snd] in *.
    cbn [valid_fields] in Hvf. fold (valid_fields valid kv) in Hvf. apply andb_true_iff in Hvf as [Hvx Hvr].
    cbn [encode_fields] in He. fold (encode_fields encode kv) in He.
    cbn [norm_fields]. fold (norm_fields norm kv).
    cbn [decode_fields]. fold (decode_fields (decode fuel)).
    unfold ebind in He.
    destruct (lookup k kv) as [x|] eqn:L.
    + rewrite (normal_path round32 sub x _ Hsub Hvx) in He.
      destruct (encode sub x) as [bx|] eqn:Ex; [|discriminate He].
      destruct (encode_fields encode kv r) as [br|] eqn:Er; [|discriminate He].
      injection He as <-. rewrite <- app_assoc.
      rewrite (Hp Hs Hsub fuel _ _ _ Hvx Ex).
      rewrite (IH Hok Hsh' Hvr _ _ _ eq_refl). cbn [rev]. rewrite <- app_assoc. reflexivity.
    + destruct (p_default m) as [x|] eqn:Dm; [|discriminate He].
      destruct (encode sub x) as [bx|] eqn:Ex; [|discriminate He].
      destruct (encode_fields encode kv r) as [br|] eqn:Er; [|discriminate He].
      injection He as <-. rewrite <- app_assoc.
      rewrite (Hp Hs Hsub fuel _ _ _ (Hdv _ eq_refl) Ex).
      rewrite (IH Hok Hsh' Hvr _ _ _ eq_refl). cbn [rev]. rewrite <- app_assoc. reflexivity.
Qed.

(* (a) struct_roundtrip, the exhaust-free fragment: numeric/bool/char/pad/strings (truncation,
   Pascal strings, NUL termination), fixed and length-prefixed arrays, objects with defaults.
   For every schema obeying the struct-codec rules at every level (shape_ok) and every object
   valid under it that encodes, decode gives the normal form back; any [rest] is left untouched
   (so the statement composes, and decode consumes exactly |encode| bytes). *)
Theorem struct_roundtrip_gen s :
  rt_ok s = true -> shape_ok s = true ->
  forall fuel v bs rest, valid s v = true -> encode s v = EOk bs ->
  decode fuel s (bs ++ rest) = DOk (norm s v) rest.
Proof.
  induction s as [t f nt | m it IH | req ps IH] using schema_ind'; intros Hok Hsh fuel v bs rest Hv He.
  - apply leaf_roundtrip; auto.
  - destruct v as [| | | | |l|]; try discriminate He.
    rewrite encode_arr_eq in He. rewrite decode_arr_eq.
    cbn [shape_ok] in Hsh. cbn [valid] in Hv. rewrite forallb_forall in Hv.
    assert (HF : Forall (fun x => forall bs rest, encode it x = EOk bs ->
                           decode fuel it (bs ++ rest) = DOk (norm it x) rest) l).
    { apply Forall_forall. intros x Hx b r E. apply IH; auto. destruct m; auto; discriminate Hok. }
    destruct m as [n| |f]; [| discriminate Hok |]; cbn [rt_ok] in Hok.
    + destruct (Z.eqb_spec (Z.of_nat (length l)) n) as [<-|]; [|discriminate He].
      rewrite decode_count_spec, Nat2Z.id.
      rewrite (list_roundtrip _ _ _ _ HF _ _ _ He). reflexivity.
    + destruct (Z.ltb_spec (Z.of_nat (length l)) (imod f)) as [Hlt|]; [|discriminate He].
      unfold ebind in He. destruct (encode_list (encode it) l) as [body|] eqn:Eb; [|discriminate He].
      injection He as <-. rewrite <- app_assoc.
      rewrite take_app by (rewrite le_bytes_length; reflexivity).
      rewrite le_val_le_bytes by (unfold imod in Hlt; lia).
      rewrite decode_count_spec, Nat2Z.id.
      rewrite (list_roundtrip _ _ _ _ HF _ _ _ Eb). reflexivity.
  - destruct v as [| | | | | |kv]; try discriminate He.
    rewrite encode_obj_eq in He. rewrite decode_obj_eq, norm_obj_eq.
    cbn [rt_ok] in Hok.
    rewrite valid_obj_eq in Hv. apply andb_true_iff in Hv as [_ Hvf].
    rewrite (fields_roundtrip fuel kv ps IH Hok (shape_ok_props _ _ Hsh) Hvf _ _ _ He). reflexivity.
Qed.

End RT.

(* ------------------------------------------------------------ top level *)

Section Top.
Variable round32 : Z -> option Z.
Variable widen32 : Z -> Z.

Definition norm_top (t : top) (v : value) : value :=
  match v with
  | VNull => if t_nullable t then VNull else norm round32 widen32 (t_schema t) v
  | _ => norm round32 widen32 (t_schema t) v
  end.

(* validate_and_encode_row then decode_row.  For "type": ["object","null"] the empty encoding
   is reserved for None, so a non-null object must encode to at least one byte (finding F9g:
   see objnull_empty_refuted). *)
Theorem struct_roundtrip_top t v bs fuel :
  rt_ok (t_schema t) = true -> shape_ok (t_schema t) = true ->
  validate_and_encode round32 t v = EOk bs ->
  (t_nullable t = true -> v <> VNull -> bs <> []) ->
  decode_top widen32 fuel t bs = DOk (norm_top t v) [].
Proof.
  intros Hok Hsh He Hne. unfold validate_and_encode in He.
  destruct (valid_top t v) eqn:Hv; [|discriminate He].
  unfold encode_top in He. unfold decode_top, norm_top. unfold valid_top in Hv.
  destruct (t_nullable t) eqn:Hn.
  - destruct v; try (injection He as <-; reflexivity); cbn [orb] in Hv;
      (destruct bs as [|b0 bs']; [exfalso; apply Hne; auto; discriminate|];
       rewrite <- (app_nil_r (b0 :: bs')); apply struct_roundtrip_gen; auto).
  - rewrite <- (app_nil_r bs).
    replace (match v with VNull | _ => norm round32 widen32 (t_schema t) v end)
      with (norm round32 widen32 (t_schema t) v) by (destruct v; reflexivity).
    apply struct_roundtrip_gen; auto. destruct v; auto.
Qed.

(* dst[j] = row / dst.append(row) for a row object of another table: what the destination then
   shows is the normal form, under the destination schema, of the object the source row showed *)
Theorem transfer_roundtrip src dst bs bs' fuel :
  rt_ok (t_schema dst) = true -> shape_ok (t_schema dst) = true ->
  transfer round32 widen32 src dst bs = EOk bs' ->
  exists obj rest,
    decode_top widen32 (rt_fuel bs) src bs = DOk obj rest /\
    validate_and_encode round32 dst obj = EOk bs' /\
    ((t_nullable dst = true -> obj <> VNull -> bs' <> []) ->
     decode_top widen32 fuel dst bs' = DOk (norm_top dst obj) []).
Proof.
  intros Hok Hsh Ht. unfold transfer in Ht.
  destruct (decode_top widen32 (rt_fuel bs) src bs) as [obj rest| | |] eqn:Ed; try discriminate Ht.
  exists obj, rest. repeat split; auto. intros Hne. eapply struct_roundtrip_top; eauto.
Qed.

(* ... and a row whose object the destination schema does not accept is refused *)
Theorem transfer_invalid_rejected src dst bs obj rest :
  decode_top widen32 (rt_fuel bs) src bs = DOk obj rest -> valid_top dst obj = false ->
  transfer round32 widen32 src dst bs = EErr EValidation.
Proof. intros Hd Hv. unfold transfer. rewrite Hd. unfold validate_and_encode. rewrite Hv. reflexivity. Qed.

End Top.

(* F9g: object|null with an empty encoding does not come back *)
Theorem objnull_empty_refuted :
  exists (t : top) (v : value),
    rt_ok (t_schema t) = true /\ shape_ok (t_schema t) = true /\
    validate_and_encode round32_impl t v = EOk [] /\
    decode_top widen32_impl 5 t [] = DOk VNull [] /\
    norm_top round32_impl widen32_impl t v <> VNull.
Proof.
  exists {| t_nullable := true; t_schema := SObj (Some []) [] |}, (VObj []).
  repeat split; try reflexivity. discriminate.
Qed.

(* ------------------------------------------------------------ non-vacuity *)

Example struct_roundtrip_ex :
  let t := modify_top {| t_nullable := false; t_schema := ex_schema |} in
  rt_ok (t_schema t) = true /\ shape_ok (t_schema t) = true /\
  validate_and_encode round32_impl t ex_value =
    EOk [1; 0; 254; 255; 97; 98; 0; 99; 0; 0; 192; 63; 1; 2; 120; 121; 0; 0] /\
  decode_top widen32_impl 0 t [1; 0; 254; 255; 97; 98; 0; 99; 0; 0; 192; 63; 1; 2; 120; 121; 0; 0] =
    DOk (VObj [ ([102;105;120], VArr [VBool true; VBool false]); ([105;100], VInt (-2));
                ([110;97;109;101], VStr [97;98]); ([119], VFloat 4609434218613702656);
                ([120;115], VArr [VObj [([112], VStr [120;121]); ([112;97;100], VNull)]]) ]) [].
Proof. vm_compute. auto. Qed.
