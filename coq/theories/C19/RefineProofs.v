(* C19 — position-wise correctness of the (unfiltered) algorithm model.

   For a fixed position x the abstract sweep of SliceProofs.v is analysed against the walks
   of the specification: a sample s is in D[u] exactly when u lies on the walk of s at x and
   all edges of the walk up to u have been processed; a record for the pair {a,b} covering x
   is emitted exactly once — when the two walks first meet — and is labelled with the node
   where they meet, which is the MRCA of the specification.

   Hypotheses (all consequences of tsk_table_collection_check_integrity on a valid tree
   sequence): edges sorted by parent time, parents strictly older than children, at most
   one edge above a node at position x. *)
From Coq Require Import List ZArith Bool Lia Arith.
From TskVerif Require Import Base.Common C19.Model C19.IbdAlg C19.SpecProofs C19.AlgProofs C19.SliceProofs.
Import ListNotations.
Open Scope Z_scope.

(* ---- counting ------------------------------------------------------------------------- *)

Definition cnt (s : Z) (l : list Z) : nat := length (filter (Z.eqb s) l).

Lemma cnt_app s l1 l2 : cnt s (l1 ++ l2) = (cnt s l1 + cnt s l2)%nat.
Proof. unfold cnt. rewrite filter_app, app_length. reflexivity. Qed.

Lemma cnt_zero_notin s l : cnt s l = 0%nat <-> ~ In s l.
Proof.
  unfold cnt. induction l as [|v t IH]; simpl; [tauto|].
  destruct (s =? v) eqn:E; simpl.
  - apply Z.eqb_eq in E. split; [discriminate | intros H; exfalso; apply H; left; congruence].
  - apply Z.eqb_neq in E. rewrite IH. split; [intros H [F|F]; [congruence | tauto] | tauto].
Qed.

Definition b2n (c : bool) : nat := if c then 1%nat else 0%nat.

Lemma cnt_cons s v t : cnt s (v :: t) = (b2n (Z.eqb s v) + cnt s t)%nat.
Proof. unfold cnt. cbn [filter]. destruct (Z.eqb s v); reflexivity. Qed.

Lemma cnt_nil s : cnt s [] = 0%nat.
Proof. reflexivity. Qed.

Section Refine.
  Variables (between : bool) (ssid times : list Z) (x : Z) (es : list edge).

  Definition tm (u : Z) : Z := time_of times u.

  Hypothesis Hsorted : forall i j ei ej, (i < j)%nat ->
    nth_error es i = Some ei -> nth_error es j = Some ej -> tm (eparent ei) <= tm (eparent ej).
  Hypothesis Holder : forall e, In e es -> tm (echild e) < tm (eparent e).
  Hypothesis Huniq : forall i1 i2 e1 e2,
    nth_error es i1 = Some e1 -> nth_error es i2 = Some e2 -> echild e1 = echild e2 ->
    covers e1 x = true -> covers e2 x = true -> i1 = i2.

  (* ---- edge_above -------------------------------------------------------------------- *)

  Lemma edge_above_from_some : forall l i0 u i e,
    edge_above_from i0 l x u = Some (i, e) ->
    exists k, i = (i0 + k)%nat /\ nth_error l k = Some e /\ covers e x = true /\ echild e = u.
  Proof.
    induction l as [|h t IH]; intros i0 u i e H; simpl in H; [discriminate|].
    destruct (covers h x && (echild h =? u)) eqn:E.
    - inversion H; subst. apply andb_true_iff in E as [E1 E2]. apply Z.eqb_eq in E2.
      exists 0%nat. repeat split; auto; lia.
    - destruct (IH _ _ _ _ H) as (k & H1 & H2 & H3 & H4). exists (S k). repeat split; auto; lia.
  Qed.

  Lemma edge_above_from_none : forall l i0 u,
    edge_above_from i0 l x u = None ->
    forall k e, nth_error l k = Some e -> covers e x = true -> echild e = u -> False.
  Proof.
    induction l as [|h t IH]; intros i0 u H k e Hk Hc Hu; [destruct k; discriminate|].
    simpl in H. destruct (covers h x && (echild h =? u)) eqn:E; [discriminate|].
    destruct k as [|k]; simpl in Hk.
    - inversion Hk; subst. rewrite Hc, Z.eqb_refl in E. discriminate.
    - eapply IH; eauto.
  Qed.

  Lemma edge_above_some u i e : edge_above es x u = Some (i, e) ->
    nth_error es i = Some e /\ covers e x = true /\ echild e = u.
  Proof.
    intros H. apply edge_above_from_some in H as (k & H1 & H2 & H3 & H4). simpl in H1. subst. auto.
  Qed.

  Lemma edge_above_complete k e : nth_error es k = Some e -> covers e x = true ->
    edge_above es x (echild e) = Some (k, e).
  Proof.
    intros Hk Hc. destruct (edge_above es x (echild e)) as [[i e']|] eqn:E.
    - destruct (edge_above_some _ _ _ E) as (H1 & H2 & H3).
      assert (i = k) by (eapply Huniq; eauto). subst. congruence.
    - exfalso. eapply edge_above_from_none; eauto.
  Qed.

  (* ---- facts about one walk ------------------------------------------------------------ *)

  Section Walk.
    Variables (s : Z) (ws : list (nat * Z)).
    Hypothesis W : is_walk es x s ws.

    Definition anc (k : nat) : Z := nth k (ancs s ws) 0.
    Definition idx (k : nat) : nat := fst (nth k ws (0%nat, 0)).

    Lemma walk_edge_gen : forall l u k, is_walk es x u l -> (k < length l)%nat ->
      exists e, nth_error es (fst (nth k l (0%nat, 0))) = Some e /\ covers e x = true /\
                echild e = nth k (ancs u l) 0 /\ eparent e = nth (S k) (ancs u l) 0.
    Proof.
      induction l as [|[i p] t IH]; intros u k Wl Hk; simpl in Hk; [lia|].
      destruct Wl as [[e [E P]] Wt].
      destruct k as [|k].
      - exists e. destruct (edge_above_some _ _ _ E) as (H1 & H2 & H3). simpl. auto.
      - destruct (IH p k Wt ltac:(lia)) as (e' & H1 & H2 & H3 & H4). exists e'. simpl. auto.
    Qed.

    Lemma walk_edge k : (k < length ws)%nat ->
      exists e, nth_error es (idx k) = Some e /\ covers e x = true /\
                echild e = anc k /\ eparent e = anc (S k).
    Proof. apply walk_edge_gen. exact W. Qed.

    Lemma walk_end : edge_above es x (anc (length ws)) = None.
    Proof.
      pose proof (is_walk_suffix es x ws s (length ws) W (le_n _)) as H.
      rewrite skipn_all in H. exact H.
    Qed.

    Lemma walk_nodup : NoDup (ancs s ws).
    Proof. eapply is_walk_nodup; eauto. Qed.

    Lemma ancs_length : length (ancs s ws) = S (length ws).
    Proof. unfold ancs. simpl. rewrite map_length. reflexivity. Qed.

    Lemma anc_inj i j : (i <= length ws)%nat -> (j <= length ws)%nat -> anc i = anc j -> i = j.
    Proof.
      intros Hi Hj E. apply (proj1 (NoDup_nth (ancs s ws) 0) walk_nodup); try (rewrite ancs_length; lia). exact E.
    Qed.

    Lemma walk_time k : (k < length ws)%nat -> tm (anc k) < tm (anc (S k)).
    Proof.
      intros Hk. destruct (walk_edge k Hk) as (e & H1 & _ & H3 & H4).
      rewrite <- H3, <- H4. apply Holder. eapply nth_error_In; eauto.
    Qed.

    Lemma walk_time_mono : forall k2 k1, (k1 < k2)%nat -> (k2 <= length ws)%nat -> tm (anc k1) < tm (anc k2).
    Proof.
      induction k2 as [|k2 IH]; intros k1 H1 H2; [lia|].
      destruct (Nat.eq_dec k1 k2) as [->|N].
      - apply walk_time. lia.
      - pose proof (IH k1 ltac:(lia) ltac:(lia)). pose proof (walk_time k2 ltac:(lia)). lia.
    Qed.

    (* edge indices increase along the walk *)
    Lemma walk_idx_lt k1 k2 : (k1 < k2)%nat -> (k2 < length ws)%nat -> (idx k1 < idx k2)%nat.
    Proof.
      intros H1 H2.
      destruct (walk_edge k1 ltac:(lia)) as (e1 & A1 & _ & _ & P1).
      destruct (walk_edge k2 H2) as (e2 & A2 & _ & C2 & P2).
      assert (T : tm (eparent e1) < tm (eparent e2)).
      { rewrite P1, P2.
        destruct (Nat.eq_dec (S k1) k2) as [<-|N].
        - apply walk_time. lia.
        - pose proof (walk_time_mono k2 (S k1) ltac:(lia) ltac:(lia)). pose proof (walk_time k2 H2). lia. }
      destruct (lt_eq_lt_dec (idx k1) (idx k2)) as [[L|E]|G]; [exact L| |].
      - rewrite E in A1. rewrite A1 in A2. inversion A2; subst. lia.
      - pose proof (Hsorted _ _ _ _ G A2 A1). lia.
    Qed.

    Lemma idx_bound k : (k < length ws)%nat -> (idx k < length es)%nat.
    Proof.
      intros Hk. destruct (walk_edge k Hk) as (e & A & _). apply nth_error_Some. congruence.
    Qed.

    (* u lies on the walk and the edges up to u are among the first j edges of the table *)
    Definition onpath (j : nat) (u : Z) : Prop :=
      exists i, (i <= length ws)%nat /\ anc i = u /\ forall k, (k < i)%nat -> (idx k < j)%nat.

    Lemma onpath_mono j j' u : (j <= j')%nat -> onpath j u -> onpath j' u.
    Proof. intros H (i & H1 & H2 & H3). exists i. repeat split; auto. intros k Hk. specialize (H3 k Hk). lia. Qed.

    Lemma onpath_0 u : onpath 0 u <-> u = s.
    Proof.
      split.
      - intros (i & H1 & H2 & H3). destruct i as [|i]; [unfold anc in H2; simpl in H2; congruence|].
        specialize (H3 0%nat ltac:(lia)). lia.
      - intros ->. exists 0%nat. split; [lia|]. split; [reflexivity | intros; lia].
    Qed.

    Lemma onpath_prefix j i i' : (i' <= i)%nat -> (i <= length ws)%nat ->
      (forall k, (k < i)%nat -> (idx k < j)%nat) -> onpath j (anc i').
    Proof. intros H1 H2 H3. exists i'. split; [lia|]. split; [reflexivity | intros k Hk; apply H3; lia]. Qed.

    Lemma onpath_final u : In u (ancs s ws) -> onpath (length es) u.
    Proof.
      intros H. apply (In_nth _ _ 0) in H as (i & Hi & E). rewrite ancs_length in Hi.
      exists i. repeat split; [lia | exact E |]. intros k Hk. apply idx_bound. lia.
    Qed.

    Lemma onpath_in j u : onpath j u -> In u (ancs s ws).
    Proof. intros (i & H1 & H2 & _). rewrite <- H2. apply nth_In. rewrite ancs_length. lia. Qed.

    Lemma bounded_split (f : nat -> nat) j : forall i,
      (forall k, (k < i)%nat -> (f k < S j)%nat) ->
      (forall k, (k < i)%nat -> (f k < j)%nat) \/ exists k, (k < i)%nat /\ f k = j.
    Proof.
      induction i as [|i IH]; intros H; [left; intros; lia|].
      destruct (IH ltac:(intros; apply H; lia)) as [L|(k & Hk & E)]; [|right; exists k; split; [lia|exact E]].
      destruct (Nat.eq_dec (f i) j) as [E|N]; [right; exists i; split; [lia|exact E]|].
      left. intros k Hk. destruct (Nat.eq_dec k i) as [->|]; [specialize (H i ltac:(lia)); lia | apply L; lia].
    Qed.

    (* the j-th edge of the table *)
    Variables (j : nat) (e : edge).
    Hypothesis Ej : nth_error es j = Some e.

    Lemma onpath_step_noncover u : covers e x = false -> (onpath (S j) u <-> onpath j u).
    Proof.
      intros Hc. split; [|apply onpath_mono; lia].
      intros (i & H1 & H2 & H3). exists i. repeat split; auto.
      destruct (bounded_split idx j i H3) as [L|(k & Hk & E)]; [exact L|]. exfalso.
      destruct (walk_edge k ltac:(lia)) as (e' & A & C & _). rewrite E, Ej in A. inversion A; subst. congruence.
    Qed.

    Hypothesis Hc : covers e x = true.

    (* if the walk uses edge j at step k then it goes from c to p there *)
    Lemma uses_edge k : (k < length ws)%nat -> idx k = j -> anc k = echild e /\ anc (S k) = eparent e.
    Proof.
      intros Hk E. destruct (walk_edge k Hk) as (e' & A & _ & C & P). rewrite E, Ej in A. inversion A; subst. auto.
    Qed.

    (* if the walk reaches c then its next edge is edge j *)
    Lemma reaches_child i : (i <= length ws)%nat -> anc i = echild e -> (i < length ws)%nat /\ idx i = j.
    Proof.
      intros Hi E.
      assert (Hlt : (i < length ws)%nat).
      { destruct (Nat.eq_dec i (length ws)) as [->|]; [|lia]. exfalso.
        pose proof walk_end as WE. rewrite E in WE. rewrite (edge_above_complete j e Ej Hc) in WE. discriminate. }
      split; [exact Hlt|].
      destruct (walk_edge i Hlt) as (e' & A & C & Ch & _).
      eapply Huniq; eauto. congruence.
    Qed.

    Lemma onpath_step_other u : u <> eparent e -> (onpath (S j) u <-> onpath j u).
    Proof.
      intros Hu. split; [|apply onpath_mono; lia].
      intros (i & H1 & H2 & H3). exists i. repeat split; auto.
      destruct (bounded_split idx j i H3) as [L|(k & Hk & E)]; [exact L|]. exfalso.
      destruct (uses_edge k ltac:(lia) E) as [_ P].
      destruct (Nat.eq_dec (S k) i) as [<-|N]; [congruence|].
      pose proof (walk_idx_lt k (S k) ltac:(lia) ltac:(lia)) as Lt.
      specialize (H3 (S k) ltac:(lia)). lia.
    Qed.

    Lemma onpath_step_parent :
      onpath (S j) (eparent e) <-> (onpath j (eparent e) \/ onpath j (echild e)).
    Proof.
      split.
      - intros (i & H1 & H2 & H3).
        destruct (bounded_split idx j i H3) as [L|(k & Hk & E)]; [left; exists i; auto|]. right.
        destruct (uses_edge k ltac:(lia) E) as [C P].
        assert (i = S k) by (apply anc_inj; try lia; congruence). subst i.
        exists k. repeat split; [lia | exact C |].
        intros k' Hk'. pose proof (walk_idx_lt k' k Hk' ltac:(lia)). lia.
      - intros [H|(i & H1 & H2 & H3)]; [eapply onpath_mono; [|exact H]; lia|].
        destruct (reaches_child i H1 H2) as [Hlt Ei].
        destruct (uses_edge i Hlt Ei) as [_ P].
        exists (S i). repeat split; [lia | exact P |].
        intros k Hk. destruct (Nat.eq_dec k i) as [->|]; [lia | specialize (H3 k ltac:(lia)); lia].
    Qed.

    Lemma onpath_not_both : onpath j (eparent e) -> onpath j (echild e) -> False.
    Proof.
      intros (i1 & A1 & A2 & A3) (i2 & B1 & B2 & B3).
      destruct (reaches_child i2 B1 B2) as [Hlt Ei].
      destruct (uses_edge i2 Hlt Ei) as [_ P].
      assert (i1 = S i2) by (apply anc_inj; try lia; congruence). subst i1.
      specialize (A3 i2 ltac:(lia)). lia.
    Qed.
  End Walk.

  (* ---- the D-invariant for one sample ---------------------------------------------------- *)

  Definition InvS (s : Z) (ws : list (nat * Z)) (j : nat) (D : list (list Z)) : Prop :=
    forall u dl, get D u = Ok dl ->
      (cnt s dl <= 1)%nat /\ (cnt s dl = 1%nat <-> onpath s ws j u).

  Lemma astep_InvS s ws j e D D' recs :
    is_walk es x s ws -> nth_error es j = Some e ->
    astep between ssid (cov1 x) e D = Ok (D', recs) -> InvS s ws j D -> InvS s ws (S j) D'.
  Proof.
    intros W Ej H I. unfold astep in H. change (cvE (cov1 x) e) with (covers e x) in H.
    destruct (get D (echild e)) as [dc| | |] eqn:Ec; cbn [bind] in H; try discriminate.
    destruct (get D (eparent e)) as [dp| | |] eqn:Ep; cbn [bind] in H; try discriminate.
    destruct (covers e x) eqn:Hc.
    - destruct (set D (eparent e) (dp ++ dc)) as [Ds| | |] eqn:Es; cbn [bind] in H; try discriminate.
      inversion H; subst; clear H.
      destruct (get_set _ _ _ _ Es) as [G1 G2].
      destruct (I _ _ Ec) as [Cc1 Cc2]. destruct (I _ _ Ep) as [Cp1 Cp2].
      intros u dl Hu.
      destruct (Z.eq_dec u (eparent e)) as [->|Hne].
      + rewrite G1 in Hu. inversion Hu; subst. rewrite cnt_app.
        pose proof (onpath_not_both s ws W j e Ej Hc) as NB.
        pose proof (onpath_step_parent s ws W j e Ej Hc) as SP.
        assert (~ (cnt s dp = 1%nat /\ cnt s dc = 1%nat)) by (intros [A B]; apply NB; [apply Cp2 | apply Cc2]; assumption).
        split; [lia|]. rewrite SP, <- Cp2, <- Cc2. lia.
      + rewrite (G2 u Hne) in Hu. destruct (I _ _ Hu) as [C1 C2]. split; [exact C1|].
        rewrite C2. symmetry. apply (onpath_step_other s ws W j e Ej Hc). exact Hne.
    - inversion H; subst; clear H. intros u dl Hu. destruct (I _ _ Hu) as [C1 C2]. split; [exact C1|].
      rewrite C2. symmetry. apply (onpath_step_noncover s ws W j e Ej). exact Hc.
  Qed.

  (* a node that is not requested never appears *)
  Definition Absent (s : Z) (D : list (list Z)) : Prop := forall u dl, get D u = Ok dl -> cnt s dl = 0%nat.

  Lemma astep_Absent s e D D' recs :
    astep between ssid (cov1 x) e D = Ok (D', recs) -> Absent s D -> Absent s D'.
  Proof.
    intros H I. unfold astep in H. change (cvE (cov1 x) e) with (covers e x) in H.
    destruct (get D (echild e)) as [dc| | |] eqn:Ec; cbn [bind] in H; try discriminate.
    destruct (get D (eparent e)) as [dp| | |] eqn:Ep; cbn [bind] in H; try discriminate.
    destruct (covers e x).
    - destruct (set D (eparent e) (dp ++ dc)) as [Ds| | |] eqn:Es; cbn [bind] in H; try discriminate.
      inversion H; subst; clear H. destruct (get_set _ _ _ _ Es) as [G1 G2].
      intros u dl Hu. destruct (Z.eq_dec u (eparent e)) as [->|Hne].
      + rewrite G1 in Hu. inversion Hu; subst. rewrite cnt_app, (I _ _ Ec), (I _ _ Ep). reflexivity.
      + rewrite (G2 u Hne) in Hu. eapply I; eauto.
    - inversion H; subst. exact I.
  Qed.

  (* ---- counting the records of a pair ---------------------------------------------------- *)

  Section Pair.
  Variables (a b : Z).
  Hypothesis Hab : a <> b.

  Definition matches (r : Z * Z * Z) : bool :=
    let '(s0, s1, _) := r in ((s0 =? a) && (s1 =? b)) || ((s0 =? b) && (s1 =? a)).

  Notation apass := (apass between ssid).
  Notation arec := (arec between ssid).
  Notation arec_inner := (arec_inner between ssid).

  Lemma apass_sym u v : apass u v = apass v u.
  Proof. unfold SliceProofs.apass. rewrite (Z.eqb_sym u v), (Z.eqb_sym (sid ssid u) (sid ssid v)). reflexivity. Qed.

  Lemma count_inner p s0 dc :
    length (filter matches (arec_inner p s0 dc)) =
    (b2n (Z.eqb s0 a) * cnt b dc * b2n (apass a b) + b2n (Z.eqb s0 b) * cnt a dc * b2n (apass a b))%nat.
  Proof.
    unfold SliceProofs.arec_inner.
    set (F := fun s1 : Z => if apass s0 s1 then [(s0, s1, p)] else []).
    induction dc as [|s1 t IH]; cbn [flat_map].
    - rewrite !cnt_nil. cbn [filter length]. lia.
    - rewrite filter_app, app_length, IH, !cnt_cons. clear IH. unfold F. clear F.
      assert (Eab : (a =? b) = false) by (apply Z.eqb_neq; exact Hab).
      assert (Eba : (b =? a) = false) by (apply Z.eqb_neq; congruence).
      destruct (s0 =? a) eqn:E0a; destruct (s0 =? b) eqn:E0b;
        try (apply Z.eqb_eq in E0a; apply Z.eqb_eq in E0b; congruence).
      + apply Z.eqb_eq in E0a. subst s0.
        destruct (b =? s1) eqn:E1b; destruct (a =? s1) eqn:E1a;
          try (apply Z.eqb_eq in E1a; apply Z.eqb_eq in E1b; congruence).
        * apply Z.eqb_eq in E1b. subst s1. destruct (apass a b); cbn [filter matches length b2n];
            rewrite ?Z.eqb_refl, ?Eab, ?Eba; cbn [andb orb length]; lia.
        * apply Z.eqb_eq in E1a. subst s1. destruct (apass a a) eqn:Ep.
          -- unfold SliceProofs.apass in Ep. rewrite Z.eqb_refl in Ep. discriminate.
          -- cbn [filter length b2n]. lia.
        * destruct (apass a s1); cbn [filter matches length b2n].
          -- rewrite ?Z.eqb_refl, ?Eab, ?Eba, (Z.eqb_sym s1 b), E1b, (Z.eqb_sym s1 a), E1a. cbn [andb orb length]. lia.
          -- lia.
      + apply Z.eqb_eq in E0b. subst s0.
        destruct (b =? s1) eqn:E1b; destruct (a =? s1) eqn:E1a;
          try (apply Z.eqb_eq in E1a; apply Z.eqb_eq in E1b; congruence).
        * apply Z.eqb_eq in E1b. subst s1. destruct (apass b b) eqn:Ep.
          -- unfold SliceProofs.apass in Ep. rewrite Z.eqb_refl in Ep. discriminate.
          -- cbn [filter length b2n]. lia.
        * apply Z.eqb_eq in E1a. subst s1. rewrite (apass_sym b a).
          destruct (apass a b); cbn [filter matches length b2n];
            rewrite ?Z.eqb_refl, ?Eab, ?Eba; cbn [andb orb length]; lia.
        * destruct (apass b s1); cbn [filter matches length b2n].
          -- rewrite ?Z.eqb_refl, ?Eab, ?Eba, (Z.eqb_sym s1 b), E1b, (Z.eqb_sym s1 a), E1a. cbn [andb orb length]. lia.
          -- lia.
      + destruct (apass s0 s1); cbn [filter matches length b2n]; [|lia].
        rewrite E0a, E0b. cbn [andb orb length]. lia.
  Qed.

  Lemma count_arec p dp dc :
    length (filter matches (arec p dp dc)) =
    ((cnt a dp * cnt b dc + cnt b dp * cnt a dc) * b2n (apass a b))%nat.
  Proof.
    unfold SliceProofs.arec.
    set (F := fun s0 : Z => arec_inner p s0 dc).
    induction dp as [|s0 t IH]; cbn [flat_map].
    - rewrite !cnt_nil. cbn [filter length]. lia.
    - rewrite filter_app, app_length, IH. unfold F. rewrite count_inner, !cnt_cons.
      rewrite (Z.eqb_sym a s0), (Z.eqb_sym b s0).
      destruct (s0 =? a); destruct (s0 =? b); cbn [b2n]; lia.
  Qed.

  Lemma matches_node p dp dc : Forall (fun r => snd r = p) (arec p dp dc).
  Proof.
    unfold SliceProofs.arec, SliceProofs.arec_inner. apply Forall_forall. intros r H.
    apply in_flat_map in H as (s0 & _ & H). apply in_flat_map in H as (s1 & _ & H).
    destruct (apass s0 s1); [|contradiction]. destruct H as [<-|[]]. reflexivity.
  Qed.

  (* ---- the two walks ----------------------------------------------------------------------- *)

  Variables (wa wb : list (nat * Z)).
  Hypothesis Wa : is_walk es x a wa.
  Hypothesis Wb : is_walk es x b wb.

  Definition meet (j : nat) (u : Z) : Prop := onpath a wa j u /\ onpath b wb j u.

  (* common first_common facts in terms of anc *)
  Lemma fc_facts i i2 m : first_common (ancs a wa) (ancs b wb) 0 = Some (i, i2, m) ->
    (i <= length wa)%nat /\ (i2 <= length wb)%nat /\ anc a wa i = m /\ anc b wb i2 = m /\
    forall k, (k < i)%nat -> ~ In (anc a wa k) (ancs b wb).
  Proof.
    intros H. apply first_common_some in H as (_ & Hi & Hm & Hj & Hmin). rewrite Nat.sub_0_r in *.
    apply index_of_some in Hj as (Hj & Hjm & _).
    rewrite (ancs_length a wa) in Hi. rewrite (ancs_length b wb) in Hj.
    repeat split; try lia; auto.
  Qed.

  (* a common node below which nothing is common is THE first common node *)
  Lemma fc_intro i i2 : (i <= length wa)%nat -> (i2 <= length wb)%nat ->
    anc a wa i = anc b wb i2 ->
    (forall k, (k < i)%nat -> ~ In (anc a wa k) (ancs b wb)) ->
    first_common (ancs a wa) (ancs b wb) 0 = Some (i, i2, anc a wa i).
  Proof.
    intros Hi Hi2 E Hmin.
    destruct (first_common_exists (ancs a wa) (ancs b wb) 0 (anc a wa i)) as (i' & j' & m' & F).
    { apply nth_In. rewrite ancs_length. lia. }
    { rewrite E. apply nth_In. rewrite ancs_length. lia. }
    rewrite F. destruct (fc_facts _ _ _ F) as (A1 & A2 & A3 & A4 & A5).
    assert (i' = i).
    { destruct (lt_eq_lt_dec i' i) as [[L|Eq]|G]; [|exact Eq|]; exfalso.
      - apply (Hmin i' L). rewrite A3, <- A4. unfold anc. apply nth_In. rewrite ancs_length. lia.
      - apply (A5 i G). rewrite E. unfold anc. apply nth_In. rewrite ancs_length. lia. }
    subst i'. assert (j' = i2) by (apply (anc_inj b wb Wb); try lia; congruence). subst. reflexivity.
  Qed.

  (* a node of a's walk that lies on b's walk below position i2 ... merging *)
  Lemma merge_offsets i i2 k : (i <= length wa)%nat -> (i2 <= length wb)%nat ->
    anc a wa i = anc b wb i2 -> (i + k <= length wa)%nat ->
    (i2 + k <= length wb)%nat /\ anc a wa (i + k) = anc b wb (i2 + k) /\
    (forall d, (d < k)%nat -> idx wa (i + d) = idx wb (i2 + d)).
  Proof.
    intros Hi Hi2 E Hk.
    destruct (walks_merge es x a b wa wb i i2 Wa Wb Hi Hi2 E) as [S1 S2].
    assert (L : (length wa - i = length wb - i2)%nat).
    { apply (f_equal (@length _)) in S1. rewrite !skipn_length in S1. exact S1. }
    split; [lia|]. split.
    - unfold anc. rewrite <- !nth_skipn_c19. rewrite S2. reflexivity.
    - intros d Hd. unfold idx. rewrite <- !nth_skipn_c19. rewrite S1. reflexivity.
  Qed.

  (* ---- soundness of one emission ---------------------------------------------------------- *)

  (* at a covering edge j = (p <- c): if a is complete at p and b is complete at c and the
     walks have not met among the processed edges, p is the first common node *)
  Lemma emission_is_first_common j e :
    nth_error es j = Some e -> covers e x = true ->
    onpath a wa j (eparent e) -> onpath b wb j (echild e) ->
    (forall u, ~ meet j u) ->
    exists i i2, first_common (ancs a wa) (ancs b wb) 0 = Some (i, i2, eparent e).
  Proof.
    intros Ej Hc (i & A1 & A2 & A3) (i2 & B1 & B2 & B3) NM.
    destruct (reaches_child b wb Wb j e Ej Hc i2 B1 B2) as [Hlt Ei].
    destruct (uses_edge b wb Wb j e Ej Hc i2 Hlt Ei) as [_ P].
    exists i, (S i2). rewrite <- A2. apply fc_intro; try lia; try congruence.
    intros k Hk Hin.
    (* anc a k is common and lies below p on both walks: the walks would have met already *)
    apply (In_nth _ _ 0) in Hin as (k2 & Hk2 & E2). rewrite ancs_length in Hk2.
    assert (E2' : anc a wa k = anc b wb k2) by (unfold anc in *; congruence).
    destruct (merge_offsets k k2 (i - k) ltac:(lia) ltac:(lia) E2' ltac:(lia)) as (M1 & M2 & M3).
    replace (k + (i - k))%nat with i in M2 by lia.
    assert (k2 + (i - k) = S i2)%nat by (apply (anc_inj b wb Wb); try lia; congruence).
    apply (NM (anc a wa k)). split.
    - apply (onpath_prefix a wa j i k); try lia. exact A3.
    - rewrite E2'.
      apply (onpath_prefix b wb j i2 k2); try lia. exact B3.
  Qed.

  (* once the walks have met no further record of the pair is emitted *)
  Lemma no_emission_after_meeting j e m :
    nth_error es j = Some e -> covers e x = true -> meet j m ->
    (onpath a wa j (eparent e) -> onpath b wb j (echild e) -> False).
  Proof.
    intros Ej Hc [(im & M1 & M2 & M3) (im2 & N1 & N2 & N3)] (i & A1 & A2 & A3) (i2 & B1 & B2 & B3).
    destruct (reaches_child b wb Wb j e Ej Hc i2 B1 B2) as [Hlt Ei].
    destruct (uses_edge b wb Wb j e Ej Hc i2 Hlt Ei) as [_ P].
    (* m is at or below c on b's walk, because b's chain to m avoids edge j *)
    assert (Hle : (im2 <= i2)%nat).
    { destruct (le_lt_dec im2 i2) as [|G]; [assumption|]. specialize (N3 i2 G). lia. }
    (* merge at m: a's walk continues like b's, so it passes c and then p via edge j *)
    destruct (le_lt_dec (im + (S i2 - im2)) (length wa)) as [Hfit|Hbig].
    - destruct (merge_offsets im im2 (S i2 - im2) M1 N1 ltac:(congruence) Hfit) as (Q1 & Q2 & Q3).
      replace (im2 + (S i2 - im2))%nat with (S i2) in Q2 by lia.
      assert (i = im + (S i2 - im2))%nat by (apply (anc_inj a wa Wa); try lia; congruence).
      specialize (Q3 (i2 - im2)%nat ltac:(lia)).
      replace (im2 + (i2 - im2))%nat with i2 in Q3 by lia.
      specialize (A3 (im + (i2 - im2))%nat ltac:(lia)). lia.
    - (* a's walk is too short to reach p — but it does reach p *)
      destruct (walks_merge es x a b wa wb im im2 Wa Wb M1 N1 ltac:(unfold anc in *; congruence)) as [S1 _].
      apply (f_equal (@length _)) in S1. rewrite !skipn_length in S1. lia.
  Qed.
  End Pair.

  (* ---- the whole sweep, for one pair --------------------------------------------------------- *)

  Section Run.
  Variables (a b : Z) (wa wb : list (nat * Z)).
  Hypothesis Hab : a <> b.
  Hypothesis Wa : is_walk es x a wa.
  Hypothesis Wb : is_walk es x b wb.
  Hypothesis Hpass : SliceProofs.apass between ssid a b = true.

  Let Hba : b <> a. Proof. congruence. Qed.

  Lemma meet_sym j u : meet a b wa wb j u <-> meet b a wb wa j u.
  Proof. unfold meet. tauto. Qed.

  Lemma matches_sym r : matches a b r = matches b a r.
  Proof. destruct r as [[s0 s1] n]. unfold matches. apply orb_comm. Qed.

  (* the matched records after j edges: none while the walks have not met among the processed
     edges, exactly one — labelled with the first common node — afterwards *)
  Definition InvM (j : nat) (M : list (Z * Z * Z)) : Prop :=
    (M = [] /\ forall u, ~ meet a b wa wb j u) \/
    (exists r i i2 m, M = [r] /\ snd r = m /\
                      first_common (ancs a wa) (ancs b wb) 0 = Some (i, i2, m) /\ meet a b wa wb j m).

  Lemma length_zero_nil {A} (l : list A) : length l = 0%nat -> l = [].
  Proof. destruct l; [reflexivity | discriminate]. Qed.

  Lemma astep_InvM j e D D' recs M :
    nth_error es j = Some e ->
    astep between ssid (cov1 x) e D = Ok (D', recs) ->
    InvS a wa j D -> InvS b wb j D -> InvM j M ->
    InvM (S j) (M ++ filter (matches a b) recs).
  Proof.
    intros Ej H Ia Ib IM. unfold astep in H. change (cvE (cov1 x) e) with (covers e x) in H.
    destruct (get D (echild e)) as [dc| | |] eqn:Ec; cbn [bind] in H; try discriminate.
    destruct (get D (eparent e)) as [dp| | |] eqn:Ep; cbn [bind] in H; try discriminate.
    destruct (covers e x) eqn:Hc.
    - destruct (set D (eparent e) (dp ++ dc)) as [Ds| | |] eqn:Es; cbn [bind] in H; try discriminate.
      inversion H; subst; clear H.
      destruct (Ia _ _ Ec) as [Aac1 Aac2]. destruct (Ia _ _ Ep) as [Aap1 Aap2].
      destruct (Ib _ _ Ec) as [Bbc1 Bbc2]. destruct (Ib _ _ Ep) as [Bbp1 Bbp2].
      pose proof (count_arec a b Hab (eparent e) dp dc) as CNT. rewrite Hpass in CNT. cbn [b2n] in CNT.
      pose proof (matches_node (eparent e) dp dc) as NODE.
      pose proof (onpath_not_both a wa Wa j e Ej Hc) as NBa.
      pose proof (onpath_not_both b wb Wb j e Ej Hc) as NBb.
      destruct IM as [[-> NM] | (r & i & i2 & m & -> & Hr & FC & MT)].
      + (* not met yet *)
        cbn [app].
        destruct (Nat.eq_dec (cnt a dp) 1) as [Eap|Nap]; destruct (Nat.eq_dec (cnt b dc) 1) as [Ebc|Nbc].
        * (* a complete at p, b complete at c: the record (a, b, p) *)
          assert (cnt a dc = 0%nat) by (destruct (Nat.eq_dec (cnt a dc) 1) as [E|]; [exfalso; apply NBa; [apply Aap2 | apply Aac2]; assumption | lia]).
          assert (L1 : length (filter (matches a b) (arec between ssid (eparent e) dp dc)) = 1%nat) by (rewrite CNT; nia).
          destruct (filter (matches a b) (arec between ssid (eparent e) dp dc)) as [|r [|r' t]] eqn:EF; try discriminate.
          destruct (emission_is_first_common a b wa wb Wa Wb j e Ej Hc (proj1 Aap2 Eap) (proj1 Bbc2 Ebc) NM) as (i & i2 & FC).
          right. exists r, i, i2, (eparent e). repeat split; auto.
          -- assert (In r (filter (matches a b) (arec between ssid (eparent e) dp dc))) by (rewrite EF; left; reflexivity).
             apply filter_In in H0 as [H0 _]. rewrite Forall_forall in NODE. apply NODE. exact H0.
          -- apply (onpath_mono a wa j (S j)); [lia | apply Aap2; exact Eap].
          -- apply (onpath_step_parent b wb Wb j e Ej Hc). right. apply Bbc2. exact Ebc.
        * destruct (Nat.eq_dec (cnt b dp) 1) as [Ebp|Nbp]; destruct (Nat.eq_dec (cnt a dc) 1) as [Eac|Nac].
          -- exfalso. apply NBa; [apply Aap2 | apply Aac2]; assumption.
          -- left. split.
             ++ apply length_zero_nil. rewrite CNT. nia.
             ++ intros u [Ma Mb]. destruct (Z.eq_dec u (eparent e)) as [->|Hne].
                ** apply (onpath_step_parent b wb Wb j e Ej Hc) in Mb as [Mb|Mb].
                   --- apply (NM (eparent e)). split; [apply Aap2; exact Eap | exact Mb].
                   --- apply Nbc. apply Bbc2. exact Mb.
                ** apply (onpath_step_other a wa Wa j e Ej Hc u Hne) in Ma.
                   apply (onpath_step_other b wb Wb j e Ej Hc u Hne) in Mb. apply (NM u). split; assumption.
          -- exfalso. apply NBa; [apply Aap2 | apply Aac2]; assumption.
          -- left. split.
             ++ apply length_zero_nil. rewrite CNT. nia.
             ++ intros u [Ma Mb]. destruct (Z.eq_dec u (eparent e)) as [->|Hne].
                ** apply (onpath_step_parent b wb Wb j e Ej Hc) in Mb as [Mb|Mb].
                   --- apply (NM (eparent e)). split; [apply Aap2; exact Eap | exact Mb].
                   --- apply Nbc. apply Bbc2. exact Mb.
                ** apply (onpath_step_other a wa Wa j e Ej Hc u Hne) in Ma.
                   apply (onpath_step_other b wb Wb j e Ej Hc u Hne) in Mb. apply (NM u). split; assumption.
        * destruct (Nat.eq_dec (cnt b dp) 1) as [Ebp|Nbp]; destruct (Nat.eq_dec (cnt a dc) 1) as [Eac|Nac].
          -- (* b complete at p, a complete at c: the record (b, a, p) *)
             exfalso. apply NBb; [apply Bbp2 | apply Bbc2]; assumption.
          -- exfalso. apply NBb; [apply Bbp2 | apply Bbc2]; assumption.
          -- left. split.
             ++ apply length_zero_nil. rewrite CNT. nia.
             ++ intros u [Ma Mb]. destruct (Z.eq_dec u (eparent e)) as [->|Hne].
                ** apply (onpath_step_parent a wa Wa j e Ej Hc) in Ma as [Ma|Ma]; [apply Nap; apply Aap2; exact Ma|].
                   apply (onpath_step_parent b wb Wb j e Ej Hc) in Mb as [Mb|Mb]; [apply Nbp; apply Bbp2; exact Mb|].
                   apply (NM (echild e)). split; assumption.
                ** apply (onpath_step_other a wa Wa j e Ej Hc u Hne) in Ma.
                   apply (onpath_step_other b wb Wb j e Ej Hc u Hne) in Mb. apply (NM u). split; assumption.
          -- left. split.
             ++ apply length_zero_nil. rewrite CNT. nia.
             ++ intros u [Ma Mb]. destruct (Z.eq_dec u (eparent e)) as [->|Hne].
                ** apply (onpath_step_parent a wa Wa j e Ej Hc) in Ma as [Ma|Ma]; [apply Nap; apply Aap2; exact Ma|].
                   apply (onpath_step_parent b wb Wb j e Ej Hc) in Mb as [Mb|Mb]; [apply Nbp; apply Bbp2; exact Mb|].
                   apply (NM (echild e)). split; assumption.
                ** apply (onpath_step_other a wa Wa j e Ej Hc u Hne) in Ma.
                   apply (onpath_step_other b wb Wb j e Ej Hc u Hne) in Mb. apply (NM u). split; assumption.
        * destruct (Nat.eq_dec (cnt b dp) 1) as [Ebp|Nbp]; destruct (Nat.eq_dec (cnt a dc) 1) as [Eac|Nac].
          -- (* b complete at p, a complete at c: the record (b, a, p) *)
             assert (cnt a dp = 0%nat) by lia. assert (cnt b dc = 0%nat) by lia.
             assert (L1 : length (filter (matches a b) (arec between ssid (eparent e) dp dc)) = 1%nat) by (rewrite CNT; nia).
             destruct (filter (matches a b) (arec between ssid (eparent e) dp dc)) as [|r [|r' t]] eqn:EF; try discriminate.
             assert (NM' : forall u, ~ meet b a wb wa j u) by (intros u Hm; apply (NM u); apply meet_sym; exact Hm).
             destruct (emission_is_first_common b a wb wa Wb Wa j e Ej Hc (proj1 Bbp2 Ebp) (proj1 Aac2 Eac) NM') as (i & i2 & FC).
             apply (first_common_sym es x b a wb wa i i2 (eparent e) Wb Wa) in FC.
             right. exists r, i2, i, (eparent e). repeat split; auto.
             ++ assert (In r (filter (matches a b) (arec between ssid (eparent e) dp dc))) by (rewrite EF; left; reflexivity).
                apply filter_In in H1 as [H1 _]. rewrite Forall_forall in NODE. apply NODE. exact H1.
             ++ apply (onpath_step_parent a wa Wa j e Ej Hc). right. apply Aac2. exact Eac.
             ++ apply (onpath_mono b wb j (S j)); [lia | apply Bbp2; exact Ebp].
          -- left. split.
             ++ apply length_zero_nil. rewrite CNT. nia.
             ++ intros u [Ma Mb]. destruct (Z.eq_dec u (eparent e)) as [->|Hne].
                ** apply (onpath_step_parent a wa Wa j e Ej Hc) in Ma as [Ma|Ma]; [apply Nap; apply Aap2; exact Ma|].
                   apply Nac. apply Aac2. exact Ma.
                ** apply (onpath_step_other a wa Wa j e Ej Hc u Hne) in Ma.
                   apply (onpath_step_other b wb Wb j e Ej Hc u Hne) in Mb. apply (NM u). split; assumption.
          -- left. split.
             ++ apply length_zero_nil. rewrite CNT. nia.
             ++ intros u [Ma Mb]. destruct (Z.eq_dec u (eparent e)) as [->|Hne].
                ** apply (onpath_step_parent a wa Wa j e Ej Hc) in Ma as [Ma|Ma]; [apply Nap; apply Aap2; exact Ma|].
                   apply (onpath_step_parent b wb Wb j e Ej Hc) in Mb as [Mb|Mb]; [apply Nbp; apply Bbp2; exact Mb|].
                   apply (NM (echild e)). split; assumption.
                ** apply (onpath_step_other a wa Wa j e Ej Hc u Hne) in Ma.
                   apply (onpath_step_other b wb Wb j e Ej Hc u Hne) in Mb. apply (NM u). split; assumption.
          -- left. split.
             ++ apply length_zero_nil. rewrite CNT. nia.
             ++ intros u [Ma Mb]. destruct (Z.eq_dec u (eparent e)) as [->|Hne].
                ** apply (onpath_step_parent a wa Wa j e Ej Hc) in Ma as [Ma|Ma]; [apply Nap; apply Aap2; exact Ma|].
                   apply Nac. apply Aac2. exact Ma.
                ** apply (onpath_step_other a wa Wa j e Ej Hc u Hne) in Ma.
                   apply (onpath_step_other b wb Wb j e Ej Hc u Hne) in Mb. apply (NM u). split; assumption.
      + (* already met: nothing more is recorded for this pair *)
        assert (Z1 : (cnt a dp * cnt b dc = 0)%nat).
        { destruct (Nat.eq_dec (cnt a dp) 1) as [E1|]; [|nia]. destruct (Nat.eq_dec (cnt b dc) 1) as [E2|]; [|nia].
          exfalso. apply (no_emission_after_meeting a b wa wb Wa Wb j e m Ej Hc MT); [apply Aap2 | apply Bbc2]; assumption. }
        assert (Z2 : (cnt b dp * cnt a dc = 0)%nat).
        { destruct (Nat.eq_dec (cnt b dp) 1) as [E1|]; [|nia]. destruct (Nat.eq_dec (cnt a dc) 1) as [E2|]; [|nia].
          exfalso. apply (no_emission_after_meeting b a wb wa Wb Wa j e m Ej Hc (proj1 (meet_sym j m) MT)); [apply Bbp2 | apply Aac2]; assumption. }
        rewrite (length_zero_nil (filter (matches a b) (arec between ssid (eparent e) dp dc))) by (rewrite CNT; lia).
        right. exists r, i, i2, m. repeat split; auto.
        * apply (onpath_mono a wa j (S j)); [lia | apply MT].
        * apply (onpath_mono b wb j (S j)); [lia | apply MT].
    - inversion H; subst; clear H. cbn [filter]. rewrite app_nil_r.
      destruct IM as [[-> NM] | (r & i & i2 & m & -> & Hr & FC & MT)].
      + left. split; [reflexivity|]. intros u [Ma Mb]. apply (NM u). split.
        * apply (onpath_step_noncover a wa Wa j e Ej u Hc). exact Ma.
        * apply (onpath_step_noncover b wb Wb j e Ej u Hc). exact Mb.
      + right. exists r, i, i2, m. repeat split; auto.
        * apply (onpath_mono a wa j (S j)); [lia | apply MT].
        * apply (onpath_mono b wb j (S j)); [lia | apply MT].
  Qed.

  Lemma arun_InvM : forall rest done D D' recs M,
    es = done ++ rest ->
    arun between ssid (cov1 x) rest D = Ok (D', recs) ->
    InvS a wa (length done) D -> InvS b wb (length done) D -> InvM (length done) M ->
    InvM (length es) (M ++ filter (matches a b) recs).
  Proof.
    induction rest as [|e t IH]; intros done D D' recs M Hes H Ia Ib IM; cbn [arun] in H.
    - inversion H; subst. cbn [filter]. rewrite !app_nil_r. exact IM.
    - destruct (astep between ssid (cov1 x) e D) as [[D1 r1]| | |] eqn:E1; cbn [bind fst snd] in H; try discriminate.
      destruct (arun between ssid (cov1 x) t D1) as [[D2 r2]| | |] eqn:E2; cbn [bind fst snd] in H; try discriminate.
      inversion H; subst D' recs; clear H.
      assert (Ej : nth_error es (length done) = Some e).
      { rewrite Hes, nth_error_app2 by lia. rewrite Nat.sub_diag. reflexivity. }
      rewrite filter_app, app_assoc.
      assert (L : length (done ++ [e]) = S (length done)) by (rewrite app_length; simpl; lia).
      apply (IH (done ++ [e]) D1 D2 r2).
      + rewrite <- app_assoc. exact Hes.
      + exact E2.
      + rewrite L. eapply astep_InvS; eauto.
      + rewrite L. eapply astep_InvS; eauto.
      + rewrite L. eapply astep_InvM; eauto.
  Qed.

  Lemma InvM_final M : InvM (length es) M ->
    map snd M = match first_common (ancs a wa) (ancs b wb) 0 with Some (_, _, m) => [m] | None => [] end.
  Proof.
    intros [[-> NM] | (r & i & i2 & m & -> & Hr & FC & _)].
    - destruct (first_common (ancs a wa) (ancs b wb) 0) as [[[i i2] m]|] eqn:FC; [|reflexivity].
      exfalso. destruct (fc_facts a b wa wb _ _ _ FC) as (H1 & H2 & H3 & H4 & _).
      apply (NM m). split; apply onpath_final; try assumption.
      + rewrite <- H3. unfold anc. apply nth_In. rewrite ancs_length. lia.
      + rewrite <- H4. unfold anc. apply nth_In. rewrite ancs_length. lia.
    - rewrite FC. simpl. congruence.
  Qed.
  End Run.

  (* pairs that are not requested produce nothing *)
  Lemma arun_nopass a b (Hab : a <> b) : SliceProofs.apass between ssid a b = false ->
    forall rest D D' recs, arun between ssid (cov1 x) rest D = Ok (D', recs) -> filter (matches a b) recs = [].
  Proof.
    intros Hp. induction rest as [|e t IH]; intros D D' recs H; cbn [arun] in H.
    - inversion H; reflexivity.
    - destruct (astep between ssid (cov1 x) e D) as [[D1 r1]| | |] eqn:E1; cbn [bind fst snd] in H; try discriminate.
      destruct (arun between ssid (cov1 x) t D1) as [[D2 r2]| | |] eqn:E2; cbn [bind fst snd] in H; try discriminate.
      inversion H; subst. rewrite filter_app, (IH _ _ _ E2), app_nil_r.
      unfold astep in E1. change (cvE (cov1 x) e) with (covers e x) in E1.
      destruct (get D (echild e)) as [dc| | |]; cbn [bind] in E1; try discriminate.
      destruct (get D (eparent e)) as [dp| | |]; cbn [bind] in E1; try discriminate.
      destruct (covers e x); [|inversion E1; reflexivity].
      destruct (set D (eparent e) (dp ++ dc)) as [Ds| | |]; cbn [bind] in E1; try discriminate.
      inversion E1; subst. destruct (filter (matches a b) _) eqn:EF; [reflexivity|].
      pose proof (count_arec a b Hab (eparent e) dp dc) as C. rewrite Hp, EF in C. cbn [b2n length] in C. lia.
  Qed.

  Lemma arun_absent a b (Hab : a <> b) :
    forall rest D D' recs, arun between ssid (cov1 x) rest D = Ok (D', recs) ->
    (Absent a D \/ Absent b D) -> filter (matches a b) recs = [].
  Proof.
    induction rest as [|e t IH]; intros D D' recs H HA; cbn [arun] in H.
    - inversion H; reflexivity.
    - destruct (astep between ssid (cov1 x) e D) as [[D1 r1]| | |] eqn:E1; cbn [bind fst snd] in H; try discriminate.
      destruct (arun between ssid (cov1 x) t D1) as [[D2 r2]| | |] eqn:E2; cbn [bind fst snd] in H; try discriminate.
      inversion H; subst.
      assert (HA1 : Absent a D1 \/ Absent b D1) by (destruct HA; [left | right]; eapply astep_Absent; eauto).
      rewrite filter_app, (IH _ _ _ E2 HA1), app_nil_r.
      unfold astep in E1. change (cvE (cov1 x) e) with (covers e x) in E1.
      destruct (get D (echild e)) as [dc| | |] eqn:Ec; cbn [bind] in E1; try discriminate.
      destruct (get D (eparent e)) as [dp| | |] eqn:Ep; cbn [bind] in E1; try discriminate.
      destruct (covers e x); [|inversion E1; reflexivity].
      destruct (set D (eparent e) (dp ++ dc)) as [Ds| | |]; cbn [bind] in E1; try discriminate.
      inversion E1; subst. destruct (filter (matches a b) _) eqn:EF; [reflexivity|].
      pose proof (count_arec a b Hab (eparent e) dp dc) as C. rewrite EF in C. cbn [length] in C.
      destruct HA as [HA|HA]; rewrite (HA _ _ Ec), (HA _ _ Ep) in C; lia.
  Qed.
End Refine.

(* ======================================================================================== *)
(* Assembly: the algorithm model vs. the specification's label, position by position          *)
(* ======================================================================================== *)

Record valid_at (times : list Z) (es : list edge) (x : Z) : Prop := {
  va_sorted : forall i j ei ej, (i < j)%nat -> nth_error es i = Some ei -> nth_error es j = Some ej ->
                                tm times (eparent ei) <= tm times (eparent ej);
  va_older : forall e, In e es -> tm times (echild e) < tm times (eparent e);
  va_uniq : forall i1 i2 e1 e2, nth_error es i1 = Some e1 -> nth_error es i2 = Some e2 ->
                                echild e1 = echild e2 -> covers e1 x = true -> covers e2 x = true -> i1 = i2
}.

Definition D0 (ssid : list Z) : list (list Z) :=
  map (fun us => if negb (snd us =? -1) then [fst us] else []) (combine (zrange 0 (length ssid)) ssid).

Lemma nth_error_combine_zrange {A} (l : list A) : forall s n p,
  nth_error (combine (zrange s (length l)) l) n = Some p ->
  fst p = s + Z.of_nat n /\ nth_error l n = Some (snd p).
Proof.
  induction l as [|h t IH]; intros s n p H; simpl in H; [destruct n; discriminate|].
  destruct n as [|n]; simpl in H.
  - inversion H; subst. simpl. split; [lia | reflexivity].
  - destruct (IH (s + 1) n p H) as [H1 H2]. split; [lia | exact H2].
Qed.

Lemma get_D0 ssid u dl : get (D0 ssid) u = Ok dl ->
  dl = if negb (sid ssid u =? -1) then [u] else [].
Proof.
  unfold D0. rewrite get_map.
  destruct (get (combine (zrange 0 (length ssid)) ssid) u) as [p| | |] eqn:E; try discriminate.
  intros H; inversion H; subst; clear H.
  unfold get in E. destruct (u <? 0) eqn:Eu; [discriminate|].
  destruct (nth_error (combine (zrange 0 (length ssid)) ssid) (Z.to_nat u)) as [q|] eqn:En; [|discriminate].
  inversion E; subst q; clear E.
  destruct (nth_error_combine_zrange ssid 0 _ _ En) as [H1 H2]. apply Z.ltb_ge in Eu.
  assert (fst p = u) by lia.
  assert (sid ssid u = snd p).
  { unfold sid, get. replace (u <? 0) with false by (symmetry; apply Z.ltb_ge; lia). rewrite H2. reflexivity. }
  rewrite H0, H. reflexivity.
Qed.

Lemma InvS_init ssid s ws : negb (sid ssid s =? -1) = true -> InvS s ws 0 (D0 ssid).
Proof.
  intros Hs u dl H. apply get_D0 in H. subst dl.
  destruct (negb (sid ssid u =? -1)) eqn:Eu.
  - rewrite cnt_cons, cnt_nil. destruct (s =? u) eqn:E; cbn [b2n].
    + apply Z.eqb_eq in E. subst. split; [lia|]. split; [intros _; apply onpath_0; reflexivity | reflexivity].
    + apply Z.eqb_neq in E. split; [lia|]. split; [discriminate|]. intros H. apply onpath_0 in H. congruence.
  - rewrite cnt_nil. split; [lia|]. split; [discriminate|]. intros H. apply onpath_0 in H. subst.
    rewrite Hs in Eu. discriminate.
Qed.

Lemma Absent_init ssid s : negb (sid ssid s =? -1) = false -> Absent s (D0 ssid).
Proof.
  intros Hs u dl H. apply get_D0 in H. subst dl.
  destruct (negb (sid ssid u =? -1)) eqn:Eu; [|reflexivity].
  rewrite cnt_cons, cnt_nil. destruct (s =? u) eqn:E; [|reflexivity].
  apply Z.eqb_eq in E. subst. rewrite Hs in Eu. discriminate.
Qed.

Definition pair_is (a b : Z) (r : record) : bool :=
  ((rec_a r =? a) && (rec_b r =? b)) || ((rec_a r =? b) && (rec_b r =? a)).

Definition requested (between : bool) (ssid : list Z) (a b : Z) : bool :=
  negb (sid ssid a =? -1) && negb (sid ssid b =? -1) && apass between ssid a b.

Lemma filter_andb {A} (f g : A -> bool) l : filter (fun r => f r && g r) l = filter g (filter f l).
Proof.
  induction l as [|h t IH]; simpl; [reflexivity|]. destruct (f h); simpl; [destruct (g h); rewrite IH|]; auto.
Qed.

Lemma filter_map_c19 {A B} (h : A -> B) (P : B -> bool) l : filter P (map h l) = map h (filter (fun r => P (h r)) l).
Proof. induction l as [|r t IH]; simpl; [reflexivity|]. destruct (P (h r)); simpl; rewrite IH; reflexivity. Qed.

(* the abstract sweep at one position, for one pair *)
Lemma arun_pair_result :
  forall (between : bool) (ssid times : list Z) (x : Z) (es : list edge) (a b : Z)
         (wa wb : list (nat * Z)) (Dfin : list (list Z)) (recs : list (Z * Z * Z)),
    valid_at times es x -> a <> b -> is_walk es x a wa -> is_walk es x b wb ->
    arun between ssid (cov1 x) es (D0 ssid) = Ok (Dfin, recs) ->
    map snd (filter (matches a b) recs)
    = if requested between ssid a b
      then match first_common (ancs a wa) (ancs b wb) 0 with Some (_, _, m) => [m] | None => [] end
      else [].
Proof.
  intros between ssid times x es a b wa wb Dfin recs [Vs Vo Vu] Hab Wa Wb E.
  unfold requested.
  destruct (negb (sid ssid a =? -1)) eqn:Sa; cbn [andb].
  - destruct (negb (sid ssid b =? -1)) eqn:Sb; cbn [andb].
    + destruct (apass between ssid a b) eqn:Hp.
      * pose proof (arun_InvM between ssid times x es Vs Vo Vu a b wa wb Hab Wa Wb Hp
                      es [] (D0 ssid) _ recs [] eq_refl E
                      (InvS_init ssid a wa Sa) (InvS_init ssid b wb Sb)) as IM.
        cbn [app length] in IM.
        assert (IM0 : InvM a b wa wb 0 []).
        { left. split; [reflexivity|]. intros u [Ma Mb]. apply onpath_0 in Ma. apply onpath_0 in Mb. congruence. }
        exact (InvM_final x es a b wa wb Hab Wa Wb _ (IM IM0)).
      * rewrite (arun_nopass between ssid x a b Hab Hp _ _ _ _ E). reflexivity.
    + rewrite (arun_absent between ssid x a b Hab _ _ _ _ E); [reflexivity|].
      right. apply Absent_init. exact Sb.
  - rewrite (arun_absent between ssid x a b Hab _ _ _ _ E); [reflexivity|].
    left. apply Absent_init. exact Sa.
Qed.

Lemma cov1_whole x L : 0 <= x < L -> cov1 x 0 L = true.
Proof. intros H. unfold cov1. apply andb_true_iff. split; [apply Z.leb_le | apply Z.ltb_lt]; lia. Qed.

(* the unfiltered run of the model, as a run of the sweep on the initial ancestry map *)
Lemma ibd_records_unfiltered_run c ssid out0 :
  init_ssid c = Ok ssid -> ibd_records (unfiltered c) = Ok out0 ->
  exists A', run_edges (PU (is_between c) ssid (ctimes c)) (cedges c) (init_amap (cL c) ssid) = Ok (A', out0).
Proof.
  intros Hi Hr. unfold ibd_records in Hr. simpl in Hr.
  assert (Ei : init_ssid (unfiltered c) = init_ssid c) by reflexivity. rewrite Ei, Hi in Hr. simpl in Hr.
  change (is_between (unfiltered c)) with (is_between c) in Hr.
  destruct (run_edges _ (cedges c) (init_amap (cL c) ssid)) as [[A' o0]| | |] eqn:E in Hr; simpl in Hr; try discriminate.
  inversion Hr; subst o0. exists A'. exact E.
Qed.

Lemma records_reshape (cv : Z -> Z -> bool) a b out0 :
  map (fun r => seg_node (rec_seg r)) (filter (fun r => covx cv (rec_seg r) && pair_is a b r) out0)
  = map snd (filter (matches a b) (map rabs (recx cv out0))).
Proof. rewrite filter_andb. unfold recx. rewrite filter_map_c19, map_map. reflexivity. Qed.

(* At every position x: for every pair the unfiltered algorithm records exactly one segment
   covering x if the pair is requested and has a common ancestor at x — labelled with the
   MRCA of the specification — and none otherwise. *)
Theorem alg_position_correct_lemma :
  forall (c : case) (ssid : list Z) (out0 : list record) (x a b : Z) (lab : option label),
    init_ssid c = Ok ssid ->
    valid_at (ctimes c) (cedges c) x ->
    0 <= x < cL c -> a <> b ->
    ibd_records (unfiltered c) = Ok out0 ->
    label_at (spec_fuel c) (cedges c) x a b = Ok lab ->
    map (fun r => seg_node (rec_seg r)) (filter (fun r => covx (cov1 x) (rec_seg r) && pair_is a b r) out0)
    = if requested (is_between c) ssid a b
      then match lab with Some l => [label_mrca l] | None => [] end
      else [].
Proof.
  intros c ssid out0 x a b lab Hi V Hx Hab Hr Hl.
  destruct (ibd_records_unfiltered_run c ssid out0 Hi Hr) as (A' & E).
  apply (run_slice (is_between c) ssid (ctimes c) (cov1 x) (cov1_inter x) (cov1_nonempty x)) in E.
  rewrite (DX_init ssid (cov1 x) (cL c) (cov1_whole x (cL c) Hx)) in E. fold (D0 ssid) in E.
  unfold label_at in Hl.
  destruct (ups (spec_fuel c) (cedges c) x a) as [wa|] eqn:Ea; [|destruct (ups (spec_fuel c) (cedges c) x b); discriminate].
  destruct (ups (spec_fuel c) (cedges c) x b) as [wb|] eqn:Eb; [|discriminate].
  inversion Hl; subst lab; clear Hl.
  pose proof (ups_is_walk _ _ _ _ _ Ea) as Wa. pose proof (ups_is_walk _ _ _ _ _ Eb) as Wb.
  rewrite records_reshape.
  rewrite (arun_pair_result _ _ _ _ _ a b wa wb _ _ V Hab Wa Wb E).
  destruct (requested (is_between c) ssid a b); [|reflexivity].
  unfold label_of_walks. fold (ancs a wa). fold (ancs b wb).
  destruct (first_common (ancs a wa) (ancs b wb) 0) as [[[i i2] m]|]; reflexivity.
Qed.

(* ---- a boolean checker for the hypotheses (used for the non-vacuity examples and evaluated
   by the per-run correspondence on every generated case) ---------------------------------- *)

Lemma sortedb_sound times : forall es i j ei ej, sortedb times es = true -> (i < j)%nat ->
  nth_error es i = Some ei -> nth_error es j = Some ej -> tm times (eparent ei) <= tm times (eparent ej).
Proof.
  induction es as [|e t IH]; intros i j ei ej H Hij Hi Hj; [destruct i; discriminate|].
  simpl in H. apply andb_true_iff in H as [H1 H2].
  destruct j as [|j]; [lia|]. simpl in Hj.
  destruct i as [|i]; simpl in Hi.
  - inversion Hi; subst. rewrite forallb_forall in H1. apply Z.leb_le. apply H1. eapply nth_error_In; eauto.
  - apply (IH i j ei ej H2); [lia | exact Hi | exact Hj].
Qed.

Lemma uniqb_sound_lt x : forall es i1 i2 e1 e2, uniqb x es = true -> (i1 < i2)%nat ->
  nth_error es i1 = Some e1 -> nth_error es i2 = Some e2 -> echild e1 = echild e2 ->
  covers e1 x = true -> covers e2 x = true -> False.
Proof.
  induction es as [|e t IH]; intros i1 i2 e1 e2 H Hlt H1 H2 Hc C1 C2; [destruct i1; discriminate|].
  simpl in H. apply andb_true_iff in H as [Ha Hb].
  destruct i2 as [|i2]; [lia|]. simpl in H2.
  destruct i1 as [|i1]; simpl in H1.
  - inversion H1; subst. rewrite forallb_forall in Ha. specialize (Ha e2 (nth_error_In _ _ H2)).
    rewrite C1, C2, Hc, Z.eqb_refl in Ha. discriminate.
  - apply (IH i1 i2 e1 e2 Hb); [lia | exact H1 | exact H2 | exact Hc | exact C1 | exact C2].
Qed.

Lemma valid_atb_sound times es x : valid_atb times es x = true -> valid_at times es x.
Proof.
  unfold valid_atb. intros H. apply andb_true_iff in H as [H H3]. apply andb_true_iff in H as [H1 H2].
  constructor.
  - intros. eapply sortedb_sound; eauto.
  - intros e He. rewrite forallb_forall in H2. apply Z.ltb_lt. apply H2. exact He.
  - intros i1 i2 e1 e2 A1 A2 Hc C1 C2.
    destruct (lt_eq_lt_dec i1 i2) as [[L|E]|G]; [exfalso | exact E | exfalso].
    + eapply (uniqb_sound_lt x es i1 i2); eauto.
    + eapply (uniqb_sound_lt x es i2 i1); eauto.
Qed.

(* Non-vacuity: the docs/ibd.md example satisfies the hypotheses at every position, and the
   theorem's conclusion is the observable behaviour there (pair (1,2), positions 1 and 5). *)
Example docs_valid_everywhere :
  forallb (valid_atb (ctimes (docs_case_alg 0 None)) (cedges (docs_case_alg 0 None))) (zrange 0 10) = true.
Proof. vm_compute. reflexivity. Qed.

Example docs_position_example :
  exists out0, ibd_records (unfiltered (docs_case_alg 0 None)) = Ok out0 /\
    map (fun r => seg_node (rec_seg r)) (filter (fun r => covx (cov1 1) (rec_seg r) && pair_is 1 2 r) out0) = [4] /\
    map (fun r => seg_node (rec_seg r)) (filter (fun r => covx (cov1 5) (rec_seg r) && pair_is 0 2 r) out0) = [3] /\
    label_at (spec_fuel (docs_case_alg 0 None)) (cedges (docs_case_alg 0 None)) 1 1 2 = Ok (Some (4, [2%nat], [3%nat])).
Proof. eexists. split; [vm_compute; reflexivity|]. vm_compute. repeat split; reflexivity. Qed.
