(* C19 — the algorithm model restricted to one position x.

   Looking only at the ancestry segments and records that cover a fixed position x, the sweep
   of tsk_ibd_finder_run (unfiltered: min_span = 0, max_time = inf) is a much simpler
   algorithm on lists of sample ids:

       D[u]  = samples whose ancestry segment in A[u] covers x
       for every edge e = (p <- c) that covers x, in table order:
            record (s0, s1, p) for s0 in D[p], s1 in D[c] passing the pair test
            D[p] := D[p] ++ D[c]

   [run_slice] proves that the model of IbdAlg.v commutes with this restriction.  The
   position-wise correctness of the abstract algorithm is proved in RefineProofs.v. *)
From Coq Require Import List ZArith Bool Lia.
From TskVerif Require Import Base.Common C19.Model C19.IbdAlg.
Import ListNotations.
Open Scope Z_scope.

(* ---- checked access: generic facts ---------------------------------------------------- *)

Lemma nth_error_map_c19 {A B} (f : A -> B) l : forall n, nth_error (map f l) n = option_map f (nth_error l n).
Proof. induction l as [|a t IH]; intros [|n]; simpl; auto. Qed.

Lemma get_map {A B} (f : A -> B) l i :
  get (map f l) i = match get l i with Ok a => Ok (f a) | Err c => Err c | OOB => OOB | Fuel => Fuel end.
Proof.
  unfold get. destruct (i <? 0); [reflexivity|]. rewrite nth_error_map_c19.
  destruct (nth_error l (Z.to_nat i)); reflexivity.
Qed.

Lemma set_nat_map {A B} (f : A -> B) l : forall n a l', set_nat l n a = Some l' -> set_nat (map f l) n (f a) = Some (map f l').
Proof.
  induction l as [|h t IH]; intros [|n] a l' H; simpl in *; try discriminate.
  - inversion H; reflexivity.
  - destruct (set_nat t n a) as [t'|] eqn:E; [|discriminate]. inversion H; subst.
    rewrite (IH n a t' E). reflexivity.
Qed.

Lemma set_map {A B} (f : A -> B) l i a l' : set l i a = Ok l' -> set (map f l) i (f a) = Ok (map f l').
Proof.
  unfold set. destruct (i <? 0); [discriminate|].
  destruct (set_nat l (Z.to_nat i) a) as [t|] eqn:E; [|discriminate]. intros H; inversion H; subst.
  rewrite (set_nat_map f l _ _ _ E). reflexivity.
Qed.

Lemma set_nat_same {A} (l : list A) : forall n a, nth_error l n = Some a -> set_nat l n a = Some l.
Proof.
  induction l as [|h t IH]; intros [|n] a H; simpl in *; try discriminate.
  - inversion H; reflexivity.
  - rewrite (IH n a H). reflexivity.
Qed.

Lemma set_same {A} (l : list A) i a : get l i = Ok a -> set l i a = Ok l.
Proof.
  unfold get, set. destruct (i <? 0); [discriminate|].
  destruct (nth_error l (Z.to_nat i)) as [b|] eqn:E; [|discriminate]. intros H; inversion H; subst.
  rewrite (set_nat_same l _ _ E). reflexivity.
Qed.

Lemma set_nat_get {A} (l : list A) : forall n a l', set_nat l n a = Some l' ->
  nth_error l' n = Some a /\ forall m, m <> n -> nth_error l' m = nth_error l m.
Proof.
  induction l as [|h t IH]; intros [|n] a l' H; simpl in *; try discriminate.
  - inversion H; subst. split; [reflexivity|]. intros [|m] Hm; [congruence | reflexivity].
  - destruct (set_nat t n a) as [t'|] eqn:E; [|discriminate]. inversion H; subst.
    destruct (IH n a t' E) as [H1 H2]. split; [exact H1|].
    intros [|m] Hm; [reflexivity|]. simpl. apply H2. congruence.
Qed.

Lemma get_set {A} (l : list A) i a l' : set l i a = Ok l' ->
  get l' i = Ok a /\ forall j, j <> i -> get l' j = get l j.
Proof.
  unfold set, get. destruct (i <? 0) eqn:Ei; [discriminate|].
  destruct (set_nat l (Z.to_nat i) a) as [t|] eqn:E; [|discriminate]. intros H; inversion H; subst.
  destruct (set_nat_get l _ _ _ E) as [H1 H2]. rewrite H1. split; [reflexivity|].
  intros j Hj. destruct (j <? 0) eqn:Ej; [reflexivity|].
  rewrite H2; [reflexivity|]. apply Z.ltb_ge in Ei. apply Z.ltb_ge in Ej. lia.
Qed.

(* ---- the slice at x ------------------------------------------------------------------- *)

(* interval predicates "covers position x" / "covers x and y": both are multiplicative under
   intersection and imply non-emptiness, which is all the slice construction needs *)
Definition cov1 (x l r : Z) : bool := (l <=? x) && (x <? r).
Definition cov2 (x y l r : Z) : bool := cov1 x l r && cov1 y l r.

Lemma cov1_inter x l0 r0 l1 r1 : cov1 x (Z.max l0 l1) (Z.min r0 r1) = cov1 x l0 r0 && cov1 x l1 r1.
Proof.
  unfold cov1.
  destruct (l0 <=? x) eqn:A; destruct (l1 <=? x) eqn:B; destruct (x <? r0) eqn:C; destruct (x <? r1) eqn:D;
    destruct (Z.max l0 l1 <=? x) eqn:E; destruct (x <? Z.min r0 r1) eqn:F; cbn [andb]; try reflexivity;
    repeat match goal with
           | H : (_ <=? _) = true |- _ => apply Z.leb_le in H
           | H : (_ <=? _) = false |- _ => apply Z.leb_gt in H
           | H : (_ <? _) = true |- _ => apply Z.ltb_lt in H
           | H : (_ <? _) = false |- _ => apply Z.ltb_ge in H
           end; lia.
Qed.

Lemma cov1_nonempty x l r : cov1 x l r = true -> l < r.
Proof. unfold cov1. intros H. apply andb_true_iff in H as [A B]. apply Z.leb_le in A. apply Z.ltb_lt in B. lia. Qed.

Lemma cov2_inter x y l0 r0 l1 r1 : cov2 x y (Z.max l0 l1) (Z.min r0 r1) = cov2 x y l0 r0 && cov2 x y l1 r1.
Proof.
  unfold cov2. rewrite !cov1_inter.
  destruct (cov1 x l0 r0), (cov1 x l1 r1), (cov1 y l0 r0), (cov1 y l1 r1); reflexivity.
Qed.

Lemma cov2_nonempty x y l r : cov2 x y l r = true -> l < r.
Proof. unfold cov2. intros H. apply andb_true_iff in H as [A _]. eapply cov1_nonempty; eauto. Qed.

Section Slice.
  Variables (between : bool) (ssid times : list Z) (cov : Z -> Z -> bool).
  Hypothesis cov_inter : forall l0 r0 l1 r1, cov (Z.max l0 l1) (Z.min r0 r1) = cov l0 r0 && cov l1 r1.
  Hypothesis cov_nonempty : forall l r, cov l r = true -> l < r.

  Definition PU : params := mkParams 0 None between ssid times.

  Definition covx (s : seg) : bool := cov (seg_left s) (seg_right s).
  Definition cvE (e : edge) : bool := cov (eleft e) (eright e).
  Definition Dx (l : list seg) : list Z := map seg_node (filter covx l).
  Definition DX (A : amap) : list (list Z) := map Dx A.

  (* abstract record: (first sample, second sample, node) *)
  Notation arecord := (Z * Z * Z)%type.
  Definition rabs (r : record) : arecord := (rec_a r, rec_b r, seg_node (rec_seg r)).
  Definition recx (out : list record) : list record := filter (fun r => covx (rec_seg r)) out.

  Definition sid (u : Z) : Z := match get ssid u with Ok v => v | _ => -1 end.
  Definition apass (a b : Z) : bool :=
    negb (a =? b) && (if between then negb (sid a =? sid b) else true).

  Definition arec_inner (p s0 : Z) (dc : list Z) : list arecord :=
    flat_map (fun s1 => if apass s0 s1 then [(s0, s1, p)] else []) dc.
  Definition arec (p : Z) (dp dc : list Z) : list arecord :=
    flat_map (fun s0 => arec_inner p s0 dc) dp.

  Definition astep (e : edge) (D : list (list Z)) : res (list (list Z) * list arecord) :=
    do dc <- get D (echild e);
    do dp <- get D (eparent e);
    if cvE e then
      do D' <- set D (eparent e) (dp ++ dc); Ok (D', arec (eparent e) dp dc)
    else Ok (D, []).

  Fixpoint arun (es : list edge) (D : list (list Z)) : res (list (list Z) * list arecord) :=
    match es with
    | [] => Ok (D, [])
    | e :: t => do r <- astep e D; do r' <- arun t (fst r); Ok (fst r', snd r ++ snd r')
    end.

  (* ---- intersections ---------------------------------------------------------------------- *)

  Lemma covx_inter l0 r0 n0 l1 r1 n1 p :
    covx (Z.max l0 l1, Z.min r0 r1, p) = covx (l0, r0, n0) && covx (l1, r1, n1).
  Proof. unfold covx, seg_left, seg_right; cbn [fst snd]. apply cov_inter. Qed.

  Lemma Dx_enqueue e s :
    Dx (enqueue 0 (eleft e) (eright e) s) = if cvE e && covx s then [seg_node s] else [].
  Proof.
    unfold enqueue, Dx. destruct s as [[l r] n]. unfold seg_left, seg_right, seg_node; cbn [fst snd].
    pose proof (covx_inter (eleft e) (eright e) 0 l r n n) as Hc.
    assert (Hce : covx (eleft e, eright e, 0) = cvE e) by reflexivity. rewrite Hce in Hc.
    destruct (0 <? 2 * (Z.min (eright e) r - Z.max (eleft e) l)) eqn:E.
    - cbn [filter]. rewrite Hc. destruct (cvE e && covx (l, r, n)); reflexivity.
    - cbn [filter map]. rewrite <- Hc. apply Z.ltb_ge in E.
      destruct (covx (Z.max (eleft e) l, Z.min (eright e) r, n)) eqn:C; [|reflexivity].
      unfold covx, seg_left, seg_right in C; cbn [fst snd] in C. apply cov_nonempty in C. lia.
  Qed.

  Lemma Dx_app l1 l2 : Dx (l1 ++ l2) = Dx l1 ++ Dx l2.
  Proof. unfold Dx. rewrite filter_app, map_app. reflexivity. Qed.

  Lemma Dx_queue e cs : Dx (queue_of 0 e cs) = if cvE e then Dx cs else [].
  Proof.
    unfold queue_of. induction cs as [|s t IH]; cbn [flat_map].
    - destruct (cvE e); reflexivity.
    - rewrite Dx_app, IH, Dx_enqueue. destruct (cvE e); cbn [andb]; [|reflexivity].
      unfold Dx. cbn [filter]. destruct (covx s); reflexivity.
  Qed.

  (* ---- records ------------------------------------------------------------------------ *)

  Lemma passes_slice a b l r bo : passes PU a b l r = Ok bo -> l < r -> bo = apass a b.
  Proof.
    unfold passes, PU, apass, sid; cbn [p_ms2 p_between p_ssid]. intros H Hx.
    destruct (a =? b); [inversion H; reflexivity|].
    replace (2 * (r - l) <=? 0) with false in H by (symmetry; apply Z.leb_gt; lia).
    destruct between; [|inversion H; reflexivity].
    destruct (get ssid a) as [va| | |]; cbn [bind] in H; try discriminate.
    destruct (get ssid b) as [vb| | |]; cbn [bind] in H; try discriminate.
    inversion H; reflexivity.
  Qed.

  Lemma record_one_slice parent s0 s1 recs :
    record_one PU parent s0 s1 = Ok recs ->
    map rabs (recx recs) =
      if covx s0 && covx s1 then (if apass (seg_node s0) (seg_node s1) then [(seg_node s0, seg_node s1, parent)] else [])
      else [].
  Proof.
    unfold record_one. destruct s0 as [[l0 r0] n0], s1 as [[l1 r1] n1].
    unfold seg_left, seg_right, seg_node; cbn [fst snd].
    destruct (passes PU n0 n1 (Z.max l0 l1) (Z.min r0 r1)) as [bo| | |] eqn:E; cbn [bind]; intros H; try discriminate.
    inversion H; subst; clear H.
    pose proof (covx_inter l0 r0 n0 l1 r1 n1 parent) as Hc.
    destruct (covx (l0, r0, n0) && covx (l1, r1, n1)) eqn:Ec.
    - assert (Hx : Z.max l0 l1 < Z.min r0 r1).
      { unfold covx, seg_left, seg_right in Hc; cbn [fst snd] in Hc. apply cov_nonempty in Hc. exact Hc. }
      rewrite (passes_slice _ _ _ _ _ E Hx). destruct (apass n0 n1); [|reflexivity].
      unfold recx. cbn [filter rec_seg snd]. rewrite Hc. reflexivity.
    - destruct bo; [|reflexivity]. unfold recx. cbn [filter rec_seg snd]. rewrite Hc. reflexivity.
  Qed.

  Lemma recx_app a b : recx (a ++ b) = recx a ++ recx b.
  Proof. unfold recx. apply filter_app. Qed.

  Lemma record_inner_slice parent s0 : forall q recs,
    record_inner PU parent s0 q = Ok recs ->
    map rabs (recx recs) = if covx s0 then arec_inner parent (seg_node s0) (Dx q) else [].
  Proof.
    induction q as [|s1 t IH]; intros recs H; cbn [record_inner] in H.
    - inversion H; subst. destruct (covx s0); reflexivity.
    - destruct (record_one PU parent s0 s1) as [x1| | |] eqn:E1; cbn [bind] in H; try discriminate.
      destruct (record_inner PU parent s0 t) as [x2| | |] eqn:E2; cbn [bind] in H; try discriminate.
      inversion H; subst; clear H. rewrite recx_app, map_app.
      rewrite (record_one_slice _ _ _ _ E1), (IH x2 eq_refl).
      unfold arec_inner, Dx. cbn [filter].
      destruct (covx s0); cbn [andb]; [|reflexivity].
      destruct (covx s1); cbn [map flat_map]; reflexivity.
  Qed.

  Lemma record_ibd_slice parent q : forall ps recs,
    record_ibd PU parent ps q = Ok recs -> map rabs (recx recs) = arec parent (Dx ps) (Dx q).
  Proof.
    induction ps as [|s0 t IH]; intros recs H; cbn [record_ibd] in H.
    - inversion H; reflexivity.
    - destruct (record_inner PU parent s0 q) as [x1| | |] eqn:E1; cbn [bind] in H; try discriminate.
      destruct (record_ibd PU parent t q) as [x2| | |] eqn:E2; cbn [bind] in H; try discriminate.
      inversion H; subst; clear H. rewrite recx_app, map_app.
      rewrite (record_inner_slice _ _ _ _ E1), (IH x2 eq_refl).
      unfold arec, Dx. cbn [filter]. destruct (covx s0); cbn [map flat_map]; reflexivity.
  Qed.

  (* ---- one step and the whole sweep ------------------------------------------------------- *)

  Lemma arec_nil_r p dp : arec p dp [] = [].
  Proof. unfold arec, arec_inner. induction dp; cbn [flat_map]; auto. Qed.

  Lemma step_slice e A A' recs :
    step PU e A = Ok (A', recs) -> astep e (DX A) = Ok (DX A', map rabs (recx recs)).
  Proof.
    unfold step, astep, DX. cbn [p_ms2 PU]. intros H.
    destruct (get A (echild e)) as [cs| | |] eqn:Ec; cbn [bind] in H; try discriminate.
    destruct (get A (eparent e)) as [ps| | |] eqn:Ep; cbn [bind] in H; try discriminate.
    destruct (record_ibd PU (eparent e) ps (queue_of 0 e cs)) as [r0| | |] eqn:Er; cbn [bind] in H; try discriminate.
    destruct (set A (eparent e) (ps ++ queue_of 0 e cs)) as [As| | |] eqn:Es; cbn [bind] in H; try discriminate.
    inversion H; subst; clear H.
    rewrite !get_map, Ec, Ep. cbn [bind].
    rewrite (record_ibd_slice _ _ _ _ Er), Dx_queue.
    apply (set_map Dx) in Es. rewrite Dx_app, Dx_queue in Es.
    destruct (cvE e).
    - rewrite Es. reflexivity.
    - rewrite app_nil_r in Es. rewrite arec_nil_r.
      assert (G : get (map Dx A) (eparent e) = Ok (Dx ps)) by (rewrite get_map, Ep; reflexivity).
      rewrite (set_same _ _ _ G) in Es. congruence.
  Qed.

  Lemma run_slice : forall es A A' out,
    run_edges PU es A = Ok (A', out) -> arun es (DX A) = Ok (DX A', map rabs (recx out)).
  Proof.
    induction es as [|e t IH]; intros A A' out H; cbn [run_edges] in H.
    - inversion H; reflexivity.
    - cbn [p_times p_mt2 PU too_old] in H.
      destruct (get times (eparent e)) as [tm| | |]; cbn [bind] in H; try discriminate.
      destruct (step PU e A) as [[A1 r1]| | |] eqn:Es; cbn [bind fst snd] in H; try discriminate.
      destruct (run_edges PU t A1) as [[A2 r2]| | |] eqn:Er; cbn [bind fst snd] in H; try discriminate.
      inversion H; subst; clear H.
      cbn [arun]. rewrite (step_slice _ _ _ _ Es). cbn [bind fst snd].
      rewrite (IH _ _ _ Er). cbn [bind fst snd]. rewrite recx_app, map_app. reflexivity.
  Qed.

  (* the initial state: every requested node carries itself over the whole genome *)
  Lemma DX_init L : cov 0 L = true ->
    DX (init_amap L ssid) =
    map (fun us => if negb (snd us =? -1) then [fst us] else []) (combine (zrange 0 (length ssid)) ssid).
  Proof.
    intros Hx. unfold DX, init_amap. rewrite map_map. apply map_ext. intros [u v]. cbn [fst snd].
    destruct (negb (v =? -1)); [|reflexivity].
    unfold Dx, covx, seg_left, seg_right; cbn [filter fst snd]. rewrite Hx. reflexivity.
  Qed.
End Slice.
