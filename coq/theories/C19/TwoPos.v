(* C19 — segment END POINTS of the (unfiltered) algorithm model.

   Two positions x and y are covered by the same record of a pair iff the specification gives
   them the same label (same MRCA through the same two edge chains).  Proof: restrict the
   sweep to the ancestry segments covering both x and y (SliceProofs with cov2 x y); this is
   the single-position sweep on the edge table in which every edge not covering y has been
   emptied (`kill y`), so RefineProofs applies to it; the walks in the emptied table are the
   longest common prefixes of the walks at x and at y. *)
From Coq Require Import List ZArith Bool Lia Arith.
From TskVerif Require Import Base.Common C19.Model C19.IbdAlg C19.SpecProofs C19.AlgProofs
  C19.SliceProofs C19.RefineProofs.
Import ListNotations.
Open Scope Z_scope.

Definition kill (y : Z) (e : edge) : edge :=
  if covers e y then e else mkE 0 0 (eparent e) (echild e).

Lemma kill_parent y e : eparent (kill y e) = eparent e.
Proof. unfold kill. destruct (covers e y); reflexivity. Qed.
Lemma kill_child y e : echild (kill y e) = echild e.
Proof. unfold kill. destruct (covers e y); reflexivity. Qed.

Lemma kill_covers x y e : covers (kill y e) x = covers e x && covers e y.
Proof.
  unfold kill. destruct (covers e y) eqn:E; [rewrite andb_true_r; reflexivity|].
  rewrite andb_false_r. unfold covers; cbn [eleft eright].
  destruct (0 <=? x) eqn:A; destruct (x <? 0) eqn:B; cbn [andb]; try reflexivity.
  apply Z.leb_le in A. apply Z.ltb_lt in B. lia.
Qed.

Lemma kill_covers_inv x y e : covers (kill y e) x = true -> covers e x = true /\ covers e y = true /\ kill y e = e.
Proof.
  rewrite kill_covers. intros H. apply andb_true_iff in H as [A B]. repeat split; auto.
  unfold kill. rewrite B. reflexivity.
Qed.

(* ---- the two-position sweep is the one-position sweep on the emptied table ------------- *)

Lemma astep_kill between ssid x y e D :
  astep between ssid (cov2 x y) e D = astep between ssid (cov1 x) (kill y e) D.
Proof.
  unfold astep. rewrite kill_parent, kill_child.
  assert (E : cvE (cov2 x y) e = cvE (cov1 x) (kill y e)).
  { change (cvE (cov1 x) (kill y e)) with (covers (kill y e) x). rewrite kill_covers. reflexivity. }
  rewrite E. reflexivity.
Qed.

Lemma arun_kill between ssid x y : forall es D,
  arun between ssid (cov2 x y) es D = arun between ssid (cov1 x) (map (kill y) es) D.
Proof.
  induction es as [|e t IH]; intros D; cbn [arun map]; [reflexivity|].
  rewrite astep_kill. destruct (astep between ssid (cov1 x) (kill y e) D) as [[D1 r1]| | |]; cbn [bind fst snd]; try reflexivity.
  rewrite IH. reflexivity.
Qed.

Lemma nth_error_map_kill y es i e' : nth_error (map (kill y) es) i = Some e' ->
  exists e, nth_error es i = Some e /\ e' = kill y e.
Proof.
  rewrite nth_error_map_c19. destruct (nth_error es i) as [e|]; simpl; [|discriminate].
  intros H; inversion H; eauto.
Qed.

Lemma valid_at_kill times es x y : valid_at times es x -> valid_at times (map (kill y) es) x.
Proof.
  intros [Vs Vo Vu]. constructor.
  - intros i j ei ej Hij Hi Hj.
    apply nth_error_map_kill in Hi as (e1 & H1 & ->). apply nth_error_map_kill in Hj as (e2 & H2 & ->).
    rewrite !kill_parent. eapply Vs; eauto.
  - intros e' He. apply in_map_iff in He as (e & <- & He). rewrite kill_parent, kill_child. apply Vo. exact He.
  - intros i1 i2 e1 e2 H1 H2 Hc C1 C2.
    apply nth_error_map_kill in H1 as (f1 & F1 & ->). apply nth_error_map_kill in H2 as (f2 & F2 & ->).
    rewrite !kill_child in Hc. apply kill_covers_inv in C1 as (C1 & _). apply kill_covers_inv in C2 as (C2 & _).
    eapply Vu; eauto.
Qed.

(* ---- walks in the emptied table ---------------------------------------------------------- *)

Section Walks.
  Variables (times : list Z) (es : list edge) (x y : Z).
  Hypothesis Vx : valid_at times es x.
  Hypothesis Vy : valid_at times es y.
  Let es' := map (kill y) es.

  Lemma edge_above_kill u :
    edge_above es' x u =
    match edge_above es x u with
    | Some (i, e) => if covers e y then Some (i, e) else None
    | None => None
    end.
  Proof.
    pose proof (valid_at_kill times es x y Vx) as [_ _ Vu'].
    destruct Vx as [_ _ Vu].
    destruct (edge_above es x u) as [[i e]|] eqn:E.
    - destruct (edge_above_some _ _ _ _ _ E) as (N & C & Ch).
      destruct (covers e y) eqn:Cy.
      + assert (K : kill y e = e) by (unfold kill; rewrite Cy; reflexivity).
        assert (N' : nth_error es' i = Some e) by (unfold es'; rewrite nth_error_map_c19, N; simpl; congruence).
        rewrite <- Ch. apply (edge_above_complete x es' Vu' i e N' C).
      + destruct (edge_above es' x u) as [[i' e']|] eqn:E'; [|reflexivity]. exfalso.
        destruct (edge_above_some _ _ _ _ _ E') as (N' & C' & Ch').
        apply nth_error_map_kill in N' as (e0 & N0 & ->).
        apply kill_covers_inv in C' as (C0 & Cy0 & _). rewrite kill_child in Ch'.
        assert (i' = i) by (eapply Vu; eauto; congruence). subst. congruence.
    - destruct (edge_above es' x u) as [[i' e']|] eqn:E'; [|reflexivity]. exfalso.
      destruct (edge_above_some _ _ _ _ _ E') as (N' & C' & Ch').
      apply nth_error_map_kill in N' as (e0 & N0 & ->).
      apply kill_covers_inv in C' as (C0 & _). rewrite kill_child in Ch'.
      eapply (edge_above_from_none x es 0%nat u E); eauto.
  Qed.

  (* an edge covering both positions above u is the edge above u at y as well *)
  Lemma edge_above_y u i e : edge_above es x u = Some (i, e) -> covers e y = true -> edge_above es y u = Some (i, e).
  Proof.
    intros E Cy. destruct (edge_above_some _ _ _ _ _ E) as (N & _ & Ch). destruct Vy as [_ _ Vu].
    rewrite <- Ch. apply (edge_above_complete y es Vu i e N Cy).
  Qed.

  Lemma walk_kill_exists : forall wx s, is_walk es x s wx -> exists w', is_walk es' x s w'.
  Proof.
    induction wx as [|[i p] t IH]; intros s W; simpl in W.
    - exists []. simpl. rewrite edge_above_kill, W. reflexivity.
    - destruct W as [[e [E P]] Wt]. destruct (covers e y) eqn:Cy.
      + destruct (IH p Wt) as (w' & W'). exists ((i, p) :: w'). simpl. split; [|exact W'].
        exists e. split; [|exact P]. rewrite edge_above_kill, E, Cy. reflexivity.
      + exists []. simpl. rewrite edge_above_kill, E, Cy. reflexivity.
  Qed.

  Lemma walk_kill_prefix_x : forall w' s wx, is_walk es' x s w' -> is_walk es x s wx -> exists rest, wx = w' ++ rest.
  Proof.
    induction w' as [|[i p] t IH]; intros s wx W' W; [exists wx; reflexivity|].
    simpl in W'. destruct W' as [[e' [E' P']] Wt'].
    rewrite edge_above_kill in E'.
    destruct (edge_above es x s) as [[i0 e0]|] eqn:E0; [|discriminate].
    destruct (covers e0 y) eqn:Cy; [|discriminate]. inversion E'; subst i0 e0; clear E'.
    destruct wx as [|[i2 p2] t2]; simpl in W; [congruence|].
    destruct W as [[e2 [E2 P2]] Wt]. rewrite E0 in E2. inversion E2; subst i2 e2; clear E2.
    subst p p2.
    destruct (IH _ t2 Wt' Wt) as (rest & ->). exists rest. reflexivity.
  Qed.

  Lemma walk_kill_prefix_y : forall w' s wy, is_walk es' x s w' -> is_walk es y s wy -> exists rest, wy = w' ++ rest.
  Proof.
    induction w' as [|[i p] t IH]; intros s wy W' W; [exists wy; reflexivity|].
    simpl in W'. destruct W' as [[e' [E' P']] Wt'].
    rewrite edge_above_kill in E'.
    destruct (edge_above es x s) as [[i0 e0]|] eqn:E0; [|discriminate].
    destruct (covers e0 y) eqn:Cy; [|discriminate]. inversion E'; subst i0 e0; clear E'.
    pose proof (edge_above_y s i e' E0 Cy) as Ey.
    destruct wy as [|[i2 p2] t2]; simpl in W; [congruence|].
    destruct W as [[e2 [E2 P2]] Wt]. rewrite Ey in E2. inversion E2; subst i2 e2; clear E2.
    subst p p2.
    destruct (IH _ t2 Wt' Wt) as (rest & ->). exists rest. reflexivity.
  Qed.

  (* where the walk in the emptied table stops, the walks at x and y continue differently *)
  Lemma walk_kill_stop : forall w' s i p r1 i2 p2 r2,
    is_walk es' x s w' ->
    is_walk es x s (w' ++ (i, p) :: r1) -> is_walk es y s (w' ++ (i2, p2) :: r2) -> i <> i2.
  Proof.
    induction w' as [|[j q] t IH]; intros s i p r1 i2 p2 r2 W' Wx Wy Heq.
    - simpl in W', Wx, Wy. destruct Wx as [[e [E _]] _]. destruct Wy as [[e2 [E2 _]] _]. subst i2.
      rewrite edge_above_kill, E in W'.
      destruct (edge_above_some _ _ _ _ _ E) as (N & _). destruct (edge_above_some _ _ _ _ _ E2) as (N2 & C2 & _).
      assert (e2 = e) by congruence. subst e2. rewrite C2 in W'. discriminate.
    - simpl in W', Wx, Wy. destruct W' as [_ Wt']. destruct Wx as [_ Wtx]. destruct Wy as [_ Wty].
      eapply (IH q i p r1 i2 p2 r2); eauto.
  Qed.
End Walks.

(* ---- list helpers ------------------------------------------------------------------------- *)

Lemma ancs_app_nth s w rest k : (k <= length w)%nat -> nth k (ancs s (w ++ rest)) 0 = nth k (ancs s w) 0.
Proof.
  intros H. unfold ancs. destruct k as [|k]; [reflexivity|]. simpl.
  rewrite map_app, app_nth1 by (rewrite map_length; lia). reflexivity.
Qed.

Lemma firstn_app_le {A} (w rest : list A) k : (k <= length w)%nat -> firstn k (w ++ rest) = firstn k w.
Proof. intros H. rewrite firstn_app. replace (k - length w)%nat with 0%nat by lia. simpl. apply app_nil_r. Qed.

Lemma in_ancs_prefix_or s w rest u : In u (ancs s (w ++ rest)) ->
  In u (ancs s w) \/ exists k, (length w < k)%nat /\ (k <= length (w ++ rest))%nat /\ nth k (ancs s (w ++ rest)) 0 = u.
Proof.
  intros H. apply (In_nth _ _ 0) in H as (k & Hk & E). rewrite ancs_length in Hk.
  destruct (le_lt_dec k (length w)) as [L|G].
  - left. rewrite ancs_app_nth in E by exact L. rewrite <- E. apply nth_In. rewrite ancs_length. lia.
  - right. exists k. repeat split; [lia | lia | exact E].
Qed.

Lemma nth_chain_at (w : list (nat * Z)) : forall n i p r, (length w < n)%nat ->
  nth (length w) (map fst (firstn n (w ++ (i, p) :: r))) 0%nat = i.
Proof.
  induction w as [|h t IH]; intros n i p r Hn; destruct n as [|n]; simpl in Hn; try lia.
  - reflexivity.
  - simpl. apply IH. lia.
Qed.

(* ---- the two directions --------------------------------------------------------------------- *)

Section Both.
  Variables (times : list Z) (es : list edge) (x y : Z).
  Hypothesis Vx : valid_at times es x.
  Hypothesis Vy : valid_at times es y.
  Let es' := map (kill y) es.

  Variables (a b : Z) (wa' wb' wxa wxb wya wyb : list (nat * Z)).
  Hypothesis Wa' : is_walk es' x a wa'.
  Hypothesis Wb' : is_walk es' x b wb'.
  Hypothesis Wxa : is_walk es x a wxa.
  Hypothesis Wxb : is_walk es x b wxb.
  Hypothesis Wya : is_walk es y a wya.
  Hypothesis Wyb : is_walk es y b wyb.

  (* a first common node of the emptied-table walks is the first common node at x and at y,
     reached through the same chains *)
  Lemma fc_kill_to_pos z (wza wzb : list (nat * Z)) i i2 m :
    is_walk es z a wza -> is_walk es z b wzb ->
    (exists ra, wza = wa' ++ ra) -> (exists rb, wzb = wb' ++ rb) ->
    first_common (ancs a wa') (ancs b wb') 0 = Some (i, i2, m) ->
    first_common (ancs a wza) (ancs b wzb) 0 = Some (i, i2, m) /\
    firstn i wza = firstn i wa' /\ firstn i2 wzb = firstn i2 wb'.
  Proof.
    intros Wza Wzb (ra & Ea) (rb & Eb) FC.
    destruct (fc_facts a b wa' wb' i i2 m FC) as (Hi & Hi2 & Am & Bm & Hmin).
    assert (La : (i <= length wza)%nat) by (rewrite Ea, app_length; lia).
    assert (Lb : (i2 <= length wzb)%nat) by (rewrite Eb, app_length; lia).
    assert (Aa : forall k, (k <= length wa')%nat -> anc a wza k = anc a wa' k)
      by (intros k Hk; unfold anc; rewrite Ea; apply ancs_app_nth; exact Hk).
    assert (Ab : forall k, (k <= length wb')%nat -> anc b wzb k = anc b wb' k)
      by (intros k Hk; unfold anc; rewrite Eb; apply ancs_app_nth; exact Hk).
    split; [|split; [rewrite Ea; apply firstn_app_le; exact Hi | rewrite Eb; apply firstn_app_le; exact Hi2]].
    replace m with (anc a wza i) by (rewrite Aa by exact Hi; exact Am).
    apply (fc_intro z es a b wza wzb Wzb i i2 La Lb); [rewrite Aa, Ab by assumption; congruence|].
    intros k Hk Hin. rewrite Aa in Hin by lia.
    rewrite Eb in Hin. apply in_ancs_prefix_or in Hin as [Hin | (k2 & K1 & K2 & K3)].
    - exact (Hmin k Hk Hin).
    - rewrite <- Eb in K2, K3.
      (* anc a k = anc_z b k2 beyond b's prefix: merging forces k2 < i2, contradiction *)
      assert (E2 : anc a wza k = anc b wzb k2) by (rewrite Aa by lia; unfold anc in *; congruence).
      destruct (merge_offsets z es a b wza wzb Wza Wzb k k2 (i - k) ltac:(lia) K2 E2 ltac:(lia)) as (M1 & M2 & _).
      replace (k + (i - k))%nat with i in M2 by lia.
      assert (k2 + (i - k) = i2)%nat.
      { apply (anc_inj z es b wzb Wzb); try lia. rewrite <- M2, Aa, Ab by assumption. congruence. }
      lia.
  Qed.

  Lemma label_of_fc (wza wzb : list (nat * Z)) i i2 m :
    first_common (ancs a wza) (ancs b wzb) 0 = Some (i, i2, m) ->
    label_of_walks a b wza wzb = Some (m, map fst (firstn i wza), map fst (firstn i2 wzb)).
  Proof. intros H. unfold label_of_walks. fold (ancs a wza). fold (ancs b wzb). rewrite H. reflexivity. Qed.

  (* (=>) covered by one record => same label *)
  Lemma same_record_same_label i i2 m :
    first_common (ancs a wa') (ancs b wb') 0 = Some (i, i2, m) ->
    label_of_walks a b wxa wxb = label_of_walks a b wya wyb /\ label_of_walks a b wxa wxb <> None.
  Proof.
    intros FC.
    destruct (fc_kill_to_pos x wxa wxb i i2 m Wxa Wxb
                (walk_kill_prefix_x times es x y Vx wa' a wxa Wa' Wxa)
                (walk_kill_prefix_x times es x y Vx wb' b wxb Wb' Wxb) FC) as (Fx & Fxa & Fxb).
    destruct (fc_kill_to_pos y wya wyb i i2 m Wya Wyb
                (walk_kill_prefix_y times es x y Vx Vy wa' a wya Wa' Wya)
                (walk_kill_prefix_y times es x y Vx Vy wb' b wyb Wb' Wyb) FC) as (Fy & Fya & Fyb).
    rewrite (label_of_fc _ _ _ _ _ Fx), (label_of_fc _ _ _ _ _ Fy), Fxa, Fxb, Fya, Fyb.
    split; [reflexivity | discriminate].
  Qed.

  (* the emptied-table walk goes at least as far as the chains at x and y agree *)
  Lemma kill_walk_long s w' wx wy n :
    is_walk es' x s w' -> is_walk es x s wx -> is_walk es y s wy ->
    (n <= length wx)%nat -> (n <= length wy)%nat ->
    map fst (firstn n wx) = map fst (firstn n wy) -> (n <= length w')%nat.
  Proof.
    intros W' Wx Wy Lx Ly E.
    destruct (le_lt_dec n (length w')) as [|G]; [assumption|]. exfalso.
    destruct (walk_kill_prefix_x times es x y Vx w' s wx W' Wx) as (rx & Ex).
    destruct (walk_kill_prefix_y times es x y Vx Vy w' s wy W' Wy) as (ry & Ey).
    assert (Lrx : (0 < length rx)%nat) by (rewrite Ex, app_length in Lx; lia).
    assert (Lry : (0 < length ry)%nat) by (rewrite Ey, app_length in Ly; lia).
    destruct rx as [|[i p] r1]; [simpl in Lrx; lia|]. destruct ry as [|[i2 p2] r2]; [simpl in Lry; lia|].
    subst wx wy.
    apply (walk_kill_stop times es x y Vx w' s i p r1 i2 p2 r2 W' Wx Wy).
    (* the (length w')-th chain entries are i and i2 *)
    pose proof (nth_chain_at w' n i p r1 G) as N1.
    pose proof (nth_chain_at w' n i2 p2 r2 G) as N2.
    rewrite <- N1, <- N2, E. reflexivity.
  Qed.

  (* (<=) same label => the emptied-table walks meet *)
  Lemma same_label_same_record m ca cb :
    label_of_walks a b wxa wxb = Some (m, ca, cb) ->
    label_of_walks a b wya wyb = Some (m, ca, cb) ->
    exists i i2 m', first_common (ancs a wa') (ancs b wb') 0 = Some (i, i2, m').
  Proof.
    intros Lx Ly. unfold label_of_walks in Lx, Ly.
    fold (ancs a wxa) in Lx. fold (ancs b wxb) in Lx. fold (ancs a wya) in Ly. fold (ancs b wyb) in Ly.
    destruct (first_common (ancs a wxa) (ancs b wxb) 0) as [[[i i2] mx]|] eqn:Fx; [|discriminate].
    destruct (first_common (ancs a wya) (ancs b wyb) 0) as [[[j j2] my]|] eqn:Fy; [|discriminate].
    inversion Lx; subst mx ca cb; clear Lx. inversion Ly as [[Hm Hca Hcb]]; subst my; clear Ly.
    destruct (fc_facts a b wxa wxb i i2 m Fx) as (Hi & Hi2 & Am & Bm & _).
    destruct (fc_facts a b wya wyb j j2 m Fy) as (Hj & Hj2 & _).
    assert (j = i).
    { apply (f_equal (@length _)) in Hca. rewrite !map_length, !firstn_length in Hca. lia. }
    assert (j2 = i2).
    { apply (f_equal (@length _)) in Hcb. rewrite !map_length, !firstn_length in Hcb. lia. }
    subst j j2.
    pose proof (kill_walk_long a wa' wxa wya i Wa' Wxa Wya Hi Hj (eq_sym Hca)) as La.
    pose proof (kill_walk_long b wb' wxb wyb i2 Wb' Wxb Wyb Hi2 Hj2 (eq_sym Hcb)) as Lb.
    destruct (walk_kill_prefix_x times es x y Vx wa' a wxa Wa' Wxa) as (ra & Ea).
    destruct (walk_kill_prefix_x times es x y Vx wb' b wxb Wb' Wxb) as (rb & Eb).
    apply (first_common_exists (ancs a wa') (ancs b wb') 0 m).
    - rewrite <- Am. unfold anc. rewrite Ea, ancs_app_nth by exact La. apply nth_In. rewrite ancs_length. lia.
    - rewrite <- Bm. unfold anc. rewrite Eb, ancs_app_nth by exact Lb. apply nth_In. rewrite ancs_length. lia.
  Qed.
End Both.

(* ---- assembly ---------------------------------------------------------------------------------- *)

Lemma cov2_whole x y L : 0 <= x < L -> 0 <= y < L -> cov2 x y 0 L = true.
Proof. intros Hx Hy. unfold cov2. rewrite !cov1_whole by assumption. reflexivity. Qed.

(* Two positions are covered by one and the same record of a (requested) pair iff the
   specification labels them identically (same MRCA, same two edge chains); and at most one
   record of the pair covers both. *)
Theorem alg_same_record_iff_same_label_lemma :
  forall (c : case) (ssid : list Z) (out0 : list record) (x y a b : Z) (lx ly : option label),
    init_ssid c = Ok ssid ->
    valid_at (ctimes c) (cedges c) x -> valid_at (ctimes c) (cedges c) y ->
    0 <= x < cL c -> 0 <= y < cL c -> a <> b ->
    requested (is_between c) ssid a b = true ->
    ibd_records (unfiltered c) = Ok out0 ->
    label_at (spec_fuel c) (cedges c) x a b = Ok lx ->
    label_at (spec_fuel c) (cedges c) y a b = Ok ly ->
    let both := filter (fun r => covx (cov2 x y) (rec_seg r) && pair_is a b r) out0 in
    (length both <= 1)%nat /\ (both <> [] <-> (lx = ly /\ lx <> None)).
Proof.
  intros c ssid out0 x y a b lx ly Hi Vx Vy Hx Hy Hab Hreq Hr Hlx Hly both.
  destruct (ibd_records_unfiltered_run c ssid out0 Hi Hr) as (A' & E).
  apply (run_slice (is_between c) ssid (ctimes c) (cov2 x y) (cov2_inter x y) (cov2_nonempty x y)) in E.
  rewrite (DX_init ssid (cov2 x y) (cL c) (cov2_whole x y (cL c) Hx Hy)) in E. fold (D0 ssid) in E.
  rewrite arun_kill in E.
  (* walks at x and y from the specification's label computation *)
  unfold label_at in Hlx, Hly.
  destruct (ups (spec_fuel c) (cedges c) x a) as [wxa|] eqn:Exa; [|destruct (ups (spec_fuel c) (cedges c) x b); discriminate].
  destruct (ups (spec_fuel c) (cedges c) x b) as [wxb|] eqn:Exb; [|discriminate].
  destruct (ups (spec_fuel c) (cedges c) y a) as [wya|] eqn:Eya; [|destruct (ups (spec_fuel c) (cedges c) y b); discriminate].
  destruct (ups (spec_fuel c) (cedges c) y b) as [wyb|] eqn:Eyb; [|discriminate].
  inversion Hlx; subst lx; clear Hlx. inversion Hly; subst ly; clear Hly.
  pose proof (ups_is_walk _ _ _ _ _ Exa) as Wxa. pose proof (ups_is_walk _ _ _ _ _ Exb) as Wxb.
  pose proof (ups_is_walk _ _ _ _ _ Eya) as Wya. pose proof (ups_is_walk _ _ _ _ _ Eyb) as Wyb.
  destruct (walk_kill_exists (ctimes c) (cedges c) x y Vx wxa a Wxa) as (wa' & Wa').
  destruct (walk_kill_exists (ctimes c) (cedges c) x y Vx wxb b Wxb) as (wb' & Wb').
  pose proof (arun_pair_result _ _ _ _ _ a b wa' wb' _ _ (valid_at_kill _ _ x y Vx) Hab Wa' Wb' E) as R.
  rewrite Hreq in R.
  pose proof (records_reshape (cov2 x y) a b out0) as RS. fold both in RS. rewrite R in RS.
  assert (Len : length both = length (match first_common (ancs a wa') (ancs b wb') 0 with
                                      | Some (_, _, m) => [m] | None => [] end)).
  { rewrite <- RS, map_length. reflexivity. }
  split.
  - rewrite Len. destruct (first_common (ancs a wa') (ancs b wb') 0) as [[[i i2] m]|]; simpl; lia.
  - split.
    + intros Hne.
      destruct (first_common (ancs a wa') (ancs b wb') 0) as [[[i i2] m]|] eqn:FC.
      * exact (same_record_same_label (ctimes c) (cedges c) x y Vx Vy a b wa' wb' wxa wxb wya wyb
                 Wa' Wb' Wxa Wxb Wya Wyb i i2 m FC).
      * exfalso. apply Hne. destruct both; [reflexivity | simpl in Len; discriminate].
    + intros [Heq Hsome].
      destruct (label_of_walks a b wxa wxb) as [[[m ca] cb]|] eqn:Lx; [|congruence].
      destruct (same_label_same_record (ctimes c) (cedges c) x y Vx Vy a b wa' wb' wxa wxb wya wyb
                  Wa' Wb' Wxa Wxb Wya Wyb m ca cb Lx (eq_sym Heq)) as (i & i2 & m' & FC).
      rewrite FC in Len. intros Hnil. rewrite Hnil in Len. simpl in Len. discriminate.
Qed.

(* Non-vacuity: in the docs example positions 5 and 7 of pair (1,2) lie in one record, positions
   1 and 5 do not (same MRCA 4 but different chains). *)
Example docs_two_positions :
  exists out0, ibd_records (unfiltered (docs_case_alg 0 None)) = Ok out0 /\
    length (filter (fun r => covx (cov2 5 7) (rec_seg r) && pair_is 1 2 r) out0) = 1%nat /\
    filter (fun r => covx (cov2 1 5) (rec_seg r) && pair_is 1 2 r) out0 = [] /\
    label_at 7 (cedges (docs_case_alg 0 None)) 5 1 2 = label_at 7 (cedges (docs_case_alg 0 None)) 7 1 2 /\
    label_at 7 (cedges (docs_case_alg 0 None)) 1 1 2 <> label_at 7 (cedges (docs_case_alg 0 None)) 5 1 2.
Proof.
  eexists. split; [vm_compute; reflexivity|]. vm_compute. repeat split; try reflexivity. discriminate.
Qed.
