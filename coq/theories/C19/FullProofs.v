(* C19 — closing the refinement: for one pair, the records of the (unfiltered) algorithm model
   are, as a set, exactly the specification's maximal runs.

   Inputs: the position-wise theorem (RefineProofs.alg_position_correct_lemma), the end-point
   theorem (TwoPos.alg_same_record_iff_same_label_lemma), well-formedness of records
   (AlgProofs.records_wellformed_lemma) and the structure of maximal runs (RunsProofs). *)
From Coq Require Import List ZArith Bool Lia Arith Permutation.
From TskVerif Require Import Base.Common C19.Model C19.IbdAlg C19.RunsProofs C19.SpecProofs C19.AlgProofs
  C19.SliceProofs C19.RefineProofs C19.TwoPos.
Import ListNotations.
Open Scope Z_scope.

(* ---- small list facts ---------------------------------------------------------------------- *)

Lemma filter_comm_c19 {A} (f g : A -> bool) l : filter f (filter g l) = filter g (filter f l).
Proof.
  induction l as [|h t IH]; simpl; [reflexivity|].
  destruct (g h) eqn:G; destruct (f h) eqn:F; simpl; rewrite ?G, ?F, IH; reflexivity.
Qed.

Lemma short_list_eq {A} (l : list A) x y : (length l <= 1)%nat -> In x l -> In y l -> x = y.
Proof.
  destruct l as [|h [|h2 t]]; simpl; intros H Hx Hy; try contradiction; try lia.
  destruct Hx as [<-|[]]. destruct Hy as [<-|[]]. reflexivity.
Qed.

Lemma nodup_map_by_filter {A B} (f : A -> B) (P : Z -> B -> bool) (l : list A) :
  (forall r, In r l -> exists x, P x (f r) = true /\ (length (filter (fun r' => P x (f r')) l) <= 1)%nat) ->
  NoDup (map f l).
Proof.
  induction l as [|h t IH]; intros H; [constructor|]. simpl. constructor.
  - intros Hin. apply in_map_iff in Hin as (h' & E & Hin').
    destruct (H h (or_introl eq_refl)) as (x & Px & Len). simpl in Len. rewrite Px in Len. simpl in Len.
    assert (In h' (filter (fun r' => P x (f r')) t)) by (apply filter_In; split; [exact Hin' | rewrite E; exact Px]).
    destruct (filter (fun r' => P x (f r')) t); [contradiction | simpl in Len; lia].
  - apply IH. intros r Hr. destruct (H r (or_intror Hr)) as (x & Px & Len). exists x. split; [exact Px|].
    simpl in Len. destruct (P x (f h)); simpl in Len; lia.
Qed.

Lemma labels_nth c a b ls : labels c a b = Ok ls ->
  length ls = Z.to_nat (cL c) /\
  forall x, 0 <= x < cL c -> label_at (spec_fuel c) (cedges c) x a b = Ok (nth (Z.to_nat x) ls None).
Proof.
  intros EL. unfold labels in EL. apply sequence_ok in EL as [Len Nth].
  rewrite map_length, zrange_length in Len. split; [exact Len|].
  intros x Hx. assert (Hi : (Z.to_nat x < Z.to_nat (cL c))%nat) by lia.
  specialize (Nth (Z.to_nat x) Fuel None). rewrite map_length, zrange_length in Nth. specialize (Nth Hi).
  rewrite <- Nth. rewrite nth_map_zrange by exact Hi. f_equal. lia.
Qed.

Lemma covx_cov2 x y s : covx (cov2 x y) s = covx (cov1 x) s && covx (cov1 y) s.
Proof. reflexivity. Qed.

Lemma covx_cov1 x s : covx (cov1 x) s = true <-> seg_left s <= x < seg_right s.
Proof.
  unfold covx, cov1. rewrite andb_true_iff, Z.leb_le, Z.ltb_lt. tauto.
Qed.

(* ---- one pair --------------------------------------------------------------------------------- *)

Section PairEq.
  Variables (c : case) (ssid : list Z) (out0 : list record) (a b : Z) (ls : list (option label)).
  Hypothesis Hi : init_ssid c = Ok ssid.
  Hypothesis HV : forall x, 0 <= x < cL c -> valid_at (ctimes c) (cedges c) x.
  Hypothesis Hab : a <> b.
  Hypothesis Hreq : requested (is_between c) ssid a b = true.
  Hypothesis Hr : ibd_records (unfiltered c) = Ok out0.
  Hypothesis Hls : labels c a b = Ok ls.
  Hypothesis HL : 0 <= cL c.

  Definition RS : list record := filter (pair_is a b) out0.
  Definition rsL : list (Z * Z * label) := runs label_eqb 0 ls.
  Definition lab (x : Z) : option label := nth (Z.to_nat x) ls None.
  Definition cx (x : Z) (r : record) : bool := covx (cov1 x) (rec_seg r).

  Lemma rsL_ordered : ordered 0 (cL c) rsL.
  Proof.
    destruct (runs_partition_lemma label_eqb label_eqb_eq 0 ls) as [O _].
    destruct (labels_nth c a b ls Hls) as [Len _]. unfold zlen in O. rewrite Len in O.
    replace (0 + Z.of_nat (Z.to_nat (cL c))) with (cL c) in O by lia. exact O.
  Qed.

  Lemma rsL_no_merge : no_merge label_eqb rsL.
  Proof. apply runs_maximal_lemma. exact label_eqb_eq. Qed.

  Lemma rsL_lookup x : 0 <= x < cL c -> lookup x rsL = lab x.
  Proof.
    intros Hx. destruct (runs_partition_lemma label_eqb label_eqb_eq 0 ls) as [_ M].
    destruct (labels_nth c a b ls Hls) as [Len _].
    assert (Hi' : (Z.to_nat x < length ls)%nat) by lia.
    unfold lab. rewrite <- M. rewrite nth_map_zrange by exact Hi'. unfold rsL, runs. f_equal. lia.
  Qed.

  Lemma P1 x : 0 <= x < cL c ->
    map (fun r => seg_node (rec_seg r)) (filter (cx x) RS)
    = match lab x with Some l => [label_mrca l] | None => [] end.
  Proof.
    intros Hx. destruct (labels_nth c a b ls Hls) as [_ Nth].
    pose proof (alg_position_correct_lemma c ssid out0 x a b (lab x) Hi (HV x Hx) Hx Hab Hr (Nth x Hx)) as P.
    rewrite Hreq in P. rewrite <- P. unfold RS, cx. rewrite filter_andb, filter_comm_c19. reflexivity.
  Qed.

  Lemma P2 x y : 0 <= x < cL c -> 0 <= y < cL c ->
    let both := filter (fun r => cx x r && cx y r) RS in
    (length both <= 1)%nat /\ (both <> [] <-> (lab x = lab y /\ lab x <> None)).
  Proof.
    intros Hx Hy. destruct (labels_nth c a b ls Hls) as [_ Nth].
    pose proof (alg_same_record_iff_same_label_lemma c ssid out0 x y a b (lab x) (lab y) Hi (HV x Hx) (HV y Hy)
                  Hx Hy Hab Hreq Hr (Nth x Hx) (Nth y Hy)) as P. cbv zeta in P.
    assert (E : filter (fun r => covx (cov2 x y) (rec_seg r) && pair_is a b r) out0
                = filter (fun r => cx x r && cx y r) RS).
    { unfold RS, cx. rewrite filter_andb, filter_comm_c19. apply filter_ext. intros r. apply covx_cov2. }
    rewrite E in P. exact P.
  Qed.

  Lemma P3 r : In r RS -> rec_wf (cL c) r.
  Proof.
    intros H. unfold RS in H. apply filter_In in H as [H _].
    pose proof (records_wellformed_lemma (unfiltered c) out0 HL Hr) as W. rewrite Forall_forall in W. exact (W r H).
  Qed.

  Lemma U1 x r r' : 0 <= x < cL c -> In r RS -> In r' RS -> cx x r = true -> cx x r' = true -> r = r'.
  Proof.
    intros Hx H H' C C'.
    apply (short_list_eq (filter (cx x) RS)).
    - rewrite <- (map_length (fun r => seg_node (rec_seg r))), (P1 x Hx). destruct (lab x); simpl; lia.
    - apply filter_In; auto.
    - apply filter_In; auto.
  Qed.

  (* a record and a run that share one position are the same segment *)
  Lemma MATCH r l2 r2 lam x0 :
    In r RS -> In (l2, r2, lam) rsL -> 0 <= x0 < cL c -> cx x0 r = true -> l2 <= x0 < r2 ->
    rec_seg r = seg_of_run (l2, r2, lam).
  Proof.
    intros Hr0 Hs Hx0 C0 C2.
    pose proof rsL_ordered as O. pose proof rsL_no_merge as NM.
    destruct (ordered_in _ _ _ _ _ _ O Hs) as (B1 & B2 & B3).
    destruct (P3 r Hr0) as ((W1 & W2) & W3 & _).
    assert (Lx0 : lab x0 = Some lam) by (rewrite <- rsL_lookup by exact Hx0; eapply in_lookup; eauto).
    (* every position of the record carries the label lam *)
    assert (RL : forall z, 0 <= z < cL c -> cx z r = true -> lab z = Some lam).
    { intros z Hz Cz. destruct (P2 x0 z Hx0 Hz) as [_ [Hfw _]].
      destruct Hfw as [Heq _]; [|congruence].
      intros Hnil. assert (Hin : In r (filter (fun r => cx x0 r && cx z r) RS))
        by (apply filter_In; split; [exact Hr0 | rewrite C0, Cz; reflexivity]).
      rewrite Hnil in Hin. contradiction. }
    assert (Cr : forall z, cx z r = true <-> seg_left (rec_seg r) <= z < seg_right (rec_seg r))
      by (intros z; apply covx_cov1).
    (* every position of the run belongs to the record *)
    assert (SR : forall y, l2 <= y < r2 -> cx y r = true).
    { intros y Hy. assert (Hy' : 0 <= y < cL c) by lia.
      assert (Ly : lab y = Some lam) by (rewrite <- rsL_lookup by exact Hy'; eapply in_lookup; eauto).
      destruct (P2 x0 y Hx0 Hy') as [_ [_ Hbw]].
      destruct (filter (fun r => cx x0 r && cx y r) RS) as [|r' t] eqn:EF.
      - exfalso. apply (Hbw ltac:(split; congruence)). reflexivity.
      - assert (Hin : In r' (filter (fun r => cx x0 r && cx y r) RS)) by (rewrite EF; left; reflexivity).
        apply filter_In in Hin as [Hin Hc]. apply andb_true_iff in Hc as [Hc0 Hcy].
        rewrite (U1 x0 r r' Hx0 Hr0 Hin C0 Hc0). exact Hcy. }
    (* the run reaches as far as the record, on both sides *)
    pose proof (proj1 (Cr x0) C0) as Hx0r.
    assert (RR : seg_right (rec_seg r) <= r2).
    { set (n := Z.to_nat (seg_right (rec_seg r) - 1 - x0)).
      pose proof (run_reach_right label_eqb label_eqb_refl rsL 0 (cL c) l2 r2 lam x0 O NM Hs C2 n) as RRt.
      assert (x0 + Z.of_nat n < r2); [|unfold n in *; lia].
      apply RRt. intros z Hz. unfold n in Hz. rewrite rsL_lookup by lia. apply RL; [lia|]. apply Cr. lia. }
    assert (LL : l2 <= seg_left (rec_seg r)).
    { set (n := Z.to_nat (x0 - seg_left (rec_seg r))).
      pose proof (run_reach_left label_eqb label_eqb_refl rsL 0 (cL c) l2 r2 lam x0 O NM Hs C2 n) as RLt.
      assert (l2 <= x0 - Z.of_nat n); [|unfold n in *; lia].
      apply RLt. intros z Hz. unfold n in Hz. rewrite rsL_lookup by lia. apply RL; [lia|]. apply Cr. lia. }
    assert (LE : seg_left (rec_seg r) <= l2) by (apply (proj1 (Cr l2)); apply SR; lia).
    assert (RE : r2 <= seg_right (rec_seg r)) by (pose proof (proj1 (Cr (r2 - 1)) (SR (r2 - 1) ltac:(lia))); lia).
    (* the node *)
    assert (Nd : seg_node (rec_seg r) = label_mrca lam).
    { pose proof (P1 x0 Hx0) as Q. rewrite Lx0 in Q.
      assert (Hin : In (seg_node (rec_seg r)) (map (fun r => seg_node (rec_seg r)) (filter (cx x0) RS))).
      { apply (in_map (fun r => seg_node (rec_seg r))). apply filter_In. split; assumption. }
      rewrite Q in Hin. destruct Hin as [<-|[]]. reflexivity. }
    destruct (rec_seg r) as [[l1 r1] n1]. destruct lam as [[m ca] cb].
    unfold seg_left, seg_right, seg_node, label_mrca in *; cbn [fst snd] in *. simpl. f_equal; [f_equal|]; lia.
  Qed.

  Theorem pair_records_are_runs : Permutation (map rec_seg RS) (map seg_of_run rsL).
  Proof.
    pose proof rsL_ordered as O.
    apply NoDup_Permutation.
    - (* no record twice *)
      apply (nodup_map_by_filter rec_seg (fun x s => covx (cov1 x) s) RS).
      intros r Hr0. destruct (P3 r Hr0) as ((W1 & W2) & W3 & _).
      exists (seg_left (rec_seg r)). split; [apply covx_cov1; lia|].
      assert (Hx : 0 <= seg_left (rec_seg r) < cL c) by lia.
      change (fun r' => covx (cov1 (seg_left (rec_seg r))) (rec_seg r')) with (cx (seg_left (rec_seg r))).
      rewrite <- (map_length (fun r => seg_node (rec_seg r))), (P1 _ Hx). destruct (lab _); simpl; lia.
    - apply (ordered_nodup 0 (cL c)). apply ordered_seg_of_run. exact O.
    - intros s. split.
      + intros Hs. apply in_map_iff in Hs as (r & <- & Hr0).
        destruct (P3 r Hr0) as ((W1 & W2) & W3 & _).
        set (x0 := seg_left (rec_seg r)). assert (Hx0 : 0 <= x0 < cL c) by (unfold x0; lia).
        assert (C0 : cx x0 r = true) by (apply covx_cov1; unfold x0; lia).
        (* the position carries a label, hence lies in a run *)
        assert (Lx : exists lam, lab x0 = Some lam).
        { pose proof (P1 x0 Hx0) as Q. destruct (lab x0) as [lam|]; [eauto|]. exfalso.
          assert (Hin : In r (filter (cx x0) RS)) by (apply filter_In; auto).
          apply (in_map (fun r => seg_node (rec_seg r))) in Hin. rewrite Q in Hin. contradiction. }
        destruct Lx as (lam & Lx). rewrite <- rsL_lookup in Lx by exact Hx0.
        apply lookup_in in Lx as (l2 & r2 & Hin & Hc).
        rewrite (MATCH r l2 r2 lam x0 Hr0 Hin Hx0 C0 Hc). apply in_map. exact Hin.
      + intros Hs. apply in_map_iff in Hs as ([[l2 r2] lam] & <- & Hin).
        destruct (ordered_in _ _ _ _ _ _ O Hin) as (B1 & B2 & B3).
        assert (Hx0 : 0 <= l2 < cL c) by lia.
        assert (Lx : lab l2 = Some lam) by (rewrite <- rsL_lookup by exact Hx0; eapply in_lookup; eauto; lia).
        pose proof (P1 l2 Hx0) as Q. rewrite Lx in Q.
        destruct (filter (cx l2) RS) as [|r t] eqn:EF; [discriminate|].
        assert (Hr0 : In r (filter (cx l2) RS)) by (rewrite EF; left; reflexivity).
        apply filter_In in Hr0 as [Hr0 C0].
        rewrite <- (MATCH r l2 r2 lam l2 Hr0 Hin Hx0 C0 ltac:(lia)). apply in_map. exact Hr0.
  Qed.
End PairEq.
