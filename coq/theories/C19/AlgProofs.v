(* C19 — proofs about the faithful algorithm model (IbdAlg):
   (d) filters commute with the sweep: running tsk_ibd_finder with min_span / max_time gives
       exactly the records of the unfiltered run that pass `span > min_span` and
       `time(mrca) <= max_time`, in the same order — although the code applies min_span
       already to the intermediate ancestry segments (enqueue_segment) and stops the sweep at
       the first edge whose parent is too old. *)
From Coq Require Import List ZArith Bool Lia.
From TskVerif Require Import Base.Common C19.Model C19.IbdAlg.
Import ListNotations.
Open Scope Z_scope.

(* ---- checked access and Forall2 ------------------------------------------------------ *)

Lemma get_Forall2 {A B} (R : A -> B -> Prop) l1 l2 i b :
  Forall2 R l1 l2 -> get l2 i = Ok b -> exists a, get l1 i = Ok a /\ R a b.
Proof.
  unfold get. destruct (i <? 0); [discriminate|]. generalize (Z.to_nat i) as n. intros n F.
  revert n; induction F as [|x y l1 l2 Rxy F IH]; intros n H.
  - destruct n; discriminate.
  - destruct n as [|n]; simpl in *.
    + inversion H; subst. eauto.
    + apply IH. exact H.
Qed.

Lemma set_nat_Forall2 {A B} (R : A -> B -> Prop) l1 l2 :
  Forall2 R l1 l2 -> forall n a b l2', R a b -> set_nat l2 n b = Some l2' ->
  exists l1', set_nat l1 n a = Some l1' /\ Forall2 R l1' l2'.
Proof.
  induction 1 as [|x y l1 l2 Rxy F IH]; intros n a b l2' Rab H.
  - destruct n; discriminate.
  - destruct n as [|n]; simpl in *.
    + inversion H; subst. eexists; split; [reflexivity|]. constructor; assumption.
    + destruct (set_nat l2 n b) as [t'|] eqn:E; [|discriminate]. inversion H; subst.
      destruct (IH n a b t' Rab E) as (l1' & E1 & F1). rewrite E1.
      eexists; split; [reflexivity|]. constructor; assumption.
Qed.

Lemma set_Forall2 {A B} (R : A -> B -> Prop) l1 l2 i a b l2' :
  Forall2 R l1 l2 -> R a b -> set l2 i b = Ok l2' ->
  exists l1', set l1 i a = Ok l1' /\ Forall2 R l1' l2'.
Proof.
  unfold set. intros F Rab H. destruct (i <? 0); [discriminate|].
  destruct (set_nat l2 (Z.to_nat i) b) as [t|] eqn:E; [|discriminate]. inversion H; subst.
  destruct (set_nat_Forall2 R l1 l2 F _ a b l2' Rab E) as (l1' & E1 & F1).
  rewrite E1. eauto.
Qed.

(* ---- spans of intersections ---------------------------------------------------------- *)

Section Filter.
  Variable ms2 : Z.
  Hypothesis ms2_nonneg : 0 <= ms2.

  Definition spanok (s : seg) : bool := span_passes ms2 s.
  Definition recok (r : record) : bool := spanok (rec_seg r).

  Lemma enqueue_filter left right s :
    enqueue ms2 left right s = filter spanok (enqueue 0 left right s).
  Proof.
    unfold enqueue.
    set (l := Z.max left (seg_left s)). set (r := Z.min right (seg_right s)).
    destruct (0 <? 2 * (r - l)) eqn:E0; cbn [filter].
    - unfold spanok, span_passes, seg_span, seg_left, seg_right. cbn [fst snd].
      destruct (ms2 <? 2 * (r - l)); reflexivity.
    - apply Z.ltb_ge in E0.
      replace (ms2 <? 2 * (r - l)) with false by (symmetry; apply Z.ltb_ge; lia). reflexivity.
  Qed.

  Lemma enqueue_drop left right s : spanok s = false -> enqueue ms2 left right s = [].
  Proof.
    unfold enqueue, spanok, span_passes, seg_span. intros H.
    apply Z.ltb_ge in H.
    replace (ms2 <? 2 * (Z.min right (seg_right s) - Z.max left (seg_left s))) with false; [reflexivity|].
    symmetry. apply Z.ltb_ge. lia.
  Qed.

  Lemma queue_filter e l : queue_of ms2 e l = filter spanok (queue_of 0 e l).
  Proof.
    unfold queue_of. induction l as [|s t IH]; simpl; [reflexivity|].
    rewrite filter_app, <- IH, enqueue_filter. reflexivity.
  Qed.

  Lemma queue_drop e l : queue_of ms2 e l = queue_of ms2 e (filter spanok l).
  Proof.
    unfold queue_of. induction l as [|s t IH]; simpl; [reflexivity|].
    destruct (spanok s) eqn:E; simpl.
    - rewrite IH. reflexivity.
    - rewrite enqueue_drop by exact E. simpl. exact IH.
  Qed.

  Lemma filter_idem {A} (f : A -> bool) l : filter f (filter f l) = filter f l.
  Proof.
    induction l as [|a t IH]; simpl; [reflexivity|]. destruct (f a) eqn:E; simpl; [rewrite E, IH|]; auto.
  Qed.

  (* ---- the recording loops ----------------------------------------------------------- *)

  Variables (mt2 : option Z) (between : bool) (ssid times : list Z).
  Definition P0 : params := mkParams 0 None between ssid times.
  Definition Pf : params := mkParams ms2 mt2 between ssid times.

  Lemma passes_filter a b l r b0 :
    passes P0 a b l r = Ok b0 -> passes Pf a b l r = Ok (b0 && (ms2 <? 2 * (r - l))).
  Proof.
    unfold passes, P0, Pf; cbn [p_ms2 p_between p_ssid].
    destruct (a =? b); [intros H; inversion H; reflexivity|].
    destruct (2 * (r - l) <=? 0) eqn:E0.
    - intros H; inversion H; subst. cbn [andb].
      apply Z.leb_le in E0. replace (2 * (r - l) <=? ms2) with true by (symmetry; apply Z.leb_le; lia).
      reflexivity.
    - destruct (2 * (r - l) <=? ms2) eqn:E1.
      + intros _. apply Z.leb_le in E1. replace (ms2 <? 2 * (r - l)) with false by (symmetry; apply Z.ltb_ge; lia).
        rewrite andb_false_r. reflexivity.
      + apply Z.leb_gt in E1. replace (ms2 <? 2 * (r - l)) with true by (symmetry; apply Z.ltb_lt; lia).
        rewrite andb_true_r. auto.
  Qed.

  Lemma passes_short a b l r : 2 * (r - l) <= ms2 -> passes Pf a b l r = Ok false.
  Proof.
    intros H. unfold passes, Pf; cbn [p_ms2 p_between p_ssid]. destruct (a =? b); [reflexivity|].
    replace (2 * (r - l) <=? ms2) with true by (symmetry; apply Z.leb_le; lia). reflexivity.
  Qed.

  Lemma record_one_filter parent s0 s1 x :
    record_one P0 parent s0 s1 = Ok x -> record_one Pf parent s0 s1 = Ok (filter recok x).
  Proof.
    unfold record_one. intros H.
    destruct (passes P0 (seg_node s0) (seg_node s1) (Z.max (seg_left s0) (seg_left s1))
                     (Z.min (seg_right s0) (seg_right s1))) as [b0| | |] eqn:E; simpl in H; try discriminate.
    rewrite (passes_filter _ _ _ _ _ E). simpl. inversion H; subst; clear H.
    destruct b0; simpl; [|reflexivity].
    unfold recok, spanok, span_passes, rec_seg, seg_span, seg_left, seg_right; simpl.
    destruct (ms2 <? 2 * (Z.min (snd (fst s0)) (snd (fst s1)) - Z.max (fst (fst s0)) (fst (fst s1)))); reflexivity.
  Qed.

  (* an intersection is never longer than either operand *)
  Lemma record_one_short parent s0 s1 :
    spanok s0 = false \/ spanok s1 = false -> record_one Pf parent s0 s1 = Ok [].
  Proof.
    intros H. unfold record_one. rewrite passes_short; [reflexivity|].
    unfold spanok, span_passes, seg_span in H.
    destruct H as [H|H]; apply Z.ltb_ge in H; lia.
  Qed.

  Lemma record_one_short0 parent s0 s1 x :
    spanok s0 = false \/ spanok s1 = false -> record_one P0 parent s0 s1 = Ok x -> filter recok x = [].
  Proof.
    intros H E. apply record_one_filter in E. rewrite record_one_short in E by exact H.
    inversion E; reflexivity.
  Qed.

  Lemma record_inner_filter parent s0 : forall q x,
    spanok s0 = true ->
    record_inner P0 parent s0 q = Ok x ->
    record_inner Pf parent s0 (filter spanok q) = Ok (filter recok x).
  Proof.
    induction q as [|s1 t IH]; intros x Hs H; simpl in H.
    - inversion H; reflexivity.
    - destruct (record_one P0 parent s0 s1) as [x1| | |] eqn:E1; simpl in H; try discriminate.
      destruct (record_inner P0 parent s0 t) as [x2| | |] eqn:E2; simpl in H; try discriminate.
      inversion H; subst; clear H. rewrite filter_app. simpl.
      destruct (spanok s1) eqn:Es1; simpl.
      + rewrite (record_one_filter _ _ _ _ E1). simpl. rewrite (IH x2 Hs eq_refl). reflexivity.
      + rewrite (record_one_short0 parent s0 s1 x1) by auto. simpl. apply IH; auto.
  Qed.

  Lemma record_inner_short0 parent s0 : forall q x,
    spanok s0 = false -> record_inner P0 parent s0 q = Ok x -> filter recok x = [].
  Proof.
    induction q as [|s1 t IH]; intros x Hs H; simpl in H.
    - inversion H; reflexivity.
    - destruct (record_one P0 parent s0 s1) as [x1| | |] eqn:E1; simpl in H; try discriminate.
      destruct (record_inner P0 parent s0 t) as [x2| | |] eqn:E2; simpl in H; try discriminate.
      inversion H; subst; clear H. rewrite filter_app.
      rewrite (record_one_short0 parent s0 s1 x1) by auto. simpl. apply IH; auto.
  Qed.

  Lemma record_inner_short parent s0 : forall q, spanok s0 = false -> record_inner Pf parent s0 q = Ok [].
  Proof.
    induction q as [|s1 t IH]; intros Hs; simpl; [reflexivity|].
    rewrite record_one_short by auto. simpl. rewrite IH by exact Hs. reflexivity.
  Qed.

  Lemma record_ibd_drop parent q : forall ps,
    record_ibd Pf parent ps q = record_ibd Pf parent (filter spanok ps) q.
  Proof.
    induction ps as [|s0 t IH]; simpl; [reflexivity|].
    destruct (spanok s0) eqn:E; simpl.
    - rewrite IH. reflexivity.
    - rewrite record_inner_short by exact E. simpl. rewrite IH.
      destruct (record_ibd Pf parent (filter spanok t) q); reflexivity.
  Qed.

  Lemma record_ibd_filter parent q : forall ps x,
    record_ibd P0 parent ps q = Ok x ->
    record_ibd Pf parent (filter spanok ps) (filter spanok q) = Ok (filter recok x).
  Proof.
    induction ps as [|s0 t IH]; intros x H; simpl in H.
    - inversion H; reflexivity.
    - destruct (record_inner P0 parent s0 q) as [x1| | |] eqn:E1; simpl in H; try discriminate.
      destruct (record_ibd P0 parent t q) as [x2| | |] eqn:E2; simpl in H; try discriminate.
      inversion H; subst; clear H. rewrite filter_app. simpl.
      destruct (spanok s0) eqn:Es0; simpl.
      + rewrite (record_inner_filter parent s0 q x1 Es0 E1). simpl. rewrite (IH x2 eq_refl). reflexivity.
      + rewrite (record_inner_short0 parent s0 q x1 Es0 E1). simpl. apply IH; reflexivity.
  Qed.

  (* every record of one step is labelled with the parent of the edge *)
  Lemma record_one_node P parent s0 s1 x : record_one P parent s0 s1 = Ok x ->
    Forall (fun r => seg_node (rec_seg r) = parent) x.
  Proof.
    unfold record_one. destruct (passes P _ _ _ _) as [b| | |]; simpl; intros H; try discriminate.
    inversion H; subst. destruct b; constructor; [reflexivity | constructor].
  Qed.

  Lemma record_inner_node P parent s0 : forall q x, record_inner P parent s0 q = Ok x ->
    Forall (fun r => seg_node (rec_seg r) = parent) x.
  Proof.
    induction q as [|s1 t IH]; intros x H; simpl in H.
    - inversion H; constructor.
    - destruct (record_one P parent s0 s1) as [x1| | |] eqn:E1; simpl in H; try discriminate.
      destruct (record_inner P parent s0 t) as [x2| | |] eqn:E2; simpl in H; try discriminate.
      inversion H; subst. apply Forall_app. split; [eapply record_one_node; eauto | apply IH; reflexivity].
  Qed.

  Lemma record_ibd_node P parent q : forall ps x, record_ibd P parent ps q = Ok x ->
    Forall (fun r => seg_node (rec_seg r) = parent) x.
  Proof.
    induction ps as [|s0 t IH]; intros x H; simpl in H.
    - inversion H; constructor.
    - destruct (record_inner P parent s0 q) as [x1| | |] eqn:E1; simpl in H; try discriminate.
      destruct (record_ibd P parent t q) as [x2| | |] eqn:E2; simpl in H; try discriminate.
      inversion H; subst. apply Forall_app. split; [eapply record_inner_node; eauto | apply IH; reflexivity].
  Qed.

  (* ---- one step ----------------------------------------------------------------------- *)

  (* the filtered run's ancestry lists agree with the unfiltered ones on all segments that are
     long enough (the initial whole-genome segment of a sample is the only short one that the
     filtered run may keep: add_sample_ancestry does not apply min_span) *)
  Definition Rel (Af A0 : amap) : Prop :=
    Forall2 (fun lf l0 => filter spanok lf = filter spanok l0) Af A0.

  Lemma step_filter e A0 Af A0' recs0 :
    Rel Af A0 -> step P0 e A0 = Ok (A0', recs0) ->
    exists Af', step Pf e Af = Ok (Af', filter recok recs0) /\ Rel Af' A0' /\
                Forall (fun r => seg_node (rec_seg r) = eparent e) recs0.
  Proof.
    intros R H. unfold step in H. simpl p_ms2 in H.
    destruct (get A0 (echild e)) as [cs0| | |] eqn:Ec; simpl in H; try discriminate.
    destruct (get A0 (eparent e)) as [ps0| | |] eqn:Ep; simpl in H; try discriminate.
    destruct (record_ibd P0 (eparent e) ps0 (queue_of 0 e cs0)) as [r0| | |] eqn:Er; simpl in H; try discriminate.
    destruct (set A0 (eparent e) (ps0 ++ queue_of 0 e cs0)) as [A0s| | |] eqn:Es; simpl in H; try discriminate.
    inversion H; subst; clear H.
    destruct (get_Forall2 _ _ _ _ _ R Ec) as (csf & Ecf & Rc).
    destruct (get_Forall2 _ _ _ _ _ R Ep) as (psf & Epf & Rp).
    assert (Q : queue_of ms2 e csf = filter spanok (queue_of 0 e cs0)).
    { rewrite (queue_drop e csf), Rc, <- queue_drop. apply queue_filter. }
    destruct (set_Forall2 _ Af A0 (eparent e) (psf ++ queue_of ms2 e csf) (ps0 ++ queue_of 0 e cs0) A0' R) as (Af' & Esf & R').
    { rewrite !filter_app, Rp, Q, filter_idem. reflexivity. }
    { exact Es. }
    exists Af'. split; [|split; [exact R' | eapply record_ibd_node; eauto]].
    unfold step. simpl p_ms2. rewrite Ecf. simpl. rewrite Epf. simpl.
    rewrite Q, record_ibd_drop, Rp, (record_ibd_filter _ _ _ _ Er). simpl.
    rewrite <- Q, Esf. reflexivity.
  Qed.

  (* ---- the sweep ---------------------------------------------------------------------- *)

  (* edges are sorted by the time of their parent (a requirement of valid tree sequences,
     established by TableCollection.sort / checked by tree_sequence()) *)
  Fixpoint time_sorted (es : list edge) : Prop :=
    match es with
    | [] => True
    | e :: t =>
        Forall (fun e' => forall t1 t2, get times (eparent e) = Ok t1 ->
                                        get times (eparent e') = Ok t2 -> t1 <= t2) t
        /\ time_sorted t
    end.

  Definition timeok (r : record) : bool :=
    match mt2 with
    | None => true
    | Some m => match get times (seg_node (rec_seg r)) with Ok t => 2 * t <=? m | _ => false end
    end.

  Definition rec_passes (r : record) : bool := recok r && timeok r.

  Lemma run_nodes P es : forall A A' out, run_edges P es A = Ok (A', out) ->
    Forall (fun r => exists e', In e' es /\ seg_node (rec_seg r) = eparent e') out.
  Proof.
    induction es as [|e t IH]; intros A A' out H; simpl in H.
    - inversion H; constructor.
    - destruct (get (p_times P) (eparent e)) as [tm| | |]; simpl in H; try discriminate.
      destruct (too_old (p_mt2 P) tm); [inversion H; constructor|].
      destruct (step P e A) as [[A1 r1]| | |] eqn:Es; simpl in H; try discriminate.
      destruct (run_edges P t A1) as [[A2 r2]| | |] eqn:Er; simpl in H; try discriminate.
      inversion H; subst; clear H. apply Forall_app. split.
      + unfold step in Es.
        destruct (get A (echild e)) as [cs| | |]; simpl in Es; try discriminate.
        destruct (get A (eparent e)) as [ps| | |]; simpl in Es; try discriminate.
        destruct (record_ibd P (eparent e) ps _) as [r0| | |] eqn:Err; simpl in Es; try discriminate.
        destruct (set A (eparent e) _) as [As| | |]; simpl in Es; try discriminate.
        inversion Es; subst. apply record_ibd_node in Err.
        eapply Forall_impl; [|exact Err]. intros r Hr. exists e. split; [left; reflexivity | exact Hr].
      + eapply Forall_impl; [|eapply IH; exact Er]. intros r (e' & Hin & Hr). exists e'. split; [right|]; assumption.
  Qed.

  Lemma filter_none {A} (f : A -> bool) l : Forall (fun a => f a = false) l -> filter f l = [].
  Proof. induction 1 as [|a t Ha Ht IH]; simpl; [reflexivity|]. rewrite Ha. exact IH. Qed.

  Lemma filter_ext_Forall {A} (f g : A -> bool) l : Forall (fun a => f a = g a) l -> filter f l = filter g l.
  Proof. induction 1 as [|a t Ha Ht IH]; simpl; [reflexivity|]. rewrite Ha, IH. reflexivity. Qed.

  Lemma run_filter : forall es A0 Af A0' out0,
    time_sorted es -> Rel Af A0 ->
    run_edges P0 es A0 = Ok (A0', out0) ->
    exists Af', run_edges Pf es Af = Ok (Af', filter rec_passes out0).
  Proof.
    induction es as [|e t IH]; intros A0 Af A0' out0 Hs R H; simpl in H.
    - inversion H; subst. simpl. eauto.
    - simpl p_times in H.
      destruct (get times (eparent e)) as [tm| | |] eqn:Et; simpl in H; try discriminate.
      destruct (step P0 e A0) as [[A1 r1]| | |] eqn:Es; simpl in H; try discriminate.
      destruct (run_edges P0 t A1) as [[A2 r2]| | |] eqn:Er; simpl in H; try discriminate.
      inversion H; subst; clear H.
      simpl. rewrite Et. simpl.
      destruct (too_old mt2 tm) eqn:Eo.
      + (* the filtered run stops here; nothing recorded from here on is young enough *)
        exists Af. f_equal. f_equal. symmetry. apply filter_none.
        assert (Hall : run_edges P0 (e :: t) A0 = Ok (A0', r1 ++ r2)).
        { simpl. rewrite Et. simpl. rewrite Es. simpl. rewrite Er. reflexivity. }
        apply run_nodes in Hall. eapply Forall_impl; [|exact Hall].
        intros r (e' & Hin & Hr). unfold rec_passes, timeok. rewrite Hr.
        destruct mt2 as [m|]; [|discriminate]. unfold too_old in Eo. apply Z.ltb_lt in Eo.
        destruct (get times (eparent e')) as [t'| | |] eqn:Et'; try (apply andb_false_r).
        assert (tm <= t').
        { destruct Hin as [<-|Hin]; [rewrite Et in Et'; inversion Et'; lia|].
          destruct Hs as [Hs _]. rewrite Forall_forall in Hs. exact (Hs e' Hin tm t' Et Et'). }
        replace (2 * t' <=? m) with false by (symmetry; apply Z.leb_gt; lia). apply andb_false_r.
      + destruct (step_filter e A0 Af A1 r1 R Es) as (Af1 & Esf & R1 & Hn).
        destruct Hs as [_ Hs].
        destruct (IH A1 Af1 A0' r2 Hs R1 Er) as (Af2 & Erf).
        exists Af2. rewrite Esf. simpl. rewrite Erf. simpl. rewrite filter_app. f_equal. f_equal. f_equal.
        apply filter_ext_Forall. eapply Forall_impl; [|exact Hn].
        intros r Hr. unfold rec_passes, timeok. rewrite Hr, Et.
        destruct mt2 as [m|]; [|rewrite andb_true_r; reflexivity].
        unfold too_old in Eo. apply Z.ltb_ge in Eo. replace (2 * tm <=? m) with true by (symmetry; apply Z.leb_le; lia).
        rewrite andb_true_r. reflexivity.
  Qed.
End Filter.

(* ---- (d) on the algorithm -------------------------------------------------------------- *)

Definition unfiltered (c : case) : case :=
  mkCase (cL c) (ctimes c) (cflags c) (cedges c) (cgroups c) 0 None.

Lemma Rel_refl ms2 A : Rel ms2 A A.
Proof. unfold Rel. induction A; constructor; auto. Qed.

Lemma alg_filter_commutes_lemma :
  forall (c : case) (out0 : list record),
    0 <= cminspan2 c ->
    match cmaxtime2 c with Some m => 0 <= m | None => True end ->
    time_sorted (ctimes c) (cedges c) ->
    ibd_records (unfiltered c) = Ok out0 ->
    ibd_records c = Ok (filter (rec_passes (cminspan2 c) (cmaxtime2 c) (ctimes c)) out0).
Proof.
  intros c out0 Hms Hmt Hs H. unfold ibd_records in *. simpl in H.
  replace (cminspan2 c <? 0) with false by (symmetry; apply Z.ltb_ge; lia).
  replace (neg_opt (cmaxtime2 c)) with false
    by (destruct (cmaxtime2 c); simpl; [symmetry; apply Z.ltb_ge; lia | reflexivity]).
  simpl.
  assert (Ei : init_ssid (unfiltered c) = init_ssid c) by reflexivity. rewrite Ei in H.
  destruct (init_ssid c) as [ssid| | |]; simpl in *; try discriminate.
  change (is_between (unfiltered c)) with (is_between c) in H.
  destruct (run_edges _ (cedges c) (init_amap (cL c) ssid)) as [[A0' o0]| | |] eqn:E in H; simpl in H; try discriminate.
  inversion H; subst; clear H.
  destruct (run_filter (cminspan2 c) Hms (cmaxtime2 c) (is_between c) ssid (ctimes c)
              (cedges c) _ (init_amap (cL c) ssid) A0' out0 Hs (Rel_refl _ _) E) as (Af' & Ef).
  unfold Pf in Ef. rewrite Ef. reflexivity.
Qed.

(* Non-vacuity and a concrete instance: the docs example with min_span = 2, max_time = 2.5. *)
Definition docs_case_alg (ms2 : Z) (mt2 : option Z) : case :=
  mkCase 10 [0; 0; 0; 1; 2; 3] [1; 1; 1; 0; 0; 0]
         [mkE 2 10 3 0; mkE 2 10 3 2; mkE 0 10 4 1; mkE 0 2 4 2; mkE 2 10 4 3; mkE 0 2 5 0; mkE 0 2 5 4]
         GDefault ms2 mt2.

Example docs_example_alg :
  ibd_records (docs_case_alg 0 None)
  = Ok [((0, 2), (2, 10, 3)); ((1, 2), (0, 2, 4)); ((1, 0), (2, 10, 4)); ((1, 2), (2, 10, 4));
        ((0, 1), (0, 2, 5)); ((0, 2), (0, 2, 5))]
  /\ ibd_records (docs_case_alg 4 (Some 5))
     = Ok [((0, 2), (2, 10, 3)); ((1, 0), (2, 10, 4)); ((1, 2), (2, 10, 4))].
Proof. vm_compute. split; reflexivity. Qed.

Example docs_example_time_sorted : time_sorted [0; 0; 0; 1; 2; 3] (cedges (docs_case_alg 0 None)).
Proof.
  simpl. repeat split; repeat constructor; intros t1 t2 H1 H2; vm_compute in H1, H2;
    inversion H1; inversion H2; subst; lia.
Qed.

(* C09 finding F3 seen from this model: a node id equal to num_nodes passes the guard
   `u > num_rows` of tsk_ibd_finder_init_samples_from_set and indexes sample_set_id out of
   bounds (the model's checked access reports it); an id above num_nodes is rejected. *)
Example f3_guard_oob :
  ibd_records (mkCase 2 [0; 1] [1; 0] [] (GWithin [0; 2]) 0 None) = OOB /\
  ibd_records (mkCase 2 [0; 1] [1; 0] [] (GWithin [0; 3]) 0 None) = Err ERR_NODE_OUT_OF_BOUNDS.
Proof. vm_compute. split; reflexivity. Qed.

(* ---- every record is a non-empty interval inside [0, L] between two different nodes -------- *)

Definition seg_in (L : Z) (s : seg) : Prop := 0 <= seg_left s /\ seg_right s <= L.
Definition rec_wf (L : Z) (r : record) : Prop :=
  0 <= seg_left (rec_seg r) < seg_right (rec_seg r) /\ seg_right (rec_seg r) <= L /\ rec_a r <> rec_b r.

Lemma get_Forall {A} (P : A -> Prop) l i a : Forall P l -> get l i = Ok a -> P a.
Proof.
  unfold get. destruct (i <? 0); [discriminate|]. intros F H.
  destruct (nth_error l (Z.to_nat i)) as [b|] eqn:E; [|discriminate]. inversion H; subst.
  rewrite Forall_forall in F. apply F. eapply nth_error_In; eauto.
Qed.

Lemma set_nat_Forall {A} (P : A -> Prop) l : forall n a l', Forall P l -> P a -> set_nat l n a = Some l' -> Forall P l'.
Proof.
  induction l as [|h t IH]; intros [|n] a l' F Pa H; simpl in H; try discriminate.
  - inversion H; subst. inversion F; subst. constructor; assumption.
  - destruct (set_nat t n a) as [t'|] eqn:E; [|discriminate]. inversion H; subst.
    inversion F as [|? ? Ph Ft]; subst. constructor; [exact Ph | exact (IH n a t' Ft Pa E)].
Qed.

Lemma set_Forall {A} (P : A -> Prop) l i a l' : Forall P l -> P a -> set l i a = Ok l' -> Forall P l'.
Proof.
  unfold set. destruct (i <? 0); [discriminate|]. intros F Pa H.
  destruct (set_nat l (Z.to_nat i) a) as [t|] eqn:E; [|discriminate]. inversion H; subst.
  eapply set_nat_Forall; eauto.
Qed.

Lemma queue_in L P e cs : Forall (seg_in L) cs -> Forall (seg_in L) (queue_of (p_ms2 P) e cs).
Proof.
  unfold queue_of. induction 1 as [|s t Hs Ht IH]; cbn [flat_map]; [constructor|].
  apply Forall_app. split; [|exact IH]. unfold enqueue.
  destruct (p_ms2 P <? _); constructor; [|constructor].
  unfold seg_in, seg_left, seg_right in *; cbn [fst snd]. lia.
Qed.

Lemma passes_true P a b l r : passes P a b l r = Ok true -> a <> b /\ (0 <= p_ms2 P -> l < r).
Proof.
  unfold passes. destruct (a =? b) eqn:E; [discriminate|]. apply Z.eqb_neq in E.
  destruct (2 * (r - l) <=? p_ms2 P) eqn:E2; [discriminate|]. apply Z.leb_gt in E2.
  intros _. split; [exact E | lia].
Qed.

Lemma record_ibd_wf L P parent q : 0 <= p_ms2 P -> Forall (seg_in L) q ->
  forall ps x, Forall (seg_in L) ps -> record_ibd P parent ps q = Ok x -> Forall (rec_wf L) x.
Proof.
  intros Hms Fq. induction ps as [|s0 t IH]; intros x Fp H; simpl in H.
  - inversion H; constructor.
  - destruct (record_inner P parent s0 q) as [x1| | |] eqn:E1; simpl in H; try discriminate.
    destruct (record_ibd P parent t q) as [x2| | |] eqn:E2; simpl in H; try discriminate.
    inversion H; subst; clear H. inversion Fp as [|? ? Hs0 Ft]; subst.
    apply Forall_app. split; [|apply IH; auto].
    clear IH E2. revert x1 E1. induction Fq as [|s1 q' Hs1 Fq' IHq]; intros x1 E1; simpl in E1.
    + inversion E1; constructor.
    + destruct (record_one P parent s0 s1) as [y1| | |] eqn:R1; simpl in E1; try discriminate.
      destruct (record_inner P parent s0 q') as [y2| | |] eqn:R2; simpl in E1; try discriminate.
      inversion E1; subst; clear E1. apply Forall_app. split; [|apply IHq; reflexivity].
      unfold record_one in R1.
      destruct (passes P (seg_node s0) (seg_node s1) _ _) as [bo| | |] eqn:Ep; simpl in R1; try discriminate.
      inversion R1; subst. destruct bo; [|constructor]. constructor; [|constructor].
      destruct (passes_true _ _ _ _ _ Ep) as [Hne Hlt]. specialize (Hlt Hms).
      destruct Hs0 as [H0a H0b]. destruct Hs1 as [H1a H1b].
      unfold seg_left, seg_right in H0a, H0b, H1a, H1b.
      unfold rec_wf, rec_seg, rec_a, rec_b, seg_left, seg_right; cbn [fst snd].
      repeat split; try lia; assumption.
Qed.

Lemma run_edges_wf L P : 0 <= p_ms2 P -> forall es A A' out,
  Forall (Forall (seg_in L)) A -> run_edges P es A = Ok (A', out) -> Forall (rec_wf L) out.
Proof.
  intros Hms. induction es as [|e t IH]; intros A A' out FA H; simpl in H.
  - inversion H; constructor.
  - destruct (get (p_times P) (eparent e)) as [tm| | |]; simpl in H; try discriminate.
    destruct (too_old (p_mt2 P) tm); [inversion H; constructor|].
    destruct (step P e A) as [[A1 r1]| | |] eqn:Es; simpl in H; try discriminate.
    destruct (run_edges P t A1) as [[A2 r2]| | |] eqn:Er; simpl in H; try discriminate.
    inversion H; subst; clear H. unfold step in Es.
    destruct (get A (echild e)) as [cs| | |] eqn:Ec; simpl in Es; try discriminate.
    destruct (get A (eparent e)) as [ps| | |] eqn:Ep; simpl in Es; try discriminate.
    destruct (record_ibd P (eparent e) ps _) as [r0| | |] eqn:Err; simpl in Es; try discriminate.
    destruct (set A (eparent e) _) as [As| | |] eqn:Eset; simpl in Es; try discriminate.
    inversion Es; subst; clear Es.
    pose proof (get_Forall _ _ _ _ FA Ec) as Fc. pose proof (get_Forall _ _ _ _ FA Ep) as Fp.
    pose proof (queue_in L P e cs Fc) as Fq.
    apply Forall_app. split.
    + exact (record_ibd_wf L P (eparent e) _ Hms Fq ps _ Fp Err).
    + eapply IH; [|exact Er]. eapply set_Forall; [exact FA | | exact Eset]. apply Forall_app. split; assumption.
Qed.

Lemma init_amap_in L ssid : 0 <= L -> Forall (Forall (seg_in L)) (init_amap L ssid).
Proof.
  intros HL. unfold init_amap. apply Forall_forall. intros l Hl. apply in_map_iff in Hl as ([u v] & <- & _).
  cbn [fst snd]. destruct (negb (v =? -1)); constructor; [|constructor].
  unfold seg_in, seg_left, seg_right; cbn [fst snd]. lia.
Qed.

Lemma records_wellformed_lemma :
  forall (c : case) (out : list record), 0 <= cL c -> ibd_records c = Ok out -> Forall (rec_wf (cL c)) out.
Proof.
  intros c out HL H. unfold ibd_records in H.
  destruct ((cminspan2 c <? 0) || neg_opt (cmaxtime2 c)) eqn:Eb; [discriminate|].
  apply orb_false_iff in Eb as [Eb _]. apply Z.ltb_ge in Eb.
  destruct (init_ssid c) as [ssid| | |]; simpl in H; try discriminate.
  destruct (run_edges _ (cedges c) (init_amap (cL c) ssid)) as [[A' o]| | |] eqn:E; simpl in H; try discriminate.
  inversion H; subst. eapply (run_edges_wf (cL c)); [|apply init_amap_in; exact HL | exact E]. exact Eb.
Qed.
