(* C19 — IBD segments: executable SPECIFICATION (definitions only).

   The specification is positional and is written from the property text and
   /repo/docs/ibd.md ("Definition"), not from the C algorithm:

     for a lattice position x and a pair (a, b) walk the edges that cover x upwards from a
     and from b; the MRCA is the first node on a's walk that also lies on b's walk (a node
     is an ancestor of itself); the label of x is (mrca, edge ids walked from a, edge ids
     walked from b).  The IBD segments of the pair are the maximal runs of consecutive
     positions with the same label, labelled with the MRCA, kept iff
        span > min_span   and   time(mrca) <= max_time.

   (time(mrca) <= max_time is what tsk_ibd_finder_run implements: `if (time > max_time)
   break`, /repo/c/tskit/tables.c:8992-8995.  The docstring of TreeSequence.ibd_segments says
   "more recent than the specified time"; the strict reading is refuted for model and code, see
   SpecProofs.max_time_strict_refuted and notes/C19.md.)

   Coordinates are integers on the lattice 0..L (the harness maps them to doubles through
   x -> x*scale with an exactly representable scale); times and the two thresholds are
   passed doubled (min_span2 = 2*min_span/scale, max_time2 = 2*max_time) so that thresholds
   half-way between lattice values are expressible.  Only order is observed by the code.

   The file also contains the model of the result container (tsk_identity_segments_t,
   tables.c:8312-8626): totals, the pair-keyed map (AVL tree modelled as a key-sorted
   association list) and per-pair summaries, under the store_pairs/store_segments options. *)
From Coq Require Import List ZArith Bool Lia.
From TskVerif Require Import Base.Common.
Import ListNotations.
Open Scope Z_scope.

(* ------------------------------------------------------------------------------------ *)
(* inputs                                                                                *)
(* ------------------------------------------------------------------------------------ *)

Record edge := mkE { eleft : Z; eright : Z; eparent : Z; echild : Z }.

Inductive groups :=
| GDefault                              (* all nodes flagged as samples *)
| GWithin (w : list Z)
| GBetween (sets : list (list Z)).

Record case := mkCase {
  cL : Z;
  ctimes : list Z;                      (* node times *)
  cflags : list Z;                      (* 1 = TSK_NODE_IS_SAMPLE *)
  cedges : list edge;                   (* in edge-table order (sorted: parent time, parent, child, left) *)
  cgroups : groups;
  cminspan2 : Z;                        (* 2 * min_span (lattice units) *)
  cmaxtime2 : option Z                  (* 2 * max_time; None = +infinity / default *)
}.

Definition seg := (Z * Z * Z)%type.     (* left, right, node *)
Definition seg_left (s : seg) : Z := fst (fst s).
Definition seg_right (s : seg) : Z := snd (fst s).
Definition seg_node (s : seg) : Z := snd s.
Definition seg_span (s : seg) : Z := seg_right s - seg_left s.

Definition num_nodes (c : case) : Z := zlen (ctimes c).

(* ------------------------------------------------------------------------------------ *)
(* walking upwards at one position                                                       *)
(* ------------------------------------------------------------------------------------ *)

Definition covers (e : edge) (x : Z) : bool := (eleft e <=? x) && (x <? eright e).

(* first edge (index, row) above node u at position x *)
Fixpoint edge_above_from (i : nat) (es : list edge) (x u : Z) : option (nat * edge) :=
  match es with
  | [] => None
  | e :: t => if covers e x && (echild e =? u) then Some (i, e) else edge_above_from (S i) t x u
  end.
Definition edge_above (es : list edge) (x u : Z) : option (nat * edge) := edge_above_from 0 es x u.

(* [(edge id used, node reached)] from u up to its root; None = fuel exhausted (a cycle) *)
Fixpoint ups (fuel : nat) (es : list edge) (x u : Z) : option (list (nat * Z)) :=
  match fuel with
  | O => None
  | S f =>
      match edge_above es x u with
      | None => Some []
      | Some (i, e) =>
          match ups f es x (eparent e) with
          | Some l => Some ((i, eparent e) :: l)
          | None => None
          end
      end
  end.

Fixpoint index_of (u : Z) (l : list Z) : option nat :=
  match l with
  | [] => None
  | v :: t => if v =? u then Some O else match index_of u t with Some k => Some (S k) | None => None end
  end.

(* first element of la (position i) that occurs in lb (first position j) *)
Fixpoint first_common (la lb : list Z) (i : nat) : option (nat * nat * Z) :=
  match la with
  | [] => None
  | u :: t => match index_of u lb with
              | Some j => Some (i, j, u)
              | None => first_common t lb (S i)
              end
  end.

Definition label := (Z * list nat * list nat)%type.     (* mrca, chain from a, chain from b *)

Definition label_of_walks (a b : Z) (ua ub : list (nat * Z)) : option label :=
  match first_common (a :: map snd ua) (b :: map snd ub) 0 with
  | Some (i, j, m) => Some (m, map fst (firstn i ua), map fst (firstn j ub))
  | None => None
  end.

Definition label_at (fuel : nat) (es : list edge) (x a b : Z) : res (option label) :=
  match ups fuel es x a, ups fuel es x b with
  | Some ua, Some ub => Ok (label_of_walks a b ua ub)
  | _, _ => Fuel
  end.

Fixpoint nat_list_eqb (a b : list nat) : bool :=
  match a, b with
  | [], [] => true
  | x :: a', y :: b' => Nat.eqb x y && nat_list_eqb a' b'
  | _, _ => false
  end.

Definition label_eqb (p q : label) : bool :=
  let '(m, ca, cb) := p in let '(m', ca', cb') := q in
  (m =? m') && nat_list_eqb ca ca' && nat_list_eqb cb cb'.

(* ------------------------------------------------------------------------------------ *)
(* maximal runs (generic)                                                                *)
(* ------------------------------------------------------------------------------------ *)

Section Runs.
  Context {A : Type}.
  Variable eqb : A -> A -> bool.

  (* [cur] = the run currently open (its start and label); [pos] = position of the head of l *)
  Fixpoint runs_from (cur : option (Z * A)) (pos : Z) (l : list (option A)) : list (Z * Z * A) :=
    match l with
    | [] => match cur with Some (st, a) => [(st, pos, a)] | None => [] end
    | o :: t =>
        match cur, o with
        | None, None => runs_from None (pos + 1) t
        | None, Some b => runs_from (Some (pos, b)) (pos + 1) t
        | Some (st, a), None => (st, pos, a) :: runs_from None (pos + 1) t
        | Some (st, a), Some b =>
            if eqb a b then runs_from (Some (st, a)) (pos + 1) t
            else (st, pos, a) :: runs_from (Some (pos, b)) (pos + 1) t
        end
    end.

  Definition runs (start : Z) (l : list (option A)) : list (Z * Z * A) := runs_from None start l.
End Runs.

(* ------------------------------------------------------------------------------------ *)
(* the specification                                                                     *)
(* ------------------------------------------------------------------------------------ *)

Fixpoint zrange (s : Z) (n : nat) : list Z :=
  match n with O => [] | S k => s :: zrange (s + 1) k end.

Fixpoint sequence {A} (l : list (res A)) : res (list A) :=
  match l with
  | [] => Ok []
  | r :: t => do a <- r; do t' <- sequence t; Ok (a :: t')
  end.

Definition spec_fuel (c : case) : nat := S (length (ctimes c)).

Definition labels (c : case) (a b : Z) : res (list (option label)) :=
  sequence (map (fun x => label_at (spec_fuel c) (cedges c) x a b) (zrange 0 (Z.to_nat (cL c)))).

Definition seg_of_run (r : Z * Z * label) : seg :=
  let '(l, rr, (m, _, _)) := r in (l, rr, m).

(* unfiltered segments of one pair, left to right *)
Definition pair_segments (c : case) (a b : Z) : res (list seg) :=
  do ls <- labels c a b; Ok (map seg_of_run (runs label_eqb 0 ls)).

Definition span_passes (ms2 : Z) (s : seg) : bool := ms2 <? 2 * seg_span s.

Definition time_passes (times : list Z) (mt2 : option Z) (s : seg) : res bool :=
  match mt2 with
  | None => Ok true
  | Some m => do t <- get times (seg_node s); Ok (2 * t <=? m)
  end.

Fixpoint filter_res {A} (f : A -> res bool) (l : list A) : res (list A) :=
  match l with
  | [] => Ok []
  | a :: t => do b <- f a; do t' <- filter_res f t; Ok (if b then a :: t' else t')
  end.

Definition seg_passes (c : case) (s : seg) : res bool :=
  do t <- time_passes (ctimes c) (cmaxtime2 c) s; Ok (span_passes (cminspan2 c) s && t).

Definition pair_segments_filtered (c : case) (a b : Z) : res (list seg) :=
  do ss <- pair_segments c a b; filter_res (seg_passes c) ss.

(* requested pairs (a < b), in increasing (a, b) order = key order of the result map *)
Definition memz (u : Z) (l : list Z) : bool := existsb (Z.eqb u) l.

Fixpoint set_index_from (k : Z) (sets : list (list Z)) (u : Z) : option Z :=
  match sets with
  | [] => None
  | s :: t => if memz u s then Some k else set_index_from (k + 1) t u
  end.

(* sample-set id of a node: None = not requested *)
Definition group_of (c : case) (u : Z) : option Z :=
  match cgroups c with
  | GDefault => match get (cflags c) u with Ok f => if Z.odd f then Some 0 else None | _ => None end
  | GWithin w => if memz u w then Some 0 else None
  | GBetween sets => set_index_from 0 sets u
  end.

Definition is_between (c : case) : bool := match cgroups c with GBetween _ => true | _ => false end.

Definition pair_requested (c : case) (a b : Z) : bool :=
  match group_of c a, group_of c b with
  | Some i, Some j => if is_between c then negb (i =? j) else true
  | _, _ => false
  end.

Definition requested_pairs (c : case) : list (Z * Z) :=
  let ns := zrange 0 (length (ctimes c)) in
  flat_map (fun a => flat_map (fun b => if (a <? b) && pair_requested c a b then [(a, b)] else []) ns) ns.

Definition result := list ((Z * Z) * list seg).

Fixpoint ibd_over (c : case) (ps : list (Z * Z)) : res result :=
  match ps with
  | [] => Ok []
  | (a, b) :: t =>
      do ss <- pair_segments_filtered c a b;
      do r <- ibd_over c t;
      Ok (match ss with [] => r | _ => ((a, b), ss) :: r end)
  end.

(* THE SPECIFICATION: pairs in increasing order, segments left to right, empty pairs omitted *)
Definition ibd_spec (c : case) : res result := ibd_over c (requested_pairs c).

(* aggregates of a result *)
Definition sumz (l : list Z) : Z := fold_right Z.add 0 l.
Definition res_num_segments (r : result) : Z := sumz (map (fun p => zlen (snd p)) r).
Definition res_total_span (r : result) : Z := sumz (map (fun p => sumz (map seg_span (snd p))) r).
Definition res_num_pairs (r : result) : Z := zlen r.

(* ------------------------------------------------------------------------------------ *)
(* result container: tsk_identity_segments_t                                             *)
(* ------------------------------------------------------------------------------------ *)

(* pair_to_integer (tables.c:8312-8322) and integer_to_pair (8324-8329) *)
Definition pair_to_integer (a b N : Z) : Z := if b <? a then b * N + a else a * N + b.
Definition integer_to_pair (k N : Z) : Z * Z := (k / N, k mod N).

(* tsk_identity_segment_list_t: num_segments, total_span, head..tail *)
Record plist := mkPL { pl_n : Z; pl_span : Z; pl_segs : list seg }.

Record store := mkStore {
  st_pairs : bool;                      (* store_pairs (implied by store_segments, tables.c:8399-8405) *)
  st_segs : bool;                       (* store_segments *)
  st_N : Z;                             (* num_nodes *)
  st_n : Z;                             (* num_segments *)
  st_span : Z;                          (* total_span *)
  st_map : list (Z * plist)             (* pair_map, in key order (in-order traversal of the AVL tree) *)
}.

(* tsk_identity_segments_init (8387-8417) *)
Definition store_init (N : Z) (store_pairs store_segments : bool) : store :=
  mkStore (store_pairs || store_segments) store_segments N 0 0 [].

(* tsk_identity_segments_update_pair (8544-8583): search, insert a zeroed list if absent,
   bump the summaries, append the segment at the tail when segments are stored *)
Definition pl_add (keep : bool) (s : seg) (p : plist) : plist :=
  mkPL (pl_n p + 1) (pl_span p + seg_span s) (if keep then pl_segs p ++ [s] else pl_segs p).

Fixpoint map_update (keep : bool) (key : Z) (s : seg) (m : list (Z * plist)) : list (Z * plist) :=
  match m with
  | [] => [(key, pl_add keep s (mkPL 0 0 []))]
  | (k, p) :: t =>
      if key <? k then (key, pl_add keep s (mkPL 0 0 [])) :: m
      else if key =? k then (k, pl_add keep s p) :: t
      else (k, p) :: map_update keep key s t
  end.

(* one recorded IBD segment: the pair and the segment *)
Definition record := (Z * Z * seg)%type.
Definition rec_a (r : record) : Z := fst (fst r).
Definition rec_b (r : record) : Z := snd (fst r).
Definition rec_seg (r : record) : seg := snd r.

(* tsk_identity_segments_add_segment (8585-8601) *)
Definition add_segment (st : store) (r : record) : store :=
  let m := if st_pairs st
           then map_update (st_segs st) (pair_to_integer (rec_a r) (rec_b r) (st_N st)) (rec_seg r) (st_map st)
           else st_map st in
  mkStore (st_pairs st) (st_segs st) (st_N st) (st_n st + 1) (st_span st + seg_span (rec_seg r)) m.

Definition add_all (st : store) (rs : list record) : store := fold_left add_segment rs st.

(* accessors: get_num_segments / get_total_span / get_num_pairs (8459-8475), get_keys (8496-8505),
   get (8603-8626; key error classes are not modelled) *)
Definition store_num_pairs (st : store) : Z := zlen (st_map st).
Definition store_keys (st : store) : list (Z * Z) := map (fun kp => integer_to_pair (fst kp) (st_N st)) (st_map st).

Fixpoint map_find (key : Z) (m : list (Z * plist)) : option plist :=
  match m with
  | [] => None
  | (k, p) :: t => if key =? k then Some p else map_find key t
  end.
Definition store_get (st : store) (a b : Z) : option plist :=
  map_find (pair_to_integer a b (st_N st)) (st_map st).

(* ------------------------------------------------------------------------------------ *)
(* validity of the edge table at a position (decidable form of the hypotheses of
   Props.C19.ibd_alg_refines_spec_partial; consequences of TSK_CHECK_EDGE_ORDERING /
   TSK_CHECK_TREES on a valid tree sequence)                                              *)
(* ------------------------------------------------------------------------------------ *)

Definition time_of (times : list Z) (u : Z) : Z := match get times u with Ok t => t | _ => 0 end.

Fixpoint sortedb (times : list Z) (es : list edge) : bool :=
  match es with
  | [] => true
  | e :: t => forallb (fun e' => time_of times (eparent e) <=? time_of times (eparent e')) t && sortedb times t
  end.

Fixpoint uniqb (x : Z) (es : list edge) : bool :=
  match es with
  | [] => true
  | e :: t => forallb (fun e' => negb (covers e x && covers e' x && (echild e =? echild e'))) t && uniqb x t
  end.

Definition valid_atb (times : list Z) (es : list edge) (x : Z) : bool :=
  sortedb times es && forallb (fun e => time_of times (echild e) <? time_of times (eparent e)) es && uniqb x es.

(* the checkable validity predicate of Props.C19.ibd_alg_refines_spec: what
   tsk_table_collection_check_integrity (TSK_CHECK_TREES) guarantees for the columns the IBD finder
   reads, plus well-formed arguments (ids in range, no node twice, non-negative thresholds) *)
Definition in_range (N u : Z) : bool := (0 <=? u) && (u <? N).

Definition edge_wf (N L : Z) (e : edge) : bool :=
  in_range N (eparent e) && in_range N (echild e) && (0 <=? eleft e) && (eleft e <? eright e) && (eright e <=? L).

Fixpoint nodupb (l : list Z) : bool :=
  match l with [] => true | h :: t => negb (memz h t) && nodupb t end.

Definition groups_wf (c : case) : bool :=
  let N := num_nodes c in
  match cgroups c with
  | GDefault => true
  | GWithin w => forallb (in_range N) w && nodupb w
  | GBetween sets => forallb (in_range N) (concat sets) && nodupb (concat sets)
  end.

Definition case_valid (c : case) : bool :=
  (0 <=? cL c) && (length (cflags c) =? length (ctimes c))%nat
  && forallb (edge_wf (num_nodes c) (cL c)) (cedges c)
  && forallb (valid_atb (ctimes c) (cedges c)) (zrange 0 (Z.to_nat (cL c)))
  && sortedb (ctimes c) (cedges c)
  && forallb (fun e => time_of (ctimes c) (echild e) <? time_of (ctimes c) (eparent e)) (cedges c)
  && groups_wf c
  && (0 <=? cminspan2 c) && match cmaxtime2 c with Some m => 0 <=? m | None => true end.

Definition c19_check_valid (c : case) : bool := case_valid c.

(* What tskit CHECKS on entry since fix e0eff6d: tsk_table_collection_check_integrity(self, 0)
   (tables.c 10609-10678 for the edge table with options = 0): ids in range, finite coordinates with
   0 <= left < right <= L, time[child] < time[parent].  [integrity0] is that check on the columns the
   IBD finder reads (plus equal column lengths, which the table structure guarantees). *)
Definition integrity0 (c : case) : bool :=
  (0 <=? cL c) && (length (cflags c) =? length (ctimes c))%nat
  && forallb (edge_wf (num_nodes c) (cL c)) (cedges c)
  && forallb (fun e => time_of (ctimes c) (echild e) <? time_of (ctimes c) (eparent e)) (cedges c).

(* What is NOT checked with options = 0 and is ASSUMED by the refinement theorem: edges sorted by parent
   time (TSK_CHECK_EDGE_ORDERING) and at most one parent per node and position (TSK_CHECK_TREES). *)
Definition sorted_and_tree (c : case) : bool :=
  sortedb (ctimes c) (cedges c) && forallb (valid_atb (ctimes c) (cedges c)) (zrange 0 (Z.to_nat (cL c))).

(* Argument checks of tsk_ibd_finder_init / init_within / init_between (ids in range, no duplicates,
   non-negative thresholds) *)
Definition args_ok (c : case) : bool :=
  groups_wf c && (0 <=? cminspan2 c) && match cmaxtime2 c with Some m => 0 <=? m | None => true end.

(* ------------------------------------------------------------------------------------ *)
(* Python facade: tskit.IdentitySegments / IdentitySegmentList (python/tskit/tables.py
   2556-2750) over the low-level classes of _tskitmodule.c (IdentitySegments_get, _get_keys,
   _get_num_pairs, IdentitySegmentList_get_... getters), as functions of the container model          *)
(* ------------------------------------------------------------------------------------ *)

Inductive pyres (A : Type) : Type :=
| PyOk (a : A)
| PyKeyError                      (* "Sample pair not found" *)
| PyNodeOutOfBounds               (* LibraryError: TSK_ERR_NODE_OUT_OF_BOUNDS *)
| PySameNodes                     (* LibraryError: TSK_ERR_SAME_NODES_IN_PAIR *)
| PyPairsNotStored                (* IdentityPairsNotStoredError *)
| PySegmentsNotStored.            (* IdentitySegmentsNotStoredError *)
Arguments PyOk {A} a.
Arguments PyKeyError {A}.
Arguments PyNodeOutOfBounds {A}.
Arguments PySameNodes {A}.
Arguments PyPairsNotStored {A}.
Arguments PySegmentsNotStored {A}.

(* IdentitySegments.num_segments / total_span: always available *)
Definition py_num_segments (st : store) : Z := st_n st.
Definition py_total_span (st : store) : Z := st_span st.

(* IdentitySegments.num_pairs, __len__ *)
Definition py_num_pairs (st : store) : pyres Z :=
  if st_pairs st then PyOk (store_num_pairs st) else PyPairsNotStored.

(* IdentitySegments.pairs, __iter__ (tsk_identity_segments_get_keys) *)
Definition py_pairs (st : store) : pyres (list (Z * Z)) :=
  if st_pairs st then PyOk (store_keys st) else PyPairsNotStored.

(* IdentitySegments.__getitem__((a, b)): tsk_identity_segments_get_key (8331-8349) then
   tsk_identity_segments_get (8603-8626), then KeyError when the list is NULL *)
Definition py_getitem (st : store) (a b : Z) : pyres plist :=
  let N := st_N st in
  if (a <? 0) || (b <? 0) || (N <=? a) || (N <=? b) then PyNodeOutOfBounds else
  if a =? b then PySameNodes else
  if negb (st_pairs st) then PyPairsNotStored else
  match store_get st a b with Some p => PyOk p | None => PyKeyError end.

(* IdentitySegmentList: len, total_span always; left/right/node arrays and iteration only with
   store_segments *)
Definition py_list_len (p : plist) : Z := pl_n p.
Definition py_list_total_span (p : plist) : Z := pl_span p.
Definition py_list_segments (st : store) (p : plist) : pyres (list seg) :=
  if st_segs st then PyOk (pl_segs p) else PySegmentsNotStored.

(* ------------------------------------------------------------------------------------ *)
(* comparison helpers for the per-run correspondence                                     *)
(* ------------------------------------------------------------------------------------ *)

Definition seg_eqb (s t : seg) : bool :=
  (seg_left s =? seg_left t) && (seg_right s =? seg_right t) && (seg_node s =? seg_node t).
Definition seg_leb (s t : seg) : bool :=
  if seg_left s <? seg_left t then true else if seg_left t <? seg_left s then false else
  if seg_right s <? seg_right t then true else if seg_right t <? seg_right s then false else
  seg_node s <=? seg_node t.

Fixpoint seg_insert (s : seg) (l : list seg) : list seg :=
  match l with
  | [] => [s]
  | t :: r => if seg_leb s t then s :: l else t :: seg_insert s r
  end.
Definition seg_sort (l : list seg) : list seg := fold_right seg_insert [] l.

Definition pair_eqb (p q : Z * Z) : bool := (fst p =? fst q) && (snd p =? snd q).

Definition result_eqb (r1 r2 : result) : bool :=
  list_eqb (fun x y => pair_eqb (fst x) (fst y) && list_eqb seg_eqb (snd x) (snd y)) r1 r2.

(* spec = C: same pairs in the same (key) order; per pair the same segments as sets
   (C's emission order is arbitrary by the documentation; the spec lists left to right) *)
Definition c19_check_spec (c : case) (stored : result) : bool :=
  match ibd_spec c with
  | Ok r => result_eqb r (map (fun p => (fst p, seg_sort (snd p))) stored)
  | _ => false
  end.
