(* C19 — the result container (Model.store = tsk_identity_segments_t): every summary equals
   the corresponding aggregate of the recorded / stored segments, for every store option and
   every sequence of recorded segments. *)
From Coq Require Import List ZArith Bool Lia.
From TskVerif Require Import Base.Common C19.Model.
Import ListNotations.
Open Scope Z_scope.

Lemma pair_to_integer_sym a b N : pair_to_integer a b N = pair_to_integer b a N.
Proof.
  unfold pair_to_integer. destruct (b <? a) eqn:E1, (a <? b) eqn:E2; try reflexivity.
  - apply Z.ltb_lt in E1. apply Z.ltb_lt in E2. lia.
  - apply Z.ltb_ge in E1. apply Z.ltb_ge in E2. assert (a = b) by lia. subst. reflexivity.
Qed.

(* integer_to_pair inverts pair_to_integer on in-range nodes: the key identifies the unordered pair *)
Lemma integer_to_pair_key a b N :
  0 <= a < N -> 0 <= b < N ->
  integer_to_pair (pair_to_integer a b N) N = (Z.min a b, Z.max a b).
Proof.
  intros Ha Hb. unfold integer_to_pair, pair_to_integer.
  destruct (b <? a) eqn:E.
  - apply Z.ltb_lt in E. rewrite Z.min_r, Z.max_l by lia.
    rewrite <- (Z.div_unique (b * N + a) N b a) by lia.
    rewrite <- (Z.mod_unique (b * N + a) N b a) by lia. reflexivity.
  - apply Z.ltb_ge in E. rewrite Z.min_l, Z.max_r by lia.
    rewrite <- (Z.div_unique (a * N + b) N a b) by lia.
    rewrite <- (Z.mod_unique (a * N + b) N a b) by lia. reflexivity.
Qed.

Lemma pair_key_injective a b a' b' N :
  0 <= a < N -> 0 <= b < N -> 0 <= a' < N -> 0 <= b' < N ->
  pair_to_integer a b N = pair_to_integer a' b' N ->
  (a = a' /\ b = b') \/ (a = b' /\ b = a').
Proof.
  intros Ha Hb Ha' Hb' E.
  pose proof (integer_to_pair_key a b N Ha Hb) as K1.
  pose proof (integer_to_pair_key a' b' N Ha' Hb') as K2.
  rewrite E in K1. rewrite K1 in K2. inversion K2. lia.
Qed.

(* ---- sums over the pair map --------------------------------------------------------- *)

Definition map_sum_n (m : list (Z * plist)) : Z := sumz (map (fun kp => pl_n (snd kp)) m).
Definition map_sum_span (m : list (Z * plist)) : Z := sumz (map (fun kp => pl_span (snd kp)) m).
Definition seg_spans (l : list seg) : Z := sumz (map seg_span l).

Lemma map_update_sums keep key s m :
  map_sum_n (map_update keep key s m) = map_sum_n m + 1 /\
  map_sum_span (map_update keep key s m) = map_sum_span m + seg_span s.
Proof.
  unfold map_sum_n, map_sum_span, sumz.
  induction m as [|[k p] t IH]; cbn [map_update].
  - cbn [map fold_right snd pl_n pl_span pl_add]. split; lia.
  - destruct IH as [IH1 IH2].
    destruct (key <? k); [|destruct (key =? k)];
      cbn [map fold_right snd pl_n pl_span pl_add]; split; lia.
Qed.

(* strictly increasing keys: the in-order traversal of a search tree without duplicates *)
Fixpoint keys_sorted_from (lo : Z) (m : list (Z * plist)) : Prop :=
  match m with
  | [] => True
  | (k, _) :: t => lo < k /\ keys_sorted_from k t
  end.
Definition keys_sorted (m : list (Z * plist)) : Prop :=
  match m with [] => True | (k, _) :: t => keys_sorted_from k t end.

Lemma keys_sorted_from_weaken lo lo' m : keys_sorted_from lo m -> lo' <= lo -> keys_sorted_from lo' m.
Proof. destruct m as [|[k p] t]; simpl; [tauto|]. intros [H1 H2] H; split; [lia|assumption]. Qed.

Lemma map_update_sorted_from keep key s lo m :
  lo < key -> keys_sorted_from lo m -> keys_sorted_from lo (map_update keep key s m).
Proof.
  revert lo; induction m as [|[k p] t IH]; intros lo Hlo Hs; simpl.
  - split; [assumption|exact I].
  - destruct Hs as [H1 H2]. destruct (key <? k) eqn:E1; [|destruct (key =? k) eqn:E2].
    + apply Z.ltb_lt in E1. simpl. repeat split; assumption.
    + simpl. split; assumption.
    + apply Z.ltb_ge in E1. apply Z.eqb_neq in E2. simpl. split; [assumption|].
      apply IH; [lia|assumption].
Qed.

Lemma keys_sorted_iff m : keys_sorted m <-> exists lo, keys_sorted_from lo m.
Proof.
  destruct m as [|[k p] t]; simpl.
  - split; [exists 0; exact I | tauto].
  - split.
    + intros H. exists (k - 1). split; [lia|assumption].
    + intros [lo [_ H]]. exact H.
Qed.

Lemma map_update_sorted keep key s m : keys_sorted m -> keys_sorted (map_update keep key s m).
Proof.
  intros H. apply keys_sorted_iff in H as [lo H]. apply keys_sorted_iff.
  exists (Z.min lo key - 1). apply map_update_sorted_from; [lia|].
  apply keys_sorted_from_weaken with (lo := lo); [assumption | lia].
Qed.

(* ---- lookups ------------------------------------------------------------------------ *)

Definition pl_or_empty (o : option plist) : plist := match o with Some p => p | None => mkPL 0 0 [] end.

(* (needs sortedness: otherwise a later duplicate key could be shadowed) *)
Lemma map_find_below lo m key : keys_sorted_from lo m -> key <= lo -> map_find key m = None.
Proof.
  revert lo; induction m as [|[k p] t IH]; intros lo Hs Hk; simpl; [reflexivity|].
  destruct Hs as [H1 H2]. replace (key =? k) with false by (symmetry; apply Z.eqb_neq; lia).
  apply (IH k); [assumption | lia].
Qed.

Lemma map_find_update keep key s m k' lo :
  keys_sorted_from lo m ->
  map_find k' (map_update keep key s m) =
  if k' =? key then Some (pl_add keep s (pl_or_empty (map_find key m))) else map_find k' m.
Proof.
  revert lo; induction m as [|[k p] t IH]; intros lo Hs; simpl.
  - destruct (k' =? key); reflexivity.
  - destruct Hs as [H1 H2].
    destruct (key <? k) eqn:E1; [|destruct (key =? k) eqn:E2]; simpl.
    + apply Z.ltb_lt in E1. replace (key =? k) with false by (symmetry; apply Z.eqb_neq; lia).
      rewrite (map_find_below k t key H2) by lia. simpl.
      destruct (k' =? key) eqn:E3; reflexivity.
    + apply Z.eqb_eq in E2. subst k.
      destruct (k' =? key) eqn:E3; reflexivity.
    + apply Z.ltb_ge in E1. apply Z.eqb_neq in E2.
      rewrite (IH k H2).
      destruct (k' =? key) eqn:E3.
      * apply Z.eqb_eq in E3. subst k'.
        replace (key =? k) with false by (symmetry; apply Z.eqb_neq; lia). reflexivity.
      * reflexivity.
Qed.

(* ---- per-list invariants ------------------------------------------------------------ *)

Definition pl_consistent (keep : bool) (p : plist) : Prop :=
  1 <= pl_n p /\
  if keep then pl_n p = zlen (pl_segs p) /\ pl_span p = seg_spans (pl_segs p)
  else pl_segs p = [].

Lemma seg_spans_app l s : seg_spans (l ++ [s]) = seg_spans l + seg_span s.
Proof. unfold seg_spans. induction l as [|x l IH]; simpl; lia. Qed.

Lemma zlen_app1 {A} (l : list A) (a : A) : zlen (l ++ [a]) = zlen l + 1.
Proof. unfold zlen. rewrite app_length. simpl. lia. Qed.

Lemma pl_add_consistent keep s p :
  (pl_consistent keep p \/ p = mkPL 0 0 []) -> pl_consistent keep (pl_add keep s p).
Proof.
  unfold pl_consistent, pl_add. intros [[H1 H2] | ->]; simpl; destruct keep; simpl.
  - destruct H2 as [H2 H3]. rewrite zlen_app1, seg_spans_app. lia.
  - split; [lia | assumption].
  - unfold zlen, seg_spans; simpl. lia.
  - split; [lia | reflexivity].
Qed.

Lemma map_update_consistent keep key s m :
  Forall (fun kp => pl_consistent keep (snd kp)) m ->
  Forall (fun kp => pl_consistent keep (snd kp)) (map_update keep key s m).
Proof.
  induction m as [|[k p] t IH]; intros H; simpl.
  - constructor; [|constructor]. simpl. apply pl_add_consistent. right; reflexivity.
  - inversion H as [|? ? Hp Ht]; subst.
    destruct (key <? k); [|destruct (key =? k)].
    + constructor; [|assumption]. simpl. apply pl_add_consistent. right; reflexivity.
    + constructor; [|assumption]. simpl. apply pl_add_consistent. left; exact Hp.
    + constructor; [assumption | apply IH; assumption].
Qed.

(* ---- what a pair's list contains: exactly the records of that pair, in order --------- *)

Definition rec_key (N : Z) (r : record) : Z := pair_to_integer (rec_a r) (rec_b r) N.
Definition recs_of (N key : Z) (rs : list record) : list seg :=
  map rec_seg (filter (fun r => rec_key N r =? key) rs).

Definition pl_of (keep : bool) (segs : list seg) : option plist :=
  match segs with
  | [] => None
  | _ => Some (mkPL (zlen segs) (seg_spans segs) (if keep then segs else []))
  end.

(* the state invariant of the container while records are being added *)
Record store_inv (st : store) (rs : list record) : Prop := {
  inv_n : st_n st = zlen rs;
  inv_span : st_span st = sumz (map (fun r => seg_span (rec_seg r)) rs);
  inv_nopairs : st_pairs st = false -> st_map st = [];
  inv_sorted : keys_sorted (st_map st);
  inv_sum_n : st_pairs st = true -> st_n st = map_sum_n (st_map st);
  inv_sum_span : st_pairs st = true -> st_span st = map_sum_span (st_map st);
  inv_cons : Forall (fun kp => pl_consistent (st_segs st) (snd kp)) (st_map st);
  inv_find : st_pairs st = true ->
             forall key, map_find key (st_map st) = pl_of (st_segs st) (recs_of (st_N st) key rs)
}.

Lemma sumz_app l1 l2 : sumz (l1 ++ l2) = sumz l1 + sumz l2.
Proof. unfold sumz. induction l1; simpl; lia. Qed.

Lemma pl_of_snoc keep segs s :
  pl_of keep (segs ++ [s]) = Some (pl_add keep s (pl_or_empty (pl_of keep segs))).
Proof.
  unfold pl_of, pl_add. destruct segs as [|x t]; simpl.
  - unfold zlen, seg_spans; simpl. destruct keep; f_equal; f_equal; lia.
  - change (x :: t ++ [s]) with ((x :: t) ++ [s]).
    rewrite zlen_app1, seg_spans_app. destruct keep; reflexivity.
Qed.

Lemma store_inv_step st rs r : store_inv st rs -> store_inv (add_segment st r) (rs ++ [r]).
Proof.
  intros I. destruct I as [In Is Inp Iso Isn Iss Ic If].
  unfold add_segment.
  constructor; simpl.
  - rewrite zlen_app1. lia.
  - rewrite map_app, sumz_app. simpl. lia.
  - intros E. rewrite E. apply Inp; assumption.
  - destruct (st_pairs st); [apply map_update_sorted|]; assumption.
  - intros E. rewrite E. destruct (map_update_sums (st_segs st) (pair_to_integer (rec_a r) (rec_b r) (st_N st)) (rec_seg r) (st_map st)) as [H1 _].
    rewrite H1. rewrite Isn by assumption. reflexivity.
  - intros E. rewrite E. destruct (map_update_sums (st_segs st) (pair_to_integer (rec_a r) (rec_b r) (st_N st)) (rec_seg r) (st_map st)) as [_ H2].
    rewrite H2. rewrite Iss by assumption. reflexivity.
  - destruct (st_pairs st); [apply map_update_consistent|]; assumption.
  - intros E key. rewrite E.
    apply keys_sorted_iff in Iso as [lo Iso].
    rewrite (map_find_update _ _ _ _ _ lo Iso).
    unfold recs_of. rewrite filter_app, map_app. simpl.
    fold (rec_key (st_N st) r).
    destruct (key =? rec_key (st_N st) r) eqn:E2.
    + apply Z.eqb_eq in E2. subst key. rewrite Z.eqb_refl. simpl.
      rewrite pl_of_snoc. rewrite (If E). reflexivity.
    + rewrite Z.eqb_sym in E2. rewrite E2. simpl. rewrite app_nil_r. apply If; assumption.
Qed.

Lemma store_inv_init N sp ss : store_inv (store_init N sp ss) [].
Proof.
  unfold store_init. constructor; simpl; try reflexivity; try (intros; reflexivity);
    try exact I; try constructor.
Qed.

Lemma store_inv_add_all rs : forall st done, store_inv st done -> store_inv (add_all st rs) (done ++ rs).
Proof.
  unfold add_all. induction rs as [|r t IH]; intros st done I; simpl.
  - rewrite app_nil_r. exact I.
  - replace (done ++ r :: t) with ((done ++ [r]) ++ t) by (rewrite <- app_assoc; reflexivity).
    apply IH. apply store_inv_step. exact I.
Qed.

Lemma add_all_fields rs : forall st,
  st_pairs (add_all st rs) = st_pairs st /\ st_segs (add_all st rs) = st_segs st /\ st_N (add_all st rs) = st_N st.
Proof.
  unfold add_all. induction rs as [|r t IH]; intros st; simpl; [repeat split; reflexivity|].
  destruct (IH (add_segment st r)) as (H1 & H2 & H3). rewrite H1, H2, H3. repeat split; reflexivity.
Qed.

(* (c) aggregates are consistent for every store option and every sequence of records *)
Theorem aggregates_consistent_lemma :
  forall (N : Z) (store_pairs store_segments : bool) (rs : list record),
    let st := add_all (store_init N store_pairs store_segments) rs in
    let keep_pairs := store_pairs || store_segments in
    (* totals: always *)
    st_n st = zlen rs /\
    st_span st = sumz (map (fun r => seg_span (rec_seg r)) rs) /\
    (* neither option: nothing else is kept *)
    (keep_pairs = false -> st_map st = []) /\
    (* pairs kept (store_segments implies store_pairs) *)
    (keep_pairs = true ->
       keys_sorted (st_map st) /\
       st_n st = map_sum_n (st_map st) /\
       st_span st = map_sum_span (st_map st) /\
       (forall key, map_find key (st_map st)
                    = pl_of store_segments (recs_of N key rs)) /\
       Forall (fun kp => 1 <= pl_n (snd kp)) (st_map st)) /\
    (* segments kept: the per-pair and global summaries are aggregates of the stored lists *)
    (store_segments = true ->
       Forall (fun kp => pl_n (snd kp) = zlen (pl_segs (snd kp)) /\
                         pl_span (snd kp) = seg_spans (pl_segs (snd kp))) (st_map st) /\
       st_n st = sumz (map (fun kp => zlen (pl_segs (snd kp))) (st_map st)) /\
       st_span st = sumz (map (fun kp => seg_spans (pl_segs (snd kp))) (st_map st))) /\
    (store_segments = false -> Forall (fun kp => pl_segs (snd kp) = []) (st_map st)).
Proof.
  intros N sp ss rs st keep.
  pose proof (store_inv_add_all rs _ [] (store_inv_init N sp ss)) as I. simpl in I. fold st in I.
  destruct I as [In Is Inp Iso Isn Iss Ic If].
  destruct (add_all_fields rs (store_init N sp ss)) as (Ep & Es & EN). fold st in Ep, Es, EN.
  simpl in Ep, Es, EN. fold keep in Ep.
  rewrite Ep in *. rewrite Es in *. rewrite EN in *.
  split; [exact In|]. split; [exact Is|]. split; [exact Inp|].
  split; [|split].
  - intros E. repeat split; auto.
    eapply Forall_impl; [|exact Ic]. intros kp [H _]. exact H.
  - intros E. rewrite E in Ic. assert (Ek : keep = true) by (unfold keep; rewrite E; apply orb_true_r).
    assert (F : Forall (fun kp => pl_n (snd kp) = zlen (pl_segs (snd kp)) /\
                                  pl_span (snd kp) = seg_spans (pl_segs (snd kp))) (st_map st)).
    { eapply Forall_impl; [|exact Ic]. intros kp [_ H]. exact H. }
    split; [exact F|].
    rewrite (Isn Ek), (Iss Ek). unfold map_sum_n, map_sum_span.
    clear - F. induction F as [|kp t [H1 H2] Ft IH]; simpl; [split; reflexivity|].
    destruct IH as [IH1 IH2]. split; lia.
  - intros E. rewrite E in Ic. eapply Forall_impl; [|exact Ic]. intros kp [_ H]. exact H.
Qed.

(* the "result view" of a container that stored segments: its aggregates are the
   container's summaries *)
Definition store_result (st : store) : result :=
  combine (store_keys st) (map (fun kp => pl_segs (snd kp)) (st_map st)).

Lemma store_result_aggregates :
  forall (N : Z) (sp : bool) (rs : list record),
    let st := add_all (store_init N sp true) rs in
    res_num_segments (store_result st) = st_n st /\
    res_total_span (store_result st) = st_span st /\
    res_num_pairs (store_result st) = store_num_pairs st.
Proof.
  intros N sp rs st.
  destruct (aggregates_consistent_lemma N sp true rs) as (_ & _ & _ & _ & H & _).
  fold st in H. destruct (H eq_refl) as (_ & Hn & Hs).
  unfold store_result, store_keys, res_num_segments, res_total_span, res_num_pairs, store_num_pairs.
  rewrite Hn, Hs. clear.
  generalize (st_N st) as M. intros M.
  induction (st_map st) as [|kp t IH]; simpl; [repeat split; reflexivity|].
  destruct IH as (IH1 & IH2 & IH3). unfold seg_spans in *. unfold zlen in *. simpl length.
  repeat split; try lia.
Qed.

(* Non-vacuity: three records over two pairs (one given in both orientations), all options *)
Example store_example :
  let rs := [((2, 0), (0, 3, 5)); ((1, 2), (1, 2, 4)); ((0, 2), (3, 6, 5))] in
  let st := add_all (store_init 6 false true) rs in
  st_n st = 3 /\ st_span st = 7 /\ store_keys st = [(0, 2); (1, 2)] /\
  map (fun kp => pl_segs (snd kp)) (st_map st) = [[(0, 3, 5); (3, 6, 5)]; [(1, 2, 4)]] /\
  map (fun kp => (pl_n (snd kp), pl_span (snd kp))) (st_map (add_all (store_init 6 true false) rs)) = [(2, 6); (1, 1)] /\
  st_map (add_all (store_init 6 false false) rs) = [].
Proof. vm_compute. repeat split; reflexivity. Qed.
