(* C19 — the algorithm's sample_set_id array (init_ssid) is the specification's group_of:
   `requested` = pair_requested, and init_ssid succeeds on well-formed groups. *)
From Coq Require Import List ZArith Bool Lia Arith.
From TskVerif Require Import Base.Common C19.Model C19.IbdAlg C19.SliceProofs C19.RefineProofs.
Import ListNotations.
Open Scope Z_scope.

Lemma set_length {A} (l : list A) i a l' : set l i a = Ok l' -> length l' = length l.
Proof.
  unfold set. destruct (i <? 0); [discriminate|].
  destruct (set_nat l (Z.to_nat i) a) as [t|] eqn:E; [|discriminate]. intros H; inversion H; subst.
  eapply set_nat_length; eauto.
Qed.

Lemma get_in_range {A} (l : list A) i : 0 <= i < zlen l -> exists a, get l i = Ok a.
Proof. apply get_ok_iff. Qed.

Lemma set_in_range {A} (l : list A) i a : 0 <= i < zlen l -> exists l', set l i a = Ok l'.
Proof.
  intros H. unfold set. replace (i <? 0) with false by (symmetry; apply Z.ltb_ge; lia).
  assert (G : forall (l : list A) n, (n < length l)%nat -> exists l', set_nat l n a = Some l').
  { induction l0 as [|h t IH]; intros [|n] Hn; simpl in *; try lia; [eauto|].
    destruct (IH n ltac:(lia)) as (t' & E). rewrite E. eauto. }
  destruct (G l (Z.to_nat i)) as (l' & E); [unfold zlen in H; lia|]. rewrite E. eauto.
Qed.

Lemma get_repeat {A} (v : A) n i : get (repeat v n) i = if (0 <=? i) && (i <? Z.of_nat n) then Ok v else OOB.
Proof.
  unfold get. destruct (i <? 0) eqn:E.
  - apply Z.ltb_lt in E. replace (0 <=? i) with false by (symmetry; apply Z.leb_gt; lia). reflexivity.
  - apply Z.ltb_ge in E. replace (0 <=? i) with true by (symmetry; apply Z.leb_le; lia). cbn [andb].
    destruct (i <? Z.of_nat n) eqn:E2.
    + apply Z.ltb_lt in E2. rewrite (nth_error_nth' _ v) by (rewrite repeat_length; lia).
      rewrite nth_repeat. reflexivity.
    + apply Z.ltb_ge in E2. replace (nth_error (repeat v n) (Z.to_nat i)) with (@None A); [reflexivity|].
      symmetry. apply nth_error_None. rewrite repeat_length. lia.
Qed.

Lemma memz_in u l : memz u l = true <-> In u l.
Proof.
  unfold memz. rewrite existsb_exists. split.
  - intros (v & Hv & E). apply Z.eqb_eq in E. subst. exact Hv.
  - intros H. exists u. split; [exact H | apply Z.eqb_refl].
Qed.

(* ---- marking ---------------------------------------------------------------------------------- *)

Lemma mark_sample_ok N k ssid u s' : mark_sample N k ssid u = Ok s' ->
  get ssid u = Ok (-1) /\ get s' u = Ok k /\ (forall v, v <> u -> get s' v = get ssid v) /\ length s' = length ssid.
Proof.
  unfold mark_sample. destruct ((u <? 0) || (N <? u)); [discriminate|].
  destruct (get ssid u) as [cur| | |] eqn:G; cbn [bind]; try discriminate.
  destruct (negb (cur =? -1)) eqn:E; [discriminate|]. apply negb_false_iff, Z.eqb_eq in E. subst cur.
  intros H. destruct (get_set _ _ _ _ H) as [H1 H2]. repeat split; auto. eapply set_length; eauto.
Qed.

Lemma mark_samples_ok N k : k <> -1 -> forall us ssid s', mark_samples N k ssid us = Ok s' ->
  (forall v, get s' v = if memz v us then Ok k else get ssid v) /\ length s' = length ssid /\
  (forall v, In v us -> get ssid v = Ok (-1)).
Proof.
  intros Hk. induction us as [|u t IH]; intros ssid s' H; cbn [mark_samples] in H.
  - inversion H; subst. repeat split; auto. intros v [].
  - destruct (mark_sample N k ssid u) as [s1| | |] eqn:E; cbn [bind] in H; try discriminate.
    destruct (mark_sample_ok _ _ _ _ _ E) as (A1 & A2 & A3 & A4).
    destruct (IH s1 s' H) as (B1 & B2 & B3).
    split; [|split; [congruence|]].
    + intros v. rewrite B1. unfold memz. cbn [existsb]. fold (memz v t).
      destruct (memz v t) eqn:Mt; [rewrite orb_true_r; reflexivity|]. rewrite orb_false_r.
      destruct (v =? u) eqn:Ev.
      * apply Z.eqb_eq in Ev. subst. exact A2.
      * apply Z.eqb_neq in Ev. apply A3. exact Ev.
    + intros v [<-|Hv]; [exact A1|].
      destruct (Z.eq_dec v u) as [->|Hne]; [exact A1|]. rewrite <- (A3 v Hne). apply B3. exact Hv.
Qed.

Lemma mark_sets_ok N : forall sets j ssid s', 0 <= j -> mark_sets N j ssid sets = Ok s' ->
  (forall v, get s' v = match set_index_from j sets v with Some k => Ok k | None => get ssid v end) /\
  length s' = length ssid.
Proof.
  induction sets as [|s t IH]; intros j ssid s' Hj H; cbn [mark_sets] in H.
  - inversion H; subst. split; [intros v; reflexivity | reflexivity].
  - destruct (mark_samples N j ssid s) as [s1| | |] eqn:E; cbn [bind] in H; try discriminate.
    destruct (mark_samples_ok N j ltac:(lia) _ _ _ E) as (A1 & A2 & A3).
    destruct (IH (j + 1) s1 s' ltac:(lia) H) as (B1 & B2). split; [|congruence].
    intros v. rewrite B1. cbn [set_index_from].
    destruct (memz v s) eqn:Ms.
    + (* v was marked in this set: a later set containing v would have failed *)
      destruct (set_index_from (j + 1) t v) as [k|] eqn:Sk; [|rewrite A1, Ms; reflexivity].
      exfalso. clear B1 IH.
      assert (G : get s1 v = Ok j) by (rewrite A1, Ms; reflexivity).
      assert (Hj1 : 0 <= j + 1) by lia.
      revert Sk H G Hj1. generalize (j + 1) as j1. generalize s1 as cur. clear - Hj.
      induction t as [|s2 t2 IH2]; intros cur j1 Sk H G Hj1; cbn [set_index_from] in Sk; [discriminate|].
      cbn [mark_sets] in H.
      destruct (mark_samples N j1 cur s2) as [c2| | |] eqn:E2; cbn [bind] in H; try discriminate.
      destruct (mark_samples_ok N j1 ltac:(lia) _ _ _ E2) as (D1 & _ & D3).
      destruct (memz v s2) eqn:M2.
      * assert (Hin : In v s2) by (apply memz_in; exact M2). rewrite (D3 v Hin) in G. inversion G. lia.
      * apply (IH2 c2 (j1 + 1)); auto; try lia. rewrite D1, M2. exact G.
    + rewrite A1, Ms. reflexivity.
Qed.

Lemma set_index_nonneg : forall sets j u k, 0 <= j -> set_index_from j sets u = Some k -> 0 <= k.
Proof.
  induction sets as [|s t IH]; intros j u k Hj H; cbn [set_index_from] in H; [discriminate|].
  destruct (memz u s); [inversion H; lia | eapply (IH (j + 1)); eauto; lia].
Qed.

(* ---- sample_set_id = group_of ------------------------------------------------------------------- *)

Lemma init_ssid_spec c ssid : init_ssid c = Ok ssid ->
  forall u, sid ssid u = match group_of c u with Some k => k | None => -1 end.
Proof.
  unfold init_ssid, group_of, sid. destruct (cgroups c) as [|w|sets]; intros H u.
  - inversion H; subst. rewrite get_map. destruct (get (cflags c) u) as [f| | |]; try reflexivity.
    destruct (Z.odd f); reflexivity.
  - destruct (mark_samples_ok (num_nodes c) 0 ltac:(lia) _ _ _ H) as (A1 & _). rewrite A1.
    destruct (memz u w); [reflexivity|]. unfold null_ssid. rewrite get_repeat.
    destruct ((0 <=? u) && (u <? Z.of_nat (Z.to_nat (num_nodes c)))); reflexivity.
  - destruct (mark_sets_ok (num_nodes c) sets 0 _ _ ltac:(lia) H) as (A1 & _). rewrite A1.
    destruct (set_index_from 0 sets u); [reflexivity|]. unfold null_ssid. rewrite get_repeat.
    destruct ((0 <=? u) && (u <? Z.of_nat (Z.to_nat (num_nodes c)))); reflexivity.
Qed.

Lemma group_nonneg c u k : group_of c u = Some k -> 0 <= k.
Proof.
  unfold group_of. destruct (cgroups c) as [|w|sets].
  - destruct (get (cflags c) u) as [f| | |]; try discriminate. destruct (Z.odd f); [|discriminate]. intros H; inversion H; lia.
  - destruct (memz u w); [|discriminate]. intros H; inversion H; lia.
  - apply set_index_nonneg. lia.
Qed.

Lemma requested_is_pair_requested c ssid a b : init_ssid c = Ok ssid -> a <> b ->
  requested (is_between c) ssid a b = pair_requested c a b.
Proof.
  intros Hi Hab. unfold requested, pair_requested, apass.
  rewrite !(init_ssid_spec c ssid Hi).
  replace (a =? b) with false by (symmetry; apply Z.eqb_neq; exact Hab). cbn [negb andb].
  destruct (group_of c a) as [i|] eqn:Ga; destruct (group_of c b) as [j|] eqn:Gb.
  - pose proof (group_nonneg _ _ _ Ga). pose proof (group_nonneg _ _ _ Gb).
    replace (i =? -1) with false by (symmetry; apply Z.eqb_neq; lia).
    replace (j =? -1) with false by (symmetry; apply Z.eqb_neq; lia). reflexivity.
  - pose proof (group_nonneg _ _ _ Ga). replace (i =? -1) with false by (symmetry; apply Z.eqb_neq; lia).
    reflexivity.
  - reflexivity.
  - reflexivity.
Qed.

Lemma init_ssid_length c ssid : init_ssid c = Ok ssid -> length (cflags c) = length (ctimes c) ->
  length ssid = length (ctimes c).
Proof.
  unfold init_ssid. intros H Hf. destruct (cgroups c) as [|w|sets].
  - inversion H; subst. rewrite map_length. exact Hf.
  - destruct (mark_samples_ok (num_nodes c) 0 ltac:(lia) _ _ _ H) as (_ & A2 & _). rewrite A2.
    unfold null_ssid, num_nodes, zlen. rewrite repeat_length. lia.
  - destruct (mark_sets_ok (num_nodes c) sets 0 _ _ ltac:(lia) H) as (_ & A2). rewrite A2.
    unfold null_ssid, num_nodes, zlen. rewrite repeat_length. lia.
Qed.

(* ---- init_ssid succeeds on well-formed groups ----------------------------------------------------- *)

Lemma mark_samples_total N k : forall us ssid,
  zlen ssid = N -> forallb (in_range N) us = true -> nodupb us = true ->
  (forall v, In v us -> get ssid v = Ok (-1)) ->
  exists s', mark_samples N k ssid us = Ok s'.
Proof.
  induction us as [|u t IH]; intros ssid Hlen Hr Hn Hfree; cbn [mark_samples]; [eauto|].
  cbn [forallb nodupb] in Hr, Hn. apply andb_true_iff in Hr as [Hu Hr]. apply andb_true_iff in Hn as [Hnu Hn].
  unfold in_range in Hu. apply andb_true_iff in Hu as [Hu1 Hu2]. apply Z.leb_le in Hu1. apply Z.ltb_lt in Hu2.
  unfold mark_sample.
  replace ((u <? 0) || (N <? u)) with false
    by (symmetry; apply orb_false_iff; split; [apply Z.ltb_ge | apply Z.ltb_ge]; lia).
  rewrite (Hfree u (or_introl eq_refl)). cbn [bind]. rewrite Z.eqb_refl. cbn [negb].
  destruct (set_in_range ssid u k ltac:(lia)) as (s1 & E). rewrite E. cbn [bind].
  destruct (get_set _ _ _ _ E) as [G1 G2].
  apply IH; auto.
  - unfold zlen. rewrite (set_length _ _ _ _ E). exact Hlen.
  - intros v Hv. rewrite G2; [apply Hfree; right; exact Hv|].
    intros ->. apply negb_true_iff in Hnu. apply (proj2 (memz_in u t)) in Hv. congruence.
Qed.

Lemma nodupb_app l1 l2 : nodupb (l1 ++ l2) = true ->
  nodupb l1 = true /\ nodupb l2 = true /\ forall v, In v l1 -> In v l2 -> False.
Proof.
  induction l1 as [|h t IH]; cbn [app nodupb]; intros H; [repeat split; auto|].
  apply andb_true_iff in H as [H1 H2]. destruct (IH H2) as (A1 & A2 & A3).
  apply negb_true_iff in H1.
  assert (Hnt : memz h t = false).
  { destruct (memz h t) eqn:E; [|reflexivity]. apply memz_in in E.
    assert (In h (t ++ l2)) by (apply in_or_app; left; exact E). apply (proj2 (memz_in _ _)) in H. congruence. }
  repeat split.
  - rewrite Hnt. exact A1.
  - exact A2.
  - intros v [<-|Hv] Hv2; [|eapply A3; eauto].
    assert (In h (t ++ l2)) by (apply in_or_app; right; exact Hv2). apply (proj2 (memz_in _ _)) in H. congruence.
Qed.

Lemma mark_sets_total N : forall sets j ssid,
  zlen ssid = N -> j <> -1 -> (forall i, j <= i -> i <> -1) ->
  forallb (in_range N) (concat sets) = true -> nodupb (concat sets) = true ->
  (forall v, In v (concat sets) -> get ssid v = Ok (-1)) ->
  exists s', mark_sets N j ssid sets = Ok s'.
Proof.
  induction sets as [|s t IH]; intros j ssid Hlen Hj Hjs Hr Hn Hfree; cbn [mark_sets]; [eauto|].
  cbn [concat] in Hr, Hn, Hfree. rewrite forallb_app in Hr. apply andb_true_iff in Hr as [Hr1 Hr2].
  destruct (nodupb_app _ _ Hn) as (N1 & N2 & N3).
  destruct (mark_samples_total N j s ssid Hlen Hr1 N1) as (s1 & E).
  { intros v Hv. apply Hfree. apply in_or_app. left. exact Hv. }
  rewrite E. cbn [bind].
  destruct (mark_samples_ok N j Hj _ _ _ E) as (A1 & A2 & _).
  apply IH; auto.
  - unfold zlen in *. rewrite A2. exact Hlen.
  - apply Hjs. lia.
  - intros i Hi. apply Hjs. lia.
  - intros v Hv. rewrite A1.
    destruct (memz v s) eqn:M; [exfalso; apply memz_in in M; eapply N3; eauto|].
    apply Hfree. apply in_or_app. right. exact Hv.
Qed.

Lemma init_ssid_total c : groups_wf c = true -> exists ssid, init_ssid c = Ok ssid.
Proof.
  unfold groups_wf, init_ssid. intros H.
  assert (Hn : zlen (null_ssid (num_nodes c)) = num_nodes c).
  { unfold null_ssid, zlen, num_nodes, zlen. rewrite repeat_length. lia. }
  assert (Hfree : forall l v, forallb (in_range (num_nodes c)) l = true -> In v l ->
                              get (null_ssid (num_nodes c)) v = Ok (-1)).
  { intros l v Hl Hv. rewrite forallb_forall in Hl. specialize (Hl v Hv). unfold in_range in Hl.
    unfold null_ssid. rewrite get_repeat.
    apply andb_true_iff in Hl as [H1 H2]. rewrite H1. cbn [andb].
    apply Z.ltb_lt in H2. apply Z.leb_le in H1.
    replace (v <? Z.of_nat (Z.to_nat (num_nodes c))) with true by (symmetry; apply Z.ltb_lt; lia). reflexivity. }
  destruct (cgroups c) as [|w|sets]; [eauto| |].
  - apply andb_true_iff in H as [H1 H2]. apply mark_samples_total; auto. intros v Hv. eapply Hfree; eauto.
  - apply andb_true_iff in H as [H1 H2]. apply mark_sets_total; auto; try lia.
    intros v Hv. eapply Hfree; eauto.
Qed.
