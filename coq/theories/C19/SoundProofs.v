(* C19 — record-level soundness: every segment recorded by the algorithm model (with filters) is a
   segment of the specification for a requested pair, and at every position of it the pair's MRCA in the
   specification is the recorded node. *)
From Coq Require Import List ZArith Bool Lia Arith Permutation.
From TskVerif Require Import Base.Common C19.Model C19.IbdAlg C19.RunsProofs C19.SpecProofs C19.AlgProofs
  C19.SliceProofs C19.RefineProofs C19.TwoPos C19.FullProofs C19.GroupProofs C19.TotalProofs.
Import ListNotations.
Open Scope Z_scope.

Definition count_occ_seg (s : seg) (l : list seg) : nat := length (filter (seg_eqb s) l).

Lemma every_record_is_spec_segment_lemma :
  forall (c : case) (out : list record), case_valid c = true -> ibd_records c = Ok out ->
    forall r, In r out ->
      rec_a r <> rec_b r /\ pair_requested c (rec_a r) (rec_b r) = true /\
      exists segs, pair_segments_filtered c (rec_a r) (rec_b r) = Ok segs /\ In (rec_seg r) segs /\
        forall x, seg_left (rec_seg r) <= x < seg_right (rec_seg r) ->
          exists lab, label_at (spec_fuel c) (cedges c) x (rec_a r) (rec_b r) = Ok (Some lab) /\
                      label_mrca lab = seg_node (rec_seg r).
Proof.
  intros c out CV Hout r Hr. pose proof (case_valid_parts c CV) as V.
  destruct (ibd_alg_refines_spec_lemma c CV) as (out' & Hout' & Hpairs).
  rewrite Hout in Hout'. inversion Hout'; subst out'; clear Hout'.
  pose proof (records_wellformed_lemma c out (vp_L c V) Hout) as W. rewrite Forall_forall in W.
  destruct (W r Hr) as (_ & _ & Hne).
  assert (Hin : In r (filter (pair_is (rec_a r) (rec_b r)) out)).
  { apply filter_In. split; [exact Hr|]. unfold pair_is. rewrite !Z.eqb_refl. reflexivity. }
  destruct (Hpairs _ _ Hne) as [H1 H2].
  assert (Hreq : pair_requested c (rec_a r) (rec_b r) = true).
  { destruct (pair_requested c (rec_a r) (rec_b r)) eqn:E; [reflexivity|]. rewrite (H2 eq_refl) in Hin. contradiction. }
  split; [exact Hne|]. split; [exact Hreq|].
  destruct (H1 Hreq) as (segs & Es & Ps). exists segs. split; [exact Es|].
  assert (Hs : In (rec_seg r) segs) by (apply (Permutation_in _ Ps); apply in_map; exact Hin).
  split; [exact Hs|].
  intros x Hx.
  (* the kept segment is an unfiltered segment; those are ordered and carry the MRCA of each position *)
  pose proof Es as Es'. unfold pair_segments_filtered in Es'.
  destruct (pair_segments c (rec_a r) (rec_b r)) as [segs0| | |] eqn:E0; simpl in Es'; try discriminate.
  destruct (spec_filter_lemma c _ _ segs0 segs E0 Es _ Hs) as (Hin0 & _).
  destruct (spec_cover_lemma c _ _ segs0 E0) as (O & Cov).
  destruct (rec_seg r) as [[l rr] n] eqn:Er. unfold seg_left, seg_right, seg_node in *; cbn [fst snd] in *.
  destruct (ordered_in _ _ _ _ _ _ O Hin0) as (B1 & B2 & B3).
  pose proof (vp_L c V) as HL. rewrite Z.max_r in B3 by lia.
  destruct (Cov x ltac:(lia)) as (lab & Hl & Hk).
  rewrite (in_lookup _ _ _ _ _ _ x O Hin0 Hx) in Hk.
  destruct lab as [lab|]; [|discriminate]. simpl in Hk. inversion Hk.
  exists lab. split; [exact Hl | reflexivity].
Qed.

(* Non-vacuity: the docs example with filters. *)
Example docs_record_sound :
  exists out, ibd_records (docs_case_alg 4 (Some 5)) = Ok out /\ In ((1, 2), (2, 10, 4)) out /\
    label_at 7 (cedges (docs_case_alg 4 (Some 5))) 6 1 2 = Ok (Some (4, [2%nat], [1%nat; 4%nat])).
Proof. eexists. split; [vm_compute; reflexivity|]. split; [vm_compute; auto 10 | vm_compute; reflexivity]. Qed.

(* the converse: every (filtered) specification segment of a requested pair is recorded, exactly once *)
Lemma every_spec_segment_is_recorded_lemma :
  forall (c : case) (out : list record) (a b : Z) (segs : list seg),
    case_valid c = true -> ibd_records c = Ok out -> a <> b -> pair_requested c a b = true ->
    pair_segments_filtered c a b = Ok segs ->
    forall s, In s segs ->
      exists r, In r out /\ pair_is a b r = true /\ rec_seg r = s /\
                count_occ_seg s (map rec_seg (filter (pair_is a b) out)) = count_occ_seg s segs.
Proof.
  intros c out a b segs CV Hout Hab Hreq Es s Hs.
  destruct (ibd_alg_refines_spec_lemma c CV) as (out' & Hout' & Hpairs).
  rewrite Hout in Hout'. inversion Hout'; subst out'; clear Hout'.
  destruct (Hpairs a b Hab) as [H1 _]. destruct (H1 Hreq) as (segs' & Es' & Ps).
  rewrite Es in Es'. inversion Es'; subst segs'; clear Es'.
  pose proof (Permutation_in _ (Permutation_sym Ps) Hs) as Hin.
  apply in_map_iff in Hin as (r & Er & Hr). apply filter_In in Hr as [Hr Hp].
  exists r. repeat split; auto.
  unfold count_occ_seg. apply Permutation_length. apply Permutation_filter_c19. exact Ps.
Qed.
