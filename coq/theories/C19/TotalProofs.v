(* C19 — totality and the final refinement theorem.

   From the checkable predicate Model.case_valid:
     - the hypotheses valid_at / time_sorted used so far,
     - the specification never runs out of fuel (labels = Ok),
     - the algorithm model never leaves its arrays (ibd_records = Ok),
   and then: for every pair, the records of the algorithm model (with filters) are, as a set,
   the specification's filtered maximal runs if the pair is requested, and there are none
   otherwise. *)
From Coq Require Import List ZArith Bool Lia Arith Permutation.
From TskVerif Require Import Base.Common C19.Model C19.IbdAlg C19.RunsProofs C19.SpecProofs C19.AlgProofs
  C19.SliceProofs C19.RefineProofs C19.TwoPos C19.FullProofs C19.GroupProofs.
Import ListNotations.
Open Scope Z_scope.

(* ---- the parts of case_valid ------------------------------------------------------------------- *)

Record valid_parts (c : case) : Prop := {
  vp_L : 0 <= cL c;
  vp_flags : length (cflags c) = length (ctimes c);
  vp_edges : forallb (edge_wf (num_nodes c) (cL c)) (cedges c) = true;
  vp_at : forall x, 0 <= x < cL c -> valid_at (ctimes c) (cedges c) x;
  vp_sorted : sortedb (ctimes c) (cedges c) = true;
  vp_older : forall e, In e (cedges c) -> time_of (ctimes c) (echild e) < time_of (ctimes c) (eparent e);
  vp_groups : groups_wf c = true;
  vp_ms : 0 <= cminspan2 c;
  vp_mt : match cmaxtime2 c with Some m => 0 <= m | None => True end
}.

Lemma in_zrange n : forall s x, In x (zrange s n) <-> s <= x < s + Z.of_nat n.
Proof.
  induction n as [|n IH]; intros s x; simpl; [lia|]. rewrite IH. lia.
Qed.

Lemma case_valid_parts c : case_valid c = true -> valid_parts c.
Proof.
  unfold case_valid. intros H.
  repeat (apply andb_true_iff in H; destruct H as [H ?]).
  constructor.
  - apply Z.leb_le. assumption.
  - apply Nat.eqb_eq. assumption.
  - assumption.
  - intros x Hx. apply valid_atb_sound.
    match goal with Hv : forallb (valid_atb _ _) _ = true |- _ => rewrite forallb_forall in Hv; apply Hv end.
    apply in_zrange. lia.
  - assumption.
  - intros e He.
    match goal with Ho : forallb (fun e => time_of _ (echild e) <? _) _ = true |- _ => rewrite forallb_forall in Ho; apply Z.ltb_lt; apply Ho; exact He end.
  - assumption.
  - apply Z.leb_le. assumption.
  - destruct (cmaxtime2 c); [apply Z.leb_le; assumption | exact I].
Qed.

Lemma edge_wf_range c e : forallb (edge_wf (num_nodes c) (cL c)) (cedges c) = true -> In e (cedges c) ->
  0 <= eparent e < num_nodes c /\ 0 <= echild e < num_nodes c.
Proof.
  intros H He. rewrite forallb_forall in H. specialize (H e He). unfold edge_wf, in_range in H.
  repeat (apply andb_true_iff in H; destruct H as [H ?]).
  repeat match goal with
         | X : (_ <=? _) = true |- _ => apply Z.leb_le in X
         | X : (_ <? _) = true |- _ => apply Z.ltb_lt in X
         end. lia.
Qed.

Lemma time_of_get times u t : get times u = Ok t -> time_of times u = t.
Proof. unfold time_of. intros ->. reflexivity. Qed.

Lemma sortedb_time_sorted times : forall es, sortedb times es = true -> time_sorted times es.
Proof.
  induction es as [|e t IH]; simpl; intros H; [exact I|].
  apply andb_true_iff in H as [H1 H2]. split; [|apply IH; exact H2].
  apply Forall_forall. intros e' He' t1 t2 G1 G2. rewrite forallb_forall in H1. specialize (H1 e' He').
  apply Z.leb_le in H1. rewrite (time_of_get _ _ _ G1), (time_of_get _ _ _ G2) in H1. exact H1.
Qed.

(* ---- the specification is total -------------------------------------------------------------------- *)

Section SpecTotal.
  Variables (c : case).
  Hypothesis V : valid_parts c.
  Let es := cedges c.
  Let times := ctimes c.

  Fixpoint tmax (l : list edge) : Z :=
    match l with [] => 0 | e :: t => Z.max (time_of times (eparent e)) (tmax t) end.

  Lemma tmax_ge l e : In e l -> time_of times (eparent e) <= tmax l.
  Proof. induction l as [|h t IH]; simpl; intros H; [contradiction|]. destruct H as [<-|H]; [lia | specialize (IH H); lia]. Qed.

  Lemma walk_exists x : forall n u, tmax es + 1 - time_of times u <= Z.of_nat n -> exists w, is_walk es x u w.
  Proof.
    induction n as [|n IH]; intros u Hn.
    - exists []. simpl. destruct (edge_above es x u) as [[i e]|] eqn:E; [|reflexivity]. exfalso.
      destruct (edge_above_some _ _ _ _ _ E) as (N & _ & Ch). apply nth_error_In in N.
      pose proof (vp_older c V e N). pose proof (tmax_ge es e N). fold times in H. rewrite Ch in H. lia.
    - destruct (edge_above es x u) as [[i e]|] eqn:E.
      + destruct (edge_above_some _ _ _ _ _ E) as (N & _ & Ch). apply nth_error_In in N.
        pose proof (vp_older c V e N) as Ho. fold times in Ho. rewrite Ch in Ho.
        destruct (IH (eparent e) ltac:(lia)) as (w & W).
        exists ((i, eparent e) :: w). simpl. split; [exists e; auto | exact W].
      + exists []. exact E.
  Qed.

  Lemma walk_exists' x u : exists w, is_walk es x u w.
  Proof. apply (walk_exists x (Z.to_nat (tmax es + 1 - time_of times u))). lia. Qed.

  Lemma is_walk_ups x : forall w u fuel, is_walk es x u w -> (length w < fuel)%nat -> ups fuel es x u = Some w.
  Proof.
    induction w as [|[i p] t IH]; intros u fuel W Hf; destruct fuel as [|f]; try lia; simpl in *.
    - rewrite W. reflexivity.
    - destruct W as [[e [E P]] Wt]. rewrite E, P. rewrite (IH p f Wt ltac:(lia)). reflexivity.
  Qed.

  Lemma walk_parents_in_range x : forall w u, is_walk es x u w ->
    Forall (fun p => 0 <= p < num_nodes c) (map snd w).
  Proof.
    induction w as [|[i p] t IH]; intros u W; simpl in *; [constructor|].
    destruct W as [[e [E P]] Wt]. constructor; [|eapply IH; eauto].
    destruct (edge_above_some _ _ _ _ _ E) as (N & _). apply nth_error_In in N.
    destruct (edge_wf_range c e (vp_edges c V) N) as [H _]. cbn [snd]. rewrite <- P. exact H.
  Qed.

  Lemma walk_short x u w : is_walk es x u w -> (length w <= length (ctimes c))%nat.
  Proof.
    intros W. pose proof (is_walk_nodup es x u w W) as ND. unfold ancs in ND. inversion ND as [|? ? _ ND']; subst.
    pose proof (walk_parents_in_range x w u W) as R.
    rewrite <- (map_length snd w).
    assert (I : incl (map snd w) (zrange 0 (length (ctimes c)))).
    { intros p Hp. rewrite Forall_forall in R. specialize (R p Hp). apply in_zrange. unfold num_nodes, zlen in R. lia. }
    pose proof (NoDup_incl_length ND' I) as Len. rewrite zrange_length in Len. exact Len.
  Qed.

  Lemma label_total x a b : exists lab, label_at (spec_fuel c) es x a b = Ok lab.
  Proof.
    destruct (walk_exists' x a) as (wa & Wa). destruct (walk_exists' x b) as (wb & Wb).
    unfold label_at, spec_fuel.
    rewrite (is_walk_ups x wa a _ Wa) by (pose proof (walk_short x a wa Wa); lia).
    rewrite (is_walk_ups x wb b _ Wb) by (pose proof (walk_short x b wb Wb); lia). eauto.
  Qed.

  Lemma sequence_total {A} (l : list (res A)) : (forall r, In r l -> exists v, r = Ok v) -> exists out, sequence l = Ok out.
  Proof.
    induction l as [|r t IH]; intros H; simpl; [eauto|].
    destruct (H r (or_introl eq_refl)) as (v & ->). destruct (IH (fun r' Hr' => H r' (or_intror Hr'))) as (out & ->).
    simpl. eauto.
  Qed.

  Lemma labels_total a b : exists ls, labels c a b = Ok ls.
  Proof.
    unfold labels. apply sequence_total. intros r Hr. apply in_map_iff in Hr as (x & <- & _). apply label_total.
  Qed.
End SpecTotal.

(* ---- the algorithm model is total ------------------------------------------------------------------- *)

Section AlgTotal.
  Variables (N : Z) (P : params).
  Hypothesis Hs : zlen (p_ssid P) = N.
  Hypothesis Ht : zlen (p_times P) = N.

  Definition node_ok (s : seg) : Prop := 0 <= seg_node s < N.
  Definition amap_ok (A : amap) : Prop := zlen A = N /\ Forall (Forall node_ok) A.

  Lemma passes_total a b l r : 0 <= a < N -> 0 <= b < N -> exists bo, passes P a b l r = Ok bo.
  Proof.
    intros Ha Hb. unfold passes. destruct (a =? b); [eauto|]. destruct (2 * (r - l) <=? p_ms2 P); [eauto|].
    destruct (p_between P); [|eauto].
    destruct (get_in_range (p_ssid P) a ltac:(lia)) as (x & ->). destruct (get_in_range (p_ssid P) b ltac:(lia)) as (y & ->).
    simpl. eauto.
  Qed.

  Lemma record_inner_total parent s0 : node_ok s0 -> forall q, Forall node_ok q -> exists x, record_inner P parent s0 q = Ok x.
  Proof.
    intros H0. induction 1 as [|s1 t H1 Ft IH]; simpl; [eauto|].
    unfold record_one. destruct (passes_total (seg_node s0) (seg_node s1) (Z.max (seg_left s0) (seg_left s1))
                                   (Z.min (seg_right s0) (seg_right s1)) H0 H1) as (bo & ->).
    simpl. destruct IH as (y & ->). simpl. eauto.
  Qed.

  Lemma record_ibd_total parent q : Forall node_ok q -> forall ps, Forall node_ok ps -> exists x, record_ibd P parent ps q = Ok x.
  Proof.
    intros Fq. induction 1 as [|s0 t H0 Ft IH]; simpl; [eauto|].
    destruct (record_inner_total parent s0 H0 q Fq) as (x & ->). simpl. destruct IH as (y & ->). simpl. eauto.
  Qed.

  Lemma queue_node_ok e cs : Forall node_ok cs -> Forall node_ok (queue_of (p_ms2 P) e cs).
  Proof.
    unfold queue_of. induction 1 as [|s t Hs0 Ft IH]; cbn [flat_map]; [constructor|].
    apply Forall_app. split; [|exact IH]. unfold enqueue. destruct (p_ms2 P <? _); constructor; [|constructor].
    unfold node_ok, seg_node in *; cbn [snd]. exact Hs0.
  Qed.

  Lemma step_total e A : amap_ok A -> 0 <= eparent e < N -> 0 <= echild e < N ->
    exists A' recs, step P e A = Ok (A', recs) /\ amap_ok A'.
  Proof.
    intros [LA FA] Hp Hc. unfold step.
    destruct (get_in_range A (echild e) ltac:(lia)) as (cs & Ec). rewrite Ec. cbn [bind].
    destruct (get_in_range A (eparent e) ltac:(lia)) as (ps & Ep). rewrite Ep. cbn [bind].
    pose proof (get_Forall _ _ _ _ FA Ec) as Fc. pose proof (get_Forall _ _ _ _ FA Ep) as Fp.
    pose proof (queue_node_ok e cs Fc) as Fq.
    destruct (record_ibd_total (eparent e) _ Fq ps Fp) as (x & ->). cbn [bind].
    destruct (set_in_range A (eparent e) (ps ++ queue_of (p_ms2 P) e cs) ltac:(lia)) as (A' & Es). rewrite Es. cbn [bind].
    exists A', x. split; [reflexivity|]. split.
    - unfold zlen in *. rewrite (set_length _ _ _ _ Es). exact LA.
    - eapply set_Forall; [exact FA | | exact Es]. apply Forall_app. split; assumption.
  Qed.

  Lemma run_edges_total : forall es A, amap_ok A ->
    Forall (fun e => 0 <= eparent e < N /\ 0 <= echild e < N) es ->
    exists A' out, run_edges P es A = Ok (A', out).
  Proof.
    induction es as [|e t IH]; intros A HA Fe; simpl; [eauto|].
    inversion Fe as [|? ? [Hp Hc] Ft]; subst.
    destruct (get_in_range (p_times P) (eparent e) ltac:(lia)) as (tm & ->). cbn [bind].
    destruct (too_old (p_mt2 P) tm); [eauto|].
    destruct (step_total e A HA Hp Hc) as (A1 & r1 & -> & HA1). cbn [bind fst snd].
    destruct (IH A1 HA1 Ft) as (A2 & r2 & ->). cbn [bind fst snd]. eauto.
  Qed.
End AlgTotal.

Lemma in_combine_zrange {A} (l : list A) : forall s u v, In (u, v) (combine (zrange s (length l)) l) -> s <= u < s + Z.of_nat (length l).
Proof.
  induction l as [|h t IH]; intros s u v H; simpl in H; [contradiction|].
  destruct H as [H|H]; [inversion H; subst; simpl; lia|]. specialize (IH (s + 1) u v H). simpl. lia.
Qed.

Lemma init_amap_ok L ssid : amap_ok (zlen ssid) (init_amap L ssid).
Proof.
  unfold amap_ok, init_amap. split.
  - unfold zlen. rewrite map_length, combine_length, zrange_length. lia.
  - apply Forall_forall. intros l Hl. apply in_map_iff in Hl as ([u v] & <- & Hin). cbn [fst snd].
    destruct (negb (v =? -1)); constructor; [|constructor].
    apply in_combine_zrange in Hin. unfold node_ok, seg_node, zlen; cbn [snd]. lia.
Qed.

Lemma ibd_records_safe c :
  0 <= cminspan2 c -> match cmaxtime2 c with Some m => 0 <= m | None => True end ->
  groups_wf c = true -> length (cflags c) = length (ctimes c) ->
  forallb (edge_wf (num_nodes c) (cL c)) (cedges c) = true ->
  exists out, ibd_records c = Ok out.
Proof.
  intros Hms Hmt Hg Hf He. unfold ibd_records.
  replace (cminspan2 c <? 0) with false by (symmetry; apply Z.ltb_ge; exact Hms).
  replace (neg_opt (cmaxtime2 c)) with false
    by (destruct (cmaxtime2 c); simpl; [symmetry; apply Z.ltb_ge; lia | reflexivity]).
  cbn [orb]. destruct (init_ssid_total c Hg) as (ssid & Hi). rewrite Hi. cbn [bind].
  pose proof (init_ssid_length c ssid Hi Hf) as Len.
  assert (Hz : zlen ssid = num_nodes c) by (unfold zlen, num_nodes, zlen; rewrite Len; reflexivity).
  destruct (run_edges_total (num_nodes c) (mkParams (cminspan2 c) (cmaxtime2 c) (is_between c) ssid (ctimes c))
              Hz eq_refl (cedges c) (init_amap (cL c) ssid)) as (A' & out & ->).
  - rewrite <- Hz. apply init_amap_ok.
  - apply Forall_forall. intros e Hin. apply (edge_wf_range c e He Hin).
  - cbn [bind snd]. eauto.
Qed.

Lemma ibd_records_total c : valid_parts c -> exists out, ibd_records c = Ok out.
Proof.
  intros V. apply ibd_records_safe; [apply (vp_ms c V) | apply (vp_mt c V) | apply (vp_groups c V)
                                    | apply (vp_flags c V) | apply (vp_edges c V)].
Qed.

(* ---- what is checked on entry vs. what is assumed ---------------------------------------------------- *)

Lemma case_valid_decomposition_lemma c : case_valid c = integrity0 c && sorted_and_tree c && args_ok c.
Proof.
  unfold case_valid, integrity0, sorted_and_tree, args_ok.
  destruct (0 <=? cL c), (length (cflags c) =? length (ctimes c))%nat,
    (forallb (edge_wf (num_nodes c) (cL c)) (cedges c)),
    (forallb (valid_atb (ctimes c) (cedges c)) (zrange 0 (Z.to_nat (cL c)))),
    (sortedb (ctimes c) (cedges c)),
    (forallb (fun e => time_of (ctimes c) (echild e) <? time_of (ctimes c) (eparent e)) (cedges c)),
    (groups_wf c), (0 <=? cminspan2 c), (match cmaxtime2 c with Some m => 0 <=? m | None => true end); reflexivity.
Qed.

(* the entry check alone (tsk_table_collection_check_integrity(self, 0), fix e0eff6d) plus the argument
   checks make the sweep memory-safe and error-free — sortedness is not needed for that *)
Lemma integrity_implies_safe_lemma c :
  integrity0 c = true -> args_ok c = true -> exists out, ibd_records c = Ok out.
Proof.
  unfold integrity0, args_ok. intros HI HA.
  repeat (apply andb_true_iff in HI; destruct HI as [HI ?]).
  repeat (apply andb_true_iff in HA; destruct HA as [HA ?]).
  apply ibd_records_safe.
  - apply Z.leb_le. assumption.
  - destruct (cmaxtime2 c); [apply Z.leb_le; assumption | exact I].
  - assumption.
  - apply Nat.eqb_eq. assumption.
  - assumption.
Qed.

(* ... but NOT correct: an integrity-clean table collection whose edges are not sorted by parent time
   is accepted and silently gives a wrong answer (here: nothing, although samples 0 and 1 share the
   ancestor 3 over the whole genome).  Replayed on the C code by family ibd_unsorted. *)
Definition unsorted_case : case :=
  mkCase 10 [0; 0; 1; 2] [1; 1; 0; 0] [mkE 0 10 3 2; mkE 0 10 2 0; mkE 0 10 3 1] GDefault 0 None.

Lemma unsorted_integrity_clean_refuted_lemma :
  integrity0 unsorted_case = true /\ args_ok unsorted_case = true /\ sorted_and_tree unsorted_case = false /\
  ibd_records unsorted_case = Ok [] /\
  ibd_spec unsorted_case = Ok [((0, 1), [(0, 10, 3)])].
Proof. vm_compute. repeat split; reflexivity. Qed.

Lemma valid_parts_unfiltered c : valid_parts c -> valid_parts (unfiltered c).
Proof.
  intros [A B C D E F G H I]. constructor; simpl; auto; try lia.
Qed.

(* ---- the final theorem --------------------------------------------------------------------------------- *)

Lemma Permutation_filter_c19 {A} (f : A -> bool) l l' : Permutation l l' -> Permutation (filter f l) (filter f l').
Proof.
  induction 1 as [|x l l' _ IH|x y l|l l' l'' _ IH1 _ IH2]; simpl.
  - constructor.
  - destruct (f x); [constructor|]; exact IH.
  - destruct (f x), (f y); try apply perm_swap; try (constructor; apply Permutation_refl); apply Permutation_refl.
  - eapply Permutation_trans; eauto.
Qed.

Definition seg_passes_pure (c : case) (s : seg) : bool :=
  span_passes (cminspan2 c) s &&
  match cmaxtime2 c with
  | None => true
  | Some m => match get (ctimes c) (seg_node s) with Ok t => 2 * t <=? m | _ => false end
  end.

Theorem ibd_alg_refines_spec_lemma :
  forall c : case, case_valid c = true ->
    exists out : list record,
      ibd_records c = Ok out /\
      forall a b : Z, a <> b ->
        (pair_requested c a b = true ->
           exists segs, pair_segments_filtered c a b = Ok segs /\
                        Permutation (map rec_seg (filter (pair_is a b) out)) segs) /\
        (pair_requested c a b = false -> filter (pair_is a b) out = []).
Proof.
  intros c CV. pose proof (case_valid_parts c CV) as V.
  pose proof (valid_parts_unfiltered c V) as VU.
  destruct (ibd_records_total (unfiltered c) VU) as (out0 & Hr0).
  pose proof (alg_filter_commutes_lemma c out0 (vp_ms c V) (vp_mt c V)
                (sortedb_time_sorted _ _ (vp_sorted c V)) Hr0) as Hr.
  destruct (init_ssid_total c (vp_groups c V)) as (ssid & Hi).
  set (rp := rec_passes (cminspan2 c) (cmaxtime2 c) (ctimes c)) in *.
  exists (filter rp out0). split; [exact Hr|].
  intros a b Hab. rewrite <- (requested_is_pair_requested c ssid a b Hi Hab).
  destruct (labels_total c V a b) as (ls & Hls).
  assert (E1 : filter (pair_is a b) (filter rp out0) = filter rp (filter (pair_is a b) out0)) by apply filter_comm_c19.
  split.
  - intros Hreq.
    pose proof (pair_records_are_runs c ssid out0 a b ls Hi (vp_at c V) Hab Hreq Hr0 Hls (vp_L c V)) as PR.
    fold (RS out0 a b) in E1.
    assert (PS : pair_segments c a b = Ok (map seg_of_run (rsL ls))) by (unfold pair_segments; rewrite Hls; reflexivity).
    (* nodes of the specification's segments are in range, because they are nodes of records *)
    assert (NR : forall s, In s (map seg_of_run (rsL ls)) -> 0 <= seg_node s < num_nodes c).
    { intros s Hs. apply (Permutation_in _ (Permutation_sym PR)) in Hs.
      apply in_map_iff in Hs as (r & <- & Hr1). unfold RS in Hr1. apply filter_In in Hr1 as [Hr1 _].
      unfold ibd_records in Hr0. simpl in Hr0.
      assert (Ei : init_ssid (unfiltered c) = init_ssid c) by reflexivity. rewrite Ei, Hi in Hr0. simpl in Hr0.
      destruct (run_edges _ (cedges c) (init_amap (cL c) ssid)) as [[A' o0]| | |] eqn:E in Hr0; simpl in Hr0; try discriminate.
      inversion Hr0; subst o0. apply run_nodes in E. rewrite Forall_forall in E.
      destruct (E r Hr1) as (e' & He' & ->). apply (edge_wf_range c e' (vp_edges c V) He'). }
    exists (filter (seg_passes_pure c) (map seg_of_run (rsL ls))). split.
    + exact (spec_filter_complete_lemma c a b _ PS NR).
    + rewrite E1.
      assert (E2 : map rec_seg (filter rp (RS out0 a b)) = filter (seg_passes_pure c) (map rec_seg (RS out0 a b))).
      { rewrite filter_map_c19. reflexivity. }
      rewrite E2. apply Permutation_filter_c19. exact PR.
  - intros Hreq.
    rewrite E1. assert (Z0 : filter (pair_is a b) out0 = []); [|rewrite Z0; reflexivity].
    destruct (filter (pair_is a b) out0) as [|r t] eqn:EF; [reflexivity|]. exfalso.
    assert (Hin : In r (filter (pair_is a b) out0)) by (rewrite EF; left; reflexivity).
    apply filter_In in Hin as [Hin Hp].
    pose proof (records_wellformed_lemma (unfiltered c) out0 (vp_L c V) Hr0) as W. rewrite Forall_forall in W.
    destruct (W r Hin) as ((W1 & W2) & W3 & _). simpl in W3.
    set (x := seg_left (rec_seg r)). assert (Hx : 0 <= x < cL c) by (unfold x; lia).
    destruct (label_total c V x a b) as (lab & Hl).
    pose proof (alg_position_correct_lemma c ssid out0 x a b lab Hi (vp_at c V x Hx) Hx Hab Hr0 Hl) as PC.
    rewrite Hreq in PC.
    assert (Hin2 : In r (filter (fun r => covx (cov1 x) (rec_seg r) && pair_is a b r) out0)).
    { apply filter_In. split; [exact Hin|]. rewrite Hp, andb_true_r. apply covx_cov1. unfold x. lia. }
    apply (in_map (fun r => seg_node (rec_seg r))) in Hin2. rewrite PC in Hin2. contradiction.
Qed.

(* Non-vacuity: the docs/ibd.md example (with and without filters, within and between) is
   accepted by case_valid, and the theorem's conclusion can be observed on it. *)
Example docs_case_valid :
  case_valid (docs_case_alg 0 None) = true /\ case_valid (docs_case_alg 4 (Some 5)) = true /\
  case_valid (mkCase 10 [0; 0; 0; 1; 2; 3] [1; 1; 1; 0; 0; 0] (cedges (docs_case_alg 0 None))
                     (GBetween [[0; 1]; [2]]) 2 (Some 4)) = true.
Proof. vm_compute. repeat split; reflexivity. Qed.

Example docs_refines :
  exists out, ibd_records (docs_case_alg 4 (Some 5)) = Ok out /\
    map rec_seg (filter (pair_is 1 2) out) = [(2, 10, 4)] /\
    pair_segments_filtered (docs_case_alg 4 (Some 5)) 1 2 = Ok [(2, 10, 4)].
Proof. eexists. split; [vm_compute; reflexivity|]. vm_compute. split; reflexivity. Qed.
