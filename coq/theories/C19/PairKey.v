(* C19 — the pair key of the IBD result store: symmetric in its arguments, and
   integer_to_pair inverts it to (min, max).  With pair_key_identifies_pair (injectivity up to
   order) this makes the key a bijection between unordered pairs and their integers. *)
From Coq Require Import List ZArith Bool Lia.
From TskVerif Require Import Base.Common C19.Model.
Import ListNotations.
Open Scope Z_scope.

Lemma pair_key_symmetric_proof a b N : pair_to_integer a b N = pair_to_integer b a N.
Proof.
  unfold pair_to_integer. destruct (b <? a) eqn:E1, (a <? b) eqn:E2; try reflexivity; try lia.
  assert (a = b) by lia. subst. reflexivity.
Qed.

Lemma pair_key_roundtrip_proof a b N : 0 <= a -> a <= b -> b < N ->
  integer_to_pair (pair_to_integer a b N) N = (a, b).
Proof.
  intros Ha Hab Hb. unfold pair_to_integer, integer_to_pair.
  replace (b <? a) with false by lia.
  assert (HN : N <> 0) by lia.
  rewrite (Z.add_comm (a * N) b), (Z.div_add b a N HN), (Z.div_small b N) by lia.
  rewrite (Z.mod_add b a N HN), (Z.mod_small b N) by lia. reflexivity.
Qed.
