(* C19 — proofs about the positional specification (Model.ibd_spec):
     - the unfiltered segments of a pair are disjoint, in order and cover exactly the
       positions where the pair has a common ancestor, each labelled with the MRCA there;
     - the label (MRCA and the two chains) is symmetric in the pair;
     - the filtered result is the filter of the unfiltered one (by construction);
     - the strict reading of max_time is refuted. *)
From Coq Require Import List ZArith Bool Lia Arith.
From TskVerif Require Import Base.Common C19.Model C19.RunsProofs.
Import ListNotations.
Open Scope Z_scope.

(* ---- small list facts -------------------------------------------------------------- *)

Lemma zrange_length s n : length (zrange s n) = n.
Proof. revert s; induction n; intros; simpl; [reflexivity | f_equal; apply IHn]. Qed.

Lemma zrange_nth n : forall s i d, (i < n)%nat -> nth i (zrange s n) d = s + Z.of_nat i.
Proof.
  induction n as [|n IH]; intros s i d Hi; [lia|]. simpl. destruct i as [|i].
  - lia.
  - rewrite IH by lia. lia.
Qed.

Lemma nth_map_zrange {B} (f : Z -> B) n : forall s i d, (i < n)%nat ->
  nth i (map f (zrange s n)) d = f (s + Z.of_nat i).
Proof.
  induction n as [|n IH]; intros s i d Hi; [lia|]. simpl. destruct i as [|i].
  - f_equal. lia.
  - rewrite IH by lia. f_equal. lia.
Qed.

Lemma sequence_ok {A} (l : list (res A)) : forall out,
  sequence l = Ok out ->
  length out = length l /\ forall i d d', (i < length l)%nat -> nth i l d = Ok (nth i out d').
Proof.
  induction l as [|r t IH]; intros out H; simpl in H.
  - inversion H; subst. split; [reflexivity|]. intros i d d' Hi; simpl in Hi; lia.
  - destruct r as [a| | |]; simpl in H; try discriminate.
    destruct (sequence t) as [t'| | |] eqn:E; simpl in H; try discriminate.
    inversion H; subst. destruct (IH t' eq_refl) as [L N]. split; [simpl; f_equal; exact L|].
    intros [|i] d d' Hi; simpl; [reflexivity|]. apply N. simpl in Hi. lia.
Qed.

Lemma nat_list_eqb_eq a : forall b, nat_list_eqb a b = true -> a = b.
Proof.
  induction a as [|x a IH]; intros [|y b] H; simpl in H; try discriminate; [reflexivity|].
  apply andb_true_iff in H as [H1 H2]. apply Nat.eqb_eq in H1. apply IH in H2. congruence.
Qed.

Lemma label_eqb_eq (p q : label) : label_eqb p q = true -> p = q.
Proof.
  destruct p as [[m ca] cb], q as [[m' ca'] cb']. simpl. intros H.
  apply andb_true_iff in H as [H H3]. apply andb_true_iff in H as [H1 H2].
  apply Z.eqb_eq in H1. apply nat_list_eqb_eq in H2. apply nat_list_eqb_eq in H3. congruence.
Qed.

Lemma nat_list_eqb_refl a : nat_list_eqb a a = true.
Proof. induction a as [|x a IH]; simpl; [reflexivity|]. rewrite Nat.eqb_refl, IH. reflexivity. Qed.

Lemma label_eqb_refl (p : label) : label_eqb p p = true.
Proof. destruct p as [[m ca] cb]. simpl. rewrite Z.eqb_refl, !nat_list_eqb_refl. reflexivity. Qed.

(* ---- segments of a pair: disjoint, and covering exactly the common-ancestor positions -- *)

Definition label_mrca (l : label) : Z := fst (fst l).

Lemma lookup_seg_of_run x (rs : list (Z * Z * label)) :
  lookup x (map seg_of_run rs) = option_map label_mrca (lookup x rs).
Proof.
  induction rs as [|[[l r] [[m ca] cb]] t IH]; simpl; [reflexivity|].
  destruct ((l <=? x) && (x <? r)); [reflexivity | exact IH].
Qed.

Lemma ordered_seg_of_run lo hi (rs : list (Z * Z * label)) :
  ordered lo hi rs -> ordered lo hi (map seg_of_run rs).
Proof.
  revert lo; induction rs as [|[[l r] [[m ca] cb]] t IH]; simpl; intros lo H; [exact H|].
  destruct H as (H1 & H2 & H3). repeat split; auto.
Qed.

Lemma spec_cover_lemma :
  forall (c : case) (a b : Z) (segs : list seg),
    pair_segments c a b = Ok segs ->
    ordered 0 (Z.max 0 (cL c)) segs /\
    forall x, 0 <= x < cL c ->
      exists lab, label_at (spec_fuel c) (cedges c) x a b = Ok lab /\
                  lookup x segs = option_map label_mrca lab.
Proof.
  intros c a b segs H. unfold pair_segments in H.
  destruct (labels c a b) as [ls| | |] eqn:EL; simpl in H; try discriminate.
  inversion H; subst segs; clear H.
  unfold labels in EL. apply sequence_ok in EL as [Len Nth].
  rewrite map_length, zrange_length in Len.
  destruct (runs_partition_lemma label_eqb label_eqb_eq 0 ls) as [O M].
  split.
  - apply ordered_seg_of_run. replace (Z.max 0 (cL c)) with (0 + zlen ls); [exact O|].
    unfold zlen. rewrite Len. lia.
  - intros x Hx. exists (nth (Z.to_nat x) ls None).
    assert (Hi : (Z.to_nat x < Z.to_nat (cL c))%nat) by lia.
    split.
    + specialize (Nth (Z.to_nat x) Fuel None).
      rewrite map_length, zrange_length in Nth. specialize (Nth Hi).
      rewrite <- Nth. rewrite nth_map_zrange by exact Hi. f_equal. lia.
    + rewrite lookup_seg_of_run. f_equal.
      rewrite <- M at 2. rewrite Len. rewrite nth_map_zrange by exact Hi. f_equal. lia.
Qed.

Lemma spec_maximal_lemma :
  forall (c : case) (a b : Z) (ls : list (option label)),
    labels c a b = Ok ls -> no_merge label_eqb (runs label_eqb 0 ls).
Proof. intros. apply runs_maximal_lemma. exact label_eqb_eq. Qed.

(* ---- walking up: determinism, suffixes, acyclicity of a successful walk ---------------- *)

(* l is the walk from u at position x (as found by edge_above) *)
Fixpoint is_walk (es : list edge) (x u : Z) (l : list (nat * Z)) : Prop :=
  match l with
  | [] => edge_above es x u = None
  | (i, p) :: t => (exists e, edge_above es x u = Some (i, e) /\ eparent e = p) /\ is_walk es x p t
  end.

Lemma ups_is_walk es x : forall fuel u l, ups fuel es x u = Some l -> is_walk es x u l.
Proof.
  induction fuel as [|f IH]; intros u l H; simpl in H; [discriminate|].
  destruct (edge_above es x u) as [[i e]|] eqn:E.
  - destruct (ups f es x (eparent e)) as [l'|] eqn:E2; [|discriminate].
    inversion H; subst. simpl. split; [exists e; auto | apply IH; exact E2].
  - inversion H; subst. simpl. exact E.
Qed.

Lemma is_walk_det es x : forall l1 u l2, is_walk es x u l1 -> is_walk es x u l2 -> l1 = l2.
Proof.
  induction l1 as [|[i p] t IH]; intros u [|[j q] t2] H1 H2; simpl in *; try reflexivity.
  - destruct H2 as [[e [E _]] _]. congruence.
  - destruct H1 as [[e [E _]] _]. congruence.
  - destruct H1 as [[e1 [E1 P1]] W1], H2 as [[e2 [E2 P2]] W2].
    rewrite E1 in E2. inversion E2; subst. f_equal. eapply IH; eauto.
Qed.

(* ancestors including the node itself *)
Definition ancs (u : Z) (l : list (nat * Z)) : list Z := u :: map snd l.

Lemma is_walk_suffix es x : forall l u k, is_walk es x u l -> (k <= length l)%nat ->
  is_walk es x (nth k (ancs u l) 0) (skipn k l).
Proof.
  induction l as [|[i p] t IH]; intros u k W Hk; simpl in Hk.
  - assert (k = 0)%nat by lia. subst. simpl. exact W.
  - destruct k as [|k]; [simpl; exact W|].
    destruct W as [_ W]. simpl skipn. change (nth (S k) (ancs u ((i, p) :: t)) 0) with (nth k (ancs p t) 0).
    apply IH; [exact W | lia].
Qed.

Lemma ancs_skipn u l k : (k <= length l)%nat ->
  skipn k (ancs u l) = ancs (nth k (ancs u l) 0) (skipn k l).
Proof.
  revert u k; induction l as [|[i p] t IH]; intros u k Hk; simpl in Hk.
  - assert (k = 0)%nat by lia. subst. reflexivity.
  - destruct k as [|k]; [reflexivity|].
    change (skipn (S k) (ancs u ((i, p) :: t))) with (skipn k (ancs p t)).
    change (nth (S k) (ancs u ((i, p) :: t)) 0) with (nth k (ancs p t) 0).
    simpl skipn at 2. apply IH. lia.
Qed.

(* a successful walk never visits a node twice *)
Lemma is_walk_nodup es x u l : is_walk es x u l -> NoDup (ancs u l).
Proof.
  intros W. apply (NoDup_nth (ancs u l) 0). intros i j Hi Hj E.
  unfold ancs in Hi, Hj. simpl in Hi, Hj. rewrite map_length in Hi, Hj.
  destruct (Nat.eq_dec i j) as [|N]; [assumption|]. exfalso.
  pose proof (is_walk_suffix es x l u i W ltac:(lia)) as Wi.
  pose proof (is_walk_suffix es x l u j W ltac:(lia)) as Wj.
  rewrite E in Wi. pose proof (is_walk_det es x _ _ _ Wi Wj) as D.
  apply (f_equal (@length _)) in D. rewrite !skipn_length in D. lia.
Qed.

(* two walks that meet continue identically *)
Lemma walks_merge es x a b la lb i j :
  is_walk es x a la -> is_walk es x b lb ->
  (i <= length la)%nat -> (j <= length lb)%nat ->
  nth i (ancs a la) 0 = nth j (ancs b lb) 0 ->
  skipn i la = skipn j lb /\ skipn i (ancs a la) = skipn j (ancs b lb).
Proof.
  intros Wa Wb Hi Hj E.
  pose proof (is_walk_suffix es x la a i Wa Hi) as Wi.
  pose proof (is_walk_suffix es x lb b j Wb Hj) as Wj.
  rewrite E in Wi. pose proof (is_walk_det es x _ _ _ Wi Wj) as D.
  split; [exact D|]. rewrite !ancs_skipn by assumption. rewrite E, D. reflexivity.
Qed.

(* ---- first_common -------------------------------------------------------------------- *)

Lemma index_of_some u l k : index_of u l = Some k ->
  (k < length l)%nat /\ nth k l 0 = u /\ forall k', (k' < k)%nat -> nth k' l 0 <> u.
Proof.
  revert k; induction l as [|v t IH]; intros k H; simpl in H; [discriminate|].
  destruct (v =? u) eqn:E.
  - inversion H; subst. apply Z.eqb_eq in E. simpl. repeat split; [lia | assumption | intros; lia].
  - destruct (index_of u t) as [k0|] eqn:E2; [|discriminate]. inversion H; subst.
    destruct (IH k0 eq_refl) as (H1 & H2 & H3). apply Z.eqb_neq in E. simpl.
    repeat split; [lia | assumption |]. intros [|k'] Hk; simpl; [assumption | apply H3; lia].
Qed.

Lemma index_of_none u l : index_of u l = None -> ~ In u l.
Proof.
  induction l as [|v t IH]; simpl; intros H; [tauto|].
  destruct (v =? u) eqn:E; [discriminate|].
  destruct (index_of u t); [discriminate|]. apply Z.eqb_neq in E. intros [F|F]; [congruence | apply IH; auto].
Qed.

Lemma index_of_in u l : In u l -> exists k, index_of u l = Some k.
Proof.
  intros H. destruct (index_of u l) as [k|] eqn:E; [eauto|]. apply index_of_none in E. contradiction.
Qed.

Lemma first_common_some la lb : forall s i j m,
  first_common la lb s = Some (i, j, m) ->
  (s <= i)%nat /\ (i - s < length la)%nat /\ nth (i - s) la 0 = m /\ index_of m lb = Some j /\
  forall k, (k < i - s)%nat -> ~ In (nth k la 0) lb.
Proof.
  induction la as [|u t IH]; intros s i j m H; simpl in H; [discriminate|].
  destruct (index_of u lb) as [j0|] eqn:E.
  - inversion H; subst. replace (i - i)%nat with 0%nat by lia. simpl.
    repeat split; try lia; try assumption.
  - destruct (IH (S s) i j m H) as (H1 & H2 & H3 & H4 & H5).
    replace (i - s)%nat with (S (i - S s)) by lia. simpl.
    repeat split; try lia; try assumption.
    intros [|k] Hk; [apply index_of_none; exact E | apply H5; lia].
Qed.

Lemma first_common_none la lb : forall s,
  first_common la lb s = None -> forall u, In u la -> ~ In u lb.
Proof.
  induction la as [|v t IH]; intros s H u Hu; simpl in *; [contradiction|].
  destruct (index_of v lb) eqn:E; [discriminate|].
  destruct Hu as [->|Hu]; [apply index_of_none; exact E | eapply IH; eauto].
Qed.

(* completeness: a common element forces a result *)
Lemma first_common_exists la lb : forall s u,
  In u la -> In u lb -> exists i j m, first_common la lb s = Some (i, j, m).
Proof.
  intros s u Ha Hb. destruct (first_common la lb s) as [[[i j] m]|] eqn:E; [eauto|].
  exfalso. exact (first_common_none la lb s E u Ha Hb).
Qed.

Lemma nth_skipn_c19 {A} (l : list A) d : forall i k, nth k (skipn i l) d = nth (i + k) l d.
Proof.
  induction l as [|x t IH]; intros i k.
  - rewrite skipn_nil. destruct k, i; reflexivity.
  - destruct i as [|i]; [reflexivity|]. simpl. apply IH.
Qed.

Lemma nth_skipn_in {A} (l : list A) d i k : (i <= k)%nat -> (k < length l)%nat -> In (nth k l d) (skipn i l).
Proof.
  intros H1 H2. replace k with (i + (k - i))%nat by lia.
  rewrite <- nth_skipn_c19. apply nth_In. rewrite skipn_length. lia.
Qed.

Lemma in_skipn_nth {A} (l : list A) d i x : In x (skipn i l) -> exists k, (i <= k)%nat /\ (k < length l)%nat /\ nth k l d = x.
Proof.
  intros H. apply (In_nth _ _ d) in H as (k & Hk & E). rewrite skipn_length in Hk.
  rewrite nth_skipn_c19 in E. exists (i + k)%nat. repeat split; [lia | lia | exact E].
Qed.

(* symmetry of the meeting point for two walks *)
Lemma first_common_sym es x a b la lb i j m :
  is_walk es x a la -> is_walk es x b lb ->
  first_common (ancs a la) (ancs b lb) 0 = Some (i, j, m) ->
  first_common (ancs b lb) (ancs a la) 0 = Some (j, i, m).
Proof.
  intros Wa Wb H.
  pose proof (is_walk_nodup es x a la Wa) as Na.
  pose proof (is_walk_nodup es x b lb Wb) as Nb.
  apply first_common_some in H as (_ & Hi & Hm & Hj & Hmin).
  rewrite Nat.sub_0_r in *.
  apply index_of_some in Hj as (Hj & Hjm & _).
  assert (LA : length (ancs a la) = S (length la)) by (unfold ancs; simpl; rewrite map_length; reflexivity).
  assert (LB : length (ancs b lb) = S (length lb)) by (unfold ancs; simpl; rewrite map_length; reflexivity).
  destruct (walks_merge es x a b la lb i j Wa Wb ltac:(lia) ltac:(lia) ltac:(congruence)) as [_ SK].
  destruct (first_common_exists (ancs b lb) (ancs a la) 0 m) as (j' & i' & m' & H').
  { rewrite <- Hjm. apply nth_In. exact Hj. }
  { rewrite <- Hm. apply nth_In. exact Hi. }
  rewrite H'. apply first_common_some in H' as (_ & Hj' & Hm' & Hi' & Hmin').
  rewrite Nat.sub_0_r in *.
  apply index_of_some in Hi' as (Hi' & Him' & _).
  (* j' <= j because B[j] is in A *)
  assert (Hle : (j' <= j)%nat).
  { destruct (le_lt_dec j' j) as [|Hlt]; [assumption|]. exfalso.
    apply (Hmin' j Hlt). rewrite Hjm, <- Hm. apply nth_In. exact Hi. }
  (* i <= i' because A[i'] = m' is in B *)
  assert (Hle2 : (i <= i')%nat).
  { destruct (le_lt_dec i i') as [|Hlt]; [assumption|]. exfalso.
    apply (Hmin i' Hlt). rewrite Him', <- Hm'. apply nth_In. exact Hj'. }
  (* A[i'] lies in skipn i A = skipn j B, so it is B[j''] with j'' >= j; NoDup B gives j' = j'' *)
  assert (Hin : In m' (skipn j (ancs b lb))).
  { rewrite <- SK. rewrite <- Him'. apply nth_skipn_in; assumption. }
  apply (in_skipn_nth _ 0) in Hin as (j'' & Hj''1 & Hj''2 & Hj''3).
  assert (j' = j'').
  { apply (proj1 (NoDup_nth (ancs b lb) 0) Nb); try assumption. congruence. }
  assert (j' = j) by lia. subst j''. subst j'.
  assert (m' = m) by congruence. subst m'.
  assert (i' = i).
  { apply (proj1 (NoDup_nth (ancs a la) 0) Na); try assumption. congruence. }
  subst. f_equal. f_equal. congruence.
Qed.

Definition swap_label (l : label) : label := let '(m, ca, cb) := l in (m, cb, ca).

Lemma label_of_walks_sym es x a b ua ub :
  is_walk es x a ua -> is_walk es x b ub ->
  label_of_walks b a ub ua = option_map swap_label (label_of_walks a b ua ub).
Proof.
  intros Wa Wb. unfold label_of_walks. fold (ancs a ua). fold (ancs b ub).
  destruct (first_common (ancs a ua) (ancs b ub) 0) as [[[i j] m]|] eqn:E.
  - rewrite (first_common_sym es x a b ua ub i j m Wa Wb E). reflexivity.
  - destruct (first_common (ancs b ub) (ancs a ua) 0) as [[[j i] m]|] eqn:E2; [|reflexivity].
    exfalso. apply first_common_some in E2 as (_ & Hj & Hm & Hi & _).
    apply index_of_some in Hi as (Hi & Him & _).
    apply (first_common_none _ _ _ E m); [rewrite <- Him | rewrite <- Hm]; apply nth_In; assumption.
Qed.

(* (e) the label of a position is symmetric in the pair: same MRCA, chains exchanged *)
Lemma mrca_symmetric_lemma :
  forall fuel es x a b lab,
    label_at fuel es x a b = Ok lab ->
    label_at fuel es x b a = Ok (option_map swap_label lab).
Proof.
  intros fuel es x a b lab H. unfold label_at in *.
  destruct (ups fuel es x a) as [ua|] eqn:Ea; [|destruct (ups fuel es x b); discriminate].
  destruct (ups fuel es x b) as [ub|] eqn:Eb; [|discriminate].
  inversion H; subst. f_equal.
  apply (label_of_walks_sym es x); eapply ups_is_walk; eauto.
Qed.

(* the MRCA is a common ancestor and lies on both walks at the ends of the two chains *)
Lemma label_sound_lemma :
  forall fuel es x a b m ca cb ua ub,
    ups fuel es x a = Some ua -> ups fuel es x b = Some ub ->
    label_at fuel es x a b = Ok (Some (m, ca, cb)) ->
    nth (length ca) (ancs a ua) 0 = m /\ nth (length cb) (ancs b ub) 0 = m /\
    ca = map fst (firstn (length ca) ua) /\ cb = map fst (firstn (length cb) ub) /\
    (forall k, (k < length ca)%nat -> ~ In (nth k (ancs a ua) 0) (ancs b ub)).
Proof.
  intros fuel es x a b m ca cb ua ub Ea Eb H. unfold label_at in H. rewrite Ea, Eb in H.
  inversion H as [H1]; clear H. unfold label_of_walks in H1. fold (ancs a ua) in H1. fold (ancs b ub) in H1.
  destruct (first_common (ancs a ua) (ancs b ub) 0) as [[[i j] m']|] eqn:E; [|discriminate].
  inversion H1; subst; clear H1.
  apply first_common_some in E as (_ & Hi & Hm & Hj & Hmin). rewrite Nat.sub_0_r in *.
  apply index_of_some in Hj as (Hj & Hjm & _).
  unfold ancs in Hi, Hj. simpl in Hi, Hj. rewrite map_length in Hi, Hj.
  rewrite !map_length, !firstn_length, !Nat.min_l by lia.
  repeat split; auto.
Qed.

(* ---- (d) on the specification: filters are a filter of the unfiltered result ----------- *)

Lemma filter_res_ok {A} (f : A -> res bool) (g : A -> bool) (l : list A) :
  (forall a, In a l -> f a = Ok (g a)) -> filter_res f l = Ok (filter g l).
Proof.
  induction l as [|a t IH]; intros H; simpl; [reflexivity|].
  rewrite (H a) by (left; reflexivity). simpl. rewrite IH by (intros; apply H; right; assumption).
  simpl. reflexivity.
Qed.

Lemma filter_res_sub {A} (f : A -> res bool) (l out : list A) :
  filter_res f l = Ok out -> forall a, In a out -> In a l /\ f a = Ok true.
Proof.
  revert out; induction l as [|x t IH]; intros out H a Ha; simpl in H.
  - inversion H; subst. contradiction.
  - destruct (f x) as [bx| | |] eqn:Ex; simpl in H; try discriminate.
    destruct (filter_res f t) as [t'| | |] eqn:Et; simpl in H; try discriminate.
    inversion H; subst; clear H. destruct bx.
    + destruct Ha as [->|Ha]; [split; [left; reflexivity | exact Ex]|].
      destruct (IH t' eq_refl a Ha). split; [right|]; assumption.
    + destruct (IH t' eq_refl a Ha). split; [right|]; assumption.
Qed.

(* what a kept segment satisfies: the two documented thresholds, in the form the code uses *)
Lemma spec_filter_lemma :
  forall (c : case) (a b : Z) (segs kept : list seg),
    pair_segments c a b = Ok segs ->
    pair_segments_filtered c a b = Ok kept ->
    forall s, In s kept ->
      In s segs /\ cminspan2 c < 2 * seg_span s /\
      match cmaxtime2 c with
      | None => True
      | Some m => exists t, get (ctimes c) (seg_node s) = Ok t /\ 2 * t <= m
      end.
Proof.
  intros c a b segs kept H1 H2 s Hs. unfold pair_segments_filtered in H2. rewrite H1 in H2. simpl in H2.
  destruct (filter_res_sub _ _ _ H2 s Hs) as [Hin Hp]. split; [exact Hin|].
  unfold seg_passes, time_passes in Hp.
  destruct (cmaxtime2 c) as [m|].
  - destruct (get (ctimes c) (seg_node s)) as [t| | |] eqn:Et; simpl in Hp; try discriminate.
    inversion Hp as [Hb]. apply andb_true_iff in Hb as [Hb1 Hb2].
    unfold span_passes in Hb1. apply Z.ltb_lt in Hb1. apply Z.leb_le in Hb2.
    split; [exact Hb1|]. exists t. split; [reflexivity | exact Hb2].
  - simpl in Hp. inversion Hp as [Hb]. rewrite andb_true_r in Hb.
    unfold span_passes in Hb. apply Z.ltb_lt in Hb. split; [exact Hb | exact I].
Qed.

(* conversely every unfiltered segment meeting both thresholds is kept, in the same order *)
Lemma spec_filter_complete_lemma :
  forall (c : case) (a b : Z) (segs : list seg),
    pair_segments c a b = Ok segs ->
    (forall s, In s segs -> 0 <= seg_node s < num_nodes c) ->
    pair_segments_filtered c a b =
      Ok (filter (fun s => span_passes (cminspan2 c) s &&
                           match cmaxtime2 c with
                           | None => true
                           | Some m => match get (ctimes c) (seg_node s) with Ok t => 2 * t <=? m | _ => false end
                           end) segs).
Proof.
  intros c a b segs H Hn. unfold pair_segments_filtered. rewrite H. simpl.
  apply filter_res_ok. intros s Hs. unfold seg_passes, time_passes.
  destruct (cmaxtime2 c) as [m|]; [|reflexivity].
  destruct (proj2 (get_ok_iff (ctimes c) (seg_node s)) (Hn s Hs)) as [t Et].
  rewrite Et. reflexivity.
Qed.

(* ---- non-vacuity: the docs example ------------------------------------------------------ *)

Definition docs_case (ms2 : Z) (mt2 : option Z) : case :=
  mkCase 10 [0; 0; 0; 1; 2; 3] [1; 1; 1; 0; 0; 0]
         [mkE 2 10 3 0; mkE 2 10 3 2; mkE 0 10 4 1; mkE 0 2 4 2; mkE 2 10 4 3; mkE 0 2 5 0; mkE 0 2 5 4]
         GDefault ms2 mt2.

(* docs/ibd.md: pair (1,2) has TWO segments with the same MRCA 4 because the paths differ *)
Example docs_example_spec :
  ibd_spec (docs_case 0 None)
  = Ok [((0, 1), [(0, 2, 5); (2, 10, 4)]); ((0, 2), [(0, 2, 5); (2, 10, 3)]); ((1, 2), [(0, 2, 4); (2, 10, 4)])].
Proof. vm_compute. reflexivity. Qed.

Example docs_example_labels :
  label_at 7 (cedges (docs_case 0 None)) 1 1 2 = Ok (Some (4, [2%nat], [3%nat])) /\
  label_at 7 (cedges (docs_case 0 None)) 5 1 2 = Ok (Some (4, [2%nat], [1%nat; 4%nat])) /\
  label_at 7 (cedges (docs_case 0 None)) 5 2 1 = Ok (Some (4, [1%nat; 4%nat], [2%nat])).
Proof. vm_compute. repeat split; reflexivity. Qed.

Example docs_example_filters :
  ibd_spec (docs_case 4 (Some 5))       (* min_span = 2, max_time = 2.5 *)
  = Ok [((0, 1), [(2, 10, 4)]); ((0, 2), [(2, 10, 3)]); ((1, 2), [(2, 10, 4)])].
Proof. vm_compute. reflexivity. Qed.

(* The documentation's strict reading of max_time ("more recent than") is false for the
   specification the code implements: with max_time = 2 = time(node 4) the segments with
   MRCA 4 are returned.  (The same input is replayed on the C code by the harness; see
   notes/C19.md.) *)
Lemma max_time_strict_refuted_lemma :
  exists (c : case) (r : result) (pr : (Z * Z) * list seg) (s : seg) (t m : Z),
    ibd_spec c = Ok r /\ In pr r /\ In s (snd pr) /\
    cmaxtime2 c = Some m /\ get (ctimes c) (seg_node s) = Ok t /\ ~ (2 * t < m).
Proof.
  exists (docs_case 0 (Some 4)),
         [((0, 1), [(2, 10, 4)]); ((0, 2), [(2, 10, 3)]); ((1, 2), [(0, 2, 4); (2, 10, 4)])],
         ((0, 1), [(2, 10, 4)]), (2, 10, 4), 2, 4.
  repeat split; try (vm_compute; reflexivity); simpl; auto. lia.
Qed.
